// Command facts is the fact translator: it reads /repo's current sources with
// go/ast and writes Keto/Generated/Facts.lean. Every table it emits is consumed by
// the Lean model or compared with a hand-written expectation by a `decide` proof
// (Keto/Proofs/FactsTie.lean), so a source change that alters a fact either changes
// the model's constants or breaks a proof obligation. A shape the extractor does
// not understand is an error, never a guess.
package main

import (
	"bytes"
	"encoding/json"
	"flag"
	"fmt"
	"go/ast"
	"go/parser"
	"go/printer"
	"go/token"
	"os"
	"path/filepath"
	"sort"
	"strconv"
	"strings"
)

type facts struct {
	IntConsts    map[string]int64    `json:"int_consts"`
	StrConsts    map[string]string   `json:"str_consts"`
	DepthGuards  [][3]string         `json:"depth_guards"`  // file, func, guard
	DepthCalls   [][4]string         `json:"depth_calls"`   // file, caller, callee, args mentioning depth / literals
	ChanSites    [][3]string         `json:"chan_sites"`    // file, func, capacity
	Routes       [][4]string         `json:"routes"`        // file, router func, method, handler
	MapperUse    [][3]string         `json:"mapper_use"`    // file, func, Mapper|ReadOnlyMapper
	ManagerWrite [][3]string         `json:"manager_write"` // file, func, method
	SQLStrings   [][3]string         `json:"sql_strings"`   // file, func, literal
	LazyInit     [][3]string         `json:"lazy_init"`     // file, func, field
	JSONTags     [][3]string         `json:"json_tags"`     // type, field, tag
	InitCalls    [][3]string         `json:"init_calls"`    // file, func, method called on the receiver
	LockUse      [][3]string         `json:"lock_use"`      // file, func, Lock|RLock|none
	SQLNid       [][3]string         `json:"sql_nid"`       // file, func, verdict for every raw SQL literal on keto_relation_tuples
	WidthSites   [][3]string         `json:"width_sites"`   // file, func, "MaxReadWidth" for every function of the engines that reads the width limit
	StructFields [][3]string         `json:"struct_fields"` // file, struct type, "field: type" for every field of the engines (they hold their dependencies and nothing else)
	UUIDDerive   [][3]string         `json:"uuid_derive"`   // file, func, "NewV5:<namespace argument>" for every uuid.NewV5 call / "calls:<method>" for the mapping methods a mapping method calls on its receiver
	BatchGuards  [][3]string         `json:"batch_guards"`  // file, func, comparison operator of len(…Tuples) against BatchCheckMaxBatchSize()
	Misc         map[string]string   `json:"misc"`
	// translated expressions: (file, func, Go text, Lean definition name); the Lean text is in leanDefs
	DepthConds [][4]string `json:"depth_conds"`
	DepthArgs  [][4]string `json:"depth_args"`
	leanDefs   []string
	files        map[string]*ast.File
	fset         *token.FileSet
}

func die(format string, a ...any) {
	fmt.Fprintf(os.Stderr, "facts: "+format+"\n", a...)
	os.Exit(1)
}

func exprString(fset *token.FileSet, e ast.Node) string {
	var b bytes.Buffer
	_ = printer.Fprint(&b, fset, e)
	return strings.Join(strings.Fields(b.String()), " ")
}

func (f *facts) parse(repo, rel string) *ast.File {
	if af, ok := f.files[rel]; ok {
		return af
	}
	af, err := parser.ParseFile(f.fset, filepath.Join(repo, rel), nil, parser.ParseComments)
	if err != nil {
		die("cannot parse %s: %v", rel, err)
	}
	f.files[rel] = af
	return af
}

func (f *facts) consts(repo, rel string, names ...string) {
	af := f.parse(repo, rel)
	found := map[string]bool{}
	ast.Inspect(af, func(n ast.Node) bool {
		vs, ok := n.(*ast.ValueSpec)
		if !ok {
			return true
		}
		for i, id := range vs.Names {
			for _, want := range names {
				if id.Name != want || i >= len(vs.Values) {
					continue
				}
				// a constant the translator cannot read is recorded as 0 / "" (not fatal): the theorems
				// that use it (positivity, the models' sizes) then no longer check, and only those
				lit, ok := vs.Values[i].(*ast.BasicLit)
				if !ok {
					continue
				}
				switch lit.Kind {
				case token.INT:
					if v, err := strconv.ParseInt(lit.Value, 0, 64); err == nil && v >= 0 {
						f.IntConsts[want] = v
						found[want] = true
					}
				case token.STRING:
					if s, err := strconv.Unquote(lit.Value); err == nil {
						f.StrConsts[want] = s
						found[want] = true
					}
				}
			}
		}
		return true
	})
	for _, n := range names {
		if !found[n] {
			if n == "WildcardRelation" {
				f.StrConsts[n] = ""
			} else {
				f.IntConsts[n] = 0
			}
		}
	}
}

func mentions(e ast.Expr, name string) bool {
	hit := false
	ast.Inspect(e, func(n ast.Node) bool {
		if id, ok := n.(*ast.Ident); ok && id.Name == name {
			hit = true
		}
		return true
	})
	return hit
}

func funcName(fd *ast.FuncDecl) string {
	if fd.Recv != nil && len(fd.Recv.List) > 0 {
		return exprStringNoSet(fd.Recv.List[0].Type) + "." + fd.Name.Name
	}
	return fd.Name.Name
}

func exprStringNoSet(e ast.Expr) string {
	switch t := e.(type) {
	case *ast.StarExpr:
		return exprStringNoSet(t.X)
	case *ast.Ident:
		return t.Name
	case *ast.IndexExpr:
		return exprStringNoSet(t.X)
	}
	return "?"
}

// leanExpr translates a Go expression over integer variables and literals (comparison,
// && || !, + - *, parentheses) to a Lean term; isBool says whether the result is Bool.
// Free identifiers become the variables of the definition. Anything else is refused.
func leanExpr(e ast.Expr, vars map[string]bool) (text string, isBool bool, ok bool) {
	switch x := e.(type) {
	case *ast.ParenExpr:
		t, b, ok := leanExpr(x.X, vars)
		return "(" + t + ")", b, ok
	case *ast.Ident:
		if x.Name == "true" || x.Name == "false" {
			return x.Name, true, true
		}
		vars[x.Name] = true
		return x.Name, false, true
	case *ast.BasicLit:
		if x.Kind == token.INT {
			return "(" + x.Value + " : Int)", false, true
		}
	case *ast.UnaryExpr:
		t, b, ok := leanExpr(x.X, vars)
		if !ok {
			return "", false, false
		}
		switch x.Op {
		case token.NOT:
			if b {
				return "(!" + t + ")", true, true
			}
		case token.SUB:
			if !b {
				return "(-" + t + ")", false, true
			}
		}
	case *ast.BinaryExpr:
		l, lb, ok1 := leanExpr(x.X, vars)
		r, rb, ok2 := leanExpr(x.Y, vars)
		if !ok1 || !ok2 {
			return "", false, false
		}
		switch x.Op {
		case token.LAND, token.LOR:
			if lb && rb {
				op := map[token.Token]string{token.LAND: "&&", token.LOR: "||"}[x.Op]
				return "(" + l + " " + op + " " + r + ")", true, true
			}
		case token.LSS, token.LEQ, token.GTR, token.GEQ, token.EQL, token.NEQ:
			if !lb && !rb {
				op := map[token.Token]string{token.LSS: "<", token.LEQ: "≤", token.GTR: ">", token.GEQ: "≥", token.EQL: "=", token.NEQ: "≠"}[x.Op]
				return "decide (" + l + " " + op + " " + r + ")", true, true
			}
		case token.ADD, token.SUB, token.MUL:
			if !lb && !rb {
				op := map[token.Token]string{token.ADD: "+", token.SUB: "-", token.MUL: "*"}[x.Op]
				return "(" + l + " " + op + " " + r + ")", false, true
			}
		}
	}
	return "", false, false
}

// leanDef emits `def <name> (v1 v2 … : Int) : Bool|Int := <term>` with the free variables in
// alphabetical order (the order the hand-written expectations in FactsTie.lean rely on).
func (f *facts) leanDef(name string, e ast.Expr, wantBool bool) bool {
	vars := map[string]bool{}
	t, b, ok := leanExpr(e, vars)
	if !ok || b != wantBool {
		return false
	}
	var vs []string
	for v := range vars {
		vs = append(vs, v)
	}
	sort.Strings(vs)
	ty := "Int"
	if wantBool {
		ty = "Bool"
	}
	params := ""
	if len(vs) > 0 {
		params = " (" + strings.Join(vs, " ") + " : Int)"
	}
	f.leanDefs = append(f.leanDefs, fmt.Sprintf("def %s%s : %s := %s", name, params, ty, t))
	return true
}

// depth extracts, per function, the guards on the depth parameter and the depth
// arguments handed to the engine's recursive functions.
func (f *facts) depth(repo, rel, depthVar string, callees map[string]bool) {
	af := f.parse(repo, rel)
	for _, d := range af.Decls {
		fd, ok := d.(*ast.FuncDecl)
		if !ok || fd.Body == nil {
			continue
		}
		name := funcName(fd)
		ast.Inspect(fd.Body, func(n ast.Node) bool {
			switch x := n.(type) {
			case *ast.IfStmt:
				// the whole condition of every `if` that tests the depth, translated
				if mentions(x.Cond, depthVar) {
					dn := fmt.Sprintf("cond%d", len(f.DepthConds))
					if !f.leanDef(dn, x.Cond, true) {
						// not fatal: the depth tie (FactsTie.lean) no longer elaborates, and with it the
						// proof obligations of the properties that rely on it
						f.leanDefs = append(f.leanDefs, fmt.Sprintf("def %s : Bool := false -- untranslatable: %s", dn, exprString(f.fset, x.Cond)))
					}
					f.DepthConds = append(f.DepthConds, [4]string{rel, name, exprString(f.fset, x.Cond), dn})
				}
			case *ast.BinaryExpr:
				if id, ok := x.X.(*ast.Ident); ok && id.Name == depthVar {
					if _, ok := x.Y.(*ast.BasicLit); ok && (x.Op == token.LEQ || x.Op == token.LSS || x.Op == token.GEQ || x.Op == token.GTR || x.Op == token.EQL) {
						f.DepthGuards = append(f.DepthGuards, [3]string{rel, name, exprString(f.fset, x)})
					}
				}
			case *ast.CallExpr:
				var callee string
				switch fn := x.Fun.(type) {
				case *ast.SelectorExpr:
					callee = fn.Sel.Name
				case *ast.Ident:
					callee = fn.Name
				}
				if !callees[callee] {
					return true
				}
				var args []string
				for _, a := range x.Args {
					if mentions(a, depthVar) {
						dn := fmt.Sprintf("arg%d", len(f.DepthArgs))
						if !f.leanDef(dn, a, false) {
							f.leanDefs = append(f.leanDefs, fmt.Sprintf("def %s : Int := 0 -- untranslatable: %s", dn, exprString(f.fset, a)))
						}
						f.DepthArgs = append(f.DepthArgs, [4]string{rel, name, callee, dn})
						args = append(args, exprString(f.fset, a))
					} else if id, ok := a.(*ast.Ident); ok && (id.Name == "true" || id.Name == "false") {
						args = append(args, id.Name)
					}
				}
				f.DepthCalls = append(f.DepthCalls, [4]string{rel, name, callee, strings.Join(args, ",")})
			}
			return true
		})
	}
}

// widthSites: the functions that read limit.max_read_width (the model applies the width limit to the subject-set
// expansion of a direct check and nowhere else).
func (f *facts) widthSites(repo, rel string) {
	af := f.parse(repo, rel)
	for _, d := range af.Decls {
		fd, ok := d.(*ast.FuncDecl)
		if !ok || fd.Body == nil {
			continue
		}
		n := 0
		ast.Inspect(fd.Body, func(x ast.Node) bool {
			if se, ok := x.(*ast.SelectorExpr); ok && se.Sel.Name == "MaxReadWidth" {
				n++
			}
			return true
		})
		for i := 0; i < n; i++ {
			f.WidthSites = append(f.WidthSites, [3]string{rel, funcName(fd), "MaxReadWidth"})
		}
	}
}

// structFields: the fields of a struct type (the engines must be stateless: whatever a request needs
// lives in the request's context, not in the engine that serves every request and every tenant).
func (f *facts) structFields(repo, rel, typ string) {
	af := f.parse(repo, rel)
	ast.Inspect(af, func(n ast.Node) bool {
		ts, ok := n.(*ast.TypeSpec)
		if !ok || ts.Name.Name != typ {
			return true
		}
		st, ok := ts.Type.(*ast.StructType)
		if !ok {
			return true
		}
		for _, fld := range st.Fields.List {
			ty := exprString(f.fset, fld.Type)
			if len(fld.Names) == 0 {
				f.StructFields = append(f.StructFields, [3]string{rel, typ, "(embedded): " + ty})
			}
			for _, nme := range fld.Names {
				f.StructFields = append(f.StructFields, [3]string{rel, typ, nme.Name + ": " + ty})
			}
		}
		return false
	})
}

// uuidDerive: where name UUIDs come from: the namespace argument of every uuid.NewV5 call of the file, and
// which of the mapping methods each mapping method calls on its receiver (the writing variant must derive
// its ids exactly as the read-only one does: by calling it).
func (f *facts) uuidDerive(repo, rel string) {
	af := f.parse(repo, rel)
	for _, d := range af.Decls {
		fd, ok := d.(*ast.FuncDecl)
		if !ok || fd.Body == nil {
			continue
		}
		name := funcName(fd)
		recv := ""
		if fd.Recv != nil && len(fd.Recv.List[0].Names) > 0 {
			recv = fd.Recv.List[0].Names[0].Name
		}
		ast.Inspect(fd.Body, func(n ast.Node) bool {
			ce, ok := n.(*ast.CallExpr)
			if !ok {
				return true
			}
			se, ok := ce.Fun.(*ast.SelectorExpr)
			if !ok {
				return true
			}
			if id, ok := se.X.(*ast.Ident); ok && id.Name == "uuid" && strings.HasPrefix(se.Sel.Name, "NewV") && len(ce.Args) > 0 {
				f.UUIDDerive = append(f.UUIDDerive, [3]string{rel, name, se.Sel.Name + ":" + exprString(f.fset, ce.Args[0])})
			}
			if id, ok := se.X.(*ast.Ident); ok && recv != "" && id.Name == recv && strings.HasPrefix(se.Sel.Name, "MapStringsToUUIDs") {
				f.UUIDDerive = append(f.UUIDDerive, [3]string{rel, name, "calls:" + se.Sel.Name})
			}
			return true
		})
	}
}

// batchGuards: every `if len(X.Tuples) <op> …BatchCheckMaxBatchSize()` (the whole-batch rejection).
func (f *facts) batchGuards(repo, rel string) {
	af := f.parse(repo, rel)
	for _, d := range af.Decls {
		fd, ok := d.(*ast.FuncDecl)
		if !ok || fd.Body == nil {
			continue
		}
		name := funcName(fd)
		ast.Inspect(fd.Body, func(n ast.Node) bool {
			x, ok := n.(*ast.IfStmt)
			if !ok {
				return true
			}
			be, ok := x.Cond.(*ast.BinaryExpr)
			if !ok || !strings.Contains(exprString(f.fset, be.Y), "BatchCheckMaxBatchSize()") {
				return true
			}
			lhs := exprString(f.fset, be.X)
			op := be.Op.String()
			if !strings.HasPrefix(lhs, "len(") || !strings.HasSuffix(lhs, ".Tuples)") {
				// recorded, not fatal: only the tie of the properties that rely on this table breaks
				op = "unexpected left-hand side " + lhs + " " + op
			}
			f.BatchGuards = append(f.BatchGuards, [3]string{rel, name, op})
			return true
		})
	}
}

// schemaDefaults: defaults of the limits in the configuration schema.
func (f *facts) schemaDefaults(repo, rel string) {
	raw, _ := os.ReadFile(filepath.Join(repo, rel))
	var doc struct {
		Properties struct {
			Limit struct {
				Properties map[string]struct {
					Default *int64 `json:"default"`
				} `json:"properties"`
			} `json:"limit"`
		} `json:"properties"`
	}
	_ = json.Unmarshal(raw, &doc)
	for key, lean := range map[string]string{"max_batch_check_size": "defaultMaxBatchCheckSize", "batch_check_max_parallelization": "defaultBatchParallelization",
		"max_read_depth": "defaultMaxReadDepth", "max_read_width": "defaultMaxReadWidth"} {
		f.IntConsts[lean] = 0 // no default found: the theorems that use the constant no longer check
		if p, ok := doc.Properties.Limit.Properties[key]; ok && p.Default != nil && *p.Default >= 0 {
			f.IntConsts[lean] = *p.Default
		}
	}
}

func (f *facts) chans(repo, rel string) {
	af := f.parse(repo, rel)
	for _, d := range af.Decls {
		fd, ok := d.(*ast.FuncDecl)
		if !ok || fd.Body == nil {
			continue
		}
		name := funcName(fd)
		ast.Inspect(fd.Body, func(n ast.Node) bool {
			ce, ok := n.(*ast.CallExpr)
			if !ok {
				return true
			}
			if id, ok := ce.Fun.(*ast.Ident); !ok || id.Name != "make" || len(ce.Args) == 0 {
				return true
			}
			if _, ok := ce.Args[0].(*ast.ChanType); !ok {
				return true
			}
			cap := "0"
			if len(ce.Args) > 1 {
				cap = exprString(f.fset, ce.Args[1])
			}
			f.ChanSites = append(f.ChanSites, [3]string{rel, name, cap})
			return true
		})
	}
}

// routes extracts r.GET/POST/... registrations of the Register*Routes functions.
func (f *facts) routes(repo, rel string) {
	af := f.parse(repo, rel)
	for _, d := range af.Decls {
		fd, ok := d.(*ast.FuncDecl)
		if !ok || fd.Body == nil || !strings.HasPrefix(fd.Name.Name, "Register") {
			continue
		}
		ast.Inspect(fd.Body, func(n ast.Node) bool {
			ce, ok := n.(*ast.CallExpr)
			if !ok {
				return true
			}
			se, ok := ce.Fun.(*ast.SelectorExpr)
			if !ok {
				return true
			}
			switch se.Sel.Name {
			case "GET", "POST", "PUT", "PATCH", "DELETE", "Handler", "Handle":
				if len(ce.Args) >= 2 {
					f.Routes = append(f.Routes, [4]string{rel, fd.Name.Name, se.Sel.Name + " " + exprString(f.fset, ce.Args[0]), exprString(f.fset, ce.Args[len(ce.Args)-1])})
				}
			default:
				if strings.HasPrefix(se.Sel.Name, "Register") && strings.HasSuffix(se.Sel.Name, "Server") {
					f.Routes = append(f.Routes, [4]string{rel, fd.Name.Name, "grpc", se.Sel.Name})
				}
			}
			return true
		})
	}
}

// uses records, per function, calls of the given selector names (e.g. Mapper /
// ReadOnlyMapper, or the writing methods of the manager).
func (f *facts) uses(repo, rel string, into *[][3]string, names map[string]bool) {
	af := f.parse(repo, rel)
	for _, d := range af.Decls {
		fd, ok := d.(*ast.FuncDecl)
		if !ok || fd.Body == nil {
			continue
		}
		name := funcName(fd)
		seen := map[string]bool{}
		ast.Inspect(fd.Body, func(n ast.Node) bool {
			ce, ok := n.(*ast.CallExpr)
			if !ok {
				return true
			}
			if se, ok := ce.Fun.(*ast.SelectorExpr); ok && names[se.Sel.Name] && !seen[se.Sel.Name] {
				seen[se.Sel.Name] = true
				*into = append(*into, [3]string{rel, name, se.Sel.Name})
			}
			return true
		})
	}
}

// sqlStrings records string literals that look like SQL, and pop query-builder
// calls, per function of the persistence package.
func (f *facts) sqlStrings(repo, rel string) {
	af := f.parse(repo, rel)
	for _, d := range af.Decls {
		fd, ok := d.(*ast.FuncDecl)
		if !ok || fd.Body == nil {
			continue
		}
		name := funcName(fd)
		ast.Inspect(fd.Body, func(n ast.Node) bool {
			switch x := n.(type) {
			case *ast.BasicLit:
				if x.Kind != token.STRING {
					return true
				}
				s, err := strconv.Unquote(x.Value)
				if err != nil {
					return true
				}
				up := strings.ToUpper(s)
				if strings.Contains(up, "SELECT ") || strings.Contains(up, "INSERT ") || strings.Contains(up, "DELETE ") ||
					strings.Contains(up, "UPDATE ") || strings.Contains(s, " = ?") || strings.Contains(up, " IS NULL") || strings.Contains(up, " IN (") {
					f.SQLStrings = append(f.SQLStrings, [3]string{rel, name, strings.Join(strings.Fields(s), " ")})
				}
			case *ast.CallExpr:
				if se, ok := x.Fun.(*ast.SelectorExpr); ok {
					switch se.Sel.Name {
					case "queryWithNetwork", "Transaction", "RawQuery", "Delete", "All", "Exists", "Exec", "First", "Create":
						f.SQLStrings = append(f.SQLStrings, [3]string{rel, name, "call:" + se.Sel.Name})
					}
				}
			}
			return true
		})
	}
}

// lazyInit finds `if r.x == nil { r.x = … }` getters and whether the function
// takes a lock or uses a sync.Once.
func (f *facts) lazyInit(repo, rel string) {
	af := f.parse(repo, rel)
	for _, d := range af.Decls {
		fd, ok := d.(*ast.FuncDecl)
		if !ok || fd.Body == nil {
			continue
		}
		name := funcName(fd)
		guarded := false
		ast.Inspect(fd.Body, func(n ast.Node) bool {
			if ce, ok := n.(*ast.CallExpr); ok {
				if se, ok := ce.Fun.(*ast.SelectorExpr); ok && (se.Sel.Name == "Lock" || se.Sel.Name == "RLock" || se.Sel.Name == "Do") {
					guarded = true
				}
			}
			return true
		})
		ast.Inspect(fd.Body, func(n ast.Node) bool {
			is, ok := n.(*ast.IfStmt)
			if !ok {
				return true
			}
			be, ok := is.Cond.(*ast.BinaryExpr)
			if !ok || be.Op != token.EQL {
				return true
			}
			if id, ok := be.Y.(*ast.Ident); !ok || id.Name != "nil" {
				return true
			}
			se, ok := be.X.(*ast.SelectorExpr)
			if !ok {
				return true
			}
			// assignment to the same selector in the body
			assigned := false
			ast.Inspect(is.Body, func(m ast.Node) bool {
				if as, ok := m.(*ast.AssignStmt); ok {
					for _, l := range as.Lhs {
						if exprString(f.fset, l) == exprString(f.fset, se) {
							assigned = true
						}
					}
				}
				return true
			})
			if assigned {
				g := "unguarded"
				if guarded {
					g = "guarded"
				}
				f.LazyInit = append(f.LazyInit, [3]string{name, exprString(f.fset, se), g})
			}
			return true
		})
	}
}

func (f *facts) jsonTags(repo, rel string, types ...string) {
	af := f.parse(repo, rel)
	want := map[string]bool{}
	for _, t := range types {
		want[t] = true
	}
	ast.Inspect(af, func(n ast.Node) bool {
		ts, ok := n.(*ast.TypeSpec)
		if !ok || !want[ts.Name.Name] {
			return true
		}
		st, ok := ts.Type.(*ast.StructType)
		if !ok {
			return true
		}
		for _, fl := range st.Fields.List {
			tag := ""
			if fl.Tag != nil {
				tag, _ = strconv.Unquote(fl.Tag.Value)
			}
			for _, nm := range fl.Names {
				f.JSONTags = append(f.JSONTags, [3]string{ts.Name.Name, nm.Name, tag})
			}
		}
		return true
	})
}

// callsOnReceiver lists the methods a function calls on its own receiver.
func (f *facts) callsOnReceiver(repo, rel, fn string) {
	af := f.parse(repo, rel)
	for _, d := range af.Decls {
		fd, ok := d.(*ast.FuncDecl)
		if !ok || fd.Body == nil || funcName(fd) != fn || fd.Recv == nil || len(fd.Recv.List[0].Names) == 0 {
			continue
		}
		recv := fd.Recv.List[0].Names[0].Name
		ast.Inspect(fd.Body, func(n ast.Node) bool {
			ce, ok := n.(*ast.CallExpr)
			if !ok {
				return true
			}
			if se, ok := ce.Fun.(*ast.SelectorExpr); ok {
				if id, ok := se.X.(*ast.Ident); ok && id.Name == recv {
					f.InitCalls = append(f.InitCalls, [3]string{rel, fn, se.Sel.Name})
				}
			}
			return true
		})
	}
}

// lockUse records, per method of a file, whether it takes the write lock, the read
// lock, or none.
func (f *facts) lockUse(repo, rel string) {
	af := f.parse(repo, rel)
	for _, d := range af.Decls {
		fd, ok := d.(*ast.FuncDecl)
		if !ok || fd.Body == nil || fd.Recv == nil {
			continue
		}
		kind := "none"
		ast.Inspect(fd.Body, func(n ast.Node) bool {
			if ce, ok := n.(*ast.CallExpr); ok {
				if se, ok := ce.Fun.(*ast.SelectorExpr); ok {
					switch se.Sel.Name {
					case "Lock":
						kind = "Lock"
					case "RLock":
						if kind == "none" {
							kind = "RLock"
						}
					}
				}
			}
			return true
		})
		f.LockUse = append(f.LockUse, [3]string{rel, funcName(fd), kind})
	}
}

// sqlNid judges every raw SQL string literal that touches keto_relation_tuples: every
// occurrence of the table (FROM / INTO / DELETE FROM / subquery) must be restricted
// to the network: `nid = ?`, `current.nid = ?`, `nid = current.nid`, or - for INSERT -
// the nid column being written.
func (f *facts) sqlNid(repo, rel string) {
	af := f.parse(repo, rel)
	for _, d := range af.Decls {
		fd, ok := d.(*ast.FuncDecl)
		if !ok || fd.Body == nil {
			continue
		}
		name := funcName(fd)
		ast.Inspect(fd.Body, func(n ast.Node) bool {
			lit, ok := n.(*ast.BasicLit)
			if !ok || lit.Kind != token.STRING {
				return true
			}
			s, err := strconv.Unquote(lit.Value)
			if err != nil {
				return true
			}
			up := strings.ToUpper(strings.Join(strings.Fields(s), " "))
			mentions := strings.Count(up, "KETO_RELATION_TUPLES") + strings.Count(up, "FROM %S") + strings.Count(up, "INTO %S")
			if mentions == 0 || !strings.Contains(up, " ") {
				return true
			}
			preds := strings.Count(up, "NID = ?") + strings.Count(up, "NID = CURRENT.NID")
			verdict := "missing"
			switch {
			case strings.Contains(up, "INSERT INTO") && strings.Contains(up, "NID"):
				verdict = "insert-writes-nid"
			case preds >= mentions:
				verdict = fmt.Sprintf("nid-predicates:%d/tables:%d", preds, mentions)
			}
			f.SQLNid = append(f.SQLNid, [3]string{rel, name, verdict})
			return true
		})
	}
}

func leanStr(s string) string { return strconv.Quote(s) }

func main() {
	repo := flag.String("repo", "/repo", "repository root")
	out := flag.String("out", "", "Lean output file")
	jsonOut := flag.String("json", "", "JSON output file")
	flag.Parse()
	f := &facts{IntConsts: map[string]int64{}, StrConsts: map[string]string{}, Misc: map[string]string{},
		files: map[string]*ast.File{}, fset: token.NewFileSet()}

	f.consts(*repo, "internal/persistence/sql/relationtuples.go", "chunkSizeInsertUUIDMappings", "chunkSizeInsertTuple", "chunkSizeDeleteTuple")
	f.consts(*repo, "internal/persistence/sql/persister.go", "defaultPageSize")
	f.consts(*repo, "internal/schema/limits.go", "tupleToSubjectSetTypeCheckMaxDepth", "expressionNestingMaxDepth")
	f.consts(*repo, "internal/check/engine.go", "WildcardRelation")
	f.consts(*repo, "internal/persistence/sql/traverser.go", "limit")

	engineCallees := map[string]bool{"checkIsAllowed": true, "checkDirect": true, "checkExpandSubject": true,
		"checkSubjectSetRewrite": true, "checkInverted": true, "checkComputedSubjectSet": true, "checkTupleToSubjectSet": true}
	f.depth(*repo, "internal/check/engine.go", "restDepth", engineCallees)
	f.depth(*repo, "internal/check/rewrites.go", "restDepth", engineCallees)
	f.depth(*repo, "internal/expand/engine.go", "restDepth", map[string]bool{"BuildTree": true, "buildTreeRec": true})
	f.chans(*repo, "internal/check/engine.go")
	f.chans(*repo, "internal/check/rewrites.go")
	f.chans(*repo, "internal/check/binop.go")
	f.chans(*repo, "internal/check/checkgroup/definitions.go")
	f.chans(*repo, "internal/check/checkgroup/concurrent_checkgroup.go")

	for _, rel := range []string{"internal/check/handler.go", "internal/expand/handler.go", "internal/relationtuple/handler.go",
		"internal/relationtuple/read_server.go", "internal/relationtuple/transact_server.go", "internal/schema/handler.go"} {
		if _, err := os.Stat(filepath.Join(*repo, rel)); err != nil {
			continue
		}
		f.routes(*repo, rel)
		f.uses(*repo, rel, &f.MapperUse, map[string]bool{"Mapper": true, "ReadOnlyMapper": true})
		f.uses(*repo, rel, &f.ManagerWrite, map[string]bool{"WriteRelationTuples": true, "DeleteRelationTuples": true,
			"DeleteAllRelationTuples": true, "TransactRelationTuples": true, "MapStringsToUUIDs": true, "MapStringsToUUIDsReadOnly": true})
	}
	for _, rel := range []string{"internal/check/engine.go", "internal/expand/engine.go"} {
		f.uses(*repo, rel, &f.MapperUse, map[string]bool{"Mapper": true, "ReadOnlyMapper": true})
	}
	for _, rel := range []string{"internal/persistence/sql/relationtuples.go", "internal/persistence/sql/traverser.go",
		"internal/persistence/sql/uuid_mapping.go", "internal/persistence/sql/persister.go"} {
		f.sqlStrings(*repo, rel)
	}
	for _, rel := range []string{"internal/persistence/sql/relationtuples.go", "internal/persistence/sql/traverser.go"} {
		f.sqlNid(*repo, rel)
	}
	f.lazyInit(*repo, "internal/driver/registry_default.go")
	f.lazyInit(*repo, "internal/driver/config/provider.go")
	f.jsonTags(*repo, "ketoapi/public_api_definitions.go", "RelationTuple", "SubjectSet", "RelationQuery")
	f.callsOnReceiver(*repo, "internal/driver/registry_default.go", "RegistryDefault.Init")
	f.lockUse(*repo, "internal/driver/config/namespace_memory.go")
	f.lockUse(*repo, "internal/driver/config/namespace_watcher.go")
	f.lockUse(*repo, "internal/driver/config/opl_config_namespace_watcher.go")
	f.lockUse(*repo, "internal/x/graph/graph_utils.go")
	f.batchGuards(*repo, "internal/check/handler.go")
	f.uuidDerive(*repo, "internal/persistence/sql/uuid_mapping.go")
	for _, rel := range []string{"internal/check/engine.go", "internal/check/rewrites.go", "internal/check/binop.go", "internal/expand/engine.go", "internal/persistence/sql/traverser.go"} {
		f.widthSites(*repo, rel)
	}
	f.structFields(*repo, "internal/check/engine.go", "Engine")
	f.structFields(*repo, "internal/expand/engine.go", "Engine")
	f.schemaDefaults(*repo, "embedx/config.schema.json")

	// ---- emit
	var b strings.Builder
	b.WriteString("/- GENERATED by /verif/harness/cmd/facts from /repo — do not edit. -/\nnamespace Keto.Facts\n\n")
	var ks []string
	for k := range f.IntConsts {
		ks = append(ks, k)
	}
	sort.Strings(ks)
	for _, k := range ks {
		fmt.Fprintf(&b, "def %s : Nat := %d\n", k, f.IntConsts[k])
	}
	ks = ks[:0]
	for k := range f.StrConsts {
		ks = append(ks, k)
	}
	sort.Strings(ks)
	for _, k := range ks {
		fmt.Fprintf(&b, "def %s : String := %s\n", k, leanStr(f.StrConsts[k]))
	}
	table3 := func(name string, rows [][3]string) {
		fmt.Fprintf(&b, "\ndef %s : List (String × String × String) := [\n", name)
		for i, r := range rows {
			sep := ","
			if i == len(rows)-1 {
				sep = ""
			}
			fmt.Fprintf(&b, "  (%s, %s, %s)%s\n", leanStr(r[0]), leanStr(r[1]), leanStr(r[2]), sep)
		}
		b.WriteString("]\n")
	}
	table4 := func(name string, rows [][4]string) {
		fmt.Fprintf(&b, "\ndef %s : List (String × String × String × String) := [\n", name)
		for i, r := range rows {
			sep := ","
			if i == len(rows)-1 {
				sep = ""
			}
			fmt.Fprintf(&b, "  (%s, %s, %s, %s)%s\n", leanStr(r[0]), leanStr(r[1]), leanStr(r[2]), leanStr(r[3]), sep)
		}
		b.WriteString("]\n")
	}
	table3("depthGuards", f.DepthGuards)
	table4("depthCalls", f.DepthCalls)
	table3("chanSites", f.ChanSites)
	table4("routes", f.Routes)
	table3("mapperUse", f.MapperUse)
	table3("managerWrite", f.ManagerWrite)
	table3("sqlStrings", f.SQLStrings)
	table3("lazyInit", f.LazyInit)
	table3("jsonTags", f.JSONTags)
	table3("initCalls", f.InitCalls)
	table3("lockUse", f.LockUse)
	table3("sqlNid", f.SQLNid)
	table3("batchGuards", f.BatchGuards)
	table3("uuidDerive", f.UUIDDerive)
	table3("structFields", f.StructFields)
	table3("widthSites", f.WidthSites)
	// translated depth conditions and depth arguments (regenerated model fragments)
	b.WriteString("\n/-! Depth tests and depth arguments of the engines, translated from the Go expressions. -/\n")
	for _, d := range f.leanDefs {
		b.WriteString(d + "\n")
	}
	table4("depthConds", f.DepthConds)
	table4("depthArgs", f.DepthArgs)
	b.WriteString("\nend Keto.Facts\n")
	if *out != "" {
		if err := os.WriteFile(*out, []byte(b.String()), 0o644); err != nil {
			die("%v", err)
		}
	}
	if *jsonOut != "" {
		_ = os.MkdirAll(filepath.Dir(*jsonOut), 0o755)
		j, _ := json.MarshalIndent(f, "", " ")
		if err := os.WriteFile(*jsonOut, j, 0o644); err != nil {
			die("%v", err)
		}
	}
}
