module github.com/ory/keto/verifharness

go 1.24.2

replace github.com/ory/keto => /repo

replace github.com/ory/keto/proto => /repo/proto

replace github.com/gobuffalo/pop/v6 => github.com/ory/pop/v6 v6.2.1-0.20241121111754-e5dfc0f3344b

require (
	github.com/gobuffalo/pop/v6 v6.1.1
	github.com/gofrs/uuid v4.4.0+incompatible
	github.com/julienschmidt/httprouter v1.3.0
	github.com/ory/herodot v0.10.3-0.20250318104651-3179543efba8
	github.com/ory/keto v0.0.0
	github.com/ory/keto/proto v0.13.0-alpha.0
	github.com/ory/x v0.0.708
	github.com/sirupsen/logrus v1.9.3
	github.com/spf13/pflag v1.0.6
	google.golang.org/grpc v1.71.1
	google.golang.org/protobuf v1.36.6
)

require (
	cloud.google.com/go/compute/metadata v0.6.0 // indirect
	code.dny.dev/ssrf v0.2.0 // indirect
	dario.cat/mergo v1.0.1 // indirect
	filippo.io/edwards25519 v1.1.0 // indirect
	github.com/Masterminds/semver/v3 v3.3.1 // indirect
	github.com/Nvveen/Gotty v0.0.0-20120604004816-cd527374f1e5 // indirect
	github.com/avast/retry-go/v4 v4.6.1 // indirect
	github.com/aymerick/douceur v0.2.0 // indirect
	github.com/beorn7/perks v1.0.1 // indirect
	github.com/cenkalti/backoff/v3 v3.2.2 // indirect
	github.com/cenkalti/backoff/v4 v4.3.0 // indirect
	github.com/cespare/xxhash/v2 v2.3.0 // indirect
	github.com/cockroachdb/cockroach-go/v2 v2.4.0 // indirect
	github.com/containerd/continuity v0.4.5 // indirect
	github.com/davecgh/go-spew v1.1.2-0.20180830191138-d8f796af33cc // indirect
	github.com/dgraph-io/ristretto/v2 v2.2.0 // indirect
	github.com/distribution/reference v0.6.0 // indirect
	github.com/docker/cli v28.0.1+incompatible // indirect
	github.com/docker/docker v28.0.2+incompatible // indirect
	github.com/docker/go-connections v0.5.0 // indirect
	github.com/docker/go-units v0.5.0 // indirect
	github.com/dustin/go-humanize v1.0.1 // indirect
	github.com/evanphx/json-patch/v5 v5.9.11 // indirect
	github.com/fatih/color v1.18.0 // indirect
	github.com/fatih/structs v1.1.0 // indirect
	github.com/felixge/httpsnoop v1.0.4 // indirect
	github.com/fsnotify/fsnotify v1.8.0 // indirect
	github.com/ghodss/yaml v1.0.0 // indirect
	github.com/go-logr/logr v1.4.2 // indirect
	github.com/go-logr/stdr v1.2.2 // indirect
	github.com/go-openapi/jsonpointer v0.21.1 // indirect
	github.com/go-openapi/swag v0.23.1 // indirect
	github.com/go-sql-driver/mysql v1.9.1 // indirect
	github.com/go-viper/mapstructure/v2 v2.2.1 // indirect
	github.com/gobuffalo/envy v1.10.2 // indirect
	github.com/gobuffalo/fizz v1.14.4 // indirect
	github.com/gobuffalo/flect v1.0.3 // indirect
	github.com/gobuffalo/github_flavored_markdown v1.1.4 // indirect
	github.com/gobuffalo/helpers v0.6.7 // indirect
	github.com/gobuffalo/nulls v0.4.2 // indirect
	github.com/gobuffalo/plush/v4 v4.1.22 // indirect
	github.com/gobuffalo/tags/v3 v3.1.4 // indirect
	github.com/gobuffalo/validate/v3 v3.3.3 // indirect
	github.com/gobwas/glob v0.2.3 // indirect
	github.com/goccy/go-yaml v1.16.0 // indirect
	github.com/gofrs/flock v0.12.1 // indirect
	github.com/gogo/protobuf v1.3.2 // indirect
	github.com/google/shlex v0.0.0-20191202100458-e7afc7fbc510 // indirect
	github.com/google/uuid v1.6.0 // indirect
	github.com/gorilla/css v1.0.1 // indirect
	github.com/gorilla/websocket v1.5.3 // indirect
	github.com/grpc-ecosystem/go-grpc-middleware/v2 v2.3.1 // indirect
	github.com/grpc-ecosystem/go-grpc-prometheus v1.2.0 // indirect
	github.com/grpc-ecosystem/grpc-gateway/v2 v2.26.3 // indirect
	github.com/hashicorp/go-cleanhttp v0.5.2 // indirect
	github.com/hashicorp/go-retryablehttp v0.7.7 // indirect
	github.com/inhies/go-bytesize v0.0.0-20220417184213-4913239db9cf // indirect
	github.com/jackc/chunkreader/v2 v2.0.1 // indirect
	github.com/jackc/pgconn v1.14.3 // indirect
	github.com/jackc/pgio v1.0.0 // indirect
	github.com/jackc/pgpassfile v1.0.0 // indirect
	github.com/jackc/pgproto3/v2 v2.3.3 // indirect
	github.com/jackc/pgservicefile v0.0.0-20240606120523-5a60cdf6a761 // indirect
	github.com/jackc/pgx/v5 v5.7.2 // indirect
	github.com/jackc/puddle/v2 v2.2.2 // indirect
	github.com/jmoiron/sqlx v1.4.0 // indirect
	github.com/joho/godotenv v1.5.1 // indirect
	github.com/josharian/intern v1.0.0 // indirect
	github.com/kballard/go-shellquote v0.0.0-20180428030007-95032a82bc51 // indirect
	github.com/klauspost/compress v1.18.0 // indirect
	github.com/knadh/koanf/maps v0.1.1 // indirect
	github.com/knadh/koanf/parsers/json v0.1.0 // indirect
	github.com/knadh/koanf/parsers/toml v0.1.0 // indirect
	github.com/knadh/koanf/parsers/yaml v0.1.0 // indirect
	github.com/knadh/koanf/providers/posflag v0.1.0 // indirect
	github.com/knadh/koanf/v2 v2.1.2 // indirect
	github.com/lib/pq v1.10.9 // indirect
	github.com/luna-duclos/instrumentedsql v1.1.3 // indirect
	github.com/mailru/easyjson v0.9.0 // indirect
	github.com/mattn/go-colorable v0.1.14 // indirect
	github.com/mattn/go-isatty v0.0.20 // indirect
	github.com/mattn/go-sqlite3 v1.14.24 // indirect
	github.com/microcosm-cc/bluemonday v1.0.27 // indirect
	github.com/mitchellh/copystructure v1.2.0 // indirect
	github.com/mitchellh/reflectwalk v1.0.2 // indirect
	github.com/moby/docker-image-spec v1.3.1 // indirect
	github.com/moby/sys/user v0.3.0 // indirect
	github.com/moby/term v0.5.2 // indirect
	github.com/munnerz/goautoneg v0.0.0-20191010083416-a7dc8b61c822 // indirect
	github.com/nyaruka/phonenumbers v1.5.0 // indirect
	github.com/opencontainers/go-digest v1.0.0 // indirect
	github.com/opencontainers/image-spec v1.1.1 // indirect
	github.com/opencontainers/runc v1.2.5 // indirect
	github.com/openzipkin/zipkin-go v0.4.3 // indirect
	github.com/ory/analytics-go/v5 v5.0.1 // indirect
	github.com/ory/dockertest/v3 v3.11.0 // indirect
	github.com/ory/graceful v0.1.3 // indirect
	github.com/ory/jsonschema/v3 v3.0.9-0.20250317235931-280c5fc7bf0e // indirect
	github.com/pelletier/go-toml v1.9.5 // indirect
	github.com/pkg/errors v0.9.1 // indirect
	github.com/pmezard/go-difflib v1.0.1-0.20181226105442-5d4384ee4fb2 // indirect
	github.com/prometheus/client_golang v1.21.1 // indirect
	github.com/prometheus/client_model v0.6.1 // indirect
	github.com/prometheus/common v0.63.0 // indirect
	github.com/prometheus/procfs v0.15.1 // indirect
	github.com/rogpeppe/go-internal v1.14.1 // indirect
	github.com/rs/cors v1.11.1 // indirect
	github.com/seatgeek/logrus-gelf-formatter v0.0.0-20210414080842-5b05eb8ff761 // indirect
	github.com/segmentio/backo-go v1.1.0 // indirect
	github.com/sergi/go-diff v1.3.1 // indirect
	github.com/soheilhy/cmux v0.1.5 // indirect
	github.com/sourcegraph/annotate v0.0.0-20160123013949-f4cad6c6324d // indirect
	github.com/sourcegraph/syntaxhighlight v0.0.0-20170531221838-bd320f5d308e // indirect
	github.com/spf13/cast v1.7.1 // indirect
	github.com/spf13/cobra v1.9.1 // indirect
	github.com/stretchr/testify v1.10.0 // indirect
	github.com/tidwall/gjson v1.18.0 // indirect
	github.com/tidwall/match v1.1.1 // indirect
	github.com/tidwall/pretty v1.2.1 // indirect
	github.com/tidwall/sjson v1.2.5 // indirect
	github.com/urfave/negroni v1.0.0 // indirect
	github.com/xeipuuv/gojsonpointer v0.0.0-20190905194746-02993c407bfb // indirect
	github.com/xeipuuv/gojsonreference v0.0.0-20180127040603-bd5ef7bd5415 // indirect
	github.com/xeipuuv/gojsonschema v1.2.0 // indirect
	github.com/xtgo/uuid v0.0.0-20140804021211-a0b114877d4c // indirect
	go.opentelemetry.io/auto/sdk v1.1.0 // indirect
	go.opentelemetry.io/contrib/instrumentation/google.golang.org/grpc/otelgrpc v0.60.0 // indirect
	go.opentelemetry.io/contrib/instrumentation/net/http/httptrace/otelhttptrace v0.60.0 // indirect
	go.opentelemetry.io/contrib/instrumentation/net/http/otelhttp v0.60.0 // indirect
	go.opentelemetry.io/contrib/propagators/b3 v1.35.0 // indirect
	go.opentelemetry.io/contrib/propagators/jaeger v1.35.0 // indirect
	go.opentelemetry.io/contrib/samplers/jaegerremote v0.29.0 // indirect
	go.opentelemetry.io/otel v1.35.0 // indirect
	go.opentelemetry.io/otel/exporters/jaeger v1.17.0 // indirect
	go.opentelemetry.io/otel/exporters/otlp/otlptrace v1.35.0 // indirect
	go.opentelemetry.io/otel/exporters/otlp/otlptrace/otlptracehttp v1.35.0 // indirect
	go.opentelemetry.io/otel/exporters/zipkin v1.35.0 // indirect
	go.opentelemetry.io/otel/metric v1.35.0 // indirect
	go.opentelemetry.io/otel/sdk v1.35.0 // indirect
	go.opentelemetry.io/otel/trace v1.35.0 // indirect
	go.opentelemetry.io/proto/otlp v1.5.0 // indirect
	golang.org/x/crypto v0.36.0 // indirect
	golang.org/x/exp v0.0.0-20250305212735-054e65f0b394 // indirect
	golang.org/x/mod v0.24.0 // indirect
	golang.org/x/net v0.38.0 // indirect
	golang.org/x/oauth2 v0.29.0 // indirect
	golang.org/x/sync v0.13.0 // indirect
	golang.org/x/sys v0.32.0 // indirect
	golang.org/x/text v0.24.0 // indirect
	google.golang.org/genproto/googleapis/api v0.0.0-20250313205543-e70fdf4c4cb4 // indirect
	google.golang.org/genproto/googleapis/rpc v0.0.0-20250404141209-ee84b53bf3d0 // indirect
	gopkg.in/yaml.v2 v2.4.0 // indirect
	gopkg.in/yaml.v3 v3.0.1 // indirect
)
