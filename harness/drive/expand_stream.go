package drive

// Stream `expand` (property C09): the real expand engine on generated tuple graphs,
// rendered canonically, next to the real check engine's answers on the same state
// and the REST / gRPC transports.
//
// Line (component `expand`):
//
//	<gdepth> <rdepth> <pageSize or 0 = default> T <n> tuples… S <subject>
//
// The tuples are given in storage (shard id) order, read back from the table.

import (
	"errors"
	"context"
	"encoding/hex"
	"encoding/json"
	"fmt"
	"math/rand"
	"net/http"
	"net/http/httptest"
	"net/url"
	"sort"
	"strconv"
	"strings"
	"sync/atomic"
	"testing"

	"github.com/gofrs/uuid"

	"github.com/ory/keto/internal/check"
	"github.com/ory/keto/internal/check/checkgroup"
	"github.com/ory/keto/internal/driver"
	"github.com/ory/keto/internal/driver/config"
	"github.com/ory/keto/internal/expand"
	"github.com/ory/keto/internal/namespace"
	"github.com/ory/keto/internal/namespace/ast"
	ksql "github.com/ory/keto/internal/persistence/sql"
	"github.com/ory/keto/internal/relationtuple"
	"github.com/ory/keto/internal/schema"
	"github.com/ory/keto/internal/x"
	"github.com/ory/keto/ketoapi"
	rts "github.com/ory/keto/proto/ory/keto/relation_tuples/v1alpha2"
)

func init() {
	streams["expand"] = streamExpand
}

// ExpCase is one expand case.
type ExpCase struct {
	GDepth   int
	RDepth   int
	PageSize int // 0: the persister's default page size
	Tuples   []Tup
	Subject  Sub
	// not part of the line: the namespace configuration the tuples live in
	NSs []*namespace.Namespace
}

func (c *ExpCase) Payload() string {
	var sb strings.Builder
	fmt.Fprintf(&sb, "%d %d %d T %d", c.GDepth, c.RDepth, c.PageSize, len(c.Tuples))
	for _, t := range c.Tuples {
		sb.WriteString(" " + t.tokens())
	}
	sb.WriteString(" S " + c.Subject.tokens())
	return sb.String()
}

// ParseExpCase parses the payload of an expand line; the namespaces are the legacy
// ones (no relations) named by the tuples and the subject.
func ParseExpCase(payload string) (*ExpCase, error) {
	s := &tokStream{toks: strings.Fields(payload)}
	c := &ExpCase{}
	c.GDepth = s.int()
	c.RDepth = s.int()
	c.PageSize = s.int()
	s.expect("T")
	n := s.int()
	for i := 0; i < n && s.err == nil; i++ {
		c.Tuples = append(c.Tuples, s.tup())
	}
	s.expect("S")
	c.Subject = s.sub()
	if s.err == nil && s.pos != len(s.toks) {
		s.err = fmt.Errorf("trailing tokens")
	}
	if s.err == nil && !c.Subject.IsSet {
		s.err = fmt.Errorf("the expanded subject must be a subject set")
	}
	c.NSs = legacyNamespaces(c.Tuples, c.Subject)
	return c, s.err
}

func legacyNamespaces(ts []Tup, s Sub) []*namespace.Namespace {
	seen := map[string]bool{}
	var names []string
	add := func(n string) {
		if !seen[n] {
			seen[n] = true
			names = append(names, n)
		}
	}
	for _, t := range ts {
		add(t.NS)
		if t.Sub.IsSet {
			add(t.Sub.NS)
		}
	}
	if s.IsSet {
		add(s.NS)
	}
	sort.Strings(names)
	var out []*namespace.Namespace
	for _, n := range names {
		out = append(out, &namespace.Namespace{Name: n})
	}
	return out
}

// ---- environment ----

// expDeps hands the expand engine a manager that counts the storage calls and, for
// page sizes other than the default, asks the persister for pages of that size.
type expDeps struct {
	*driver.RegistryDefault
	calls    *int64
	pageSize int
	failAt   int64 // the k-th storage call fails (0: none)
}

var errExpFault = errors.New("injected storage fault")

type expManager struct {
	relationtuple.Manager
	d *expDeps
}

func (m *expManager) GetRelationTuples(ctx context.Context, q *relationtuple.RelationQuery, o ...x.PaginationOptionSetter) ([]*relationtuple.RelationTuple, string, error) {
	if k := atomic.AddInt64(m.d.calls, 1); m.d.failAt != 0 && k == m.d.failAt {
		return nil, "", errExpFault
	}
	if m.d.pageSize > 0 {
		o = append(o, x.WithSize(m.d.pageSize))
	}
	return m.Manager.GetRelationTuples(ctx, q, o...)
}

func (d *expDeps) RelationTupleManager() relationtuple.Manager {
	return &expManager{Manager: d.RegistryDefault.RelationTupleManager(), d: d}
}

type expEnv struct {
	t         testing.TB
	reg       *driver.RegistryDefault
	ctx       context.Context
	lastDepth int
	objIdx    map[uuid.UUID]int
	subIdx    map[uuid.UUID]int
	read      http.Handler
}

const expCheckDepth = 400

func newExpEnv(t testing.TB) *expEnv {
	reg := driver.NewSqliteTestRegistry(t, false)
	quiet(reg)
	e := &expEnv{t: t, reg: reg, ctx: context.Background()}
	if err := reg.Config(e.ctx).Set(config.KeyLimitMaxReadWidth, 65535); err != nil {
		t.Fatal(err)
	}
	return e
}

func objName(i int) string { return "o" + strconv.Itoa(i) }
func subName(i int) string { return "u" + strconv.Itoa(i) }

func (s Sub) api() (id *string, set *ketoapi.SubjectSet) {
	if s.IsSet {
		return nil, &ketoapi.SubjectSet{Namespace: s.NS, Object: objName(s.Obj), Relation: s.Rel}
	}
	n := subName(s.ID)
	return &n, nil
}

func (t Tup) api() *ketoapi.RelationTuple {
	rt := &ketoapi.RelationTuple{Namespace: t.NS, Object: objName(t.Obj), Relation: t.Rel}
	rt.SubjectID, rt.SubjectSet = t.Sub.api()
	return rt
}

func (e *expEnv) setDepth(g int) error {
	if e.lastDepth == g {
		return nil
	}
	if err := e.reg.Config(e.ctx).Set(config.KeyLimitMaxReadDepth, g); err != nil {
		return err
	}
	e.lastDepth = g
	return nil
}

// loadNamespaces configures the namespaces (through the real OPL parser when they
// have relations and the parser accepts the rendering) and replaces c.NSs by what
// the engines will see.
func (e *expEnv) loadNamespaces(c *ExpCase, o *Out) error {
	legacy := true
	for _, n := range c.NSs {
		if len(n.Relations) > 0 {
			legacy = false
		}
	}
	kind := "cfg:legacy"
	if !legacy {
		kind = "cfg:raw-ast"
		parsed, errs := schema.Parse(renderOPL(c.NSs))
		if len(errs) == 0 {
			kind = "cfg:opl"
			nss := make([]*namespace.Namespace, len(parsed))
			for i := range parsed {
				n := parsed[i]
				nss[i] = &n
			}
			c.NSs = nss
		}
	}
	if o != nil {
		o.Count(kind)
	}
	if err := e.reg.Config(e.ctx).Set(config.KeyNamespaces, c.NSs); err != nil {
		return err
	}
	_, err := e.reg.Config(e.ctx).NamespaceManager()
	return err
}

// groupOrder is the storage order as far as the expand engine can see it: per
// (namespace, object, relation) the sequence of subjects.
func groupOrder(ts []Tup) string {
	groups := map[string][]string{}
	var keys []string
	for _, t := range ts {
		k := fmt.Sprintf("%s\x00%d\x00%s", t.NS, t.Obj, t.Rel)
		if _, ok := groups[k]; !ok {
			keys = append(keys, k)
		}
		groups[k] = append(groups[k], t.Sub.tokens())
	}
	sort.Strings(keys)
	var sb strings.Builder
	for _, k := range keys {
		sb.WriteString(k + "=>" + strings.Join(groups[k], ",") + ";")
	}
	return sb.String()
}

// store maps the tuples through the real mapper, writes them and replaces c.Tuples
// by the stored order. With force it rewrites the rows until the order the expand
// engine sees is the one given (shard ids are random); it reports whether it is.
func (e *expEnv) store(c *ExpCase, force bool) (bool, error) {
	m := e.reg.RelationTupleManager()
	want := groupOrder(c.Tuples)
	e.objIdx, e.subIdx = map[uuid.UUID]int{}, map[uuid.UUID]int{}
	var its []*relationtuple.RelationTuple
	if len(c.Tuples) > 0 {
		apis := make([]*ketoapi.RelationTuple, len(c.Tuples))
		for i, t := range c.Tuples {
			apis[i] = t.api()
		}
		var err error
		its, err = e.reg.Mapper().FromTuple(e.ctx, apis...)
		if err != nil {
			return false, err
		}
		for i, t := range c.Tuples {
			e.objIdx[its[i].Object] = t.Obj
			switch s := its[i].Subject.(type) {
			case *relationtuple.SubjectID:
				e.subIdx[s.ID] = t.Sub.ID
			case *relationtuple.SubjectSet:
				e.objIdx[s.Object] = t.Sub.Obj
			}
		}
	}
	orig := c.Tuples
	tries := 1
	if force {
		tries = 400
	}
	for try := 0; try < tries; try++ {
		if err := m.DeleteAllRelationTuples(e.ctx, &relationtuple.RelationQuery{}); err != nil {
			return false, err
		}
		if force {
			// one at a time: the rows get their shard ids independently
			for _, it := range its {
				if err := m.WriteRelationTuples(e.ctx, it); err != nil {
					return false, err
				}
			}
		} else if len(its) > 0 {
			if err := m.WriteRelationTuples(e.ctx, its...); err != nil {
				return false, err
			}
		}
		stored, err := e.storedOrder(len(orig))
		if err != nil {
			return false, err
		}
		c.Tuples = stored
		if groupOrder(stored) == want {
			return true, nil
		}
	}
	return false, nil
}

func (e *expEnv) storedOrder(n int) ([]Tup, error) {
	var rows []*ksql.RelationTuple
	p := e.reg.Persister()
	if err := p.Connection(e.ctx).RawQuery(
		"SELECT shard_id, nid, namespace, object, relation, subject_id, subject_set_namespace, subject_set_object, subject_set_relation, commit_time FROM keto_relation_tuples WHERE nid = ? ORDER BY shard_id",
		p.NetworkID(e.ctx)).All(&rows); err != nil {
		return nil, err
	}
	out := make([]Tup, 0, len(rows))
	for _, r := range rows {
		obj, ok := e.objIdx[r.Object]
		if !ok {
			return nil, fmt.Errorf("stored row with an unknown object uuid")
		}
		t := Tup{NS: r.Namespace, Obj: obj, Rel: r.Relation}
		if r.SubjectID.Valid {
			id, ok := e.subIdx[r.SubjectID.UUID]
			if !ok {
				return nil, fmt.Errorf("stored row with an unknown subject uuid")
			}
			t.Sub = Sub{ID: id}
		} else {
			so, ok := e.objIdx[r.SubjectSetObject.UUID]
			if !ok {
				return nil, fmt.Errorf("stored row with an unknown subject set object uuid")
			}
			t.Sub = Sub{IsSet: true, NS: r.SubjectSetNamespace.String, Obj: so, Rel: r.SubjectSetRelation.String}
		}
		out = append(out, t)
	}
	if len(out) != n {
		return nil, fmt.Errorf("stored %d rows, wrote %d", len(out), n)
	}
	return out, nil
}

// ---- canonical rendering ----

func hexStr(s string) string { return hex.EncodeToString([]byte(s)) }

func renderSub(s Sub) string {
	if s.IsSet {
		return fmt.Sprintf("s%s:%d:%s", hexStr(s.NS), s.Obj, hexStr(s.Rel))
	}
	return fmt.Sprintf("i%d", s.ID)
}

// cnode is a tree in harness terms.
type cnode struct {
	Leaf     bool
	Sub      Sub
	Children []*cnode
	Bad      string
}

func (n *cnode) render(sb *strings.Builder) {
	if n.Bad != "" {
		sb.WriteString("?" + n.Bad)
		return
	}
	if n.Leaf {
		sb.WriteString("L" + renderSub(n.Sub))
		return
	}
	sb.WriteString("U" + renderSub(n.Sub) + "(")
	for i, c := range n.Children {
		if i > 0 {
			sb.WriteString(",")
		}
		c.render(sb)
	}
	sb.WriteString(")")
}

func renderTree(n *cnode) string {
	if n == nil {
		return "nil"
	}
	var sb strings.Builder
	n.render(&sb)
	return sb.String()
}

// idsBelow collects the subject ids of the nodes below the root.
func idsBelow(n *cnode) []int {
	var out []int
	var walk func(x *cnode, root bool)
	walk = func(x *cnode, root bool) {
		if !root && !x.Sub.IsSet && x.Bad == "" {
			out = append(out, x.Sub.ID)
		}
		for _, c := range x.Children {
			walk(c, false)
		}
	}
	if n != nil {
		walk(n, true)
	}
	return out
}

func intSet(xs []int) string {
	sort.Ints(xs)
	var parts []string
	for i, x := range xs {
		if i > 0 && xs[i-1] == x {
			continue
		}
		parts = append(parts, strconv.Itoa(x))
	}
	return strings.Join(parts, ",")
}

func nodeKind(t ketoapi.TreeNodeType) (leaf bool, bad string) {
	switch t {
	case ketoapi.TreeNodeLeaf:
		return true, ""
	case ketoapi.TreeNodeUnion:
		return false, ""
	}
	return false, "type:" + string(t)
}

func (e *expEnv) fromInternal(t *relationtuple.Tree) *cnode {
	if t == nil {
		return nil
	}
	n := &cnode{}
	n.Leaf, n.Bad = nodeKind(t.Type)
	switch s := t.Subject.(type) {
	case *relationtuple.SubjectID:
		id, ok := e.subIdx[s.ID]
		if !ok {
			n.Bad = "unknown-subject-uuid"
		}
		n.Sub = Sub{ID: id}
	case *relationtuple.SubjectSet:
		obj, ok := e.objIdx[s.Object]
		if !ok {
			n.Bad = "unknown-object-uuid"
		}
		n.Sub = Sub{IsSet: true, NS: s.Namespace, Obj: obj, Rel: s.Relation}
	default:
		n.Bad = "no-subject"
	}
	for _, c := range t.Children {
		n.Children = append(n.Children, e.fromInternal(c))
	}
	return n
}

func parseName(prefix, s string) (int, bool) {
	if !strings.HasPrefix(s, prefix) {
		return 0, false
	}
	n, err := strconv.Atoi(s[len(prefix):])
	return n, err == nil
}

func subFromStrings(id *string, ns, obj, rel string, isSet bool) (Sub, string) {
	if !isSet {
		if id == nil {
			return Sub{}, "no-subject"
		}
		n, ok := parseName("u", *id)
		if !ok {
			return Sub{}, "subject-name:" + *id
		}
		return Sub{ID: n}, ""
	}
	n, ok := parseName("o", obj)
	if !ok {
		return Sub{}, "object-name:" + obj
	}
	return Sub{IsSet: true, NS: ns, Obj: n, Rel: rel}, ""
}

// restTree is the JSON shape of GET /relation-tuples/expand.
type restTree struct {
	Type     string      `json:"type"`
	Children []*restTree `json:"children"`
	Tuple    *struct {
		SubjectID  *string `json:"subject_id"`
		SubjectSet *struct {
			Namespace string `json:"namespace"`
			Object    string `json:"object"`
			Relation  string `json:"relation"`
		} `json:"subject_set"`
	} `json:"tuple"`
}

func fromREST(t *restTree) *cnode {
	if t == nil {
		return nil
	}
	n := &cnode{}
	n.Leaf, n.Bad = nodeKind(ketoapi.TreeNodeType(t.Type))
	var bad string
	switch {
	case t.Tuple == nil:
		bad = "no-tuple"
	case t.Tuple.SubjectSet != nil:
		n.Sub, bad = subFromStrings(nil, t.Tuple.SubjectSet.Namespace, t.Tuple.SubjectSet.Object, t.Tuple.SubjectSet.Relation, true)
	default:
		n.Sub, bad = subFromStrings(t.Tuple.SubjectID, "", "", "", false)
	}
	if bad != "" {
		n.Bad = bad
	}
	for _, c := range t.Children {
		n.Children = append(n.Children, fromREST(c))
	}
	return n
}

func fromProto(t *rts.SubjectTree) *cnode {
	if t == nil {
		return nil
	}
	n := &cnode{}
	switch t.NodeType {
	case rts.NodeType_NODE_TYPE_LEAF:
		n.Leaf = true
	case rts.NodeType_NODE_TYPE_UNION:
	default:
		n.Bad = "type:" + t.NodeType.String()
	}
	var bad string
	switch s := t.GetTuple().GetSubject().GetRef().(type) {
	case *rts.Subject_Id:
		n.Sub, bad = subFromStrings(&s.Id, "", "", "", false)
	case *rts.Subject_Set:
		n.Sub, bad = subFromStrings(nil, s.Set.Namespace, s.Set.Object, s.Set.Relation, true)
	default:
		bad = "no-subject"
	}
	if bad != "" {
		n.Bad = bad
	}
	for _, c := range t.Children {
		n.Children = append(n.Children, fromProto(c))
	}
	return n
}

// ---- running the real code ----

// runEngine runs expand.Engine.BuildTree on the internal subject set.
func (e *expEnv) runEngine(c *ExpCase) (tree *cnode, calls int64, errs string) {
	return e.runEngineFault(c, 0)
}

func (e *expEnv) runEngineFault(c *ExpCase, failAt int64) (tree *cnode, calls int64, errs string) {
	if err := e.setDepth(c.GDepth); err != nil {
		return nil, 0, "setup:" + err.Error()
	}
	root, err := e.reg.Mapper().FromSubjectSet(e.ctx, &ketoapi.SubjectSet{Namespace: c.Subject.NS, Object: objName(c.Subject.Obj), Relation: c.Subject.Rel})
	if err != nil {
		return nil, 0, "map:" + errKind(err)
	}
	e.objIdx[root.Object] = c.Subject.Obj
	var n int64
	deps := &expDeps{RegistryDefault: e.reg, calls: &n, pageSize: c.PageSize, failAt: failAt}
	defer func() {
		if r := recover(); r != nil {
			errs = fmt.Sprintf("panic:%v", r)
		}
	}()
	t, err := expand.NewEngine(deps).BuildTree(e.ctx, root, c.RDepth)
	if err != nil {
		return nil, atomic.LoadInt64(&n), "error:" + errKind(err)
	}
	return e.fromInternal(t), atomic.LoadInt64(&n), ""
}

// runREST runs GET /relation-tuples/expand on the read router.
func (e *expEnv) runREST(c *ExpCase) string {
	if err := e.setDepth(c.GDepth); err != nil {
		return "setup:" + err.Error()
	}
	if e.read == nil {
		e.read = e.reg.ReadRouter(e.ctx)
	}
	q := url.Values{}
	q.Set("namespace", c.Subject.NS)
	q.Set("object", objName(c.Subject.Obj))
	q.Set("relation", c.Subject.Rel)
	q.Set("max-depth", strconv.Itoa(c.RDepth))
	rec := httptest.NewRecorder()
	e.read.ServeHTTP(rec, httptest.NewRequest(http.MethodGet, expand.RouteBase+"?"+q.Encode(), nil))
	switch rec.Code {
	case http.StatusOK:
		var t restTree
		if err := json.Unmarshal(rec.Body.Bytes(), &t); err != nil {
			return "bad-json"
		}
		if t.Type == "" && t.Tuple == nil {
			// an empty expansion is answered with status 200 and the JSON of a herodot
			// "not found" error as the body (the handler uses Write, not WriteError)
			var e struct {
				Code int `json:"code"`
			}
			if json.Unmarshal(rec.Body.Bytes(), &e) == nil && e.Code == http.StatusNotFound {
				return "nil"
			}
			return "bad-body"
		}
		return renderTree(fromREST(&t))
	case http.StatusNotFound:
		return "nil"
	}
	return fmt.Sprintf("status:%d", rec.Code)
}

// runGRPC calls the gRPC Expand method of the handler.
func (e *expEnv) runGRPC(c *ExpCase) string {
	if err := e.setDepth(c.GDepth); err != nil {
		return "setup:" + err.Error()
	}
	resp, err := expand.NewHandler(e.reg).Expand(e.ctx, &rts.ExpandRequest{
		Subject:  rts.NewSubjectSet(c.Subject.NS, objName(c.Subject.Obj), c.Subject.Rel),
		MaxDepth: int32(c.RDepth),
	})
	if err != nil {
		return "error:" + errKind(err)
	}
	return renderTree(fromProto(resp.Tree))
}

// checkLeaves asks the real check engine, with limits that are not binding, for
// every subject id of the store whether it is a member of the subject set.
func (e *expEnv) checkLeaves(c *ExpCase) string {
	if err := e.setDepth(expCheckDepth); err != nil {
		return "setup:" + err.Error()
	}
	old := checkgroup.DefaultFactory
	checkgroup.DefaultFactory = newSeq
	defer func() { checkgroup.DefaultFactory = old }()
	seen := map[int]bool{}
	var ids, allowed []int
	for _, t := range c.Tuples {
		if !t.Sub.IsSet && !seen[t.Sub.ID] {
			seen[t.Sub.ID] = true
			ids = append(ids, t.Sub.ID)
		}
	}
	eng := check.NewEngine(e.reg)
	for _, u := range ids {
		q := Tup{NS: c.Subject.NS, Obj: c.Subject.Obj, Rel: c.Subject.Rel, Sub: Sub{ID: u}}
		its, err := e.reg.Mapper().FromTuple(e.ctx, q.api())
		if err != nil {
			return "map:" + errKind(err)
		}
		ok, err := eng.CheckIsMember(e.ctx, its[0], 0)
		if err != nil {
			return "error:" + errKind(err)
		}
		if ok {
			allowed = append(allowed, u)
		}
	}
	return intSet(allowed)
}

// ---- which configurations have the plain graph semantics ----

func hasRewrites(nss []*namespace.Namespace) bool {
	for _, n := range nss {
		for _, r := range n.Relations {
			if r.SubjectSetRewrite != nil {
				return true
			}
		}
	}
	return false
}

// relDeclared mirrors namespace.ASTRelationFor: false iff the lookup is an error.
func relDeclared(nss []*namespace.Namespace, ns, rel string) bool {
	if rel == "" {
		return true
	}
	for _, n := range nss {
		if n.Name != ns {
			continue
		}
		if len(n.Relations) == 0 {
			return true
		}
		for _, r := range n.Relations {
			if r.Name == rel {
				return true
			}
		}
		return false
	}
	return true
}

// plainConfig: no rewrites and every relation the check can meet is declared (or
// the namespace is a legacy one): check = reachability in the tuple graph.
func plainConfig(c *ExpCase) bool {
	if hasRewrites(c.NSs) {
		return false
	}
	if !relDeclared(c.NSs, c.Subject.NS, c.Subject.Rel) {
		return false
	}
	for _, t := range c.Tuples {
		if !relDeclared(c.NSs, t.NS, t.Rel) {
			return false
		}
		if t.Sub.IsSet && !relDeclared(c.NSs, t.Sub.NS, t.Sub.Rel) {
			return false
		}
	}
	return true
}

// ---- generators ----

type expNode struct {
	ns  string
	obj int
	rel string
}

func (n expNode) sub() Sub { return Sub{IsSet: true, NS: n.ns, Obj: n.obj, Rel: n.rel} }

func edge(from expNode, to Sub) Tup { return Tup{NS: from.ns, Obj: from.obj, Rel: from.rel, Sub: to} }

// genExpGraph generates a tuple graph and a subject set to expand.
func genExpGraph(r *rand.Rand, o *Out) ([]Tup, Sub, string) {
	nNS := 1 + r.Intn(3)
	nRel := 1 + r.Intn(3)
	nObj := 2 + r.Intn(4)
	nID := 1 + r.Intn(4)
	perm := r.Perm(len(nsPool))
	relPerm := r.Perm(len(relPool))
	var nodes []expNode
	nNodes := 2 + r.Intn(8)
	for i := 0; i < nNodes; i++ {
		nodes = append(nodes, expNode{nsPool[perm[r.Intn(nNS)]], r.Intn(nObj), relPool[relPerm[r.Intn(nRel)]]})
	}
	node := func() expNode { return pick(r, nodes) }
	id := func() Sub { return Sub{ID: r.Intn(nID)} }
	anySub := func() Sub {
		switch k := r.Intn(20); {
		case k < 8:
			return id()
		case k == 19:
			n := node()
			return Sub{IsSet: true, NS: n.ns, Obj: n.obj, Rel: ""}
		default:
			return node().sub()
		}
	}
	var ts []Tup
	root := nodes[0]
	shape := ""
	switch k := r.Intn(100); {
	case k < 40:
		shape = "random"
		n := 1 + r.Intn(24)
		for i := 0; i < n; i++ {
			ts = append(ts, edge(node(), anySub()))
		}
	case k < 55:
		shape = "chain"
		l := 1 + r.Intn(9)
		cur := root
		for i := 0; i < l; i++ {
			nx := expNode{root.ns, 100 + i, root.rel}
			ts = append(ts, edge(cur, nx.sub()))
			if r.Intn(3) == 0 {
				ts = append(ts, edge(cur, id()))
			}
			cur = nx
		}
		ts = append(ts, edge(cur, id()))
		if r.Intn(2) == 0 {
			// a shortcut or a back edge
			a, b := r.Intn(l+1), r.Intn(l+1)
			from, to := root, root
			if a > 0 {
				from = expNode{root.ns, 100 + a - 1, root.rel}
			}
			if b > 0 {
				to = expNode{root.ns, 100 + b - 1, root.rel}
			}
			ts = append(ts, edge(from, to.sub()))
		}
	case k < 70:
		shape = "diamond"
		// layers; every node of a layer points to several nodes of the next one
		layers := 2 + r.Intn(4)
		width := 2 + r.Intn(3)
		prev := []expNode{root}
		for l := 0; l < layers; l++ {
			var cur []expNode
			for w := 0; w < width; w++ {
				cur = append(cur, expNode{root.ns, 200 + 10*l + w, root.rel})
			}
			for _, p := range prev {
				for _, c := range cur {
					if r.Intn(3) != 0 {
						ts = append(ts, edge(p, c.sub()))
					}
				}
			}
			prev = cur
		}
		for _, p := range prev {
			ts = append(ts, edge(p, id()))
		}
		if r.Intn(3) == 0 {
			ts = append(ts, edge(pick(r, prev), root.sub()))
		}
	case k < 85:
		shape = "cycle"
		l := 1 + r.Intn(5)
		ring := []expNode{root}
		for i := 1; i < l; i++ {
			ring = append(ring, expNode{root.ns, 300 + i, root.rel})
		}
		for i := range ring {
			ts = append(ts, edge(ring[i], ring[(i+1)%l].sub()))
			if r.Intn(2) == 0 {
				ts = append(ts, edge(ring[i], id()))
			}
		}
		n := r.Intn(6)
		for i := 0; i < n; i++ {
			ts = append(ts, edge(pick(r, ring), anySub()))
		}
	default:
		shape = "order"
		// the shape of the known finding: a subject set met first deep in the tree
		a := expNode{root.ns, 401, root.rel}
		b := expNode{root.ns, 402, root.rel}
		ts = append(ts, edge(root, a.sub()), edge(root, b.sub()), edge(a, b.sub()), edge(b, id()))
		if r.Intn(2) == 0 {
			c := expNode{root.ns, 403, root.rel}
			ts = append(ts, edge(b, c.sub()), edge(c, id()), edge(a, c.sub()))
		}
	}
	// duplicates
	if len(ts) > 0 && r.Intn(4) == 0 {
		n := 1 + r.Intn(3)
		for i := 0; i < n; i++ {
			ts = append(ts, pick(r, ts))
		}
	}
	r.Shuffle(len(ts), func(i, j int) { ts[i], ts[j] = ts[j], ts[i] })
	s := root.sub()
	if r.Intn(12) == 0 {
		s = node().sub()
	}
	if r.Intn(40) == 0 {
		s = Sub{IsSet: true, NS: root.ns, Obj: 999, Rel: root.rel} // nothing stored
	}
	if o != nil {
		o.Count("shape:" + shape)
	}
	return ts, s, shape
}

// genWide: one node with more than a page of children (subject ids and subject
// sets, some of them with tuples of their own, some pointing back).
func genWide(r *rand.Rand) ([]Tup, Sub) {
	root := expNode{"Group", 0, "members"}
	n := 101 + r.Intn(150)
	if r.Intn(3) == 0 {
		n = 199 + r.Intn(4) // around two full pages
	}
	var ts []Tup
	var kids []expNode
	for i := 0; i < n; i++ {
		if r.Intn(4) == 0 {
			k := expNode{"Group", 1 + r.Intn(12), "members"}
			kids = append(kids, k)
			ts = append(ts, edge(root, k.sub()))
		} else {
			ts = append(ts, edge(root, Sub{ID: r.Intn(10)}))
		}
	}
	for _, k := range kids {
		if r.Intn(3) == 0 {
			ts = append(ts, edge(k, Sub{ID: 1000 + r.Intn(5)}))
		}
		if r.Intn(6) == 0 {
			ts = append(ts, edge(k, pick(r, kids).sub()))
		}
		if r.Intn(10) == 0 {
			ts = append(ts, edge(k, root.sub()))
		}
	}
	return ts, root.sub()
}

// genExpNamespaces: legacy namespaces, or OPL-shaped ones declaring the relations
// the tuples use (sometimes one is left out, sometimes a permission is added).
func genExpNamespaces(r *rand.Rand, ts []Tup, s Sub) []*namespace.Namespace {
	legacy := legacyNamespaces(ts, s)
	if r.Intn(2) == 0 {
		return legacy
	}
	type key struct{ ns, rel string }
	rels := map[string][]string{}
	have := map[key]bool{}
	types := map[key][]ast.RelationType{}
	addRel := func(ns, rel string) {
		if rel == "" || have[key{ns, rel}] {
			return
		}
		have[key{ns, rel}] = true
		rels[ns] = append(rels[ns], rel)
	}
	addType := func(ns, rel string, ty ast.RelationType) {
		for _, t := range types[key{ns, rel}] {
			if t == ty {
				return
			}
		}
		types[key{ns, rel}] = append(types[key{ns, rel}], ty)
	}
	user := "User"
	needUser := false
	for _, t := range ts {
		addRel(t.NS, t.Rel)
		if t.Sub.IsSet {
			addRel(t.Sub.NS, t.Sub.Rel)
			addType(t.NS, t.Rel, ast.RelationType{Namespace: t.Sub.NS, Relation: t.Sub.Rel})
		} else {
			needUser = true
			addType(t.NS, t.Rel, ast.RelationType{Namespace: user})
		}
	}
	if s.IsSet {
		addRel(s.NS, s.Rel)
	}
	dropOne := r.Intn(8) == 0
	addPerm := r.Intn(8) == 0
	var out []*namespace.Namespace
	names := map[string]bool{}
	for _, n := range legacy {
		names[n.Name] = true
		ns := &namespace.Namespace{Name: n.Name}
		rs := rels[n.Name]
		sort.Strings(rs)
		for _, rel := range rs {
			if dropOne && len(rs) > 1 && r.Intn(2) == 0 {
				dropOne = false
				continue
			}
			ty := types[key{n.Name, rel}]
			if len(ty) == 0 {
				ty = []ast.RelationType{{Namespace: user}}
				needUser = true
			}
			ns.Relations = append(ns.Relations, ast.Relation{Name: rel, Types: ty})
		}
		if addPerm && len(ns.Relations) > 0 {
			addPerm = false
			ns.Relations = append(ns.Relations, ast.Relation{Name: "view",
				SubjectSetRewrite: &ast.SubjectSetRewrite{Children: ast.Children{&ast.ComputedSubjectSet{Relation: ns.Relations[0].Name}}}})
		}
		out = append(out, ns)
	}
	if needUser && !names[user] {
		out = append(out, &namespace.Namespace{Name: user})
	}
	return out
}

// ---- the stream ----

func (e *expEnv) emit(o *Out, c *ExpCase, id string, plain bool, checkLeaves string) {
	o.Pre("expand", id, c.Payload())
	tree, calls, errs := e.runEngine(c)
	ts := renderTree(tree)
	if errs != "" {
		ts = errs
	}
	impl := fmt.Sprintf("tree=%s\tcalls=%d\tleaves=%s", ts, calls, intSet(idsBelow(tree)))
	if plain {
		impl += "\tcheckleaves=" + checkLeaves
	}
	// the k-th page fetch fails, for every k the expansion reaches (at most 12): the expansion
	// fails - it never answers with the part of the tree it had read so far
	// (column ferr: one bit per failing position, 1 = the expansion failed; the model's faultColumn)
	if errs == "" {
		bits, swallowed := "", ""
		for k := int64(1); k <= calls && k <= 12; k++ {
			ft, _, ferrs := e.runEngineFault(c, k)
			o.Count("expand-fault-runs")
			if ferrs == "" {
				bits += "0"
				if swallowed == "" {
					swallowed = fmt.Sprintf("\tx_fault_swallowed=storage call %d of %d failed and the expansion answered %.200s", k, calls, renderTree(ft))
					o.Count("expand-fault-swallowed")
				}
			} else {
				bits += "1"
			}
		}
		impl += "\tferr=" + bits + swallowed
	}
	agree := 1
	// the transports use the registry's own engine: the default page size only
	if c.PageSize == 0 {
		rest, grpc := e.runREST(c), e.runGRPC(c)
		if rest != ts || grpc != ts {
			agree = 0
			impl += "\tx_rest=" + rest + "\tx_grpc=" + grpc
		}
		impl += fmt.Sprintf("\ttransports_agree=%d", agree)
		o.Count(fmt.Sprintf("transports_agree:%d", agree))
	}
	nontrivial := tree != nil && !tree.Leaf && calls >= 2
	o.Emit("expand", id, c.Payload(), impl, nontrivial)
	switch {
	case tree == nil:
		o.Count("tree:nil")
	case tree.Leaf:
		o.Count("tree:leaf")
	default:
		o.Count("tree:union")
	}
}

func streamExpand(t *testing.T, o *Out) {
	r := newRand()
	n := envInt("VERIF_N", 300)
	e := newExpEnv(t)
	id := 0
	// one state in wideEvery has more than a page of children below one node
	wideEvery := envInt("VERIF_EXPAND_WIDE_EVERY", 25)
	states := 0
	// corpus first: the storage order of the line is forced (rows are rewritten until
	// the engine sees that order)
	for _, l := range corpusLines("expand") {
		parts := strings.SplitN(l, " ", 3)
		if len(parts) < 3 {
			t.Fatalf("corpus line %q: too short", l)
		}
		c, err := ParseExpCase(parts[2])
		if err != nil {
			t.Fatalf("corpus line %q: %v", parts[1], err)
		}
		if err := e.loadNamespaces(c, nil); err != nil {
			t.Fatalf("corpus %s: %v", parts[1], err)
		}
		forced, err := e.store(c, len(c.Tuples) <= 12)
		if err != nil {
			t.Fatalf("corpus %s: %v", parts[1], err)
		}
		if forced {
			o.Count("corpus:order-forced")
		} else {
			o.Count("corpus:order-as-stored")
		}
		o.Count("corpus")
		id++
		e.emit(o, c, fmt.Sprintf("corpus-%s-%d", parts[1], id), true, e.checkLeaves(c))
	}
	for emitted := 0; emitted < n; {
		var ts []Tup
		var s Sub
		wide := r.Intn(wideEvery) == 0
		if wide {
			ts, s = genWide(r)
			o.Count("shape:wide")
		} else {
			ts, s, _ = genExpGraph(r, o)
		}
		c := &ExpCase{Tuples: ts, Subject: s}
		c.NSs = genExpNamespaces(r, ts, s)
		if err := e.loadNamespaces(c, o); err != nil {
			t.Fatalf("namespaces: %v", err)
		}
		if _, err := e.store(c, false); err != nil {
			t.Fatalf("store: %v", err)
		}
		plain := plainConfig(c)
		cl := ""
		if plain {
			cl = e.checkLeaves(c)
			o.Count("checkleaves:asked")
		} else {
			o.Count("checkleaves:not-plain")
		}
		// Changing the global depth reloads the configuration (tens of ms), so a state is
		// run at two global depths: the one the check engine was just asked at (request
		// depths 1..8 decide) and one of 1..8 (in turn) with request depths -1, 0, 1..g
		// and > g; page sizes: default and small.
		type variant struct{ g, rd, ps int }
		var vs []variant
		smallPage := func() int {
			if r.Intn(3) == 0 {
				return 1 + r.Intn(4)
			}
			return 0
		}
		states++
		g := 1 + states%8
		if wide {
			vs = append(vs, variant{expCheckDepth, 1, 0}, variant{expCheckDepth, 2, 0}, variant{expCheckDepth, 3, 0},
				variant{expCheckDepth, 3, 7}, variant{expCheckDepth, 3, 100}, variant{expCheckDepth, 3, 101},
				variant{g, 0, 0}, variant{g, -1, 99})
		} else {
			for i := 0; i < 3; i++ {
				vs = append(vs, variant{expCheckDepth, 1 + r.Intn(8), smallPage()})
			}
			vs = append(vs, variant{g, -1, smallPage()}, variant{g, 0, smallPage()}, variant{g, 1 + r.Intn(g), smallPage()},
				variant{g, g + 1 + r.Intn(3), smallPage()}, variant{g, r.Intn(g+3) - 1, smallPage()})
		}
		for _, v := range vs {
			vc := *c
			vc.GDepth, vc.RDepth, vc.PageSize = v.g, v.rd, v.ps
			id++
			emitted++
			e.emit(o, &vc, fmt.Sprintf("g%d", id), plain, cl)
			o.Count(fmt.Sprintf("gdepth:%d", v.g))
			if eff := v.rd; v.rd >= 1 && v.rd <= v.g {
				o.Count(fmt.Sprintf("effdepth:%d", eff))
			} else {
				o.Count(fmt.Sprintf("effdepth:%d", v.g))
			}
			switch {
			case v.rd < 0:
				o.Count("rdepth:negative")
			case v.rd == 0:
				o.Count("rdepth:0")
			case v.rd > v.g:
				o.Count("rdepth:>global")
			default:
				o.Count("rdepth:1..global")
			}
			if v.ps != 0 {
				o.Count("pagesize:small")
			}
		}
	}
}
