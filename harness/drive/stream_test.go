package drive

import (
	"errors"
	"fmt"
	"os"
	"strings"
	"testing"
)

// TestStream is the entry point used by /verif/check:
//
//	VERIF_STREAM=<name> VERIF_SEED=<n> VERIF_N=<cases> VERIF_OUT=<dir> harness.test -test.run '^TestStream$'
func TestStream(t *testing.T) {
	stream := os.Getenv("VERIF_STREAM")
	if stream == "" {
		t.Skip("VERIF_STREAM not set")
	}
	f, ok := streams[stream]
	if !ok {
		t.Fatalf("unknown stream %q", stream)
	}
	o, err := NewOut(stream)
	if err != nil {
		t.Fatal(err)
	}
	defer func() {
		if err := o.Close(); err != nil {
			t.Fatal(err)
		}
	}()
	f(t, o)
}

var streams = map[string]func(t *testing.T, o *Out){}

func init() {
	streams["engine-c01"] = func(t *testing.T, o *Out) {
		streamEngine(t, o, EngProfile{Name: "c01", LimitsLoose: true})
	}
	streams["engine-c02"] = func(t *testing.T, o *Out) {
		streamEngine(t, o, EngProfile{Name: "c02", DepthGrid: true})
	}
	streams["engine-c11"] = func(t *testing.T, o *Out) {
		streamEngine(t, o, EngProfile{Name: "c11", LimitsLoose: true, Conforming: true})
	}
	streams["engine-c06"] = func(t *testing.T, o *Out) {
		streamEngine(t, o, EngProfile{Name: "c06", LimitsLoose: true, OtherNet: true})
	}
	streams["engine-c03"] = func(t *testing.T, o *Out) {
		streamEngine(t, o, EngProfile{Name: "c03", LimitsLoose: true, Faults: true})
	}
}

func engNontrivial(c *EngCase, calls int64) bool {
	// at least one expansion or rewrite evaluated: more than the single direct lookup
	return calls >= 2
}

func streamEngine(t *testing.T, o *Out, p EngProfile) {
	r := newRand()
	n := envInt("VERIF_N", 300)
	env := newEngEnv(t)
	if p.OtherNet {
		if err := env.useCtxNetworks(); err != nil {
			t.Fatalf("ctx networks: %v", err)
		}
	}
	id := 0
	emit := func(c *EngCase, tag string, withConc bool) int64 {
		id++
		o.Pre("engine", fmt.Sprintf("%s%d", tag, id), c.Payload())
		res, calls := env.runCheck(c, true)
		if calls > callBudget {
			o.Count("dropped:cost")
			return calls
		}
		impl := fmt.Sprintf("res=%s\tcalls=%d\topl=%d", res, calls, b2i(c.ViaOPL))
		if withConc {
			// the real concurrent checkgroup, several times: the decision must not depend on
			// goroutine scheduling
			cres, _ := env.runCheck(c, false)
			for k := 0; k < 4 && cres == res; k++ {
				if again, _ := env.runCheck(c, false); again != cres {
					cres = again
				}
			}
			impl += "\tcres=" + cres
		}
		o.Emit("engine", fmt.Sprintf("%s%d", tag, id), c.Payload(), impl, engNontrivial(c, calls))
		o.Count("res:" + res)
		return calls
	}
	// corpus first
	for _, l := range corpusLines("engine") {
		parts := strings.SplitN(l, " ", 3)
		c, err := ParseEngCase(parts[2])
		if err != nil {
			t.Fatalf("corpus line %q: %v", parts[1], err)
		}
		if err := env.prepare(c, nil); err != nil {
			if errors.Is(err, errLeak) {
				id++
				o.Emit("engine", fmt.Sprintf("leak%d", id), c.Payload(), "res=network-leak/none\tcalls=0\topl=0\tx_detail="+strings.ReplaceAll(err.Error(), "\t", " "), true)
				continue
			}
			t.Fatalf("corpus %s: %v", parts[1], err)
		}
		o.Count("corpus")
		emit(c, "corpus-"+parts[1]+"-", true)
	}
	for i := 0; i < n; i++ {
		c := genEngCase(r, p)
		if err := env.prepare(c, o); err != nil {
			if errors.Is(err, errLeak) {
				id++
				o.Emit("engine", fmt.Sprintf("leak%d", id), c.Payload(), "res=network-leak/none\tcalls=0\topl=0\tx_detail="+strings.ReplaceAll(err.Error(), "\t", " "), true)
				continue
			}
			t.Fatalf("prepare: %v", err)
		}
		if p.OtherNet {
			// the other network holds tuples that would change many answers if they leaked:
			// the same relations with every subject a member of everything
			var other []Tup
			for _, tt := range genTuples(r, c.NSs, false) {
				other = append(other, tt)
			}
			for _, tt := range c.Tuples {
				if tt.Sub.IsSet {
					other = append(other, Tup{NS: tt.Sub.NS, Obj: tt.Sub.Obj, Rel: tt.Sub.Rel, Sub: c.Query.Sub})
				}
			}
			other = append(other, c.Query)
			if err := env.fillOtherNetwork(other); err != nil {
				t.Fatalf("other network: %v", err)
			}
			o.Count("other-net-tuples")
		}
		switch {
		case p.Faults:
			base := emit(c, "g", false)
			max := int(base)
			if max > 14 {
				max = 14
			}
			for k := 1; k <= max; k++ {
				for _, pers := range []bool{false, true} {
					fc := *c
					fc.FaultAt, fc.FaultPersis = k, pers
					fc.FaultKind = r.Intn(len(faultErrs))
					emit(&fc, "f", !pers)
					o.Count("fault-cases")
				}
			}
		case p.DepthGrid:
			// several queries per stored state, over a grid of (request depth, global depth, width)
			for _, g := range []int{1, 2, 3, 5, 8} {
				for _, rd := range []int{-1, 0, 1, g, g + 2} {
					gc := *c
					gc.GDepth, gc.RDepth = g, rd
					gc.Width = []int{1, 2, 3, 100}[r.Intn(4)]
					emit(&gc, "d", false)
				}
			}
		default:
			emit(c, "g", true)
			// more queries on the same state
			for j := 0; j < 3; j++ {
				qc := *c
				qc.Query = genQuery(r, c.NSs, c.Tuples)
				emit(&qc, "q", j == 0)
			}
		}
	}
}
