package drive

import (
	"errors"
	"fmt"
	"github.com/ory/keto/internal/namespace"
	"github.com/ory/keto/internal/namespace/ast"
	"os"
	"strings"
	"testing"
)

// TestStream is the entry point used by /verif/check:
//
//	VERIF_STREAM=<name> VERIF_SEED=<n> VERIF_N=<cases> VERIF_OUT=<dir> harness.test -test.run '^TestStream$'
func TestStream(t *testing.T) {
	stream := os.Getenv("VERIF_STREAM")
	if stream == "" {
		t.Skip("VERIF_STREAM not set")
	}
	f, ok := streams[stream]
	if !ok {
		t.Fatalf("unknown stream %q", stream)
	}
	o, err := NewOut(stream)
	if err != nil {
		t.Fatal(err)
	}
	defer func() {
		if err := o.Close(); err != nil {
			t.Fatal(err)
		}
	}()
	f(t, o)
}

var streams = map[string]func(t *testing.T, o *Out){}

func init() {
	streams["engine-c01"] = func(t *testing.T, o *Out) {
		streamEngine(t, o, EngProfile{Name: "c01", LimitsLoose: true})
	}
	streams["engine-c02"] = func(t *testing.T, o *Out) {
		streamEngine(t, o, EngProfile{Name: "c02", DepthGrid: true})
	}
	streams["engine-c11"] = func(t *testing.T, o *Out) {
		streamEngine(t, o, EngProfile{Name: "c11", LimitsLoose: true, Conforming: true})
	}
	streams["engine-c06"] = func(t *testing.T, o *Out) {
		streamEngine(t, o, EngProfile{Name: "c06", LimitsLoose: true, OtherNet: true})
	}
	streams["engine-wide"] = func(t *testing.T, o *Out) {
		streamEngine(t, o, EngProfile{Name: "wide", LimitsLoose: true, Wide: true})
	}
	streams["engine-c03"] = func(t *testing.T, o *Out) {
		streamEngine(t, o, EngProfile{Name: "c03", LimitsLoose: true, Faults: true})
	}
}

// computedCycle reports whether some permission can reach itself through computed
// subject sets alone (by relation name, whatever the namespace). Only then can the
// construction of a check recurse without a storage call in between, so that its cost
// is bounded by the depth alone (p = p && p costs 2^depth): such configurations keep
// their own depth in the concurrent runs.
func computedCycle(nss []*namespace.Namespace) bool {
	edges := map[string]map[string]bool{}
	var walk func(from string, c ast.Child)
	walk = func(from string, c ast.Child) {
		switch c := c.(type) {
		case *ast.ComputedSubjectSet:
			if edges[from] == nil {
				edges[from] = map[string]bool{}
			}
			edges[from][c.Relation] = true
		case *ast.SubjectSetRewrite:
			for _, ch := range c.Children {
				walk(from, ch)
			}
		case *ast.InvertResult:
			walk(from, c.Child)
		}
	}
	for _, n := range nss {
		for _, r := range n.Relations {
			if r.SubjectSetRewrite != nil {
				walk(r.Name, r.SubjectSetRewrite)
			}
		}
	}
	state := map[string]int{}
	var dfs func(x string) bool
	dfs = func(x string) bool {
		state[x] = 1
		for y := range edges[x] {
			if state[y] == 1 || (state[y] == 0 && dfs(y)) {
				return true
			}
		}
		state[x] = 2
		return false
	}
	for x := range edges {
		if state[x] == 0 && dfs(x) {
			return true
		}
	}
	return false
}

// effDepthGo is the effective depth the property states: a request depth <= 0 or above
// the global limit means the global limit.
func effDepthGo(r, g int) int {
	if r <= 0 || g < r {
		return g
	}
	return r
}

// concDepth is the global depth of the runs with the real concurrent checkgroup.
const concDepth = 120

func engNontrivial(c *EngCase, calls int64) bool {
	// at least one expansion or rewrite evaluated: more than the single direct lookup
	return calls >= 2
}

func streamEngine(t *testing.T, o *Out, p EngProfile) {
	r := newRand()
	n := envInt("VERIF_N", 300)
	env := newEngEnv(t)
	if p.OtherNet {
		if err := env.useCtxNetworks(); err != nil {
			t.Fatalf("ctx networks: %v", err)
		}
	}
	id := 0
	extraCol := ""
	emit := func(c *EngCase, tag string, withConc bool) int64 {
		id++
		o.Pre("engine", fmt.Sprintf("%s%d", tag, id), c.Payload())
		res, calls := env.runCheck(c, true)
		if calls > callBudget && !env.hung {
			// more storage operations than the budget: not comparable (every call beyond the
			// budget failed), but reported - the oracle asks the model whether the check
			// should have needed that many
			o.Count("dropped:cost")
			o.Emit("engine", fmt.Sprintf("%s%d", tag, id), c.Payload(), fmt.Sprintf("x_over=%d\topl=%d", calls, b2i(c.ViaOPL)), false)
			return calls
		}
		if env.hung {
			withConc = false
		}
		impl := fmt.Sprintf("res=%s\tcalls=%d\topl=%d", res, calls, b2i(c.ViaOPL)) + extraCol
		if withConc {
			// the real concurrent checkgroup, several times: the decision must not depend on
			// goroutine scheduling
			// goroutine scheduling. These runs use a global depth that cannot bind (a depth
			// that binds makes the answer depend on which sibling expansion marks a shared
			// subject set visited first - fail closed, and outside "limits not binding"); the
			// oracle judges cres only when the model's run at the case's own depth had no
			// limit event, where the answer does not depend on the depth.
			cc := *c
			if cc.GDepth < concDepth && !computedCycle(c.NSs) {
				cc.GDepth, cc.RDepth = concDepth, 0
			}
			// (their cost is capped: a cycle through tuple-to-subject-sets is only ended by the depth,
			// and at depth 120 that is thousands of storage calls - such cases get no cres)
			env.budget = 30*calls + 300
			cres, ccalls := env.runCheck(&cc, false)
			for k := 0; k < 4 && cres == res && ccalls <= env.budget; k++ {
				if again, _ := env.runCheck(&cc, false); again != cres {
					cres = again
				}
			}
			over := ccalls > env.budget
			env.budget = 0
			if !over {
				impl += "\tcres=" + cres
			} else {
				o.Count("dropped:conc-cost")
			}
		}
		o.Emit("engine", fmt.Sprintf("%s%d", tag, id), c.Payload(), impl, engNontrivial(c, calls))
		o.Count("res:" + res)
		return calls
	}
	// corpus first
	for _, l := range corpusLines("engine") {
		parts := strings.SplitN(l, " ", 3)
		c, err := ParseEngCase(parts[2])
		if err != nil {
			t.Fatalf("corpus line %q: %v", parts[1], err)
		}
		if err := env.prepare(c, nil); err != nil {
			if errors.Is(err, errLeak) {
				id++
				o.Emit("engine", fmt.Sprintf("leak%d", id), c.Payload(), "res=network-leak/none\tcalls=0\topl=0\tx_detail="+strings.ReplaceAll(err.Error(), "\t", " "), true)
				continue
			}
			t.Fatalf("corpus %s: %v", parts[1], err)
		}
		o.Count("corpus")
		emit(c, "corpus-"+parts[1]+"-", true)
	}
	stmtFaults := func(c *EngCase) {
		// statement-level faults, below the Manager/Traverser interface: the k-th SQL statement of the check
		// is cancelled right before it is sent (a storage call may send several: page loops, probes). The
		// line carries the storage call the statement belonged to as its fault position, so the model says
		// what happens when that call fails as a whole; a statement error that the storage layer swallows
		// shows as an answer without error that differs from it (column sres: judged by the oracle only).
		if !env.hung {
			env.stmtMode, env.stmtAt = true, 0
			env.runCheck(c, true)
			nst := env.lastStmts
			if nst > 14 {
				nst = 14
			}
			for k := int64(1); k <= nst && !env.hung; k++ {
				env.stmtAt = k
				res, _ := env.runCheck(c, true)
				if env.lastStmtCall == 0 {
					continue
				}
				fc := *c
				fc.FaultAt, fc.FaultPersis = int(env.lastStmtCall), false
				id++
				o.Emit("engine", fmt.Sprintf("s%d", id), fc.Payload(), fmt.Sprintf("sres=%s\tx_stmt=%d of %d", res, k, env.lastStmts), true)
				o.Count("statement-fault-cases")
			}
			env.stmtMode, env.stmtAt = false, 0
		}
	}
	for i := 0; i < n && !env.hung; i++ {
		c := genEngCase(r, p)
		if err := env.prepare(c, o); err != nil {
			if errors.Is(err, errLeak) {
				id++
				o.Emit("engine", fmt.Sprintf("leak%d", id), c.Payload(), "res=network-leak/none\tcalls=0\topl=0\tx_detail="+strings.ReplaceAll(err.Error(), "\t", " "), true)
				continue
			}
			t.Fatalf("prepare: %v", err)
		}
		if env.hung {
			// a check made while the configuration was loaded (one lookup per declared relation) did not return
			id++
			o.Emit("engine", fmt.Sprintf("warm%d", id), c.Payload(), "res=hang/none\tcalls=0\topl=0\tx_detail=a depth-2 check of a declared relation did not return while the configuration was loaded", true)
			break
		}
		expandBefore := ""
		if p.OtherNet {
			// expand of the queried subject set in network A while network B is empty …
			if err := env.fillOtherNetwork(nil); err != nil {
				t.Fatalf("other network: %v", err)
			}
			expandBefore = env.expandInA(c)
		}
		if p.OtherNet {
			// the other network holds tuples that would change many answers if they leaked:
			// the same relations with every subject a member of everything
			var other []Tup
			for _, tt := range genTuples(r, c.NSs, false) {
				other = append(other, tt)
			}
			for _, tt := range c.Tuples {
				if tt.Sub.IsSet {
					other = append(other, Tup{NS: tt.Sub.NS, Obj: tt.Sub.Obj, Rel: tt.Sub.Rel, Sub: c.Query.Sub})
				}
			}
			other = append(other, c.Query)
			if err := env.fillOtherNetwork(other); err != nil {
				t.Fatalf("other network: %v", err)
			}
			o.Count("other-net-tuples")
			// … and after network B was filled: the tree must be the same (C06: "expanded")
			if after := env.expandInA(c); after != expandBefore {
				extraCol = "\tx_expand_leak=" + strings.ReplaceAll(fmt.Sprintf("before %.300s after %.300s", expandBefore, after), "\t", " ")
			}
		}
		switch {
		case p.Faults:
			// faults raised INSIDE the storage layer: one stored row at a time is made undecodable
			// (its shard_id is overwritten with text that is no UUID), so that every query that
			// FETCHES the row fails while it is scanned - a driver error during row iteration, below
			// the Manager/Traverser interface where the k-th-call faults are injected. The row still
			// matches every predicate, so the fault-free answer is the one given before the damage.
			extraCol = env.poisonedRuns(c, r)
			if !env.storeIntact() {
				// the damage could not be undone (locked table): store the case again
				if err := env.prepare(c, nil); err != nil {
					t.Fatalf("prepare after poisoned runs: %v", err)
				}
				extraCol = ""
				o.Count("poison:store-reloaded")
			}
			base := emit(c, "g", false)
			extraCol = ""
			max := int(base)
			if max > 14 {
				max = 14
			}
			for k := 1; k <= max && !env.hung; k++ {
				for _, pers := range []bool{false, true} {
					fc := *c
					fc.FaultAt, fc.FaultPersis = k, pers
					fc.FaultKind = r.Intn(len(faultErrs))
					emit(&fc, "f", !pers)
					o.Count("fault-cases")
				}
			}
			stmtFaults(c)
		case p.DepthGrid:
			// several queries per stored state, over a grid of (request depth, global depth, width)
			for _, g := range []int{1, 2, 3, 5, 8} {
				if env.hung {
					break
				}
				for _, rd := range []int{-1, 0, 1, g, g + 2} {
					gc := *c
					gc.GDepth, gc.RDepth = g, rd
					gc.Width = []int{1, 2, 3, 100}[r.Intn(4)]
					// the same request against a FRESH engine whose global limit is the effective
					// depth (request depth 0): by the property the two must answer alike
					fc := gc
					fc.RDepth, fc.GDepth = 0, effDepthGo(rd, g)
					fres := env.runFresh(&fc)
					extraCol = "\tfres=" + fres
					emit(&gc, "d", false)
					extraCol = ""
				}
			}
		default:
			emit(c, "g", true)
			extraCol = ""
			if p.Wide {
				// very wide nodes: the storage layer's own page loops and probes send several statements per call
				stmtFaults(c)
				// ... and the same node under a width limit that it exceeds (what the storage layer does once the
				// limit is reached is code of its own)
				wc := *c
				wc.Width = 100
				emit(&wc, "w", false)
				stmtFaults(&wc)
			}
			// more queries on the same state
			for j := 0; j < 3 && !env.hung; j++ {
				qc := *c
				qc.Query = genQuery(r, c.NSs, c.Tuples)
				emit(&qc, "q", j == 0)
			}
		}
	}
}
