package drive

// Stream "opl" (component "opl"): the real OPL lexer, parser, type checks, error
// positions / rendering and the two syntax-check endpoints against the Lean model
// (Keto/Model/{Lexer,Parser,Typecheck}.lean) and the TypeScript reading of
// permission expressions (Keto/Spec/TSBool.lean).
//
//	lex   <bytes>                      items of schema.Lex
//	parse <bytes>                      schema.Parse, ParseError API, REST + gRPC endpoints
//	expr  <bytes> <k> <leaf>*k <tree>  one-permission document whose body renders <tree>
//
// Columns compared with the model: toks after | nerr errs meta panic endpoints_agree ns tt.
// Columns only the oracles read: gen expect_ok decl_ok sem_ok v_*; x_* are never compared.

import (
	"google.golang.org/protobuf/proto"
	"bytes"
	"context"
	"encoding/json"
	"fmt"
	"net/http"
	"net/http/httptest"
	"strconv"
	"strings"
	"testing"
	"time"
	"unicode/utf8"

	"github.com/ory/keto/internal/driver"
	"github.com/ory/keto/internal/namespace"
	"github.com/ory/keto/internal/namespace/ast"
	"github.com/ory/keto/internal/schema"
	"github.com/ory/keto/ketoapi"
	opl "github.com/ory/keto/proto/ory/keto/opl/v1alpha1"
)

const oplMaxErrsShown = 32

type oplEnv struct {
	ctx  context.Context
	rest http.Handler
	grpc *schema.Handler
	// errors of the previous document and how they rendered then
	prevErrs     []*schema.ParseError
	prevRendered string
	pre          func(input string)
}

func newOplEnv(t testing.TB) *oplEnv {
	reg := driver.NewSqliteTestRegistry(t, false)
	quiet(reg)
	ctx := context.Background()
	return &oplEnv{ctx: ctx, rest: reg.OPLSyntaxRouter(ctx), grpc: schema.NewHandler(reg)}
}

// oplLexErrKind maps the text of a lexer error item to its kind.
func oplLexErrKind(val string) string {
	switch {
	case val == "broken state":
		return "broken-state"
	case val == `at "": unclosed comment`:
		return "unclosed-comment"
	case val == `at "": unclosed string literal`:
		return "unclosed-string"
	case strings.HasPrefix(val, `at "`) && strings.Contains(val, `": unexpected token `):
		return "unexpected-token"
	}
	return "unknown:" + val
}

// oplErrKind maps a ParseError message to the enum of message formats.
func oplErrKind(msg string) string {
	quotedThen := func(s, prefix string) (string, bool) {
		if !strings.HasPrefix(s, prefix) {
			return "", false
		}
		q, err := strconv.QuotedPrefix(s[len(prefix):])
		if err != nil {
			return "", false
		}
		return s[len(prefix)+len(q):], true
	}
	switch {
	case strings.HasPrefix(msg, "fatal: "):
		return "fatal-" + oplLexErrKind(msg[len("fatal: "):])
	case strings.HasPrefix(msg, "expected identifier or '}', got "):
		return "expected-identifier-or-brace"
	case strings.HasPrefix(msg, "expected identifier, got "):
		return "expected-identifier"
	case strings.HasPrefix(msg, "expected 'permits' or 'related', got "):
		return "expected-permits-or-related"
	case strings.HasPrefix(msg, "expected 'related' or 'permits', got "):
		return "expected-related-or-permits"
	case strings.HasPrefix(msg, "expected 'traverse' or 'includes', got "):
		return "expected-traverse-or-includes"
	case strings.HasPrefix(msg, "expected '|', got "):
		return "expected-union"
	case strings.HasPrefix(msg, `expected "`):
		return "expected-token"
	case strings.HasPrefix(msg, "expression nested too deeply; maximal nesting depth is "):
		return "nested-too-deeply"
	case msg == "did not expect another expression":
		return "unexpected-expression"
	case msg == "could not typecheck deeply nested SubjectSet further":
		return "tc-too-deep"
	}
	if rest, ok := quotedThen(msg, "namespace "); ok {
		if rest == " was not declared" {
			return "ns-not-declared"
		}
		if strings.HasPrefix(rest, " did not declare relation ") {
			return "ns-no-relation"
		}
	}
	if rest, ok := quotedThen(msg, "relation "); ok && strings.HasPrefix(rest, " was not declared in namespace ") {
		return "rel-not-declared"
	}
	return "unknown:" + msg
}

func oplImplLex(input string) (res string) {
	defer func() {
		if p := recover(); p != nil {
			res = "panic=1"
		}
	}()
	items, after := lexAll(input)
	str := func(it lexItem) string {
		if it.Typ == 0 {
			return fmt.Sprintf("0:%d-%d:%s", it.Start, it.End, oplLexErrKind(it.Val))
		}
		return fmt.Sprintf("%d:%d-%d:%s", it.Typ, it.Start, it.End, S(it.Val))
	}
	parts := make([]string, len(items))
	for i, it := range items {
		parts[i] = str(it)
	}
	return fmt.Sprintf("toks=%s\tafter=%s\tpanic=0\thang=0", strings.Join(parts, ";"), str(after))
}

func oplValidUTF8(s string) string {
	if utf8.ValidString(s) {
		return s
	}
	var sb strings.Builder
	for _, r := range s {
		sb.WriteRune(r)
	}
	return sb.String()
}

type oplParsed struct {
	cols   string
	nss    []namespace.Namespace
	nerr   int
	kinds  []string
	panic  bool
	hang   bool
	millis int64
	shown  []string // "kind@line:col-line:col" of the first errors
}

func oplHasNil(c ast.Child) bool {
	switch c := c.(type) {
	case *ast.SubjectSetRewrite:
		if c == nil {
			return true
		}
		for _, ch := range c.Children {
			if oplHasNil(ch) {
				return true
			}
		}
	case *ast.InvertResult:
		return c == nil || oplHasNil(c.Child)
	case nil:
		return true
	}
	return false
}

// oplChildTokens is childTokens (engcase.go) plus "z" for a nil *SubjectSetRewrite
// stored in a Child interface (what the parser produces for "!()").
func oplChildTokens(sb *strings.Builder, c ast.Child) {
	switch c := c.(type) {
	case *ast.SubjectSetRewrite:
		if c == nil {
			sb.WriteString(" z")
			return
		}
		fmt.Fprintf(sb, " r %s %d", opTok(c.Operation), len(c.Children))
		for _, ch := range c.Children {
			oplChildTokens(sb, ch)
		}
	case *ast.InvertResult:
		sb.WriteString(" n")
		oplChildTokens(sb, c.Child)
	default:
		childTokens(sb, c)
	}
}

func oplNsTokens(nss []namespace.Namespace) string {
	ptrs := make([]*namespace.Namespace, len(nss))
	hasNil := false
	for i := range nss {
		ptrs[i] = &nss[i]
		for _, r := range nss[i].Relations {
			if r.SubjectSetRewrite != nil && oplHasNil(r.SubjectSetRewrite) {
				hasNil = true
			}
		}
	}
	var sb strings.Builder
	if !hasNil {
		nsTokens(&sb, ptrs)
		return strings.ReplaceAll(sb.String(), " ", "_")
	}
	fmt.Fprintf(&sb, "N %d", len(nss))
	for _, n := range nss {
		fmt.Fprintf(&sb, " %s %d", S(n.Name), len(n.Relations))
		for _, r := range n.Relations {
			fmt.Fprintf(&sb, " %s %d", S(r.Name), len(r.Types))
			for _, t := range r.Types {
				fmt.Fprintf(&sb, " %s %s", S(t.Namespace), S(t.Relation))
			}
			if r.SubjectSetRewrite != nil {
				fmt.Fprintf(&sb, " 1 %s %d", opTok(r.SubjectSetRewrite.Operation), len(r.SubjectSetRewrite.Children))
				for _, ch := range r.SubjectSetRewrite.Children {
					oplChildTokens(&sb, ch)
				}
			} else {
				sb.WriteString(" 0")
			}
		}
	}
	return strings.ReplaceAll(sb.String(), " ", "_")
}

// oplWatchdog is how long a single input may take before it is reported as hang=1.
// The goroutine that is stuck is abandoned (it blocks on a channel send inside the
// lexer and costs nothing); the stream goes on.
var oplWatchdog = time.Duration(envInt("VERIF_OPL_WATCHDOG_MS", 5000)) * time.Millisecond

// oplHangs counts the inputs on which the watchdog fired; after oplMaxHangs the stream
// stops generating (every hang costs the watchdog time, and the finding is established).
var oplHangs int

const oplMaxHangs = 3

// parse runs parseInner under the watchdog.
func (e *oplEnv) parse(input string) oplParsed {
	if e.pre != nil {
		// a crash of the whole process (stack overflow, a panic in a goroutine) leaves this input behind
		e.pre(input)
	}
	ch := make(chan oplParsed, 1)
	go func() { ch <- e.parseInner(input) }()
	timer := time.NewTimer(oplWatchdog)
	defer timer.Stop()
	select {
	case res := <-ch:
		return res
	case <-timer.C:
		oplHangs++
		return oplParsed{cols: "hang=1", hang: true, millis: oplWatchdog.Milliseconds()}
	}
}

// oplLexWatched runs the real lexer under the watchdog.
func oplLexWatched(input string) string {
	ch := make(chan string, 1)
	go func() { ch <- oplImplLex(input) }()
	timer := time.NewTimer(oplWatchdog)
	defer timer.Stop()
	select {
	case res := <-ch:
		return res
	case <-timer.C:
		oplHangs++
		return "hang=1"
	}
}

// oplRenderErrs renders parse errors through every accessor (positions and message text).
func oplRenderErrs(errs []*schema.ParseError) string {
	var sb strings.Builder
	for _, err := range errs {
		api := err.ToAPI()
		fmt.Fprintf(&sb, "%s@%d:%d-%d:%d|%s;", api.Message, api.Start.Line, api.Start.Col, api.End.Line, api.End.Col, err.Error())
	}
	return sb.String()
}

// parseInner runs schema.Parse, the ParseError API and both endpoints on the input.
func (e *oplEnv) parseInner(input string) (res oplParsed) {
	t0 := time.Now()
	defer func() {
		res.millis = time.Since(t0).Milliseconds()
		if p := recover(); p != nil {
			res.panic = true
			res.cols = "panic=1"
		}
	}()
	nss, errs := schema.Parse(input)
	res.nss, res.nerr = nss, len(errs)
	// the errors of the PREVIOUS document, rendered again now that another document has been parsed:
	// a diagnosis must not depend on what the parser is used for afterwards
	stale := 0
	if len(e.prevErrs) > 0 {
		if oplRenderErrs(e.prevErrs) != e.prevRendered {
			stale = 1
		}
	}
	e.prevErrs, e.prevRendered = nil, ""
	if len(errs) > 0 && len(errs) <= 64 {
		e.prevErrs, e.prevRendered = errs, oplRenderErrs(errs)
	}
	defer func() {
		if res.cols != "" && !res.panic {
			res.cols += fmt.Sprintf("\tstale=%d", stale)
		}
	}()
	var shown, metas []string
	type pe struct {
		msg            string
		sl, sc, el, ec int
	}
	direct := make([]pe, len(errs))
	for i, err := range errs {
		api := err.ToAPI()
		pr := err.ToProto()
		text := err.Error()
		direct[i] = pe{oplValidUTF8(api.Message), api.Start.Line, api.Start.Col, api.End.Line, api.End.Col}
		if pr.Message != api.Message || int(pr.Start.Line) != api.Start.Line || int(pr.Start.Column) != api.Start.Col ||
			int(pr.End.Line) != api.End.Line || int(pr.End.Column) != api.End.Col {
			panic("ToAPI and ToProto disagree")
		}
		kind := oplErrKind(api.Message)
		res.kinds = append(res.kinds, kind)
		if i < oplMaxErrsShown {
			shown = append(shown, fmt.Sprintf("%s@%d:%d-%d:%d", kind, api.Start.Line, api.Start.Col, api.End.Line, api.End.Col))
			if strings.Contains(text, "meta error: could not find source position in input") {
				metas = append(metas, "1")
			} else {
				metas = append(metas, "0")
			}
		}
	}
	if len(errs) > oplMaxErrsShown {
		shown = append(shown, fmt.Sprintf("+%d", len(errs)-oplMaxErrsShown))
	}
	// endpoints
	agree := 1
	rec := httptest.NewRecorder()
	req := httptest.NewRequest(http.MethodPost, schema.RouteBase, bytes.NewReader([]byte(input)))
	req.Header.Set("Content-Type", "text/plain")
	e.rest.ServeHTTP(rec, req)
	var restResp ketoapi.CheckOPLSyntaxResponse
	if rec.Code != http.StatusOK || json.Unmarshal(rec.Body.Bytes(), &restResp) != nil || len(restResp.Errors) != len(errs) {
		agree = 0
	}
	grpcResp, gerr := e.grpc.Check(e.ctx, &opl.CheckRequest{Content: []byte(input)})
	if gerr != nil || len(grpcResp.ParseErrors) != len(errs) {
		agree = 0
	} else if _, merr := proto.Marshal(grpcResp); merr != nil {
		// the gRPC server could not send this answer (e.g. a message that is not valid UTF-8)
		agree = 0
	}
	if agree == 1 {
		for i, d := range direct {
			r := restResp.Errors[i]
			g := grpcResp.ParseErrors[i]
			if r == nil || g == nil || g.Start == nil || g.End == nil ||
				r.Message != d.msg || r.Start.Line != d.sl || r.Start.Col != d.sc || r.End.Line != d.el || r.End.Col != d.ec ||
				oplValidUTF8(g.Message) != d.msg || int(g.Start.Line) != d.sl || int(g.Start.Column) != d.sc ||
				int(g.End.Line) != d.el || int(g.End.Column) != d.ec {
				agree = 0
				break
			}
		}
	}
	cols := []string{
		fmt.Sprintf("nerr=%d", len(errs)),
		"errs=" + strings.Join(shown, ";"),
		"meta=" + strings.Join(metas, ""),
		"panic=0",
		"hang=0",
		fmt.Sprintf("endpoints_agree=%d", agree),
	}
	res.shown = shown
	if len(errs) == 0 {
		cols = append(cols, "ns="+oplNsTokens(nss))
	}
	res.cols = strings.Join(cols, "\t")
	return
}

// oplEvalChild evaluates a parsed rewrite under an assignment of its leaves; a nil
// rewrite is false (as in the model's encoding).
func oplEvalChild(c ast.Child, leaf func(ast.Child) bool) bool {
	switch c := c.(type) {
	case *ast.SubjectSetRewrite:
		if c == nil {
			return false
		}
		if c.Operation == ast.OperatorAnd {
			for _, ch := range c.Children {
				if !oplEvalChild(ch, leaf) {
					return false
				}
			}
			return true
		}
		for _, ch := range c.Children {
			if oplEvalChild(ch, leaf) {
				return true
			}
		}
		return false
	case *ast.InvertResult:
		return !oplEvalChild(c.Child, leaf)
	}
	return leaf(c)
}

func oplLeafIndex(leaves []oplLeaf, c ast.Child) int {
	for i, l := range leaves {
		switch c := c.(type) {
		case *ast.ComputedSubjectSet:
			if !l.TTU && l.Rel == c.Relation {
				return i
			}
		case *ast.TupleToSubjectSet:
			if l.TTU && l.Rel == c.Relation && l.CRel == c.ComputedSubjectSetRelation {
				return i
			}
		}
	}
	return -1
}

func oplTruthTable(rw *ast.SubjectSetRewrite, leaves []oplLeaf) string {
	k := len(leaves)
	var sb strings.Builder
	for m := 0; m < 1<<k; m++ {
		v := oplEvalChild(rw, func(c ast.Child) bool {
			i := oplLeafIndex(leaves, c)
			return i >= 0 && m>>i&1 == 1
		})
		sb.WriteByte("01"[b2i(v)])
	}
	return sb.String()
}

func oplTSTable(e *oplE, k int) string {
	var sb strings.Builder
	for m := 0; m < 1<<k; m++ {
		sb.WriteByte("01"[b2i(e.eval(m))])
	}
	return sb.String()
}

// oplCanonAtoms maps every atom to the first atom with the same leaf (the parsed
// AST cannot tell two occurrences of one leaf apart).
func oplCanonAtoms(leaves []oplLeaf, e *oplE) *oplE {
	if e == nil {
		return nil
	}
	c := *e
	if e.Kind == 'a' {
		for i := 0; i < e.Atom; i++ {
			if leaves[i] == leaves[e.Atom] {
				c.Atom = i
				break
			}
		}
		return &c
	}
	c.L, c.R = oplCanonAtoms(leaves, e.L), oplCanonAtoms(leaves, e.R)
	return &c
}

func oplFirstRewrite(nss []namespace.Namespace) *ast.SubjectSetRewrite {
	for _, n := range nss {
		for _, r := range n.Relations {
			if r.SubjectSetRewrite != nil {
				return r.SubjectSetRewrite
			}
		}
	}
	return nil
}

// oplCheckDecls compares the parsed namespaces with the generating declarations:
// names, relation order, types; permissions by truth table against the TypeScript
// reading. Returns decl_ok, sem_ok.
func oplCheckDecls(decls []*oplNSDecl, nss []namespace.Namespace) (declOK, semOK bool) {
	declOK, semOK = true, true
	if len(decls) != len(nss) {
		return false, false
	}
	for i, d := range decls {
		n := nss[i]
		if n.Name != d.Name || len(n.Relations) != len(d.Rels)+len(d.Perms) {
			return false, false
		}
		for j, rd := range d.Rels {
			r := n.Relations[j]
			if r.Name != rd.Name || r.SubjectSetRewrite != nil || len(r.Types) != len(rd.Types) {
				declOK = false
				continue
			}
			for k, t := range rd.Types {
				if r.Types[k].Namespace != t.NS || r.Types[k].Relation != t.Rel {
					declOK = false
				}
			}
		}
		for j, pd := range d.Perms {
			r := n.Relations[len(d.Rels)+j]
			if r.Name != pd.Name || len(r.Types) != 0 || r.SubjectSetRewrite == nil {
				declOK = false
				continue
			}
			if oplTruthTable(r.SubjectSetRewrite, pd.Leaves) != oplTSTable(oplCanonAtoms(pd.Leaves, pd.Expr), len(pd.Leaves)) {
				semOK = false
			}
		}
	}
	return
}

// ---------------------------------------------------------------- the stream

func streamOpl(t *testing.T, o *Out) {
	r := newRand()
	n := envInt("VERIF_N", 300)
	env := newOplEnv(t)
	id := 0
	nextID := func(tag string) string {
		id++
		return fmt.Sprintf("%s%d", tag, id)
	}
	env.pre = func(input string) { o.Pre("opl", "crash", "parse "+S(input)) }
	emitLex := func(tag, input string) {
		res := oplLexWatched(input)
		if res == "hang=1" {
			o.Count("hang")
		}
		o.Emit("opl", nextID(tag+"l"), "lex "+S(input), res, len(input) > 0)
	}
	emitParse := func(tag, input, extra string) oplParsed {
		p := env.parse(input)
		cols := p.cols + fmt.Sprintf("\tx_ms=%d", p.millis)
		if extra != "" {
			cols += "\t" + extra
		}
		o.Emit("opl", nextID(tag+"p"), "parse "+S(input), cols, len(input) > 0)
		for _, k := range p.kinds {
			o.Count("err:" + k)
		}
		if p.nerr == 0 {
			o.Count("parse:ok")
		} else {
			o.Count("parse:errors")
		}
		if p.hang {
			o.Count("hang")
		}
		if p.millis > 200 {
			o.Count("slow>200ms")
		}
		return p
	}
	emitExpr := func(tag, input string, leaves []oplLeaf, e *oplE, extra string) {
		p := env.parse(input)
		tt := "err"
		if p.nerr == 0 && !p.panic {
			if rw := oplFirstRewrite(p.nss); rw != nil {
				tt = oplTruthTable(rw, leaves)
			} else {
				tt = "none"
			}
		}
		var sb strings.Builder
		fmt.Fprintf(&sb, "expr %s %d", S(input), len(leaves))
		for _, l := range leaves {
			sb.WriteString(" " + l.tokens())
		}
		e.tokens(&sb)
		cols := p.cols + "\ttt=" + tt + fmt.Sprintf("\tx_ms=%d", p.millis)
		if extra != "" {
			cols += "\t" + extra
		}
		o.Emit("opl", nextID(tag+"e"), sb.String(), cols, true)
		switch {
		case tt == "err":
			o.Count("expr:rejected")
		case tt == oplTSTable(e, len(leaves)):
			o.Count("expr:agrees-with-ts")
		default:
			o.Count("expr:deviates-from-ts")
		}
		if e.mixed() {
			o.Count("expr:mixed")
		}
	}

	emitRef := func(id string, c *oplRefCase, extra string) {
		p := env.parse(c.Doc)
		cols := p.cols + "\tmut=" + oplRange(c.Doc, c.Start, c.End) + fmt.Sprintf("\tx_ms=%d\tx_kind=%s", p.millis, c.Kind)
		if extra != "" {
			cols += "\t" + extra
		}
		o.Emit("opl", id, c.payload(), cols, true)
		o.Count("refmut:" + c.Kind)
		switch {
		case p.hang || p.panic:
			o.Count("refmut:hang-or-panic")
		case c.Expect == "reject" && p.nerr == 0:
			o.Count("refmut:UNDECLARED-ACCEPTED")
		case c.Expect == "accept" && p.nerr != 0:
			o.Count("refmut:VALID-REJECTED")
		case c.Expect == "reject":
			o.Count("refmut:rejected")
		default:
			o.Count("refmut:accepted")
		}
	}

	// corpus first: "opl <id> <op> <payload…>"
	for _, l := range corpusLines("opl") {
		if oplHangs >= oplMaxHangs {
			break
		}
		parts := strings.Fields(l)
		if len(parts) < 4 {
			t.Fatalf("corpus line %q: too short", l)
		}
		input, err := unS(parts[3])
		if err != nil {
			t.Fatalf("corpus line %q: %v", parts[1], err)
		}
		o.Count("corpus")
		switch parts[2] {
		case "lex":
			o.Emit("opl", "corpus-"+parts[1], "lex "+parts[3], oplLexWatched(input), true)
		case "parse":
			p := env.parse(input)
			o.Emit("opl", "corpus-"+parts[1], "parse "+parts[3], p.cols+fmt.Sprintf("\tx_ms=%d", p.millis), true)
		case "expr":
			leaves, e, err := oplParseExprPayload(parts[4:])
			if err != nil {
				t.Fatalf("corpus line %q: %v", parts[1], err)
			}
			p := env.parse(input)
			tt := "err"
			if p.nerr == 0 && !p.panic {
				if rw := oplFirstRewrite(p.nss); rw != nil {
					tt = oplTruthTable(rw, leaves)
				} else {
					tt = "none"
				}
			}
			_ = e
			o.Emit("opl", "corpus-"+parts[1], strings.Join(parts[2:], " "), p.cols+"\ttt="+tt+fmt.Sprintf("\tx_ms=%d", p.millis), true)
		case "refparse":
			if len(parts) != 8 {
				t.Fatalf("corpus line %q: refparse needs <bytes> <start> <end> <kind> <expect>", parts[1])
			}
			a, err1 := strconv.Atoi(parts[4])
			b, err2 := strconv.Atoi(parts[5])
			if err1 != nil || err2 != nil || a < 0 || a > b || b > len(input) {
				t.Fatalf("corpus line %q: bad token range", parts[1])
			}
			emitRef("corpus-"+parts[1], &oplRefCase{Doc: input, Start: a, End: b, Kind: parts[6], Expect: parts[7]}, "")
		default:
			t.Fatalf("corpus line %q: unknown op %q", parts[1], parts[2])
		}
	}

	for i := 0; i < n && oplHangs < oplMaxHangs; i++ {
		switch c := i % 20; {
		case c < 4:
			// (a) grammar-derived document, every spelling
			sp := &oplSpell{r: r, comments: r.Intn(3) != 0, exotic: r.Intn(4) == 0}
			decls := oplGenDecls(r, false, false)
			var fl oplFlags
			doc := sp.renderDoc(decls, &fl, r.Intn(8) == 0)
			o.Count("gen:grammar")
			if c == 0 {
				emitLex("g", doc)
			}
			p := env.parse(doc)
			declOK, semOK := false, false
			if p.nerr == 0 && !p.panic {
				declOK, semOK = oplCheckDecls(decls, p.nss)
			}
			extra := fmt.Sprintf("gen=grammar\texpect_ok=1\tdecl_ok=%d\tsem_ok=%d\tv_arraycomma=%d", b2i(declOK), b2i(semOK), b2i(fl.ArrayComma))
			if fl.ArrayComma {
				o.Count("gen:grammar:array-comma")
			}
			emitParse("g", doc, extra)
		case c < 9:
			// (b) byte-level mutation of a grammar-derived document
			sp := &oplSpell{r: r, comments: r.Intn(2) == 0, exotic: r.Intn(4) == 0}
			var fl oplFlags
			doc := sp.renderDoc(oplGenDecls(r, true, true), &fl, true)
			if r.Intn(3) == 0 && len(doc) > 200 {
				doc = doc[:100+r.Intn(100)] // small documents: mutations hit the interesting part more often
			}
			m, kind := oplMutate(r, doc)
			for _, k := range strings.Split(kind, ",") {
				o.Count("mut:" + k)
			}
			emitLex("m", m)
			emitParse("m", m, "gen=mutation")
		case c < 11:
			o.Count("gen:soup")
			s := oplSoup(r)
			if r.Intn(3) == 0 {
				s, _ = oplMutate(r, s)
			}
			emitLex("s", s)
			emitParse("s", s, "gen=soup")
		case c == 11 && i%40 == 11:
			// names whose concatenations collide (a declared relation of one namespace against an
			// undeclared one of another), and the twin in which the relation is declared
			o.Count("gen:colliding-names")
			emitParse("k", oplCollideDoc(r, false), "gen=collide")
			emitParse("k", oplCollideDoc(r, true), "gen=collide-declared")
		case c == 11:
			depth := 1 + r.Intn(14)
			o.Count(fmt.Sprintf("gen:nesting:%02d", depth))
			emitParse("n", oplNestingDoc(r, depth), "gen=nesting")
		case c == 12:
			// runs of 21-60 adjacent brackets / operators (the lexer's item channel holds 20)
			o.Count("gen:bracket-run")
			d := oplBracketRun(r)
			emitLex("b", d)
			emitParse("b", d, "gen=brackets")
		case c < 17:
			// (d) one reference replaced by an undeclared name (C11 converse) and the
			// traverse-target counterparts
			var rc *oplRefCase
			ok := false
			for try := 0; try < 20 && !ok; try++ {
				if r.Intn(6) == 0 {
					rc, ok = oplGenTraverseCounterpart(r)
				} else {
					rc, ok = oplGenRefMut(r)
					if ok {
						// the document the mutation starts from must be accepted by the real parser
						if p := env.parse(rc.Orig); p.nerr != 0 || p.hang || p.panic {
							o.Count("refmut:original-not-accepted")
							ok = false
						}
					}
				}
			}
			if !ok {
				o.Count("refmut:gave-up")
				continue
			}
			emitRef(nextID("r"), rc, "gen=refmut")
		case c == 18 && i%2000 == 318:
			// a document of more than 1 MiB whose diagnosis lies behind the first MiB
			o.Count("gen:huge:beyond-1MiB")
			pad := 1<<20 + 5000 + r.Intn(50000)
			var d string
			switch r.Intn(3) {
			case 0:
				d = "/*" + strings.Repeat("x", pad) + "*/ class U implements Namespace {} class"
			case 1:
				d = strings.Repeat(" \n", pad/2) + "class U implements Namespace { related: { a: Nope[] } }"
			default:
				d = "class U implements Namespace {}\n//" + strings.Repeat("y", pad) + "\nclass V implements Namespace { related: { u: U[], w: W[] } }"
			}
			emitParse("h", d, "gen=huge")
		case c == 17 && i%100 == 17:
			sz := []int{1000, 10000, 100000}[r.Intn(3)]
			o.Count(fmt.Sprintf("gen:huge:%d", sz))
			d := oplHugeDoc(r, sz)
			emitLex("h", d)
			emitParse("h", d, "gen=huge")
		default:
			// (c) expression ops
			k := 1 + r.Intn(5)
			leaves := make([]oplLeaf, k)
			var rels []oplRelDecl
			for a := 0; a < k; a++ {
				name := fmt.Sprintf("a%d", a)
				if r.Intn(5) == 0 {
					name = pick(r, []string{"a-", "with space", "é", "class", "Array"}) + strconv.Itoa(a)
				}
				rels = append(rels, oplRelDecl{Name: name, Types: []oplType{{NS: "U"}}})
				if r.Intn(4) == 0 {
					leaves[a] = oplLeaf{TTU: true, Rel: name, CRel: rels[0].Name}
				} else {
					leaves[a] = oplLeaf{Rel: name}
				}
			}
			mix := r.Intn(3) != 0
			dneg := r.Intn(10) == 0
			e := oplGenExpr(r, k, 1+r.Intn(9), mix, dneg, r.Intn(6))
			if e.nesting() > 9 {
				e = oplGenExpr(r, k, 1+r.Intn(4), mix, dneg, 1)
			}
			sp := &oplSpell{r: r, comments: r.Intn(4) == 0}
			decl := []*oplNSDecl{{Name: "U", Rels: rels, Perms: []oplPermDecl{{Name: "p", Leaves: leaves, Expr: e}}}}
			var fl oplFlags
			doc := sp.renderDoc(decl, &fl, false)
			o.Count("gen:expr")
			emitExpr("x", doc, leaves, e, fmt.Sprintf("gen=expr\tv_dneg=%d", b2i(e.doubleNeg())))
		}
	}
}

// oplParseExprPayload parses "<k> <leaf>*k <tree>" (corpus / replay).
func oplParseExprPayload(toks []string) ([]oplLeaf, *oplE, error) {
	s := &tokStream{toks: toks}
	k := s.int()
	leaves := make([]oplLeaf, 0, k)
	for i := 0; i < k && s.err == nil; i++ {
		switch t := s.next(); t {
		case "c":
			leaves = append(leaves, oplLeaf{Rel: s.str()})
		case "t":
			rel := s.str()
			leaves = append(leaves, oplLeaf{TTU: true, Rel: rel, CRel: s.str()})
		default:
			return nil, nil, fmt.Errorf("bad leaf token %q", t)
		}
	}
	var tree func() *oplE
	tree = func() *oplE {
		switch t := s.next(); t {
		case "a":
			return &oplE{Kind: 'a', Atom: s.int()}
		case "n", "g":
			return &oplE{Kind: t[0], L: tree()}
		case "A", "O":
			l := tree()
			return &oplE{Kind: t[0], L: l, R: tree()}
		default:
			if s.err == nil {
				s.err = fmt.Errorf("bad tree token %q", t)
			}
			return &oplE{Kind: 'a'}
		}
	}
	e := tree()
	if s.err == nil && s.pos != len(s.toks) {
		s.err = fmt.Errorf("trailing tokens")
	}
	return leaves, e, s.err
}
