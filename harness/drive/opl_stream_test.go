package drive

import "testing"

func init() {
	streams["opl"] = streamOpl
}

// TestOplErrKinds pins the message classifier on one message per format.
func TestOplErrKinds(t *testing.T) {
	for msg, want := range map[string]string{
		`fatal: at "": unclosed comment`:                            "fatal-unclosed-comment",
		`fatal: at "": unclosed string literal`:                     "fatal-unclosed-string",
		`fatal: at "#x": unexpected token #`:                        "fatal-unexpected-token",
		`fatal: broken state`:                                       "fatal-broken-state",
		`expected "{", got "x"`:                                     "expected-token",
		`expected identifier, got EOF`:                              "expected-identifier",
		`expected identifier or '}', got EOF ""`:                    "expected-identifier-or-brace",
		`expected 'permits' or 'related', got "x"`:                  "expected-permits-or-related",
		`expected 'related' or 'permits', got "x"`:                  "expected-related-or-permits",
		`expected 'traverse' or 'includes', got "x"`:                "expected-traverse-or-includes",
		`expected '|', got "x"`:                                     "expected-union",
		`expression nested too deeply; maximal nesting depth is 10`: "nested-too-deeply",
		`did not expect another expression`:                         "unexpected-expression",
		`namespace "a\" was not declared" was not declared`:         "ns-not-declared",
		`namespace "a" did not declare relation "b"`:                "ns-no-relation",
		`could not typecheck deeply nested SubjectSet further`:      "tc-too-deep",
		`relation "a" was not declared in namespace "b"`:            "rel-not-declared",
	} {
		if got := oplErrKind(msg); got != want {
			t.Errorf("%q: got %s want %s", msg, got, want)
		}
	}
}
