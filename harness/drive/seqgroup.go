package drive

import (
	"context"

	"github.com/ory/keto/internal/check/checkgroup"
)

// seqGroup is a deterministic checkgroup: a check added to it runs to completion
// before Add returns; the first decisive result (error or IsMember) wins and later
// Adds are ignored, which is what the concurrent group does when Add finds the
// group's context cancelled.
type seqGroup struct {
	ctx context.Context
	res *checkgroup.Result
}

func newSeq(ctx context.Context) checkgroup.Checkgroup { return &seqGroup{ctx: ctx} }

func (g *seqGroup) Done() bool { return g.res != nil }

func (g *seqGroup) Add(c checkgroup.CheckFunc) {
	if g.res != nil {
		return
	}
	ch := make(chan checkgroup.Result, 1)
	c(g.ctx, ch)
	select {
	case r := <-ch:
		if r.Err != nil || r.Membership == checkgroup.IsMember {
			g.res = &r
		}
	case <-g.ctx.Done():
		g.res = &checkgroup.Result{Err: g.ctx.Err()}
	}
}

func (g *seqGroup) SetIsMember() { g.Add(checkgroup.IsMemberFunc) }

func (g *seqGroup) Result() checkgroup.Result {
	if g.res != nil {
		return *g.res
	}
	return checkgroup.ResultNotMember
}

func (g *seqGroup) CheckFunc() checkgroup.CheckFunc {
	return func(_ context.Context, ch chan<- checkgroup.Result) { ch <- g.Result() }
}
