package drive

import (
	"context"
	"fmt"
	"io"
	"os"
	"path/filepath"
	"sort"
	"strings"
	"sync"
	"testing"
	"time"

	"github.com/ory/x/configx"
	"github.com/ory/x/logrusx"
	"github.com/ory/x/watcherx"
	"github.com/spf13/pflag"

	"github.com/ory/keto/internal/driver"
	"github.com/ory/keto/internal/driver/config"
	"github.com/ory/keto/internal/namespace"
)

func init() {
	streams["watch"] = streamWatch
}

type watchEv struct {
	file  int
	valid bool
	names []string
	// the file is removed (names empty); again: the file is written with exactly the bytes of its
	// last version (valid and names are that version's)
	remove bool
	again  bool
}

func nsState(nm namespace.Manager) string {
	if nm == nil {
		return "err"
	}
	nn, err := nm.Namespaces(context.Background())
	if err != nil {
		return "err"
	}
	var names []string
	for _, n := range nn {
		names = append(names, n.Name)
	}
	sort.Strings(names)
	return strings.Join(names, ",")
}

// nsStateByName is the same observation made through GetNamespaceByName (what every request
// handler uses) over the universe of names the histories draw from.
func nsStateByName(nm namespace.Manager) string {
	if nm == nil {
		return "err"
	}
	var names []string
	for _, a := range []string{"A", "B", "C", "D", "E"} {
		for f := 0; f < 3; f++ {
			n := fmt.Sprintf("%s%d", a, f)
			if ns, err := nm.GetNamespaceByName(context.Background(), n); err == nil && ns != nil {
				names = append(names, n)
			}
		}
	}
	sort.Strings(names)
	return strings.Join(names, ",")
}

func writeAtomic(dir, name string, content []byte) error {
	tmp := filepath.Join(filepath.Dir(dir), ".tmp-"+name)
	if err := os.WriteFile(tmp, content, 0o644); err != nil {
		return err
	}
	return os.Rename(tmp, filepath.Join(dir, name))
}

// streamWatch: real namespace watchers on a temporary directory. One case = one
// history of file versions (valid and invalid) over 1-3 files, for the OPL watcher
// (kind o) and the legacy watcher (kind l, .json/.yaml/.toml).
// Line: watch <id> <o|l> <n> { <file> <valid> <k> <name>… }
func streamWatch(t *testing.T, o *Out) {
	r := newRand()
	n := envInt("VERIF_N", 12)
	names := []string{"A", "B", "C", "D", "E"}
	// fixed histories first: a valid version, then invalid ones, with an unrelated hot reload of the
	// configuration file after every version (the witness of the repaired defect F-opl-config-reload:
	// the OPL watcher used to be rebuilt by every configuration reload and lost its last good version)
	for _, kind := range []string{"o", "l"} {
		evs := []watchEv{{file: 0, valid: true, names: []string{"A0"}}, {file: 0, valid: false}, {file: 0, valid: false}, {file: 0, valid: true, names: []string{"B0"}}, {file: 0, valid: false}}
		if kind == "o" {
			evs = append(evs, watchEv{file: 1, valid: true, names: []string{"C1"}})
		}
		for salt := 0; salt < 2; salt++ {
			runWatchCase(t, o, fmt.Sprintf("wreload-%s-%d", kind, salt), kind, evs, 0, 0, true, salt)
		}
	}
	// a file that is removed and comes back: with the bytes it had (mv away and back, unlink + create
	// by a deploy tool), and after an invalid version
	for _, kind := range []string{"o", "l"} {
		a0 := watchEv{file: 0, valid: true, names: []string{"A0"}}
		a0again := a0
		a0again.again = true
		bad := watchEv{file: 0, valid: false}
		badAgain := bad
		badAgain.again = true
		rm := watchEv{file: 0, remove: true}
		runWatchCase(t, o, "wremove-"+kind+"-0", kind, []watchEv{a0, rm, a0again}, 0, 0, false, 0)
		runWatchCase(t, o, "wremove-"+kind+"-1", kind, []watchEv{a0, bad, rm, badAgain, a0, rm, a0again, rm}, 0, 1, false, 1)
	}
	for i := 0; i < n; i++ {
		kind := "o"
		if i%2 == 1 {
			kind = "l"
		}
		nfiles := 1 + r.Intn(3)
		if i%4 == 0 {
			nfiles = 1
		}
		nev := 3 + r.Intn(4)
		var evs []watchEv
		last := map[int]*watchEv{} // the version each existing file holds
		firstRemove := -1
		for j := 0; j < nev; j++ {
			e := watchEv{file: r.Intn(nfiles), valid: r.Intn(3) != 0}
			if j < nfiles && r.Intn(2) == 0 {
				e.file = j
			}
			// every fourth case: files are removed, and come back (half of the time with the bytes they had)
			if i%4 == 1 || i%4 == 2 {
				var present []int
				for f := range last {
					present = append(present, f)
				}
				sort.Ints(present)
				if len(present) > 0 && r.Intn(4) == 0 {
					f := present[r.Intn(len(present))]
					prev := *last[f]
					delete(last, f)
					if firstRemove < 0 {
						firstRemove = len(evs)
					}
					evs = append(evs, watchEv{file: f, remove: true})
					if r.Intn(2) == 0 {
						prev.again = true
						evs = append(evs, prev)
						pp := prev
						last[f] = &pp
					}
					continue
				}
			}
			if e.valid {
				k := 1
				if kind == "o" {
					k = r.Intn(3)
				}
				// names per file are disjoint across files (file index as suffix)
				for x := 0; x < k; x++ {
					e.names = append(e.names, fmt.Sprintf("%s%d", names[r.Intn(len(names))], e.file))
				}
				e.names = dedup(e.names)
			}
			evs = append(evs, e)
			ec := e
			last[e.file] = &ec
		}
		npre := 0
		if r.Intn(2) == 0 && len(evs) > 1 {
			npre = 1 + r.Intn(len(evs)-1)
		}
		if firstRemove >= 0 && npre > firstRemove {
			// removals happen under the watcher's eyes
			npre = firstRemove
		}
		// every third case: the configuration comes from a keto.yml that is itself hot-reloaded
		// (an unrelated key changes) between the versions of the namespace files
		runWatchCase(t, o, fmt.Sprintf("w%d", i), kind, evs, r.Intn(3), npre, i%3 == 2, r.Intn(1000))
	}
}

func dedup(xs []string) []string {
	seen := map[string]bool{}
	var out []string
	for _, x := range xs {
		if !seen[x] {
			seen[x] = true
			out = append(out, x)
		}
	}
	return out
}

// The first npre versions are written BEFORE the watcher starts (initial load of a
// directory that already has files); the model sees them collapsed to the last
// version per file, in file-name order.
func runWatchCase(t *testing.T, o *Out, id, kind string, evs []watchEv, extIdx int, npre int, viaFile bool, salt int) {
	base := t.TempDir()
	dir := filepath.Join(base, "ns")
	if err := os.Mkdir(dir, 0o755); err != nil {
		t.Fatal(err)
	}
	ctx, cancelCtx := context.WithCancel(context.Background())
	defer cancelCtx()
	var reg *driver.RegistryDefault
	var fileCfg *config.Config
	cfgFile := filepath.Join(base, "keto.yml")
	cfgReloaded := make(chan struct{}, 64)
	depthNow := 5
	writeCfg := func() {
		nsPart := "namespaces: file://" + dir + "\n"
		if kind == "o" {
			nsPart = "namespaces:\n  location: file://" + dir + "\n"
		}
		content := fmt.Sprintf("dsn: memory\n%slimit:\n  max_read_depth: %d\n", nsPart, depthNow)
		tmp := filepath.Join(base, ".keto.yml.tmp")
		if err := os.WriteFile(tmp, []byte(content), 0o644); err != nil {
			t.Fatal(err)
		}
		if err := os.Rename(tmp, cfgFile); err != nil {
			t.Fatal(err)
		}
	}
	if viaFile {
		writeCfg()
	} else {
		reg = driver.NewSqliteTestRegistry(t, false)
		quiet(reg)
	}
	var nmFixed namespace.Manager
	byNameMismatch := ""
	// the namespace manager as a request gets it: from the configuration, every time
	getNM := func() namespace.Manager {
		if viaFile {
			if fileCfg == nil {
				return nil
			}
			m, err := fileCfg.NamespaceManager()
			if err != nil {
				return nil
			}
			return m
		}
		return nmFixed
	}
	var mu sync.Mutex
	seen := map[string]bool{}
	var order []string
	stop := make(chan struct{})
	var wg sync.WaitGroup
	start := func() {
		var err error
		if viaFile {
			l := logrusx.New("verif", "0")
			l.Logger.SetOutput(io.Discard)
			fileCfg, err = config.NewDefault(ctx, pflag.NewFlagSet("verif", pflag.ContinueOnError), l,
				configx.WithConfigFiles(cfgFile),
				configx.AttachWatcher(func(watcherx.Event, error) {
					select {
					case cfgReloaded <- struct{}{}:
					default:
					}
				}))
			if err != nil {
				t.Fatal(err)
			}
			if _, err = fileCfg.NamespaceManager(); err != nil {
				t.Fatal(err)
			}
		} else {
			if kind == "o" {
				err = reg.Config(ctx).Set(config.KeyNamespaces, map[string]any{"location": "file://" + dir})
			} else {
				err = reg.Config(ctx).Set(config.KeyNamespaces, "file://"+dir)
			}
			if err != nil {
				t.Fatal(err)
			}
			nmFixed, err = reg.Config(ctx).NamespaceManager()
			if err != nil {
				t.Fatal(err)
			}
		}
		// requests looking namespaces up by name all the time (two tight loops): a reload must not
		// leave any of them with an older version afterwards
		for k := 0; k < 2; k++ {
			wg.Add(1)
			go func() {
				defer wg.Done()
				for {
					select {
					case <-stop:
						return
					default:
					}
					_ = nsStateByName(getNM())
				}
			}()
		}
		// sampler
		wg.Add(1)
		go func() {
			defer wg.Done()
			iter := 0
			for {
				select {
				case <-stop:
					return
				default:
				}
				iter++
				s := ""
				s = nsState(getNM())
				if iter%2 == 1 {
					// lookups by name go on all the time, as requests would make them; they are judged
					// only at quiescent points (fifteen lookups are not one atomic observation)
					_ = nsStateByName(getNM())
				}
				mu.Lock()
				if !seen[s] {
					seen[s] = true
					order = append(order, s)
				}
				mu.Unlock()
				time.Sleep(300 * time.Microsecond)
			}
		}()
	}
	if npre == 0 {
		start()
	}
	exts := []string{".json", ".yaml", ".toml"}
	lastContent := map[int]string{}
	var payload strings.Builder
	// an unrelated hot reload of the configuration file follows version ei (token 3 in the line)
	reloadAfter := func(ei int) bool { return viaFile && (salt+ei)%2 == 0 && ei+1 >= npre }
	nline := len(evs)
	for ei := range evs {
		if reloadAfter(ei) {
			nline++
		}
	}
	fmt.Fprintf(&payload, "%s %d %d", kind, npre, nline)
	for ei, e := range evs {
		vtok := b2i(e.valid)
		if e.remove {
			vtok = 2
		}
		fmt.Fprintf(&payload, " %d %d %d", e.file, vtok, len(e.names))
		for _, nme := range e.names {
			payload.WriteString(" " + S(nme))
		}
		var fname string
		var content string
		if kind == "o" {
			fname = fmt.Sprintf("f%d.ts", e.file)
			if e.valid {
				content = "import { Namespace } from \"@ory/keto-namespace-types\"\n"
				if (ei+e.file+salt)%5 == 3 {
					// a large valid version (more than 1 MiB, the declarations at the end): it
					// takes effect as a whole like every other valid version
					content += "/* " + strings.Repeat("padding padding padding padding padding padding padding padding\n", 17500) + " */\n"
					o.Count("large-valid-version")
				}
				for _, nme := range e.names {
					content += fmt.Sprintf("class %s implements Namespace {}\n", nme)
				}
			} else {
				content = []string{"class {", "class A implements Namespace { related: { x: Undeclared[] } }", "/* unterminated",
					"import { Namespace } from \"@ory/keto-namespace-types\"\nclass Ok implements Namespace {}\nclass Broken implements Namespace { related: { x: Nope[] } }\n",
					"class Ok2 implements Namespace {}\nclass",
					"import { Namespace, Context } from \"@ory/keto-namespace-types\"\nclass Folder implements Namespace { related: { viewers: Folder[] } }\nclass File implements Namespace { related: { parents: Folder[] }\n permits = { edit: (ctx: Context): boolean => this.related.parents.traverse((p) => p.permits.edit(ctx)) } }\n"}[(e.file+ei)%6]
			}
		} else {
			ext := exts[(e.file+extIdx)%3]
			fname = fmt.Sprintf("f%d%s", e.file, ext)
			if e.valid {
				switch ext {
				case ".json":
					content = fmt.Sprintf(`{"name": %q, "id": %d}`, e.names[0], e.file)
				case ".yaml":
					content = fmt.Sprintf("name: %s\nid: %d\n", e.names[0], e.file)
				default:
					content = fmt.Sprintf("name = %q\nid = %d\n", e.names[0], e.file)
				}
			} else {
				content = []string{"{", ": : :\n\t- x", "= ="}[(e.file+extIdx)%3]
				// invalid versions: broken from the start, and a complete valid document
				// followed by garbage
				bad := fmt.Sprintf("Bad%d", ei)
				switch ext {
				case ".json":
					// ("" = the file truncated to zero bytes: what a non-atomic writer leaves for a moment)
					content = []string{"{", fmt.Sprintf(`{"name": %q, "id": 9}}`, bad), fmt.Sprintf(`{"name": %q, "id": 9} trailing`, bad),
						fmt.Sprintf(`{"name": %q, "id": 9}{"name": "Second"}`, bad), fmt.Sprintf(`{"name": %q, "id": "nine"}`, bad), "", " \n"}[(ei+e.file)%7]
				case ".yaml":
					content = []string{"name: [unclosed", fmt.Sprintf("name: %s\nid: 9\n  bad indent: [", bad), "- a\n- b\n: :"}[ei%3]
				default:
					content = []string{"name = = =", fmt.Sprintf("name = %q\nid = 9\n[[[", bad), fmt.Sprintf("name = %q\nname = %q\n", bad, bad)}[ei%3]
				}
			}
		}
		switch {
		case e.remove:
			if err := os.Remove(filepath.Join(dir, fname)); err != nil {
				t.Fatal(err)
			}
			o.Count("file-removed")
		default:
			if e.again {
				content = lastContent[e.file]
				o.Count("file-rewritten-with-identical-content")
			}
			lastContent[e.file] = content
			if err := writeAtomic(dir, fname, []byte(content)); err != nil {
				t.Fatal(err)
			}
		}
		if ei < npre {
			if ei == npre-1 {
				start()
			} else {
				continue
			}
		}
		// wait for quiescence: the state is stable for 150 ms (400 ms after the last version:
		// the final state is compared with the model's), at most 3 s
		quiet := 150 * time.Millisecond
		if ei == len(evs)-1 {
			quiet = 400 * time.Millisecond
		}
		settle := func(quiet time.Duration) {
			last, since := nsState(getNM()), time.Now()
			deadline := time.Now().Add(3 * time.Second)
			for time.Now().Before(deadline) {
				time.Sleep(5 * time.Millisecond)
				cur := nsState(getNM())
				if cur != last {
					last, since = cur, time.Now()
				} else if time.Since(since) > quiet {
					break
				}
			}
		}
		settle(quiet)
		if a, b := nsState(getNM()), nsStateByName(getNM()); a != b && byNameMismatch == "" {
			if a2 := nsState(getNM()); a2 == a {
				byNameMismatch = fmt.Sprintf("after version %d: listed %q, by name %q", ei, a, b)
			}
		}
		// an unrelated hot reload of the configuration file (another key changes): the visible
		// namespaces must not move
		if reloadAfter(ei) {
			payload.WriteString(" 0 3 0")
			for len(cfgReloaded) > 0 {
				<-cfgReloaded
			}
			depthNow = 3 + (depthNow+1)%5
			writeCfg()
			select {
			case <-cfgReloaded:
			case <-time.After(2 * time.Second):
			}
			o.Count("unrelated-config-reload")
			settle(quiet)
		}
	}
	defer func() {
		// release the watcher of this case (inotify instances are a scarce system-wide resource):
		// replacing the namespaces configuration cancels the namespace manager's context
		if reg != nil {
			_ = reg.Config(ctx).Set(config.KeyNamespaces, []*namespace.Namespace{})
		}
	}()
	final := nsState(getNM())
	if byName := nsStateByName(getNM()); byName != final {
		final = "by-list:" + final + "/by-name:" + byName
	} else if byNameMismatch != "" {
		final = "by-name-lookups-stale(" + byNameMismatch + ")/" + final
	}
	close(stop)
	wg.Wait()
	mu.Lock()
	obs := strings.Join(order, "|")
	mu.Unlock()
	o.Emit("watch", id, payload.String(), fmt.Sprintf("final=%s\tobs=%s", final, obs), len(evs) >= 3)
	o.Count("kind:" + kind)
}
