package drive

import (
	"math/rand"
	"testing"
)

// The corpus is parsed back with parseMpCase: printing and parsing must be inverse on every shape
// of tuple (nil, no subject, subject id, subject set, both) and on byte strings that are not UTF-8.
func TestMapperCasePayloadRoundTrip(t *testing.T) {
	cases := []*mpCase{
		{Op: "rt", PageSize: 0, Seed: 7, NSs: []string{"n", ""}, Pre: []string{"", "\xff"}, Batch: []mpTup{
			{Kind: 'z'},
			{Kind: 'n', NS: "n", Obj: "", Rel: "r"},
			{Kind: 'i', NS: "n", Obj: "o", Rel: "", SID: "\xc3\x28"},
			{Kind: 's', NS: "n", Obj: "o", Rel: "r", SNS: "g", SObj: "", SRl: "m"},
			{Kind: 'b', NS: "n", Obj: "o", Rel: "r", SID: "s", SNS: "g", SObj: "x", SRl: "m"},
		}},
		{Op: "e2e", PageSize: 3, Seed: 0, NSs: []string{"n"}, Batch: []mpTup{{Kind: 'i', NS: "n", Obj: "a b", Rel: "r", SID: "\u0000"}},
			X: [3]string{"n", "", "r"}},
	}
	for _, c := range cases {
		p := c.Payload()
		back, err := parseMpCase(p)
		if err != nil {
			t.Fatalf("parse %q: %v", p, err)
		}
		if back.Payload() != p {
			t.Fatalf("payload changed:\n %s\n %s", p, back.Payload())
		}
	}
	if _, err := parseMpCase("rt 0 0 NS 0 P 0 B 1 t s6e"); err == nil {
		t.Fatal("truncated line accepted")
	}
}

// The generator is a function of its PRNG only (map iteration order must not leak into cases).
func TestMapperGeneratorDeterministic(t *testing.T) {
	gen := func() []string {
		e := &mpEnv{nss: mpDefaultNSs, known: map[string]bool{"k1": true, "k2": true, "\xff": true}}
		g := &mpGen{r: rand.New(rand.NewSource(5)), e: e}
		var out []string
		for i := 0; i < 30; i++ {
			op := "rt"
			if i%4 == 3 {
				op = "e2e"
			}
			out = append(out, g.batch(op).Payload())
		}
		return out
	}
	a, b := gen(), gen()
	for i := range a {
		if a[i] != b[i] {
			t.Fatalf("case %d differs between two runs with the same seed", i)
		}
	}
}
