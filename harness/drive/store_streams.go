package drive

// The four streams of component `store`.

import (
	"context"
	"encoding/json"
	"fmt"
	"net/url"
	"strconv"
	"strings"
	"testing"

	"github.com/ory/keto/internal/check"
	"github.com/ory/keto/internal/relationtuple"
	"github.com/ory/keto/internal/schema"
	opl "github.com/ory/keto/proto/ory/keto/opl/v1alpha1"
	rts "github.com/ory/keto/proto/ory/keto/relation_tuples/v1alpha2"
)

func init() {
	streams["store"] = streamStore
	streams["store-nets"] = streamStoreNets
	streams["store-faults"] = streamStoreFaults
	streams["store-readonly"] = streamStoreReadonly
}

func streamStore(t *testing.T, o *Out) {
	lines, _ := stCorpus(t, "store")
	r := newRand()
	n := envInt("VERIF_N", 300)
	e := newStEnv(t, o, 0)
	for _, l := range lines {
		e.replay(l)
	}
	for i := 0; i < n; i++ {
		c := newStCase(e, r)
		g := newStGen(c, []int{0})
		if stIsLargeHistory(r, i) {
			g.largeHistory()
		} else {
			g.history(5+r.Intn(36), stDefaultWeights)
		}
		c.emit(fmt.Sprintf("h%d", i), c.okWrites >= 1 && c.okLists >= 1)
	}
}

func streamStoreNets(t *testing.T, o *Out) {
	lines, maxNet := stCorpus(t, "store-nets")
	r := newRand()
	n := envInt("VERIF_N", 300)
	e := newStEnv(t, o, max(2, maxNet))
	for _, l := range lines {
		e.replay(l)
	}
	w := stWeights{}
	for k, v := range stDefaultWeights {
		w[k] = v
	}
	w["G"], w["A"], w["D"], w["M"] = 7, 6, 7, 1
	for i := 0; i < n; i++ {
		c := newStCase(e, r)
		nets := [][]int{{0, 1}, {0, 1, 2}, {0, 2}, {1, 2}}[r.Intn(4)]
		g := newStGen(c, nets)
		g.history(8+r.Intn(40), w)
		used := map[string]bool{}
		for _, tk := range c.toks {
			used[tk[:1]] = true
		}
		c.emit(fmt.Sprintf("n%d", i), c.okWrites >= 1 && c.okLists >= 1 && len(used) >= 2)
	}
}

// --- store-readonly -------------------------------------------------------------

type stExpandHandler interface {
	Expand(context.Context, *rts.ExpandRequest) (*rts.ExpandResponse, error)
}
type stNamespaceHandler interface {
	ListNamespaces(context.Context, *rts.ListNamespacesRequest) (*rts.ListNamespacesResponse, error)
}

type stReadHandlers struct {
	check  *check.Handler
	expand stExpandHandler
	ns     stNamespaceHandler
	schema *schema.Handler
}

func stRealStatus(code int) string { return "http" + strconv.Itoa(code) }

func stRealErr(err error) string {
	if err == nil {
		return "ok"
	}
	return stErrStatus(err)
}

// itemRM is a read request that is not a list: its names go through the read-only mapper.
func (g *stGen) itemRM(net int) *stItem {
	r := g.r
	c := g.c
	h := c.env.nets[net].rh
	t := g.tuple(r.Intn(5) != 0)
	if r.Intn(8) == 0 {
		t.rel = stRandWord(r)
	}
	at := stFromTuple(t)
	names := func(ts ...stTuple) []int { return stStringsOf(ts) }
	depth := url.Values{}
	if r.Intn(3) == 0 {
		depth.Set("max-depth", strconv.Itoa(r.Intn(6)))
	}
	merge := func(a, b url.Values) url.Values {
		for k, v := range b {
			a[k] = v
		}
		return a
	}
	it := &stItem{kind: "RM", net: net}
	variant := r.Intn(14)
	c.env.o.Count(fmt.Sprintf("rm:%d", variant))
	read := c.env.nets[net].read
	switch variant {
	case 0, 1: // GET check, mirror status / openapi
		path := "/relation-tuples/check"
		if variant == 1 {
			path += "/openapi"
		}
		q := &stQuery{ns: &t.ns, obj: &t.obj, rel: &t.rel, sub: &t.sub}
		v := merge(c.urlQuery(q), depth)
		it.strs = names(t)
		it.fn = func(c *stCase) string { code, _ := c.rest(read, "GET", path, v, ""); return stRealStatus(code) }
	case 2, 3: // POST check
		path := "/relation-tuples/check"
		if variant == 3 {
			path += "/openapi"
		}
		b, _ := json.Marshal(c.jsonTuple(at))
		it.strs = names(t)
		it.fn = func(c *stCase) string {
			code, _ := c.rest(read, "POST", path, depth, string(b))
			return stRealStatus(code)
		}
	case 4: // POST batch check (no null tuples: they kill the process)
		k := 1 + r.Intn(4)
		var ts []stTuple
		var js []map[string]any
		for i := 0; i < k; i++ {
			bt := g.tuple(r.Intn(4) != 0)
			ts = append(ts, bt)
			js = append(js, c.jsonTuple(stFromTuple(bt)))
		}
		b, _ := json.Marshal(map[string]any{"tuples": js})
		it.strs = names(ts...)
		it.fn = func(c *stCase) string {
			code, _ := c.rest(read, "POST", "/relation-tuples/batch/check", depth, string(b))
			return stRealStatus(code)
		}
	case 5: // GET expand
		v := url.Values{}
		v.Set("namespace", t.ns)
		v.Set("object", c.str(t.obj))
		v.Set("relation", t.rel)
		it.strs = []int{t.obj}
		it.fn = func(c *stCase) string {
			code, _ := c.rest(read, "GET", "/relation-tuples/expand", merge(v, depth), "")
			return stRealStatus(code)
		}
	case 6: // GET namespaces
		it.fn = func(c *stCase) string {
			code, _ := c.rest(read, "GET", "/namespaces", nil, "")
			return stRealStatus(code)
		}
	case 7: // POST syntax check
		body := pick(r, []string{"class A implements Namespace {}", "class " + c.str(t.obj), "", "import x", "class U implements Namespace { related: { m: U[] } }"})
		it.fn = func(c *stCase) string {
			code, _ := c.rest(c.env.syntax, "POST", "/opl/syntax/check", nil, body)
			return stRealStatus(code)
		}
	case 8: // gRPC Check
		req := &rts.CheckRequest{MaxDepth: int32(r.Intn(5))}
		pt := c.protoTuple(at)
		if r.Intn(2) == 0 {
			req.Tuple = pt
		} else {
			req.Namespace, req.Object, req.Relation, req.Subject = pt.Namespace, pt.Object, pt.Relation, pt.Subject
		}
		it.strs = names(t)
		it.fn = func(c *stCase) string { _, err := h.check.Check(c.env.ctx, req); return stRealErr(err) }
	case 9: // gRPC BatchCheck
		req := &rts.BatchCheckRequest{MaxDepth: int32(r.Intn(5))}
		var ts []stTuple
		for i, k := 0, 1+r.Intn(4); i < k; i++ {
			bt := g.tuple(r.Intn(4) != 0)
			ts = append(ts, bt)
			req.Tuples = append(req.Tuples, c.protoTuple(stFromTuple(bt)))
		}
		it.strs = names(ts...)
		it.fn = func(c *stCase) string { _, err := h.check.BatchCheck(c.env.ctx, req); return stRealErr(err) }
	case 10, 11: // gRPC Expand
		req := &rts.ExpandRequest{MaxDepth: int32(r.Intn(5))}
		if variant == 10 {
			req.Subject = rts.NewSubjectSet(t.ns, c.str(t.obj), t.rel)
		} else {
			req.Subject = rts.NewSubjectID(c.str(t.obj))
		}
		it.strs = []int{t.obj}
		it.fn = func(c *stCase) string { _, err := h.expand.Expand(c.env.ctx, req); return stRealErr(err) }
	case 12:
		it.fn = func(c *stCase) string {
			_, err := h.ns.ListNamespaces(c.env.ctx, &rts.ListNamespacesRequest{})
			return stRealErr(err)
		}
	default:
		body := pick(r, []string{"class A implements Namespace {}", c.str(t.obj), ""})
		it.fn = func(c *stCase) string {
			_, err := h.schema.Check(c.env.ctx, &opl.CheckRequest{Content: []byte(body)})
			return stRealErr(err)
		}
	}
	return it
}

func streamStoreReadonly(t *testing.T, o *Out) {
	lines, _ := stCorpus(t, "store-readonly")
	r := newRand()
	n := envInt("VERIF_N", 300)
	e := newStEnv(t, o, 0)
	for _, l := range lines {
		e.replay(l)
	}
	wW := stWeights{"C": 8, "P": 14, "T": 10, "W": 8, "Y": 5, "D": 1, "X": 1}
	wR := stWeights{"L": 10, "LA": 8, "PL": 8, "E": 8, "iter": 3}
	var probeEnv *stEnv
	for i := 0; i < n; i++ {
		c := newStCase(e, r)
		g := newStGen(c, []int{0})
		g.history(3+r.Intn(8), wW)
		g.iter = nil
		c.mark()
		// never-seen names
		for k := 2 + r.Intn(4); k > 0; k-- {
			g.objs = append(g.objs, c.intern("fresh-"+stRandWord(r)+strconv.Itoa(r.Intn(1000))))
		}
		g.rels = append(g.rels, "fresh-"+stRandWord(r))
		target := c.n + 5 + r.Intn(21)
		rms := 0
		for c.n < target {
			if r.Intn(100) < 45 {
				c.run(g.itemRM(0))
				rms++
				continue
			}
			g.history(c.n+1, wR)
		}
		// write requests sent to the read and syntax APIs (REST routers, gRPC servers as the
		// daemon builds them): none may be carried out
		if acc := e.writeAttempts("wprobe-"+strconv.Itoa(i), "wprobe-sub"); acc != "" {
			c.cols = append(c.cols, "x_write_accepted="+acc)
			o.Count("write-accepted-by-read-api")
		}
		if i%4 == 0 {
			if probeEnv == nil {
				probeEnv = newStEnv(t, o, 0)
			}
			if msg := probeEnv.lostMappingProbe("lostmap-" + strconv.Itoa(i)); msg != "" {
				c.cols = append(c.cols, "x_read_wrote="+msg)
				o.Count("read-api-wrote")
			}
			o.Count("lost-mapping-probe")
		}
		c.emit(fmt.Sprintf("r%d", i), c.okWrites >= 1 && rms >= 1)
	}
}

// --- store-faults ---------------------------------------------------------------

// nilEntryProbe: see the caller. Returns "" or a description of the partial effect.
func (e *stEnv) nilEntryProbe(c *stCase, g *stGen) (msg string) {
	before := e.snapshot()
	ins := c.intTuples(0, g.distinctTuples(3, "nilprobe"))
	var del []*relationtuple.RelationTuple
	if rows := c.intTuples(0, g.distinctTuples(2, "seed")); len(rows) > 0 {
		del = append(del, rows[0])
	}
	del = append(del, nil)
	outcome := "ok"
	func() {
		defer func() {
			if r := recover(); r != nil {
				outcome = "panic"
			}
		}()
		if err := e.nets[0].p.TransactRelationTuples(e.ctx, ins, del); err != nil {
			outcome = "error"
		}
	}()
	after := e.snapshot()
	if outcome != "ok" && after != before {
		return "TransactRelationTuples with a nil delete entry answered " + outcome + " but the database changed"
	}
	if outcome == "ok" {
		// accepted: then the inserts must all be there (and the listed delete gone); a nil entry
		// that is silently skipped while the call reports success after a recovered panic leaves
		// only part of the request applied
		n := 0
		for _, r := range c.readRows() {
			if strings.Contains(r.r, "nilprobe") {
				n++
			}
		}
		_ = n
		return "TransactRelationTuples with a nil delete entry answered ok (a request with an invalid member must fail as a whole)"
	}
	return ""
}

// distinctTuples makes n pairwise different tuples with few distinct strings.
func (g *stGen) distinctTuples(n int, tag string) []stTuple {
	c := g.c
	ns := g.ns(true)
	rel := g.rels[0]
	if rel == stPoisonRel || rel == stPoisonDelRel {
		rel = "r"
	}
	width := 60
	out := make([]stTuple, 0, n)
	for i := 0; i < n; i++ {
		o := c.intern(tag + "o" + strconv.Itoa(i/width))
		s := c.intern(tag + "s" + strconv.Itoa(i%width))
		out = append(out, stTuple{ns: ns, obj: o, rel: rel, sub: stSub{id: s}})
	}
	return out
}

func stInsDeltas(ts []stTuple) []*stDelta {
	ds := make([]*stDelta, len(ts))
	for i, t := range ts {
		ds[i] = &stDelta{action: "i", actionStr: "insert", t: stFromTuple(t)}
	}
	return ds
}

func stDelDeltas(ts []stTuple) []*stDelta {
	ds := make([]*stDelta, len(ts))
	for i, t := range ts {
		ds[i] = &stDelta{action: "d", actionStr: "delete", t: stFromTuple(t)}
	}
	return ds
}

// writeVia issues the inserts `ins` and deletes `del` as one request of the given kind.
func (g *stGen) writeVia(kind string, ins, del []stTuple) *stItem {
	switch kind {
	case "P", "T":
		ds := append(stInsDeltas(ins), stDelDeltas(del)...)
		if g.r.Intn(2) == 0 { // deletes first in the request: the code still inserts first
			ds = append(stDelDeltas(del), stInsDeltas(ins)...)
		}
		return &stItem{kind: kind, ds: ds}
	case "W":
		g.ensureMapped(0, ins)
		return &stItem{kind: "W", ins: ins}
	case "X":
		return &stItem{kind: "X", del: del}
	case "Y":
		g.ensureMapped(0, ins)
		return &stItem{kind: "Y", ins: ins, del: del}
	}
	panic("store: writeVia " + kind)
}

func stAt(ts []stTuple, k int, t stTuple) []stTuple {
	out := append([]stTuple(nil), ts...)
	out[k] = t
	return out
}

func (g *stGen) faultInsert(big bool) {
	r, c := g.r, g.c
	seed := g.distinctTuples(2+r.Intn(4), "seed")
	c.run(g.writeVia(pick(r, []string{"P", "T", "W"}), seed, nil))
	n := pick(r, []int{1, 2, 5, 99, 100, 101})
	if big {
		n = pick(r, []int{3000, 3001})
	}
	ts := g.distinctTuples(n, "f")
	var k int
	switch r.Intn(4) {
	case 0:
		k = 0
	case 1:
		k = n / 2
	case 2:
		k = n - 1
	default:
		k = n - 2
		if k < 0 {
			k = 0
		}
	}
	if big {
		k = pick(r, []int{0, 1500, 2999, n - 1})
	}
	c.env.o.Count(fmt.Sprintf("fault:insert:n=%d", n))
	poison := ts[k]
	poison.rel = stPoisonRel
	kind := pick(r, []string{"P", "T", "W", "Y"})
	if n == 1 && r.Intn(2) == 0 {
		it := &stItem{kind: "C", at: stFromTuple(poison)}
		c.run(it)
	} else {
		var del []stTuple
		if kind != "W" && r.Intn(2) == 0 {
			del = seed[:1+r.Intn(len(seed))]
		}
		c.run(g.writeVia(kind, stAt(ts, k, poison), del))
	}
	c.run(&stItem{kind: "LA", q: &stQuery{}, via: r.Intn(3), size: pick(r, []int{0, 7, 100})})
	if r.Intn(2) == 0 {
		// the same request without the poison
		c.run(g.writeVia(kind, ts, nil))
		c.run(&stItem{kind: "E", q: &stQuery{rel: &ts[0].rel}})
	}
}

func (g *stGen) faultDelete() {
	r, c := g.r, g.c
	n := pick(r, []int{100, 101, 200, 201, 3, 99})
	ts := g.distinctTuples(n, "d")
	k := pick(r, []int{0, 99, 100, n - 1, n / 2})
	if k >= n {
		k = n - 1
	}
	c.env.o.Count(fmt.Sprintf("fault:delete:n=%d", n))
	dp := ts[k]
	dp.rel = stPoisonDelRel
	stored := stAt(ts, k, dp)
	c.run(g.writeVia(pick(r, []string{"P", "T", "W"}), stored, nil))
	switch r.Intn(6) {
	case 0, 1, 2: // a delete list hitting the dpoison row in its k-th position
		kind := pick(r, []string{"X", "P", "T", "Y"})
		var ins []stTuple
		if kind != "X" && r.Intn(2) == 0 {
			ins = g.distinctTuples(1+r.Intn(3), "extra")
		}
		c.run(g.writeVia(kind, ins, stored))
	case 3: // delete by query
		q := &stQuery{}
		switch r.Intn(4) {
		case 0:
			q.rel = &dp.rel
		case 1:
			q.ns = &dp.ns
		case 2:
			q.obj = &dp.obj
		}
		kind := pick(r, []string{"D", "G", "A"})
		if kind == "D" && q.ns == nil {
			q.ns = &dp.ns
		}
		c.run(&stItem{kind: kind, q: q, via: 1 + r.Intn(2)})
	case 4: // the dpoison row inserted and deleted in one request
		extra := g.distinctTuples(1, "both")
		extra[0].rel = stPoisonDelRel
		c.run(g.writeVia(pick(r, []string{"P", "T", "Y"}), extra, extra))
	case 5: // mentions of poison tuples that are not stored
		ghost := g.distinctTuples(2, "ghost")
		ghost[0].rel = stPoisonDelRel
		ghost[1].rel = stPoisonRel
		c.run(g.writeVia(pick(r, []string{"X", "P", "T", "Y"}), nil, append(ghost, ts[(k+1)%n])))
	}
	c.run(&stItem{kind: "LA", q: &stQuery{}, via: r.Intn(3), size: pick(r, []int{0, 50, 100})})
	if r.Intn(2) == 0 {
		// everything but the dpoison row can go
		rest := append(append([]stTuple(nil), ts[:k]...), ts[k+1:]...)
		c.run(g.writeVia(pick(r, []string{"X", "P", "T", "Y"}), nil, rest))
		c.run(&stItem{kind: "E", q: &stQuery{}})
	}
	if r.Intn(3) == 0 {
		q := &stQuery{ns: &dp.ns}
		c.run(&stItem{kind: pick(r, []string{"D", "G", "A"}), q: q, via: 1 + r.Intn(2)})
	}
}

// faultMappingHuge: one request with more than chunkSizeInsertUUIDMappings (15000) distinct
// strings, one of them the poison string: a mapping INSERT that is not the only one (and most
// likely not the last one) fails; nothing of the request may remain.
func (g *stGen) faultMappingHuge() {
	r, c := g.r, g.c
	ps := c.intern(stPoisonString)
	seed := g.distinctTuples(2, "seed")
	c.run(g.writeVia(pick(r, []string{"P", "T"}), seed, nil))
	n := 7520 + r.Intn(60)
	ns := g.ns(true)
	ts := make([]stTuple, 0, n)
	for i := 0; i < n; i++ {
		ts = append(ts, stTuple{ns: ns, obj: c.intern("hm-o" + strconv.Itoa(i)), rel: "r", sub: stSub{id: c.intern("hm-s" + strconv.Itoa(i))}})
	}
	k := r.Intn(n)
	if r.Intn(2) == 0 {
		ts[k].obj = ps
	} else {
		ts[k].sub = stSub{id: ps}
	}
	c.env.o.Count("fault:mapping-huge")
	c.run(g.writeVia(pick(r, []string{"P", "T"}), ts, seed[:1]))
	c.run(&stItem{kind: "LA", q: &stQuery{}, via: r.Intn(3), size: 0})
}

func (g *stGen) faultMapping() {
	r, c := g.r, g.c
	ps := c.intern(stPoisonString)
	seed := g.distinctTuples(1+r.Intn(3), "seed")
	c.run(g.writeVia(pick(r, []string{"P", "T"}), seed, nil))
	good := g.distinctTuples(1+r.Intn(4), "m")
	bad := good[r.Intn(len(good))]
	switch r.Intn(3) {
	case 0:
		bad.obj = ps
	case 1:
		bad.sub = stSub{id: ps}
	default:
		bad.sub = stSub{set: true, ns: g.ns(true), obj: ps, rel: "member"}
	}
	c.env.o.Count("fault:mapping")
	switch r.Intn(5) {
	case 0:
		c.run(&stItem{kind: "C", at: stFromTuple(bad)})
	case 1: // the poison string only in a delete
		c.run(g.writeVia(pick(r, []string{"P", "T"}), good, []stTuple{bad}))
	case 2:
		ids := append(stStringsOf(good), ps)
		r.Shuffle(len(ids), func(i, j int) { ids[i], ids[j] = ids[j], ids[i] })
		c.run(&stItem{kind: "MS", strs: ids})
	default:
		c.run(g.writeVia(pick(r, []string{"P", "T"}), append(append([]stTuple(nil), good...), bad), seed[:1]))
	}
	c.run(&stItem{kind: "LA", q: &stQuery{}, via: r.Intn(3), size: 0})
	// read requests may name the poison string: nothing is inserted
	q := &stQuery{obj: &ps}
	c.run(&stItem{kind: pick(r, []string{"L", "LA"}), q: q, via: r.Intn(3)})
	if r.Intn(2) == 0 {
		c.run(&stItem{kind: "D", q: &stQuery{ns: &seed[0].ns, obj: &ps}})
	}
	if r.Intn(2) == 0 {
		c.run(g.writeVia(pick(r, []string{"P", "T"}), good, nil))
	}
}

func streamStoreFaults(t *testing.T, o *Out) {
	lines, maxNet := stCorpus(t, "store-faults")
	r := newRand()
	n := envInt("VERIF_N", 300)
	e := newStEnv(t, o, maxNet)
	e.installFaults()
	for _, l := range lines {
		e.replay(l)
	}
	bigLeft := 3
	if n < 30 {
		bigLeft = 1
	}
	for i := 0; i < n; i++ {
		c := newStCase(e, r)
		g := newStGen(c, []int{0})
		g.noPersisterUnknownNS = true
		for j, rel := range g.rels {
			if rel == stPoisonRel || rel == stPoisonDelRel {
				g.rels[j] = "plain"
			}
		}
		switch x := r.Intn(100); {
		case i%150 == 7:
			g.faultMappingHuge()
		case bigLeft > 0 && (i%97 == 5 || (n < 30 && i == n-1)):
			bigLeft--
			g.faultInsert(true)
		case x < 40:
			g.faultInsert(false)
		case x < 80:
			g.faultDelete()
		default:
			g.faultMapping()
		}
		c.fault = "1 " + S(stPoisonRel) + " " + S(stPoisonDelRel) + " " + strconv.Itoa(c.ids[stPoisonString])
		// last, outside the protocol (the tables are cleared before the next case): a direct
		// Manager.TransactRelationTuples whose delete list holds a nil entry after valid inserts. The
		// call may panic or return an error; whatever it does, nothing of it may remain - and if it
		// answers nil, all of it must be there.
		if i%4 == 1 {
			if msg := e.nilEntryProbe(c, g); msg != "" {
				c.cols = append(c.cols, "x_nil_probe="+msg)
				o.Count("nil-probe-violations")
			}
			o.Count("nil-probes")
		}
		failed := false
		for _, col := range c.cols {
			if len(col) > 9 && col[0] == 's' && col[len(col)-9:] == "=internal" {
				failed = true
			}
		}
		c.emit(fmt.Sprintf("f%d", i), failed)
	}
}
