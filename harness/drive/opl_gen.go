package drive

// Generators of stream "opl": TypeScript boolean expressions, OPL documents derived
// from the grammar over all spellings, byte-level mutations.

import (
	"fmt"
	"math/rand"
	"strings"
)

// ---------------------------------------------------------------- expressions

// oplE is a TypeScript boolean expression: 'a' atom, 'n' !, 'A' &&, 'O' ||,
// 'g' parentheses written in the source (needed or not).
type oplE struct {
	Kind byte
	Atom int
	L, R *oplE
}

func (e *oplE) tokens(sb *strings.Builder) {
	switch e.Kind {
	case 'a':
		fmt.Fprintf(sb, " a %d", e.Atom)
	case 'n', 'g':
		fmt.Fprintf(sb, " %c", e.Kind)
		e.L.tokens(sb)
	default:
		fmt.Fprintf(sb, " %c", e.Kind)
		e.L.tokens(sb)
		e.R.tokens(sb)
	}
}

// eval is the TypeScript value under the assignment m (bit i = atom i).
func (e *oplE) eval(m int) bool {
	switch e.Kind {
	case 'a':
		return m>>e.Atom&1 == 1
	case 'n':
		return !e.L.eval(m)
	case 'g':
		return e.L.eval(m)
	case 'A':
		return e.L.eval(m) && e.R.eval(m)
	default:
		return e.L.eval(m) || e.R.eval(m)
	}
}

func (e *oplE) prec() int {
	switch e.Kind {
	case 'O':
		return 1
	case 'A':
		return 2
	case 'n':
		return 3
	}
	return 4
}

// mixed: an || with an unparenthesised && operand.
func (e *oplE) mixed() bool {
	switch e.Kind {
	case 'a':
		return false
	case 'n', 'g':
		return e.L.mixed()
	case 'A':
		return e.L.mixed() || e.R.mixed()
	}
	return e.L.Kind == 'A' || e.R.Kind == 'A' || e.L.mixed() || e.R.mixed()
}

func (e *oplE) doubleNeg() bool {
	switch e.Kind {
	case 'a':
		return false
	case 'n':
		return e.L.Kind == 'n' || e.L.doubleNeg()
	case 'g':
		return e.L.doubleNeg()
	}
	return e.L.doubleNeg() || e.R.doubleNeg()
}

// nesting is the depth the parser's accounting needs: "(" and "!" cost 1 each.
func (e *oplE) nesting() int {
	wrapped := func(c *oplE, need int) int {
		if c.prec() < need {
			return 1 + c.nesting()
		}
		return c.nesting()
	}
	max := func(a, b int) int {
		if a > b {
			return a
		}
		return b
	}
	switch e.Kind {
	case 'a':
		return 0
	case 'g':
		return 1 + e.L.nesting()
	case 'n':
		return 1 + wrapped(e.L, 3)
	case 'A':
		return max(wrapped(e.L, 2), wrapped(e.R, 3))
	}
	return max(wrapped(e.L, 1), wrapped(e.R, 2))
}

// render prints TypeScript source: parentheses where the precedence ! > && > ||
// (left-associative) needs them, and where the tree has a 'g'.
func (e *oplE) render(atom func(int) string, sp func() string) string {
	wrap := func(c *oplE, need int) string {
		s := c.render(atom, sp)
		if c.prec() < need {
			return "(" + sp() + s + sp() + ")"
		}
		return s
	}
	switch e.Kind {
	case 'a':
		return atom(e.Atom)
	case 'g':
		return "(" + sp() + e.L.render(atom, sp) + sp() + ")"
	case 'n':
		return "!" + sp() + wrap(e.L, 3)
	case 'A':
		return wrap(e.L, 2) + sp() + "&&" + sp() + wrap(e.R, 3)
	}
	return wrap(e.L, 1) + sp() + "||" + sp() + wrap(e.R, 2)
}

// oplGenExpr: a random expression over atoms < k. mix: allow || with bare &&
// operands; dneg: allow !!x; extra: rate (in 1/16) of redundant parentheses.
func oplGenExpr(r *rand.Rand, k, size int, mix, dneg bool, extra int) *oplE {
	var e *oplE
	if size <= 1 {
		e = &oplE{Kind: 'a', Atom: r.Intn(k)}
	} else {
		switch c := r.Intn(10); {
		case c < 2:
			sub := oplGenExpr(r, k, size-1, mix, dneg, extra)
			if sub.Kind == 'n' && !dneg {
				sub = &oplE{Kind: 'g', L: sub}
			}
			e = &oplE{Kind: 'n', L: sub}
		default:
			ls := 1 + r.Intn(size-1)
			l := oplGenExpr(r, k, ls, mix, dneg, extra)
			rt := oplGenExpr(r, k, size-ls, mix, dneg, extra)
			if c < 6 {
				e = &oplE{Kind: 'A', L: l, R: rt}
			} else {
				if !mix {
					if l.Kind == 'A' {
						l = &oplE{Kind: 'g', L: l}
					}
					if rt.Kind == 'A' {
						rt = &oplE{Kind: 'g', L: rt}
					}
				}
				e = &oplE{Kind: 'O', L: l, R: rt}
			}
		}
	}
	if r.Intn(16) < extra {
		e = &oplE{Kind: 'g', L: e}
	}
	return e
}

// ---------------------------------------------------------------- spellings

// oplSp: separators between tokens (never empty between two words when must).
type oplSpell struct {
	r        *rand.Rand
	comments bool
	exotic   bool // \v \f \r, doc comments
}

var oplCommentBodies = []string{"", " c ", "*", " class A { ", " \" ", " ' ", " é€ ", "/", "* /", " // "}

func (s *oplSpell) comment() string {
	b := pick(s.r, oplCommentBodies)
	switch s.r.Intn(3) {
	case 0:
		b = strings.ReplaceAll(b, "\n", " ")
		return "//" + b + "\n"
	case 1:
		return "/*" + strings.ReplaceAll(b, "*/", "* /") + "*/"
	}
	return "/** " + strings.ReplaceAll(b, "*/", "* /") + "*/"
}

// opt: optional white space / comment.
func (s *oplSpell) opt() string {
	switch c := s.r.Intn(24); {
	case c < 14:
		return ""
	case c < 19:
		return " "
	case c < 20:
		return "\n  "
	case c < 21:
		if s.exotic {
			return pick(s.r, []string{"\t", "\r\n", "\v", "\f", " \t "})
		}
		return "\t"
	default:
		if s.comments {
			return " " + s.comment() + " "
		}
		return " "
	}
}

// must: at least one separating character.
func (s *oplSpell) must() string {
	if x := s.opt(); x != "" {
		return x
	}
	return " "
}

func (s *oplSpell) join(parts ...string) string {
	var sb strings.Builder
	for i, p := range parts {
		if i > 0 {
			sb.WriteString(s.opt())
		}
		sb.WriteString(p)
	}
	return sb.String()
}

func oplIsIdent(s string) bool { return isIdent(s) }

// name in declaration position: identifier or quoted.
func (s *oplSpell) declName(n string) string {
	if oplIsIdent(n) && s.r.Intn(4) != 0 {
		return n
	}
	return s.quote(n)
}

func (s *oplSpell) quote(n string) string {
	if strings.Contains(n, `"`) || (!strings.Contains(n, "'") && s.r.Intn(2) == 0) {
		return "'" + n + "'"
	}
	return `"` + n + `"`
}

// access: .name or ["name"].
func (s *oplSpell) access(n string) string {
	if oplIsIdent(n) && s.r.Intn(3) != 0 {
		return s.opt() + "." + s.opt() + n
	}
	return s.opt() + "[" + s.opt() + s.quote(n) + s.opt() + "]"
}

// ---------------------------------------------------------------- documents

// oplLeaf is what an atom stands for.
type oplLeaf struct {
	TTU       bool
	Rel, CRel string
	Perm      bool // Rel is a permission of the current namespace: this.permits.Rel(ctx)
	CPerm     bool // CRel is a permission: x.permits.CRel(ctx)
}

func (l oplLeaf) tokens() string {
	if l.TTU {
		return fmt.Sprintf("t %s %s", S(l.Rel), S(l.CRel))
	}
	return "c " + S(l.Rel)
}

func (s *oplSpell) leaf(l oplLeaf) string {
	if !l.TTU {
		if l.Perm {
			return s.join("this") + s.opt() + "." + s.opt() + "permits" + s.access(l.Rel) + s.join("", "(", "ctx", ")")
		}
		return "this" + s.opt() + "." + s.opt() + "related" + s.access(l.Rel) + s.join("", ".", "includes", "(", "ctx", ".", "subject", ")")
	}
	v := pick(s.r, []string{"p", "x", "el", "_p", "ns"})
	arg := v
	if s.r.Intn(2) == 0 {
		arg = s.join("(", v, ")")
	}
	var body string
	if l.CPerm {
		body = v + s.opt() + "." + s.opt() + "permits" + s.access(l.CRel) + s.join("", "(", "ctx", ")")
	} else {
		tc := ""
		if s.r.Intn(6) == 0 {
			tc = s.opt() + ","
		}
		body = v + s.opt() + "." + s.opt() + "related" + s.access(l.CRel) + s.join("", ".", "includes", "(", "ctx", ".", "subject") + tc + s.opt() + ")"
		if s.r.Intn(6) == 0 {
			body += s.opt() + ","
		}
	}
	return "this" + s.opt() + "." + s.opt() + "related" + s.access(l.Rel) + s.join("", ".", "traverse", "(", arg, "=>", body, ")")
}

type oplType struct{ NS, Rel string }

type oplRelDecl struct {
	Name  string
	Types []oplType
	Form  int // 0: random; 1: Array<…>; 2: T[] (one type) / (…)[]; 3: (…)[]
}

type oplPermDecl struct {
	Name   string
	Leaves []oplLeaf
	Expr   *oplE
}

type oplNSDecl struct {
	Name  string
	Rels  []oplRelDecl
	Perms []oplPermDecl
}

// oplFlags records which spellings a rendered document uses that the parser is
// known (or suspected) to mishandle.
type oplFlags struct {
	ArrayComma bool // Array<…> followed by ','
	DoubleNeg  bool
	Mixed      bool
}

var oplNsNames = []string{"User", "Group", "Doc", "Folder", "File", "_n", "N9"}
var oplRelNames = []string{"members", "viewers", "owners", "parents", "a-b", "with space", "r0", "ünï", "Array", "SubjectSet", "related", "class"}
var oplPermNames = []string{"view", "edit", "share", "p-q", "ok", "permits", "this"}

// oplGenDecls: a type-consistent configuration. Every namespace declares the base
// relation "base" (plain types only) and the permission "can"; traverse targets
// are one of these, so every tuple-to-subject-set check resolves. SubjectSet types
// refer to base relations only (no SubjectSet chains: the type check stays linear).
func oplGenDecls(r *rand.Rand, mix, dneg bool) []*oplNSDecl {
	n := 1 + r.Intn(4)
	perm := r.Perm(len(oplNsNames))
	nss := make([]*oplNSDecl, n)
	for i := range nss {
		nss[i] = &oplNSDecl{Name: oplNsNames[perm[i]]}
	}
	plain := func() oplType { return oplType{NS: nss[r.Intn(n)].Name} }
	for _, ns := range nss {
		base := oplRelDecl{Name: "base"}
		for j := 0; j < 1+r.Intn(3); j++ {
			base.Types = append(base.Types, plain())
		}
		ns.Rels = append(ns.Rels, base)
		rp := r.Perm(len(oplRelNames))
		for j := 0; j < r.Intn(4); j++ {
			d := oplRelDecl{Name: oplRelNames[rp[j]]}
			for k := 0; k < 1+r.Intn(3); k++ {
				if r.Intn(3) == 0 {
					d.Types = append(d.Types, oplType{NS: nss[r.Intn(n)].Name, Rel: "base"})
				} else {
					d.Types = append(d.Types, plain())
				}
			}
			ns.Rels = append(ns.Rels, d)
		}
	}
	for _, ns := range nss {
		// "can" first so that every namespace has it
		names := []string{"can"}
		pp := r.Perm(len(oplPermNames))
		for j := 0; j < r.Intn(3); j++ {
			names = append(names, oplPermNames[pp[j]])
		}
		for _, pn := range names {
			k := 1 + r.Intn(4)
			p := oplPermDecl{Name: pn}
			for a := 0; a < k; a++ {
				rel := ns.Rels[r.Intn(len(ns.Rels))].Name
				switch r.Intn(4) {
				case 0:
					p.Leaves = append(p.Leaves, oplLeaf{Rel: "can", Perm: true})
				case 1:
					if r.Intn(2) == 0 {
						p.Leaves = append(p.Leaves, oplLeaf{TTU: true, Rel: rel, CRel: "can", CPerm: true})
					} else {
						p.Leaves = append(p.Leaves, oplLeaf{TTU: true, Rel: rel, CRel: "base"})
					}
				default:
					p.Leaves = append(p.Leaves, oplLeaf{Rel: rel})
				}
			}
			p.Expr = oplGenExpr(r, k, 1+r.Intn(7), mix, dneg, 2)
			for p.Expr.nesting() > 8 {
				p.Expr = oplGenExpr(r, k, 1+r.Intn(4), mix, dneg, 1)
			}
			ns.Perms = append(ns.Perms, p)
		}
	}
	return nss
}

func (s *oplSpell) typeRef(t oplType) string {
	if t.Rel == "" {
		return t.NS
	}
	return s.join("SubjectSet", "<", t.NS, ",", s.quote(t.Rel), ">")
}

// relDecl renders one relation declaration in a random spelling. sep is what
// follows it.
func (s *oplSpell) relDecl(d oplRelDecl, fl *oplFlags, allowArrayComma bool) string {
	var ts []string
	for _, t := range d.Types {
		ts = append(ts, s.typeRef(t))
	}
	union := strings.Join(ts, s.opt()+"|"+s.opt())
	form := s.r.Intn(3)
	if d.Form != 0 {
		form = d.Form - 1
	}
	var typ string
	switch {
	case form == 0:
		typ = s.join("Array", "<", union, ">")
	case len(ts) == 1 && form == 1:
		typ = s.join(ts[0], "[", "]")
	default:
		typ = s.join("(", union, ")", "[", "]")
	}
	sep := pick(s.r, []string{",", ";", "\n", ",", " ", ";;"})
	if form == 0 && strings.HasPrefix(sep, ",") {
		if allowArrayComma {
			fl.ArrayComma = true
		} else {
			sep = ";"
		}
	}
	return s.join(s.declName(d.Name), ":", typ) + s.opt() + sep
}

func (s *oplSpell) permDecl(p oplPermDecl, last bool) string {
	ctx := "ctx"
	if s.r.Intn(2) == 0 {
		ctx = s.join("ctx", ":", "Context")
	}
	ret := ""
	if s.r.Intn(2) == 0 {
		ret = s.join(":", "boolean")
	}
	body := p.Expr.render(func(i int) string { return s.leaf(p.Leaves[i]) }, s.opt)
	sep := ","
	if last && s.r.Intn(2) == 0 {
		sep = ""
	}
	return s.join(s.declName(p.Name), ":", "(", ctx, ")", ret, "=>", body) + s.opt() + sep
}

var oplHeaders = []string{
	"",
	"import { Namespace, SubjectSet, Context } from \"@ory/keto-namespace-types\"\n",
	"import {Namespace,Context} from '@ory/keto-namespace-types';\n",
	"// Copyright\n",
	"/* header */",
}

// renderDoc renders a configuration; returns the text.
func (s *oplSpell) renderDoc(nss []*oplNSDecl, fl *oplFlags, allowArrayComma bool) string {
	var sb strings.Builder
	sb.WriteString(pick(s.r, oplHeaders))
	for _, ns := range nss {
		sb.WriteString(s.opt())
		sb.WriteString("class" + s.must() + ns.Name + s.must() + "implements" + s.must() + "Namespace" + s.opt() + "{")
		relBlock := func(rels []oplRelDecl) {
			sb.WriteString(s.opt() + "related" + s.opt() + ":" + s.opt() + "{")
			for _, d := range rels {
				sb.WriteString(s.opt() + s.relDecl(d, fl, allowArrayComma))
			}
			sb.WriteString(s.opt() + "}" + pick(s.r, []string{"", ";", "\n"}))
		}
		permBlock := func(ps []oplPermDecl) {
			sb.WriteString(s.opt() + "permits" + s.opt() + "=" + s.opt() + "{")
			for i, p := range ps {
				sb.WriteString(s.opt() + s.permDecl(p, i == len(ps)-1))
			}
			sb.WriteString(s.opt() + "}" + pick(s.r, []string{"", ";", "\n"}))
		}
		// the order of declarations inside a class is the order of the parsed
		// relations: keep related before permits (the expected AST is compared in order),
		// optionally split the related block in two
		if len(ns.Rels) > 1 && s.r.Intn(4) == 0 {
			k := 1 + s.r.Intn(len(ns.Rels)-1)
			relBlock(ns.Rels[:k])
			relBlock(ns.Rels[k:])
		} else {
			relBlock(ns.Rels)
		}
		permBlock(ns.Perms)
		sb.WriteString(s.opt() + "}" + pick(s.r, []string{"", "\n", ";", "\n\n"}))
	}
	sb.WriteString(s.opt())
	return sb.String()
}

// ---------------------------------------------------------------- mutations

var oplBadUTF8 = []string{"\xff", "\xc3", "\xe2\x82", "\xf0\x9f\x98", "\xed\xa0\x80", "\xc0\x80", "\xf4\x90\x80\x80", "\x80", "\xbf\xbf", "\xfe\xff", "\xe0\x80\x80", "\xf8\x88\x80\x80\x80"}
var oplGoodUTF8 = []string{"é", "€", "😀", " ", "ü", " ", "�", "\n", "\r\n", "\n\n"}
var oplFragments = []string{"(((((((((((((((((((((((((", "}}}}}}}}}}}}}}}}}}}}}", "([{<>}])([{<>}])([{<>}])", ">>>>>>>>>>>>>>>>>>>>>>)[]", "/*", "*/", "//", "\"", "'", "(", ")", "!", "!(", "((((((((((((", "))", "{", "}", "[", "]", "<", ">", "=>", "=", "||", "&&", "|", "&", ",", ";", ":", ".", "#", "\x00", "\x7f", "\x7f\x7f", "~", "\x01", "\x1f", "@", "^", "class", "this", "ctx", "related", "permits", "Array", "SubjectSet", "implements", "Namespace", "traverse", "includes", "subject", "0", "9x", "$", "\\", "`"}

func oplMutate(r *rand.Rand, doc string) (string, string) {
	b := []byte(doc)
	kind := ""
	n := 1 + r.Intn(3)
	for i := 0; i < n; i++ {
		pos := 0
		if len(b) > 0 {
			pos = r.Intn(len(b) + 1)
		}
		ins := func(s string) { b = append(b[:pos:pos], append([]byte(s), b[pos:]...)...) }
		switch c := r.Intn(12); c {
		case 0:
			b = b[:pos]
			kind += "trunc,"
		case 1:
			if pos < len(b) {
				b = append(b[:pos:pos], b[pos+1:]...)
			}
			kind += "del,"
		case 2:
			ins(pick(r, oplBadUTF8))
			kind += "badutf8,"
		case 3:
			ins(pick(r, oplGoodUTF8))
			kind += "utf8,"
		case 4, 5:
			ins(pick(r, oplFragments))
			kind += "frag,"
		case 6:
			if pos < len(b) {
				b[pos] = byte(r.Intn(256))
			}
			kind += "byte,"
		case 7:
			if len(b) > 0 {
				a := r.Intn(len(b))
				z := a + r.Intn(len(b)-a+1)
				seg := append([]byte{}, b[a:z]...)
				ins(string(seg))
			}
			kind += "dup,"
		case 8:
			if len(b) > 0 {
				a := r.Intn(len(b))
				z := a + r.Intn(min(len(b)-a, 40)+1)
				b = append(b[:a:a], b[z:]...)
			}
			kind += "cut,"
		case 9:
			ins(pick(r, []string{"/*", "/* x", "\"", "'", "//"}))
			kind += "unterminated,"
		case 10:
			// swap two bytes
			if len(b) > 1 {
				a, z := r.Intn(len(b)), r.Intn(len(b))
				b[a], b[z] = b[z], b[a]
			}
			kind += "swap,"
		default:
			ins(strings.Repeat(pick(r, []string{"a", "Z_", "9", "é"}), 1+r.Intn(200)))
			kind += "long,"
		}
	}
	return string(b), strings.TrimSuffix(kind, ",")
}

// oplNestingDoc: a permission whose body nests n levels of "(" / "!" / "!(".
func oplNestingDoc(r *rand.Rand, n int) string {
	atom := "this.related.base.includes(ctx.subject)"
	body := atom
	for i := 0; i < n; i++ {
		switch r.Intn(4) {
		case 0:
			body = "(" + body + ")"
		case 1:
			body = "!(" + body + ")"
		case 2:
			if strings.HasPrefix(body, "!") {
				body = "(" + body + ")"
			} else {
				body = "!" + body
			}
		default:
			body = "(" + body + pick(r, []string{" || ", " && "}) + atom + ")"
		}
	}
	return "class U implements Namespace { related: { base: U[] } permits = { can: (ctx) => " + body + " } }"
}

// oplHugeDoc: identifiers / strings / comments / white space of n bytes.
func oplHugeDoc(r *rand.Rand, n int) string {
	long := strings.Repeat("x", n)
	switch r.Intn(6) {
	case 0:
		return "class " + long + " implements Namespace { related: { base: " + long + "[] } }"
	case 1:
		return "class U implements Namespace { related: { \"" + long + "\": U[] } }"
	case 2:
		return "/*" + long + "*/ class U implements Namespace {} //" + long
	case 3:
		return strings.Repeat(" \n", n/2) + "class U implements Namespace {}" + strings.Repeat("\t", n/2) + "#"
	case 4:
		return "class U implements Namespace { related: { base: U[] } permits = { can: (ctx) => this.related." + long + ".includes(ctx.subject) } }"
	default:
		return "class U implements Namespace { related: { '" + long
	}
}

// oplBracketChars: the one-rune tokens and the characters of the multi-rune ones.
const oplBracketChars = "(){}[]<>"
const oplOperatorChars = "!|&=.,:;"

// oplBracketRun: 21-60 adjacent bracket / operator characters without white space
// (identical, mixed brackets, or brackets and operators), alone or inside a
// document. More than 20 items from one state function would fill the lexer's
// item channel.
func oplBracketRun(r *rand.Rand) string {
	n := 21 + r.Intn(40)
	var sb strings.Builder
	switch r.Intn(4) {
	case 0:
		c := oplBracketChars[r.Intn(len(oplBracketChars))]
		sb.WriteString(strings.Repeat(string(c), n))
	case 1:
		for i := 0; i < n; i++ {
			sb.WriteByte(oplBracketChars[r.Intn(len(oplBracketChars))])
		}
	case 2:
		c := oplOperatorChars[r.Intn(len(oplOperatorChars))]
		sb.WriteString(strings.Repeat(string(c), n))
	default:
		all := oplBracketChars + oplOperatorChars
		for i := 0; i < n; i++ {
			sb.WriteByte(all[r.Intn(len(all))])
		}
	}
	run := sb.String()
	switch r.Intn(5) {
	case 0:
		return run
	case 1:
		return "class U implements Namespace { related: { base: U[] } permits = { can: (ctx) => " + run + "this.related.base.includes(ctx.subject)" + " } }"
	case 2:
		return "class U implements Namespace " + run
	case 3:
		return "class U implements Namespace { related: { base: " + run + " } }"
	default:
		return run + " class U implements Namespace {}" + run
	}
}

var oplSoupWords = []string{"class", "implements", "Namespace", "related", "permits", "this", "ctx", "Context", "boolean", "Array", "SubjectSet",
	"traverse", "includes", "subject", "U", "base", "can", "p", "\"q\"", "'r'", "{", "}", "(", ")", "[", "]", "<", ">", ":", ";", ",", ".", "=", "=>",
	"||", "&&", "!", "|", "/* c */", "// c\n", "{", "}", "(", ")", ":", ".", ","}

// oplSoup: random token sequences around a plausible skeleton (deep parser error paths).
func oplSoup(r *rand.Rand) string {
	var sb strings.Builder
	prefix := pick(r, []string{"", "class U implements Namespace {", "class U implements Namespace { related: {", "class U implements Namespace { related: { base: U[] } permits = {",
		"class U implements Namespace { related: { base: U[] } permits = { can: (ctx) =>", "class U implements Namespace { related: { base: U[] } permits = { can: (ctx) => this.related.base.traverse("})
	sb.WriteString(prefix)
	n := r.Intn(14)
	for i := 0; i < n; i++ {
		sb.WriteString(" " + pick(r, oplSoupWords))
	}
	if r.Intn(2) == 0 {
		sb.WriteString(pick(r, []string{"}", "} }", "} } }", " this.related.base.includes(ctx.subject) } }"}))
	}
	return sb.String()
}


// oplCollideDoc: two namespaces whose names and relation names are chosen so that the
// concatenations "namespace ++ sep ++ relation" (or "relation ++ sep ++ namespace") of a DECLARED
// relation of one and of an UNDECLARED relation of the other coincide (Doc + sview = Docs + view);
// the other namespace references its undeclared relation in one of the five reference forms.
// With declared = true the relation is declared after all (the accepted twin).
func oplCollideDoc(r *rand.Rand, declared bool) string {
	word := func() string {
		return pick(r, []string{"s", "x", "View", "er", "Set", "a1", "_b", "Q"})
	}
	x, y, z := pick(r, []string{"Doc", "A", "File", "Ns"}), word(), pick(r, []string{"view", "edit", "members", "z"})
	sep := pick(r, []string{"", "", "_", "0"})
	var n, rel string
	if r.Intn(3) != 0 {
		n, rel = x+sep+y, y+sep+z // x ++ (y sep z)  ==  (x sep y) ++ z  when the key is ns ++ sep ++ rel
		if sep != "" {
			n, rel = x+sep+y, y+sep+z
		}
	} else {
		n, rel = y+sep+x, z+sep+y // (z sep y) ++ x  ==  z ++ (y sep x)  when the key is rel ++ sep ++ ns
	}
	decl := ""
	if declared {
		decl = z + ": User[], "
	}
	var xBody, nBody string
	switch r.Intn(5) {
	case 0:
		xBody = fmt.Sprintf("related: { %s: User[] }", rel)
		nBody = fmt.Sprintf("related: { %so: User[] }\n  permits = { p: (ctx: Context): boolean => this.related.%s.includes(ctx.subject) }", decl, z)
	case 1:
		xBody = fmt.Sprintf("related: { %s: User[] }", rel)
		perm := ""
		if declared {
			perm = fmt.Sprintf("%s: (ctx: Context): boolean => this.related.o.includes(ctx.subject), ", z)
		}
		nBody = fmt.Sprintf("related: { o: User[] }\n  permits = { %sp: (ctx: Context): boolean => this.permits.%s(ctx) }", perm, z)
	case 2:
		xBody = fmt.Sprintf("related: { %s: User[], w: SubjectSet<%s, \"%s\">[] }", rel, n, z)
		nBody = fmt.Sprintf("related: { %so: User[] }", decl)
	case 3:
		xBody = fmt.Sprintf("related: { %s: User[], par: %s[] }\n  permits = { q: (ctx: Context): boolean => this.related.par.traverse((p) => p.related.%s.includes(ctx.subject)) }", rel, n, z)
		nBody = fmt.Sprintf("related: { %so: User[] }", decl)
	default:
		xBody = fmt.Sprintf("related: { %s: User[], par: %s[] }\n  permits = { q: (ctx: Context): boolean => this.related.par.traverse((p) => p.permits.%s(ctx)) }", rel, n, z)
		perm := ""
		if declared {
			perm = fmt.Sprintf("\n  permits = { %s: (ctx: Context): boolean => this.related.o.includes(ctx.subject) }", z)
		}
		nBody = "related: { o: User[] }" + perm
	}
	classes := []string{
		"class User implements Namespace {}",
		fmt.Sprintf("class %s implements Namespace {\n  %s\n}", x, xBody),
		fmt.Sprintf("class %s implements Namespace {\n  %s\n}", n, nBody),
	}
	r.Shuffle(len(classes), func(i, j int) { classes[i], classes[j] = classes[j], classes[i] })
	return "import { Namespace, SubjectSet, Context } from \"@ory/keto-namespace-types\"\n" + strings.Join(classes, "\n") + "\n"
}
