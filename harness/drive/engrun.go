package drive

import (
	"context"
	"encoding/json"
	"database/sql"
	"errors"
	"fmt"
	"io"
	"os"
	"path/filepath"
	"sort"
	"strconv"
	"strings"
	"sync"
	"sync/atomic"
	"testing"
	"time"

	"github.com/gobuffalo/pop/v6"
	"github.com/gobuffalo/pop/v6/logging"
	"github.com/gofrs/uuid"
	"github.com/ory/x/networkx"
	"github.com/sirupsen/logrus"

	"github.com/ory/keto/internal/check"
	"github.com/ory/keto/internal/check/checkgroup"
	"github.com/ory/keto/internal/driver"
	"github.com/ory/keto/internal/driver/config"
	"github.com/ory/keto/internal/expand"
	"github.com/ory/keto/internal/namespace"
	"github.com/ory/keto/internal/persistence"
	ksql "github.com/ory/keto/internal/persistence/sql"
	"github.com/ory/keto/internal/relationtuple"
	"github.com/ory/keto/internal/schema"
	"github.com/ory/keto/internal/x"
	"github.com/ory/keto/ketoctx"
)

var (
	objSpace = uuid.NewV5(uuid.Nil, "verif-object")
	subSpace = uuid.NewV5(uuid.Nil, "verif-subject")
	errFault = errors.New("verif: injected storage fault")
	errLeak  = errors.New("verif: rows of another network visible")
)

func objUUID(i int) uuid.UUID { return uuid.NewV5(objSpace, strconv.Itoa(i)) }
func subUUID(i int) uuid.UUID { return uuid.NewV5(subSpace, strconv.Itoa(i)) }

// faultDeps wraps the registry so that the k-th storage call of a check fails. The
// engine built on it may live as long as the environment (as the registry's engine does
// in a server); what varies per check - the call counter and the fault position - is
// the runState carried by the request context, so that a goroutine left over from an
// earlier check keeps counting into its own check.
type faultDeps struct {
	*driver.RegistryDefault
	calls      *int64
	failAt     int64
	persistent bool
	kind       int // which error the failing call returns (faultErrs)
	pageSize   int // page size forced on GetRelationTuples (0 or 100: the persister's default)
	// when set, the storage the engine uses instead of the registry's (C06: a persister
	// whose network is selected per request through the contextualizer)
	baseMgr  relationtuple.Manager
	baseTrav relationtuple.Traverser
}

// runState is the per-check part of faultDeps when the engine is shared between checks.
type runState struct {
	calls      *int64
	failAt     int64
	persistent bool
	kind       int
	pageSize   int
	budget     int64 // storage calls after which every call fails (0: callBudget)
	// statement-level faults (below the Manager/Traverser interface): the SQL statements of the check are
	// counted; the stmtAt-th one is cancelled right before it is sent (the storage call it belongs to -
	// 1-based, recorded in stmtCall - sees a cancelled query). nil stmts: off.
	stmts    *int64
	stmtAt   int64
	stmtCall *int64
}

// stmtCallInfo travels in the context of ONE storage call (a child context that can be cancelled alone).
type stmtCallInfo struct {
	st     *runState
	call   int64
	cancel context.CancelFunc
}

type stmtCallKey struct{}

// stmtWrap derives the context of one storage call when statement-level faults are on.
func (d *faultDeps) stmtWrap(ctx context.Context) (context.Context, func()) {
	st, ok := ctx.Value(runStateKey{}).(*runState)
	if !ok || st.stmts == nil {
		return ctx, func() {}
	}
	cctx, cancel := context.WithCancel(ctx)
	return context.WithValue(cctx, stmtCallKey{}, &stmtCallInfo{st: st, call: atomic.LoadInt64(st.calls), cancel: cancel}), cancel
}

// stmtHook is pop's statement logger: called right before a statement is sent to the database.
func stmtHook(lvl logging.Level, anon interface{}, _ string, _ ...interface{}) {
	if lvl != logging.SQL {
		return
	}
	c, ok := anon.(*pop.Connection)
	if !ok {
		return
	}
	ci, ok := c.Context().Value(stmtCallKey{}).(*stmtCallInfo)
	if !ok {
		return
	}
	if n := atomic.AddInt64(ci.st.stmts, 1); ci.st.stmtAt > 0 && n == ci.st.stmtAt {
		atomic.StoreInt64(ci.st.stmtCall, ci.call)
		ci.cancel()
	}
}

var stmtHookOnce sync.Once

type runStateKey struct{}

func (d *faultDeps) state(ctx context.Context) runState {
	if st, ok := ctx.Value(runStateKey{}).(*runState); ok {
		return *st
	}
	return runState{calls: d.calls, failAt: d.failAt, persistent: d.persistent, kind: d.kind, pageSize: d.pageSize}
}

// faultErrs are the injected storage failures: a generic connection error, a
// cancelled query, a timeout, a closed connection. All wrap errFault so that they are
// canonicalised to the same kind.
var faultErrs = []error{
	errFault,
	fmt.Errorf("%w: %w", errFault, context.Canceled),
	fmt.Errorf("%w: %w", errFault, context.DeadlineExceeded),
	fmt.Errorf("%w: %w", errFault, sql.ErrConnDone),
	fmt.Errorf("%w: %w", context.Canceled, errFault),
}

// callBudget bounds the cost of one check: beyond it every storage call fails, so
// the check ends quickly; the case is then dropped by the caller (calls > budget).
const callBudget = 4000

func (d *faultDeps) hit(ctx context.Context) error {
	st := d.state(ctx)
	n := atomic.AddInt64(st.calls, 1)
	if n > callBudget || (st.budget > 0 && n > st.budget) {
		return errFault
	}
	if st.failAt != 0 && (n == st.failAt || (st.persistent && n > st.failAt)) {
		return faultErrs[st.kind%len(faultErrs)]
	}
	return nil
}

type faultManager struct {
	relationtuple.Manager
	d *faultDeps
}

func (m *faultManager) GetRelationTuples(ctx context.Context, q *relationtuple.RelationQuery, o ...x.PaginationOptionSetter) ([]*relationtuple.RelationTuple, string, error) {
	if err := m.d.hit(ctx); err != nil {
		return nil, "", err
	}
	if ps := m.d.state(ctx).pageSize; ps > 0 && ps != 100 {
		o = append(o, x.WithSize(ps))
	}
	ctx, done := m.d.stmtWrap(ctx)
	defer done()
	return m.Manager.GetRelationTuples(ctx, q, o...)
}

func (m *faultManager) ExistsRelationTuples(ctx context.Context, q *relationtuple.RelationQuery) (bool, error) {
	if err := m.d.hit(ctx); err != nil {
		return false, err
	}
	ctx, done := m.d.stmtWrap(ctx)
	defer done()
	return m.Manager.ExistsRelationTuples(ctx, q)
}

type faultTraverser struct {
	relationtuple.Traverser
	d *faultDeps
}

func (t *faultTraverser) TraverseSubjectSetExpansion(ctx context.Context, tuple *relationtuple.RelationTuple) ([]*relationtuple.TraversalResult, error) {
	if err := t.d.hit(ctx); err != nil {
		return nil, err
	}
	ctx, done := t.d.stmtWrap(ctx)
	defer done()
	return t.Traverser.TraverseSubjectSetExpansion(ctx, tuple)
}

func (t *faultTraverser) TraverseSubjectSetRewrite(ctx context.Context, tuple *relationtuple.RelationTuple, css []string) ([]*relationtuple.TraversalResult, error) {
	if err := t.d.hit(ctx); err != nil {
		return nil, err
	}
	ctx, done := t.d.stmtWrap(ctx)
	defer done()
	return t.Traverser.TraverseSubjectSetRewrite(ctx, tuple, css)
}

func (d *faultDeps) RelationTupleManager() relationtuple.Manager {
	if d.baseMgr != nil {
		return &faultManager{Manager: d.baseMgr, d: d}
	}
	return &faultManager{Manager: d.RegistryDefault.RelationTupleManager(), d: d}
}

func (d *faultDeps) Traverser() relationtuple.Traverser {
	if d.baseTrav != nil {
		return &faultTraverser{Traverser: d.baseTrav, d: d}
	}
	return &faultTraverser{Traverser: d.RegistryDefault.Traverser(), d: d}
}

var _ persistence.Provider = (*faultDeps)(nil)

// engEnv is one registry reused across cases.
type engEnv struct {
	t      testing.TB
	reg    *driver.RegistryDefault
	ctx    context.Context
	tmpDir string
	nfile  int
	// last limits set (Config.Set reloads the whole configuration, ~10 ms)
	lastDepth, lastWidth int
	other                *ksql.Persister // one persister serving two networks selected by the context (C06)
	eng                  *check.Engine   // the engine shared by all checks of this environment
	// statement-level fault mode of runCheck (see runState): on/off, the statement to cancel (0: only count),
	// and what the last run observed: statements sent, storage call (1-based) the cancelled one belonged to
	stmtMode                bool
	stmtAt                  int64
	lastStmts, lastStmtCall int64
	hung                 bool            // a check did not return: the stream stops after the current case
	budget               int64           // storage-call budget of the next runs (0: callBudget)
	noplcase             int
	prevOPL              string // the previously accepted OPL document
	inPlaceActive        bool // the configuration points at the in-place file
	inPlaceStrict        bool
	ctxB                 context.Context
}

type ctxNetKey struct{}

// ctxNet selects the network of a request from its context (what a multi-tenant
// deployment does through ketoctx.Contextualizer).
type ctxNet struct{ ketoctx.DefaultContextualizer }

func (c *ctxNet) Network(ctx context.Context, n uuid.UUID) uuid.UUID {
	if v, ok := ctx.Value(ctxNetKey{}).(uuid.UUID); ok {
		return v
	}
	return n
}

type ctxDeps struct {
	*driver.RegistryDefault
	c ketoctx.Contextualizer
}

func (d *ctxDeps) Contextualizer() ketoctx.Contextualizer { return d.c }

// useCtxNetworks switches the environment to ONE persister serving two networks A and
// B chosen per request by the context; prepare/storedOrder/runCheck then work in A.
func (e *engEnv) useCtxNetworks() error {
	conn, err := e.reg.PopConnection(e.ctx)
	if err != nil {
		return err
	}
	a, b := networkx.NewNetwork(), networkx.NewNetwork()
	if err := conn.Create(a); err != nil {
		return err
	}
	if err := conn.Create(b); err != nil {
		return err
	}
	p, err := ksql.NewPersister(e.ctx, &ctxDeps{RegistryDefault: e.reg, c: &ctxNet{}}, uuid.Must(uuid.NewV4()))
	if err != nil {
		return err
	}
	e.other = p
	e.ctxB = context.WithValue(e.ctx, ctxNetKey{}, b.ID)
	e.ctx = context.WithValue(e.ctx, ctxNetKey{}, a.ID)
	return nil
}

func (e *engEnv) manager() relationtuple.Manager {
	if e.other != nil {
		return e.other
	}
	return e.reg.RelationTupleManager()
}

func (e *engEnv) persister() persistence.Persister {
	if e.other != nil {
		return e.other
	}
	return e.reg.Persister()
}

// fillOtherNetwork replaces the content of network B by the given tuples.
func (e *engEnv) fillOtherNetwork(ts []Tup) error {
	its := make([]*relationtuple.RelationTuple, len(ts))
	for i, t := range ts {
		its[i] = t.internal()
	}
	return retryLocked(func() error {
		if err := e.other.DeleteAllRelationTuples(e.ctxB, &relationtuple.RelationQuery{}); err != nil {
			return err
		}
		if len(its) == 0 {
			return nil
		}
		return e.other.WriteRelationTuples(e.ctxB, its...)
	})
}

func newEngEnv(t testing.TB) *engEnv {
	reg := driver.NewSqliteTestRegistry(t, false)
	quiet(reg)
	return &engEnv{t: t, reg: reg, ctx: context.Background(), tmpDir: t.TempDir()}
}

// quiet silences the registry's logger (the engine logs every limit event and
// every injected fault).
func quiet(reg *driver.RegistryDefault) {
	reg.Logger().Logger.SetOutput(io.Discard)
	reg.Logger().Logger.SetLevel(logrus.PanicLevel)
}

func (s Sub) internal() relationtuple.Subject {
	if s.IsSet {
		return &relationtuple.SubjectSet{Namespace: s.NS, Object: objUUID(s.Obj), Relation: s.Rel}
	}
	return &relationtuple.SubjectID{ID: subUUID(s.ID)}
}

func (t Tup) internal() *relationtuple.RelationTuple {
	return &relationtuple.RelationTuple{Namespace: t.NS, Object: objUUID(t.Obj), Relation: t.Rel, Subject: t.Sub.internal()}
}

// prepare loads the configuration (through the real OPL parser when possible),
// replaces c.NSs by what the engine will actually see, stores the tuples and
// replaces c.Tuples by the stored order.
func (e *engEnv) prepare(c *EngCase, o *Out) error {
	legacy := true
	for _, n := range c.NSs {
		if len(n.Relations) > 0 {
			legacy = false
		}
	}
	viaOPL := false
	inPlace := false
	if !legacy {
		text := renderOPL(c.NSs)
		parsed, errs := schema.Parse(text)
		if len(errs) == 0 {
			viaOPL = true
			c.ViaOPL = true
			nss := make([]*namespace.Namespace, len(parsed))
			for i := range parsed {
				n := parsed[i]
				nss[i] = &n
			}
			c.NSs = nss
			// every other accepted document is loaded by changing ONE watched file in place (the
			// namespace manager object stays, its content is replaced by the watcher), the others
			// through a new location (a new manager)
			e.noplcase++
			if e.noplcase%2 == 0 {
				// first the previously accepted document, in place, and one lookup per namespace
				// (whatever the read path remembers about a configuration is now warm) …
				if e.prevOPL != "" && e.prevOPL != text {
					if pp, perrs := schema.Parse(e.prevOPL); len(perrs) == 0 {
						if ok, err := e.loadInPlace(e.prevOPL, c.Strict, pp); err != nil {
							return err
						} else if ok {
							e.warmLookups(pp)
						}
					}
				}
				// … then this case's document into the same file
				ok, err := e.loadInPlace(text, c.Strict, parsed)
				if err != nil {
					return err
				}
				inPlace = ok
				if ok && o != nil {
					o.Count("cfg:opl-in-place")
				}
			}
			e.prevOPL = text
			if c.Strict && !inPlace {
				e.nfile++
				f := filepath.Join(e.tmpDir, fmt.Sprintf("ns%d.ts", e.nfile))
				if err := os.WriteFile(f, []byte(text), 0o644); err != nil {
					return err
				}
				if err := e.reg.Config(e.ctx).Set(config.KeyNamespaces, map[string]any{
					"location": "file://" + f, "experimental_strict_mode": true}); err != nil {
					return err
				}
				e.inPlaceActive = false
			}
		} else if o != nil {
			o.Count("cfg:opl-rejected")
		}
	}
	if inPlace {
		// loaded
	} else if !viaOPL || !c.Strict {
		e.inPlaceActive = false
		c.Strict = false
		if err := e.reg.Config(e.ctx).Set(config.KeyNamespaces, c.NSs); err != nil {
			return err
		}
	}
	if o != nil {
		switch {
		case legacy:
			o.Count("cfg:legacy")
		case viaOPL && c.Strict:
			o.Count("cfg:opl-strict")
		case viaOPL:
			o.Count("cfg:opl")
		default:
			o.Count("cfg:raw-ast")
		}
	}
	if _, err := e.reg.Config(e.ctx).NamespaceManager(); err != nil {
		return err
	}
	// store (a goroutine left over from an earlier concurrent check may still hold a read cursor:
	// SQLITE_LOCKED on the shared in-memory cache, reported as a serialization failure - retry)
	m := e.manager()
	if err := retryLocked(func() error { return m.DeleteAllRelationTuples(e.ctx, &relationtuple.RelationQuery{}) }); err != nil {
		return err
	}
	if len(c.Tuples) > 0 {
		its := make([]*relationtuple.RelationTuple, len(c.Tuples))
		for i, t := range c.Tuples {
			its[i] = t.internal()
		}
		if err := retryLocked(func() error {
			// a failed attempt may have been rolled back only in part of our knowledge: start from empty
			if err := m.DeleteAllRelationTuples(e.ctx, &relationtuple.RelationQuery{}); err != nil {
				return err
			}
			return m.WriteRelationTuples(e.ctx, its...)
		}); err != nil {
			return err
		}
	}
	stored, err := e.storedOrder(c.Tuples)
	if err != nil {
		return err
	}
	c.Tuples = stored
	if c.BoundaryMember != nil {
		extra := c.BoundaryMember(stored)
		c.BoundaryMember = nil
		if extra != nil {
			if err := retryLocked(func() error { return m.WriteRelationTuples(e.ctx, extra.internal()) }); err != nil {
				return err
			}
			if stored, err = e.storedOrder(append(append([]Tup(nil), stored...), *extra)); err != nil {
				return err
			}
			c.Tuples = stored
		}
	}
	return nil
}

// storedOrder reads the table back in shard-id order.
func (e *engEnv) storedOrder(orig []Tup) ([]Tup, error) {
	objIdx := map[uuid.UUID]int{}
	subIdx := map[uuid.UUID]int{}
	for _, t := range orig {
		objIdx[objUUID(t.Obj)] = t.Obj
		if t.Sub.IsSet {
			objIdx[objUUID(t.Sub.Obj)] = t.Sub.Obj
		} else {
			subIdx[subUUID(t.Sub.ID)] = t.Sub.ID
		}
	}
	var rows []*ksql.RelationTuple
	p := e.persister()
	if err := p.Connection(e.ctx).RawQuery(
		"SELECT shard_id, nid, namespace, object, relation, subject_id, subject_set_namespace, subject_set_object, subject_set_relation, commit_time FROM keto_relation_tuples WHERE nid = ? ORDER BY shard_id",
		p.NetworkID(e.ctx)).All(&rows); err != nil {
		return nil, err
	}
	out := make([]Tup, 0, len(rows))
	for _, r := range rows {
		t := Tup{NS: r.Namespace, Obj: objIdx[r.Object], Rel: r.Relation}
		if r.SubjectID.Valid {
			t.Sub = Sub{ID: subIdx[r.SubjectID.UUID]}
		} else {
			t.Sub = Sub{IsSet: true, NS: r.SubjectSetNamespace.String, Obj: objIdx[r.SubjectSetObject.UUID], Rel: r.SubjectSetRelation.String}
		}
		out = append(out, t)
	}
	if len(out) != len(orig) {
		return nil, fmt.Errorf("%w: listing the network returned %d rows, %d were written to it", errLeak, len(out), len(orig))
	}
	return out, nil
}

func errKind(err error) string {
	if err == nil {
		return "none"
	}
	msg := err.Error()
	switch {
	case errors.Is(err, errFault):
		return "storage"
	case errors.Is(err, context.Canceled) || errors.Is(err, context.DeadlineExceeded):
		return "ctx"
	case strings.Contains(msg, "incorrect UUID") || strings.Contains(msg, "Scan error") || strings.Contains(msg, "converting"):
		return "storage"
	case strings.Contains(msg, "does not exist") || strings.Contains(msg, "malformed"):
		return "schema"
	case strings.Contains(msg, "not implemented"):
		return "notimpl"
	}
	return "other:" + strings.ReplaceAll(strings.ReplaceAll(msg, "\t", " "), "\n", " ")
}

func membStr(m checkgroup.Membership) string {
	switch m {
	case checkgroup.IsMember:
		return "isMember"
	case checkgroup.NotMember:
		return "notMember"
	}
	return "unknown"
}

func (e *engEnv) setLimits(c *EngCase) error {
	if e.lastDepth != c.GDepth {
		if err := e.reg.Config(e.ctx).Set(config.KeyLimitMaxReadDepth, c.GDepth); err != nil {
			return err
		}
		e.lastDepth = c.GDepth
	}
	if e.lastWidth != c.Width {
		if err := e.reg.Config(e.ctx).Set(config.KeyLimitMaxReadWidth, c.Width); err != nil {
			return err
		}
		e.lastWidth = c.Width
	}
	return nil
}

// expandInA expands the queried object#relation in network A (the environment's own network)
// and renders the tree canonically (children sorted).
func (e *engEnv) expandInA(c *EngCase) string {
	deps := &faultDeps{RegistryDefault: e.reg}
	var zero int64
	deps.calls = &zero
	if e.other != nil {
		deps.baseMgr, deps.baseTrav = e.other, ksql.NewTraverser(e.other)
	}
	root := &relationtuple.SubjectSet{Namespace: c.Query.NS, Object: objUUID(c.Query.Obj), Relation: c.Query.Rel}
	var render func(t *relationtuple.Tree) string
	render = func(t *relationtuple.Tree) string {
		if t == nil {
			return "nil"
		}
		var kids []string
		for _, ch := range t.Children {
			kids = append(kids, render(ch))
		}
		sort.Strings(kids)
		return fmt.Sprintf("%s:%s(%s)", t.Type, t.Subject.String(), strings.Join(kids, ","))
	}
	out := ""
	func() {
		defer func() {
			if r := recover(); r != nil {
				out = fmt.Sprintf("panic:%v", r)
			}
		}()
		tr, err := expand.NewEngine(deps).BuildTree(e.ctx, root, 4)
		if err != nil {
			out = "error:" + errKind(err)
			return
		}
		out = render(tr)
	}()
	return out
}

// poisonedRuns: the check with one stored row at a time made undecodable (see the caller).
// Returns the column x_base=<fault-free answer> and x_poison=<answers>, or "".
func (e *engEnv) poisonedRuns(c *EngCase, r interface{ Intn(int) int }) string {
	base, calls := e.runCheck(c, true)
	if calls > callBudget || len(c.Tuples) == 0 || !strings.HasSuffix(base, "/none") {
		return ""
	}
	p := e.persister()
	type idRow struct {
		ID string `db:"shard_id"`
	}
	var ids []idRow
	if err := p.Connection(e.ctx).RawQuery("SELECT shard_id FROM keto_relation_tuples WHERE nid = ? ORDER BY shard_id", p.NetworkID(e.ctx)).All(&ids); err != nil || len(ids) == 0 {
		return ""
	}
	var out []string
	n := len(ids)
	tries := 5
	if n < tries {
		tries = n
	}
	start := r.Intn(n)
	for k := 0; k < tries && !e.hung; k++ {
		id := ids[(start+k*(n/tries+1))%n].ID
		bad := "zz-" + id[3:]
		if err := p.Connection(e.ctx).RawQuery("UPDATE keto_relation_tuples SET shard_id = ? WHERE shard_id = ? AND nid = ?", bad, id, p.NetworkID(e.ctx)).Exec(); err != nil {
			continue
		}
		res, _ := e.runCheck(c, true)
		cres, _ := e.runCheck(c, false)
		// undo the damage; a goroutine left over from the concurrent run may still hold a read
		// cursor (SQLITE_LOCKED on the shared in-memory cache), so retry
		restored := false
		for try := 0; try < 200 && !restored; try++ {
			if err := p.Connection(e.ctx).RawQuery("UPDATE keto_relation_tuples SET shard_id = ? WHERE shard_id = ? AND nid = ?", id, bad, p.NetworkID(e.ctx)).Exec(); err == nil {
				restored = true
			} else {
				time.Sleep(5 * time.Millisecond)
			}
		}
		out = append(out, res, cres)
		if !restored {
			break
		}
	}
	// whatever happened, the case goes on only with an undamaged store in the recorded order
	var left []idRow
	if err := p.Connection(e.ctx).RawQuery("SELECT shard_id FROM keto_relation_tuples WHERE nid = ? AND shard_id LIKE 'zz-%'", p.NetworkID(e.ctx)).All(&left); err != nil || len(left) > 0 {
		return ""
	}
	if len(out) == 0 {
		return ""
	}
	return "\tx_base=" + base + "\tx_poison=" + strings.Join(out, ",")
}

// warmLookups asks the engine about one relation (and an undeclared one) of every namespace.
func (e *engEnv) warmLookups(nss []namespace.Namespace) {
	if e.eng == nil {
		var zero int64
		deps := &faultDeps{RegistryDefault: e.reg, calls: &zero}
		if e.other != nil {
			deps.baseMgr, deps.baseTrav = e.other, ksql.NewTraverser(e.other)
		}
		e.eng = check.NewEngine(deps)
	}
	var n int64
	ctx := context.WithValue(e.ctx, runStateKey{}, &runState{calls: &n})
	for i := range nss {
		rels := []string{"verif-undeclared"}
		for _, r := range nss[i].Relations {
			rels = append(rels, r.Name)
		}
		for _, rel := range rels {
			if e.hung {
				return
			}
			// under a watchdog like every other check: a check that never returns must not take the stream with it
			done := make(chan struct{})
			go func(ns, rel string) {
				defer close(done)
				defer func() { _ = recover() }()
				e.eng.CheckRelationTuple(ctx, &relationtuple.RelationTuple{Namespace: ns, Object: objUUID(0), Relation: rel,
					Subject: &relationtuple.SubjectID{ID: subUUID(0)}}, 2)
			}(nss[i].Name, rel)
			select {
			case <-done:
			case <-time.After(time.Duration(envInt("VERIF_CHECK_WATCHDOG_S", 60)) * time.Second):
				e.hung = true
				return
			}
		}
	}
}

// loadInPlace replaces the content of the environment's one watched OPL file and waits until the
// namespace manager serves it. false = not loaded this way (the caller falls back).
func (e *engEnv) loadInPlace(text string, strict bool, parsed []namespace.Namespace) (bool, error) {
	f := filepath.Join(e.tmpDir, "inplace.ts")
	tmp := filepath.Join(e.tmpDir, ".inplace.tmp")
	if err := os.WriteFile(tmp, []byte(text), 0o644); err != nil {
		return false, err
	}
	if err := os.Rename(tmp, f); err != nil {
		return false, err
	}
	if !e.inPlaceActive || e.inPlaceStrict != strict {
		if err := e.reg.Config(e.ctx).Set(config.KeyNamespaces, map[string]any{
			"location": "file://" + f, "experimental_strict_mode": strict}); err != nil {
			return false, err
		}
		e.inPlaceActive, e.inPlaceStrict = true, strict
	}
	want := map[string]string{}
	for i := range parsed {
		b, _ := json.Marshal(parsed[i].Relations)
		want[parsed[i].Name] = string(b)
	}
	deadline := time.Now().Add(3 * time.Second)
	for time.Now().Before(deadline) {
		nm, err := e.reg.Config(e.ctx).NamespaceManager()
		if err != nil {
			return false, err
		}
		nn, err := nm.Namespaces(e.ctx)
		if err == nil && len(nn) == len(want) {
			same := true
			for _, n := range nn {
				b, _ := json.Marshal(n.Relations)
				if w, ok := want[n.Name]; !ok || w != string(b) {
					same = false
				}
			}
			if same {
				return true, nil
			}
		}
		time.Sleep(3 * time.Millisecond)
	}
	e.inPlaceActive = false
	return false, nil
}

// storeIntact: no row of the network carries a damaged shard id.
func (e *engEnv) storeIntact() bool {
	p := e.persister()
	type idRow struct {
		ID string `db:"shard_id"`
	}
	var left []idRow
	for try := 0; try < 100; try++ {
		if err := p.Connection(e.ctx).RawQuery("SELECT shard_id FROM keto_relation_tuples WHERE nid = ? AND shard_id LIKE 'zz-%'", p.NetworkID(e.ctx)).All(&left); err == nil {
			return len(left) == 0
		}
		time.Sleep(5 * time.Millisecond)
	}
	return false
}

// runFresh runs the check on an engine of its own (a freshly started server), with the
// sequential checkgroup.
func (e *engEnv) runFresh(c *EngCase) string {
	shared := e.eng
	e.eng = nil
	defer func() { e.eng = shared }()
	res, _ := e.runCheck(c, true)
	return res
}

// runCheck runs one check with the sequential (det=true) or the real concurrent
// checkgroup and returns the canonical result and the number of storage calls.
func (e *engEnv) runCheck(c *EngCase, det bool) (res string, calls int64) {
	if err := e.setLimits(c); err != nil {
		return "setup-error:" + err.Error(), 0
	}
	old := checkgroup.DefaultFactory
	if det {
		checkgroup.DefaultFactory = newSeq
	} else {
		checkgroup.DefaultFactory = checkgroup.NewConcurrent
	}
	defer func() { checkgroup.DefaultFactory = old }()
	var n int64
	// ONE engine for the life of the environment, as in a server (the registry keeps its
	// permission engine): anything the engine remembers between checks is exercised
	if e.eng == nil {
		var zero int64
		deps := &faultDeps{RegistryDefault: e.reg, calls: &zero}
		if e.other != nil {
			deps.baseMgr, deps.baseTrav = e.other, ksql.NewTraverser(e.other)
		}
		e.eng = check.NewEngine(deps)
	}
	rs := &runState{calls: &n, failAt: int64(c.FaultAt), persistent: c.FaultPersis,
		kind: c.FaultKind, pageSize: c.PageSize, budget: e.budget}
	if e.stmtMode {
		stmtHookOnce.Do(func() { pop.SetTxLogger(stmtHook) })
		e.lastStmts, e.lastStmtCall = 0, 0
		rs.stmts, rs.stmtAt, rs.stmtCall = &e.lastStmts, e.stmtAt, &e.lastStmtCall
	}
	ctx := context.WithValue(e.ctx, runStateKey{}, rs)
	defer func() {
		if r := recover(); r != nil {
			res = fmt.Sprintf("panic:%v", r)
		}
	}()
	// watchdog: a check that does not return (an internal page loop that never advances, a
	// lost result) must not take the whole stream with it
	type outcome struct {
		res   string
		calls int64
	}
	done := make(chan outcome, 1)
	eng, q, rd := e.eng, c.Query.internal(), c.RDepth
	go func() {
		defer func() {
			if r := recover(); r != nil {
				done <- outcome{fmt.Sprintf("panic:%v", r), atomic.LoadInt64(&n)}
			}
		}()
		r := eng.CheckRelationTuple(ctx, q, rd)
		done <- outcome{membStr(r.Membership) + "/" + errKind(r.Err), atomic.LoadInt64(&n)}
	}()
	select {
	case oc := <-done:
		return oc.res, oc.calls
	case <-time.After(time.Duration(envInt("VERIF_CHECK_WATCHDOG_S", 60)) * time.Second):
		e.hung = true
		return "hang/none", atomic.LoadInt64(&n)
	}
}


// retryLocked retries an operation of the harness itself (never one of the code under test's
// observed operations) while sqlite reports the shared cache as locked.
func retryLocked(f func() error) error {
	var err error
	for try := 0; try < 400; try++ {
		if err = f(); err == nil {
			return nil
		}
		msg := err.Error()
		if !strings.Contains(msg, "serialize access") && !strings.Contains(msg, "locked") && !strings.Contains(msg, "busy") {
			return err
		}
		time.Sleep(5 * time.Millisecond)
	}
	return err
}
