package drive

// Stream `enc` (component `enc`, property C18): the relationship encodings of
// ketoapi. Every case is a protocol line
//
//	enc <id> <op> <tokens…>
//
// (grammar in /verif/lean/Driver/Enc.lean). Generated cases are rendered to tokens
// first and then run through the same token parser as corpus / replay lines.
// The REAL functions are run: (&ketoapi.RelationTuple{}).FromString / String,
// ToURLQuery().Encode() → url.ParseQuery → FromURLQuery, json.Marshal / Unmarshal,
// ToProto() → proto.Marshal / Unmarshal → FromDataProvider / FromProto, the query
// variants, SubjectSet.FromString / FromURLQuery and `keto relation-tuple parse`.

import (
	"bytes"
	"encoding/hex"
	"encoding/json"
	"errors"
	"fmt"
	"math/rand"
	"net/url"
	"sort"
	"strconv"
	"strings"
	"unicode/utf8"

	"google.golang.org/protobuf/proto"

	clirt "github.com/ory/keto/cmd/relationtuple"
	"github.com/ory/keto/ketoapi"
	rts "github.com/ory/keto/proto/ory/keto/relation_tuples/v1alpha2"
)

// ---------------------------------------------------------------- token reader

type encToks struct {
	t []string
	i int
}

var errEncTok = errors.New("malformed enc line")

func (p *encToks) next() (string, error) {
	if p.i >= len(p.t) {
		return "", errEncTok
	}
	s := p.t[p.i]
	p.i++
	return s, nil
}

func (p *encToks) str() (string, error) {
	t, err := p.next()
	if err != nil {
		return "", err
	}
	return unS(t)
}

func (p *encToks) opt() (*string, error) {
	if p.i < len(p.t) && p.t[p.i] == "-" {
		p.i++
		return nil, nil
	}
	s, err := p.str()
	if err != nil {
		return nil, err
	}
	return &s, nil
}

func (p *encToks) nat() (int, error) {
	t, err := p.next()
	if err != nil {
		return 0, err
	}
	n, err := strconv.Atoi(t)
	if err != nil || n < 0 {
		return 0, errEncTok
	}
	return n, nil
}

func (p *encToks) done() error {
	if p.i != len(p.t) {
		return errEncTok
	}
	return nil
}

func (p *encToks) sset() (*ketoapi.SubjectSet, error) {
	a, err := p.str()
	if err != nil {
		return nil, err
	}
	b, err := p.str()
	if err != nil {
		return nil, err
	}
	c, err := p.str()
	if err != nil {
		return nil, err
	}
	return &ketoapi.SubjectSet{Namespace: a, Object: b, Relation: c}, nil
}

func (p *encToks) subj() (*string, *ketoapi.SubjectSet, error) {
	k, err := p.next()
	if err != nil {
		return nil, nil, err
	}
	switch k {
	case "n":
		return nil, nil, nil
	case "i":
		s, err := p.str()
		return &s, nil, err
	case "s":
		ss, err := p.sset()
		return nil, ss, err
	case "b":
		s, err := p.str()
		if err != nil {
			return nil, nil, err
		}
		ss, err := p.sset()
		return &s, ss, err
	}
	return nil, nil, errEncTok
}

func (p *encToks) tuple() (*ketoapi.RelationTuple, error) {
	a, err := p.str()
	if err != nil {
		return nil, err
	}
	b, err := p.str()
	if err != nil {
		return nil, err
	}
	c, err := p.str()
	if err != nil {
		return nil, err
	}
	id, ss, err := p.subj()
	if err != nil {
		return nil, err
	}
	return &ketoapi.RelationTuple{Namespace: a, Object: b, Relation: c, SubjectID: id, SubjectSet: ss}, nil
}

func (p *encToks) query() (*ketoapi.RelationQuery, error) {
	a, err := p.opt()
	if err != nil {
		return nil, err
	}
	b, err := p.opt()
	if err != nil {
		return nil, err
	}
	c, err := p.opt()
	if err != nil {
		return nil, err
	}
	id, ss, err := p.subj()
	if err != nil {
		return nil, err
	}
	return &ketoapi.RelationQuery{Namespace: a, Object: b, Relation: c, SubjectID: id, SubjectSet: ss}, nil
}

type kv struct{ k, v string }

func (p *encToks) values() ([]kv, error) {
	n, err := p.nat()
	if err != nil {
		return nil, err
	}
	out := make([]kv, 0, n)
	for i := 0; i < n; i++ {
		k, err := p.str()
		if err != nil {
			return nil, err
		}
		v, err := p.str()
		if err != nil {
			return nil, err
		}
		out = append(out, kv{k, v})
	}
	return out, nil
}

func (p *encToks) psubj() (*rts.Subject, error) {
	k, err := p.next()
	if err != nil {
		return nil, err
	}
	switch k {
	case "n":
		return nil, nil
	case "e":
		return &rts.Subject{}, nil
	case "i":
		s, err := p.str()
		return &rts.Subject{Ref: &rts.Subject_Id{Id: s}}, err
	case "s":
		ss, err := p.sset()
		if err != nil {
			return nil, err
		}
		return &rts.Subject{Ref: &rts.Subject_Set{Set: &rts.SubjectSet{Namespace: ss.Namespace, Object: ss.Object, Relation: ss.Relation}}}, nil
	case "z":
		return &rts.Subject{Ref: &rts.Subject_Set{Set: nil}}, nil
	}
	return nil, errEncTok
}

// jsonText reads a jobj and renders it as JSON text (duplicate keys kept in order).
func (p *encToks) jsonText() (string, error) {
	n, err := p.nat()
	if err != nil {
		return "", err
	}
	var sb strings.Builder
	sb.WriteByte('{')
	for i := 0; i < n; i++ {
		if i > 0 {
			sb.WriteByte(',')
		}
		k, err := p.str()
		if err != nil {
			return "", err
		}
		sb.WriteString(jsonStr(k))
		sb.WriteByte(':')
		kind, err := p.next()
		if err != nil {
			return "", err
		}
		switch kind {
		case "s":
			s, err := p.str()
			if err != nil {
				return "", err
			}
			sb.WriteString(jsonStr(s))
		case "z":
			sb.WriteString("null")
		case "x":
			sb.WriteString([]string{"1", "true", "[]", `["a"]`, "-0.5e3"}[(len(k)+i)%5])
		case "o":
			m, err := p.nat()
			if err != nil {
				return "", err
			}
			sb.WriteByte('{')
			for j := 0; j < m; j++ {
				if j > 0 {
					sb.WriteByte(',')
				}
				k2, err := p.str()
				if err != nil {
					return "", err
				}
				sb.WriteString(jsonStr(k2))
				sb.WriteByte(':')
				kind2, err := p.next()
				if err != nil {
					return "", err
				}
				switch kind2 {
				case "s":
					s, err := p.str()
					if err != nil {
						return "", err
					}
					sb.WriteString(jsonStr(s))
				case "z":
					sb.WriteString("null")
				case "x":
					sb.WriteString([]string{"0", "false", "{}", "[null]"}[(len(k2)+j)%4])
				default:
					return "", errEncTok
				}
			}
			sb.WriteByte('}')
		default:
			return "", errEncTok
		}
	}
	sb.WriteByte('}')
	return sb.String(), nil
}

func jsonStr(s string) string {
	b, _ := json.Marshal(s)
	return string(b)
}

// ---------------------------------------------------------------- canonical output

func csvSet(s *ketoapi.SubjectSet) string {
	return S(s.Namespace) + "," + S(s.Object) + "," + S(s.Relation)
}

func csvSubj(id *string, ss *ketoapi.SubjectSet) string {
	switch {
	case id == nil && ss == nil:
		return "n"
	case id != nil && ss == nil:
		return "i," + S(*id)
	case id == nil:
		return "s," + csvSet(ss)
	}
	return "b," + S(*id) + "," + csvSet(ss)
}

func csvTuple(t *ketoapi.RelationTuple) string {
	return S(t.Namespace) + "," + S(t.Object) + "," + S(t.Relation) + "," + csvSubj(t.SubjectID, t.SubjectSet)
}

func sopt(s *string) string {
	if s == nil {
		return "-"
	}
	return S(*s)
}

func csvQuery(q *ketoapi.RelationQuery) string {
	return sopt(q.Namespace) + "," + sopt(q.Object) + "," + sopt(q.Relation) + "," + csvSubj(q.SubjectID, q.SubjectSet)
}

func csvValues(v url.Values) string {
	keys := make([]string, 0, len(v))
	for k := range v {
		keys = append(keys, k)
	}
	sort.Strings(keys)
	var parts []string
	for _, k := range keys {
		for _, x := range v[k] {
			parts = append(parts, S(k)+":"+S(x))
		}
	}
	return strings.Join(parts, ",")
}

// encErrKind maps an error of the real code to the model's enum by comparing it
// with the exported error values (never by message text across the boundary).
func encErrKind(err error) string {
	var ute *json.UnmarshalTypeError
	if errors.As(err, &ute) {
		return "type-mismatch"
	}
	var dbg interface{ Debug() string }
	msg := err.Error()
	if errors.As(err, &dbg) {
		if msg == ketoapi.ErrDroppedSubjectKey.Error() && dbg.Debug() == ketoapi.ErrDroppedSubjectKey.Debug() {
			return "dropped-subject-key"
		}
	}
	switch msg {
	case ketoapi.ErrMalformedInput.Error():
		return "malformed"
	case ketoapi.ErrDuplicateSubject.Error():
		return "duplicate-subject"
	case ketoapi.ErrIncompleteSubject.Error():
		return "incomplete-subject"
	case ketoapi.ErrNilSubject.Error():
		return "nil-subject"
	case ketoapi.ErrIncompleteTuple.Error():
		return "incomplete-tuple"
	}
	return fmt.Sprintf("other-%T", err)
}

// guard runs f and turns a panic into the error kind `panic`.
func guard[T any](f func() (T, error)) (val T, err error) {
	defer func() {
		if r := recover(); r != nil {
			err = panicErr{}
		}
	}()
	return f()
}

type panicErr struct{}

func (panicErr) Error() string { return "panic" }

func kindOf(err error) string {
	if _, ok := err.(panicErr); ok {
		return "panic"
	}
	return encErrKind(err)
}

func resKV2[T any](k, v string, f func(T) string, val T, err error) string {
	if err != nil {
		return k + "=err:" + kindOf(err) + "\t" + v + "=-"
	}
	return k + "=ok\t" + v + "=" + f(val)
}

// queryWrapper is the adapter of internal/relationtuple/read_server.go (unexported
// there): the optional proto fields as they are.
type encQueryWrapper struct{ *rts.RelationQuery }

func (q *encQueryWrapper) GetObject() *string    { return q.Object }
func (q *encQueryWrapper) GetNamespace() *string { return q.Namespace }
func (q *encQueryWrapper) GetRelation() *string  { return q.Relation }

// ---------------------------------------------------------------- domain predicates (statistics only)

func isParenB(b byte) bool { return b == '(' || b == ')' }
func startsParen(s string) bool {
	return len(s) > 0 && isParenB(s[0])
}
func endsParen(s string) bool {
	return len(s) > 0 && isParenB(s[len(s)-1])
}

func goDomString(t *ketoapi.RelationTuple) bool {
	if strings.Contains(t.Namespace, ":") || strings.Contains(t.Object, "#") || strings.Contains(t.Relation, "@") {
		return false
	}
	switch {
	case t.SubjectID != nil && t.SubjectSet == nil:
		s := *t.SubjectID
		return !strings.Contains(s, ":") && !startsParen(s) && !endsParen(s)
	case t.SubjectID == nil && t.SubjectSet != nil:
		ss := t.SubjectSet
		if strings.ContainsAny(ss.Namespace, ":#") || startsParen(ss.Namespace) || strings.Contains(ss.Object, "#") {
			return false
		}
		if ss.Relation == "" {
			return !endsParen(ss.Object)
		}
		return !endsParen(ss.Relation)
	}
	return false
}

func goTrimClass(t *ketoapi.RelationTuple) bool {
	return t.SubjectSet != nil && t.SubjectSet.Relation == "" && endsParen(t.SubjectSet.Object)
}

// ---------------------------------------------------------------- running one case on the real code

// cliParse runs `keto relation-tuple parse - --format json` on one row.
func cliParse(row string) (*ketoapi.RelationTuple, error) {
	cmd := clirt.NewParseCmd()
	var out, errb bytes.Buffer
	cmd.SetIn(strings.NewReader(row))
	cmd.SetOut(&out)
	cmd.SetErr(&errb)
	cmd.SetArgs([]string{"-", "--format", "json"})
	cmd.SilenceUsage, cmd.SilenceErrors = true, true
	if err := cmd.Execute(); err != nil {
		return nil, err
	}
	var t ketoapi.RelationTuple
	if err := json.Unmarshal(out.Bytes(), &t); err != nil {
		return nil, fmt.Errorf("cli output: %w", err)
	}
	return &t, nil
}

// cliParseFile runs the command on a file of several rows: the given row, a row whose object is
// longer than any line buffer a reader might use (70 000 bytes), the given row again. All three
// must come out, in order.
func cliParseFile(row string) (ok bool) {
	long := "n:" + strings.Repeat("x", 70000) + "#r@s"
	cmd := clirt.NewParseCmd()
	var out, errb bytes.Buffer
	cmd.SetIn(strings.NewReader(row + "\n" + long + "\n" + row + "\n"))
	cmd.SetOut(&out)
	cmd.SetErr(&errb)
	cmd.SetArgs([]string{"-", "--format", "json"})
	cmd.SilenceUsage, cmd.SilenceErrors = true, true
	if err := cmd.Execute(); err != nil {
		return false
	}
	var ts []ketoapi.RelationTuple
	if err := json.Unmarshal(out.Bytes(), &ts); err != nil || len(ts) != 3 {
		return false
	}
	want, err := (&ketoapi.RelationTuple{}).FromString(row)
	if err != nil {
		return false
	}
	return csvTuple(&ts[0]) == csvTuple(want) && csvTuple(&ts[2]) == csvTuple(want) && len(ts[1].Object) == 70000
}

var cliFileEvery int

// cliEligible: the row survives the command's own line handling unchanged (one line,
// no surrounding white space, not blank, not a comment).
func cliEligible(s string) bool {
	return s != "" && !strings.Contains(s, "\n") && strings.TrimSpace(s) == s && !strings.HasPrefix(s, "//") && utf8.ValidString(s)
}

// runEncCase runs one protocol case; stat is a short label for the distribution.
func runEncCase(op string, toks []string) (impl string, stat []string, nontrivial bool, err error) {
	p := &encToks{t: toks}
	add := func(s string) { stat = append(stat, s) }
	switch op {
	case "str-parse":
		s, e := p.str()
		if e != nil {
			return "", nil, false, e
		}
		if e := p.done(); e != nil {
			return "", nil, false, e
		}
		for _, c := range []string{":", "#", "@", "(", ")"} {
			if strings.Contains(s, c) {
				add("str-parse:has" + c)
			}
		}
		t, perr := (&ketoapi.RelationTuple{}).FromString(s)
		impl = resKV2("res", "val", csvTuple, t, perr)
		if cliEligible(s) {
			ct, cerr := cliParse(s)
			switch {
			case (cerr == nil) != (perr == nil):
				impl += "\tcli=differs"
			case cerr == nil && csvTuple(ct) != csvTuple(t):
				impl += "\tcli=differs"
			default:
				cliFileEvery++
				if cerr == nil && cliFileEvery%40 == 0 && !cliParseFile(s) {
					impl += "\tcli=differs"
					add("str-parse:cli-file-differs")
				} else {
					impl += "\tcli=same"
				}
			}
			add("str-parse:cli")
		}
		if perr != nil {
			add("str-parse:err")
			return impl, stat, true, nil
		}
		printed := t.String()
		t2, perr2 := (&ketoapi.RelationTuple{}).FromString(printed)
		impl += "\tstr=" + S(printed) + "\t" + resKV2("res2", "val2", csvTuple, t2, perr2)
		add("str-parse:ok")
		switch {
		case goDomString(t):
			add("str-parse:ok:dom")
		case goTrimClass(t):
			add("str-parse:ok:trimclass")
		default:
			add("str-parse:ok:outside-dom-and-trimclass")
		}
		if t.SubjectSet != nil {
			add("str-parse:ok:subject-set")
		} else {
			add("str-parse:ok:subject-id")
		}
		return impl, stat, true, nil

	case "tuple-string":
		t, e := p.tuple()
		if e != nil {
			return "", nil, false, e
		}
		if e := p.done(); e != nil {
			return "", nil, false, e
		}
		printed := t.String()
		t2, perr := (&ketoapi.RelationTuple{}).FromString(printed)
		impl = "str=" + S(printed) + "\t" + resKV2("res", "val", csvTuple, t2, perr)
		if goDomString(t) {
			add("tuple-string:dom")
		} else {
			add("tuple-string:not-dom")
		}
		if goTrimClass(t) {
			add("tuple-string:trimclass")
		}
		if perr != nil {
			add("tuple-string:err")
		}
		return impl, stat, true, nil

	case "sset-parse":
		s, e := p.str()
		if e != nil {
			return "", nil, false, e
		}
		if e := p.done(); e != nil {
			return "", nil, false, e
		}
		ss, perr := (&ketoapi.SubjectSet{}).FromString(s)
		impl = resKV2("res", "val", csvSet, ss, perr)
		if perr == nil {
			impl += "\tstr=" + S(ss.String())
		}
		return impl, stat, true, nil

	case "url-tuple":
		t, e := p.tuple()
		if e != nil {
			return "", nil, false, e
		}
		if e := p.done(); e != nil {
			return "", nil, false, e
		}
		v := t.ToURLQuery()
		wire := v.Encode()
		pv, perr := url.ParseQuery(wire)
		if perr != nil {
			return "enc=" + csvValues(v) + "\tres=err:parse-query\tval=-", stat, true, nil
		}
		got, derr := (&ketoapi.RelationTuple{}).FromURLQuery(pv)
		dgot, dderr := (&ketoapi.RelationTuple{}).FromURLQuery(v)
		impl = "enc=" + csvValues(v) + "\t" + resKV2("res", "val", csvTuple, got, derr) + "\t" + resKV2("dres", "dval", csvTuple, dgot, dderr)
		return impl, stat, true, nil

	case "url-query":
		q, e := p.query()
		if e != nil {
			return "", nil, false, e
		}
		if e := p.done(); e != nil {
			return "", nil, false, e
		}
		v := q.ToURLQuery()
		wire := v.Encode()
		pv, perr := url.ParseQuery(wire)
		if perr != nil {
			return "enc=" + csvValues(v) + "\tres=err:parse-query\tval=-", stat, true, nil
		}
		got, derr := (&ketoapi.RelationQuery{}).FromURLQuery(pv)
		dgot, dderr := (&ketoapi.RelationQuery{}).FromURLQuery(v)
		impl = "enc=" + csvValues(v) + "\t" + resKV2("res", "val", csvQuery, got, derr) + "\t" + resKV2("dres", "dval", csvQuery, dgot, dderr)
		return impl, stat, true, nil

	case "proto-tuple":
		t, e := p.tuple()
		if e != nil {
			return "", nil, false, e
		}
		if e := p.done(); e != nil {
			return "", nil, false, e
		}
		pt, perr := guard(func() (*rts.RelationTuple, error) { return t.ToProto(), nil })
		if perr != nil {
			return "pres=err:" + kindOf(perr), stat, true, nil
		}
		wire, merr := proto.Marshal(pt)
		if merr != nil {
			return "pres=ok\tres=err:marshal\tval=-", stat, true, nil
		}
		var back rts.RelationTuple
		if uerr := proto.Unmarshal(wire, &back); uerr != nil {
			return "pres=ok\tres=err:unmarshal\tval=-", stat, true, nil
		}
		got, derr := guard(func() (*ketoapi.RelationTuple, error) { return (&ketoapi.RelationTuple{}).FromDataProvider(&back) })
		dgot, dderr := guard(func() (*ketoapi.RelationTuple, error) { return (&ketoapi.RelationTuple{}).FromDataProvider(pt) })
		fgot, fderr := guard(func() (*ketoapi.RelationTuple, error) { return (&ketoapi.RelationTuple{}).FromProto(&back), nil })
		impl = "pres=ok\t" + resKV2("res", "val", csvTuple, got, derr) + "\t" + resKV2("dres", "dval", csvTuple, dgot, dderr) +
			"\t" + resKV2("fres", "fval", csvTuple, fgot, fderr)
		return impl, stat, true, nil

	case "proto-query":
		q, e := p.query()
		if e != nil {
			return "", nil, false, e
		}
		if e := p.done(); e != nil {
			return "", nil, false, e
		}
		pq := q.ToProto()
		wire, merr := proto.Marshal(pq)
		if merr != nil {
			return "res=err:marshal\tval=-", stat, true, nil
		}
		var back rts.RelationQuery
		if uerr := proto.Unmarshal(wire, &back); uerr != nil {
			return "res=err:unmarshal\tval=-", stat, true, nil
		}
		got, derr := guard(func() (*ketoapi.RelationQuery, error) {
			return (&ketoapi.RelationQuery{}).FromDataProvider(&encQueryWrapper{&back}), nil
		})
		dgot, dderr := guard(func() (*ketoapi.RelationQuery, error) {
			return (&ketoapi.RelationQuery{}).FromDataProvider(&encQueryWrapper{pq}), nil
		})
		impl = resKV2("res", "val", csvQuery, got, derr) + "\t" + resKV2("dres", "dval", csvQuery, dgot, dderr)
		return impl, stat, true, nil

	case "json-tuple":
		t, e := p.tuple()
		if e != nil {
			return "", nil, false, e
		}
		if e := p.done(); e != nil {
			return "", nil, false, e
		}
		wire, merr := json.Marshal(t)
		if merr != nil {
			return "res=err:marshal\tval=-", stat, true, nil
		}
		var back ketoapi.RelationTuple
		uerr := json.Unmarshal(wire, &back)
		return resKV2("res", "val", csvTuple, &back, uerr), stat, true, nil

	case "json-query":
		q, e := p.query()
		if e != nil {
			return "", nil, false, e
		}
		if e := p.done(); e != nil {
			return "", nil, false, e
		}
		wire, merr := json.Marshal(q)
		if merr != nil {
			return "res=err:marshal\tval=-", stat, true, nil
		}
		var back ketoapi.RelationQuery
		uerr := json.Unmarshal(wire, &back)
		return resKV2("res", "val", csvQuery, &back, uerr), stat, true, nil

	case "url-dec-tuple", "url-dec-query", "url-dec-sset":
		kvs, e := p.values()
		if e != nil {
			return "", nil, false, e
		}
		if e := p.done(); e != nil {
			return "", nil, false, e
		}
		v := url.Values{}
		for _, x := range kvs {
			v.Add(x.k, x.v)
		}
		// through the wire as well: the decoder must see the same thing
		pv, perr := url.ParseQuery(v.Encode())
		if perr != nil {
			return "res=err:parse-query\tval=-", stat, true, nil
		}
		switch op {
		case "url-dec-tuple":
			got, derr := (&ketoapi.RelationTuple{}).FromURLQuery(pv)
			impl = resKV2("res", "val", csvTuple, got, derr)
			if derr != nil {
				add("url-dec-tuple:" + kindOf(derr))
			} else {
				add("url-dec-tuple:ok")
			}
		case "url-dec-query":
			got, derr := (&ketoapi.RelationQuery{}).FromURLQuery(pv)
			impl = resKV2("res", "val", csvQuery, got, derr)
			if derr != nil {
				add("url-dec-query:" + kindOf(derr))
			} else {
				add("url-dec-query:ok")
			}
		default:
			impl = "res=ok\tval=" + csvSet((&ketoapi.SubjectSet{}).FromURLQuery(pv))
		}
		return impl, stat, true, nil

	case "proto-dec-tuple":
		a, e := p.str()
		if e != nil {
			return "", nil, false, e
		}
		b, e := p.str()
		if e != nil {
			return "", nil, false, e
		}
		c, e := p.str()
		if e != nil {
			return "", nil, false, e
		}
		sub, e := p.psubj()
		if e != nil {
			return "", nil, false, e
		}
		if e := p.done(); e != nil {
			return "", nil, false, e
		}
		pt := &rts.RelationTuple{Namespace: a, Object: b, Relation: c, Subject: sub}
		got, derr := guard(func() (*ketoapi.RelationTuple, error) { return (&ketoapi.RelationTuple{}).FromDataProvider(pt) })
		fgot, fderr := guard(func() (*ketoapi.RelationTuple, error) { return (&ketoapi.RelationTuple{}).FromProto(pt), nil })
		impl = resKV2("res", "val", csvTuple, got, derr) + "\t" + resKV2("fres", "fval", csvTuple, fgot, fderr)
		if derr != nil {
			add("proto-dec-tuple:" + kindOf(derr))
		}
		return impl, stat, true, nil

	case "proto-dec-query":
		a, e := p.opt()
		if e != nil {
			return "", nil, false, e
		}
		b, e := p.opt()
		if e != nil {
			return "", nil, false, e
		}
		c, e := p.opt()
		if e != nil {
			return "", nil, false, e
		}
		sub, e := p.psubj()
		if e != nil {
			return "", nil, false, e
		}
		if e := p.done(); e != nil {
			return "", nil, false, e
		}
		pq := &rts.RelationQuery{Namespace: a, Object: b, Relation: c, Subject: sub}
		got, derr := guard(func() (*ketoapi.RelationQuery, error) {
			return (&ketoapi.RelationQuery{}).FromDataProvider(&encQueryWrapper{pq}), nil
		})
		return resKV2("res", "val", csvQuery, got, derr), stat, true, nil

	case "json-dec-tuple", "json-dec-query":
		text, e := p.jsonText()
		if e != nil {
			return "", nil, false, e
		}
		if e := p.done(); e != nil {
			return "", nil, false, e
		}
		if op == "json-dec-tuple" {
			var back ketoapi.RelationTuple
			uerr := json.Unmarshal([]byte(text), &back)
			if uerr != nil {
				add("json-dec-tuple:" + kindOf(uerr))
			}
			return resKV2("res", "val", csvTuple, &back, uerr), stat, true, nil
		}
		var back ketoapi.RelationQuery
		uerr := json.Unmarshal([]byte(text), &back)
		if uerr != nil {
			add("json-dec-query:" + kindOf(uerr))
		}
		return resKV2("res", "val", csvQuery, &back, uerr), stat, true, nil

	case "utf8":
		t, e := p.next()
		if e != nil {
			return "", nil, false, e
		}
		if e := p.done(); e != nil {
			return "", nil, false, e
		}
		if !strings.HasPrefix(t, "s") {
			return "", nil, false, errEncTok
		}
		raw, e := hex.DecodeString(t[1:])
		if e != nil {
			return "", nil, false, e
		}
		s := string(raw)
		valid := utf8.ValidString(s)
		impl = "valid=" + map[bool]string{true: "1", false: "0"}[valid]
		// outside the model's domain (byte strings that are not UTF-8): record what the
		// real codecs do with such a field (x_ keys are not compared)
		id := s
		tu := &ketoapi.RelationTuple{Namespace: "n", Object: s, Relation: "r", SubjectID: &id}
		jb, _ := json.Marshal(tu)
		var jt ketoapi.RelationTuple
		jerr := json.Unmarshal(jb, &jt)
		impl += "\tx_json_rt=" + b01(jerr == nil && csvTuple(&jt) == csvTuple(tu))
		pv, perr := url.ParseQuery(tu.ToURLQuery().Encode())
		var ut *ketoapi.RelationTuple
		if perr == nil {
			ut, perr = (&ketoapi.RelationTuple{}).FromURLQuery(pv)
		}
		impl += "\tx_url_rt=" + b01(perr == nil && csvTuple(ut) == csvTuple(tu))
		_, merr := proto.Marshal(tu.ToProto())
		impl += "\tx_proto_marshal=" + b01(merr == nil)
		if valid {
			add("utf8:valid")
		} else {
			add("utf8:invalid")
			if !(jerr == nil && csvTuple(&jt) == csvTuple(tu)) {
				add("utf8:invalid:json-lossy")
			}
			if merr != nil {
				add("utf8:invalid:proto-rejects")
			}
		}
		return impl, stat, valid, nil
	}
	return "", nil, false, fmt.Errorf("unknown enc op %q", op)
}

func b01(b bool) string {
	if b {
		return "1"
	}
	return "0"
}

// ---------------------------------------------------------------- generators

var encHot = []rune{':', '#', '@', '(', ')'}
var encOdd = []rune{' ', '%', '&', '=', '+', ';', '/', '?', '"', '\\', '<', '>', '\'', ',', '.', '-', '_', '|', '{', '}', '[', ']',
	'\t', '\n', '\r', 0, 0x7f, 0xe9, 0xdf, 0x4e16, 0x754c, 0x1f600, 0x2028, 0xa0, 0x301, 0xfeff, 0xfffd, 0x3a9, 0xff1a, 0xff08}
var encPlain = []rune("abnorsxyzABZ019")

func genRune(r *rand.Rand, avoid string) rune {
	for {
		var c rune
		switch x := r.Intn(100); {
		case x < 40:
			c = pick(r, encHot)
		case x < 65:
			c = pick(r, encOdd)
		default:
			c = pick(r, encPlain)
		}
		if !strings.ContainsRune(avoid, c) {
			return c
		}
	}
}

func genLen(r *rand.Rand) int {
	switch x := r.Intn(100); {
	case x < 18:
		return 0
	case x < 55:
		return 1 + r.Intn(3)
	case x < 92:
		return 4 + r.Intn(6)
	case x < 98:
		return 10 + r.Intn(40)
	default:
		return 200 + r.Intn(800)
	}
}

// genStr: a string over the weighted alphabet that avoids the runes in avoid.
func genStr(r *rand.Rand, avoid string) string {
	n := genLen(r)
	var sb strings.Builder
	for i := 0; i < n; i++ {
		sb.WriteRune(genRune(r, avoid))
	}
	return sb.String()
}

// noParenEnds strips leading / trailing parentheses with probability p.
func maybeTrim(r *rand.Rand, s string, p int, left, right bool) string {
	if r.Intn(100) >= p {
		return s
	}
	if left {
		s = strings.TrimLeft(s, "()")
	}
	if right {
		s = strings.TrimRight(s, "()")
	}
	return s
}

// genTupleVals generates a tuple; `aware` per field (about half of the time) keeps the
// field inside the domain of the string form, so that a good share of the tuples lies in
// DomString while single conditions are violated often.
func genTupleVals(r *rand.Rand) *ketoapi.RelationTuple {
	aw := func(avoid string) string {
		s := ""
		if r.Intn(100) < 62 {
			s = genStr(r, avoid)
		} else {
			s = genStr(r, "")
		}
		if r.Intn(14) == 0 {
			// two slashes in a row (URLs, paths): a comment marker only at the start of a row
			k := 0
			if len(s) > 0 {
				k = r.Intn(len(s) + 1)
				for k < len(s) && !utf8.RuneStart(s[k]) {
					k++
				}
			}
			s = s[:k] + "//" + s[k:]
		}
		return s
	}
	t := &ketoapi.RelationTuple{Namespace: aw(":"), Object: aw("#"), Relation: aw("@")}
	id := maybeTrim(r, aw(":"), 70, true, true)
	ss := &ketoapi.SubjectSet{
		Namespace: maybeTrim(r, aw(":#"), 70, true, false),
		Object:    aw("#"),
		Relation:  aw(""),
	}
	if r.Intn(100) < 35 {
		ss.Relation = ""
	}
	if ss.Relation == "" {
		ss.Object = maybeTrim(r, ss.Object, 60, false, true)
	} else {
		ss.Relation = maybeTrim(r, ss.Relation, 70, false, true)
		if ss.Relation == "" {
			ss.Object = maybeTrim(r, ss.Object, 60, false, true)
		}
	}
	switch x := r.Intn(100); {
	case x < 44:
		t.SubjectID = &id
	case x < 90:
		t.SubjectSet = ss
	case x < 95:
		// no subject
	default:
		t.SubjectID, t.SubjectSet = &id, ss
	}
	return t
}

func tupleToks(t *ketoapi.RelationTuple) string {
	return S(t.Namespace) + " " + S(t.Object) + " " + S(t.Relation) + " " + subjToks(t.SubjectID, t.SubjectSet)
}

func subjToks(id *string, ss *ketoapi.SubjectSet) string {
	switch {
	case id == nil && ss == nil:
		return "n"
	case id != nil && ss == nil:
		return "i " + S(*id)
	case id == nil:
		return "s " + S(ss.Namespace) + " " + S(ss.Object) + " " + S(ss.Relation)
	}
	return "b " + S(*id) + " " + S(ss.Namespace) + " " + S(ss.Object) + " " + S(ss.Relation)
}

func genQueryToks(r *rand.Rand) string {
	t := genTupleVals(r)
	opt := func(s string) string {
		if r.Intn(100) < 35 {
			return "-"
		}
		return S(s)
	}
	id, ss := t.SubjectID, t.SubjectSet
	if r.Intn(100) < 30 {
		id, ss = nil, nil
	}
	return opt(t.Namespace) + " " + opt(t.Object) + " " + opt(t.Relation) + " " + subjToks(id, ss)
}

// genParseInput: strings for FromString — printed tuples, mutated printed tuples,
// hand-assembled shapes around the separators, and raw noise.
func genParseInput(r *rand.Rand) string {
	switch x := r.Intn(100); {
	case x < 30:
		return genTupleVals(r).String()
	case x < 60:
		s := []rune(genTupleVals(r).String())
		for k := r.Intn(3) + 1; k > 0; k-- {
			switch r.Intn(5) {
			case 0: // insert
				i := r.Intn(len(s) + 1)
				s = append(s[:i], append([]rune{genRune(r, "")}, s[i:]...)...)
			case 1: // delete
				if len(s) > 0 {
					i := r.Intn(len(s))
					s = append(s[:i], s[i+1:]...)
				}
			case 2: // append hot
				s = append(s, pick(r, encHot))
			case 3: // wrap the subject in parentheses
				str := string(s)
				if i := strings.Index(str, "@"); i >= 0 {
					str = str[:i+1] + strings.Repeat("(", r.Intn(3)) + str[i+1:] + strings.Repeat(")", r.Intn(3))
				}
				s = []rune(str)
			default: // replace
				if len(s) > 0 {
					s[r.Intn(len(s))] = genRune(r, "")
				}
			}
		}
		return string(s)
	case x < 85:
		// ns:obj#rel@[(]*sns:sobj[)]*[#srel][)]*
		small := func() string {
			n := r.Intn(3)
			var sb strings.Builder
			for i := 0; i < n; i++ {
				sb.WriteRune(genRune(r, ""))
			}
			return sb.String()
		}
		par := func(c string) string { return strings.Repeat(c, []int{0, 0, 1, 1, 2}[r.Intn(5)]) }
		s := small() + ":" + small() + "#" + small() + "@" + par("(") + small()
		if r.Intn(100) < 75 {
			s += ":" + small() + par(")")
			if r.Intn(100) < 60 {
				s += "#" + small()
			}
		}
		return s + par(")")
	default:
		return genStr(r, "")
	}
}

var encURLKeys = []string{ketoapi.NamespaceKey, ketoapi.ObjectKey, ketoapi.RelationKey, ketoapi.SubjectIDKey,
	ketoapi.SubjectSetNamespaceKey, ketoapi.SubjectSetObjectKey, ketoapi.SubjectSetRelationKey}

func genValuesToks(r *rand.Rand) string {
	var kvs []string
	add := func(k string) { kvs = append(kvs, S(k)+" "+S(genStr(r, ""))) }
	// start from a plausible shape, then disturb it
	for _, k := range []string{ketoapi.NamespaceKey, ketoapi.ObjectKey, ketoapi.RelationKey} {
		if r.Intn(100) < 80 {
			add(k)
		}
	}
	switch r.Intn(5) {
	case 0:
		add(ketoapi.SubjectIDKey)
	case 1, 2:
		for _, k := range []string{ketoapi.SubjectSetNamespaceKey, ketoapi.SubjectSetObjectKey, ketoapi.SubjectSetRelationKey} {
			if r.Intn(100) < 85 {
				add(k)
			}
		}
	case 3:
		add(ketoapi.SubjectIDKey)
		add(pick(r, encURLKeys[4:]))
	}
	for r.Intn(100) < 30 {
		switch r.Intn(4) {
		case 0:
			add("subject")
		case 1:
			add(pick(r, []string{"foo", "", "Namespace", "subject_set", "subject_set.", "page_size"}))
		default:
			add(pick(r, encURLKeys))
		}
	}
	r.Shuffle(len(kvs), func(i, j int) { kvs[i], kvs[j] = kvs[j], kvs[i] })
	return strings.TrimSpace(fmt.Sprintf("%d %s", len(kvs), strings.Join(kvs, " ")))
}

func genPSubjToks(r *rand.Rand) string {
	switch x := r.Intn(100); {
	case x < 12:
		return "n"
	case x < 24:
		return "e"
	case x < 55:
		return "i " + S(genStr(r, ""))
	case x < 90:
		return "s " + S(genStr(r, "")) + " " + S(genStr(r, "")) + " " + S(genStr(r, ""))
	default:
		return "z"
	}
}

func genJSONToks(r *rand.Rand) string {
	keys := []string{"namespace", "object", "relation", "subject_id", "subject_set"}
	junk := []string{"foo", "", "subject", "subject_set.namespace", "id", "namespace "}
	leaf := func() string {
		switch x := r.Intn(100); {
		case x < 70:
			return "s " + S(genStr(r, ""))
		case x < 88:
			return "z"
		default:
			return "x"
		}
	}
	var fields []string
	n := r.Intn(8)
	for i := 0; i < n; i++ {
		var k string
		if r.Intn(100) < 85 {
			k = pick(r, keys)
		} else {
			k = pick(r, junk)
		}
		var v string
		if (k == "subject_set" && r.Intn(100) < 80) || r.Intn(100) < 6 {
			m := r.Intn(5)
			var sub []string
			for j := 0; j < m; j++ {
				k2 := pick(r, []string{"namespace", "object", "relation", "relation", "foo", "subject_id"})
				sub = append(sub, S(k2)+" "+leaf())
			}
			v = strings.TrimSpace(fmt.Sprintf("o %d %s", m, strings.Join(sub, " ")))
		} else {
			v = leaf()
		}
		fields = append(fields, S(k)+" "+v)
	}
	return strings.TrimSpace(fmt.Sprintf("%d %s", n, strings.Join(fields, " ")))
}

func genBytesTok(r *rand.Rand) string {
	n := r.Intn(8)
	b := make([]byte, n)
	for i := range b {
		switch r.Intn(4) {
		case 0:
			b[i] = byte(r.Intn(256))
		case 1:
			b[i] = []byte{0xc3, 0xa9, 0xe4, 0xb8, 0x96, 0xf0, 0x9f, 0x98, 0x80, 0xed, 0xa0, 0x80, 0xc0, 0xaf, 0xf4, 0x90}[r.Intn(16)]
		default:
			b[i] = byte('a' + r.Intn(26))
		}
	}
	return "s" + hex.EncodeToString(b)
}

// genEncCase returns (op, payload tokens).
func genEncCase(r *rand.Rand) (string, string) {
	switch x := r.Intn(100); {
	case x < 30:
		return "str-parse", S(genParseInput(r))
	case x < 45:
		return "tuple-string", tupleToks(genTupleVals(r))
	case x < 48:
		s := genParseInput(r)
		if i := strings.Index(s, "@"); i >= 0 && r.Intn(100) < 80 {
			s = s[i+1:]
		}
		return "sset-parse", S(s)
	case x < 54:
		return "url-tuple", tupleToks(genTupleVals(r))
	case x < 60:
		return "url-query", genQueryToks(r)
	case x < 66:
		return "proto-tuple", tupleToks(genTupleVals(r))
	case x < 72:
		return "proto-query", genQueryToks(r)
	case x < 78:
		return "json-tuple", tupleToks(genTupleVals(r))
	case x < 84:
		return "json-query", genQueryToks(r)
	case x < 88:
		return "url-dec-tuple", genValuesToks(r)
	case x < 91:
		return "url-dec-query", genValuesToks(r)
	case x < 92:
		return "url-dec-sset", genValuesToks(r)
	case x < 94:
		return "proto-dec-tuple", S(genStr(r, "")) + " " + S(genStr(r, "")) + " " + S(genStr(r, "")) + " " + genPSubjToks(r)
	case x < 95:
		q := strings.Fields(genQueryToks(r))
		return "proto-dec-query", q[0] + " " + q[1] + " " + q[2] + " " + genPSubjToks(r)
	case x < 97:
		return "json-dec-tuple", genJSONToks(r)
	case x < 99:
		return "json-dec-query", genJSONToks(r)
	default:
		return "utf8", genBytesTok(r)
	}
}
