package drive

import (
	"context"
	"encoding/json"
	"errors"
	"fmt"
	"math/rand"
	"net/http"
	"net/url"
	"strings"
	"testing"

	"google.golang.org/grpc/codes"
	"google.golang.org/grpc/status"
	"google.golang.org/protobuf/proto"

	"github.com/ory/keto/internal/check"
	"github.com/ory/keto/internal/driver/config"
	"github.com/ory/keto/internal/expand"
	"github.com/ory/keto/internal/relationtuple"
	"github.com/ory/keto/internal/schema"
	"github.com/ory/keto/ketoapi"
	opl "github.com/ory/keto/proto/ory/keto/opl/v1alpha1"
	rts "github.com/ory/keto/proto/ory/keto/relation_tuples/v1alpha2"
)

func init() {
	streams["hfuzz"] = streamHFuzz
}

// One case = (endpoint, mutation kind, concrete random instance). The implementation
// column `class` is ok (2xx, or 403 of the mirroring check endpoints) / client (4xx,
// InvalidArgument, NotFound …) / server (5xx, Internal, Unknown) / panic; `changed`
// says whether any table changed.

type fuzzEnv struct {
	*apiEnv
	syntax http.Handler
	exp    interface {
		Expand(context.Context, *rts.ExpandRequest) (*rts.ExpandResponse, error)
	}
	rt interface {
		ListRelationTuples(context.Context, *rts.ListRelationTuplesRequest) (*rts.ListRelationTuplesResponse, error)
		TransactRelationTuples(context.Context, *rts.TransactRelationTuplesRequest) (*rts.TransactRelationTuplesResponse, error)
		DeleteRelationTuples(context.Context, *rts.DeleteRelationTuplesRequest) (*rts.DeleteRelationTuplesResponse, error)
	}
	syn *schema.Handler
}

// hfuzzBrokenNonASCII: a document with a lexical error outside any class body followed by a run of
// multi-byte characters at a random byte offset (error excerpts that are cut by bytes split a rune).
func hfuzzBrokenNonASCII(r interface{ Intn(int) int }) string {
	tok := []string{"#", "@", "$", "`", "\\"}[r.Intn(5)]
	ch := []string{"Д", "界", "😀", "é", "ß", "한"}[r.Intn(6)]
	return strings.Repeat(" ", r.Intn(3)) + tok + strings.Repeat(" ", 1+r.Intn(4)) + strings.Repeat("x", r.Intn(4)) + strings.Repeat(ch, 6+r.Intn(40)) + "\nclass A implements Namespace {}\n"
}

func grpcClass(err error) string {
	if err == nil {
		return "ok"
	}
	var st interface{ GRPCStatus() *status.Status }
	c := codes.Unknown
	if errors.As(err, &st) {
		c = st.GRPCStatus().Code()
	} else if errors.Is(err, context.Canceled) {
		c = codes.Canceled
	}
	switch c {
	case codes.InvalidArgument, codes.NotFound, codes.AlreadyExists, codes.FailedPrecondition, codes.OutOfRange, codes.PermissionDenied, codes.Unauthenticated:
		return "client"
	}
	return "server:" + c.String()
}

func httpClass(code int, mirror bool) string {
	switch {
	case code >= 200 && code < 300:
		return "ok"
	case mirror && code == 403:
		return "ok"
	case code >= 400 && code < 500:
		return "client"
	case code == -1:
		return "panic"
	}
	return fmt.Sprintf("server:%d", code)
}

var fuzzEndpoints = []string{"r-list", "r-check", "r-check-open", "r-postcheck", "r-postcheck-open", "r-batch", "r-expand", "r-namespaces",
	"w-put", "w-delete", "w-patch", "s-syntax",
	"g-check", "g-batch", "g-expand", "g-list", "g-transact", "g-delete", "g-syntax"}

var fuzzMutations = []string{"valid", "unknown-ns", "no-subject", "both-subjects", "body-null", "null-element", "wrong-types",
	"depth-negative", "depth-huge", "depth-nan", "size-negative", "size-huge", "size-nan", "bad-token",
	"empty-strings", "huge-strings", "truncated-json", "empty-body", "extra-fields", "absent-submessage",
	"unknown-action", "batch-too-large", "invalid-utf8", "wrong-method", "no-namespace", "size-maxint", "id-and-partial-set", "empty-namespace"}

func isREST(e string) bool { return strings.HasPrefix(e, "r-") || strings.HasPrefix(e, "w-") || strings.HasPrefix(e, "s-") }
func hasBody(e string) bool {
	switch e {
	case "r-postcheck", "r-postcheck-open", "r-batch", "w-put", "w-patch", "s-syntax":
		return true
	}
	return false
}
func hasDepth(e string) bool {
	switch e {
	case "r-check", "r-check-open", "r-postcheck", "r-postcheck-open", "r-batch", "r-expand", "g-check", "g-batch", "g-expand":
		return true
	}
	return false
}
func hasPaging(e string) bool { return e == "r-list" || e == "g-list" }

// applicable says whether a mutation makes sense for an endpoint.
func applicable(e, m string) bool {
	switch m {
	case "valid":
		return true
	case "unknown-ns":
		return e != "r-namespaces" && e != "s-syntax" && e != "g-syntax"
	case "no-subject":
		return e != "r-namespaces" && e != "s-syntax" && e != "g-syntax" && e != "r-list" && e != "g-list" && e != "w-delete" && e != "g-delete"
	case "both-subjects":
		return e == "r-check" || e == "r-check-open" || e == "r-list" || e == "w-delete" || e == "r-postcheck" || e == "r-postcheck-open" || e == "w-put"
	case "body-null", "truncated-json", "empty-body", "wrong-types", "extra-fields":
		return hasBody(e) && e != "s-syntax"
	case "null-element":
		return e == "r-batch" || e == "w-patch"
	case "depth-negative", "depth-huge":
		return hasDepth(e)
	case "depth-nan":
		return hasDepth(e) && isREST(e)
	case "size-negative", "size-huge", "bad-token", "size-maxint":
		return hasPaging(e)
	case "id-and-partial-set":
		return e == "r-check" || e == "r-check-open" || e == "r-list" || e == "w-delete"
	case "size-nan":
		return e == "r-list"
	case "empty-strings", "huge-strings", "invalid-utf8":
		return e != "r-namespaces"
	case "absent-submessage":
		return strings.HasPrefix(e, "g-") && e != "g-syntax"
	case "unknown-action":
		return e == "w-patch" || e == "g-transact"
	case "batch-too-large":
		return e == "r-batch" || e == "g-batch"
	case "wrong-method":
		return isREST(e)
	case "no-namespace":
		return e == "w-delete" || e == "r-list" || e == "r-expand"
	case "empty-namespace":
		// the namespace key is present and its value is the empty string (not a configured namespace)
		return e == "w-delete" || e == "r-list" || e == "g-list" || e == "g-delete"
	}
	return false
}

func (f *fuzzEnv) dump() string {
	var rows []struct {
		A string `db:"a"`
	}
	out := ""
	for _, q := range []string{
		"SELECT COALESCE(group_concat(x, ';'), '') AS a FROM (SELECT namespace || '|' || object || '|' || relation || '|' || COALESCE(subject_id,'') || '|' || COALESCE(subject_set_namespace,'') || '|' || COALESCE(subject_set_object,'') || '|' || COALESCE(subject_set_relation,'') AS x FROM keto_relation_tuples ORDER BY shard_id)",
		"SELECT COALESCE(group_concat(x, ';'), '') AS a FROM (SELECT id || '|' || string_representation AS x FROM keto_uuid_mappings ORDER BY id)",
	} {
		rows = rows[:0]
		if err := f.reg.Persister().Connection(f.ctx).RawQuery(q).All(&rows); err != nil {
			return "dump-error:" + err.Error()
		}
		for _, r := range rows {
			out += r.A + "\n"
		}
	}
	return out
}

func streamHFuzz(t *testing.T, o *Out) {
	r := newRand()
	n := envInt("VERIF_N", 400)
	env := &fuzzEnv{apiEnv: newAPIEnv(t, hcheckOPL)}
	env.syntax = env.reg.OPLSyntaxRouter(env.ctx)
	env.exp = expand.NewHandler(env.reg)
	env.rt = relationtuple.NewHandler(env.reg)
	env.syn = schema.NewHandler(env.reg)
	// some stored state
	seed := []*ketoapi.RelationTuple{}
	for _, s := range []string{"Doc:a#viewers@alice", "Doc:a#viewers@Group:g#members", "Group:g#members@bob", "Doc:b#parents@Doc:a", "Doc:a#banned@eve"} {
		tt, err := (&ketoapi.RelationTuple{}).FromString(s)
		if err != nil {
			t.Fatal(err)
		}
		seed = append(seed, tt)
	}
	its, err := env.reg.Mapper().FromTuple(env.ctx, seed...)
	if err != nil {
		t.Fatal(err)
	}
	if err := env.reg.RelationTupleManager().WriteRelationTuples(env.ctx, its...); err != nil {
		t.Fatal(err)
	}
	id := 0
	var cells [][2]string
	for _, e := range fuzzEndpoints {
		for _, m := range fuzzMutations {
			if applicable(e, m) {
				cells = append(cells, [2]string{e, m})
			}
		}
	}
	ncells := len(cells)
	for i := 0; i < n; i++ {
		// the whole table once in default mode, once in strict mode, then random cells with the
		// mode changing every 100 cases
		if i == ncells || (i > 2*ncells && i%100 == 0) || i == 2*ncells {
			strict := i == ncells || (i > 2*ncells && (i/100)%2 == 1)
			if err := env.reg.Config(env.ctx).Set(config.KeyNamespaces, map[string]any{
				"location": "file://" + env.oplFile, "experimental_strict_mode": strict}); err != nil {
				t.Fatal(err)
			}
			if _, err := env.reg.Config(env.ctx).NamespaceManager(); err != nil {
				t.Fatal(err)
			}
			o.Count(fmt.Sprintf("strict-mode:%v", strict))
		}
		cell := cells[i%len(cells)]
		if i >= 2*len(cells) {
			cell = cells[r.Intn(len(cells))]
		}
		id++
		before := env.dump()
		o.Pre("hfuzz", fmt.Sprintf("z%d", id), fmt.Sprintf("%s %s", cell[0], cell[1]))
		class := env.fire(r, cell[0], cell[1])
		after := env.dump()
		changed := b2i(before != after)
		writes := cell[0] == "w-put" || cell[0] == "w-delete" || cell[0] == "w-patch" || cell[0] == "g-transact" || cell[0] == "g-delete"
		o.Emit("hfuzz", fmt.Sprintf("z%d", id), fmt.Sprintf("%s %s", cell[0], cell[1]),
			fmt.Sprintf("class=%s\tx_changed=%d\tchanged_on_error=%d\tread_changed=%d", class, changed,
				b2i(changed == 1 && class != "ok"), b2i(changed == 1 && !writes)), cell[1] != "valid")
		o.Count("class:" + class)
		if changed == 1 && writes && class == "ok" {
			// restore the seed state so that later cases have data
			_ = env.reg.RelationTupleManager().DeleteAllRelationTuples(env.ctx, &relationtuple.RelationQuery{})
			_ = env.reg.RelationTupleManager().WriteRelationTuples(env.ctx, its...)
		}
	}
}

// hfuzzCyclicOPL: a traverse over a relation whose types reach a cycle of SubjectSet types.
const hfuzzCyclicOPL = `import { Namespace, SubjectSet, Context } from "@ory/keto-namespace-types"
class User implements Namespace {}
class Group implements Namespace {
  related: { members: (User | SubjectSet<Group, "members">)[] }
}
class Doc implements Namespace {
  related: { viewers: (User | SubjectSet<Group, "members">)[] }
  permits = { view: (ctx: Context): boolean => this.related.viewers.traverse((g) => g.related.members.includes(ctx.subject)) }
}
`

func randName(r *rand.Rand) string {
	return pick(r, []string{"a", "b", "alice", "bob", "g", "x y", "ü", "a:b#c@d", "(p)"})
}

// fire builds one concrete request for (endpoint, mutation) and runs it.
func (f *fuzzEnv) fire(r *rand.Rand, e, m string) (class string) {
	defer func() {
		if p := recover(); p != nil {
			class = "panic"
		}
	}()
	ns, obj, rel := "Doc", pick(r, []string{"a", "b", "zz"}), pick(r, []string{"viewers", "view", "ok"})
	subID := pick(r, []string{"alice", "bob", "eve", "nobody"})
	var subSet *ketoapi.SubjectSet
	if r.Intn(3) == 0 {
		subSet = &ketoapi.SubjectSet{Namespace: "Group", Object: "g", Relation: "members"}
	}
	depth := ""
	size, token := "", ""
	huge := strings.Repeat("x", 70000)
	switch m {
	case "unknown-ns":
		if subSet != nil && r.Intn(2) == 0 {
			subSet.Namespace = "Nope"
		} else {
			ns = "Nope"
		}
	case "empty-strings":
		ns, obj, rel, subID = pick(r, []string{"", "Doc"}), "", pick(r, []string{"", "viewers"}), ""
	case "huge-strings":
		obj, subID = huge, huge
	case "invalid-utf8":
		obj, subID = "a\xff\xfeb", "\xc3\x28"
	case "depth-negative":
		depth = pick(r, []string{"-1", "-2147483648", "-99999999999"})
	case "depth-huge":
		depth = pick(r, []string{"2147483647", "99999999999999", "9223372036854775807"})
	case "depth-nan":
		depth = pick(r, []string{"abc", "1.5", "", "0x", "9223372036854775808"})
	case "size-negative":
		size = pick(r, []string{"-1", "-100", "-2147483648"})
	case "size-huge":
		size = pick(r, []string{"2147483647", "1000000"})
	case "size-nan":
		size = pick(r, []string{"abc", "1.5", "9223372036854775808"})
	case "size-maxint":
		size = pick(r, []string{"9223372036854775807", "4611686018427387904", "0x7fffffffffffffff", "9223372036854775806"})
	case "bad-token":
		token = pick(r, []string{"zzz", "123", "00000000-0000-0000-0000-00000000000g", huge[:300]})
	}
	tuple := &ketoapi.RelationTuple{Namespace: ns, Object: obj, Relation: rel}
	if subSet != nil {
		tuple.SubjectSet = subSet
	} else {
		tuple.SubjectID = &subID
	}
	if m == "no-subject" {
		tuple.SubjectID, tuple.SubjectSet = nil, nil
	}
	if m == "both-subjects" {
		tuple.SubjectID = &subID
		tuple.SubjectSet = &ketoapi.SubjectSet{Namespace: "Group", Object: "g", Relation: "members"}
	}
	q := tupleQuery(tuple)
	if m == "both-subjects" {
		q.Set("subject_id", subID)
		q.Set("subject_set.namespace", "Group")
		q.Set("subject_set.object", "g")
		q.Set("subject_set.relation", "members")
	}
	if m == "id-and-partial-set" {
		q.Del("subject_set.namespace")
		q.Del("subject_set.object")
		q.Del("subject_set.relation")
		q.Set("subject_id", subID)
		keys := []string{"subject_set.namespace", "subject_set.object", "subject_set.relation"}
		vals := []string{"Group", "g", "members"}
		k := r.Intn(3)
		q.Set(keys[k], vals[k])
		if r.Intn(2) == 0 {
			k2 := (k + 1 + r.Intn(2)) % 3
			q.Set(keys[k2], vals[k2])
		}
	}
	if m == "no-namespace" {
		q.Del("namespace")
	}
	if m == "empty-namespace" {
		q.Set("namespace", "")
		ns = ""
		// nothing else in the query: it would otherwise narrow what a dropped namespace filter hits
		for _, k := range []string{"object", "relation", "subject_id", "subject_set.namespace", "subject_set.object", "subject_set.relation"} {
			if r.Intn(2) == 0 {
				q.Del(k)
			}
		}
	}
	if depth != "" || m == "depth-nan" {
		q.Set("max-depth", depth)
	}
	if size != "" {
		q.Set("page_size", size)
	}
	if token != "" {
		q.Set("page_token", token)
	}
	if m == "extra-fields" {
		q.Set("bogus", "1")
	}
	body, _ := json.Marshal(tuple)
	mutBody := func(valid []byte) []byte {
		switch m {
		case "body-null":
			return []byte("null")
		case "truncated-json":
			if len(valid) > 3 {
				return valid[:len(valid)/2]
			}
			return []byte("{")
		case "empty-body":
			return []byte{}
		case "wrong-types":
			return []byte(pick(r, []string{`{"namespace":1,"object":2,"relation":3,"subject_id":4}`, `"a string"`, `[1,2,3]`, `{"namespace":"Doc","object":"a","relation":"viewers","subject_set":"x"}`, `{"tuples":"x"}`, `{"tuples":{"a":1}}`, `[{"action":"insert","relation_tuple":5}]`}))
		case "extra-fields":
			return []byte(strings.Replace(string(valid), "{", `{"bogus":{"deep":[1,2,3]},`, 1))
		}
		return valid
	}
	method := func(def string) string {
		if m == "wrong-method" {
			return pick(r, []string{"TRACE", "OPTIONS", "PATCHX", map[string]string{"GET": "POST", "POST": "GET", "PUT": "GET", "DELETE": "POST", "PATCH": "PUT"}[def]})
		}
		return def
	}
	depthQ := url.Values{}
	if q.Has("max-depth") {
		depthQ.Set("max-depth", q.Get("max-depth"))
	}
	dint := func() int32 {
		switch m {
		case "depth-negative":
			return -5
		case "depth-huge":
			return 2147483647
		}
		return 0
	}
	ptuple := protoTuple(tuple)
	rest := func(h http.Handler, meth, path string, qs url.Values, b []byte, mirror bool) string {
		code, _, _ := f.do(h, meth, path+"?"+qs.Encode(), b)
		return httpClass(code, mirror)
	}
	switch e {
	case "r-list":
		lq := url.Values{}
		for k, v := range q {
			if k != "max-depth" {
				lq[k] = v
			}
		}
		if m != "both-subjects" && m != "id-and-partial-set" && r.Intn(2) == 0 {
			lq.Del("subject_id")
			lq.Del("subject_set.namespace")
			lq.Del("subject_set.object")
			lq.Del("subject_set.relation")
		}
		return rest(f.read, method("GET"), relationtuple.ReadRouteBase, lq, nil, false)
	case "r-check":
		return rest(f.read, method("GET"), check.RouteBase, q, nil, true)
	case "r-check-open":
		return rest(f.read, method("GET"), check.OpenAPIRouteBase, q, nil, false)
	case "r-postcheck":
		return rest(f.read, method("POST"), check.RouteBase, depthQ, mutBody(body), true)
	case "r-postcheck-open":
		return rest(f.read, method("POST"), check.OpenAPIRouteBase, depthQ, mutBody(body), false)
	case "r-batch":
		ts := []any{tuple, tuple}
		if m == "null-element" {
			ts = []any{tuple, nil}
		}
		if m == "batch-too-large" {
			for len(ts) < 1100 {
				ts = append(ts, tuple)
			}
		}
		b, _ := json.Marshal(map[string]any{"tuples": ts})
		return rest(f.read, method("POST"), check.BatchRoute, depthQ, mutBody(b), false)
	case "r-expand":
		eq := url.Values{}
		eq.Set("namespace", ns)
		eq.Set("object", obj)
		eq.Set("relation", pick(r, []string{"viewers", "members"}))
		if m == "no-namespace" {
			eq.Del("namespace")
		}
		if m == "no-subject" {
			eq.Del("object")
			eq.Del("relation")
		}
		if q.Has("max-depth") {
			eq.Set("max-depth", q.Get("max-depth"))
		}
		return rest(f.read, method("GET"), expand.RouteBase, eq, nil, false)
	case "r-namespaces":
		return rest(f.read, method("GET"), "/namespaces", url.Values{}, nil, false)
	case "w-put":
		// write something that can be removed again
		return rest(f.write, method("PUT"), relationtuple.WriteRouteBase, url.Values{}, mutBody(body), false)
	case "w-delete":
		dq := url.Values{}
		for k, v := range q {
			if k != "max-depth" {
				dq[k] = v
			}
		}
		return rest(f.write, method("DELETE"), relationtuple.WriteRouteBase, dq, nil, false)
	case "w-patch":
		action := pick(r, []string{"insert", "delete"})
		if m == "unknown-action" {
			action = pick(r, []string{"upsert", "", "INSERT"})
		}
		ds := []any{map[string]any{"action": action, "relation_tuple": tuple}}
		if m == "null-element" {
			ds = append(ds, nil)
		}
		if m == "no-subject" && r.Intn(2) == 0 {
			ds = []any{map[string]any{"action": action}}
		}
		b, _ := json.Marshal(ds)
		return rest(f.write, method("PATCH"), relationtuple.WriteRouteBase, url.Values{}, mutBody(b), false)
	case "s-syntax":
		doc := pick(r, []string{hcheckOPL, hcheckOPL, hfuzzCyclicOPL})
		switch m {
		case "empty-strings":
			doc = ""
		case "huge-strings":
			doc = "class " + huge + " implements Namespace {}"
		case "invalid-utf8":
			doc = "class A\xff implements Namespace {}"
		}
		if m != "empty-strings" && m != "huge-strings" && m != "invalid-utf8" && r.Intn(3) == 0 {
			doc = hfuzzBrokenNonASCII(r)
		}
		return rest(f.syntax, method("POST"), schema.RouteBase, url.Values{}, []byte(doc), false)
	case "g-check":
		req := &rts.CheckRequest{Tuple: ptuple, MaxDepth: dint()}
		if m == "absent-submessage" {
			req = pick(r, []*rts.CheckRequest{{}, {Tuple: &rts.RelationTuple{Namespace: "Doc", Object: "a", Relation: "viewers"}}, {Tuple: &rts.RelationTuple{Subject: &rts.Subject{}}}})
		}
		_, err := f.chk.Check(f.ctx, req)
		return grpcClass(err)
	case "g-batch":
		req := &rts.BatchCheckRequest{Tuples: []*rts.RelationTuple{ptuple, ptuple}, MaxDepth: dint()}
		if m == "absent-submessage" {
			req = pick(r, []*rts.BatchCheckRequest{{}, {Tuples: []*rts.RelationTuple{{Namespace: "Doc", Object: "a", Relation: "viewers"}}}, {Tuples: []*rts.RelationTuple{{Subject: &rts.Subject{}}}}})
		}
		if m == "batch-too-large" {
			for len(req.Tuples) < 1100 {
				req.Tuples = append(req.Tuples, ptuple)
			}
		}
		_, err := f.chk.BatchCheck(f.ctx, req)
		return grpcClass(err)
	case "g-expand":
		req := &rts.ExpandRequest{Subject: rts.NewSubjectSet(ns, obj, "viewers"), MaxDepth: dint()}
		if m == "no-subject" || m == "absent-submessage" {
			req = pick(r, []*rts.ExpandRequest{{}, {Subject: &rts.Subject{}}})
		}
		_, err := f.exp.Expand(f.ctx, req)
		return grpcClass(err)
	case "g-list":
		rq := &rts.RelationQuery{Namespace: &ns}
		if r.Intn(2) == 0 {
			rq.Object = &obj
		}
		req := &rts.ListRelationTuplesRequest{RelationQuery: rq}
		switch m {
		case "size-negative":
			req.PageSize = -1
		case "size-huge", "size-maxint":
			req.PageSize = 2147483647
		case "bad-token":
			req.PageToken = token
		case "absent-submessage":
			req = &rts.ListRelationTuplesRequest{}
		}
		_, err := f.rt.ListRelationTuples(f.ctx, req)
		return grpcClass(err)
	case "g-transact":
		action := rts.RelationTupleDelta_ACTION_INSERT
		if r.Intn(2) == 0 {
			action = rts.RelationTupleDelta_ACTION_DELETE
		}
		if m == "unknown-action" {
			action = rts.RelationTupleDelta_Action(pick(r, []int32{0, 7, -1}))
		}
		req := &rts.TransactRelationTuplesRequest{RelationTupleDeltas: []*rts.RelationTupleDelta{{Action: action, RelationTuple: ptuple}}}
		if m == "absent-submessage" {
			req = pick(r, []*rts.TransactRelationTuplesRequest{{}, {RelationTupleDeltas: []*rts.RelationTupleDelta{{Action: action}}}, {RelationTupleDeltas: []*rts.RelationTupleDelta{{Action: action, RelationTuple: &rts.RelationTuple{Namespace: "Doc"}}}}})
		}
		_, err := f.rt.TransactRelationTuples(f.ctx, req)
		return grpcClass(err)
	case "g-delete":
		rq := &rts.RelationQuery{Namespace: &ns, Object: &obj, Relation: &rel}
		if m == "empty-namespace" {
			rq = &rts.RelationQuery{Namespace: &ns}
		}
		req := &rts.DeleteRelationTuplesRequest{RelationQuery: rq}
		if m == "absent-submessage" {
			req = &rts.DeleteRelationTuplesRequest{}
		}
		_, err := f.rt.DeleteRelationTuples(f.ctx, req)
		return grpcClass(err)
	case "g-syntax":
		doc := pick(r, []string{hcheckOPL, hcheckOPL, hfuzzCyclicOPL})
		switch m {
		case "empty-strings":
			doc = ""
		case "huge-strings":
			doc = "class " + huge + " implements Namespace {}"
		case "invalid-utf8":
			doc = "class A\xff implements Namespace {}"
		}
		if m != "empty-strings" && m != "huge-strings" && m != "invalid-utf8" && r.Intn(3) == 0 {
			doc = hfuzzBrokenNonASCII(r)
		}
		resp, err := f.syn.Check(f.ctx, &opl.CheckRequest{Content: []byte(doc)})
		if err == nil {
			// what the gRPC server does next: the answer has to be a well-formed message (a string field
			// that is not valid UTF-8 cannot be marshalled: the client would get Internal)
			if _, merr := proto.Marshal(resp); merr != nil {
				return grpcClass(status.Error(codes.Internal, merr.Error()))
			}
		}
		return grpcClass(err)
	}
	return "unknown-endpoint"
}
