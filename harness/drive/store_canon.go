package drive

// Canonical rendering of the `store` component: tuples, rows, digests, tokens.
// Must agree byte for byte with lean/Driver/Store.lean ("Rendering and digests").

import (
	"fmt"
	"hash/fnv"
	"math/big"
	"sort"
	"strconv"
	"strings"

	"github.com/gofrs/uuid"
)

// stSub is a subject: a subject id (intern id) or a subject set.
type stSub struct {
	set bool
	id  int // subject id (set == false)
	ns  string
	obj int
	rel string
}

// stTuple is an internal tuple: object and subject strings are intern ids.
type stTuple struct {
	ns  string
	obj int
	rel string
	sub stSub
}

// stSet is the subject_set of an API tuple.
type stSet struct {
	ns  string
	obj int
	rel string
}

// stATuple is a ketoapi.RelationTuple: both subject fields optional.
type stATuple struct {
	ns   string
	obj  int
	rel  string
	sid  *int
	sset *stSet
}

// stQuery is a relation query: four optional fields.
type stQuery struct {
	ns  *string
	obj *int
	rel *string
	sub *stSub
}

// stDelta is one element of a PATCH body / of relation_tuple_deltas.
type stDelta struct {
	action    string // i | d | o (protocol)
	actionStr string // REST literal
	nullDelta bool   // REST: the delta itself is JSON null
	omitTuple bool   // REST: the relation_tuple key is omitted instead of null
	t         *stATuple
	shard     string
}

func stRSub(s stSub) string {
	if s.set {
		return "s" + S(s.ns) + "," + strconv.Itoa(s.obj) + "," + S(s.rel)
	}
	return "i" + strconv.Itoa(s.id)
}

func stRTuple(t stTuple) string {
	return S(t.ns) + "|" + strconv.Itoa(t.obj) + "|" + S(t.rel) + "|" + stRSub(t.sub)
}

func stFnv(s string) string {
	h := fnv.New64a()
	h.Write([]byte(s))
	return fmt.Sprintf("%x", h.Sum64())
}

func stDigest(verbose bool, items []string) string {
	j := strings.Join(items, ";")
	if verbose {
		return strconv.Itoa(len(items)) + ":" + j
	}
	return strconv.Itoa(len(items)) + ":" + stFnv(j)
}

func stSorted(items []string) []string {
	out := append([]string(nil), items...)
	sort.Strings(out)
	return out
}

func stShardDec(id uuid.UUID) string { return new(big.Int).SetBytes(id[:]).String() }

// effective returns the internal tuple an API tuple stands for (the subject id
// wins when both are given), or false when it has no subject.
func (a *stATuple) effective() (stTuple, bool) {
	switch {
	case a.sid != nil:
		return stTuple{a.ns, a.obj, a.rel, stSub{id: *a.sid}}, true
	case a.sset != nil:
		return stTuple{a.ns, a.obj, a.rel, stSub{set: true, ns: a.sset.ns, obj: a.sset.obj, rel: a.sset.rel}}, true
	}
	return stTuple{}, false
}

func stFromTuple(t stTuple) *stATuple {
	a := &stATuple{ns: t.ns, obj: t.obj, rel: t.rel}
	if t.sub.set {
		a.sset = &stSet{t.sub.ns, t.sub.obj, t.sub.rel}
	} else {
		id := t.sub.id
		a.sid = &id
	}
	return a
}

// --- tokens -------------------------------------------------------------

func stTokSub(s stSub) string {
	if s.set {
		return "s " + S(s.ns) + " " + strconv.Itoa(s.obj) + " " + S(s.rel)
	}
	return "i " + strconv.Itoa(s.id)
}

func stTokTuple(t stTuple) string {
	return S(t.ns) + " " + strconv.Itoa(t.obj) + " " + S(t.rel) + " " + stTokSub(t.sub)
}

func stTokATuple(a *stATuple) string {
	s := S(a.ns) + " " + strconv.Itoa(a.obj) + " " + S(a.rel)
	if a.sid != nil {
		s += " 1 " + strconv.Itoa(*a.sid)
	} else {
		s += " 0"
	}
	if a.sset != nil {
		s += " 1 " + S(a.sset.ns) + " " + strconv.Itoa(a.sset.obj) + " " + S(a.sset.rel)
	} else {
		s += " 0"
	}
	return s
}

func stTokQuery(q *stQuery) string {
	var b []string
	if q.ns != nil {
		b = append(b, "1 "+S(*q.ns))
	} else {
		b = append(b, "0")
	}
	if q.obj != nil {
		b = append(b, "1 "+strconv.Itoa(*q.obj))
	} else {
		b = append(b, "0")
	}
	if q.rel != nil {
		b = append(b, "1 "+S(*q.rel))
	} else {
		b = append(b, "0")
	}
	if q.sub != nil {
		b = append(b, "1 "+stTokSub(*q.sub))
	} else {
		b = append(b, "0")
	}
	return strings.Join(b, " ")
}

func stTokOptQuery(q *stQuery) string {
	if q == nil {
		return "0"
	}
	return "1 " + stTokQuery(q)
}

func stTokDelta(d *stDelta) string {
	sh := d.shard
	if sh == "" {
		sh = "0"
	}
	if d.t == nil {
		return d.action + " 0 " + sh
	}
	return d.action + " 1 " + stTokATuple(d.t) + " " + sh
}

// stTokPage is the protocol token of a page token string.
func stTokPage(tok string) string {
	if tok == "" {
		return "e"
	}
	if u, err := uuid.FromString(tok); err == nil {
		return "t " + stShardDec(u)
	}
	return "b"
}

func (q *stQuery) matches(t stTuple) bool {
	if q.ns != nil && *q.ns != t.ns {
		return false
	}
	if q.obj != nil && *q.obj != t.obj {
		return false
	}
	if q.rel != nil && *q.rel != t.rel {
		return false
	}
	if q.sub != nil && *q.sub != t.sub {
		return false
	}
	return true
}
