package drive

import (
	"math/rand"

	"github.com/ory/keto/internal/namespace"
	"github.com/ory/keto/internal/namespace/ast"
)

// Profile steers the engine-case generator.
type EngProfile struct {
	Name        string
	LimitsLoose bool // depth/width chosen so that they are rarely binding
	Faults      bool // enumerate failing storage-call positions
	DepthGrid   bool // run every (r, g, w) of a grid
	NoNeg       bool
	OtherNet    bool // a second network on the same database holds other tuples (C06)
	Conforming  bool // stores conform to the declared types (tuples only on related relations, subjects per type)
	Wide        bool // every case has a very wide node (see widen)
}

var nsPool = []string{"User", "Group", "Doc", "Folder", "a-b", "a"}
var relPool = []string{"members", "viewers", "owners", "parents", "b-c", "c"}
var permPool = []string{"view", "edit", "share", "ok"}

type relInfo struct {
	name   string
	isPerm bool
}

// genConfig generates an OPL-shaped configuration: related relations with types,
// permissions with expressions over includes / permits / traverse / ! / && / ||.
// classicConfig is the documents-in-folders shape of the OPL documentation, in a few
// variants: view = viewers || parents.traverse(view) [&& !banned] on Doc and Folder.
func classicConfig(r *rand.Rand, p EngProfile) []*namespace.Namespace {
	user := ast.RelationType{Namespace: "User"}
	grp := ast.RelationType{Namespace: "Group", Relation: "members"}
	mk := func(name string) *namespace.Namespace {
		view := &ast.SubjectSetRewrite{Operation: ast.OperatorOr, Children: ast.Children{
			&ast.ComputedSubjectSet{Relation: "viewers"},
			&ast.TupleToSubjectSet{Relation: "parents", ComputedSubjectSetRelation: "view"}}}
		if r.Intn(3) == 0 {
			view.Children = append(view.Children, &ast.ComputedSubjectSet{Relation: "owners"})
		}
		rels := []ast.Relation{
			{Name: "viewers", Types: []ast.RelationType{user, grp}},
			{Name: "owners", Types: []ast.RelationType{user, grp}},
			{Name: "parents", Types: []ast.RelationType{{Namespace: "Folder"}}},
			{Name: "view", SubjectSetRewrite: view},
		}
		if !p.NoNeg && r.Intn(2) == 0 {
			rels = append(rels, ast.Relation{Name: "ok", SubjectSetRewrite: &ast.SubjectSetRewrite{Operation: ast.OperatorAnd, Children: ast.Children{
				&ast.ComputedSubjectSet{Relation: "view"},
				&ast.InvertResult{Child: &ast.ComputedSubjectSet{Relation: "owners"}}}}})
		} else {
			rels = append(rels, ast.Relation{Name: "edit", SubjectSetRewrite: &ast.SubjectSetRewrite{Operation: ast.OperatorAnd, Children: ast.Children{
				&ast.ComputedSubjectSet{Relation: "view"},
				&ast.TupleToSubjectSet{Relation: "parents", ComputedSubjectSetRelation: "view"}}}})
		}
		return &namespace.Namespace{Name: name, Relations: rels}
	}
	return []*namespace.Namespace{
		{Name: "User"},
		{Name: "Group", Relations: []ast.Relation{{Name: "members", Types: []ast.RelationType{user, grp}}}},
		mk("Folder"), mk("Doc"),
	}
}

func genConfig(r *rand.Rand, p EngProfile) []*namespace.Namespace {
	if r.Intn(7) == 0 || (p.Wide && r.Intn(2) == 0) {
		return classicConfig(r, p)
	}
	if r.Intn(8) == 0 {
		// legacy configuration: namespaces without relations
		var nss []*namespace.Namespace
		n := 1 + r.Intn(3)
		for i := 0; i < n; i++ {
			nss = append(nss, &namespace.Namespace{Name: nsPool[i]})
		}
		return nss
	}
	nNS := 1 + r.Intn(4)
	perm := r.Perm(len(nsPool))
	type nsInfo struct {
		name string
		rels []relInfo
	}
	infos := make([]nsInfo, nNS)
	for i := range infos {
		infos[i].name = nsPool[perm[i]]
		nr := r.Intn(4)
		if i == 0 && nr == 0 {
			nr = 1
		}
		rp := r.Perm(len(relPool))
		for j := 0; j < nr; j++ {
			infos[i].rels = append(infos[i].rels, relInfo{name: relPool[rp[j]]})
		}
		if nr > 0 {
			np := r.Intn(4)
			pp := r.Perm(len(permPool))
			for j := 0; j < np; j++ {
				infos[i].rels = append(infos[i].rels, relInfo{name: permPool[pp[j]], isPerm: true})
			}
		}
	}
	find := func(ns string) *nsInfo {
		for i := range infos {
			if infos[i].name == ns {
				return &infos[i]
			}
		}
		return nil
	}
	nss := make([]*namespace.Namespace, nNS)
	// types first
	types := map[string][]ast.RelationType{}
	for i := range infos {
		for _, ri := range infos[i].rels {
			if ri.isPerm {
				continue
			}
			nt := 1 + r.Intn(3)
			var ts []ast.RelationType
			for k := 0; k < nt; k++ {
				target := infos[r.Intn(nNS)]
				if len(target.rels) > 0 && r.Intn(2) == 0 {
					ts = append(ts, ast.RelationType{Namespace: target.name, Relation: pick(r, target.rels).name})
				} else {
					ts = append(ts, ast.RelationType{Namespace: target.name})
				}
			}
			types[infos[i].name+"\x00"+ri.name] = ts
		}
	}
	for i := range infos {
		ns := &namespace.Namespace{Name: infos[i].name}
		var related []relInfo
		for _, ri := range infos[i].rels {
			if !ri.isPerm {
				related = append(related, ri)
			}
		}
		var genExpr func(depth int) ast.Child
		genLeaf := func() ast.Child {
			switch k := r.Intn(10); {
			case k < 4 && len(related) > 0:
				return &ast.ComputedSubjectSet{Relation: pick(r, related).name}
			case k < 6:
				return &ast.ComputedSubjectSet{Relation: pick(r, infos[i].rels).name}
			case len(related) > 0:
				rel := pick(r, related)
				// candidates: names declared in every type's namespace
				ts := types[infos[i].name+"\x00"+rel.name]
				var cands []string
				if len(ts) > 0 {
					if first := find(ts[0].Namespace); first != nil {
						for _, c := range first.rels {
							ok := true
							for _, t := range ts[1:] {
								has := false
								if o := find(t.Namespace); o != nil {
									for _, oc := range o.rels {
										if oc.name == c.name {
											has = true
										}
									}
								}
								ok = ok && has
							}
							if ok {
								cands = append(cands, c.name)
							}
						}
					}
				}
				if len(cands) == 0 || r.Intn(12) == 0 {
					// sometimes an ill-typed traverse (rejected by the type checker or a run-time schema error)
					return &ast.TupleToSubjectSet{Relation: rel.name, ComputedSubjectSetRelation: pick(r, append(relPool, permPool...))}
				}
				return &ast.TupleToSubjectSet{Relation: rel.name, ComputedSubjectSetRelation: pick(r, cands)}
			default:
				return &ast.ComputedSubjectSet{Relation: pick(r, infos[i].rels).name}
			}
		}
		genExpr = func(depth int) ast.Child {
			k := r.Intn(10)
			switch {
			case depth <= 0 || k < 4:
				return genLeaf()
			case k < 6 && !p.NoNeg:
				return &ast.InvertResult{Child: genExpr(depth - 1)}
			default:
				op := ast.OperatorOr
				if r.Intn(2) == 0 {
					op = ast.OperatorAnd
				}
				n := 2 + r.Intn(2)
				rw := &ast.SubjectSetRewrite{Operation: op}
				for j := 0; j < n; j++ {
					rw.Children = append(rw.Children, genExpr(depth-1))
				}
				return rw
			}
		}
		for _, ri := range infos[i].rels {
			if !ri.isPerm {
				ns.Relations = append(ns.Relations, ast.Relation{Name: ri.name, Types: types[infos[i].name+"\x00"+ri.name]})
				continue
			}
			e := genExpr(1 + r.Intn(3))
			ns.Relations = append(ns.Relations, ast.Relation{Name: ri.name, SubjectSetRewrite: e.AsRewrite()})
		}
		nss[i] = ns
	}
	return nss
}

// genTuples generates a store biased to chains, diamonds, cycles and duplicates
// over the declared relations.
func genTuples(r *rand.Rand, nss []*namespace.Namespace, conforming bool) []Tup {
	n := r.Intn(24)
	if r.Intn(10) == 0 {
		n = 24 + r.Intn(30)
	}
	nObj := 2 + r.Intn(3)
	nSub := 1 + r.Intn(3)
	var out []Tup
	type nr struct {
		ns  string
		rel ast.Relation
	}
	var declared []nr
	for _, n := range nss {
		for _, rel := range n.Relations {
			declared = append(declared, nr{n.Name, rel})
		}
	}
	randSet := func() Sub {
		ns := pick(r, nss)
		rel := pick(r, relPool)
		if len(ns.Relations) > 0 && r.Intn(4) != 0 {
			rel = pick(r, ns.Relations).Name
		}
		if r.Intn(15) == 0 {
			rel = ""
		}
		return Sub{IsSet: true, NS: ns.Name, Obj: r.Intn(nObj), Rel: rel}
	}
	for i := 0; i < n; i++ {
		var t Tup
		if len(declared) > 0 && (conforming || r.Intn(8) != 0) {
			d := pick(r, declared)
			// mostly tuples on plain relations
			for tries := 0; tries < 30 && d.rel.SubjectSetRewrite != nil; tries++ {
				d = pick(r, declared)
			}
			if conforming && d.rel.SubjectSetRewrite != nil {
				continue
			}
			t.NS, t.Rel = d.ns, d.rel.Name
			t.Obj = r.Intn(nObj)
			switch k := r.Intn(10); {
			case k < 4 || len(d.rel.Types) == 0:
				t.Sub = Sub{ID: r.Intn(nSub)}
			case k < 9 || conforming:
				ty := pick(r, d.rel.Types)
				t.Sub = Sub{IsSet: true, NS: ty.Namespace, Obj: r.Intn(nObj), Rel: ty.Relation}
			default:
				t.Sub = randSet()
			}
		} else {
			ns := pick(r, nss)
			t.NS, t.Obj, t.Rel = ns.Name, r.Intn(nObj), pick(r, relPool)
			if r.Intn(2) == 0 {
				t.Sub = Sub{ID: r.Intn(nSub)}
			} else {
				t.Sub = randSet()
			}
		}
		if conforming && (t.Rel == "" || (t.NS == "")) {
			continue
		}
		out = append(out, t)
		if r.Intn(12) == 0 {
			out = append(out, t) // duplicate
		}
	}
	return out
}

func genQuery(r *rand.Rand, nss []*namespace.Namespace, ts []Tup) Tup {
	ns := pick(r, nss)
	q := Tup{NS: ns.Name, Obj: r.Intn(4), Rel: pick(r, relPool)}
	if len(ns.Relations) > 0 && r.Intn(10) != 0 {
		q.Rel = pick(r, ns.Relations).Name
	}
	if len(ts) > 0 && r.Intn(3) == 0 {
		t := pick(r, ts)
		q.NS, q.Obj = t.NS, t.Obj
		if r.Intn(2) == 0 {
			q.Rel = t.Rel
		}
	}
	if r.Intn(30) == 0 {
		q.NS = "Unknown"
	}
	if r.Intn(25) == 0 {
		q.Rel = "" // an object reference: no relation
	}
	q.Sub = Sub{ID: r.Intn(3)}
	if r.Intn(8) == 0 {
		nsx := pick(r, nss)
		q.Sub = Sub{IsSet: true, NS: nsx.Name, Obj: r.Intn(3), Rel: pick(r, relPool)}
		if len(ts) > 0 {
			for _, t := range ts {
				if t.Sub.IsSet && r.Intn(3) == 0 {
					q.Sub = t.Sub
					break
				}
			}
		}
	}
	return q
}

// ttuOf finds a tuple-to-subject-set child of some permission: (namespace, permission,
// traversed relation, relation evaluated on the parents).
func ttuOf(r *rand.Rand, nss []*namespace.Namespace) (ns, perm, rel, crel string, ok bool) {
	type hit struct{ ns, perm, rel, crel string }
	var hits []hit
	var walk func(ns, perm string, c ast.Child)
	walk = func(ns, perm string, c ast.Child) {
		switch c := c.(type) {
		case *ast.TupleToSubjectSet:
			hits = append(hits, hit{ns, perm, c.Relation, c.ComputedSubjectSetRelation})
		case *ast.SubjectSetRewrite:
			for _, ch := range c.Children {
				walk(ns, perm, ch)
			}
		case *ast.InvertResult:
			walk(ns, perm, c.Child)
		}
	}
	for _, n := range nss {
		for _, rel := range n.Relations {
			if rel.SubjectSetRewrite != nil {
				walk(n.Name, rel.Name, rel.SubjectSetRewrite)
			}
		}
	}
	if len(hits) == 0 {
		return "", "", "", "", false
	}
	h := pick(r, hits)
	return h.ns, h.perm, h.rel, h.crel, true
}

// fanOut gives an object 2-6 parents on a traversed relation (more than the small width limits of
// the depth/width grid) with the subject a member behind the parent that is LAST (or first) in storage
// order: a traversal cut short by a width limit - under a negation above all - must not change the
// decision into "allowed".
func fanOut(r *rand.Rand, c *EngCase) {
	ns, perm, rel, crel, ok := ttuOf(r, c.NSs)
	if !ok {
		return
	}
	const obj, base = 700, 710
	sub := c.Query.Sub
	pns := pick(r, c.NSs).Name
	for _, t := range c.Tuples {
		if t.NS == ns && t.Rel == rel && t.Sub.IsSet {
			pns = t.Sub.NS
			break
		}
	}
	n := 2 + r.Intn(5)
	for k := 0; k < n; k++ {
		c.Tuples = append(c.Tuples, Tup{NS: ns, Obj: obj, Rel: rel, Sub: Sub{IsSet: true, NS: pns, Obj: base + k, Rel: ""}})
	}
	last := r.Intn(4) != 0
	c.BoundaryMember = func(stored []Tup) *Tup {
		var ps []Sub
		for _, t := range stored {
			if t.NS == ns && t.Obj == obj && t.Rel == rel && t.Sub.IsSet {
				ps = append(ps, t.Sub)
			}
		}
		if len(ps) == 0 {
			return nil
		}
		k := 0
		if last {
			k = len(ps) - 1
		}
		return &Tup{NS: ps[k].NS, Obj: ps[k].Obj, Rel: crel, Sub: sub}
	}
	c.Query.NS, c.Query.Obj, c.Query.Rel = ns, obj, perm
}

// exclusionFan is a fixed shape for the depth/width grid: `Doc.view = viewers && !parents.traverse(banned)`,
// an object with 2-6 parents, the subject a viewer and banned on the parent that is LAST in storage order
// (three times in four; else on none): whatever a limit cuts, the subject is not allowed when a parent bans it.
func exclusionFan(r *rand.Rand, c *EngCase) {
	user := ast.RelationType{Namespace: "User"}
	c.NSs = []*namespace.Namespace{
		{Name: "User"},
		{Name: "Folder", Relations: []ast.Relation{{Name: "banned", Types: []ast.RelationType{user}}}},
		{Name: "Doc", Relations: []ast.Relation{
			{Name: "viewers", Types: []ast.RelationType{user}},
			{Name: "parents", Types: []ast.RelationType{{Namespace: "Folder"}}},
			{Name: "view", SubjectSetRewrite: &ast.SubjectSetRewrite{Operation: ast.OperatorAnd, Children: ast.Children{
				&ast.ComputedSubjectSet{Relation: "viewers"},
				&ast.InvertResult{Child: &ast.TupleToSubjectSet{Relation: "parents", ComputedSubjectSetRelation: "banned"}}}}},
		}},
	}
	const obj, base = 700, 710
	sub := Sub{ID: 7}
	c.Tuples = []Tup{{NS: "Doc", Obj: obj, Rel: "viewers", Sub: sub}}
	n := 2 + r.Intn(5)
	for k := 0; k < n; k++ {
		c.Tuples = append(c.Tuples, Tup{NS: "Doc", Obj: obj, Rel: "parents", Sub: Sub{IsSet: true, NS: "Folder", Obj: base + k, Rel: ""}})
	}
	c.Tuples = append(c.Tuples, Tup{NS: "Folder", Obj: base, Rel: "banned", Sub: Sub{ID: 8}})
	if r.Intn(4) != 0 {
		c.BoundaryMember = func(stored []Tup) *Tup {
			var ps []Sub
			for _, t := range stored {
				if t.NS == "Doc" && t.Obj == obj && t.Rel == "parents" && t.Sub.IsSet {
					ps = append(ps, t.Sub)
				}
			}
			if len(ps) == 0 {
				return nil
			}
			return &Tup{NS: "Folder", Obj: ps[len(ps)-1].Obj, Rel: "banned", Sub: sub}
		}
	}
	c.Query = Tup{NS: "Doc", Obj: obj, Rel: "view", Sub: sub}
	c.Strict = false
}

// widen gives the case a very wide node, so that the internal page loops are crossed:
// more than 1000 subject sets on the queried object#relation (the traverser fetches
// subject sets in pages of 1000) or more than 100 parents on a traversed relation (the
// tuple-to-subject-set listing pages by 100), with the subject a member behind one of
// them (two times in three) - often one right at a page boundary of the storage order,
// which the harness cannot choose but 1001..1003 / 101..103 rows make likely to matter.
func widen(r *rand.Rand, c *EngCase) {
	const base = 1000
	// the wide node is an object of its own that nothing points to: the reference semantics
	// is evaluated per path and would otherwise visit the wide node once per path of the
	// small random graph that leads to it
	const wideObj = 900
	sub := c.Query.Sub
	small := append([]Tup(nil), c.Tuples...)
	if ns, perm, rel, crel, ok := ttuOf(r, c.NSs); ok && r.Intn(3) != 0 {
		n := pick(r, []int{101, 102, 103, 130, 200, 201, 250})
		pns := pick(r, c.NSs).Name
		for _, t := range small {
			if t.NS == ns && t.Rel == rel && t.Sub.IsSet {
				pns = t.Sub.NS
				break
			}
		}
		for k := 0; k < n; k++ {
			c.Tuples = append(c.Tuples, Tup{NS: ns, Obj: wideObj, Rel: rel, Sub: Sub{IsSet: true, NS: pns, Obj: base + k, Rel: ""}})
		}
		if r.Intn(2) == 0 {
			// the granting parent: one at a page boundary of the storage order (chosen once the
			// rows are stored, see BoundaryMember), or any
			if r.Intn(3) != 0 {
				off := pick(r, []int{0, 0, -1, 1})
				c.BoundaryMember = func(stored []Tup) *Tup {
					var ps []Sub
					for _, t := range stored {
						if t.NS == ns && t.Obj == wideObj && t.Rel == rel && t.Sub.IsSet {
							ps = append(ps, t.Sub)
						}
					}
					k := 100 + off
					if k >= len(ps) {
						k = len(ps) - 1
					}
					return &Tup{NS: ps[k].NS, Obj: ps[k].Obj, Rel: crel, Sub: sub}
				}
			} else {
				c.Tuples = append(c.Tuples, Tup{NS: pns, Obj: base + r.Intn(n), Rel: crel, Sub: sub})
			}
		}
		for _, t := range small {
			// a few parents inside the small random graph
			if t.NS == ns && t.Rel == rel && t.Sub.IsSet && r.Intn(3) == 0 {
				c.Tuples = append(c.Tuples, Tup{NS: ns, Obj: wideObj, Rel: rel, Sub: t.Sub})
			}
		}
		c.Query.NS, c.Query.Obj, c.Query.Rel = ns, wideObj, perm
		c.Width = 100
		return
	}
	n := pick(r, []int{1001, 1001, 1002, 1003, 1010, 2001})
	gns, grel := pick(r, c.NSs).Name, pick(r, relPool)
	for _, t := range small {
		if t.Sub.IsSet && t.Sub.Rel != "" {
			gns, grel = t.Sub.NS, t.Sub.Rel
			break
		}
	}
	c.Query.Obj = wideObj
	q := c.Query
	for k := 0; k < n; k++ {
		c.Tuples = append(c.Tuples, Tup{NS: q.NS, Obj: q.Obj, Rel: q.Rel, Sub: Sub{IsSet: true, NS: gns, Obj: base + k, Rel: grel}})
	}
	if r.Intn(3) != 0 {
		if r.Intn(3) != 0 {
			// the subject is a member of the subject set that is 1000th / 1001st / 1002nd (or 2000th…)
			// in storage order: the rows around the traverser's page boundary
			off := pick(r, []int{0, 0, -1, 1})
			mult := 1 + r.Intn(n/1000)
			qq := c.Query
			c.BoundaryMember = func(stored []Tup) *Tup {
				var ss []Sub
				for _, t := range stored {
					if t.NS == qq.NS && t.Obj == qq.Obj && t.Rel == qq.Rel && t.Sub.IsSet {
						ss = append(ss, t.Sub)
					}
				}
				k := 1000*mult + off
				if k >= len(ss) {
					k = len(ss) - 1
				}
				return &Tup{NS: ss[k].NS, Obj: ss[k].Obj, Rel: ss[k].Rel, Sub: sub}
			}
		} else {
			c.Tuples = append(c.Tuples, Tup{NS: gns, Obj: base + r.Intn(n), Rel: grel, Sub: sub})
		}
	}
	for _, t := range small {
		if t.Sub.IsSet && r.Intn(6) == 0 {
			c.Tuples = append(c.Tuples, Tup{NS: q.NS, Obj: q.Obj, Rel: q.Rel, Sub: t.Sub})
		}
	}
	c.Width = 5000
}

func genEngCase(r *rand.Rand, p EngProfile) *EngCase {
	c := &EngCase{PageSize: 100}
	if r.Intn(3) == 0 {
		// small pages for the tuple-to-subject-set listing (injected by the harness's manager wrapper)
		c.PageSize = 1 + r.Intn(3)
	}
	c.NSs = genConfig(r, p)
	c.Tuples = genTuples(r, c.NSs, p.Conforming || r.Intn(3) == 0)
	c.Query = genQuery(r, c.NSs, c.Tuples)
	c.Strict = r.Intn(3) == 0
	defer func() {
		if p.DepthGrid {
			switch r.Intn(6) {
			case 0, 1:
				fanOut(r, c)
			case 2:
				exclusionFan(r, c)
			}
		}
		if p.Wide {
			if c.GDepth < 4 {
				c.GDepth = 4 + r.Intn(4)
			}
			c.RDepth = 0
			c.Width = 100
			widen(r, c)
		}
	}()
	if p.LimitsLoose && r.Intn(4) != 0 {
		c.GDepth = 5 + r.Intn(5)
		c.Width = 100
		c.RDepth = 0
	} else {
		c.GDepth = 1 + r.Intn(8)
		c.Width = 1 + r.Intn(5)
		if r.Intn(3) == 0 {
			c.Width = 100
		}
		c.RDepth = r.Intn(c.GDepth+4) - 1
	}
	return c
}
