package drive

import (
	"time"
	"math/rand"
	"encoding/json"
	"fmt"
	"net/url"
	"runtime"
	"sort"
	"strings"
	"sync"
	"testing"

	"github.com/ory/keto/internal/check"
	"github.com/ory/keto/internal/driver/config"
	"github.com/ory/keto/internal/expand"
	"github.com/ory/keto/internal/relationtuple"
	"github.com/ory/keto/ketoapi"
)

func init() {
	streams["conc"] = func(t *testing.T, o *Out) { streamConc(t, o, false) }
	streams["conc-race"] = func(t *testing.T, o *Out) { streamConc(t, o, true) }
}

type concReq struct {
	name string
	run  func() string
}

// canonBody sorts what comes out of maps / unordered queries.
func canonBody(code int, body []byte) string {
	var v any
	if err := json.Unmarshal(body, &v); err != nil {
		return fmt.Sprintf("%d:%s", code, strings.TrimSpace(string(body)))
	}
	if m, ok := v.(map[string]any); ok {
		if rt, ok := m["relation_tuples"].([]any); ok {
			var ss []string
			for _, x := range rt {
				b, _ := json.Marshal(x)
				ss = append(ss, string(b))
			}
			sort.Strings(ss)
			m["relation_tuples"] = ss
		}
		if e, ok := m["error"].(map[string]any); ok {
			delete(e, "request")
			delete(e, "id")
		}
	}
	b, _ := json.Marshal(v)
	return fmt.Sprintf("%d:%s", code, b)
}

// allowedOnly reduces a batch answer to its decisions (an entry in an unknown namespace carries an
// error text in the batch answer and none in the single answer).
func allowedOnly(s string) string {
	i := strings.Index(s, ":")
	if i < 0 {
		return s
	}
	var v struct {
		Results []struct {
			Allowed bool `json:"allowed"`
		} `json:"results"`
	}
	if err := json.Unmarshal([]byte(s[i+1:]), &v); err != nil {
		return s
	}
	out := s[:i]
	for _, r := range v.Results {
		out += fmt.Sprintf(",%v", r.Allowed)
	}
	return out
}

func (e *apiEnv) concRequests(r interface{ Intn(int) int }, n int) []concReq {
	objs := []string{"a", "b", "c", "d"}
	subs := []string{"alice", "bob", "eve"}
	var reqs []concReq
	for i := 0; i < n; i++ {
		obj, sub := objs[r.Intn(len(objs))], subs[r.Intn(len(subs))]
		rel := []string{"viewers", "view", "ok"}[r.Intn(3)]
		if rel == "view" && e.viewPerm != "" {
			rel = e.viewPerm
		}
		q := url.Values{"namespace": {"Doc"}, "object": {obj}, "relation": {rel}, "subject_id": {sub}}
		switch r.Intn(4) {
		case 0:
			// the same relationship under different request depths side by side (the nested
			// groups need four indirections): a request's depth is its own
			depths := []string{"", "1", "2", "3", "4"}
			for rep, nrep := 0, 1+r.Intn(3); rep < nrep; rep++ {
				qq := url.Values{}
				for k, v := range q {
					qq[k] = v
				}
				if d := depths[r.Intn(len(depths))]; d != "" {
					qq.Set("max-depth", d)
				}
				target := check.OpenAPIRouteBase + "?" + qq.Encode()
				reqs = append(reqs, concReq{"check " + qq.Encode(), func() string {
					c, b, p := e.do(e.read, "GET", target, nil)
					return canonBody(c, b) + p
				}})
			}
		case 1:
			var ts []*ketoapi.RelationTuple
			for k := 0; k < 1+r.Intn(6); k++ {
				s := subs[r.Intn(len(subs))]
				ts = append(ts, &ketoapi.RelationTuple{Namespace: "Doc", Object: objs[r.Intn(len(objs))], Relation: rel, SubjectID: &s})
			}
			body, _ := json.Marshal(map[string]any{"tuples": ts})
			// per-request state must not be shared between the entries of a batch either:
			// the batch answers what its entries answer one by one
			var singles []string
			for _, tt := range ts {
				singles = append(singles, check.OpenAPIRouteBase+"?"+tupleQuery(tt).Encode())
			}
			reqs = append(reqs, concReq{"batch", func() string {
				c, b, p := e.do(e.read, "POST", check.BatchRoute, body)
				return canonBody(c, b) + p
			}})
			reqs = append(reqs, concReq{"batch-as-singles", func() string {
				var parts []string
				for _, target := range singles {
					c, b, _ := e.do(e.read, "GET", target, nil)
					var r struct {
						Allowed bool `json:"allowed"`
					}
					_ = json.Unmarshal(b, &r)
					if c != 200 {
						parts = append(parts, fmt.Sprintf("status%d", c))
					} else if r.Allowed {
						parts = append(parts, `{"allowed":true}`)
					} else {
						parts = append(parts, `{"allowed":false}`)
					}
				}
				return "200:{\"results\":[" + strings.Join(parts, ",") + "]}"
			}})
		case 2:
			eq := url.Values{"namespace": {"Doc"}, "object": {obj}, "relation": {"viewers"}, "max-depth": {"4"}}
			target := expand.RouteBase + "?" + eq.Encode()
			reqs = append(reqs, concReq{"expand " + eq.Encode(), func() string {
				c, b, p := e.do(e.read, "GET", target, nil)
				return canonBody(c, b) + p
			}})
		default:
			lq := url.Values{"namespace": {"Doc"}, "page_size": {fmt.Sprint(1 + r.Intn(5))}}
			reqs = append(reqs, concReq{"list " + lq.Encode(), func() string {
				// follow the tokens to the end
				var all []string
				token := ""
				for k := 0; k < 50; k++ {
					x := url.Values{}
					for kk, vv := range lq {
						x[kk] = vv
					}
					if token != "" {
						x.Set("page_token", token)
					}
					c, b, p := e.do(e.read, "GET", relationtuple.ReadRouteBase+"?"+x.Encode(), nil)
					if c != 200 || p != "" {
						return canonBody(c, b) + p
					}
					var resp struct {
						RelationTuples []json.RawMessage `json:"relation_tuples"`
						NextPageToken  string            `json:"next_page_token"`
					}
					_ = json.Unmarshal(b, &resp)
					for _, rt := range resp.RelationTuples {
						all = append(all, string(rt))
					}
					token = resp.NextPageToken
					if token == "" {
						break
					}
				}
				sort.Strings(all)
				return strings.Join(all, ";")
			}})
		}
	}
	return reqs
}

func (e *apiEnv) reloadNamespaces() error {
	return e.reg.Config(e.ctx).Set(config.KeyNamespaces, map[string]any{"location": "file://" + e.oplFile})
}

func (e *apiEnv) seedState(r interface{ Intn(int) int }) error {
	if err := e.reg.RelationTupleManager().DeleteAllRelationTuples(e.ctx, &relationtuple.RelationQuery{}); err != nil {
		return err
	}
	var ts []*ketoapi.RelationTuple
	objs := []string{"a", "b", "c", "d"}
	subs := []string{"alice", "bob", "eve"}
	for k := 0; k < 12+r.Intn(20); k++ {
		obj := objs[r.Intn(len(objs))]
		t := &ketoapi.RelationTuple{Namespace: "Doc", Object: obj, Relation: []string{"viewers", "banned", "parents"}[r.Intn(3)]}
		switch {
		case t.Relation == "parents":
			t.SubjectSet = &ketoapi.SubjectSet{Namespace: "Doc", Object: objs[r.Intn(len(objs))]}
		case r.Intn(3) == 0 && t.Relation == "viewers":
			t.SubjectSet = &ketoapi.SubjectSet{Namespace: "Group", Object: "g", Relation: "members"}
		default:
			s := subs[r.Intn(len(subs))]
			t.SubjectID = &s
		}
		ts = append(ts, t)
	}
	s := "alice"
	ts = append(ts, &ketoapi.RelationTuple{Namespace: "Group", Object: "g", Relation: "members", SubjectID: &s})
	// nested groups: answers that need two or more indirections through shared subject sets
	for _, o := range []string{"a", "b", "c"} {
		ts = append(ts, &ketoapi.RelationTuple{Namespace: "Doc", Object: o, Relation: "viewers", SubjectSet: &ketoapi.SubjectSet{Namespace: "Group", Object: "n1", Relation: "members"}})
	}
	ts = append(ts,
		&ketoapi.RelationTuple{Namespace: "Group", Object: "n1", Relation: "members", SubjectSet: &ketoapi.SubjectSet{Namespace: "Group", Object: "n2", Relation: "members"}},
		&ketoapi.RelationTuple{Namespace: "Group", Object: "n2", Relation: "members", SubjectSet: &ketoapi.SubjectSet{Namespace: "Group", Object: "n3", Relation: "members"}},
		&ketoapi.RelationTuple{Namespace: "Group", Object: "n3", Relation: "members", SubjectID: &s})
	its, err := e.reg.Mapper().FromTuple(e.ctx, ts...)
	if err != nil {
		return err
	}
	return e.reg.RelationTupleManager().WriteRelationTuples(e.ctx, its...)
}

// streamConc: a multiset of read requests against a fixed stored state, each alone
// and then all concurrently; every concurrent answer must equal the solo answer.
// With race=true (binary built with -race) every round starts from a FRESH registry
// so that the first requests are concurrent, and a mixed read/write workload runs too.
// Line: conc <id> <nreq> <round>
func streamConc(t *testing.T, o *Out, race bool) {
	r := newRand()
	n := envInt("VERIF_N", 20)
	var env *apiEnv
	var envTB *roundTB
	var tenantA, tenantB, tenantC, tenantD *apiEnv
	var tenantRelease func()
	tenantUses := 0
	defer func() {
		if tenantRelease != nil {
			tenantRelease()
		}
		if envTB != nil {
			envTB.runCleanups()
		}
	}()
	for i := 0; i < n; i++ {
		if env == nil || race || i%5 == 0 {
			if envTB != nil {
				// release the old environment (its file watcher: inotify instances are scarce) by running
				// the clean-ups it registered - cancelling the registry's context. NOT by setting a
				// configuration value: that is not a request, and it races with the goroutines earlier
				// requests left behind (they read the configuration without the provider's lock; the
				// race detector reported exactly that, a false alarm of the harness's making)
				quiesce()
				envTB.runCleanups()
			}
			envTB = &roundTB{TB: t}
			env = newAPIEnv(envTB, hcheckOPL)
		}
		if err := env.seedState(r); err != nil {
			t.Fatal(err)
		}
		nreq := 4 + r.Intn(12)
		reqs := env.concRequests(r, nreq)
		o.Pre("conc", fmt.Sprintf("c%d", i), fmt.Sprintf("%d %d", len(reqs), i))
		// every third round: a multi-tenant registry (configuration chosen per request by a
		// contextualizer); the requests of tenant A and of tenant B run side by side
		if i%3 == 2 {
			if tenantA == nil || (race && tenantUses >= 3) {
				if tenantRelease != nil {
					tenantRelease()
				}
				tenantA, tenantB, tenantC, tenantD, tenantRelease = newTenantAPIEnv3(t)
				tenantUses = 0
			}
			tenantUses++
			envA, envB := tenantA, tenantB
			// tenant D lives in a network of its own and is given, through its own write path, the
			// state tenant A gets through A's: the two answer the same requests alike
			stateSeed := r.Int63()
			if err := envA.seedState(rand.New(rand.NewSource(stateSeed))); err != nil {
				t.Fatal(err)
			}
			if err := tenantD.seedState(rand.New(rand.NewSource(stateSeed))); err != nil {
				t.Fatal(err)
			}
			reqs = append(envA.concRequests(r, 2+nreq/2), envB.concRequests(r, 2+nreq/2)...)
			for k := 0; k < 3; k++ {
				obj, sub := []string{"a", "b", "c", "d"}[r.Intn(4)], []string{"alice", "bob", "eve"}[r.Intn(3)]
				q := url.Values{"namespace": {"Doc"}, "object": {obj}, "relation": {[]string{"view", "viewers", "ok"}[r.Intn(3)]}, "subject_id": {sub}}
				target := check.OpenAPIRouteBase + "?" + q.Encode()
				lq := relationtuple.ReadRouteBase + "?" + url.Values{"namespace": {"Doc"}, "object": {obj}}.Encode()
				ea, ed := envA, tenantD
				reqs = append(reqs, concReq{"network-twin " + q.Encode(), func() string {
					c1, b1, p1 := ea.do(ea.read, "GET", target, nil)
					c2, b2, p2 := ed.do(ed.read, "GET", target, nil)
					x, y := canonBody(c1, b1)+p1, canonBody(c2, b2)+p2
					if x != y {
						return "TENANTS-DIFFER check(A)=" + x + " check(D)=" + y
					}
					// what was written under a name is found under that name
					c1, b1, _ = ea.do(ea.read, "GET", lq, nil)
					c2, b2, _ = ed.do(ed.read, "GET", lq, nil)
					if la, ld := canonBody(c1, b1), canonBody(c2, b2); la != ld {
						return fmt.Sprintf("TENANTS-DIFFER list(A)=%.150s list(D)=%.150s", la, ld)
					}
					return x
				}})
			}
			reqs = append(reqs, tenantC.concRequests(r, 2+nreq/3)...)
			// tenant C's permission Doc#see is tenant A's Doc#view under another name, over the same
			// stored state: the two answer alike, whoever was served first
			for k := 0; k < 3; k++ {
				obj, sub := []string{"a", "b", "c", "d"}[r.Intn(4)], []string{"alice", "bob", "eve"}[r.Intn(3)]
				qa := url.Values{"namespace": {"Doc"}, "object": {obj}, "relation": {"view"}, "subject_id": {sub}}
				qc := url.Values{"namespace": {"Doc"}, "object": {obj}, "relation": {"see"}, "subject_id": {sub}}
				ta, tc := check.OpenAPIRouteBase+"?"+qa.Encode(), check.OpenAPIRouteBase+"?"+qc.Encode()
				ea, ec := envA, tenantC
				reqs = append(reqs, concReq{"tenant-twin " + qa.Encode(), func() string {
					c1, b1, p1 := ea.do(ea.read, "GET", ta, nil)
					c2, b2, p2 := ec.do(ec.read, "GET", tc, nil)
					x, y := canonBody(c1, b1)+p1, canonBody(c2, b2)+p2
					if x != y {
						return "TENANTS-DIFFER view(A)=" + x + " see(C)=" + y
					}
					return x
				}})
			}
			r.Shuffle(len(reqs), func(a, b int) {
				// keep every batch next to its batch-as-singles twin
				if reqs[a].name == "batch" || reqs[b].name == "batch" || reqs[a].name == "batch-as-singles" || reqs[b].name == "batch-as-singles" {
					return
				}
				reqs[a], reqs[b] = reqs[b], reqs[a]
			})
			o.Count("multi-tenant-rounds")
		}
		solo := make([]string, len(reqs))
		if !race {
			for j, q := range reqs {
				solo[j] = q.run()
			}
		}
		runtime.GOMAXPROCS([]int{2, 4, 16}[i%3])
		got := make([]string, len(reqs))
		var wg sync.WaitGroup
		start := make(chan struct{})
		for j := range reqs {
			wg.Add(1)
			go func(j int) {
				defer wg.Done()
				<-start
				got[j] = reqs[j].run()
			}(j)
		}
		if race {
			// concurrent writers on other objects (do not change the answers' inputs? they may: answers are not compared in race mode)
			for w := 0; w < 3; w++ {
				wg.Add(1)
				go func(w int) {
					defer wg.Done()
					<-start
					s := fmt.Sprintf("w%d", w)
					body, _ := json.Marshal(&ketoapi.RelationTuple{Namespace: "Doc", Object: "zz", Relation: "viewers", SubjectID: &s})
					env.do(env.write, "PUT", relationtuple.WriteRouteBase, body)
					env.do(env.write, "DELETE", relationtuple.WriteRouteBase+"?namespace=Doc&object=zz", nil)
				}(w)
			}
		}
		if race && i%2 == 1 {
			// a namespace reload right before the requests: the namespace manager is created
			// by whichever request gets there first
			if err := env.reloadNamespaces(); err != nil {
				t.Fatal(err)
			}
		}
		close(start)
		wg.Wait()
		if race {
			for j, q := range reqs {
				solo[j] = q.run()
			}
		}
		same, diff := 1, ""
		for j := range reqs {
			if reqs[j].name == "batch-as-singles" && j > 0 && allowedOnly(solo[j]) != allowedOnly(solo[j-1]) {
				same = 0
				if diff == "" {
					diff = fmt.Sprintf("batch answers %.200s, its entries one by one %.200s", solo[j-1], solo[j])
				}
			}
			if strings.HasPrefix(solo[j], "TENANTS-DIFFER") || strings.HasPrefix(got[j], "TENANTS-DIFFER") {
				same = 0
				if diff == "" {
					diff = fmt.Sprintf("%s: %.300s", reqs[j].name, solo[j]+" / "+got[j])
				}
			}
			if got[j] != solo[j] {
				same = 0
				if diff == "" {
					diff = fmt.Sprintf("%s: alone %.200s concurrent %.200s", reqs[j].name, solo[j], got[j])
				}
			}
		}
		impl := fmt.Sprintf("same=%d", same)
		if race {
			// with concurrent writers the answers are not comparable (and sqlite reports lock
			// conflicts); this mode only feeds the race detector
			impl, diff = "raced=0", ""
		}
		if diff != "" {
			impl += "\tx_diff=" + strings.ReplaceAll(diff, "\t", " ")
		}
		o.Emit("conc", fmt.Sprintf("c%d", i), fmt.Sprintf("%d %d", len(reqs), i), impl, len(reqs) >= 2)
	}
	runtime.GOMAXPROCS(runtime.NumCPU())
}


// quiesce waits until the number of goroutines has been stable for 100 ms (at most 5 s).
func quiesce() {
	last, stable := runtime.NumGoroutine(), 0
	for i := 0; i < 500 && stable < 10; i++ {
		time.Sleep(10 * time.Millisecond)
		if n := runtime.NumGoroutine(); n == last {
			stable++
		} else {
			last, stable = n, 0
		}
	}
}


// roundTB is a testing.TB whose clean-ups can be run before the test ends (an environment per
// round: registry context, database, temporary directory).
type roundTB struct {
	testing.TB
	cleanups []func()
}

func (r *roundTB) Cleanup(f func()) { r.cleanups = append(r.cleanups, f) }

func (r *roundTB) runCleanups() {
	for i := len(r.cleanups) - 1; i >= 0; i-- {
		r.cleanups[i]()
	}
	r.cleanups = nil
}
