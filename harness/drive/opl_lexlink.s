// Presence of this file allows bodyless (linknamed) function declarations in the package.
