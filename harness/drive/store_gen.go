package drive

// Generators of the `store` histories.

import (
	"fmt"
	"math"
	"math/rand"
	"net/url"
	"strings"

	"github.com/gofrs/uuid"
)

var stAdvStrings = []string{
	"", " ", "a", "A", "a ", " a", "null", "0", "1", ":", "#", "@", "a:b#c@d", "(x)", "()", "|", ",", ";", "a|b,c;d",
	"'", "\"", "''", "O'Brien", `x"y`, "%", "_", "a%", "a_", "%a%", "\\", "\\\\", "a\\'b", "ü", "Ü", "日本語", "😀", "é", "é",
	"a\tb", "a\nb", "true", "nil", "NULL", "-1", "00000000-0000-0000-0000-000000000000", "a b", "a+b", "a&b=c", "?x=1", "/", "../x",
	"<script>", " ", "​",
}

var stAdvRelations = []string{"", "view", "View", "view ", "owner", "r:#@", "ü", "%", "_", "null", "0", "a b", "'", "\"", "\\", "(", "|,;"}

var stUnknownNS = []string{"", "Files", "users", "nope", "files ", " files", "a b:C", "null", "%", "file_"}

type stIter struct {
	kind     string
	net, via int
	q        *stQuery
	size     int
	tok      string
	from     int // index of the fetch that returned tok
	started  bool
}

type stGen struct {
	c    *stCase
	r    *rand.Rand
	objs []int
	rels []string
	nets []int // networks used by this case
	iter *stIter
	// options
	noPersisterUnknownNS bool
}

func stLong(r *rand.Rand) string {
	b := strings.Repeat("x", 299)
	return b + string(rune('a'+r.Intn(3)))
}

func stRandWord(r *rand.Rand) string {
	n := 1 + r.Intn(8)
	b := make([]byte, n)
	for i := range b {
		b[i] = "abcdefghijklmnopqrstuvwxyzABC0123456789-_"[r.Intn(41)]
	}
	return string(b)
}

func newStGen(c *stCase, nets []int) *stGen {
	r := c.r
	g := &stGen{c: c, r: r, nets: nets}
	nObj := 4 + r.Intn(4)
	for len(g.objs) < nObj {
		var s string
		switch x := r.Intn(10); {
		case x < 5:
			s = pick(r, stAdvStrings)
		case x < 6:
			s = stLong(r)
		default:
			s = stRandWord(r)
		}
		id := c.intern(s)
		dup := false
		for _, o := range g.objs {
			dup = dup || o == id
		}
		if !dup {
			g.objs = append(g.objs, id)
		}
	}
	// near-duplicates: case, trailing space
	if r.Intn(2) == 0 {
		s := c.str(pick(r, g.objs))
		for _, v := range []string{strings.ToUpper(s), s + " ", strings.ToLower(s)} {
			if v != s && len(v) < 400 {
				g.objs = append(g.objs, c.intern(v))
				break
			}
		}
	}
	nRel := 2 + r.Intn(3)
	for len(g.rels) < nRel {
		s := pick(r, stAdvRelations)
		if r.Intn(3) == 0 {
			s = stRandWord(r)
		}
		dup := false
		for _, o := range g.rels {
			dup = dup || o == s
		}
		if !dup {
			g.rels = append(g.rels, s)
		}
	}
	return g
}

func (g *stGen) ns(valid bool) string {
	if valid {
		return pick(g.r, g.c.env.cfg)
	}
	return pick(g.r, stUnknownNS)
}

func (g *stGen) obj() int {
	if g.r.Intn(25) == 0 {
		return g.c.intern(stRandWord(g.r))
	}
	return pick(g.r, g.objs)
}

func (g *stGen) sub(validNS bool) stSub {
	if g.r.Intn(100) < 62 {
		return stSub{id: g.obj()}
	}
	return stSub{set: true, ns: g.ns(validNS), obj: g.obj(), rel: pick(g.r, g.rels)}
}

// tuple makes a tuple; with valid == false one of its namespaces may be unknown.
func (g *stGen) tuple(valid bool) stTuple {
	nsOK, subOK := true, true
	if !valid {
		switch g.r.Intn(3) {
		case 0:
			nsOK = false
		case 1:
			subOK = false
		}
	}
	return stTuple{ns: g.ns(nsOK), obj: g.obj(), rel: pick(g.r, g.rels), sub: g.sub(subOK)}
}

func (g *stGen) rowsOf(net int) []stRow {
	var out []stRow
	for _, r := range g.c.rows {
		if r.net == net {
			out = append(out, r)
		}
	}
	return out
}

// existing picks a stored tuple of the network (ok == false if there is none).
func (g *stGen) existing(net int) (stTuple, bool) {
	rows := g.rowsOf(net)
	if len(rows) == 0 {
		return stTuple{}, false
	}
	return pick(g.r, rows).t, true
}

func (g *stGen) net() int { return pick(g.r, g.nets) }

// query makes a query; mask bit i set = field i present (ns, obj, rel, sub); mask < 0 = random.
func (g *stGen) query(net int, api bool, mask int) *stQuery {
	r := g.r
	base, ok := g.existing(net)
	if !ok || r.Intn(10) < 3 {
		base = g.tuple(true)
	}
	if mask < 0 {
		mask = 0
		for i, p := range []int{50, 35, 35, 30} {
			if r.Intn(100) < p {
				mask |= 1 << i
			}
		}
		if r.Intn(8) == 0 {
			// a fully specified query; over a relationship that is stored more than once when
			// there is one (the table is a multiset: every copy is listed)
			mask = 15
			rows := g.rowsOf(net)
			seen := map[stTuple]int{}
			for _, row := range rows {
				seen[row.t]++
			}
			for _, row := range rows {
				if seen[row.t] > 1 {
					base = row.t
					break
				}
			}
		}
	}
	q := &stQuery{}
	if mask&1 != 0 {
		s := base.ns
		if r.Intn(12) == 0 {
			s = g.ns(true)
		}
		if r.Intn(100) < 6 && (api || !g.noPersisterUnknownNS) {
			s = g.ns(false)
		}
		q.ns = &s
	}
	if mask&2 != 0 {
		o := base.obj
		if r.Intn(8) == 0 {
			o = g.obj()
		}
		q.obj = &o
	}
	if mask&4 != 0 {
		s := base.rel
		if r.Intn(8) == 0 {
			s = pick(r, g.rels)
		}
		q.rel = &s
	}
	if mask&8 != 0 {
		s := base.sub
		switch r.Intn(12) {
		case 0:
			s = g.sub(true)
		case 1:
			s = g.sub(false)
		}
		q.sub = &s
	}
	return q
}

func (g *stGen) pageSize(n int) int {
	r := g.r
	if r.Intn(60) == 0 {
		return pick(r, []int{1000, 2147483647, 2147483646})
	}
	switch x := r.Intn(100); {
	case x < 14:
		return 0
	case x < 20:
		return pick(r, []int{-1, -5})
	case x < 28:
		return pick(r, []int{100, 101})
	}
	return 1 + r.Intn(n+1)
}

func (g *stGen) randUUID() uuid.UUID {
	var u uuid.UUID
	for i := range u {
		u[i] = byte(g.r.Intn(256))
	}
	return u
}

func (g *stGen) pageToken(net int) string {
	r := g.r
	rows := g.rowsOf(net)
	var anchor uuid.UUID
	if len(rows) > 0 && r.Intn(4) != 0 {
		anchor = pick(r, rows).shard
	} else {
		anchor = g.randUUID()
	}
	switch x := r.Intn(100); {
	case x < 40:
		return ""
	case x < 62:
		return anchor.String()
	case x < 67:
		return uuid.Nil.String()
	case x < 74:
		return strings.ToUpper(anchor.String())
	case x < 80:
		return strings.ReplaceAll(anchor.String(), "-", "")
	case x < 84:
		return "urn:uuid:" + anchor.String()
	case x < 88:
		return "{" + anchor.String() + "}"
	case x < 92:
		return anchor.String() + "x"
	}
	return pick(r, []string{"abc", "123", " ", "0", anchor.String()[:35], "ffffffff-ffff-ffff-ffff-ffffffffffff"})
}

// --- write items ------------------------------------------------------------

func (g *stGen) itemC(net int) *stItem {
	r := g.r
	it := &stItem{kind: "C", net: net}
	switch x := r.Intn(100); {
	case x < 3:
		it.raw = pick(r, []string{"null", "{}", " null ", "{ }"})
		it.at = &stATuple{obj: g.c.intern("")}
		return it
	case x < 80:
		it.at = stFromTuple(g.tuple(true))
	case x < 88:
		it.at = stFromTuple(g.tuple(false))
	case x < 94: // neither subject
		t := g.tuple(r.Intn(4) != 0)
		it.at = &stATuple{ns: t.ns, obj: t.obj, rel: t.rel}
	default: // both
		t := g.tuple(true)
		id := g.obj()
		it.at = &stATuple{ns: t.ns, obj: t.obj, rel: t.rel, sid: &id,
			sset: &stSet{ns: g.ns(r.Intn(2) == 0), obj: g.obj(), rel: pick(r, g.rels)}}
	}
	return it
}

func (g *stGen) itemD(net int) *stItem {
	mask := g.r.Intn(16)
	if g.r.Intn(2) == 0 {
		mask |= 1
	}
	return &stItem{kind: "D", net: net, q: g.query(net, true, mask)}
}

// deltas makes n deltas; rest selects the REST spelling of the defects.
func (g *stGen) deltas(net, n int, rest bool) []*stDelta {
	r := g.r
	ds := make([]*stDelta, 0, n)
	var inserted []stTuple
	pIns := 62
	if n > 50 && r.Intn(2) == 0 {
		pIns = 25 // more than one delete chunk
	}
	for i := 0; i < n; i++ {
		d := &stDelta{}
		if r.Intn(100) < pIns {
			d.action, d.actionStr = "i", "insert"
			t := g.tuple(true)
			if len(inserted) > 0 && r.Intn(8) == 0 {
				t = pick(r, inserted) // duplicate
			}
			inserted = append(inserted, t)
			d.t = stFromTuple(t)
		} else {
			d.action, d.actionStr = "d", "delete"
			t, ok := g.existing(net)
			switch x := r.Intn(10); {
			case ok && x < 6:
			case len(inserted) > 0 && x < 8:
				t = pick(r, inserted) // inserted and deleted in one request
			default:
				t = g.tuple(true)
			}
			d.t = stFromTuple(t)
		}
		ds = append(ds, d)
	}
	// defects
	if n > 0 && r.Intn(100) < 30 {
		for k := 1 + r.Intn(2); k > 0; k-- {
			d := ds[r.Intn(n)]
			switch r.Intn(8) {
			case 0: // unknown namespace
				d.t = stFromTuple(g.tuple(false))
			case 1: // no subject
				d.t = &stATuple{ns: d.tNS(g), obj: g.obj(), rel: pick(r, g.rels)}
			case 2: // unknown action
				d.action = "o"
				if rest {
					d.actionStr = pick(r, []string{"", "upsert", "INSERT", "Insert", "insert ", "delete\n", "0"})
				} else if r.Intn(3) == 0 {
					d.actionStr = "7"
				}
			case 3: // null tuple
				d.t = nil
				d.omitTuple = r.Intn(2) == 0
			case 4: // null delta (REST only)
				if rest {
					*d = stDelta{action: "o", nullDelta: true}
				} else {
					d.t = nil
				}
			case 5: // both subjects
				if d.t != nil && rest {
					id := g.obj()
					d.t.sid = &id
					d.t.sset = &stSet{ns: g.ns(r.Intn(2) == 0), obj: g.obj(), rel: pick(r, g.rels)}
				}
			case 6: // unknown action without tuple
				d.action, d.t = "o", nil
				d.actionStr = "noop"
			case 7: // unknown action on an invalid tuple (ignored by gRPC)
				d.action, d.actionStr = "o", "other"
				d.t = &stATuple{ns: g.ns(false), obj: g.obj(), rel: pick(r, g.rels)}
			}
		}
	}
	return ds
}

func (d *stDelta) tNS(g *stGen) string {
	if d.t != nil {
		return d.t.ns
	}
	return g.ns(true)
}

func (g *stGen) nDeltas() int {
	r := g.r
	switch x := r.Intn(100); {
	case x < 3:
		return 0
	case x < 96:
		return 1 + r.Intn(8)
	}
	return pick(r, []int{99, 100, 101, 150, 201, 250})
}

func (g *stGen) itemP(net int) *stItem {
	return &stItem{kind: "P", net: net, ds: g.deltas(net, g.nDeltas(), true)}
}

func (g *stGen) itemT(net int) *stItem {
	return &stItem{kind: "T", net: net, ds: g.deltas(net, g.nDeltas(), false)}
}

func (g *stGen) itemG(net int) *stItem {
	it := &stItem{kind: "G", net: net, via: 1 + g.r.Intn(2)}
	if g.r.Intn(12) == 0 {
		return it // neither form
	}
	it.q = g.query(net, true, -1)
	return it
}

func (g *stGen) intTuple() stTuple {
	return g.tuple(g.noPersisterUnknownNS || g.r.Intn(6) != 0)
}

func (g *stGen) intTuples(n int) []stTuple {
	out := make([]stTuple, n)
	for i := range out {
		out[i] = g.intTuple()
		if i > 0 && g.r.Intn(10) == 0 {
			out[i] = out[g.r.Intn(i)]
		}
	}
	return out
}

func (g *stGen) delTuples(net, n int) []stTuple {
	out := make([]stTuple, n)
	for i := range out {
		if t, ok := g.existing(net); ok && g.r.Intn(10) < 7 {
			out[i] = t
		} else {
			out[i] = g.intTuple()
		}
	}
	return out
}

func stStringsOf(ts []stTuple) []int {
	var out []int
	for _, t := range ts {
		if t.sub.set {
			out = append(out, t.sub.obj)
		} else {
			out = append(out, t.sub.id)
		}
		out = append(out, t.obj)
	}
	return out
}

// ensureMapped issues the MS item that must precede a persister write.
func (g *stGen) ensureMapped(net int, ts []stTuple) {
	var need []int
	seen := map[int]bool{}
	for _, id := range stStringsOf(ts) {
		if !g.c.mapped[net][id] && !seen[id] {
			seen[id] = true
			need = append(need, id)
		}
	}
	if len(need) == 0 && g.r.Intn(10) != 0 {
		return
	}
	if g.r.Intn(3) == 0 && len(need) > 0 { // duplicates and already mapped strings
		need = append(need, need[g.r.Intn(len(need))], g.obj())
	}
	g.c.run(&stItem{kind: "MS", net: net, strs: need})
}

func (g *stGen) smallN() int {
	r := g.r
	switch x := r.Intn(100); {
	case x < 4:
		return 0
	case x < 96:
		return 1 + r.Intn(6)
	}
	return pick(r, []int{100, 101, 201})
}

func (g *stGen) itemW(net int) *stItem {
	ts := g.intTuples(g.smallN())
	g.ensureMapped(net, ts)
	return &stItem{kind: "W", net: net, ins: ts}
}

func (g *stGen) itemX(net int) *stItem {
	return &stItem{kind: "X", net: net, del: g.delTuples(net, g.smallN())}
}

func (g *stGen) itemY(net int) *stItem {
	ins := g.intTuples(g.smallN())
	del := g.delTuples(net, g.r.Intn(5))
	if len(ins) > 0 && g.r.Intn(4) == 0 {
		del = append(del, ins[g.r.Intn(len(ins))])
	}
	g.ensureMapped(net, ins)
	return &stItem{kind: "Y", net: net, ins: ins, del: del}
}

func (g *stGen) itemA(net int) *stItem {
	return &stItem{kind: "A", net: net, q: g.query(net, false, -1)}
}

func (g *stGen) itemMS(net int) *stItem {
	n := g.r.Intn(5)
	ids := make([]int, n)
	for i := range ids {
		ids[i] = g.obj()
	}
	return &stItem{kind: "MS", net: net, strs: ids}
}

// itemM is a request rejected while decoding.
func (g *stGen) itemM(net int) *stItem {
	r := g.r
	it := &stItem{kind: "M", net: net}
	c := g.c
	full := func() url.Values { return c.urlQuery(g.query(net, true, 1|r.Intn(8))) }
	variant := r.Intn(10)
	g.c.env.o.Count(fmt.Sprintf("malformed:%d", variant))
	switch variant {
	case 0:
		body := pick(r, []string{`{"namespace":`, `[`, `{"namespace":1}`, `"str"`, `{"subject_set":"x"}`, `tru`, `{"subject_id":{}}`, `[]`, `{"object":null,"relation":5}`, "\x00"})
		it.fn = func(c *stCase) string {
			code, _ := c.rest(c.env.nets[net].write, "PUT", "/admin/relation-tuples", nil, body)
			return stHTTPStatus(code)
		}
	case 1:
		body := pick(r, []string{`{}`, `[{"action":1}]`, `[`, `"x"`, `[{"relation_tuple":[]}]`, `[1]`, `[{"action":"insert","relation_tuple":{"namespace":[]}}]`, `[{"action":"insert"},`, `{"action":"insert"}`})
		it.fn = func(c *stCase) string {
			code, _ := c.rest(c.env.nets[net].write, "PATCH", "/admin/relation-tuples", nil, body)
			return stHTTPStatus(code)
		}
	case 2, 3: // dropped key `subject`
		v := full()
		v.Set("subject", c.str(g.obj()))
		it.fn = g.delOrGet(net, variant == 2, v, "")
	case 4: // subject_id and subject_set.*
		v := full()
		v.Del("subject_set.namespace")
		v.Del("subject_set.object")
		v.Del("subject_set.relation")
		v.Set("subject_id", c.str(g.obj()))
		for _, k := range [][]string{{"subject_set.namespace"}, {"subject_set.object"}, {"subject_set.relation"}, {"subject_set.namespace", "subject_set.object", "subject_set.relation"}}[r.Intn(4)] {
			v.Set(k, "files")
		}
		it.fn = g.delOrGet(net, r.Intn(2) == 0, v, "")
	case 5: // incomplete subject set
		v := full()
		v.Del("subject_id")
		v.Set("subject_set.namespace", "files")
		v.Set("subject_set.object", c.str(g.obj()))
		v.Set("subject_set.relation", pick(r, g.rels))
		v.Del(pick(r, []string{"subject_set.namespace", "subject_set.object", "subject_set.relation"}))
		if r.Intn(3) == 0 {
			v.Del(pick(r, []string{"subject_set.namespace", "subject_set.object", "subject_set.relation"}))
			if !v.Has("subject_set.namespace") && !v.Has("subject_set.object") && !v.Has("subject_set.relation") {
				v.Set("subject_set.object", "x")
			}
		}
		it.fn = g.delOrGet(net, r.Intn(2) == 0, v, "")
	case 6: // unknown key
		v := full()
		v.Set(pick(r, []string{"foo", "page_size", "page_token", "Namespace", "subject_set", "max-depth"}), "1")
		it.fn = g.delOrGet(net, true, v, "")
	case 7: // non-empty body
		v := full()
		it.fn = g.delOrGet(net, true, v, pick(r, []string{"x", "{}", " ", "null"}))
	default: // page size that is no number
		v := full()
		v.Set("page_size", pick(r, []string{"abc", "1.5", "1e2", " 1", "99999999999999999999", "0x", "--1"}))
		it.fn = g.delOrGet(net, false, v, "")
	}
	return it
}

func (g *stGen) delOrGet(net int, del bool, v url.Values, body string) func(c *stCase) string {
	return func(c *stCase) string {
		n := c.env.nets[net]
		if del {
			code, _ := c.rest(n.write, "DELETE", "/admin/relation-tuples", v, body)
			return stHTTPStatus(code)
		}
		code, _ := c.rest(n.read, "GET", "/relation-tuples", v, "")
		return stHTTPStatus(code)
	}
}

// --- read items ---------------------------------------------------------------

func (g *stGen) listQuery(it *stItem) {
	it.via = g.r.Intn(3)
	if it.via != 0 && g.r.Intn(15) == 0 {
		return // gRPC request without query
	}
	it.q = g.query(it.net, true, -1)
}

func (g *stGen) itemL(net int) *stItem {
	it := &stItem{kind: "L", net: net, size: g.pageSize(len(g.rowsOf(net))), tok: g.pageToken(net)}
	g.listQuery(it)
	g.hugeSize(it)
	return it
}

func (g *stGen) itemLA(net int) *stItem {
	it := &stItem{kind: "LA", net: net, size: g.pageSize(len(g.rowsOf(net)))}
	g.listQuery(it)
	g.hugeSize(it)
	return it
}

func (g *stGen) itemPL(net int) *stItem {
	it := &stItem{kind: "PL", net: net, q: g.query(net, false, -1), size: g.pageSize(len(g.rowsOf(net))), tok: g.pageToken(net)}
	g.hugeSize(it)
	return it
}

// hugeSize: sizes beyond int32 exist only where the size travels as an int (REST, Persister):
// PerPage+1 overflows for MaxInt64.
func (g *stGen) hugeSize(it *stItem) {
	if (it.kind == "PL" || it.via == 0) && g.r.Intn(70) == 0 {
		it.size = pick(g.r, []int{math.MaxInt64, math.MaxInt64 - 1, 1 << 32})
	}
}

func (g *stGen) itemE(net int) *stItem {
	return &stItem{kind: "E", net: net, q: g.query(net, false, -1)}
}

// startIter begins a paginated iteration (C07): small pages over a table of >= 4 rows.
func (g *stGen) startIter(net int) bool {
	rows := g.rowsOf(net)
	if len(rows) < 4 {
		return false
	}
	r := g.r
	it := &stIter{net: net, size: 1 + r.Intn(3)}
	mask := 0
	if r.Intn(2) == 0 {
		mask = 1 << r.Intn(3)
	}
	if r.Intn(2) == 0 {
		it.kind = "PL"
		it.q = g.query(net, false, mask)
	} else {
		it.kind = "L"
		it.via = r.Intn(3)
		it.q = g.query(net, true, mask)
	}
	g.iter = it
	g.c.env.o.Count("iter:start")
	g.stepIter()
	return true
}

// stepIter fetches the next page of the running iteration.
func (g *stGen) stepIter() {
	s := g.iter
	q := *s.q
	it := &stItem{kind: s.kind, net: s.net, via: s.via, q: &q, size: s.size, tok: s.tok, refSet: s.started, ref: s.from}
	idx := g.c.n
	g.c.run(it)
	g.c.env.o.Count("iter:fetch")
	if it.status != "ok" || it.next == "" {
		g.iter = nil
		g.c.env.o.Count("iter:end:" + it.status)
		return
	}
	s.tok, s.from, s.started = it.next, idx, true
}

type stWeights map[string]int

var stDefaultWeights = stWeights{"C": 10, "P": 14, "T": 10, "D": 6, "G": 4, "W": 8, "Y": 6, "X": 4, "A": 3, "MS": 2, "M": 4,
	"L": 8, "PL": 5, "E": 4, "LA": 4, "iter": 7}

var stKindOrder = []string{"C", "P", "T", "D", "G", "W", "Y", "X", "A", "MS", "M", "L", "PL", "E", "LA", "iter"}

func (g *stGen) pickKind(w stWeights) string {
	tot := 0
	for _, k := range stKindOrder {
		tot += w[k]
	}
	x := g.r.Intn(tot)
	for _, k := range stKindOrder {
		if x < w[k] {
			return k
		}
		x -= w[k]
	}
	return "C"
}

func stIsWrite(k string) bool {
	switch k {
	case "C", "P", "T", "D", "G", "W", "Y", "X", "A":
		return true
	}
	return false
}

func (g *stGen) item(kind string, net int) *stItem {
	switch kind {
	case "C":
		return g.itemC(net)
	case "P":
		return g.itemP(net)
	case "T":
		return g.itemT(net)
	case "D":
		return g.itemD(net)
	case "G":
		return g.itemG(net)
	case "W":
		return g.itemW(net)
	case "Y":
		return g.itemY(net)
	case "X":
		return g.itemX(net)
	case "A":
		return g.itemA(net)
	case "MS":
		return g.itemMS(net)
	case "M":
		return g.itemM(net)
	case "L":
		return g.itemL(net)
	case "PL":
		return g.itemPL(net)
	case "E":
		return g.itemE(net)
	case "LA":
		return g.itemLA(net)
	}
	panic("store: kind " + kind)
}

// history runs a mixed history of about `target` items.
func (g *stGen) history(target int, w stWeights) {
	c := g.c
	for c.n < target {
		if g.iter != nil && g.r.Intn(100) < 55 {
			g.stepIter()
			continue
		}
		kind := g.pickKind(w)
		if c.n < 3 && g.r.Intn(3) != 0 {
			kind = pick(g.r, []string{"P", "T", "W", "C"})
		}
		net := g.net()
		if kind == "iter" {
			if g.iter != nil || !g.startIter(net) {
				continue
			}
			continue
		}
		if g.iter != nil && stIsWrite(kind) {
			net = g.iter.net // the interleaved writes go to the iterated network (mostly)
			if len(g.nets) > 1 && g.r.Intn(4) == 0 {
				net = g.net()
			}
		}
		it := g.item(kind, net)
		c.run(it)
		if stIsWrite(kind) && g.r.Intn(100) < 70 {
			c.run(g.itemLA(net))
		}
	}
}

// --- large histories (C07) -------------------------------------------------------
//
// A table with more than 1000 (and more than 2000) matching rows in one namespace, listed with page sizes
// above 1000: any internal cap on the number of rows one list query pulls (a LIMIT smaller than page_size+1
// while the has-more test still compares with page_size, a fixed 1000-row buffer, ...) loses rows or ends the
// iteration early only in this region. About 1 in 60 histories of the `store` stream, and always history 7.

var stLargeSizes = []int{1000, 1001, 1002, 1500, 2000, 2147483647}

func stIsLargeHistory(r *rand.Rand, i int) bool {
	return i == 7 || r.Intn(60) == 0
}

func (g *stGen) largeHistory() {
	c, r := g.c, g.r
	net := g.nets[0]
	o := c.env.o
	n := 1100 + r.Intn(1201)
	if envInt("VERIF_STORE_LARGE_N", 0) > 0 {
		n = envInt("VERIF_STORE_LARGE_N", 0)
	}
	o.Count("large:histories")
	o.Count(fmt.Sprintf("large:rows:%d00+", n/100))
	ns := g.ns(true)
	rel := pick(r, g.rels)
	subs := []stSub{{id: g.obj()}, {id: g.obj()}, {set: true, ns: g.ns(true), obj: g.obj(), rel: pick(r, g.rels)}}
	ts := make([]stTuple, n)
	for i := range ts {
		ts[i] = stTuple{ns: ns, obj: c.intern(fmt.Sprintf("L%d", i)), rel: rel, sub: subs[i%len(subs)]}
		if i%97 == 96 {
			ts[i].rel = g.rels[(i/97)%len(g.rels)] // a few rows outside a (ns, rel) query
		}
		if i > 0 && i%211 == 0 {
			ts[i] = ts[i-1] // duplicates
		}
	}
	// a few rows of other namespaces first, so that "all rows" and "rows of ns" differ
	c.run(g.itemC(net))
	c.run(g.itemW(net))
	// the bulk: one or two ops, through the Persister or through PATCH
	parts := [][]stTuple{ts}
	if r.Intn(2) == 0 {
		k := 1 + r.Intn(n-1)
		parts = [][]stTuple{ts[:k], ts[k:]}
	}
	for _, part := range parts {
		if r.Intn(2) == 0 {
			g.ensureMapped(net, part)
			c.run(&stItem{kind: "W", net: net, ins: part})
		} else {
			ds := make([]*stDelta, len(part))
			for i, t := range part {
				ds[i] = &stDelta{action: "i", actionStr: "insert", t: stFromTuple(t)}
			}
			c.run(&stItem{kind: "P", net: net, ds: ds})
		}
	}
	nsQ := func() *stQuery { s := ns; return &stQuery{ns: &s} }
	queries := []func() *stQuery{
		func() *stQuery { return &stQuery{} },
		nsQ,
		func() *stQuery { q := nsQ(); s := rel; q.rel = &s; return q },
		func() *stQuery { q := nsQ(); s := subs[0]; q.sub = &s; return q },
	}
	sizes := append([]int{}, stLargeSizes...)
	r.Shuffle(len(sizes), func(i, j int) { sizes[i], sizes[j] = sizes[j], sizes[i] })
	sizes = append(sizes[:3+r.Intn(2)], pick(r, []int{0, 100, 101, 250, 999}))
	// complete listings through the API
	for _, sz := range sizes {
		q := queries[r.Intn(2)]() // everything / the namespace: more than 1000 matches
		if r.Intn(4) == 0 {
			q = pick(r, queries)()
		}
		c.run(&stItem{kind: "LA", net: net, via: r.Intn(3), q: q, size: sz})
		o.Count(fmt.Sprintf("large:LA:size:%d", sz))
	}
	// token-following iterations through single L / PL fetches, with a write of other rows in between
	for k := 0; k < 2; k++ {
		sz := pick(r, stLargeSizes[:5])
		it := &stIter{net: net, size: sz, kind: pick(r, []string{"L", "PL"}), via: r.Intn(3), q: queries[r.Intn(2)]()}
		g.iter = it
		o.Count("iter:start")
		o.Count(fmt.Sprintf("large:iter:size:%d", sz))
		g.stepIter()
		for fetches := 1; g.iter != nil && fetches < 6; fetches++ {
			if r.Intn(2) == 0 {
				c.run(g.itemW(net))
			}
			g.stepIter()
		}
		g.iter = nil
	}
	// single pages with an arbitrary well-formed token and a large size
	c.run(&stItem{kind: "PL", net: net, q: nsQ(), size: pick(r, stLargeSizes), tok: g.randUUID().String()})
}
