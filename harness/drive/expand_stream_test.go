package drive

import (
	"testing"
)

// The payload of an expand case survives printing and parsing.
func TestExpandPayloadRoundTrip(t *testing.T) {
	r := newRand()
	for i := 0; i < 200; i++ {
		ts, s, _ := genExpGraph(r, nil)
		c := &ExpCase{GDepth: 1 + r.Intn(8), RDepth: r.Intn(12) - 1, PageSize: r.Intn(3), Tuples: ts, Subject: s}
		p, err := ParseExpCase(c.Payload())
		if err != nil {
			t.Fatalf("case %d: %v", i, err)
		}
		if p.Payload() != c.Payload() {
			t.Fatalf("case %d: payload changed:\n%s\n%s", i, c.Payload(), p.Payload())
		}
	}
}

// The witness of the known finding F-expand-order on the implementation: with the
// storage order A before B the reachable subject id is missing from the tree of
// depth 3, with B before A it is there.
func TestExpandOrderWitness(t *testing.T) {
	e := newExpEnv(t)
	g := func(o int) expNode { return expNode{"g", o, "m"} }
	S, A, B := g(0), g(1), g(2)
	u := Sub{ID: 9}
	for _, tc := range []struct {
		name   string
		tuples []Tup
		leaves string
	}{
		{"A-first", []Tup{edge(S, A.sub()), edge(S, B.sub()), edge(A, B.sub()), edge(B, u)}, ""},
		{"B-first", []Tup{edge(S, B.sub()), edge(S, A.sub()), edge(A, B.sub()), edge(B, u)}, "9"},
	} {
		c := &ExpCase{GDepth: 3, Tuples: tc.tuples, Subject: S.sub()}
		c.NSs = legacyNamespaces(c.Tuples, c.Subject)
		if err := e.loadNamespaces(c, nil); err != nil {
			t.Fatal(err)
		}
		forced, err := e.store(c, true)
		if err != nil || !forced {
			t.Fatalf("%s: could not force the storage order: %v", tc.name, err)
		}
		tree, _, errs := e.runEngine(c)
		if errs != "" {
			t.Fatalf("%s: %s", tc.name, errs)
		}
		if got := intSet(idsBelow(tree)); got != tc.leaves {
			t.Errorf("%s: leaves %q, expected %q (tree %s)", tc.name, got, tc.leaves, renderTree(tree))
		}
		if got := e.checkLeaves(c); got != "9" {
			t.Errorf("%s: check says %q", tc.name, got)
		}
	}
}
