package drive

// Stream `mapper` (component `mapper`, property C16): the string <-> UUID mapping.
//
//	mapper <id> rt  <pageSize> <seed> NS <k> <ns>… P <m> <str>… B <n> <tuple>…
//	mapper <id> e2e <pageSize> <seed> NS <k> <ns>… B <n> <tuple>… X <ns> <obj> <rel>
//
// rt:  the batch goes through the real ReadOnlyMapper().FromTuple → ToTuple (before anything is
//      written), then through Mapper().FromTuple → ToTuple on in-memory sqlite.
// e2e: the batch is written through the REST write router (PATCH, or PUT for one tuple) and read
//      back through REST list, gRPC list, REST list filtered by X, REST + gRPC expand of X.
//
// Columns (same keys and format as the Lean driver's, see lean/Driver/Mapper.lean):
//	rt:  err rt ids ro new same rotbl        e2e: wr rest grpc qo exp expg rdtbl

import (
	"bytes"
	"context"
	"crypto/sha256"
	"encoding/hex"
	"encoding/json"
	"errors"
	"fmt"
	"io"
	"math/rand"
	"net/http"
	"net/http/httptest"
	"net/url"
	"sort"
	"strconv"
	"strings"
	"testing"
	"unicode/utf8"

	"github.com/gofrs/uuid"

	"github.com/ory/keto/internal/driver"
	"github.com/ory/keto/internal/driver/config"
	"github.com/ory/keto/internal/expand"
	"github.com/ory/keto/internal/namespace"
	ksql "github.com/ory/keto/internal/persistence/sql"
	"github.com/ory/keto/internal/relationtuple"
	"github.com/ory/keto/ketoapi"
	rts "github.com/ory/keto/proto/ory/keto/relation_tuples/v1alpha2"
)

func init() {
	streams["mapper"] = streamMapper
}

// ---------------------------------------------------------------- cases

// mpTup is one element of a batch. Kind: 'z' nil tuple, 'n' no subject, 'i' subject id,
// 's' subject set, 'b' both subject fields set.
type mpTup struct {
	Kind           byte
	NS, Obj, Rel   string
	SID            string
	SNS, SObj, SRl string
}

type mpCase struct {
	Op       string // rt | e2e
	PageSize int
	Seed     int
	NSs      []string
	Pre      []string
	Batch    []mpTup
	X        [3]string
}

func (t mpTup) tokens() string {
	if t.Kind == 'z' {
		return "z"
	}
	head := fmt.Sprintf("t %s %s %s ", S(t.NS), S(t.Obj), S(t.Rel))
	switch t.Kind {
	case 'n':
		return head + "n"
	case 'i':
		return head + "i " + S(t.SID)
	case 's':
		return head + fmt.Sprintf("s %s %s %s", S(t.SNS), S(t.SObj), S(t.SRl))
	default:
		return head + fmt.Sprintf("b %s %s %s %s", S(t.SID), S(t.SNS), S(t.SObj), S(t.SRl))
	}
}

func (t mpTup) api() *ketoapi.RelationTuple {
	if t.Kind == 'z' {
		return nil
	}
	r := &ketoapi.RelationTuple{Namespace: t.NS, Object: t.Obj, Relation: t.Rel}
	if t.Kind == 'i' || t.Kind == 'b' {
		s := t.SID
		r.SubjectID = &s
	}
	if t.Kind == 's' || t.Kind == 'b' {
		r.SubjectSet = &ketoapi.SubjectSet{Namespace: t.SNS, Object: t.SObj, Relation: t.SRl}
	}
	return r
}

// strs are the strings the mapper maps for this tuple (subject name first, then object).
func (t mpTup) strs() []string {
	switch t.Kind {
	case 'z':
		return nil
	case 'n':
		return []string{"", t.Obj}
	case 'i', 'b':
		return []string{t.SID, t.Obj}
	default:
		return []string{t.SObj, t.Obj}
	}
}

func (c *mpCase) Payload() string {
	var sb strings.Builder
	fmt.Fprintf(&sb, "%s %d %d NS %d", c.Op, c.PageSize, c.Seed, len(c.NSs))
	for _, n := range c.NSs {
		sb.WriteString(" " + S(n))
	}
	if c.Op == "rt" {
		fmt.Fprintf(&sb, " P %d", len(c.Pre))
		for _, p := range c.Pre {
			sb.WriteString(" " + S(p))
		}
	}
	fmt.Fprintf(&sb, " B %d", len(c.Batch))
	for _, t := range c.Batch {
		sb.WriteString(" " + t.tokens())
	}
	if c.Op == "e2e" {
		fmt.Fprintf(&sb, " X %s %s %s", S(c.X[0]), S(c.X[1]), S(c.X[2]))
	}
	return sb.String()
}

type mpToks struct {
	t []string
	i int
}

func (p *mpToks) next() (string, error) {
	if p.i >= len(p.t) {
		return "", errors.New("unexpected end of line")
	}
	p.i++
	return p.t[p.i-1], nil
}

func (p *mpToks) str() (string, error) {
	t, err := p.next()
	if err != nil {
		return "", err
	}
	return unS(t)
}

func (p *mpToks) num() (int, error) {
	t, err := p.next()
	if err != nil {
		return 0, err
	}
	return strconv.Atoi(t)
}

func (p *mpToks) expect(s string) error {
	t, err := p.next()
	if err != nil {
		return err
	}
	if t != s {
		return fmt.Errorf("expected %q, got %q", s, t)
	}
	return nil
}

func (p *mpToks) strs(n int) ([]string, error) {
	out := make([]string, 0, n)
	for k := 0; k < n; k++ {
		s, err := p.str()
		if err != nil {
			return nil, err
		}
		out = append(out, s)
	}
	return out, nil
}

func parseMpCase(payload string) (c *mpCase, err error) {
	p := &mpToks{t: strings.Fields(payload)}
	c = &mpCase{}
	if c.Op, err = p.next(); err != nil {
		return nil, err
	}
	if c.Op != "rt" && c.Op != "e2e" {
		return nil, fmt.Errorf("unknown op %q", c.Op)
	}
	if c.PageSize, err = p.num(); err != nil {
		return nil, err
	}
	if c.Seed, err = p.num(); err != nil {
		return nil, err
	}
	if err = p.expect("NS"); err != nil {
		return nil, err
	}
	n, err := p.num()
	if err != nil {
		return nil, err
	}
	if c.NSs, err = p.strs(n); err != nil {
		return nil, err
	}
	if c.Op == "rt" {
		if err = p.expect("P"); err != nil {
			return nil, err
		}
		if n, err = p.num(); err != nil {
			return nil, err
		}
		if c.Pre, err = p.strs(n); err != nil {
			return nil, err
		}
	}
	if err = p.expect("B"); err != nil {
		return nil, err
	}
	if n, err = p.num(); err != nil {
		return nil, err
	}
	for k := 0; k < n; k++ {
		tk, err := p.next()
		if err != nil {
			return nil, err
		}
		if tk == "z" {
			c.Batch = append(c.Batch, mpTup{Kind: 'z'})
			continue
		}
		if tk != "t" {
			return nil, fmt.Errorf("bad tuple token %q", tk)
		}
		f, err := p.strs(3)
		if err != nil {
			return nil, err
		}
		t := mpTup{NS: f[0], Obj: f[1], Rel: f[2]}
		kind, err := p.next()
		if err != nil {
			return nil, err
		}
		switch kind {
		case "n":
			t.Kind = 'n'
		case "i":
			t.Kind = 'i'
			if t.SID, err = p.str(); err != nil {
				return nil, err
			}
		case "s", "b":
			t.Kind = kind[0]
			if kind == "b" {
				if t.SID, err = p.str(); err != nil {
					return nil, err
				}
			}
			g, err := p.strs(3)
			if err != nil {
				return nil, err
			}
			t.SNS, t.SObj, t.SRl = g[0], g[1], g[2]
		default:
			return nil, fmt.Errorf("bad subject kind %q", kind)
		}
		c.Batch = append(c.Batch, t)
	}
	if c.Op == "e2e" {
		if err = p.expect("X"); err != nil {
			return nil, err
		}
		x, err := p.strs(3)
		if err != nil {
			return nil, err
		}
		copy(c.X[:], x)
	}
	if p.i != len(p.t) {
		return nil, errors.New("trailing tokens")
	}
	return c, nil
}

// ---------------------------------------------------------------- canonical forms

func mpCanonSet(s *ketoapi.SubjectSet) string {
	return S(s.Namespace) + "," + S(s.Object) + "," + S(s.Relation)
}

func mpCanonSub(sid *string, ss *ketoapi.SubjectSet) string {
	switch {
	case sid == nil && ss == nil:
		return "n"
	case ss == nil:
		return "i:" + S(*sid)
	case sid == nil:
		return "s:" + mpCanonSet(ss)
	}
	return "b:" + S(*sid) + "|" + mpCanonSet(ss)
}

func mpCanonTuple(t *ketoapi.RelationTuple) string {
	if t == nil {
		return "nil"
	}
	return S(t.Namespace) + "," + S(t.Object) + "," + S(t.Relation) + "," + mpCanonSub(t.SubjectID, t.SubjectSet)
}

func mpCanonBatch(ts []*ketoapi.RelationTuple) string {
	out := make([]string, len(ts))
	for i, t := range ts {
		out[i] = mpCanonTuple(t)
	}
	return strings.Join(out, ";")
}

func mpCanonSorted(ts []*ketoapi.RelationTuple) string {
	out := make([]string, len(ts))
	for i, t := range ts {
		out[i] = mpCanonTuple(t)
	}
	sort.Strings(out)
	return strings.Join(out, ";")
}

func mpErrKind(err error) string {
	var sc interface{ StatusCode() int }
	switch {
	case err == nil:
		return "none"
	case errors.Is(err, ketoapi.ErrNilSubject):
		return "nilSubject"
	case errors.Is(err, ketoapi.ErrMalformedInput):
		return "malformed"
	case errors.As(err, &sc) && sc.StatusCode() == http.StatusNotFound:
		return "notFound"
	}
	return "other:" + strings.NewReplacer("\t", " ", "\n", " ").Replace(err.Error())
}

func mpFlatIDs(its []*relationtuple.RelationTuple) []uuid.UUID {
	out := make([]uuid.UUID, 0, 2*len(its))
	for _, t := range its {
		switch s := t.Subject.(type) {
		case *relationtuple.SubjectID:
			out = append(out, s.ID)
		case *relationtuple.SubjectSet:
			out = append(out, s.Object)
		default:
			out = append(out, uuid.Nil)
		}
		out = append(out, t.Object)
	}
	return out
}

// mpClasses numbers the entries by first occurrence (never the UUID values themselves).
func mpClasses(ids []uuid.UUID) string {
	seen := map[uuid.UUID]int{}
	out := make([]string, len(ids))
	for i, id := range ids {
		k, ok := seen[id]
		if !ok {
			k = len(seen)
			seen[id] = k
		}
		out[i] = strconv.Itoa(k)
	}
	return strings.Join(out, ".")
}

func mpB(b bool) string {
	if b {
		return "1"
	}
	return "0"
}

// ---------------------------------------------------------------- environment

type mpEnv struct {
	t      testing.TB
	ctx    context.Context
	reg    *driver.RegistryDefault
	nss    []string
	known  map[string]bool
	read   http.Handler
	write  http.Handler
	nCases int
}

var mpDefaultNSs = []string{"n", "g", "ns \u00fc/#:@"}

func newMpEnv(t testing.TB, nss []string) *mpEnv {
	reg := driver.NewSqliteTestRegistry(t, false)
	quiet(reg)
	ctx := context.Background()
	cfg := make([]*namespace.Namespace, len(nss))
	for i, n := range nss {
		cfg[i] = &namespace.Namespace{Name: n}
	}
	if err := reg.Config(ctx).Set(config.KeyNamespaces, cfg); err != nil {
		t.Fatalf("namespaces: %v", err)
	}
	return &mpEnv{t: t, ctx: ctx, reg: reg, nss: nss, known: map[string]bool{},
		read: reg.ReadRouter(ctx), write: reg.WriteRouter(ctx)}
}

// tableDigest: row count and a digest of the whole mapping table (ordered by id).
func (e *mpEnv) tableDigest() (int, string) {
	var rows []ksql.UUIDMapping
	if err := e.reg.Persister().Connection(e.ctx).RawQuery(
		"SELECT id, string_representation FROM keto_uuid_mappings ORDER BY id").All(&rows); err != nil {
		e.t.Fatalf("dump keto_uuid_mappings: %v", err)
	}
	h := sha256.New()
	for _, r := range rows {
		h.Write(r.ID[:])
		fmt.Fprintf(h, "%d:", len(r.StringRepresentation))
		io.WriteString(h, r.StringRepresentation)
	}
	return len(rows), hex.EncodeToString(h.Sum(nil)[:8])
}

func (e *mpEnv) learn(c *mpCase) {
	for _, t := range c.Batch {
		for _, s := range t.strs() {
			e.known[s] = true
		}
	}
}

// ---------------------------------------------------------------- rt

func mpAPIBatch(c *mpCase) []*ketoapi.RelationTuple {
	out := make([]*ketoapi.RelationTuple, len(c.Batch))
	for i, t := range c.Batch {
		out[i] = t.api()
	}
	return out
}

func (e *mpEnv) roundtrip(m *relationtuple.Mapper, its []*relationtuple.RelationTuple, err error) string {
	if err != nil {
		return "-"
	}
	res, err := m.ToTuple(e.ctx, its...)
	if err != nil {
		return "!" + mpErrKind(err)
	}
	return mpCanonBatch(res)
}

func (e *mpEnv) runRt(c *mpCase, r *rand.Rand) (impl string, o map[string]string) {
	api := mpAPIBatch(c)
	cnt0, dig0 := e.tableDigest()

	// read-only mapper first: nothing of this batch has been written by this case yet
	roM := e.reg.ReadOnlyMapper()
	itsRO, errRO := roM.FromTuple(e.ctx, api...)
	ro := e.roundtrip(roM, itsRO, errRO)
	cnt1, dig1 := e.tableDigest()

	// read-write mapper
	rwM := e.reg.Mapper()
	its, err := rwM.FromTuple(e.ctx, api...)
	back := rwM
	if r.Intn(2) == 0 {
		back = roM // ToTuple is the same code for both; reading back with the other one must not matter
	}
	rt := e.roundtrip(back, its, err)
	ids := "-"
	if err == nil {
		ids = mpClasses(mpFlatIDs(its))
	}
	cnt2, _ := e.tableDigest()
	same := mpErrKind(errRO) == mpErrKind(err)
	if same && err == nil {
		a, b := mpFlatIDs(itsRO), mpFlatIDs(its)
		same = len(a) == len(b)
		for i := 0; same && i < len(a); i++ {
			same = a[i] == b[i]
		}
	}
	if err == nil {
		e.learn(c)
	}
	o = map[string]string{"err": mpErrKind(err)}
	return fmt.Sprintf("err=%s\trt=%s\tids=%s\tro=%s\tnew=%d\tsame=%s\trotbl=%s", mpErrKind(err), rt, ids, ro,
		cnt2-cnt1, mpB(same), mpB(cnt0 == cnt1 && dig0 == dig1)), o
}

// ---------------------------------------------------------------- e2e

func (e *mpEnv) do(h http.Handler, method, target string, body []byte) (int, []byte) {
	var rd io.Reader
	if body != nil {
		rd = bytes.NewReader(body)
	}
	req := httptest.NewRequest(method, target, rd)
	if body != nil {
		req.Header.Set("Content-Type", "application/json")
	}
	rec := httptest.NewRecorder()
	h.ServeHTTP(rec, req)
	return rec.Code, rec.Body.Bytes()
}

func mpStatusKind(code int) string {
	switch {
	case code >= 200 && code < 300:
		return "ok"
	case code == http.StatusNotFound:
		return "notFound"
	case code == http.StatusBadRequest:
		return "badRequest"
	}
	return "status" + strconv.Itoa(code)
}

func (e *mpEnv) restList(q url.Values, pageSize int) (string, error) {
	var all []*ketoapi.RelationTuple
	token := ""
	for page := 0; ; page++ {
		v := url.Values{}
		for k, vs := range q {
			v[k] = vs
		}
		if pageSize != 0 {
			v.Set("page_size", strconv.Itoa(pageSize))
		}
		if token != "" {
			v.Set("page_token", token)
		}
		code, body := e.do(e.read, "GET", relationtuple.ReadRouteBase+"?"+v.Encode(), nil)
		if code != http.StatusOK {
			return mpStatusKind(code), nil
		}
		var resp ketoapi.GetResponse
		if err := json.Unmarshal(body, &resp); err != nil {
			return "", err
		}
		all = append(all, resp.RelationTuples...)
		token = resp.NextPageToken
		if token == "" || page > 2000 {
			break
		}
	}
	return mpCanonSorted(all), nil
}

func (e *mpEnv) grpcList(pageSize int) (string, error) {
	h := relationtuple.NewHandler(e.reg)
	var all []*ketoapi.RelationTuple
	token := ""
	for page := 0; ; page++ {
		resp, err := h.ListRelationTuples(e.ctx, &rts.ListRelationTuplesRequest{
			RelationQuery: &rts.RelationQuery{}, PageSize: int32(pageSize), PageToken: token})
		if err != nil {
			return mpErrKind(err), nil
		}
		for _, pt := range resp.RelationTuples {
			all = append(all, (&ketoapi.RelationTuple{}).FromProto(pt))
		}
		token = resp.NextPageToken
		if token == "" || page > 2000 {
			break
		}
	}
	return mpCanonSorted(all), nil
}

func mpCanonTree(t *ketoapi.Tree[*ketoapi.RelationTuple]) string {
	if t == nil || t.Tuple == nil {
		return "notFound"
	}
	kids := make([]string, len(t.Children))
	for i, c := range t.Children {
		if c == nil || c.Tuple == nil {
			kids[i] = "nil"
			continue
		}
		kids[i] = mpCanonSub(c.Tuple.SubjectID, c.Tuple.SubjectSet)
		if len(c.Children) != 0 {
			kids[i] += "+children"
		}
	}
	sort.Strings(kids)
	return string(t.Type) + ":" + mpCanonSub(t.Tuple.SubjectID, t.Tuple.SubjectSet) + ">" + strings.Join(kids, ";")
}

func (e *mpEnv) restExpand(x [3]string) (string, error) {
	v := url.Values{"namespace": {x[0]}, "object": {x[1]}, "relation": {x[2]}, "max-depth": {"2"}}
	code, body := e.do(e.read, "GET", expand.RouteBase+"?"+v.Encode(), nil)
	if code != http.StatusOK {
		return mpStatusKind(code), nil
	}
	var tree ketoapi.Tree[*ketoapi.RelationTuple]
	if err := json.Unmarshal(body, &tree); err != nil {
		return "", err
	}
	return mpCanonTree(&tree), nil
}

func (e *mpEnv) grpcExpand(x [3]string) string {
	resp, err := expand.NewHandler(e.reg).Expand(e.ctx, &rts.ExpandRequest{
		Subject: rts.NewSubjectSet(x[0], x[1], x[2]), MaxDepth: 2})
	if err != nil {
		return mpErrKind(err)
	}
	if resp.Tree == nil {
		return "notFound"
	}
	return mpCanonTree(ketoapi.TreeFromProto[*ketoapi.RelationTuple](resp.Tree))
}

func (e *mpEnv) runE2e(c *mpCase, r *rand.Rand) (string, error) {
	conn := e.reg.Persister().Connection(e.ctx)
	if err := conn.RawQuery("DELETE FROM keto_relation_tuples").Exec(); err != nil {
		return "", err
	}
	api := mpAPIBatch(c)
	var code int
	if len(api) == 1 && r.Intn(2) == 0 {
		body, err := json.Marshal(api[0])
		if err != nil {
			return "", err
		}
		code, _ = e.do(e.write, "PUT", relationtuple.WriteRouteBase, body)
	} else {
		deltas := make([]*ketoapi.PatchDelta, len(api))
		for i, t := range api {
			deltas[i] = &ketoapi.PatchDelta{Action: ketoapi.ActionInsert, RelationTuple: t}
		}
		body, err := json.Marshal(deltas)
		if err != nil {
			return "", err
		}
		code, _ = e.do(e.write, "PATCH", relationtuple.WriteRouteBase, body)
	}
	wr := mpStatusKind(code)
	if wr != "ok" {
		var rows []*ksql.RelationTuple
		if err := conn.RawQuery("SELECT shard_id, nid FROM keto_relation_tuples").All(&rows); err != nil {
			return "", err
		}
		if len(rows) != 0 {
			wr += "+stored" + strconv.Itoa(len(rows))
		}
		return fmt.Sprintf("wr=%s\trest=-\tgrpc=-\tqo=-\texp=-\texpg=-\trdtbl=1", wr), nil
	}
	e.learn(c)
	cnt0, dig0 := e.tableDigest()
	sizes := []int{0, 7, 100, 101, 1000}
	rest, err := e.restList(url.Values{}, pick(r, sizes))
	if err != nil {
		return "", err
	}
	grpc, err := e.grpcList(pick(r, sizes))
	if err != nil {
		return "", err
	}
	qo, err := e.restList(url.Values{"namespace": {c.X[0]}, "object": {c.X[1]}, "relation": {c.X[2]}}, pick(r, sizes))
	if err != nil {
		return "", err
	}
	exp, err := e.restExpand(c.X)
	if err != nil {
		return "", err
	}
	expg := e.grpcExpand(c.X)
	cnt1, dig1 := e.tableDigest()
	return fmt.Sprintf("wr=ok\trest=%s\tgrpc=%s\tqo=%s\texp=%s\texpg=%s\trdtbl=%s", rest, grpc, qo, exp, expg,
		mpB(cnt0 == cnt1 && dig0 == dig1)), nil
}

// ---------------------------------------------------------------- generator

var mpAdvStrings = []string{
	"", " ", "  ", "a", "A", "a ", " a", "alice", "Alice", "ALICE", "bob",
	"doc:1", "doc#view", "n:o#r@s", "(a)", "a)b", "a)", "a@b", "#", "@", ":", "(", ")", "a:b#c@(d:e#f)",
	"\u00e9", "e\u0301", // NFC / NFD of the same glyph
	"\u0430",            // Cyrillic a
	"\u00df", "ss", "SS", "\u0130", "i\u0307", "\u0131", "\ufb01", "fi",
	"\u0000", "a\u0000", "a\u0000b", "\u0000a", "\u0000\u0000",
	"\ufeff", "\ufeffa", "\u200b", "a\u200b", "\u202e", "\u2028", "\u2029", "\ufffd", "\U0001F600",
	"\U0001F468\u200d\U0001F469\u200d\U0001F467", "\u65e5\u672c\u8a9e", "\u0627\u0644\u0639\u0631\u0628\u064a\u0629",
	"\u05e2\u05d1\u05e8\u05d9\u05ea", "\U00010000", "\U0010FFFF", "\u00a0", "a\u00a0", "\u0085", "\u3000",
	"0", "00", "1", "01", "1e3", "-1", "0x10", "NaN", "null", "NULL", "nil", "true", "undefined",
	"'", "\"", "`", "\\", "\\\\", "\\u0000", "'; DROP TABLE keto_uuid_mappings; --", "%", "_", "%s", "%00", "a%20b", "a+b",
	"a&b=c", "?", "?x=1", "/", "../", "\t", "\n", "\r\n", "a\nb", "a\tb", ",", ";", "a,b", "a;b", "|",
	"00000000-0000-0000-0000-000000000000", "6ba7b810-9dad-11d1-80b4-00c04fd430c8",
	"<script>", "&amp;", "\x7f", "\x01", "{}", "[]", "{\"a\":1}",
}

var mpInvalidUTF8 = []string{"\xff", "\xfe\xff", "\xc3\x28", "a\x80", "\xe2\x82", "\xed\xa0\x80", "\xf0\x28\x8c\x28",
	"\xc0\xaf", "ab\xffcd", "\x80", "\xc3"}

var mpLong = []string{
	strings.Repeat("x", 10240), strings.Repeat("x", 10239) + "y", "y" + strings.Repeat("x", 10239),
	strings.Repeat("\u00e9", 5120), strings.Repeat("x", 10241),
}

var mpRels = []string{"view", "edit", "member", "", "r \u00e9", "a#b", "owner"}

var mpSizes = []int{1, 1, 2, 3, 49, 50, 51, 99, 100, 101, 149, 150, 151, 199, 200, 201, 249, 250}

type mpGen struct {
	r     *rand.Rand
	fresh int
	e     *mpEnv
	nid   uuid.UUID
}

func (g *mpGen) freshStr() string {
	g.fresh++
	base := ""
	if g.r.Intn(3) == 0 {
		base = pick(g.r, mpAdvStrings)
	}
	return fmt.Sprintf("%sf%d_%d", base, envInt("VERIF_SEED", 1), g.fresh)
}

// adv draws an adversarial string; invalid UTF-8 only when allowed (direct mapper calls).
func (g *mpGen) adv(invalidOK bool, long *int) string {
	switch k := g.r.Intn(100); {
	case k < 4 && *long < 3:
		*long++
		return pick(g.r, mpLong)
	case k < 10 && invalidOK:
		return pick(g.r, mpInvalidUTF8)
	case k < 13:
		// a name that looks like the UUID of another name
		return uuid.NewV5(g.nid, pick(g.r, mpAdvStrings)).String()
	}
	return pick(g.r, mpAdvStrings)
}

func (g *mpGen) knownStr(invalidOK bool) (string, bool) {
	if len(g.e.known) == 0 {
		return "", false
	}
	k := g.r.Intn(len(g.e.known))
	keys := make([]string, 0, len(g.e.known))
	for s := range g.e.known {
		keys = append(keys, s)
	}
	sort.Strings(keys) // map order must not leak into the generated case
	s := keys[k]
	if !invalidOK && !utf8.ValidString(s) {
		return "", false
	}
	return s, true
}

func (g *mpGen) batch(op string) *mpCase {
	r := g.r
	invalidOK := op == "rt"
	c := &mpCase{Op: op, PageSize: 0, Seed: r.Intn(1000), NSs: g.e.nss}
	n := pick(r, mpSizes)
	if r.Intn(10) < 4 {
		n = 1 + r.Intn(250)
	}
	if op == "e2e" && r.Intn(3) != 0 {
		n = 1 + r.Intn(40) // most end-to-end cases small; a third over the whole range
	}
	mode := r.Intn(4)
	allowBoth := r.Intn(8) == 0 // tuples that set both subject fields only in a share of the batches
	long := 0
	var pool []string
	switch mode {
	case 1: // small pool: heavy repeats, the same string as object and as subject
		k := 1 + r.Intn(8)
		for i := 0; i < k; i++ {
			pool = append(pool, g.adv(invalidOK, &long))
		}
	case 3: // names already in the table, plus a few new ones
		for i := 0; i < 12; i++ {
			if s, ok := g.knownStr(invalidOK); ok {
				pool = append(pool, s)
			}
		}
		pool = append(pool, g.freshStr(), g.adv(invalidOK, &long))
	}
	name := func() string {
		switch mode {
		case 0: // all fresh and distinct: more than 100 distinct ids from 51 tuples on
			return g.freshStr()
		case 1, 3:
			return pick(r, pool)
		}
		switch r.Intn(3) {
		case 0:
			return g.freshStr()
		default:
			return g.adv(invalidOK, &long)
		}
	}
	for i := 0; i < n; i++ {
		t := mpTup{Kind: 'i', NS: pick(r, g.e.nss), Obj: name(), Rel: pick(r, mpRels)}
		switch k := r.Intn(100); {
		case k < 60:
			t.SID = name()
		case k < 96 || !allowBoth:
			t.Kind = 's'
			t.SNS, t.SObj, t.SRl = pick(r, g.e.nss), name(), pick(r, mpRels)
		default:
			t.Kind = 'b'
			t.SID, t.SNS, t.SObj, t.SRl = name(), pick(r, g.e.nss), name(), pick(r, mpRels)
		}
		if r.Intn(6) == 0 { // the same string as object and as subject of one tuple
			if t.Kind == 's' {
				t.SObj = t.Obj
			} else {
				t.SID = t.Obj
			}
		}
		if i > 0 && r.Intn(8) == 0 { // an exact duplicate of an earlier tuple
			t = c.Batch[r.Intn(i)]
		}
		c.Batch = append(c.Batch, t)
	}
	// a share of the batches carries elements the mapper must reject
	if r.Intn(100) < 12 {
		bad := 1 + r.Intn(2)
		for k := 0; k < bad; k++ {
			i := r.Intn(len(c.Batch))
			switch j := r.Intn(4); {
			case j == 0 && op == "rt":
				c.Batch[i] = mpTup{Kind: 'z'}
			case j == 1 && op == "rt":
				c.Batch[i].Kind = 'n'
			case j == 2 && c.Batch[i].Kind == 's':
				c.Batch[i].SNS = "no-such-ns"
			default:
				c.Batch[i].NS = "unknown"
			}
		}
	}
	if op == "rt" {
		seen := map[string]bool{}
		for _, t := range c.Batch {
			for _, s := range t.strs() {
				if g.e.known[s] && !seen[s] {
					seen[s] = true
					c.Pre = append(c.Pre, s)
				}
			}
		}
		return c
	}
	// expand / query target
	t := c.Batch[r.Intn(len(c.Batch))]
	switch k := r.Intn(10); {
	case k < 7:
		c.X = [3]string{t.NS, t.Obj, t.Rel}
	case k < 8 && (t.Kind == 's'):
		c.X = [3]string{t.SNS, t.SObj, t.SRl}
	case k < 9:
		c.X = [3]string{t.NS, "never-seen-" + g.freshStr(), t.Rel}
	default:
		c.X = [3]string{"unknown", t.Obj, t.Rel}
	}
	return c
}

// ---------------------------------------------------------------- stream

func mpNontrivial(c *mpCase) bool {
	// the index arithmetic is exercised by more than one tuple or by a repeated string
	if len(c.Batch) > 1 {
		return true
	}
	for _, t := range c.Batch {
		if s := t.strs(); len(s) == 2 && s[0] == s[1] {
			return true
		}
	}
	return false
}

func mpCountCase(o *Out, c *mpCase) {
	n := len(c.Batch)
	switch {
	case n == 1:
		o.Count(c.Op + ":size=1")
	case n < 50:
		o.Count(c.Op + ":size=2..49")
	case n <= 51:
		o.Count(c.Op + ":size=50±1")
	case n < 99:
		o.Count(c.Op + ":size=52..98")
	case n <= 101:
		o.Count(c.Op + ":size=100±1")
	case n < 199:
		o.Count(c.Op + ":size=102..198")
	case n <= 201:
		o.Count(c.Op + ":size=200±1")
	default:
		o.Count(c.Op + ":size=202..250")
	}
	distinct := map[string]bool{}
	total := 0
	for _, t := range c.Batch {
		for _, s := range t.strs() {
			distinct[s] = true
			total++
			if !utf8.ValidString(s) {
				o.Count("string:invalid-utf8")
			}
			if len(s) >= 10000 {
				o.Count("string:10kB")
			}
			if s == "" {
				o.Count("string:empty")
			}
		}
		if s := t.strs(); len(s) == 2 && s[0] == s[1] {
			o.Count("tuple:object=subject")
		}
		o.Count("tuple:kind=" + string(t.Kind))
	}
	if len(distinct) > 100 {
		o.Count(c.Op + ":distinct>100")
	}
	if len(distinct) > 200 {
		o.Count(c.Op + ":distinct>200")
	}
	if len(distinct) < total {
		o.Count(c.Op + ":with-repeats")
	}
	if len(c.Pre) > 0 {
		o.Count("rt:some-names-already-mapped")
	}
}

func streamMapper(t *testing.T, o *Out) {
	r := newRand()
	n := envInt("VERIF_N", 200)

	var bigBatch string // what the big-batch probe (below) has to report, attached to the next case
	run := func(e *mpEnv, c *mpCase, id string) {
		var impl string
		o.Pre("mapper", id, c.Payload())
		if c.Op == "rt" {
			var cols map[string]string
			impl, cols = e.runRt(c, r)
			o.Count("rt:err=" + strings.SplitN(cols["err"], ":", 2)[0])
		} else {
			var err error
			if impl, err = e.runE2e(c, r); err != nil {
				t.Fatalf("%s: %v", id, err)
			}
			o.Count("e2e:" + strings.SplitN(impl, "\t", 2)[0])
		}
		mpCountCase(o, c)
		if bigBatch != "" {
			impl += "\tx_bigbatch=" + bigBatch
			bigBatch = ""
		}
		o.Emit("mapper", id, c.Payload(), impl, mpNontrivial(c))
	}

	// corpus first: every line on its own registry, with the names of `P` mapped beforehand
	for _, l := range corpusLines("mapper") {
		parts := strings.SplitN(l, " ", 3)
		if len(parts) < 3 {
			t.Fatalf("corpus line %q: too short", l)
		}
		c, err := parseMpCase(parts[2])
		if err != nil {
			t.Fatalf("corpus line %q: %v", parts[1], err)
		}
		e := newMpEnv(t, c.NSs)
		if len(c.Pre) > 0 {
			if _, err := e.reg.MappingManager().MapStringsToUUIDs(e.ctx, c.Pre...); err != nil {
				t.Fatalf("corpus %s: %v", parts[1], err)
			}
			for _, s := range c.Pre {
				e.known[s] = true
			}
		}
		o.Count("corpus")
		run(e, c, "corpus-"+parts[1])
	}

	// one write above the insert chunk size of the mapping table (15000 rows per statement): 7600
	// relationships with 15200 distinct, never-seen names in ONE FromTuple call, in a database of its
	// own; every name must come back. (Not a protocol line: the model's chunking theorem covers every
	// size, this is the implementation's side of it at the one size the generated batches do not reach.)
	func() {
		be := newMpEnv(t, mpDefaultNSs)
		const nBig = 7600
		ts := make([]*ketoapi.RelationTuple, nBig)
		for k := range ts {
			sub := fmt.Sprintf("big-subject-%d", k)
			ts[k] = &ketoapi.RelationTuple{Namespace: mpDefaultNSs[0], Object: fmt.Sprintf("big-object-%d", k), Relation: "r", SubjectID: &sub}
		}
		its, err := be.reg.Mapper().FromTuple(be.ctx, ts...)
		if err != nil {
			bigBatch = "FromTuple of 7600 relationships failed: " + errKind(err)
			return
		}
		back, err := be.reg.ReadOnlyMapper().ToTuple(be.ctx, its...)
		if err != nil {
			bigBatch = "ToTuple failed: " + errKind(err)
			return
		}
		lost := 0
		for k := range ts {
			if k >= len(back) || back[k].Object != ts[k].Object || back[k].SubjectID == nil || *back[k].SubjectID != *ts[k].SubjectID {
				lost++
			}
		}
		if lost > 0 {
			bigBatch = fmt.Sprintf("%d of %d relationships written in one batch of %d distinct names read back with other names", lost, nBig, 2*nBig)
		}
		o.Count("big-batch-probe")
	}()

	var e *mpEnv
	var g *mpGen
	for i := 0; i < n; i++ {
		// a new database every 40 cases keeps the table (and its dump) small and starts from empty again
		if i%40 == 0 {
			e = newMpEnv(t, mpDefaultNSs)
			fresh := 0
			if g != nil {
				fresh = g.fresh
			}
			g = &mpGen{r: r, e: e, nid: e.reg.Persister().NetworkID(e.ctx), fresh: fresh}
		}
		op := "rt"
		if i%4 == 3 {
			op = "e2e"
		}
		run(e, g.batch(op), fmt.Sprintf("g%d", i+1))
	}
}
