package drive

import (
	"context"
	"errors"
	"fmt"
	"runtime"
	"strconv"
	"strings"
	"sync/atomic"
	"testing"
	"time"

	"github.com/gofrs/uuid"

	"github.com/ory/keto/internal/check"
	"github.com/ory/keto/internal/check/checkgroup"
	"github.com/ory/keto/internal/relationtuple"
	"github.com/ory/keto/internal/x"
	"github.com/ory/keto/ketoapi"
)

func init() {
	streams["cg"] = streamCG
	streams["engine-life"] = streamEngineLife
}

// settle waits until the goroutine count is back to (at most) base.
func settle(base int) int {
	var n int
	for i := 0; i < 200; i++ {
		n = runtime.NumGoroutine()
		if n <= base {
			return 0
		}
		time.Sleep(time.Duration(1+i/10) * time.Millisecond)
	}
	return n - base
}

var errScript = errors.New("scripted error")

// streamCG drives the real concurrent checkgroup with scripted check functions.
// Line: cg <id> <cancelAt or -1> <n> <code>…   codes: 0 NotMember, 1 Unknown, 2 IsMember, 3 error
func streamCG(t *testing.T, o *Out) {
	r := newRand()
	n := envInt("VERIF_N", 300)
	runOne := func(id string, codes []int, cancelAt int, delays []int) {
		base := runtime.NumGoroutine()
		ctx, cancel := context.WithCancel(context.Background())
		defer cancel()
		var started int32
		g := checkgroup.NewConcurrent(ctx)
		for i, c := range codes {
			i, c := i, c
			g.Add(func(cctx context.Context, ch chan<- checkgroup.Result) {
				atomic.AddInt32(&started, 1)
				if d := delays[i]; d > 0 {
					time.Sleep(time.Duration(d) * 100 * time.Microsecond)
				}
				if i == cancelAt {
					cancel()
					<-cctx.Done()
					ch <- checkgroup.Result{Err: cctx.Err()}
					return
				}
				switch c {
				case 0:
					ch <- checkgroup.ResultNotMember
				case 1:
					ch <- checkgroup.Result{Membership: checkgroup.MembershipUnknown}
				case 2:
					ch <- checkgroup.ResultIsMember
				default:
					ch <- checkgroup.Result{Err: errScript}
				}
			})
		}
		done := make(chan checkgroup.Result, 1)
		go func() { done <- g.Result() }()
		var res string
		select {
		case rr := <-done:
			k := errKind(rr.Err)
			if errors.Is(rr.Err, errScript) {
				k = "storage"
			}
			res = membStr(rr.Membership) + "/" + k
		case <-time.After(5 * time.Second):
			res = "hang"
		}
		cancel()
		leak := settle(base)
		var sb strings.Builder
		fmt.Fprintf(&sb, "%d %d", cancelAt, len(codes))
		for _, c := range codes {
			fmt.Fprintf(&sb, " %d", c)
		}
		o.Emit("cg", id, sb.String(), fmt.Sprintf("res=%s\tstarted=%d\tleak=%d", res, atomic.LoadInt32(&started), leak), len(codes) >= 2)
		o.Count("res:" + res)
	}
	for i := 0; i < n; i++ {
		k := r.Intn(7)
		codes := make([]int, k)
		delays := make([]int, k)
		for j := range codes {
			switch x := r.Intn(10); {
			case x < 5:
				codes[j] = 0
			case x < 7:
				codes[j] = 1
			case x < 9:
				codes[j] = 2
			default:
				codes[j] = 3
			}
			delays[j] = r.Intn(4)
		}
		cancelAt := -1
		if k > 0 && r.Intn(5) == 0 {
			cancelAt = r.Intn(k)
		}
		runOne(fmt.Sprintf("g%d", i), codes, cancelAt, delays)
	}
}

// lifeDeps cancels the request context (instead of failing) at the k-th storage call.
type lifeDeps struct {
	*faultDeps
	cancelAt int64
	cancel   context.CancelFunc
	delayUS  int
}

func (d *lifeDeps) onCall() {
	n := atomic.LoadInt64(d.calls)
	if d.cancelAt != 0 && n+1 == d.cancelAt {
		d.cancel()
	}
	if d.delayUS > 0 {
		time.Sleep(time.Duration(d.delayUS) * time.Microsecond)
	}
}

type lifeManager struct {
	relationtuple.Manager
	d *lifeDeps
}

func (m *lifeManager) GetRelationTuples(ctx context.Context, q *relationtuple.RelationQuery, o ...x.PaginationOptionSetter) ([]*relationtuple.RelationTuple, string, error) {
	m.d.onCall()
	return m.Manager.GetRelationTuples(ctx, q, o...)
}
func (m *lifeManager) ExistsRelationTuples(ctx context.Context, q *relationtuple.RelationQuery) (bool, error) {
	m.d.onCall()
	return m.Manager.ExistsRelationTuples(ctx, q)
}

type lifeTraverser struct {
	relationtuple.Traverser
	d *lifeDeps
}

func (t *lifeTraverser) TraverseSubjectSetExpansion(ctx context.Context, tuple *relationtuple.RelationTuple) ([]*relationtuple.TraversalResult, error) {
	t.d.onCall()
	return t.Traverser.TraverseSubjectSetExpansion(ctx, tuple)
}
func (t *lifeTraverser) TraverseSubjectSetRewrite(ctx context.Context, tuple *relationtuple.RelationTuple, css []string) ([]*relationtuple.TraversalResult, error) {
	t.d.onCall()
	return t.Traverser.TraverseSubjectSetRewrite(ctx, tuple, css)
}
func (d *lifeDeps) RelationTupleManager() relationtuple.Manager {
	return &lifeManager{Manager: d.faultDeps.RelationTupleManager(), d: d}
}
func (d *lifeDeps) Traverser() relationtuple.Traverser {
	return &lifeTraverser{Traverser: d.faultDeps.Traverser(), d: d}
}

// The read-only mapper of engine cases: the strings "o<i>" and "u<i>" are the object and
// subject ids of the case (Engine.BatchCheck takes API tuples and maps them itself).
type engMappingManager struct{ relationtuple.MappingManager }

func (m engMappingManager) MapStringsToUUIDsReadOnly(_ context.Context, ss ...string) ([]uuid.UUID, error) {
	out := make([]uuid.UUID, len(ss))
	for i, s := range ss {
		if len(s) < 2 {
			return nil, fmt.Errorf("engine case mapper: %q", s)
		}
		n, err := strconv.Atoi(s[1:])
		if err != nil {
			return nil, fmt.Errorf("engine case mapper: %q", s)
		}
		if s[0] == 'o' {
			out[i] = objUUID(n)
		} else {
			out[i] = subUUID(n)
		}
	}
	return out, nil
}

type engMapDeps struct{ *faultDeps }

func (d engMapDeps) MappingManager() relationtuple.MappingManager {
	return engMappingManager{d.faultDeps.RegistryDefault.MappingManager()}
}

func (d *lifeDeps) ReadOnlyMapper() *relationtuple.Mapper {
	return &relationtuple.Mapper{D: engMapDeps{d.faultDeps}, ReadOnly: true}
}

// streamEngineLife runs the real engine with the real concurrent checkgroup and
// cancels the request / fails a storage call at every position; it observes that the
// check returns, what it returns, how many storage calls it made, and that no
// goroutine started on its behalf remains.
func streamEngineLife(t *testing.T, o *Out) {
	r := newRand()
	n := envInt("VERIF_N", 100)
	env := newEngEnv(t)
	id := 0
	// checks that did not return: each costs the watchdog time, and three are enough to report (the
	// stream stops generating; what was emitted is judged)
	hangs := 0
	const maxHangs = 3
	run := func(c *EngCase, kind string, cancelAt, failAt int, persistent bool, pre bool) {
		if hangs >= maxHangs {
			return
		}
		id++
		o.Pre("engine", fmt.Sprintf("%s%d", kind, id), c.Payload())
		env.setLimits(c)
		old := checkgroup.DefaultFactory
		checkgroup.DefaultFactory = checkgroup.NewConcurrent
		defer func() { checkgroup.DefaultFactory = old }()
		base := runtime.NumGoroutine()
		ctx, cancel := context.WithCancel(context.Background())
		var calls int64
		fd := &faultDeps{RegistryDefault: env.reg, calls: &calls, failAt: int64(failAt), persistent: persistent, pageSize: c.PageSize}
		ld := &lifeDeps{faultDeps: fd, cancelAt: int64(cancelAt), cancel: cancel, delayUS: r.Intn(3) * 50}
		eng := check.NewEngine(ld)
		if pre {
			cancel()
		}
		done := make(chan checkgroup.Result, 1)
		go func() {
			defer func() {
				if p := recover(); p != nil {
					done <- checkgroup.Result{Err: fmt.Errorf("panic: %v", p)}
				}
			}()
			done <- eng.CheckRelationTuple(ctx, c.Query.internal(), c.RDepth)
		}()
		var res string
		returned := 1
		select {
		case rr := <-done:
			res = membStr(rr.Membership) + "/" + errKind(rr.Err)
		case <-time.After(10 * time.Second):
			res = "hang"
			returned = 0
			hangs++
		}
		cancel() // the request context is released
		leak := settle(base)
		pc := *c
		pc.FaultAt, pc.FaultPersis = failAt, persistent
		o.Emit("engine", fmt.Sprintf("%s%d", kind, id), pc.Payload(),
			fmt.Sprintf("kind=%s\tlres=%s\treturned=%d\tleak=%d\tlcalls=%d", kind, res, returned, leak, atomic.LoadInt64(&calls)),
			atomic.LoadInt64(&calls) >= 2)
		o.Count("kind:" + kind)
		o.Count("lres:" + res)
		if leak != 0 {
			o.Count("LEAK")
		}
	}
	// Engine.BatchCheck over several queries against the same stored state (the query of the
	// case, stored relationships, the query with other subjects, repeats), undisturbed, with the
	// k-th storage call of the whole batch failing, and cancelled at the k-th storage call:
	// every entry answers what its own check answers, or carries the error - one line per entry.
	runBatch := func(c *EngCase, entries []Tup, kind string, cancelAt, failAt int, persistent bool) {
		if hangs >= maxHangs {
			return
		}
		id++
		bid := fmt.Sprintf("%s%d", kind, id)
		pc := *c
		o.Pre("engine", bid+"e0", pc.Payload())
		env.setLimits(c)
		old := checkgroup.DefaultFactory
		checkgroup.DefaultFactory = checkgroup.NewConcurrent
		defer func() { checkgroup.DefaultFactory = old }()
		base := runtime.NumGoroutine()
		ctx, cancel := context.WithCancel(context.Background())
		var calls int64
		fd := &faultDeps{RegistryDefault: env.reg, calls: &calls, failAt: int64(failAt), persistent: persistent, pageSize: c.PageSize}
		ld := &lifeDeps{faultDeps: fd, cancelAt: int64(cancelAt), cancel: cancel, delayUS: r.Intn(3) * 50}
		eng := check.NewEngine(ld)
		api := make([]*ketoapi.RelationTuple, len(entries))
		for i, e := range entries {
			api[i] = e.api()
		}
		type outcome struct {
			rs  []checkgroup.Result
			err error
		}
		done := make(chan outcome, 1)
		go func() {
			rs, err := eng.BatchCheck(ctx, api, c.RDepth)
			done <- outcome{rs, err}
		}()
		var out outcome
		returned := 1
		select {
		case out = <-done:
		case <-time.After(15 * time.Second):
			returned = 0
			hangs++
		}
		cancel()
		leak := settle(base)
		for i, e := range entries {
			res := "hang"
			switch {
			case returned == 1 && out.err != nil:
				res = "batch-failed/" + errKind(out.err)
			case returned == 1 && i < len(out.rs):
				res = membStr(out.rs[i].Membership) + "/" + errKind(out.rs[i].Err)
			case returned == 1:
				res = "missing"
			}
			pc := *c
			pc.Query = e
			pc.FaultAt, pc.FaultPersis = 0, false
			o.Emit("engine", fmt.Sprintf("%se%d", bid, i), pc.Payload(),
				fmt.Sprintf("kind=%s\tlres=%s\treturned=%d\tleak=%d\tbcalls=%d\tbsize=%d", kind, res, returned, leak, atomic.LoadInt64(&calls), len(entries)),
				len(entries) >= 2 && atomic.LoadInt64(&calls) >= 2)
			o.Count("lres:" + kind + ":" + res)
		}
		o.Count("kind:" + kind)
		if leak != 0 {
			o.Count("LEAK")
		}
	}
	batchEntries := func(c *EngCase) []Tup {
		known := map[string]bool{}
		for _, n := range c.NSs {
			known[n.Name] = true
		}
		ok := func(t Tup) bool { return known[t.NS] && (!t.Sub.IsSet || known[t.Sub.NS]) }
		if !ok(c.Query) {
			return nil
		}
		entries := []Tup{c.Query}
		for k, n := 0, 1+r.Intn(5); k < n; k++ {
			e := c.Query
			switch x := r.Intn(4); {
			case x == 0 && len(c.Tuples) > 0:
				e = c.Tuples[r.Intn(len(c.Tuples))] // a stored relationship: allowed directly
			case x == 1 && len(c.Tuples) > 0:
				e.Sub = c.Tuples[r.Intn(len(c.Tuples))].Sub // the query for another subject
			case x == 2 && len(c.Tuples) > 0:
				t := c.Tuples[r.Intn(len(c.Tuples))]
				e.NS, e.Obj = t.NS, t.Obj // the query on another object
			}
			if ok(e) {
				entries = append(entries, e)
			}
		}
		r.Shuffle(len(entries), func(i, j int) { entries[i], entries[j] = entries[j], entries[i] })
		return entries
	}
	for _, l := range corpusLines("engine") {
		parts := strings.SplitN(l, " ", 3)
		c, err := ParseEngCase(parts[2])
		if err != nil {
			t.Fatalf("corpus line %q: %v", parts[1], err)
		}
		fa, fp := c.FaultAt, c.FaultPersis
		c.FaultAt, c.FaultPersis = 0, false
		if err := env.prepare(c, nil); err != nil {
			t.Fatalf("corpus %s: %v", parts[1], err)
		}
		run(c, "corpus", 0, fa, fp, false)
	}
	p := EngProfile{Name: "life"}
	for i := 0; i < n && hangs < maxHangs; i++ {
		c := genEngCase(r, p)
		if c.GDepth > 6 {
			c.GDepth = 6
		}
		if err := env.prepare(c, o); err != nil {
			t.Fatalf("prepare: %v", err)
		}
		if env.hung {
			id++
			o.Emit("engine", fmt.Sprintf("plain%d", id), c.Payload(), "kind=plain\tlres=hang\treturned=0\tleak=0\tlcalls=0", true)
			o.Count("lres:hang")
			break
		}
		bres, base := env.runCheck(c, true)
		if strings.HasPrefix(bres, "hang") {
			// the undisturbed check did not return within the watchdog time
			hangs++
			id++
			o.Emit("engine", fmt.Sprintf("plain%d", id), c.Payload(), "kind=plain\tlres=hang\treturned=0\tleak=0\tlcalls=0", true)
			o.Count("lres:hang")
			continue
		}
		if base > 300 {
			o.Count("dropped:cost")
			continue
		}
		run(c, "plain", 0, 0, false, false)
		run(c, "precancel", 0, 0, false, true)
		max := int(base) + 1
		if max > 8 {
			max = 8
		}
		for k := 1; k <= max; k++ {
			run(c, "cancel", k, 0, false, false)
			run(c, "fault", 0, k, k%2 == 0, false)
		}
		if entries := batchEntries(c); len(entries) >= 2 {
			runBatch(c, entries, "batchplain", 0, 0, false)
			for k := 1; k <= max+2; k += 1 + r.Intn(2) {
				runBatch(c, entries, "batchfault", 0, k, r.Intn(3) == 0)
				runBatch(c, entries, "batchcancel", k, 0, false)
			}
		}
	}
}
