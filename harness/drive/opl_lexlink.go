package drive

import (
	"unsafe"

	"github.com/ory/keto/internal/schema"
)

// The lexer type of package schema is unexported; schema.Lex is exported and
// returns it. nextItem is reached by symbol name (no change to /repo).

// lexItem mirrors schema.item field by field.
type lexItem struct {
	Typ        int
	Val        string
	Start, End int
}

//go:linkname lexerNextItem github.com/ory/keto/internal/schema.(*lexer).nextItem
func lexerNextItem(l unsafe.Pointer) lexItem

// lexAll runs the real lexer to completion: all items up to and including the
// first EOF (typ 1) or error (typ 0) item, plus the one after it (must be
// "broken state").
func lexAll(input string) (items []lexItem, after lexItem) {
	l := schema.Lex("input", input)
	p := unsafe.Pointer(l)
	for {
		it := lexerNextItem(p)
		items = append(items, it)
		if it.Typ == 0 || it.Typ == 1 {
			break
		}
	}
	after = lexerNextItem(p)
	return
}
