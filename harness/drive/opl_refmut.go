package drive

// Case kind "refmut" of stream opl (property C11, converse direction): an accepted
// document in which ONE reference is replaced by a fresh undeclared name of the
// same spelling class must be rejected, with an error pointing at the offending
// token (for a traverse target: at the traversed relation, which is the token the
// deferred check keeps); plus the positive / negative counterparts for traverse
// targets declared only on the traversed type / only on the enclosing class.

import (
	"fmt"
	"math/rand"
	"strings"
	"unicode/utf8"
)

// oplRefSite names one reference of a configuration.
type oplRefSite struct {
	Kind string // type-ns | sset-t | sset-r | includes | permits | ttu-rel | ttu-target-related | ttu-target-permits
	NS   int
	Rel  int // relation index (type sites)
	Typ  int // type index (type sites)
	Form int // forced spelling of the relation's type (type sites): 1 Array<…>, 2 direct, 3 (…)[]
	Perm int // permission index (leaf sites)
	Atom int // atom index (leaf sites)
}

func oplAtomOccurs(e *oplE, a int) bool {
	if e == nil {
		return false
	}
	if e.Kind == 'a' {
		return e.Atom == a
	}
	return oplAtomOccurs(e.L, a) || oplAtomOccurs(e.R, a)
}

// oplRedirectFirst returns a copy of e in which the first occurrence of atom a
// is atom b.
func oplRedirectFirst(e *oplE, a, b int, done *bool) *oplE {
	if e == nil {
		return nil
	}
	c := *e
	if e.Kind == 'a' {
		if e.Atom == a && !*done {
			c.Atom = b
			*done = true
		}
		return &c
	}
	c.L = oplRedirectFirst(e.L, a, b, done)
	c.R = oplRedirectFirst(e.R, a, b, done)
	return &c
}

func oplCopyDecls(nss []*oplNSDecl) []*oplNSDecl {
	out := make([]*oplNSDecl, len(nss))
	for i, n := range nss {
		c := &oplNSDecl{Name: n.Name}
		for _, r := range n.Rels {
			rc := r
			rc.Types = append([]oplType{}, r.Types...)
			c.Rels = append(c.Rels, rc)
		}
		for _, p := range n.Perms {
			pc := p
			pc.Leaves = append([]oplLeaf{}, p.Leaves...)
			c.Perms = append(c.Perms, pc)
		}
		out[i] = c
	}
	return out
}

func oplRefSites(r *rand.Rand, nss []*oplNSDecl) []oplRefSite {
	var sites []oplRefSite
	for i, n := range nss {
		for j, rel := range n.Rels {
			forms := []int{1, 3}
			if len(rel.Types) == 1 {
				forms = []int{1, 2, 3}
			}
			for k, t := range rel.Types {
				f := forms[r.Intn(len(forms))]
				if t.Rel == "" {
					sites = append(sites, oplRefSite{Kind: "type-ns", NS: i, Rel: j, Typ: k, Form: f})
				} else {
					sites = append(sites, oplRefSite{Kind: "sset-t", NS: i, Rel: j, Typ: k, Form: f})
					sites = append(sites, oplRefSite{Kind: "sset-r", NS: i, Rel: j, Typ: k, Form: forms[r.Intn(len(forms))]})
				}
			}
		}
		for j, p := range n.Perms {
			for a, l := range p.Leaves {
				if !oplAtomOccurs(p.Expr, a) {
					continue
				}
				switch {
				case !l.TTU && l.Perm:
					sites = append(sites, oplRefSite{Kind: "permits", NS: i, Perm: j, Atom: a})
				case !l.TTU:
					sites = append(sites, oplRefSite{Kind: "includes", NS: i, Perm: j, Atom: a})
				default:
					sites = append(sites, oplRefSite{Kind: "ttu-rel", NS: i, Perm: j, Atom: a})
					if l.CPerm {
						sites = append(sites, oplRefSite{Kind: "ttu-target-permits", NS: i, Perm: j, Atom: a})
					} else {
						sites = append(sites, oplRefSite{Kind: "ttu-target-related", NS: i, Perm: j, Atom: a})
					}
				}
			}
		}
	}
	return sites
}

// oplFresh: an undeclared name of the same spelling class as old (identifier or
// not) whose first and last bytes differ from old's, so that the replaced token
// is exactly the differing region of the two renderings.
func oplFresh(r *rand.Rand, old string) string {
	var cands []string
	if oplIsIdent(old) {
		cands = []string{"Zundeclared9q", "Kq_undeclared7w", "xNoSuchName_0J", "_undeclared_V"}
	} else {
		cands = []string{"z9 undeclared-q", "k7 no-such name-w", "é undeclared J", "Array undeclared-V"}
	}
	start := r.Intn(len(cands))
	for i := range cands {
		c := cands[(start+i)%len(cands)]
		if old == "" || (c[0] != old[0] && c[len(c)-1] != old[len(old)-1]) {
			return c
		}
	}
	return cands[start]
}

// oplSiteName reads / writes the name at a site. For leaf sites the write goes to a
// NEW leaf to which the first occurrence of the atom is redirected (so exactly one
// token of the rendering changes).
func oplSiteName(nss []*oplNSDecl, s oplRefSite) string {
	switch s.Kind {
	case "type-ns", "sset-t":
		return nss[s.NS].Rels[s.Rel].Types[s.Typ].NS
	case "sset-r":
		return nss[s.NS].Rels[s.Rel].Types[s.Typ].Rel
	case "ttu-target-related", "ttu-target-permits":
		return nss[s.NS].Perms[s.Perm].Leaves[s.Atom].CRel
	}
	return nss[s.NS].Perms[s.Perm].Leaves[s.Atom].Rel
}

// oplApplySite returns a copy of the configuration with the site's name set
// (the site's relation gets its forced spelling in any case).
func oplApplySite(nss []*oplNSDecl, s oplRefSite, name string) []*oplNSDecl {
	c := oplCopyDecls(nss)
	switch s.Kind {
	case "type-ns", "sset-t":
		c[s.NS].Rels[s.Rel].Form = s.Form
		c[s.NS].Rels[s.Rel].Types[s.Typ].NS = name
	case "sset-r":
		c[s.NS].Rels[s.Rel].Form = s.Form
		c[s.NS].Rels[s.Rel].Types[s.Typ].Rel = name
	default:
		p := &c[s.NS].Perms[s.Perm]
		l := p.Leaves[s.Atom]
		if strings.HasPrefix(s.Kind, "ttu-target") {
			l.CRel = name
		} else {
			l.Rel = name
		}
		p.Leaves = append(p.Leaves, l)
		done := false
		p.Expr = oplRedirectFirst(p.Expr, s.Atom, len(p.Leaves)-1, &done)
	}
	return c
}

func oplRenderSeeded(nss []*oplNSDecl, seed int64, comments, exotic bool) string {
	sp := &oplSpell{r: rand.New(rand.NewSource(seed)), comments: comments, exotic: exotic}
	var fl oplFlags
	return sp.renderDoc(nss, &fl, false)
}

// oplDiffRegion: the byte range [start, end) of b that differs from a (common
// prefix / suffix removed), and the corresponding end in a.
func oplDiffRegion(a, b string) (start, endA, endB int) {
	for start < len(a) && start < len(b) && a[start] == b[start] {
		start++
	}
	endA, endB = len(a), len(b)
	for endA > start && endB > start && a[endA-1] == b[endB-1] {
		endA--
		endB--
	}
	return
}

// oplSrcPos is toSrcPos of parse_errors.go (rune-wise line / column of a byte offset).
func oplSrcPos(input string, pos int) (line, col int) {
	line = 1
	for _, c := range input {
		col++
		pos--
		if pos <= 0 {
			break
		}
		if c == '\n' {
			line++
			col = 0
		}
	}
	return
}

func oplRange(input string, start, end int) string {
	sl, sc := oplSrcPos(input, start)
	el, ec := oplSrcPos(input, end)
	return fmt.Sprintf("%d:%d-%d:%d", sl, sc, el, ec)
}

type oplRefCase struct {
	Doc        string
	Start, End int
	Kind       string
	Expect     string // "reject" | "accept"
	Orig       string // the accepted document the case was derived from ("" for counterparts)
}

// oplGenRefMut: a generated accepted document with one reference replaced.
func oplGenRefMut(r *rand.Rand) (*oplRefCase, bool) {
	decls := oplGenDecls(r, false, false)
	sites := oplRefSites(r, decls)
	if len(sites) == 0 {
		return nil, false
	}
	// choose the kind first, then a site of that kind: rare kinds are not starved
	kinds := map[string][]oplRefSite{}
	var names []string
	for _, s := range sites {
		if _, ok := kinds[s.Kind]; !ok {
			names = append(names, s.Kind)
		}
		kinds[s.Kind] = append(kinds[s.Kind], s)
	}
	ks := kinds[names[r.Intn(len(names))]]
	site := ks[r.Intn(len(ks))]
	old := oplSiteName(decls, site)
	fresh := oplFresh(r, old)
	seed := r.Int63()
	comments, exotic := r.Intn(3) != 0, r.Intn(4) == 0
	orig := oplRenderSeeded(oplApplySite(decls, site, old), seed, comments, exotic)
	mut := oplRenderSeeded(oplApplySite(decls, site, fresh), seed, comments, exotic)
	start, _, end := oplDiffRegion(orig, mut)
	if start >= end || mut[start:end] != fresh || !utf8.ValidString(mut[start:end]) {
		return nil, false
	}
	kind := site.Kind
	if site.Form != 0 {
		kind += []string{"", "-array", "-direct", "-paren"}[site.Form]
	}
	return &oplRefCase{Doc: mut, Start: start, End: end, Kind: kind, Expect: "reject", Orig: orig}, true
}

// oplGenTraverseCounterpart: the target X of a traverse is declared ONLY on the
// traversed type (must be accepted) or ONLY on the enclosing class (must be
// rejected, blamed on the traversed relation), in both spellings.
func oplGenTraverseCounterpart(r *rand.Rand) (*oplRefCase, bool) {
	viaPermits := r.Intn(2) == 0
	onlyOnTraversed := r.Intn(2) == 0
	x := pick(r, []string{"edit", "owners", "x-y", "with space", "Xq"})
	user := &oplNSDecl{Name: "User"}
	trav := &oplNSDecl{Name: "Folder", Rels: []oplRelDecl{{Name: "viewers", Types: []oplType{{NS: "User"}}}}}
	encl := &oplNSDecl{Name: "Doc", Rels: []oplRelDecl{
		{Name: "parents", Types: []oplType{{NS: "Folder"}}, Form: 1 + r.Intn(3)},
		{Name: "viewers", Types: []oplType{{NS: "User"}}}}}
	declare := func(n *oplNSDecl) {
		if viaPermits {
			n.Perms = append(n.Perms, oplPermDecl{Name: x, Leaves: []oplLeaf{{Rel: "viewers"}}, Expr: &oplE{Kind: 'a'}})
		} else {
			n.Rels = append(n.Rels, oplRelDecl{Name: x, Types: []oplType{{NS: "User"}}})
		}
	}
	if onlyOnTraversed {
		declare(trav)
	} else {
		declare(encl)
	}
	leaf := oplLeaf{TTU: true, Rel: "parents", CRel: x, CPerm: viaPermits}
	var e *oplE = &oplE{Kind: 'a', Atom: 0}
	leaves := []oplLeaf{leaf}
	if r.Intn(2) == 0 {
		leaves = append(leaves, oplLeaf{Rel: "viewers"})
		e = &oplE{Kind: pick(r, []byte{'A', 'O'}), L: e, R: &oplE{Kind: 'a', Atom: 1}}
	}
	encl.Perms = append(encl.Perms, oplPermDecl{Name: "view", Leaves: leaves, Expr: e})
	nss := []*oplNSDecl{user, trav, encl}
	if r.Intn(2) == 0 {
		nss = []*oplNSDecl{encl, user, trav}
	}
	seed := r.Int63()
	comments := r.Intn(3) == 0
	doc := oplRenderSeeded(nss, seed, comments, false)
	kind := "ttu-only-on-traversed"
	expect := "accept"
	if !onlyOnTraversed {
		kind, expect = "ttu-only-on-enclosing", "reject"
	}
	if viaPermits {
		kind += "-permits"
	} else {
		kind += "-related"
	}
	// locate the target token: render with another name of the same class in the traverse only
	site := oplRefSite{Kind: "ttu-target-related", Perm: len(encl.Perms) - 1, Atom: 0}
	for i, n := range nss {
		if n == encl {
			site.NS = i
		}
	}
	other := oplRenderSeeded(oplApplySite(nss, site, oplFresh(r, x)), seed, comments, false)
	same := oplRenderSeeded(oplApplySite(nss, site, x), seed, comments, false)
	if same != doc {
		return nil, false
	}
	start, end, _ := oplDiffRegion(doc, other)
	if start >= end || doc[start:end] != x {
		return nil, false
	}
	return &oplRefCase{Doc: doc, Start: start, End: end, Kind: kind, Expect: expect}, true
}

func (c *oplRefCase) payload() string {
	return fmt.Sprintf("refparse %s %d %d %s %s", S(c.Doc), c.Start, c.End, c.Kind, c.Expect)
}
