package drive

import (
	"fmt"
	"strings"
	"testing"
)

func init() {
	streams["enc"] = streamEnc
}

// streamEnc: corpus lines of component `enc` first, then VERIF_N generated cases.
func streamEnc(t *testing.T, o *Out) {
	r := newRand()
	n := envInt("VERIF_N", 2000)
	emit := func(id, op, payload string) {
		var toks []string
		if payload != "" {
			toks = strings.Split(payload, " ")
		}
		// (the CLI command under test ends the process on some failures: leave the case behind)
		o.Pre("enc", id, strings.TrimSpace(op+" "+payload))
		impl, stat, nontrivial, err := runEncCase(op, toks)
		if err != nil {
			t.Fatalf("enc case %s (%s): %v", id, op, err)
		}
		o.Emit("enc", id, strings.TrimSpace(op+" "+payload), impl, nontrivial)
		o.Count("op:" + op)
		for _, s := range stat {
			o.Count(s)
		}
	}
	for _, l := range corpusLines("enc") {
		parts := strings.SplitN(l, " ", 4)
		if len(parts) < 3 {
			t.Fatalf("corpus line %q: too short", l)
		}
		payload := ""
		if len(parts) == 4 {
			payload = strings.Join(strings.Fields(parts[3]), " ")
		}
		o.Count("corpus")
		emit("corpus-"+parts[1], parts[2], payload)
	}
	for i := 1; i <= n; i++ {
		op, payload := genEncCase(r)
		emit(fmt.Sprintf("g%d", i), op, payload)
	}
}
