package drive

import (
	"testing"
)

// TestStoreProbeMappedPoison: does the mapping-insert trigger fire for a string that is already mapped?
func TestStoreProbeMappedPoison(t *testing.T) {
	o, _ := NewOut("store-probe")
	e := newStEnv(t, o, 0)
	p := e.nets[0].p
	_, err := p.MapStringsToUUIDs(e.ctx, stPoisonString, "other")
	t.Logf("before trigger: err=%v", err)
	e.installFaults()
	_, err = p.MapStringsToUUIDs(e.ctx, stPoisonString)
	t.Logf("already mapped, trigger installed: err=%v status=%s", err, stErrStatus(err))
	_, err = p.MapStringsToUUIDs(e.ctx, "other")
	t.Logf("other string already mapped: err=%v", err)
}
