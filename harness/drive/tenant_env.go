package drive

// A registry serving two tenants whose configuration is chosen per request by a
// ketoctx.Contextualizer (what a multi-tenant embedding of keto does): tenant A sees the
// full OPL document, tenant B the same document without the namespace Doc.

import (
	"context"
	"strings"
	"testing"

	"github.com/gofrs/uuid"
	"github.com/ory/x/configx"
	"github.com/ory/x/logrusx"
	"github.com/ory/x/networkx"
	"github.com/spf13/pflag"

	"github.com/ory/keto/internal/check"
	"github.com/ory/keto/internal/driver"
	"github.com/ory/keto/internal/driver/config"
	"github.com/ory/keto/internal/namespace"
	"github.com/ory/keto/internal/schema"
	"github.com/ory/keto/internal/x/dbx"
	"github.com/ory/keto/ketoctx"
)

type tenantKey struct{}

type tenantCtxer struct {
	byTenant map[string]*configx.Provider
	// tenants with a network of their own (the others share the registry's)
	netByTenant map[string]uuid.UUID
}

func (c *tenantCtxer) Network(ctx context.Context, n uuid.UUID) uuid.UUID {
	if t, ok := ctx.Value(tenantKey{}).(string); ok {
		if id, ok := c.netByTenant[t]; ok {
			return id
		}
	}
	return n
}

func (c *tenantCtxer) Config(ctx context.Context, def *configx.Provider) *configx.Provider {
	if t, ok := ctx.Value(tenantKey{}).(string); ok {
		if p := c.byTenant[t]; p != nil {
			return p
		}
	}
	return def
}

// hcheckOPLNoDoc: the document of tenant B (no Doc namespace).
var hcheckOPLNoDoc = hcheckOPL[:strings.Index(hcheckOPL, "class Doc implements")]

// newTenantAPIEnv builds the registry through driver.NewDefaultRegistry with the
// contextualizer; the returned environment's ctx is tenant A's.
func newTenantAPIEnv(t testing.TB) (envA, envB *apiEnv, release func()) {
	envA, envB, _, _, release = newTenantAPIEnv3(t)
	return
}

// hcheckOPLSee: the document of tenant C - the same namespaces as tenant A's, but the permission
// Doc#view is called Doc#see there (two tenants whose documents share a namespace name and
// declare different relations in it).
var hcheckOPLSee = strings.NewReplacer("view: (ctx", "see: (ctx", "p.permits.view(ctx)", "p.permits.see(ctx)", "this.permits.view(ctx)", "this.permits.see(ctx)").Replace(hcheckOPL)

// tenant D: tenant A's document, in a network of its own.
func newTenantAPIEnv3(t testing.TB) (envA, envB, envC, envD *apiEnv, release func()) {
	// literal namespaces (no file watchers: with a contextualized provider keto builds a new
	// Config, and with it a new namespace manager, for every call of Registry.Config)
	parsed, perrs := schema.Parse(hcheckOPL)
	if len(perrs) > 0 {
		t.Fatalf("tenant OPL: %v", perrs[0])
	}
	var nsA, nsB []*namespace.Namespace
	for i := range parsed {
		n := parsed[i]
		nsA = append(nsA, &n)
		if n.Name != "Doc" {
			nsB = append(nsB, &n)
		}
	}
	parsedC, perrs := schema.Parse(hcheckOPLSee)
	if len(perrs) > 0 {
		t.Fatalf("tenant C OPL: %v", perrs[0])
	}
	var nsC []*namespace.Namespace
	for i := range parsedC {
		n := parsedC[i]
		nsC = append(nsC, &n)
	}
	fa, fb := "", ""
	dsn := dbx.GetSqlite(t, dbx.SQLiteMemory)
	l := logrusx.New("verif", "0")
	base, cancel := context.WithCancel(context.Background())
	release = cancel
	mk := func(nss []*namespace.Namespace) *configx.Provider {
		ctx := configx.ContextWithConfigOptions(base, configx.WithValues(map[string]interface{}{
			config.KeyDSN: dsn.Conn, "log.level": "panic",
			config.KeyNamespaces: nss,
		}))
		p, err := config.NewProvider(ctx, pflag.NewFlagSet("verif", pflag.ContinueOnError), config.New(ctx, l, nil))
		if err != nil {
			t.Fatal(err)
		}
		return p
	}
	ctxer := &tenantCtxer{byTenant: map[string]*configx.Provider{"A": mk(nsA), "B": mk(nsB), "C": mk(nsC), "D": mk(nsA)}, netByTenant: map[string]uuid.UUID{}}
	rctx := configx.ContextWithConfigOptions(base, configx.WithValues(map[string]interface{}{
		config.KeyDSN: dsn.Conn, "log.level": "panic",
		config.KeyNamespaces: nsA,
	}))
	r, err := driver.NewDefaultRegistry(rctx, pflag.NewFlagSet("verif", pflag.ContinueOnError), true,
		[]ketoctx.Option{ketoctx.WithContextualizer(ctxer), ketoctx.WithLogger(l)})
	if err != nil {
		t.Fatal(err)
	}
	reg, ok := r.(*driver.RegistryDefault)
	if !ok {
		t.Fatalf("registry is %T", r)
	}
	if err := reg.MigrateUp(rctx); err != nil {
		t.Fatal(err)
	}
	quiet(reg)
	conn, err := reg.PopConnection(rctx)
	if err != nil {
		t.Fatal(err)
	}
	dnet := networkx.NewNetwork()
	if err := conn.Create(dnet); err != nil {
		t.Fatal(err)
	}
	ctxer.netByTenant["D"] = dnet.ID
	ctxA := context.WithValue(rctx, tenantKey{}, "A")
	ctxB := context.WithValue(rctx, tenantKey{}, "B")
	read, write := reg.ReadRouter(rctx), reg.WriteRouter(rctx)
	envA = &apiEnv{reg: reg, ctx: ctxA, read: read, write: write, chk: check.NewHandler(reg), oplFile: fa, curOPL: hcheckOPL, withReqCtx: true}
	envB = &apiEnv{reg: reg, ctx: ctxB, read: read, write: write, chk: envA.chk, oplFile: fb, curOPL: hcheckOPLNoDoc, withReqCtx: true}
	envC = &apiEnv{reg: reg, ctx: context.WithValue(rctx, tenantKey{}, "C"), read: read, write: write, chk: envA.chk, curOPL: hcheckOPLSee, withReqCtx: true, viewPerm: "see"}
	envD = &apiEnv{reg: reg, ctx: context.WithValue(rctx, tenantKey{}, "D"), read: read, write: write, chk: envA.chk, curOPL: hcheckOPL, withReqCtx: true}
	return envA, envB, envC, envD, release
}
