package drive
import "testing"
func TestLexLink(t *testing.T) {
	its, after := lexAll("class A { 'x' /* ")
	t.Logf("%+v %+v", its, after)
}
