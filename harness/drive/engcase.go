package drive

import (
	"fmt"
	"strconv"
	"strings"

	"github.com/ory/keto/internal/namespace"
	"github.com/ory/keto/internal/namespace/ast"
)

// Sub / Tup are harness-level tuples: names are strings, objects and subject ids
// are small integers (mapped to UUIDs for the implementation).
type Sub struct {
	IsSet bool
	ID    int
	NS    string
	Obj   int
	Rel   string
}

type Tup struct {
	NS  string
	Obj int
	Rel string
	Sub Sub
}

func (s Sub) tokens() string {
	if s.IsSet {
		return fmt.Sprintf("s %s %d %s", S(s.NS), s.Obj, S(s.Rel))
	}
	return fmt.Sprintf("i %d", s.ID)
}

func (t Tup) tokens() string {
	return fmt.Sprintf("%s %d %s %s", S(t.NS), t.Obj, S(t.Rel), t.Sub.tokens())
}

func (t Tup) String() string {
	if t.Sub.IsSet {
		return fmt.Sprintf("%s:%d#%s@(%s:%d#%s)", t.NS, t.Obj, t.Rel, t.Sub.NS, t.Sub.Obj, t.Sub.Rel)
	}
	return fmt.Sprintf("%s:%d#%s@%d", t.NS, t.Obj, t.Rel, t.Sub.ID)
}

// EngCase is one engine case in the line protocol.
type EngCase struct {
	Strict      bool
	GDepth      int
	Width       int
	RDepth      int
	PageSize    int
	FaultAt     int
	FaultPersis bool
	NSs         []*namespace.Namespace
	Tuples      []Tup // in storage order
	Query       Tup
	FaultKind   int  // not part of the protocol: which error value the injected fault returns
	ViaOPL      bool // not part of the protocol: the configuration was accepted by the real OPL parser/type checker
	// not part of the protocol: called once with the rows in storage order, returns one more
	// tuple to store (a membership placed relative to the storage order, e.g. at a page boundary)
	BoundaryMember func(stored []Tup) *Tup
}

func b2i(b bool) int {
	if b {
		return 1
	}
	return 0
}

func opTok(op ast.Operator) string {
	if op == ast.OperatorAnd {
		return "and"
	}
	return "or"
}

func childTokens(sb *strings.Builder, c ast.Child) {
	switch c := c.(type) {
	case *ast.ComputedSubjectSet:
		fmt.Fprintf(sb, " c %s", S(c.Relation))
	case *ast.TupleToSubjectSet:
		fmt.Fprintf(sb, " t %s %s", S(c.Relation), S(c.ComputedSubjectSetRelation))
	case *ast.SubjectSetRewrite:
		fmt.Fprintf(sb, " r %s %d", opTok(c.Operation), len(c.Children))
		for _, ch := range c.Children {
			childTokens(sb, ch)
		}
	case *ast.InvertResult:
		sb.WriteString(" n")
		childTokens(sb, c.Child)
	default:
		panic(fmt.Sprintf("unknown child %T", c))
	}
}

func nsTokens(sb *strings.Builder, nss []*namespace.Namespace) {
	fmt.Fprintf(sb, "N %d", len(nss))
	for _, n := range nss {
		fmt.Fprintf(sb, " %s %d", S(n.Name), len(n.Relations))
		for _, r := range n.Relations {
			fmt.Fprintf(sb, " %s %d", S(r.Name), len(r.Types))
			for _, t := range r.Types {
				fmt.Fprintf(sb, " %s %s", S(t.Namespace), S(t.Relation))
			}
			if r.SubjectSetRewrite != nil {
				fmt.Fprintf(sb, " 1 %s %d", opTok(r.SubjectSetRewrite.Operation), len(r.SubjectSetRewrite.Children))
				for _, ch := range r.SubjectSetRewrite.Children {
					childTokens(sb, ch)
				}
			} else {
				sb.WriteString(" 0")
			}
		}
	}
}

// Payload renders the case in the line protocol (everything after the id).
func (c *EngCase) Payload() string {
	var sb strings.Builder
	fmt.Fprintf(&sb, "%d %d %d %d %d %d %d ", b2i(c.Strict), c.GDepth, c.Width, c.RDepth, c.PageSize, c.FaultAt, b2i(c.FaultPersis))
	nsTokens(&sb, c.NSs)
	fmt.Fprintf(&sb, " T %d", len(c.Tuples))
	for _, t := range c.Tuples {
		sb.WriteString(" " + t.tokens())
	}
	sb.WriteString(" Q " + c.Query.tokens())
	return sb.String()
}

// ---- parsing the protocol back (corpus / replay) ----

type tokStream struct {
	toks []string
	pos  int
	err  error
}

func (s *tokStream) next() string {
	if s.pos >= len(s.toks) {
		if s.err == nil {
			s.err = fmt.Errorf("unexpected end of tokens")
		}
		return ""
	}
	t := s.toks[s.pos]
	s.pos++
	return t
}

func (s *tokStream) int() int {
	n, err := strconv.Atoi(s.next())
	if err != nil && s.err == nil {
		s.err = err
	}
	return n
}

func (s *tokStream) str() string {
	v, err := unS(s.next())
	if err != nil && s.err == nil {
		s.err = err
	}
	return v
}

func (s *tokStream) expect(t string) {
	if g := s.next(); g != t && s.err == nil {
		s.err = fmt.Errorf("expected %q, got %q", t, g)
	}
}

func (s *tokStream) op() ast.Operator {
	if s.next() == "and" {
		return ast.OperatorAnd
	}
	return ast.OperatorOr
}

func (s *tokStream) child() ast.Child {
	switch t := s.next(); t {
	case "c":
		return &ast.ComputedSubjectSet{Relation: s.str()}
	case "t":
		r := s.str()
		return &ast.TupleToSubjectSet{Relation: r, ComputedSubjectSetRelation: s.str()}
	case "r":
		op := s.op()
		n := s.int()
		rw := &ast.SubjectSetRewrite{Operation: op}
		for i := 0; i < n && s.err == nil; i++ {
			rw.Children = append(rw.Children, s.child())
		}
		return rw
	case "n":
		return &ast.InvertResult{Child: s.child()}
	default:
		if s.err == nil {
			s.err = fmt.Errorf("bad child token %q", t)
		}
		return &ast.ComputedSubjectSet{}
	}
}

func (s *tokStream) namespaces() []*namespace.Namespace {
	s.expect("N")
	n := s.int()
	var nss []*namespace.Namespace
	for i := 0; i < n && s.err == nil; i++ {
		ns := &namespace.Namespace{Name: s.str()}
		nr := s.int()
		for j := 0; j < nr && s.err == nil; j++ {
			rel := ast.Relation{Name: s.str()}
			nt := s.int()
			for k := 0; k < nt && s.err == nil; k++ {
				tn := s.str()
				rel.Types = append(rel.Types, ast.RelationType{Namespace: tn, Relation: s.str()})
			}
			if s.int() == 1 {
				op := s.op()
				nc := s.int()
				rw := &ast.SubjectSetRewrite{Operation: op}
				for k := 0; k < nc && s.err == nil; k++ {
					rw.Children = append(rw.Children, s.child())
				}
				rel.SubjectSetRewrite = rw
			}
			ns.Relations = append(ns.Relations, rel)
		}
		nss = append(nss, ns)
	}
	return nss
}

func (s *tokStream) sub() Sub {
	switch t := s.next(); t {
	case "i":
		return Sub{ID: s.int()}
	case "s":
		n := s.str()
		o := s.int()
		return Sub{IsSet: true, NS: n, Obj: o, Rel: s.str()}
	default:
		if s.err == nil {
			s.err = fmt.Errorf("bad subject token %q", t)
		}
		return Sub{}
	}
}

func (s *tokStream) tup() Tup {
	n := s.str()
	o := s.int()
	r := s.str()
	return Tup{NS: n, Obj: o, Rel: r, Sub: s.sub()}
}

// ParseEngCase parses the payload of an engine line.
func ParseEngCase(payload string) (*EngCase, error) {
	s := &tokStream{toks: strings.Fields(payload)}
	c := &EngCase{}
	c.Strict = s.int() != 0
	c.GDepth = s.int()
	c.Width = s.int()
	c.RDepth = s.int()
	c.PageSize = s.int()
	c.FaultAt = s.int()
	c.FaultPersis = s.int() != 0
	c.NSs = s.namespaces()
	s.expect("T")
	n := s.int()
	for i := 0; i < n && s.err == nil; i++ {
		c.Tuples = append(c.Tuples, s.tup())
	}
	s.expect("Q")
	c.Query = s.tup()
	if s.err == nil && s.pos != len(s.toks) {
		s.err = fmt.Errorf("trailing tokens")
	}
	return c, s.err
}
