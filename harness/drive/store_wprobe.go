package drive

// Write attempts through the read and syntax APIs (C17): only the write API may
// change state. The REST attempts go to the read and syntax routers; the gRPC
// attempts go through real grpc.Servers as the daemon builds them
// (ReadGRPCServer, OplGRPCServer) over an in-memory connection, so that which
// services a server registers is part of what is exercised.

import (
	"context"
	"encoding/json"
	"net"
	"net/http"
	"net/http/httptest"
	"net/url"
	"strings"
	"sync"

	"google.golang.org/grpc"
	"google.golang.org/grpc/credentials/insecure"
	"google.golang.org/grpc/test/bufconn"

	"github.com/ory/keto/internal/relationtuple"
	rts "github.com/ory/keto/proto/ory/keto/relation_tuples/v1alpha2"
)

type stGRPCProbe struct {
	once  sync.Once
	conns []*grpc.ClientConn
	err   error
}

func (e *stEnv) grpcProbeConns() ([]*grpc.ClientConn, error) {
	p := &e.probe
	p.once.Do(func() {
		for _, srv := range []*grpc.Server{e.reg.ReadGRPCServer(e.ctx), e.reg.OplGRPCServer(e.ctx)} {
			lis := bufconn.Listen(1 << 20)
			go func(s *grpc.Server) { _ = s.Serve(lis) }(srv)
			e.t.Cleanup(srv.Stop)
			cc, err := grpc.NewClient("passthrough:///bufnet",
				grpc.WithContextDialer(func(ctx context.Context, _ string) (net.Conn, error) { return lis.DialContext(ctx) }),
				grpc.WithTransportCredentials(insecure.NewCredentials()))
			if err != nil {
				p.err = err
				return
			}
			p.conns = append(p.conns, cc)
		}
	})
	return p.conns, p.err
}

// writeAttempts issues write requests to everything that is NOT the write API. None of
// them may change the database (the caller's snapshot comparison decides); the return
// value names the attempts that were answered as if they had been carried out.
func (e *stEnv) writeAttempts(obj, sub string) string {
	var accepted []string
	body, _ := json.Marshal(map[string]any{"namespace": e.cfg[0], "object": obj, "relation": "r", "subject_id": sub})
	patch, _ := json.Marshal([]map[string]any{{"action": "insert", "relation_tuple": json.RawMessage(body)}})
	for name, h := range map[string]http.Handler{"read": e.nets[0].read, "syntax": e.syntax} {
		for _, rq := range []struct{ method, path, body string }{
			{"PUT", relationtuple.WriteRouteBase, string(body)},
			{"PATCH", relationtuple.WriteRouteBase, string(patch)},
			{"DELETE", relationtuple.WriteRouteBase + "?namespace=" + e.cfg[0], ""},
		} {
			func() {
				defer func() { _ = recover() }()
				req := httptest.NewRequest(rq.method, rq.path, strings.NewReader(rq.body))
				req.Header.Set("Content-Type", "application/json")
				w := httptest.NewRecorder()
				h.ServeHTTP(w, req)
				if w.Code >= 200 && w.Code < 300 {
					accepted = append(accepted, name+":"+rq.method)
				}
			}()
		}
	}
	// the probes every deployment sends to the read and syntax APIs
	for _, h := range []http.Handler{e.nets[0].read, e.syntax} {
		for _, path := range []string{"/health/ready", "/health/alive", "/version", "/namespaces"} {
			func() {
				defer func() { _ = recover() }()
				w := httptest.NewRecorder()
				h.ServeHTTP(w, httptest.NewRequest("GET", path, nil))
			}()
		}
	}
	conns, err := e.grpcProbeConns()
	if err != nil {
		return "setup:" + err.Error()
	}
	for i, cc := range conns {
		name := []string{"grpc-read", "grpc-syntax"}[i]
		cl := rts.NewWriteServiceClient(cc)
		_, err := cl.TransactRelationTuples(e.ctx, &rts.TransactRelationTuplesRequest{RelationTupleDeltas: []*rts.RelationTupleDelta{{
			Action:        rts.RelationTupleDelta_ACTION_INSERT,
			RelationTuple: &rts.RelationTuple{Namespace: e.cfg[0], Object: obj, Relation: "r", Subject: rts.NewSubjectID(sub)},
		}}})
		if err == nil {
			accepted = append(accepted, name+":Transact")
		}
		_, err = cl.DeleteRelationTuples(e.ctx, &rts.DeleteRelationTuplesRequest{RelationQuery: &rts.RelationQuery{Namespace: &e.cfg[0]}})
		if err == nil {
			accepted = append(accepted, name+":Delete")
		}
	}
	return strings.Join(accepted, ",")
}

// lostMappingProbe: a stored relationship whose object name has lost its row in
// keto_uuid_mappings (a partial restore, a manual clean-up), then list requests that filter
// by exactly that name through REST and gRPC. Reads leave both tables as they are - also
// then. Runs in an environment of its own (the modelled histories do not see it). Returns ""
// or what changed.
func (e *stEnv) lostMappingProbe(name string) string {
	do := func(h http.Handler, method, target, body string) int {
		req := httptest.NewRequest(method, target, strings.NewReader(body))
		req.Header.Set("Content-Type", "application/json")
		w := httptest.NewRecorder()
		h.ServeHTTP(w, req)
		return w.Code
	}
	body, _ := json.Marshal(map[string]any{"namespace": e.cfg[0], "object": name, "relation": "r", "subject_id": name + "-sub"})
	if code := do(e.nets[0].write, "PUT", relationtuple.WriteRouteBase, string(body)); code/100 != 2 {
		return ""
	}
	conn := e.nets[0].p.Connection(e.ctx)
	for _, lost := range []string{name, name + "-sub"} {
		if err := conn.RawQuery("DELETE FROM keto_uuid_mappings WHERE string_representation = ?", lost).Exec(); err != nil {
			return ""
		}
	}
	before := e.snapshot()
	msg := ""
	func() {
		defer func() {
			if r := recover(); r != nil {
				msg = "panic"
			}
		}()
		q := url.Values{"namespace": {e.cfg[0]}, "object": {name}}
		do(e.nets[0].read, "GET", relationtuple.ReadRouteBase+"?"+q.Encode(), "")
		q = url.Values{"subject_id": {name + "-sub"}}
		do(e.nets[0].read, "GET", relationtuple.ReadRouteBase+"?"+q.Encode(), "")
		if conns, err := e.grpcProbeConns(); err == nil && len(conns) > 0 {
			ns, ob, sub := e.cfg[0], name, name+"-sub"
			rc := rts.NewReadServiceClient(conns[0])
			_, _ = rc.ListRelationTuples(e.ctx, &rts.ListRelationTuplesRequest{RelationQuery: &rts.RelationQuery{Namespace: &ns, Object: &ob}})
			_, _ = rc.ListRelationTuples(e.ctx, &rts.ListRelationTuplesRequest{RelationQuery: &rts.RelationQuery{Subject: rts.NewSubjectID(sub)}})
		}
	}()
	if after := e.snapshot(); after != before && msg == "" {
		msg = "tables changed by list requests that filter by a name whose mapping row is missing"
	}
	// put the row-less relationship away again (the next probe starts from a consistent table)
	_ = conn.RawQuery("DELETE FROM keto_relation_tuples WHERE relation = 'r' AND namespace = ?", e.cfg[0]).Exec()
	return msg
}
