package drive

import (
	"math"
	"bytes"
	"context"
	"encoding/json"
	"errors"
	"fmt"
	"math/rand"
	"net/http"
	"net/http/httptest"
	"net/url"
	"os"
	"path/filepath"
	"strings"
	"testing"

	"github.com/ory/herodot"
	"google.golang.org/grpc/codes"
	"google.golang.org/grpc/status"

	"github.com/ory/keto/internal/check"
	"github.com/ory/keto/internal/check/checkgroup"
	"github.com/ory/keto/internal/driver"
	"github.com/ory/keto/internal/driver/config"
	"github.com/ory/keto/internal/relationtuple"
	"github.com/ory/keto/ketoapi"
	rts "github.com/ory/keto/proto/ory/keto/relation_tuples/v1alpha2"
)

func init() {
	streams["hcheck"] = streamHCheck
}

const hcheckOPL = `
import { Namespace, SubjectSet, Context } from "@ory/keto-namespace-types"
class User implements Namespace {}
class Group implements Namespace {
  related: { members: (User | SubjectSet<Group, "members">)[] }
}
class Team implements Namespace {
  related: { members: User[] }
}
class Doc implements Namespace {
  related: {
    viewers: (User | SubjectSet<Group, "members"> | SubjectSet<Team, "members">)[]
    banned: User[]
    parents: Doc[]
  }
  permits = {
    view: (ctx: Context): boolean => this.related.viewers.includes(ctx.subject) || this.related.parents.traverse((p) => p.permits.view(ctx)),
    ok: (ctx: Context): boolean => this.permits.view(ctx) && !this.related.banned.includes(ctx.subject),
  }
}
`

// hcheckOPLNoTeam is hcheckOPL after the namespace Team was removed from the
// configuration (its relationships stay in the database).
var hcheckOPLNoTeam = strings.Replace(strings.Replace(hcheckOPL, `class Team implements Namespace {
  related: { members: User[] }
}
`, "", 1), ` | SubjectSet<Team, "members">`, "", 1)

// apiEnv is a registry configured from an OPL file, with REST routers and gRPC
// handlers, used by the handler streams.
type apiEnv struct {
	reg     *driver.RegistryDefault
	ctx     context.Context
	read    http.Handler
	write   http.Handler
	chk     *check.Handler
	oplFile string
	curOPL  string
	// the name of the permission Doc#view in this environment's document ("" = view)
	viewPerm string
	nOPL    int
	// requests carry the environment's context (the tenant of a multi-tenant registry)
	withReqCtx bool
}

func newAPIEnv(t testing.TB, opl string) *apiEnv {
	reg := driver.NewSqliteTestRegistry(t, false)
	quiet(reg)
	ctx := context.Background()
	f := filepath.Join(t.TempDir(), "ns.ts")
	if err := os.WriteFile(f, []byte(opl), 0o644); err != nil {
		t.Fatal(err)
	}
	if err := reg.Config(ctx).Set(config.KeyNamespaces, map[string]any{"location": "file://" + f}); err != nil {
		t.Fatal(err)
	}
	if _, err := reg.Config(ctx).NamespaceManager(); err != nil {
		t.Fatal(err)
	}
	return &apiEnv{reg: reg, ctx: ctx, read: reg.ReadRouter(ctx), write: reg.WriteRouter(ctx), chk: check.NewHandler(reg), oplFile: f, curOPL: opl}
}

// setOPL switches the configuration to the given OPL document (a new file, so that the
// namespace manager is rebuilt).
func (e *apiEnv) setOPL(opl string) error {
	if e.curOPL == opl {
		return nil
	}
	e.nOPL++
	f := filepath.Join(filepath.Dir(e.oplFile), fmt.Sprintf("ns-%d.ts", e.nOPL))
	if err := os.WriteFile(f, []byte(opl), 0o644); err != nil {
		return err
	}
	if err := e.reg.Config(e.ctx).Set(config.KeyNamespaces, map[string]any{"location": "file://" + f}); err != nil {
		return err
	}
	if _, err := e.reg.Config(e.ctx).NamespaceManager(); err != nil {
		return err
	}
	e.curOPL = opl
	return nil
}

func (e *apiEnv) do(h http.Handler, method, target string, body []byte) (code int, resp []byte, panicked string) {
	defer func() {
		if r := recover(); r != nil {
			panicked = fmt.Sprint(r)
			code = -1
		}
	}()
	var rd *bytes.Reader
	if body != nil {
		rd = bytes.NewReader(body)
	} else {
		rd = bytes.NewReader(nil)
	}
	req := httptest.NewRequest(method, target, rd)
	if e.withReqCtx {
		req = req.WithContext(e.ctx)
	}
	if body != nil {
		req.Header.Set("Content-Type", "application/json")
	}
	w := httptest.NewRecorder()
	h.ServeHTTP(w, req)
	return w.Code, w.Body.Bytes(), ""
}

func httpCanon(code int, body []byte, mirror bool) string {
	switch {
	case code == 200 || (mirror && code == 403):
		var r struct {
			Allowed *bool `json:"allowed"`
		}
		if err := json.Unmarshal(body, &r); err != nil || r.Allowed == nil {
			return fmt.Sprintf("%d:?", code)
		}
		if code == 403 {
			if *r.Allowed {
				return "403:1"
			}
			return "403"
		}
		return fmt.Sprintf("200:%d", b2i(*r.Allowed))
	}
	return fmt.Sprintf("%d", code)
}

func grpcCanon(allowed bool, err error) string {
	if err == nil {
		return fmt.Sprintf("ok:%d", b2i(allowed))
	}
	var st interface{ GRPCStatus() *status.Status }
	if errors.As(err, &st) {
		return st.GRPCStatus().Code().String()
	}
	return codes.Unknown.String()
}

type hEntry struct {
	t       *ketoapi.RelationTuple
	tupleOk bool
	nsKnown bool
	memb    checkgroup.Membership
	err     string
}

func (e *apiEnv) genTuple(r *rand.Rand, objs, subs []string) *ketoapi.RelationTuple {
	nss := []string{"Doc", "Doc", "Doc", "Group", "User", "Nope", "Team"}
	rels := map[string][]string{"Doc": {"viewers", "banned", "parents", "view", "ok", "undeclared"}, "Group": {"members", "undeclared"}, "User": {"x"}, "Nope": {"viewers"}, "Team": {"members"}}
	ns := pick(r, nss)
	t := &ketoapi.RelationTuple{Namespace: ns, Object: pick(r, objs), Relation: pick(r, rels[ns])}
	switch k := r.Intn(12); {
	case k < 7:
		s := pick(r, subs)
		t.SubjectID = &s
	case k < 11:
		sn := pick(r, []string{"Group", "Group", "Doc", "Nope", "Team"})
		sr := "members"
		if sn == "Doc" {
			sr = pick(r, []string{"viewers", "view"})
		}
		t.SubjectSet = &ketoapi.SubjectSet{Namespace: sn, Object: pick(r, objs), Relation: sr}
	default:
		// no subject: malformed
	}
	return t
}

func tupleQuery(t *ketoapi.RelationTuple) url.Values {
	v := url.Values{}
	v.Set("namespace", t.Namespace)
	v.Set("object", t.Object)
	v.Set("relation", t.Relation)
	if t.SubjectID != nil {
		v.Set("subject_id", *t.SubjectID)
	} else if t.SubjectSet != nil {
		v.Set("subject_set.namespace", t.SubjectSet.Namespace)
		v.Set("subject_set.object", t.SubjectSet.Object)
		v.Set("subject_set.relation", t.SubjectSet.Relation)
	}
	return v
}

func protoTuple(t *ketoapi.RelationTuple) *rts.RelationTuple {
	p := &rts.RelationTuple{Namespace: t.Namespace, Object: t.Object, Relation: t.Relation}
	if t.SubjectID != nil {
		p.Subject = rts.NewSubjectID(*t.SubjectID)
	} else if t.SubjectSet != nil {
		p.Subject = rts.NewSubjectSet(t.SubjectSet.Namespace, t.SubjectSet.Object, t.SubjectSet.Relation)
	}
	return p
}

// streamHCheck: the same stored state and relationship through every check
// transport, singly and in batches, against the engine's own answer.
// Line: hcheck <id> <n> { <tupleOk> <nsKnown> <memb 0 unknown|1 isMember|2 notMember> <err 0 none|1 storage|2 schema|3 ctx|4 other> }
func streamHCheck(t *testing.T, o *Out) {
	r := newRand()
	n := envInt("VERIF_N", 200)
	env := newAPIEnv(t, hcheckOPL)
	// The property is about transports, not schedules: with a request depth that binds, the
	// real concurrent checkgroup lets the engine's own answer depend on which of two sibling
	// expansions marks a shared subject set visited first (observed: Doc:b#viewers@alice at
	// max-depth 3 answered allowed by GET and denied by POST on the same state). The
	// deterministic group makes "the engine's decision" well defined; schedules are the
	// business of C01/C14/C15.
	oldFactory := checkgroup.DefaultFactory
	checkgroup.DefaultFactory = newSeq
	defer func() { checkgroup.DefaultFactory = oldFactory }()
	objs := []string{"a", "b", "c", "d", "ü:#@", ""}
	subs := []string{"alice", "bob", "eve", "", "Group:zz#members", "Group:a#members"}
	var stored []*ketoapi.RelationTuple // what the current block wrote
	for i := 0; i < n; i++ {
		if i%10 == 0 {
			// the full configuration while the state is written (and for most blocks of ten
			// cases); every third block then runs after the namespace Team was REMOVED from the
			// configuration: its relationships are still stored and were checked before, but a
			// relationship in a namespace that is unknown now must not be reported as allowed
			if err := env.setOPL(hcheckOPL); err != nil {
				t.Fatal(err)
			}
			// new stored state
			if err := env.reg.RelationTupleManager().DeleteAllRelationTuples(env.ctx, &relationtuple.RelationQuery{}); err != nil {
				t.Fatal(err)
			}
			var ts []*ketoapi.RelationTuple
			for k := 0; k < 5+r.Intn(25); k++ {
				tt := env.genTuple(r, objs, subs)
				if tt.Namespace == "Nope" || (tt.SubjectSet != nil && tt.SubjectSet.Namespace == "Nope") || (tt.SubjectID == nil && tt.SubjectSet == nil) {
					continue
				}
				if tt.Relation == "view" || tt.Relation == "ok" || tt.Relation == "undeclared" || tt.Relation == "x" {
					continue
				}
				ts = append(ts, tt)
			}
			// a chain of nested groups so that answers need two or more indirections
			alice, gmem := "alice", "members"
			lookalike := "Group:zz#members" // a subject ID spelled like a subject set
			ts = append(ts,
				&ketoapi.RelationTuple{Namespace: "Doc", Object: "a", Relation: "viewers", SubjectSet: &ketoapi.SubjectSet{Namespace: "Group", Object: "a", Relation: gmem}},
				&ketoapi.RelationTuple{Namespace: "Doc", Object: "b", Relation: "viewers", SubjectSet: &ketoapi.SubjectSet{Namespace: "Group", Object: "a", Relation: gmem}},
				&ketoapi.RelationTuple{Namespace: "Group", Object: "a", Relation: gmem, SubjectSet: &ketoapi.SubjectSet{Namespace: "Group", Object: "b", Relation: gmem}},
				&ketoapi.RelationTuple{Namespace: "Group", Object: "b", Relation: gmem, SubjectSet: &ketoapi.SubjectSet{Namespace: "Group", Object: "c", Relation: gmem}},
				&ketoapi.RelationTuple{Namespace: "Group", Object: "c", Relation: gmem, SubjectID: &alice},
				// a chain of six groups below Doc:d: answers that need a depth above the default limit of 5
				&ketoapi.RelationTuple{Namespace: "Doc", Object: "d", Relation: "viewers", SubjectSet: &ketoapi.SubjectSet{Namespace: "Group", Object: "d1", Relation: gmem}},
				&ketoapi.RelationTuple{Namespace: "Group", Object: "d1", Relation: gmem, SubjectSet: &ketoapi.SubjectSet{Namespace: "Group", Object: "d2", Relation: gmem}},
				&ketoapi.RelationTuple{Namespace: "Group", Object: "d2", Relation: gmem, SubjectSet: &ketoapi.SubjectSet{Namespace: "Group", Object: "d3", Relation: gmem}},
				&ketoapi.RelationTuple{Namespace: "Group", Object: "d3", Relation: gmem, SubjectSet: &ketoapi.SubjectSet{Namespace: "Group", Object: "d4", Relation: gmem}},
				&ketoapi.RelationTuple{Namespace: "Group", Object: "d4", Relation: gmem, SubjectSet: &ketoapi.SubjectSet{Namespace: "Group", Object: "d5", Relation: gmem}},
				&ketoapi.RelationTuple{Namespace: "Group", Object: "d5", Relation: gmem, SubjectID: &alice},
				&ketoapi.RelationTuple{Namespace: "Doc", Object: "b", Relation: "viewers", SubjectID: &lookalike},
				&ketoapi.RelationTuple{Namespace: "Team", Object: "a", Relation: gmem, SubjectID: &alice},
				&ketoapi.RelationTuple{Namespace: "Doc", Object: "c", Relation: "viewers", SubjectSet: &ketoapi.SubjectSet{Namespace: "Team", Object: "a", Relation: gmem}})
			its, err := env.reg.Mapper().FromTuple(env.ctx, ts...)
			if err != nil {
				t.Fatal(err)
			}
			if err := env.reg.RelationTupleManager().WriteRelationTuples(env.ctx, its...); err != nil {
				t.Fatal(err)
			}
			stored = ts
			ta := &ketoapi.RelationTuple{Namespace: "Team", Object: "a", Relation: "members", SubjectID: &alice}
			if it, err := env.reg.ReadOnlyMapper().FromTuple(env.ctx, ta); err == nil {
				// warm whatever the read path remembers about the namespace Team
				env.reg.PermissionEngine().CheckRelationTuple(env.ctx, it[0], 0)
			}
			// the configured global depth limit of this block: the default (5), a lower and a higher one
			gd := []int{5, 5, 3, 8, 7}[(i/10)%5]
			if err := env.reg.Config(env.ctx).Set(config.KeyLimitMaxReadDepth, gd); err != nil {
				t.Fatal(err)
			}
			o.Count(fmt.Sprintf("global-depth:%d", gd))
			// the number of entries of a batch that are checked side by side: the default (5), one at a
			// time, fewer and more than a batch has entries
			par := []int{5, 1, 3, 10, 2, 7, 4}[(i/10)%7]
			if err := env.reg.Config(env.ctx).Set(config.KeyBatchCheckParallelizationLimit, par); err != nil {
				t.Fatal(err)
			}
			o.Count(fmt.Sprintf("batch-parallelization:%d", par))
			if (i/10)%3 == 2 {
				if err := env.setOPL(hcheckOPLNoTeam); err != nil {
					t.Fatal(err)
				}
				o.Count("config:team-removed")
			}
			if envInt("VERIF_HC_DUMP", -1) == i {
				for _, x := range ts {
					fmt.Println("STATE", x.String())
				}
			}
		}
		// request depths: absent, binding, negative, above the global limit, and values beyond
		// 32 bits in the query string (they mean the global limit like every value above it;
		// the gRPC field is an int32, there the same request is the one without a depth)
		depth := []int{0, 0, 0, 3, 1, -1, 50, 6, 7, 2, 4294967298, 4294967297}[r.Intn(12)]
		gdepth := int32(0)
		if depth <= math.MaxInt32 {
			gdepth = int32(depth)
		}
		// batch sizes: every size up to the configured maximum (10), the larger ones (more
		// entries than the batch parallelisation limit, odd counts, exactly the maximum) included
		k := 1 + r.Intn(5)
		if r.Intn(5) < 2 {
			k = 6 + r.Intn(5)
		}
		if r.Intn(25) == 0 {
			k = 11 + r.Intn(2) // more than the maximum: rejected as a whole, by both transports
		}
		o.Count(fmt.Sprintf("batch-size:%d", k))
		o.Pre("hcheck", fmt.Sprintf("h%d", i), fmt.Sprintf("%d (entries of this case: regenerate the run; max-depth=%d)", k, depth))
		entries := make([]hEntry, k)
		for j := range entries {
			tt := env.genTuple(r, objs, subs)
			switch {
			case j > 0 && r.Intn(6) == 0:
				// a look-alike of an earlier entry: a subject ID that is spelled like a subject set (or
				// the other way round) - the two print alike, they are different relationships
				prev := entries[r.Intn(j)].t
				cp := *prev
				switch {
				case prev.SubjectSet != nil:
					sid := prev.SubjectSet.String()
					cp.SubjectSet, cp.SubjectID = nil, &sid
					tt = &cp
				case prev.SubjectID != nil:
					if ss, err := (&ketoapi.SubjectSet{}).FromString(*prev.SubjectID); err == nil {
						cp.SubjectID, cp.SubjectSet = nil, ss
						tt = &cp
					}
				}
			case j > 0 && r.Intn(3) == 0:
				// duplicates within one batch
				tt = entries[r.Intn(j)].t
			case r.Intn(5) == 0 && len(stored) > 0:
				// a relationship that is stored verbatim (a direct hit: what a depth limit of 1 still
				// has to apply to)
				tt = stored[r.Intn(len(stored))]
			case r.Intn(3) == 0:
				// entries that share intermediate subject sets
				al := "alice"
				tt = &ketoapi.RelationTuple{Namespace: "Doc", Object: pick(r, []string{"a", "b", "d", "d"}), Relation: pick(r, []string{"viewers", "view", "ok"}), SubjectID: &al}
			}
			en := hEntry{t: tt, tupleOk: tt.SubjectID != nil || tt.SubjectSet != nil, nsKnown: true}
			// known namespaces: asked from the namespace manager of the configuration in force,
			// not through the mapper the handlers use
			nm, _ := env.reg.Config(env.ctx).NamespaceManager()
			if _, err := nm.GetNamespaceByName(env.ctx, tt.Namespace); err != nil {
				en.nsKnown = false
			}
			if en.nsKnown && tt.SubjectID == nil && tt.SubjectSet != nil {
				if _, err := nm.GetNamespaceByName(env.ctx, tt.SubjectSet.Namespace); err != nil {
					en.nsKnown = false
				}
			}
			if en.tupleOk && en.nsKnown {
				it, err := env.reg.ReadOnlyMapper().FromTuple(env.ctx, tt)
				switch {
				case errors.Is(err, herodot.ErrNotFound):
					t.Fatalf("mapper: namespace of %s unknown to the mapper but known to the namespace manager", tt)
				case err != nil:
					t.Fatalf("mapper: %v", err)
				default:
					res := env.reg.PermissionEngine().CheckRelationTuple(env.ctx, it[0], depth)
					en.memb = res.Membership
					en.err = errKind(res.Err)
				}
			}
			entries[j] = en
		}
		var payload, impl strings.Builder
		fmt.Fprintf(&payload, "%d", k)
		nontrivial := false
		dq := ""
		if depth != 0 {
			dq = fmt.Sprintf("&max-depth=%d", depth)
		}
		for j, en := range entries {
			membCode := map[checkgroup.Membership]int{checkgroup.MembershipUnknown: 0, checkgroup.IsMember: 1, checkgroup.NotMember: 2}[en.memb]
			errCode := map[string]int{"": 0, "none": 0, "storage": 1, "schema": 2, "ctx": 3}[en.err]
			if en.err != "" && en.err != "none" && errCode == 0 {
				errCode = 4
			}
			fmt.Fprintf(&payload, " %d %d %d %d", b2i(en.tupleOk), b2i(en.nsKnown), membCode, errCode)
			if en.memb == checkgroup.IsMember {
				nontrivial = true
			}
			q := tupleQuery(en.t).Encode()
			body, _ := json.Marshal(en.t)
			c1, b1, _ := env.do(env.read, "GET", check.RouteBase+"?"+q+dq, nil)
			c2, b2, _ := env.do(env.read, "GET", check.OpenAPIRouteBase+"?"+q+dq, nil)
			c3, b3, _ := env.do(env.read, "POST", check.RouteBase+"?"+strings.TrimPrefix(dq, "&"), body)
			c4, b4, _ := env.do(env.read, "POST", check.OpenAPIRouteBase+"?"+strings.TrimPrefix(dq, "&"), body)
			gr, gerr := env.chk.Check(env.ctx, &rts.CheckRequest{Tuple: protoTuple(en.t), MaxDepth: gdepth})
			// the deprecated flat form of the same request (fields of the request instead of `tuple`)
			pt := protoTuple(en.t)
			gr2, gerr2 := env.chk.Check(env.ctx, &rts.CheckRequest{Namespace: pt.Namespace, Object: pt.Object, Relation: pt.Relation, Subject: pt.Subject, MaxDepth: gdepth})
			if g1, g2 := grpcCanon(gr.GetAllowed(), gerr), grpcCanon(gr2.GetAllowed(), gerr2); g1 != g2 {
				gr, gerr = gr2, gerr2
				o.Count("grpc-flat-differs")
				fmt.Fprintf(&impl, "x_flat%d=tuple-form:%s flat-form:%s\t", j, g1, g2)
			}
			m1, m3 := httpCanon(c1, b1, true), httpCanon(c3, b3, true)
			o1, o3 := httpCanon(c2, b2, false), httpCanon(c4, b4, false)
			mirror, open := m1, o1
			if m1 != m3 {
				mirror = "get=" + m1 + "/post=" + m3
			}
			if o1 != o3 {
				open = "get=" + o1 + "/post=" + o3
			}
			fmt.Fprintf(&impl, "e%d=%s|%s|%s\tx_t%d=%s depth=%d\t", j, mirror, open, grpcCanon(gr.GetAllowed(), gerr), j, strings.ReplaceAll(en.t.String(), "\t", " "), depth)
			o.Count("mirror:" + mirror)
		}
		// batches
		var ts []*ketoapi.RelationTuple
		var ps []*rts.RelationTuple
		for _, en := range entries {
			ts = append(ts, en.t)
			ps = append(ps, protoTuple(en.t))
		}
		o.Pre("hcheck", fmt.Sprintf("h%d", i), payload.String())
		bb, _ := json.Marshal(map[string]any{"tuples": ts})
		bc, bresp, _ := env.do(env.read, "POST", check.BatchRoute+"?"+strings.TrimPrefix(dq, "&"), bb)
		rest := fmt.Sprintf("status%d", bc)
		if bc == 200 {
			var br check.BatchCheckPermissionResult
			if err := json.Unmarshal(bresp, &br); err == nil {
				var parts []string
				for _, x := range br.Results {
					parts = append(parts, fmt.Sprintf("%d,%d", b2i(x.Allowed), b2i(x.Error != "")))
				}
				rest = strings.Join(parts, ";")
			}
		}
		gb, gerr := env.chk.BatchCheck(env.ctx, &rts.BatchCheckRequest{Tuples: ps, MaxDepth: gdepth})
		grpcB := "err:" + grpcCanon(false, gerr)
		if gerr == nil {
			var parts []string
			for _, x := range gb.Results {
				parts = append(parts, fmt.Sprintf("%d,%d", b2i(x.Allowed), b2i(x.Error != "")))
			}
			grpcB = strings.Join(parts, ";")
		}
		fmt.Fprintf(&impl, "batch_rest=%s\tbatch_grpc=%s", rest, grpcB)
		o.Emit("hcheck", fmt.Sprintf("h%d", i), payload.String(), impl.String(), nontrivial)
	}
}
