package drive

// Execution of the items of a `store` history against the real code.

import (
	"bytes"
	"context"
	"encoding/json"
	"errors"
	"fmt"
	"math/rand"
	"net/http"
	"net/http/httptest"
	"net/url"
	"os"
	"strconv"
	"strings"

	"github.com/gofrs/uuid"

	"github.com/ory/keto/internal/relationtuple"
	"github.com/ory/keto/internal/x"
	"github.com/ory/keto/ketoapi"
	rts "github.com/ory/keto/proto/ory/keto/relation_tuples/v1alpha2"
)

type stRef struct{ net, id int }

// stCase is one history (one protocol line).
type stCase struct {
	env    *stEnv
	r      *rand.Rand
	strs   []string
	ids    map[string]int
	byUUID map[uuid.UUID]stRef
	mapped []map[int]bool // per network: strings mapped by a successful MS item

	toks  []string
	cols  []string
	n     int
	rows  []stRow
	snap  string
	fault string

	okWrites, okLists int

	nexts  map[int]string   // item index -> next page token it returned (L/PL)
	chains map[int]*stChain // open iterations, keyed by the index of their last fetch
}

// stChain is a paginated iteration: first fetch with the empty token, every continuation with
// the token the previous fetch returned, same network / kind / query / size.
type stChain struct {
	kind, key string
	net       int
	q         *stQuery
	snaps     []map[uuid.UUID]stRow // the network's rows at each fetch
	pages     [][]string
}

func newStCase(e *stEnv, r *rand.Rand) *stCase {
	c := &stCase{env: e, r: r, ids: map[string]int{}, byUUID: map[uuid.UUID]stRef{}, fault: "0",
		nexts: map[int]string{}, chains: map[int]*stChain{}}
	for range e.nets {
		c.mapped = append(c.mapped, map[int]bool{})
	}
	e.clear()
	c.rows = c.readRows()
	c.snap = e.snapshot()
	return c
}

func (c *stCase) intern(s string) int {
	if id, ok := c.ids[s]; ok {
		return id
	}
	c.strs = append(c.strs, s)
	id := len(c.strs)
	c.ids[s] = id
	for _, n := range c.env.nets {
		c.byUUID[uuid.NewV5(n.nid, s)] = stRef{n.idx, id}
	}
	return id
}

// str is the string of an intern id; an id that was never interned (corpus lines may carry 0)
// stands for a string of its own that renders as 0.
func (c *stCase) str(id int) string {
	if id < 1 || id > len(c.strs) {
		return "never-interned-" + strconv.Itoa(id)
	}
	return c.strs[id-1]
}

// idOf maps a stored UUID of network k back to the intern id (0 = unknown).
func (c *stCase) idOf(k int, u uuid.UUID) int {
	if ref, ok := c.byUUID[u]; ok && (k < 0 || ref.net == k) {
		return ref.id
	}
	return 0
}

func (c *stCase) uuidOf(k int, id int) uuid.UUID { return uuid.NewV5(c.env.nets[k].nid, c.str(id)) }

// stItem describes one request.
type stItem struct {
	kind string // C D P T G W X A Y MS M L LA PL E RM
	net  int
	at   *stATuple // C
	raw  string    // C: raw body instead of the tuple ("null", "{}")
	q    *stQuery  // D G A L LA PL E (nil = no query: G 0 / L 0)
	ds   []*stDelta
	ins  []stTuple
	del  []stTuple
	strs []int // MS, RM
	size int
	tok  string                 // page token sent
	via  int                    // L/LA: 0 REST, 1 gRPC RelationQuery, 2 gRPC deprecated Query; G: 1, 2
	fn   func(c *stCase) string // M, RM: performs the request, returns the status

	refSet bool // L/PL: the token sent is the next-page token that item `ref` of this case returned
	ref    int

	shards []string // filled by run: one per inserted tuple (C: 1, W/Y: len(ins))
	next   string   // L/PL: the next page token returned
	page   []string // L/PL: the rendered rows returned
	status string
	obs    string
}

func stHTTPStatus(code int) string {
	switch {
	case code >= 200 && code < 300:
		return "ok"
	case code == 400:
		return "bad"
	case code == 404:
		return "notfound"
	}
	return "internal"
}

func stErrStatus(err error) string {
	if err == nil {
		return "ok"
	}
	var sc interface{ StatusCode() int }
	if errors.As(err, &sc) {
		return stHTTPStatus(sc.StatusCode())
	}
	return "internal"
}

func (c *stCase) rest(h http.Handler, method, path string, q url.Values, body string) (int, []byte) {
	target := path
	if len(q) > 0 {
		target += "?" + q.Encode()
	}
	var req *http.Request
	if body == "" {
		req = httptest.NewRequest(method, target, nil)
	} else {
		req = httptest.NewRequest(method, target, strings.NewReader(body))
	}
	rec := httptest.NewRecorder()
	h.ServeHTTP(rec, req)
	return rec.Code, rec.Body.Bytes()
}

// --- encodings of the abstract values ------------------------------------

func (c *stCase) jsonTuple(a *stATuple) map[string]any {
	m := map[string]any{}
	put := func(m map[string]any, k, v string) {
		if v == "" && c.r.Intn(2) == 0 {
			return // an absent key decodes to the empty string
		}
		m[k] = v
	}
	put(m, "namespace", a.ns)
	put(m, "object", c.str(a.obj))
	put(m, "relation", a.rel)
	if a.sid != nil {
		m["subject_id"] = c.str(*a.sid)
	}
	if a.sset != nil {
		mm := map[string]any{}
		put(mm, "namespace", a.sset.ns)
		put(mm, "object", c.str(a.sset.obj))
		put(mm, "relation", a.sset.rel)
		m["subject_set"] = mm
	}
	return m
}

func (c *stCase) urlQuery(q *stQuery) url.Values {
	v := url.Values{}
	if q.ns != nil {
		v.Set("namespace", *q.ns)
	}
	if q.obj != nil {
		v.Set("object", c.str(*q.obj))
	}
	if q.rel != nil {
		v.Set("relation", *q.rel)
	}
	if q.sub != nil {
		if q.sub.set {
			v.Set("subject_set.namespace", q.sub.ns)
			v.Set("subject_set.object", c.str(q.sub.obj))
			v.Set("subject_set.relation", q.sub.rel)
		} else {
			v.Set("subject_id", c.str(q.sub.id))
		}
	}
	return v
}

func (c *stCase) protoSub(s *stSub) *rts.Subject {
	if s == nil {
		return nil
	}
	if s.set {
		return rts.NewSubjectSet(s.ns, c.str(s.obj), s.rel)
	}
	return rts.NewSubjectID(c.str(s.id))
}

func (c *stCase) protoQuery(q *stQuery) *rts.RelationQuery {
	pq := &rts.RelationQuery{Namespace: q.ns, Relation: q.rel, Subject: c.protoSub(q.sub)}
	if q.obj != nil {
		s := c.str(*q.obj)
		pq.Object = &s
	}
	return pq
}

// deprecated query forms: empty strings mean absent.
func (c *stCase) depFields(q *stQuery) (ns, obj, rel string, sub *rts.Subject) {
	if q.ns != nil {
		ns = *q.ns
	}
	if q.obj != nil {
		obj = c.str(*q.obj)
	}
	if q.rel != nil {
		rel = *q.rel
	}
	return ns, obj, rel, c.protoSub(q.sub)
}

// normDeprecated drops the fields the deprecated form cannot express.
func (c *stCase) normDeprecated(q *stQuery) {
	if q.ns != nil && *q.ns == "" {
		q.ns = nil
	}
	if q.obj != nil && c.str(*q.obj) == "" {
		q.obj = nil
	}
	if q.rel != nil && *q.rel == "" {
		q.rel = nil
	}
}

func (c *stCase) protoTuple(a *stATuple) *rts.RelationTuple {
	if a == nil {
		return nil
	}
	pt := &rts.RelationTuple{Namespace: a.ns, Object: c.str(a.obj), Relation: a.rel}
	switch {
	case a.sid != nil:
		pt.Subject = rts.NewSubjectID(c.str(*a.sid))
	case a.sset != nil:
		pt.Subject = rts.NewSubjectSet(a.sset.ns, c.str(a.sset.obj), a.sset.rel)
	default:
		if c.r.Intn(2) == 0 {
			pt.Subject = &rts.Subject{} // a subject without ref is no subject either
		}
	}
	return pt
}

func (c *stCase) intSub(k int, s stSub) relationtuple.Subject {
	if s.set {
		return &relationtuple.SubjectSet{Namespace: s.ns, Object: c.uuidOf(k, s.obj), Relation: s.rel}
	}
	return &relationtuple.SubjectID{ID: c.uuidOf(k, s.id)}
}

func (c *stCase) intTuples(k int, ts []stTuple) []*relationtuple.RelationTuple {
	out := make([]*relationtuple.RelationTuple, len(ts))
	for i, t := range ts {
		out[i] = &relationtuple.RelationTuple{Namespace: t.ns, Object: c.uuidOf(k, t.obj), Relation: t.rel, Subject: c.intSub(k, t.sub)}
	}
	return out
}

func (c *stCase) intQuery(k int, q *stQuery) *relationtuple.RelationQuery {
	iq := &relationtuple.RelationQuery{Namespace: q.ns, Relation: q.rel}
	if q.obj != nil {
		u := c.uuidOf(k, *q.obj)
		iq.Object = &u
	}
	if q.sub != nil {
		iq.Subject = c.intSub(k, *q.sub)
	}
	return iq
}

// --- rendering of results -------------------------------------------------

func (c *stCase) rAPITuple(t *ketoapi.RelationTuple) string {
	if t == nil {
		return "nil"
	}
	s := S(t.Namespace) + "|" + strconv.Itoa(c.ids[t.Object]) + "|" + S(t.Relation) + "|"
	switch {
	case t.SubjectID != nil:
		return s + "i" + strconv.Itoa(c.ids[*t.SubjectID])
	case t.SubjectSet != nil:
		return s + "s" + S(t.SubjectSet.Namespace) + "," + strconv.Itoa(c.ids[t.SubjectSet.Object]) + "," + S(t.SubjectSet.Relation)
	}
	return s + "?"
}

func (c *stCase) rIntTuple(k int, t *relationtuple.RelationTuple) string {
	st := stTuple{ns: t.Namespace, obj: c.idOf(k, t.Object), rel: t.Relation}
	switch s := t.Subject.(type) {
	case *relationtuple.SubjectID:
		st.sub = stSub{id: c.idOf(k, s.ID)}
	case *relationtuple.SubjectSet:
		st.sub = stSub{set: true, ns: s.Namespace, obj: c.idOf(k, s.Object), rel: s.Relation}
	default:
		return "nil-subject"
	}
	return stRTuple(st)
}

func stNextStr(next string) string {
	if next == "" {
		return "-"
	}
	u, err := uuid.FromString(next)
	if err != nil {
		return "?" + next
	}
	return stShardDec(u)
}

// fetch gets one page through the API.
func (c *stCase) fetch(it *stItem, tok string) (status string, rows []string, next string) {
	n := c.env.nets[it.net]
	if it.via == 0 {
		v := c.urlQuery(it.q)
		if it.size != 0 || c.r.Intn(2) == 0 {
			v.Set("page_size", strconv.Itoa(it.size))
		}
		if tok != "" || c.r.Intn(3) == 0 {
			v.Set("page_token", tok)
		}
		code, body := c.rest(n.read, "GET", "/relation-tuples", v, "")
		if st := stHTTPStatus(code); st != "ok" {
			return st, nil, ""
		}
		var resp ketoapi.GetResponse
		if err := json.Unmarshal(body, &resp); err != nil {
			return "undecodable", nil, ""
		}
		for _, t := range resp.RelationTuples {
			rows = append(rows, c.rAPITuple(t))
		}
		return "ok", rows, resp.NextPageToken
	}
	req := &rts.ListRelationTuplesRequest{PageSize: int32(it.size), PageToken: tok}
	switch {
	case it.q == nil:
	case it.via == 1:
		req.RelationQuery = c.protoQuery(it.q)
	default:
		q := &rts.ListRelationTuplesRequest_Query{}
		q.Namespace, q.Object, q.Relation, q.Subject = c.depFields(it.q)
		req.Query = q
	}
	resp, err := n.h.ListRelationTuples(c.env.ctx, req)
	if st := stErrStatus(err); st != "ok" {
		return st, nil, ""
	}
	for _, t := range resp.RelationTuples {
		rows = append(rows, c.rAPITuple((&ketoapi.RelationTuple{}).FromProto(t)))
	}
	return "ok", rows, resp.NextPageToken
}

// --- the items --------------------------------------------------------------

func (c *stCase) execute(it *stItem) (status, obs string) {
	defer func() {
		if r := recover(); r != nil {
			status, obs = "panic", "-"
			c.env.o.Count("panic:" + it.kind)
			if len(c.env.o.Samples) < 20 {
				c.env.o.Samples = append(c.env.o.Samples, fmt.Sprintf("panic in %s: %v", it.kind, r))
			}
		}
	}()
	e := c.env
	ctx := e.ctx
	n := e.nets[it.net]
	obs = "-"
	switch it.kind {
	case "C":
		body := it.raw
		if body == "" {
			b, _ := json.Marshal(c.jsonTuple(it.at))
			body = string(b)
		}
		code, _ := c.rest(n.write, "PUT", "/admin/relation-tuples", nil, body)
		status = stHTTPStatus(code)
	case "D":
		code, _ := c.rest(n.write, "DELETE", "/admin/relation-tuples", c.urlQuery(it.q), "")
		status = stHTTPStatus(code)
	case "P":
		var buf bytes.Buffer
		buf.WriteByte('[')
		for i, d := range it.ds {
			if i > 0 {
				buf.WriteByte(',')
			}
			if d.nullDelta {
				buf.WriteString("null")
				continue
			}
			m := map[string]any{"action": d.actionStr}
			if d.t != nil {
				m["relation_tuple"] = c.jsonTuple(d.t)
			} else if !d.omitTuple {
				m["relation_tuple"] = nil
			}
			b, _ := json.Marshal(m)
			buf.Write(b)
		}
		buf.WriteByte(']')
		code, _ := c.rest(n.write, "PATCH", "/admin/relation-tuples", nil, buf.String())
		status = stHTTPStatus(code)
	case "T":
		req := &rts.TransactRelationTuplesRequest{}
		for _, d := range it.ds {
			pd := &rts.RelationTupleDelta{RelationTuple: c.protoTuple(d.t)}
			switch d.action {
			case "i":
				pd.Action = rts.RelationTupleDelta_ACTION_INSERT
			case "d":
				pd.Action = rts.RelationTupleDelta_ACTION_DELETE
			default:
				pd.Action = rts.RelationTupleDelta_ACTION_UNSPECIFIED
				if d.actionStr == "7" {
					pd.Action = rts.RelationTupleDelta_Action(7)
				}
			}
			req.RelationTupleDeltas = append(req.RelationTupleDeltas, pd)
		}
		_, err := n.h.TransactRelationTuples(ctx, req)
		status = stErrStatus(err)
	case "G":
		req := &rts.DeleteRelationTuplesRequest{}
		switch {
		case it.q == nil:
		case it.via == 1:
			req.RelationQuery = c.protoQuery(it.q)
		default:
			q := &rts.DeleteRelationTuplesRequest_Query{}
			q.Namespace, q.Object, q.Relation, q.Subject = c.depFields(it.q)
			req.Query = q
		}
		_, err := n.h.DeleteRelationTuples(ctx, req)
		status = stErrStatus(err)
	case "W":
		status = stErrStatus(n.p.WriteRelationTuples(ctx, c.intTuples(it.net, it.ins)...))
	case "X":
		status = stErrStatus(n.p.DeleteRelationTuples(ctx, c.intTuples(it.net, it.del)...))
	case "A":
		status = stErrStatus(n.p.DeleteAllRelationTuples(ctx, c.intQuery(it.net, it.q)))
	case "Y":
		status = stErrStatus(n.p.TransactRelationTuples(ctx, c.intTuples(it.net, it.ins), c.intTuples(it.net, it.del)))
	case "MS":
		ss := make([]string, len(it.strs))
		for i, id := range it.strs {
			ss[i] = c.str(id)
		}
		_, err := n.p.MapStringsToUUIDs(ctx, ss...)
		status = stErrStatus(err)
		if status == "ok" {
			for _, id := range it.strs {
				c.mapped[it.net][id] = true
			}
		}
	case "M", "RM":
		status = it.fn(c)
	case "L":
		st, rows, next := c.fetch(it, it.tok)
		status = st
		if st == "ok" {
			it.next, it.page = next, rows
			obs = stDigest(e.verbose, rows) + "/" + stNextStr(next)
		}
	case "LA":
		var all []string
		pages, maxLen, tok := 0, 0, ""
		limit := len(c.rows) + 5
		for {
			if pages >= limit {
				return "internal", "-"
			}
			st, rows, next := c.fetch(it, tok)
			if st != "ok" {
				return st, "-"
			}
			pages++
			if len(rows) > maxLen {
				maxLen = len(rows)
			}
			all = append(all, rows...)
			if next == "" {
				break
			}
			tok = next
		}
		status = "ok"
		obs = stDigest(e.verbose, stSorted(all)) + "/" + strconv.Itoa(pages) + "/" + strconv.Itoa(maxLen)
	case "PL":
		res, next, err := n.p.GetRelationTuples(ctx, c.intQuery(it.net, it.q), x.WithSize(it.size), x.WithToken(it.tok))
		status = stErrStatus(err)
		if status == "ok" {
			rows := make([]string, len(res))
			for i, t := range res {
				rows[i] = c.rIntTuple(it.net, t)
			}
			it.next, it.page = next, rows
			obs = stDigest(e.verbose, rows) + "/" + stNextStr(next)
		}
	case "E":
		found, err := n.p.ExistsRelationTuples(ctx, c.intQuery(it.net, it.q))
		status = stErrStatus(err)
		if status == "ok" {
			obs = "0"
			if found {
				obs = "1"
			}
		}
	default:
		panic("store: unknown item kind " + it.kind)
	}
	return status, obs
}

// inserted lists the tuples the item asks to insert, in API order (nil entry =
// an insert delta without usable tuple).
func (it *stItem) inserted() (ts []*stTuple, put func(i int, shard string)) {
	switch it.kind {
	case "C":
		it.shards = []string{"0"}
		if it.at != nil {
			if t, ok := it.at.effective(); ok {
				ts = append(ts, &t)
			}
		}
		return ts, func(i int, sh string) { it.shards[0] = sh }
	case "P", "T":
		var idx []int
		for i, d := range it.ds {
			d.shard = "0"
			if d.action == "i" && d.t != nil {
				if t, ok := d.t.effective(); ok {
					ts = append(ts, &t)
					idx = append(idx, i)
				}
			}
		}
		return ts, func(i int, sh string) { it.ds[idx[i]].shard = sh }
	case "W", "Y":
		it.shards = make([]string, len(it.ins))
		for i := range it.ins {
			it.shards[i] = "0"
			t := it.ins[i]
			ts = append(ts, &t)
		}
		return ts, func(i int, sh string) { it.shards[i] = sh }
	}
	return nil, func(int, string) {}
}

func (it *stItem) tokens(c *stCase) string {
	var b []string
	add := func(s ...string) { b = append(b, s...) }
	add(strconv.Itoa(it.net), it.kind)
	switch it.kind {
	case "C":
		add(stTokATuple(it.at), it.shards[0])
	case "D", "A", "E":
		add(stTokQuery(it.q))
	case "P", "T":
		add(strconv.Itoa(len(it.ds)))
		for _, d := range it.ds {
			add(stTokDelta(d))
		}
	case "G":
		add(stTokOptQuery(it.q))
	case "W":
		add(strconv.Itoa(len(it.ins)))
		for i, t := range it.ins {
			add(stTokTuple(t), it.shards[i])
		}
	case "X":
		add(strconv.Itoa(len(it.del)))
		for _, t := range it.del {
			add(stTokTuple(t))
		}
	case "Y":
		add(strconv.Itoa(len(it.ins)))
		for i, t := range it.ins {
			add(stTokTuple(t), it.shards[i])
		}
		add(strconv.Itoa(len(it.del)))
		for _, t := range it.del {
			add(stTokTuple(t))
		}
	case "MS", "RM":
		add(strconv.Itoa(len(it.strs)))
		for _, id := range it.strs {
			add(strconv.Itoa(id))
		}
	case "M":
	case "L":
		add(stTokOptQuery(it.q), strconv.Itoa(it.size), it.tokToken())
	case "LA":
		add(stTokOptQuery(it.q), strconv.Itoa(it.size))
	case "PL":
		add(stTokQuery(it.q), strconv.Itoa(it.size), it.tokToken())
	}
	return strings.Join(b, " ")
}

func (it *stItem) tokToken() string {
	if it.refSet {
		return "n " + strconv.Itoa(it.ref)
	}
	return stTokPage(it.tok)
}

// iteration maintains the open iterations and, when one reaches the empty token, judges it
// against the property itself (no model involved): every row that matches the query and exists
// during the whole iteration is returned exactly once; a matching row that exists only during
// part of it is returned at most once; nothing else is returned.  Returns "" or "1"/"0".
func (c *stCase) iteration(it *stItem, idx int) string {
	if it.kind != "L" && it.kind != "PL" {
		return ""
	}
	c.nexts[idx] = it.next
	key := strconv.Itoa(it.net) + " " + it.kind + " " + stTokOptQuery(it.q) + " " + strconv.Itoa(it.size)
	var ch *stChain
	switch {
	case it.refSet:
		if prev, ok := c.chains[it.ref]; ok && prev.key == key && it.tok != "" {
			ch = prev
		}
		delete(c.chains, it.ref)
	case it.tok == "" && it.q != nil:
		ch = &stChain{kind: it.kind, key: key, net: it.net, q: it.q}
	}
	if ch == nil || it.status != "ok" {
		return ""
	}
	snap := map[uuid.UUID]stRow{}
	for _, r := range c.rows {
		if r.net == it.net {
			snap[r.shard] = r
		}
	}
	ch.snaps = append(ch.snaps, snap)
	ch.pages = append(ch.pages, it.page)
	if it.next != "" {
		c.chains[idx] = ch
		return ""
	}
	// complete
	untouched, touched, returned := map[string]int{}, map[string]int{}, map[string]int{}
	seen := map[uuid.UUID]bool{}
	for _, s := range ch.snaps {
		for id, r := range s {
			if seen[id] || !ch.q.matches(r.t) {
				continue
			}
			seen[id] = true
			everywhere := true
			for _, s2 := range ch.snaps {
				if _, ok := s2[id]; !ok {
					everywhere = false
				}
			}
			if everywhere {
				untouched[r.r]++
			} else {
				touched[r.r]++
			}
		}
	}
	pages := ch.pages
	if stDropPage && len(pages) > 1 {
		pages = pages[1:] // sensitivity test of the oracle
	}
	for _, p := range pages {
		for _, r := range p {
			returned[r]++
		}
	}
	ok := true
	for k, n := range returned {
		if n < untouched[k] || n > untouched[k]+touched[k] {
			ok = false
		}
	}
	for k, n := range untouched {
		if returned[k] < n {
			ok = false
		}
	}
	c.env.o.Count(fmt.Sprintf("iter:fetches:%d", min(len(ch.pages), 6)))
	if ok {
		c.env.o.Count("iter:x_it:1")
		return "1"
	}
	c.env.o.Count("iter:x_it:0")
	return "0"
}

var stDropPage = os.Getenv("VERIF_STORE_DROP_PAGE") == "1"

func stOtherRows(rows []stRow, net int) string {
	var b strings.Builder
	for _, r := range rows {
		if r.net != net {
			b.WriteString(r.shard.String())
			b.WriteByte('=')
			b.WriteString(strconv.Itoa(r.net))
			b.WriteByte('@')
			b.WriteString(r.r)
			b.WriteByte(';')
		}
	}
	return b.String()
}

// run executes one item, reads the tables back and records tokens and columns.
func (c *stCase) run(it *stItem) {
	e := c.env
	i := strconv.Itoa(c.n)
	before := c.rows
	seen := make(map[uuid.UUID]bool, len(before))
	for _, r := range before {
		seen[r.shard] = true
	}
	if it.kind == "G" || it.kind == "L" || it.kind == "LA" {
		if it.q != nil && it.via == 2 {
			c.normDeprecated(it.q)
		}
	}
	it.status, it.obs = c.execute(it)
	after := c.readRows()
	c.rows = after

	// shards of the rows the item inserted
	want, put := it.inserted()
	if len(want) > 0 {
		fresh := map[string][]string{}
		for _, r := range after {
			if !seen[r.shard] && r.net == it.net {
				fresh[r.r] = append(fresh[r.r], stShardDec(r.shard))
			}
		}
		for k, t := range want {
			key := stRTuple(*t)
			if l := fresh[key]; len(l) > 0 {
				put(k, l[0])
				fresh[key] = l[1:]
			}
		}
	}
	c.toks = append(c.toks, it.tokens(c))

	rendered := make([]string, len(after))
	for k, r := range after {
		rendered[k] = strconv.Itoa(r.net) + "@" + r.r
	}
	f := "0"
	if stOtherRows(before, it.net) == stOtherRows(after, it.net) {
		f = "1"
	}
	skey := "s"
	if it.kind == "RM" {
		skey = "x_s"
	}
	c.cols = append(c.cols,
		skey+i+"="+it.status,
		"o"+i+"="+it.obs,
		"d"+i+"="+stDigest(e.verbose, rendered),
		"m"+i+"="+stDigest(e.verbose, stSorted(rendered)),
		"u"+i+"="+stDigest(e.verbose, c.readMaps()),
		"f"+i+"="+f,
	)
	if v := c.iteration(it, c.n); v != "" {
		c.cols = append(c.cols, "x_it"+i+"="+v)
	}
	c.n++
	e.o.Count("item:" + it.kind)
	e.o.Count("status:" + it.kind + ":" + it.status)
	switch it.kind {
	case "C", "D", "P", "T", "G", "W", "X", "A", "Y":
		if it.status == "ok" {
			c.okWrites++
		}
	case "L", "LA", "PL":
		if it.status == "ok" {
			c.okLists++
		}
		e.o.Count("size:" + stSizeClass(it.size, len(before)))
		if it.kind != "PL" {
			e.o.Count(fmt.Sprintf("listvia:%d", it.via))
		}
		if it.kind != "LA" {
			e.o.Count("token:" + stTokPage(it.tok)[:1])
		}
	}
	if it.q != nil {
		e.o.Count("qshape:" + stShape(it.q))
	}
}

func stShape(q *stQuery) string {
	s := ""
	for _, b := range []bool{q.ns != nil, q.obj != nil, q.rel != nil, q.sub != nil} {
		if b {
			s += "1"
		} else {
			s += "0"
		}
	}
	if q.sub != nil && q.sub.set {
		s += "s"
	}
	return s
}

func stSizeClass(size, n int) string {
	switch {
	case size < 0:
		return "neg"
	case size == 0:
		return "0"
	case size >= 100:
		return strconv.Itoa(size)
	case size == n:
		return "n"
	case size == n+1:
		return "n+1"
	case size < n:
		return "<n"
	}
	return ">n+1"
}

func (c *stCase) mark() {
	c.toks = append(c.toks, "MARK")
	c.n++
	c.snap = c.env.snapshot()
}

func (c *stCase) payload() string {
	e := c.env
	v := "0"
	if e.verbose {
		v = "1"
	}
	b := []string{v, c.fault, "N", strconv.Itoa(len(e.cfg))}
	for _, n := range e.cfg {
		b = append(b, S(n))
	}
	b = append(b, "H", strconv.Itoa(len(c.toks)))
	b = append(b, c.toks...)
	return strings.Join(b, " ")
}

func (c *stCase) emit(id string, nontrivial bool) {
	changed := "0"
	if c.env.snapshot() != c.snap {
		changed = "1"
	}
	cols := append(append([]string(nil), c.cols...), "changed="+changed, "ops="+strconv.Itoa(c.n))
	c.env.o.Emit("store", id, c.payload(), strings.Join(cols, "\t"), nontrivial)
}

var _ = context.Background
