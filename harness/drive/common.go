// Package drive is the correspondence harness: it runs the real keto code
// in-process on generated and corpus cases and writes, per stream,
//
//	<out>/<stream>.ops   one case per line in the line protocol of the Lean driver
//	<out>/<stream>.impl  "<id>\tkey=value\t…" what the implementation did
//	<out>/<stream>.stats.json  input distribution, samples
package drive

import (
	"bufio"
	"encoding/hex"
	"encoding/json"
	"fmt"
	"math/rand"
	"os"
	"path/filepath"
	"sort"
	"strconv"
	"strings"
)

// S encodes a string as a protocol token.
func S(s string) string { return "s" + hex.EncodeToString([]byte(s)) }

func unS(tok string) (string, error) {
	if !strings.HasPrefix(tok, "s") {
		return "", fmt.Errorf("not a string token: %q", tok)
	}
	b, err := hex.DecodeString(tok[1:])
	return string(b), err
}

func envInt(name string, def int) int {
	if v := os.Getenv(name); v != "" {
		if n, err := strconv.Atoi(v); err == nil {
			return n
		}
	}
	return def
}

func envStr(name, def string) string {
	if v := os.Getenv(name); v != "" {
		return v
	}
	return def
}

// Out collects the three output files of a stream.
type Out struct {
	ops, impl *bufio.Writer
	fo, fi    *os.File
	dir, name string
	Stats     map[string]int
	Samples   []string
	distinct  map[string]struct{}
	Evals     int
}

func NewOut(stream string) (*Out, error) {
	dir := envStr("VERIF_OUT", "/tmp/verif-out")
	if err := os.MkdirAll(dir, 0o755); err != nil {
		return nil, err
	}
	fo, err := os.Create(filepath.Join(dir, stream+".ops"))
	if err != nil {
		return nil, err
	}
	fi, err := os.Create(filepath.Join(dir, stream+".impl"))
	if err != nil {
		return nil, err
	}
	return &Out{ops: bufio.NewWriter(fo), impl: bufio.NewWriter(fi), fo: fo, fi: fi, dir: dir, name: stream,
		Stats: map[string]int{}, distinct: map[string]struct{}{}}, nil
}

// Emit writes one case: the protocol line (without id) and the implementation's
// canonical result. nontrivial says whether the case exercises the mechanism.
func (o *Out) Emit(comp, id, payload, implRes string, nontrivial bool) {
	fmt.Fprintf(o.ops, "%s %s %s\n", comp, id, payload)
	fmt.Fprintf(o.impl, "%s\t%s\n", id, implRes)
	o.Evals++
	if nontrivial {
		o.distinct[payload] = struct{}{}
	}
	if len(o.Samples) < 5 || (o.Evals%997 == 0 && len(o.Samples) < 12) {
		o.Samples = append(o.Samples, comp+" "+id+" "+payload+"  =>  "+implRes)
	}
}

func (o *Out) Count(key string) { o.Stats[key]++ }

// Pre records the case that is about to run, so that a crash of the whole process
// (a panic in a goroutine no recover can catch) still leaves a replayable input.
func (o *Out) Pre(comp, id, payload string) {
	_ = os.WriteFile(filepath.Join(o.dir, o.name+".last"), []byte(comp+" "+id+" "+payload+"\n"), 0o644)
}

func (o *Out) Close() error {
	o.ops.Flush()
	o.impl.Flush()
	o.fo.Close()
	o.fi.Close()
	keys := make([]string, 0, len(o.Stats))
	for k := range o.Stats {
		keys = append(keys, k)
	}
	sort.Strings(keys)
	st := map[string]any{
		"evaluations":         o.Evals,
		"distinct_nontrivial": len(o.distinct),
		"distribution":        o.Stats,
		"samples":             o.Samples,
	}
	b, _ := json.MarshalIndent(st, "", " ")
	return os.WriteFile(filepath.Join(o.dir, o.name+".stats.json"), b, 0o644)
}

func newRand() *rand.Rand {
	return rand.New(rand.NewSource(int64(envInt("VERIF_SEED", 1))))
}

func pick[T any](r *rand.Rand, xs []T) T { return xs[r.Intn(len(xs))] }

// corpusLines reads every non-empty, non-comment line of the *.case files of a
// corpus directory for the given component.
func corpusLines(comp string) []string {
	dir := envStr("VERIF_CORPUS", "/verif/corpus")
	files, _ := filepath.Glob(filepath.Join(dir, "*", "*.case"))
	sort.Strings(files)
	var out []string
	for _, f := range files {
		b, err := os.ReadFile(f)
		if err != nil {
			continue
		}
		for _, l := range strings.Split(string(b), "\n") {
			l = strings.TrimSpace(l)
			if l == "" || strings.HasPrefix(l, "#") {
				continue
			}
			if strings.HasPrefix(l, comp+" ") {
				out = append(out, l)
			}
		}
	}
	return out
}
