package drive

import (
	"fmt"
	"regexp"
	"strings"

	"github.com/ory/keto/internal/namespace"
	"github.com/ory/keto/internal/namespace/ast"
)

var identRe = regexp.MustCompile(`^[A-Za-z_][A-Za-z0-9_]*$`)

var oplKeywords = map[string]bool{"class": true, "implements": true, "this": true, "ctx": true, "related": true, "permits": true}

func isIdent(s string) bool { return identRe.MatchString(s) && !oplKeywords[s] }

func quote(s string) string { return `"` + s + `"` }

func propName(s string) string {
	if isIdent(s) {
		return s
	}
	return quote(s)
}

func propAccess(s string) string {
	if isIdent(s) {
		return "." + s
	}
	return "[" + quote(s) + "]"
}

// renderOPL renders namespaces (given as ASTs) as an OPL document with every
// nested rewrite parenthesised. Relations with a rewrite become permissions.
// isPermit reports whether a name is a permission in its namespace (needed for
// traverse targets); unknown names are rendered as related relations.
func renderOPL(nss []*namespace.Namespace) string {
	var sb strings.Builder
	sb.WriteString("import { Namespace, SubjectSet, Context } from \"@ory/keto-namespace-types\"\n\n")
	perm := map[string]bool{}
	for _, n := range nss {
		for _, r := range n.Relations {
			if r.SubjectSetRewrite != nil {
				perm[n.Name+"\x00"+r.Name] = true
			}
		}
	}
	for _, n := range nss {
		fmt.Fprintf(&sb, "class %s implements Namespace {\n", propName(n.Name))
		var rel, per []ast.Relation
		for _, r := range n.Relations {
			if r.SubjectSetRewrite != nil {
				per = append(per, r)
			} else {
				rel = append(rel, r)
			}
		}
		if len(rel) > 0 {
			sb.WriteString("  related: {\n")
			for _, r := range rel {
				var ts []string
				for _, t := range r.Types {
					if t.Relation == "" {
						ts = append(ts, propName(t.Namespace))
					} else {
						ts = append(ts, fmt.Sprintf("SubjectSet<%s, %s>", propName(t.Namespace), quote(t.Relation)))
					}
				}
				fmt.Fprintf(&sb, "    %s: (%s)[]\n", propName(r.Name), strings.Join(ts, " | "))
			}
			sb.WriteString("  }\n")
		}
		if len(per) > 0 {
			sb.WriteString("  permits = {\n")
			for _, r := range per {
				// which relation names of this namespace are permissions
				isPerm := func(name string) bool { return perm[n.Name+"\x00"+name] }
				// traverse targets: a name is rendered as permits if it is a permission in
				// any namespace (the parser produces the same AST for both spellings)
				anyPerm := func(name string) bool {
					for _, m := range nss {
						if perm[m.Name+"\x00"+name] {
							return true
						}
					}
					return false
				}
				fmt.Fprintf(&sb, "    %s: (ctx: Context): boolean => %s,\n", propName(r.Name),
					renderRewrite(r.SubjectSetRewrite, isPerm, anyPerm, true))
			}
			sb.WriteString("  }\n")
		}
		sb.WriteString("}\n\n")
	}
	return sb.String()
}

func renderRewrite(rw *ast.SubjectSetRewrite, isPerm, anyPerm func(string) bool, top bool) string {
	op := " || "
	if rw.Operation == ast.OperatorAnd {
		op = " && "
	}
	var parts []string
	for _, c := range rw.Children {
		parts = append(parts, renderChild(c, isPerm, anyPerm))
	}
	s := strings.Join(parts, op)
	if top {
		return s
	}
	return "(" + s + ")"
}

func renderChild(c ast.Child, isPerm, anyPerm func(string) bool) string {
	switch c := c.(type) {
	case *ast.ComputedSubjectSet:
		if isPerm(c.Relation) {
			return fmt.Sprintf("this.permits%s(ctx)", propAccess(c.Relation))
		}
		return fmt.Sprintf("this.related%s.includes(ctx.subject)", propAccess(c.Relation))
	case *ast.TupleToSubjectSet:
		if anyPerm(c.ComputedSubjectSetRelation) {
			return fmt.Sprintf("this.related%s.traverse((p) => p.permits%s(ctx))", propAccess(c.Relation), propAccess(c.ComputedSubjectSetRelation))
		}
		return fmt.Sprintf("this.related%s.traverse((p) => p.related%s.includes(ctx.subject))", propAccess(c.Relation), propAccess(c.ComputedSubjectSetRelation))
	case *ast.SubjectSetRewrite:
		return renderRewrite(c, isPerm, anyPerm, false)
	case *ast.InvertResult:
		switch in := c.Child.(type) {
		case *ast.SubjectSetRewrite:
			return "!" + renderRewrite(in, isPerm, anyPerm, false)
		case *ast.InvertResult:
			return "!(" + renderChild(in, isPerm, anyPerm) + ")"
		default:
			return "!" + renderChild(in, isPerm, anyPerm)
		}
	}
	panic("unreachable")
}
