package drive

// Corpus lines of component `store`: parser of the payload grammar (header of
// lean/Driver/Store.lean), re-execution against the real code, and the helper stream
// `store-witness` that produces the lines of corpus/C04/rejected.case and
// corpus/C07/pagination.case.
//
// Re-execution: the payload carries intern ids only, so id k stands for the synthetic string
// "s<k>" (the poison string id of a fault line stands for "poison-string"); recorded shard
// values are replaced by the shards of this run (page tokens `t <recorded shard>` follow the
// replacement); the transport of L/LA/G, the spelling of a rejected request (M), of an unknown
// action and of an RM request are not recorded: they derive from a hash of the line id.

import (
	"encoding/json"
	"fmt"
	"hash/fnv"
	"math/big"
	"math/rand"
	"net/url"
	"strconv"
	"strings"
	"testing"

	"github.com/gofrs/uuid"

	opl "github.com/ory/keto/proto/ory/keto/opl/v1alpha1"
	rts "github.com/ory/keto/proto/ory/keto/relation_tuples/v1alpha2"
)

type stRItem struct {
	mark    bool
	it      *stItem
	rec     []string // recorded shards: C 1, P/T one per delta, W/Y one per inserted tuple
	tokKind string   // L/PL: e | t | b | n
	tokN    string
}

type stLine struct {
	id      string
	fault   bool
	poison  int
	cfg     []string
	items   []*stRItem
	maxID   int
	maxNet  int
	hasMark bool
	hasRM   bool
}

type stParser struct {
	toks []string
	pos  int
	l    *stLine
}

func (p *stParser) tok() string {
	if p.pos >= len(p.toks) {
		panic("unexpected end of line")
	}
	t := p.toks[p.pos]
	p.pos++
	return t
}

func (p *stParser) nat() int {
	t := p.tok()
	n, err := strconv.Atoi(t)
	if err != nil || n < 0 {
		panic("not a number: " + t)
	}
	return n
}

func (p *stParser) int() int {
	t := p.tok()
	n, err := strconv.Atoi(t)
	if err != nil {
		panic("not an integer: " + t)
	}
	return n
}

func (p *stParser) shard() string {
	t := p.tok()
	if _, ok := new(big.Int).SetString(t, 10); !ok {
		panic("not a shard: " + t)
	}
	return t
}

func (p *stParser) str() string {
	s, err := unS(p.tok())
	if err != nil {
		panic(err.Error())
	}
	return s
}

func (p *stParser) id() int {
	n := p.nat()
	if n > p.l.maxID {
		p.l.maxID = n
	}
	return n
}

func (p *stParser) opt() bool {
	switch t := p.tok(); t {
	case "0":
		return false
	case "1":
		return true
	default:
		panic("expected 0|1, got " + t)
	}
}

func (p *stParser) subject() stSub {
	switch t := p.tok(); t {
	case "i":
		return stSub{id: p.id()}
	case "s":
		return stSub{set: true, ns: p.str(), obj: p.id(), rel: p.str()}
	default:
		panic("bad subject tag " + t)
	}
}

func (p *stParser) tuple() stTuple {
	return stTuple{ns: p.str(), obj: p.id(), rel: p.str(), sub: p.subject()}
}

func (p *stParser) atuple() *stATuple {
	a := &stATuple{ns: p.str(), obj: p.id(), rel: p.str()}
	if p.opt() {
		id := p.id()
		a.sid = &id
	}
	if p.opt() {
		a.sset = &stSet{ns: p.str(), obj: p.id(), rel: p.str()}
	}
	return a
}

func (p *stParser) query() *stQuery {
	q := &stQuery{}
	if p.opt() {
		s := p.str()
		q.ns = &s
	}
	if p.opt() {
		o := p.id()
		q.obj = &o
	}
	if p.opt() {
		s := p.str()
		q.rel = &s
	}
	if p.opt() {
		s := p.subject()
		q.sub = &s
	}
	return q
}

func (p *stParser) optQuery() *stQuery {
	if p.opt() {
		return p.query()
	}
	return nil
}

func (p *stParser) pageTok(ri *stRItem) {
	ri.tokKind = p.tok()
	switch ri.tokKind {
	case "e", "b":
	case "t":
		ri.tokN = p.shard()
	case "n":
		ri.tokN = strconv.Itoa(p.nat())
	default:
		panic("bad page token " + ri.tokKind)
	}
}

func (p *stParser) item() *stRItem {
	if p.pos < len(p.toks) && p.toks[p.pos] == "MARK" {
		p.pos++
		p.l.hasMark = true
		return &stRItem{mark: true}
	}
	it := &stItem{net: p.nat()}
	if it.net > p.l.maxNet {
		p.l.maxNet = it.net
	}
	ri := &stRItem{it: it}
	it.kind = p.tok()
	switch it.kind {
	case "C":
		it.at = p.atuple()
		ri.rec = []string{p.shard()}
	case "D", "A", "E":
		it.q = p.query()
	case "P", "T":
		for n := p.nat(); n > 0; n-- {
			d := &stDelta{action: p.tok()}
			if d.action != "i" && d.action != "d" && d.action != "o" {
				panic("bad action " + d.action)
			}
			if p.opt() {
				d.t = p.atuple()
			}
			ri.rec = append(ri.rec, p.shard())
			it.ds = append(it.ds, d)
		}
	case "G":
		it.q = p.optQuery()
	case "W":
		for n := p.nat(); n > 0; n-- {
			it.ins = append(it.ins, p.tuple())
			ri.rec = append(ri.rec, p.shard())
		}
	case "X":
		for n := p.nat(); n > 0; n-- {
			it.del = append(it.del, p.tuple())
		}
	case "Y":
		for n := p.nat(); n > 0; n-- {
			it.ins = append(it.ins, p.tuple())
			ri.rec = append(ri.rec, p.shard())
		}
		for n := p.nat(); n > 0; n-- {
			it.del = append(it.del, p.tuple())
		}
	case "MS", "RM":
		for n := p.nat(); n > 0; n-- {
			it.strs = append(it.strs, p.id())
		}
		if it.kind == "RM" {
			p.l.hasRM = true
		}
	case "M":
	case "L":
		it.q = p.optQuery()
		it.size = p.int()
		p.pageTok(ri)
	case "LA":
		it.q = p.optQuery()
		it.size = p.int()
	case "PL":
		it.q = p.query()
		it.size = p.int()
		p.pageTok(ri)
	default:
		panic("unknown item code " + it.kind)
	}
	return ri
}

// stParseLine parses `store <id> <payload>`.
func stParseLine(line string) (l *stLine, err error) {
	defer func() {
		if r := recover(); r != nil {
			l, err = nil, fmt.Errorf("%v", r)
		}
	}()
	f := strings.Fields(line)
	if len(f) < 3 || f[0] != "store" {
		return nil, fmt.Errorf("not a store line")
	}
	l = &stLine{id: f[1]}
	p := &stParser{toks: f[2:], l: l}
	p.nat() // verbose: re-emitted with the verbosity of this run
	if p.opt() {
		l.fault = true
		if a, b := p.str(), p.str(); a != stPoisonRel || b != stPoisonDelRel {
			return nil, fmt.Errorf("the triggers of this harness poison the relations %q/%q, the line wants %q/%q", stPoisonRel, stPoisonDelRel, a, b)
		}
		l.poison = p.nat()
		if l.poison > l.maxID {
			l.maxID = l.poison
		}
	}
	if t := p.tok(); t != "N" {
		return nil, fmt.Errorf("expected N, got %s", t)
	}
	for n := p.nat(); n > 0; n-- {
		l.cfg = append(l.cfg, p.str())
	}
	if t := p.tok(); t != "H" {
		return nil, fmt.Errorf("expected H, got %s", t)
	}
	for n := p.nat(); n > 0; n-- {
		l.items = append(l.items, p.item())
	}
	if p.pos != len(p.toks) {
		return nil, fmt.Errorf("trailing tokens")
	}
	return l, nil
}

// stream says which of the four streams replays the line.
func (l *stLine) stream() string {
	switch {
	case l.fault:
		return "store-faults"
	case l.maxNet >= 1:
		return "store-nets"
	case l.hasMark || l.hasRM:
		return "store-readonly"
	}
	return "store"
}

func stHash(s string) int64 {
	h := fnv.New64a()
	h.Write([]byte(s))
	return int64(h.Sum64() >> 1)
}

func stUUIDOfDec(dec string) uuid.UUID {
	n, _ := new(big.Int).SetString(dec, 10)
	n.Mod(n, new(big.Int).Lsh(big.NewInt(1), 128))
	var u uuid.UUID
	n.FillBytes(u[:])
	return u
}

func stHasEmpty(q *stQuery) bool {
	return q != nil && ((q.ns != nil && *q.ns == "") || (q.rel != nil && *q.rel == ""))
}

// replayRM builds a read request that names exactly the recorded strings (as far as a request
// of that kind exists): 0 names = namespaces / syntax check, 1 = expand, 2 = check, more = batch check.
func (g *stGen) replayRM(it *stItem) {
	c, r := g.c, g.r
	n := c.env.nets[it.net]
	h := n.rh
	ids := it.strs
	ns := c.env.cfg[0]
	if len(c.env.cfg) > 1 && r.Intn(2) == 0 {
		ns = c.env.cfg[1]
	}
	switch {
	case len(ids) == 0:
		switch r.Intn(4) {
		case 0:
			it.fn = func(c *stCase) string {
				code, _ := c.rest(n.read, "GET", "/namespaces", nil, "")
				return stRealStatus(code)
			}
		case 1:
			it.fn = func(c *stCase) string {
				code, _ := c.rest(c.env.syntax, "POST", "/opl/syntax/check", nil, "class A implements Namespace {}")
				return stRealStatus(code)
			}
		case 2:
			it.fn = func(c *stCase) string {
				_, err := h.ns.ListNamespaces(c.env.ctx, &rts.ListNamespacesRequest{})
				return stRealErr(err)
			}
		default:
			it.fn = func(c *stCase) string {
				_, err := h.schema.Check(c.env.ctx, &opl.CheckRequest{Content: []byte("class A")})
				return stRealErr(err)
			}
		}
	case len(ids) == 1:
		obj := c.str(ids[0])
		switch r.Intn(3) {
		case 0:
			v := url.Values{"namespace": {ns}, "object": {obj}, "relation": {"view"}}
			it.fn = func(c *stCase) string {
				code, _ := c.rest(n.read, "GET", "/relation-tuples/expand", v, "")
				return stRealStatus(code)
			}
		case 1:
			req := &rts.ExpandRequest{Subject: rts.NewSubjectSet(ns, obj, "view"), MaxDepth: 3}
			it.fn = func(c *stCase) string { _, err := h.expand.Expand(c.env.ctx, req); return stRealErr(err) }
		default:
			req := &rts.ExpandRequest{Subject: rts.NewSubjectID(obj)}
			it.fn = func(c *stCase) string { _, err := h.expand.Expand(c.env.ctx, req); return stRealErr(err) }
		}
	case len(ids) == 2:
		t := stTuple{ns: ns, obj: ids[1], rel: "view", sub: stSub{id: ids[0]}}
		at := stFromTuple(t)
		switch r.Intn(4) {
		case 0, 1:
			path := "/relation-tuples/check" + []string{"", "/openapi"}[r.Intn(2)]
			v := c.urlQuery(&stQuery{ns: &t.ns, obj: &t.obj, rel: &t.rel, sub: &t.sub})
			it.fn = func(c *stCase) string { code, _ := c.rest(n.read, "GET", path, v, ""); return stRealStatus(code) }
		case 2:
			path := "/relation-tuples/check" + []string{"", "/openapi"}[r.Intn(2)]
			b, _ := json.Marshal(c.jsonTuple(at))
			it.fn = func(c *stCase) string {
				code, _ := c.rest(n.read, "POST", path, nil, string(b))
				return stRealStatus(code)
			}
		default:
			req := &rts.CheckRequest{Tuple: c.protoTuple(at)}
			it.fn = func(c *stCase) string { _, err := h.check.Check(c.env.ctx, req); return stRealErr(err) }
		}
	default:
		var js []map[string]any
		req := &rts.BatchCheckRequest{}
		var used []int
		for i := 0; i < len(ids); i += 2 {
			j := i + 1
			if j >= len(ids) {
				j = i
			}
			t := stTuple{ns: ns, obj: ids[j], rel: "view", sub: stSub{id: ids[i]}}
			used = append(used, ids[i], ids[j])
			js = append(js, c.jsonTuple(stFromTuple(t)))
			req.Tuples = append(req.Tuples, c.protoTuple(stFromTuple(t)))
		}
		it.strs = used
		if r.Intn(2) == 0 {
			b, _ := json.Marshal(map[string]any{"tuples": js})
			it.fn = func(c *stCase) string {
				code, _ := c.rest(n.read, "POST", "/relation-tuples/batch/check", nil, string(b))
				return stRealStatus(code)
			}
		} else {
			it.fn = func(c *stCase) string { _, err := h.check.BatchCheck(c.env.ctx, req); return stRealErr(err) }
		}
	}
}

// replay re-executes a corpus line and emits it as `corpus-<id>`.
func (e *stEnv) replay(l *stLine) {
	if l.maxNet >= len(e.nets) {
		e.t.Fatalf("store corpus %s: network %d, the environment has %d", l.id, l.maxNet, len(e.nets))
	}
	old := e.cfg
	e.setCfg(l.cfg)
	defer e.setCfg(old)
	r := rand.New(rand.NewSource(stHash(l.id)))
	c := newStCase(e, r)
	for k := 1; k <= l.maxID; k++ {
		s := "s" + strconv.Itoa(k)
		if l.fault && k == l.poison {
			s = stPoisonString
		}
		if c.intern(s) != k {
			e.t.Fatalf("store corpus %s: interning out of step", l.id)
		}
	}
	g := &stGen{c: c, r: r, rels: []string{"view", "edit"}, noPersisterUnknownNS: true}
	for k := 0; k <= l.maxNet; k++ {
		g.nets = append(g.nets, k)
	}
	g.objs = []int{c.intern("s" + strconv.Itoa(l.maxID+1))} // names of rejected requests only
	shardMap := map[string]string{}                         // recorded shard -> UUID string of this run
	noteShard := func(rec, now string) {
		if rec != "0" && now != "0" && now != "" {
			if _, ok := shardMap[rec]; !ok {
				shardMap[rec] = stUUIDOfDec(now).String()
			}
		}
	}
	for _, ri := range l.items {
		if ri.mark {
			c.mark()
			continue
		}
		it := ri.it
		switch it.kind {
		case "P":
			for _, d := range it.ds {
				switch d.action {
				case "i":
					d.actionStr = "insert"
				case "d":
					d.actionStr = "delete"
				default:
					d.actionStr = pick(r, []string{"", "upsert", "INSERT", "insert ", "noop"})
					if d.t == nil && r.Intn(2) == 0 {
						d.nullDelta = true
					}
				}
				if d.t == nil {
					d.omitTuple = r.Intn(2) == 0
				}
			}
		case "G", "L", "LA":
			switch {
			case it.kind == "G" || it.q == nil:
				it.via = 1 + r.Intn(2)
			default:
				it.via = r.Intn(3)
			}
			if it.via == 2 && stHasEmpty(it.q) {
				it.via = 1 // the deprecated form cannot say "present and empty"
			}
		case "M":
			it.fn = g.itemM(it.net).fn
		case "RM":
			g.replayRM(it)
		}
		switch ri.tokKind {
		case "b":
			it.tok = pick(r, []string{"abc", "123", "00000000-0000-0000-0000-00000000000g"})
		case "n":
			j, _ := strconv.Atoi(ri.tokN)
			it.refSet, it.ref, it.tok = true, j, c.nexts[j]
		case "t":
			if u, ok := shardMap[ri.tokN]; ok {
				it.tok = u
			} else {
				it.tok = stUUIDOfDec(ri.tokN).String()
			}
		}
		c.run(it)
		switch it.kind {
		case "C":
			noteShard(ri.rec[0], it.shards[0])
		case "P", "T":
			for i, d := range it.ds {
				noteShard(ri.rec[i], d.shard)
			}
		case "W", "Y":
			for i := range it.ins {
				noteShard(ri.rec[i], it.shards[i])
			}
		}
	}
	if l.fault {
		c.fault = "1 " + S(stPoisonRel) + " " + S(stPoisonDelRel) + " " + strconv.Itoa(l.poison)
	}
	e.o.Count("corpus")
	c.emit("corpus-"+l.id, true)
}

// stCorpus returns the corpus lines that the given stream replays.
func stCorpus(e *testing.T, stream string) (out []*stLine, maxNet int) {
	for _, raw := range corpusLines("store") {
		l, err := stParseLine(raw)
		if err != nil {
			id := strings.SplitN(raw+"  ", " ", 3)[1]
			e.Fatalf("store corpus line %q: %v", id, err)
		}
		if l.stream() == stream {
			out = append(out, l)
			if l.maxNet > maxNet {
				maxNet = l.maxNet
			}
		}
	}
	return out, maxNet
}

// --- the witnesses of corpus/C04/rejected.case and corpus/C07/pagination.case -------------

func init() {
	streams["store-witness"] = streamStoreWitness
}

// stWitness is a case whose strings are "s1", "s2", …: a replay of its line is the same history.
type stWitness struct {
	c *stCase
	g *stGen
}

func (e *stEnv) witness(id string) *stWitness {
	r := rand.New(rand.NewSource(stHash(id)))
	c := newStCase(e, r)
	return &stWitness{c: c, g: &stGen{c: c, r: r, nets: []int{0}, rels: []string{"view"}, noPersisterUnknownNS: true}}
}

func (w *stWitness) s(k int) int { return w.c.intern("s" + strconv.Itoa(k)) }

// rows makes n different tuples files:s<k>#view@s<n+1>… over the strings s1….
func (w *stWitness) rows(n int) []stTuple {
	for k := 1; k <= n+2; k++ {
		w.s(k)
	}
	out := make([]stTuple, n)
	for i := range out {
		out[i] = stTuple{ns: "files", obj: w.s(i + 1), rel: "view", sub: stSub{id: w.s(n + 1 + i%2)}}
	}
	return out
}

func (w *stWitness) store(ts []stTuple) {
	w.c.run(&stItem{kind: "MS", strs: stStringsOf(ts)})
	w.c.run(&stItem{kind: "W", ins: ts})
}

func (w *stWitness) listAll(size int) {
	w.c.run(&stItem{kind: "LA", q: &stQuery{}, size: size, via: w.c.r.Intn(3)})
}

func streamStoreWitness(t *testing.T, o *Out) {
	e := newStEnv(t, o, 0)
	all := &stQuery{}
	run := func(id string, f func(w *stWitness)) {
		w := e.witness(id)
		f(w)
		w.c.emit(id, true)
	}
	// C07
	run("C07-a-negative-size", func(w *stWitness) {
		w.store(w.rows(5))
		w.c.run(&stItem{kind: "PL", q: all, size: -1})
		w.c.run(&stItem{kind: "L", q: all, size: -1, via: 0})
		w.c.run(&stItem{kind: "L", q: all, size: -5, via: 1})
		w.c.run(&stItem{kind: "LA", q: all, size: -1, via: 0})
		w.listAll(0)
	})
	run("C07-b-bad-token", func(w *stWitness) {
		w.store(w.rows(5))
		w.c.run(&stItem{kind: "L", q: all, size: 2, tok: "abc", via: 0})
		w.c.run(&stItem{kind: "L", q: all, size: 2, tok: "abc", via: 1})
		w.c.run(&stItem{kind: "PL", q: all, size: 2, tok: "abc"})
		w.listAll(0)
	})
	run("C07-c-list-all", func(w *stWitness) {
		w.store(w.rows(5))
		for _, size := range []int{2, 5, 0, 1, 4, 6, 100} {
			w.listAll(size)
		}
		ns := "files"
		w.c.run(&stItem{kind: "LA", q: &stQuery{ns: &ns, sub: &stSub{id: w.s(6)}}, size: 1, via: 0})
	})
	for _, kind := range []string{"PL", "L"} {
		kind := kind
		run("C07-d-interleaved-"+kind, func(w *stWitness) {
			w.store(w.rows(5))
			first := &stItem{kind: kind, q: all, size: 2, via: w.c.r.Intn(3)}
			firstIdx := w.c.n
			w.c.run(first)
			returned := w.c.rows[0].t // the first page is the first two rows in shard order
			w.c.run(&stItem{kind: "X", del: []stTuple{returned}})
			extra := []stTuple{
				{ns: "groups", obj: w.s(1), rel: "view", sub: stSub{id: w.s(8)}},
				{ns: "groups", obj: w.s(2), rel: "view", sub: stSub{set: true, ns: "files", obj: w.s(1), rel: "view"}},
			}
			w.store(extra)
			tok, from := first.next, firstIdx
			for n := 0; tok != "" && n < 10; n++ {
				it := &stItem{kind: kind, q: all, size: 2, via: first.via, tok: tok, refSet: true, ref: from}
				from = w.c.n
				w.c.run(it)
				tok = it.next
			}
			w.listAll(2)
		})
	}
	// C04
	good := func(w *stWitness, k int) stTuple {
		return stTuple{ns: "files", obj: w.s(k), rel: "view", sub: stSub{id: w.s(k + 1)}}
	}
	ins := func(t stTuple) *stDelta { return &stDelta{action: "i", actionStr: "insert", t: stFromTuple(t)} }
	del := func(t stTuple) *stDelta { return &stDelta{action: "d", actionStr: "delete", t: stFromTuple(t)} }
	run("C04-p-null-delta", func(w *stWitness) {
		w.c.run(&stItem{kind: "P", ds: []*stDelta{ins(good(w, 1)), {action: "o", nullDelta: true}}})
		w.listAll(0)
	})
	run("C04-p-null-tuple", func(w *stWitness) {
		w.c.run(&stItem{kind: "P", ds: []*stDelta{ins(good(w, 1)), {action: "i", actionStr: "insert"}}})
		w.listAll(0)
	})
	run("C04-p-unknown-action", func(w *stWitness) {
		d := ins(good(w, 1))
		d.action, d.actionStr = "o", "upsert"
		w.c.run(&stItem{kind: "P", ds: []*stDelta{ins(good(w, 3)), d}})
		w.listAll(0)
	})
	run("C04-p-unknown-namespace", func(w *stWitness) {
		bad := good(w, 3)
		bad.ns = "nope"
		w.c.run(&stItem{kind: "P", ds: []*stDelta{ins(good(w, 1)), ins(bad)}})
		w.listAll(0)
		w.c.run(&stItem{kind: "E", q: all})
	})
	run("C04-t-no-subject", func(w *stWitness) {
		g := good(w, 1)
		w.c.run(&stItem{kind: "T", ds: []*stDelta{ins(g), {action: "i", t: &stATuple{ns: "files", obj: w.s(3), rel: "view"}}}})
		w.c.run(&stItem{kind: "T", ds: []*stDelta{{action: "d", t: &stATuple{ns: "files", obj: w.s(3), rel: "view"}}}})
		w.c.run(&stItem{kind: "T", ds: []*stDelta{{action: "i"}}})
		w.listAll(0)
	})
	run("C04-c-no-subject", func(w *stWitness) {
		w.c.run(&stItem{kind: "C", at: &stATuple{ns: "files", obj: w.s(1), rel: "view"}})
		w.listAll(0)
	})
	run("C04-d-no-namespace", func(w *stWitness) {
		g := good(w, 1)
		w.c.run(&stItem{kind: "C", at: stFromTuple(g)})
		w.c.run(&stItem{kind: "D", q: &stQuery{obj: &g.obj}})
		w.c.run(&stItem{kind: "D", q: &stQuery{}})
		w.listAll(0)
	})
	run("C04-g-no-query", func(w *stWitness) {
		w.c.run(&stItem{kind: "C", at: stFromTuple(good(w, 1))})
		w.c.run(&stItem{kind: "G", via: 1})
		w.listAll(0)
	})
	run("C04-p-insert-and-delete-same", func(w *stWitness) {
		g := good(w, 1)
		w.c.run(&stItem{kind: "P", ds: []*stDelta{ins(g), del(g)}})
		w.listAll(0)
		w.c.run(&stItem{kind: "P", ds: []*stDelta{del(g), ins(g)}})
		w.listAll(0)
	})
	run("C04-duplicate-create-then-delete", func(w *stWitness) {
		g := good(w, 1)
		w.c.run(&stItem{kind: "C", at: stFromTuple(g)})
		w.c.run(&stItem{kind: "C", at: stFromTuple(g)})
		w.listAll(0)
		w.c.run(&stItem{kind: "X", del: []stTuple{g}})
		w.listAll(0)
	})
}
