package drive

// Environment of the `store` streams: one registry (one sqlite database), one or
// more networks on it, raw access to the two tables, snapshots, fault triggers.

import (
	"context"
	"fmt"
	"net/http"
	"os"
	"sort"
	"strconv"
	"strings"
	"testing"

	"github.com/gofrs/uuid"
	"github.com/julienschmidt/httprouter"
	"github.com/ory/x/networkx"

	"github.com/ory/keto/internal/check"
	"github.com/ory/keto/internal/driver"
	"github.com/ory/keto/internal/driver/config"
	"github.com/ory/keto/internal/expand"
	"github.com/ory/keto/internal/namespace"
	"github.com/ory/keto/internal/namespace/namespacehandler"
	"github.com/ory/keto/internal/persistence"
	ksql "github.com/ory/keto/internal/persistence/sql"
	"github.com/ory/keto/internal/relationtuple"
	"github.com/ory/keto/internal/schema"
	"github.com/ory/keto/internal/x"
	rts "github.com/ory/keto/proto/ory/keto/relation_tuples/v1alpha2"
)

const (
	stPoisonRel    = "poison"
	stPoisonDelRel = "dpoison"
	stPoisonString = "poison-string"
)

// stRTHandler is what relationtuple.NewHandler returns (the type is unexported).
type stRTHandler interface {
	TransactRelationTuples(context.Context, *rts.TransactRelationTuplesRequest) (*rts.TransactRelationTuplesResponse, error)
	DeleteRelationTuples(context.Context, *rts.DeleteRelationTuplesRequest) (*rts.DeleteRelationTuplesResponse, error)
	ListRelationTuples(context.Context, *rts.ListRelationTuplesRequest) (*rts.ListRelationTuplesResponse, error)
	RegisterReadRoutes(*x.ReadRouter)
	RegisterWriteRoutes(*x.WriteRouter)
}

// stNetDeps makes the handlers of the relationtuple package serve another
// network of the same database.
type stNetDeps struct {
	*driver.RegistryDefault
	p      *ksql.Persister
	m, rom *relationtuple.Mapper
}

func (d *stNetDeps) RelationTupleManager() relationtuple.Manager  { return d.p }
func (d *stNetDeps) MappingManager() relationtuple.MappingManager { return d.p }
func (d *stNetDeps) Persister() persistence.Persister             { return d.p }
func (d *stNetDeps) NetworkID(ctx context.Context) uuid.UUID      { return d.p.NetworkID(ctx) }
func (d *stNetDeps) Mapper() *relationtuple.Mapper                { return d.m }
func (d *stNetDeps) ReadOnlyMapper() *relationtuple.Mapper        { return d.rom }
func (d *stNetDeps) Traverser() relationtuple.Traverser           { return ksql.NewTraverser(d.p) }
func (d *stNetDeps) PermissionEngine() *check.Engine              { return check.NewEngine(d) }
func (d *stNetDeps) ExpandEngine() *expand.Engine                 { return expand.NewEngine(d) }
func (d *stNetDeps) Transactor() interface {
	Transaction(ctx context.Context, f func(ctx context.Context) error) error
} {
	return d.p
}

type stNet struct {
	idx         int
	nid         uuid.UUID
	p           *ksql.Persister
	h           stRTHandler
	write, read http.Handler
	rh          *stReadHandlers // check / expand / namespaces / syntax of this network
}

type stEnv struct {
	t       *testing.T
	o       *Out
	ctx     context.Context
	reg     *driver.RegistryDefault
	nets    []*stNet
	cfg     []string // configured namespace names
	verbose bool
	syntax  http.Handler
	tupCols string // quote(col)||… expression of keto_relation_tuples
	mapCols string
	others  []string // the other tables
	faults  bool
	probe   stGRPCProbe
}

type stV struct {
	V string `db:"v"`
}
type stN struct {
	V int `db:"v"`
}

func newStEnv(t *testing.T, o *Out, extraNets int) *stEnv {
	ctx := context.Background()
	reg := driver.NewSqliteTestRegistry(t, false)
	quiet(reg)
	e := &stEnv{t: t, o: o, ctx: ctx, reg: reg, verbose: os.Getenv("VERIF_STORE_VERBOSE") == "1"}
	e.setCfg(stDefaultCfg)
	p0, ok := reg.Persister().(*ksql.Persister)
	if !ok {
		t.Fatalf("store: persister is %T", reg.Persister())
	}
	e.nets = append(e.nets, &stNet{idx: 0, nid: p0.NetworkID(ctx), p: p0, h: relationtuple.NewHandler(reg),
		write: reg.WriteRouter(ctx), read: reg.ReadRouter(ctx),
		rh: &stReadHandlers{check: check.NewHandler(reg), expand: expand.NewHandler(reg),
			ns: namespacehandler.New(reg), schema: schema.NewHandler(reg)}})
	e.syntax = reg.OPLSyntaxRouter(ctx)
	for k := 1; k <= extraNets; k++ {
		n := networkx.NewNetwork()
		conn, err := reg.PopConnection(ctx)
		if err != nil {
			t.Fatalf("store: connection: %v", err)
		}
		if err := conn.Create(n); err != nil {
			t.Fatalf("store: create network: %v", err)
		}
		p, err := ksql.NewPersister(ctx, reg, n.ID)
		if err != nil {
			t.Fatalf("store: persister: %v", err)
		}
		deps := &stNetDeps{RegistryDefault: reg, p: p}
		deps.m = &relationtuple.Mapper{D: deps}
		deps.rom = &relationtuple.Mapper{D: deps, ReadOnly: true}
		h := relationtuple.NewHandler(deps)
		wr, rr := httprouter.New(), httprouter.New()
		h.RegisterWriteRoutes(&x.WriteRouter{Router: wr})
		h.RegisterReadRoutes(&x.ReadRouter{Router: rr})
		ch, eh, nh := check.NewHandler(deps), expand.NewHandler(deps), namespacehandler.New(deps)
		ch.RegisterReadRoutes(&x.ReadRouter{Router: rr})
		eh.RegisterReadRoutes(&x.ReadRouter{Router: rr})
		nh.RegisterReadRoutes(&x.ReadRouter{Router: rr})
		e.nets = append(e.nets, &stNet{idx: k, nid: n.ID, p: p, h: h, write: wr, read: rr,
			rh: &stReadHandlers{check: ch, expand: eh, ns: nh, schema: schema.NewHandler(deps)}})
	}
	e.tupCols = e.quoteExpr("keto_relation_tuples")
	e.mapCols = e.quoteExpr("keto_uuid_mappings")
	var names []stV
	e.must(e.nets[0].p.Connection(e.ctx).RawQuery("SELECT name AS v FROM sqlite_master WHERE type='table'").All(&names))
	for _, n := range names {
		if n.V != "keto_relation_tuples" && n.V != "keto_uuid_mappings" {
			e.others = append(e.others, n.V)
		}
	}
	sort.Strings(e.others)
	return e
}

var stDefaultCfg = []string{"files", "groups", "Users", "a b:c"}

// setCfg configures the namespaces (costs ~10 ms: only when the list changes).
func (e *stEnv) setCfg(names []string) {
	if strings.Join(names, "\x00") == strings.Join(e.cfg, "\x00") && e.cfg != nil {
		return
	}
	nss := make([]*namespace.Namespace, len(names))
	for i, n := range names {
		nss[i] = &namespace.Namespace{Name: n}
	}
	if err := e.reg.Config(e.ctx).Set(config.KeyNamespaces, nss); err != nil {
		e.t.Fatalf("store: set namespaces: %v", err)
	}
	if _, err := e.reg.Config(e.ctx).NamespaceManager(); err != nil {
		e.t.Fatalf("store: namespace manager: %v", err)
	}
	e.cfg = append([]string{}, names...)
}

func (e *stEnv) must(err error) {
	if err != nil {
		e.t.Fatalf("store: %v", err)
	}
}

// quoteExpr builds `quote(c1)||','||quote(c2)…` over all columns of a table.
func (e *stEnv) quoteExpr(table string) string {
	var cols []stV
	e.must(e.nets[0].p.Connection(e.ctx).RawQuery("SELECT name AS v FROM pragma_table_info('" + table + "')").All(&cols))
	if len(cols) == 0 {
		e.t.Fatalf("store: no columns for %s", table)
	}
	parts := make([]string, len(cols))
	for i, c := range cols {
		parts[i] = "quote(" + c.V + ")"
	}
	return strings.Join(parts, "||','||")
}

func (e *stEnv) exec(stmt string) {
	e.must(e.nets[0].p.Connection(e.ctx).RawQuery(stmt).Exec())
}

// clear empties the two tables (the delete trigger would block stored dpoison rows).
func (e *stEnv) clear() {
	if e.faults {
		e.exec("DROP TRIGGER IF EXISTS st_del")
	}
	e.exec("DELETE FROM keto_relation_tuples")
	e.exec("DELETE FROM keto_uuid_mappings")
	if e.faults {
		e.exec("CREATE TRIGGER st_del BEFORE DELETE ON keto_relation_tuples WHEN OLD.relation = '" + stPoisonDelRel + "' BEGIN SELECT RAISE(ABORT,'injected'); END")
	}
}

func (e *stEnv) installFaults() {
	e.faults = true
	e.exec("CREATE TRIGGER st_ins BEFORE INSERT ON keto_relation_tuples WHEN NEW.relation = '" + stPoisonRel + "' BEGIN SELECT RAISE(ABORT,'injected'); END")
	e.exec("CREATE TRIGGER st_map BEFORE INSERT ON keto_uuid_mappings WHEN NEW.string_representation = '" + stPoisonString + "' BEGIN SELECT RAISE(ABORT,'injected'); END")
}

// stRow is one row of keto_relation_tuples.
type stRow struct {
	shard uuid.UUID
	net   int // index of the network in the case, -1 if unknown
	t     stTuple
	r     string // rendered tuple (without network)
}

func (e *stEnv) netIndex(nid uuid.UUID) int {
	for _, n := range e.nets {
		if n.nid == nid {
			return n.idx
		}
	}
	return -1
}

// readRows reads the whole table in shard order (all networks).
func (c *stCase) readRows() []stRow {
	e := c.env
	var rows []*ksql.RelationTuple
	e.must(e.nets[0].p.Connection(e.ctx).RawQuery(
		"SELECT shard_id, nid, namespace, object, relation, subject_id, subject_set_namespace, subject_set_object, subject_set_relation, commit_time FROM keto_relation_tuples ORDER BY shard_id").All(&rows))
	out := make([]stRow, 0, len(rows))
	for _, r := range rows {
		k := e.netIndex(r.NetworkID)
		t := stTuple{ns: r.Namespace, obj: c.idOf(k, r.Object), rel: r.Relation}
		if r.SubjectID.Valid {
			t.sub = stSub{id: c.idOf(k, r.SubjectID.UUID)}
		} else {
			t.sub = stSub{set: true, ns: r.SubjectSetNamespace.String, obj: c.idOf(k, r.SubjectSetObject.UUID), rel: r.SubjectSetRelation.String}
		}
		out = append(out, stRow{shard: r.ID, net: k, t: t, r: stRTuple(t)})
	}
	return out
}

// readMaps renders keto_uuid_mappings as sorted `<net>@<string id>` items.
func (c *stCase) readMaps() []string {
	e := c.env
	var ms []*ksql.UUIDMapping
	e.must(e.nets[0].p.Connection(e.ctx).RawQuery("SELECT id, string_representation FROM keto_uuid_mappings").All(&ms))
	out := make([]string, 0, len(ms))
	for _, m := range ms {
		net := "?"
		for _, n := range e.nets {
			if uuid.NewV5(n.nid, m.StringRepresentation) == m.ID {
				net = strconv.Itoa(n.idx)
				break
			}
		}
		out = append(out, net+"@"+strconv.Itoa(c.ids[m.StringRepresentation]))
	}
	sort.Strings(out)
	return out
}

// snapshot is the byte-level dump used for `changed`.
func (e *stEnv) snapshot() string {
	var b strings.Builder
	conn := e.nets[0].p.Connection(e.ctx)
	for _, q := range []string{
		"SELECT " + e.tupCols + " AS v FROM keto_relation_tuples ORDER BY shard_id, nid",
		"SELECT " + e.mapCols + " AS v FROM keto_uuid_mappings ORDER BY id",
	} {
		var vs []stV
		e.must(conn.RawQuery(q).All(&vs))
		for _, v := range vs {
			b.WriteString(v.V)
			b.WriteByte('\n')
		}
		b.WriteString("--\n")
	}
	for _, t := range e.others {
		var n []stN
		e.must(conn.RawQuery(fmt.Sprintf("SELECT count(*) AS v FROM %q", t)).All(&n))
		fmt.Fprintf(&b, "%s=%d\n", t, n[0].V)
	}
	return b.String()
}
