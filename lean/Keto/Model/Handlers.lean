/-
  Model of the check transports (internal/check/handler.go): REST GET/POST in the
  status-mirroring and the always-200 variants, gRPC Check, and the entries of REST
  and gRPC batch check — each as a pure function of what happened before the engine
  was asked (did the tuple decode, are its namespaces known) and of the engine's
  result.
-/
import Keto.Model.Engine

namespace Keto.H
open Keto

structure Entry where
  tupleOk : Bool      -- the request carries a relationship with exactly one subject kind
  nsKnown : Bool      -- its namespace (and subject-set namespace) are known
  eng : Res           -- the engine's result for the mapped tuple (unused if !tupleOk || !nsKnown)
  deriving Repr, DecidableEq

inductive Http where
  | ok (allowed : Bool)     -- 200 {"allowed": …}
  | forbidden               -- 403 {"allowed": false}
  | badRequest              -- 400
  | serverError             -- 500
  deriving Repr, DecidableEq

inductive Grpc where
  | ok (allowed : Bool)
  | invalidArgument
  | notFound
  | internal
  deriving Repr, DecidableEq

/-- `getCheck`: (allowed, error class). The URL query is decoded first (no subject ⇒
    400); an unknown namespace is "not allowed", not an error. -/
def restCheck (e : Entry) : Bool × Option Http :=
  if !e.tupleOk then (false, some .badRequest)
  else if !e.nsKnown then (false, none)
  else match e.eng.err with
    | some .schema => (false, some .badRequest)
    | some _ => (false, some .serverError)
    | none => (e.eng.memb == .isMember, none)

/-- `postCheck`: the JSON body always decodes into a tuple; the mapper looks the
    namespace up before it validates the subject, so an unknown namespace wins over a
    missing subject. -/
def restCheckPost (e : Entry) : Bool × Option Http :=
  if !e.nsKnown then (false, none)
  else if !e.tupleOk then (false, some .badRequest)
  else match e.eng.err with
    | some .schema => (false, some .badRequest)
    | some _ => (false, some .serverError)
    | none => (e.eng.memb == .isMember, none)

def mirrorOf (r : Bool × Option Http) : Http :=
  match r with
  | (_, some err) => err
  | (true, none) => .ok true
  | (false, none) => .forbidden

def openOf (r : Bool × Option Http) : Http :=
  match r with
  | (_, some err) => err
  | (a, none) => .ok a

/-- POST /relation-tuples/check and /relation-tuples/check/openapi. -/
def restMirrorPost (e : Entry) : Http := mirrorOf (restCheckPost e)
def restOpenPost (e : Entry) : Http := openOf (restCheckPost e)

/-- GET/POST /relation-tuples/check: the status mirrors the decision. -/
def restMirror (e : Entry) : Http :=
  match restCheck e with
  | (_, some err) => err
  | (true, none) => .ok true
  | (false, none) => .forbidden

/-- GET/POST /relation-tuples/check/openapi: always 200. -/
def restOpen (e : Entry) : Http :=
  match restCheck e with
  | (_, some err) => err
  | (a, none) => .ok a

/-- gRPC Check: an unknown namespace is a NotFound error. -/
def grpcCheck (e : Entry) : Grpc :=
  if !e.tupleOk then .invalidArgument
  else if !e.nsKnown then .notFound
  else match e.eng.err with
    | some .schema => .invalidArgument
    | some _ => .internal
    | none => .ok (e.eng.memb == .isMember)

/-- One entry of a REST / gRPC batch check response: (allowed, carries an error). -/
def batchEntry (e : Entry) : Bool × Bool :=
  if !e.tupleOk || !e.nsKnown then (false, true)
  else (e.eng.memb == .isMember, e.eng.err.isSome)

/-- Batch check: one result per entry, in request order. -/
def batch (es : List Entry) : List (Bool × Bool) := es.map batchEntry

/-- `doBatchCheck` / gRPC `BatchCheck` as a whole: a batch with MORE entries than
    `limit.max_batch_check_size` is rejected (400 / InvalidArgument, `none`); any other batch -
    one of exactly the maximum size included - gets one result per entry. -/
def batchLimited (max : Nat) (es : List Entry) : Option (List (Bool × Bool)) :=
  if es.length > max then none else some (batch es)

/-- The decision the engine stands for. -/
def decision (e : Entry) : Bool :=
  e.tupleOk && e.nsKnown && e.eng.err.isNone && e.eng.memb == .isMember

def Http.allowed : Http → Bool
  | .ok a => a
  | _ => false

def Grpc.allowed : Grpc → Bool
  | .ok a => a
  | _ => false

end Keto.H
