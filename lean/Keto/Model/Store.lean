/-
  Executable model of the relationship store and of the write/read handlers on top of it
  (core Lean only).

  Modelled code (as it is today):
    internal/persistence/sql/relationtuples.go   whereQuery / whereSubject, buildInsert, buildDelete,
                                                 Write/Delete/DeleteAll/Transact/Get/ExistsRelationTuples
    internal/persistence/sql/persister.go        queryWithNetwork, internalPaginationFromOptions
    internal/persistence/sql/uuid_mapping.go     MapStringsToUUIDs (inserting) / …ReadOnly (pure)
    internal/relationtuple/uuid_mapping.go       Mapper.FromTuple / FromQuery (namespace lookup, Validate)
    internal/relationtuple/transact_server.go    createRelation, deleteRelations, patchRelationTuples,
                                                 TransactRelationTuples, DeleteRelationTuples
    internal/relationtuple/read_server.go        getRelations, ListRelationTuples

  Abstractions.  Namespaces and relations are strings; every other string (objects, subject ids) is a
  natural number: the harness interns the distinct strings of a case (the real mapper turns them into
  UUIDv5(network, string); that the mapping is injective is C16's business).  A shard id is the
  128-bit value of the row's random `shard_id`; the harness reads it back after every write and hands
  it to the model, so the model never invents an id.  A network id is a small number.
-/
import Keto.Model.Data
import Keto.Generated.Facts

namespace Keto.Store

/-! ## Rows, queries -/

/-- One row of `keto_relation_tuples` (without `commit_time`). -/
structure Row where
  shard : Nat
  nid : Nat
  t : Tuple
  deriving DecidableEq, Repr, Inhabited

/-- The table, kept in `shard_id` order (what `ORDER BY shard_id` returns). -/
abbrev Store := List Row

/-- `relationtuple.RelationQuery`: four optional fields. -/
structure Query where
  ns : Option String := none
  obj : Option Nat := none
  rel : Option String := none
  sub : Option Subject := none
  deriving DecidableEq, Repr, Inhabited

/-- An absent field matches everything (`whereQuery` adds no predicate for it). -/
def optEq {α : Type} [DecidableEq α] : Option α → α → Bool
  | none, _ => true
  | some a, b => decide (a = b)

/-- `whereQuery` + `whereSubject` as a predicate on the tuple columns. -/
def Query.matches (q : Query) (t : Tuple) : Bool :=
  optEq q.ns t.ns && optEq q.obj t.obj && optEq q.rel t.rel && optEq q.sub t.sub

/-- `queryWithNetwork`: `nid = ?`. -/
def inNet (nid : Nat) (r : Row) : Bool := decide (r.nid = nid)

/-- `queryWithNetwork` + `whereQuery`. -/
def hits (nid : Nat) (q : Query) (r : Row) : Bool := inNet nid r && q.matches r.t

/-- `buildDelete`: `(t₁ OR t₂ OR …) AND nid = ?`. -/
def listed (nid : Nat) (ts : List Tuple) (r : Row) : Bool := inNet nid r && decide (r.t ∈ ts)

/-! ## `slices.Chunk` -/

def chunksF {α : Type} (n : Nat) : Nat → List α → List (List α)
  | 0, _ => []
  | f+1, l =>
    match l with
    | [] => []
    | _ :: _ => l.take n :: chunksF n f (l.drop n)

/-- `slices.Chunk(l, n)` for `n ≥ 1` (the fuel `l.length` suffices because every chunk is non-empty). -/
def chunks {α : Type} (n : Nat) (l : List α) : List (List α) := chunksF n l.length l

/-! ## Statements of the persister -/

/-- The place of a new row in `shard_id` order. -/
def insertRow (r : Row) : Store → Store
  | [] => [r]
  | x :: xs => if r.shard < x.shard then r :: x :: xs else x :: insertRow r xs

/-- One `INSERT … VALUES (…), (…), …` statement (`buildInsert` on one chunk). -/
def insertRows : List Row → Store → Store
  | [], s => s
  | r :: rs, s => insertRows rs (insertRow r s)

/-- `buildInsert`: every tuple gets the network id and a fresh random shard id
    (here: supplied with the tuple). -/
def mkRows (nid : Nat) (ins : List (Tuple × Nat)) : List Row := ins.map fun p => ⟨p.2, nid, p.1⟩

/-- One `DELETE FROM … WHERE (… OR …) AND nid = ?` statement: removes ALL copies of every listed tuple. -/
def deleteStmt (nid : Nat) (ts : List Tuple) (s : Store) : Store := s.filter fun r => !listed nid ts r

/-- `DeleteAllRelationTuples`: `DELETE … WHERE nid = ? AND <whereQuery>`. -/
def deleteAll (nid : Nat) (q : Query) (s : Store) : Store := s.filter fun r => !hits nid q r

def insertChunks : List (List Row) → Store → Store
  | [], s => s
  | c :: cs, s => insertChunks cs (insertRows c s)

def deleteChunks (nid : Nat) : List (List Tuple) → Store → Store
  | [], s => s
  | c :: cs, s => deleteChunks nid cs (deleteStmt nid c s)

/-- `WriteRelationTuples` with insert chunk size `c`. -/
def writeC (c : Nat) (nid : Nat) (ins : List (Tuple × Nat)) (s : Store) : Store :=
  insertChunks (chunks c (mkRows nid ins)) s

/-- `DeleteRelationTuples` with delete chunk size `c`. -/
def deleteC (c : Nat) (nid : Nat) (ts : List Tuple) (s : Store) : Store :=
  deleteChunks nid (chunks c ts) s

/-- `TransactRelationTuples`: insert first, then delete, one transaction. -/
def transactC (cI cD : Nat) (nid : Nat) (ins : List (Tuple × Nat)) (del : List Tuple) (s : Store) : Store :=
  deleteC cD nid del (writeC cI nid ins s)

def write := writeC Facts.chunkSizeInsertTuple
def delete := deleteC Facts.chunkSizeDeleteTuple
def transact := transactC Facts.chunkSizeInsertTuple Facts.chunkSizeDeleteTuple

/-- `ExistsRelationTuples`. -/
def existsTuples (nid : Nat) (q : Query) (s : Store) : Bool := s.any (hits nid q)

/-! ## Keyset pagination (`GetRelationTuples`) -/

/-- The page token of a request: absent/empty, a well-formed UUID, or anything else. -/
inductive Token where
  | empty
  | at (shard : Nat)
  | bad
  deriving DecidableEq, Repr, Inhabited

inductive PageErr where
  | badSize      -- persistence.ErrMalformedPageSize
  | badToken     -- persistence.ErrMalformedPageToken
  deriving DecidableEq, Repr, Inhabited

structure Page where
  rows : List Row
  next : Option Nat      -- `none` = empty next-page token
  deriving DecidableEq, Repr, Inhabited

/-- `internalPaginationFromOptions`: `0 ⇒ defaultPageSize`. -/
def perPage (size : Int) : Nat := if size = 0 then Facts.defaultPageSize else size.toNat

/-- `parsePageToken`: the empty token is `uuid.Nil`. -/
def tokLast : Token → Option Nat
  | .empty => some 0
  | .at l => some l
  | .bad => none

/-- `nid = ? AND shard_id > ? AND <whereQuery>` (on a table in `shard_id` order). -/
def cands (nid : Nat) (q : Query) (last : Nat) (s : Store) : List Row :=
  s.filter fun r => hits nid q r && decide (last < r.shard)

/-- What the code does with the `LIMIT n+1` result: if it has more than `n` rows drop the extra row and
    return the last remaining row's shard id as the next token. -/
def cut (n : Nat) (res : List Row) : Page :=
  if n < res.length then
    ⟨res.dropLast, res.dropLast.getLast?.map (·.shard)⟩
  else ⟨res, none⟩

def getPage (nid : Nat) (q : Query) (size : Int) (tok : Token) (s : Store) : Except PageErr Page :=
  if size < 0 then .error .badSize
  else match tokLast tok with
    | none => .error .badToken
    | some last => .ok (cut (perPage size) ((cands nid q last s).take (perPage size + 1)))

/-- A consumer that follows the tokens (`fuel` bounds the number of fetches). `none`: an error or the
    fuel ran out before a page with an empty token was seen. -/
def follow (nid : Nat) (q : Query) (size : Int) (s : Store) : Nat → Token → Option (List Page)
  | 0, _ => none
  | f+1, tok =>
    match getPage nid q size tok s with
    | .error _ => none
    | .ok p =>
      match p.next with
      | none => some [p]
      | some l => (follow nid q size s f (.at l)).map (p :: ·)

/-- The same consumer while the table changes between its fetches: the i-th fetch sees the i-th table.
    `none`: an error, or the tables ran out before a page with an empty token was seen. -/
def followI (nid : Nat) (q : Query) (size : Int) : Token → List Store → Option (List Page)
  | _, [] => none
  | tok, s :: ss =>
    match getPage nid q size tok s with
    | .error _ => none
    | .ok p =>
      match p.next with
      | none => some [p]
      | some l => (followI nid q size (.at l) ss).map (p :: ·)

def pagesRows (ps : List Page) : List Row := (ps.map (·.rows)).flatten

/-- All rows of a listing, following the tokens from the empty token. -/
def listAll (nid : Nat) (q : Query) (size : Int) (s : Store) : Option (List Row) :=
  (follow nid q size s (s.length + 1) .empty).map pagesRows

/-- The rows a listing in network `nid` with query `q` has to return, in `shard_id` order. -/
def matching (nid : Nat) (q : Query) (s : Store) : List Row := s.filter (hits nid q)

/-- In `shard_id` order, no shard id twice (it is the primary key together with `nid`; ids are random UUIDs). -/
def Sorted (s : List Row) : Prop := s.Pairwise fun a b => a.shard < b.shard

/-- The table invariant: rows in `shard_id` order with distinct ids, none of which is `uuid.Nil`. -/
def WF (s : Store) : Prop := Sorted s ∧ ∀ r ∈ s, 0 < r.shard

/-! ## The database: both tables, statements, transactions with a fault oracle -/

/-- `keto_relation_tuples` and `keto_uuid_mappings` (a set of (network, string) pairs: the id is
    UUIDv5(network, string) and the insert is `ON CONFLICT (id) DO NOTHING`). -/
structure DB where
  rows : Store := []
  maps : List (Nat × Nat) := []
  deriving DecidableEq, Repr, Inhabited

inductive Stmt where
  | insertMaps (ms : List (Nat × Nat))
  | insertRows (rows : List Row)
  | deleteRows (nid : Nat) (ts : List Tuple)
  | deleteWhere (nid : Nat) (q : Query)
  deriving Repr, Inhabited

def addMaps : List (Nat × Nat) → List (Nat × Nat) → List (Nat × Nat)
  | [], m => m
  | x :: xs, m => addMaps xs (if x ∈ m then m else m ++ [x])

def Stmt.exec : Stmt → DB → DB
  | .insertMaps ms, db => { db with maps := addMaps ms db.maps }
  | .insertRows rs, db => { db with rows := Store.insertRows rs db.rows }
  | .deleteRows nid ts, db => { db with rows := deleteStmt nid ts db.rows }
  | .deleteWhere nid q, db => { db with rows := deleteAll nid q db.rows }

/-- Does the `k`-th statement of a transaction fail?  The oracle may look at the position, the statement
    and the working copy (this covers "the k-th statement fails" as well as the data-dependent faults
    injected by the harness with sqlite triggers). -/
abbrev Oracle := Nat → Stmt → DB → Bool

def noFail : Oracle := fun _ _ _ => false

/-- Statements run on a working copy; the first failing statement aborts. -/
def runStmts (fail : Oracle) : Nat → List Stmt → DB → Option DB
  | _, [], w => some w
  | k, st :: rest, w => if fail k st w then none else runStmts fail (k+1) rest (st.exec w)

/-- `popx.Transaction`: commit the working copy at the end, drop it on error (the database's contract). -/
def transaction (fail : Oracle) (sts : List Stmt) (db : DB) : Bool × DB :=
  match runStmts fail 0 sts db with
  | some w => (true, w)
  | none => (false, db)

def writeStmts (c : Nat) (nid : Nat) (ins : List (Tuple × Nat)) : List Stmt :=
  (chunks c (mkRows nid ins)).map .insertRows

def deleteStmts (c : Nat) (nid : Nat) (ts : List Tuple) : List Stmt :=
  (chunks c ts).map (.deleteRows nid)

/-- `MapStringsToUUIDs`: nothing for no strings; else de-duplicate and insert in chunks. -/
def mapStmts (c : Nat) (nid : Nat) (strs : List Nat) : List Stmt :=
  (chunks c (strs.eraseDups.map fun s => (nid, s))).map .insertMaps

/-- The chunk sizes of the code (regenerated from the sources). -/
structure Chunking where
  ins : Nat := Facts.chunkSizeInsertTuple
  del : Nat := Facts.chunkSizeDeleteTuple
  maps : Nat := Facts.chunkSizeInsertUUIDMappings
  deriving Repr, Inhabited

def Chunking.pos (c : Chunking) : Prop := 0 < c.ins ∧ 0 < c.del ∧ 0 < c.maps

/-! ## The API layer -/

/-- `ketoapi.RelationTuple`: two optional subject fields, as in the Go struct. -/
structure ATuple where
  ns : String
  obj : Nat
  rel : String
  sid : Option Nat := none
  sset : Option (String × Nat × String) := none
  deriving DecidableEq, Repr, Inhabited

/-- `RelationTuple.Validate`: a subject must be present. -/
def ATuple.validate (t : ATuple) : Bool := t.sid.isSome || t.sset.isSome

inductive Status where
  | ok            -- 2xx / nil error
  | bad           -- 400
  | notFound      -- 404
  | internal      -- 500
  deriving DecidableEq, Repr, Inhabited

/-- The configured namespace names (`namespace.Manager.GetNamespaceByName`). -/
abbrev Names := List String

/-- `Mapper.FromTuple` on one tuple: namespace lookup, `Validate`, subject (the subject id wins when both
    are given), the subject set's namespace lookup. -/
def fromTuple (cfg : Names) (t : ATuple) : Except Status Tuple :=
  if !cfg.contains t.ns then .error .notFound
  else if !t.validate then .error .bad
  else match t.sid, t.sset with
    | some u, _ => .ok ⟨t.ns, t.obj, t.rel, .id u⟩
    | none, some (n, o, r) => if !cfg.contains n then .error .notFound else .ok ⟨t.ns, t.obj, t.rel, .set n o r⟩
    | none, none => .error .bad

/-- `Mapper.FromTuple` on a batch: the first failing tuple decides. -/
def fromTuples (cfg : Names) : List ATuple → Except Status (List Tuple)
  | [] => .ok []
  | t :: ts =>
    match fromTuple cfg t with
    | .error e => .error e
    | .ok it =>
      match fromTuples cfg ts with
      | .error e => .error e
      | .ok its => .ok (it :: its)

/-- The strings `FromTuple` hands to the mapping manager: per tuple the subject's string, then the object. -/
def ATuple.strings (t : ATuple) : List Nat :=
  match t.sid, t.sset with
  | some u, _ => [u, t.obj]
  | none, some (_, o, _) => [o, t.obj]
  | none, none => [t.obj]

def stringsOf : List ATuple → List Nat
  | [] => []
  | t :: ts => t.strings ++ stringsOf ts

/-- `Mapper.FromQuery`: namespace lookups only (both failures are "not found"). -/
def Query.nsOK (cfg : Names) (q : Query) : Bool :=
  match q.ns with
  | some n => cfg.contains n
  | none => true

def Query.subNsOK (cfg : Names) (q : Query) : Bool :=
  match q.sub with
  | some (.set n _ _) => cfg.contains n
  | _ => true

def fromQuery (cfg : Names) (q : Query) : Except Status Query :=
  if q.nsOK cfg && q.subNsOK cfg then .ok q else .error .notFound

inductive Action where
  | insert | delete | other
  deriving DecidableEq, Repr, Inhabited

/-- One element of a PATCH body / of `relation_tuple_deltas`; `t = none` is a JSON `null` (delta or
    tuple) resp. an absent proto tuple; `shard` is the id the new row got if the delta inserted one. -/
structure Delta where
  action : Action
  t : Option ATuple
  shard : Nat := 0
  deriving DecidableEq, Repr, Inhabited

/-- The per-delta checks of `patchRelationTuples`, in order; the first failing delta decides. -/
def patchCheck : List Delta → Bool
  | [] => true
  | d :: ds =>
    match d.t with
    | none => false
    | some t => t.validate && (d.action != .other) && patchCheck ds

/-- `internalTuplesWithAction` / `protoTuplesWithAction`. -/
def withAction (a : Action) : List Delta → List (ATuple × Nat)
  | [] => []
  | d :: ds =>
    if d.action = a then
      match d.t with
      | some t => (t, d.shard) :: withAction a ds
      | none => withAction a ds
    else withAction a ds

/-- `protoTuplesWithAction`: `FromDataProvider` rejects an absent subject (only deltas with the wanted
    action are looked at: a delta with an unspecified action is ignored). -/
def protoCheck (a : Action) : List Delta → Bool
  | [] => true
  | d :: ds =>
    if d.action = a then
      match d.t with
      | none => false
      | some t => t.validate && protoCheck a ds
    else protoCheck a ds

def statusOfTx (r : Bool × DB) : Status × DB := (if r.1 then .ok else .internal, r.2)

/-- The transaction of `createRelation` / `patchRelationTuples` / `TransactRelationTuples`:
    `Mapper().FromTuple(ins ++ del)` (namespace lookups, then the mapping inserts), then
    `TransactRelationTuples` (insert chunks, delete chunks). -/
def writeTx (ck : Chunking) (cfg : Names) (fail : Oracle) (nid : Nat)
    (ins : List (ATuple × Nat)) (del : List ATuple) (db : DB) : Status × DB :=
  match fromTuples cfg (ins.map (·.1)) with
  | .error e => (e, db)
  | .ok insI =>
    match fromTuples cfg del with
    | .error e => (e, db)
    | .ok delI =>
      statusOfTx (transaction fail
        (mapStmts ck.maps nid (stringsOf (ins.map (·.1) ++ del))
          ++ writeStmts ck.ins nid (insI.zip (ins.map (·.2)))
          ++ deleteStmts ck.del nid delI) db)

/-- PUT /admin/relation-tuples. -/
def restCreate (ck : Chunking) (cfg : Names) (fail : Oracle) (nid : Nat) (t : ATuple) (shard : Nat) (db : DB) :
    Status × DB :=
  if !t.validate then (.bad, db) else writeTx ck cfg fail nid [(t, shard)] [] db

/-- PATCH /admin/relation-tuples. -/
def restPatch (ck : Chunking) (cfg : Names) (fail : Oracle) (nid : Nat) (ds : List Delta) (db : DB) : Status × DB :=
  if !patchCheck ds then (.bad, db)
  else writeTx ck cfg fail nid (withAction .insert ds) ((withAction .delete ds).map (·.1)) db

/-- WriteService.TransactRelationTuples. -/
def grpcTransact (ck : Chunking) (cfg : Names) (fail : Oracle) (nid : Nat) (ds : List Delta) (db : DB) : Status × DB :=
  if !protoCheck .insert ds then (.bad, db)
  else if !protoCheck .delete ds then (.bad, db)
  else writeTx ck cfg fail nid (withAction .insert ds) ((withAction .delete ds).map (·.1)) db

/-- `ReadOnlyMapper().FromQuery` + `DeleteAllRelationTuples` (any storage error is wrapped as 500). -/
def deleteByQuery (cfg : Names) (fail : Oracle) (nid : Nat) (q : Query) (db : DB) : Status × DB :=
  match fromQuery cfg q with
  | .error e => (e, db)
  | .ok iq => statusOfTx (transaction fail [.deleteWhere nid iq] db)

/-- DELETE /admin/relation-tuples: the `namespace` key is required. -/
def restDelete (cfg : Names) (fail : Oracle) (nid : Nat) (q : Query) (db : DB) : Status × DB :=
  if q.ns.isNone then (.bad, db) else deleteByQuery cfg fail nid q db

/-- WriteService.DeleteRelationTuples: a query must be present. -/
def grpcDelete (cfg : Names) (fail : Oracle) (nid : Nat) (q : Option Query) (db : DB) : Status × DB :=
  match q with
  | none => (.bad, db)
  | some q => deleteByQuery cfg fail nid q db

/-! ### Direct `Persister` calls (internal tuples) -/

def pWrite (ck : Chunking) (fail : Oracle) (nid : Nat) (ins : List (Tuple × Nat)) (db : DB) : Status × DB :=
  statusOfTx (transaction fail (writeStmts ck.ins nid ins) db)

def pDelete (ck : Chunking) (fail : Oracle) (nid : Nat) (ts : List Tuple) (db : DB) : Status × DB :=
  statusOfTx (transaction fail (deleteStmts ck.del nid ts) db)

def pDeleteAll (fail : Oracle) (nid : Nat) (q : Query) (db : DB) : Status × DB :=
  statusOfTx (transaction fail [.deleteWhere nid q] db)

def pTransact (ck : Chunking) (fail : Oracle) (nid : Nat) (ins : List (Tuple × Nat)) (del : List Tuple) (db : DB) :
    Status × DB :=
  statusOfTx (transaction fail (writeStmts ck.ins nid ins ++ deleteStmts ck.del nid del) db)

/-- `Persister.MapStringsToUUIDs` called directly. -/
def pMap (ck : Chunking) (fail : Oracle) (nid : Nat) (strs : List Nat) (db : DB) : Status × DB :=
  statusOfTx (transaction fail (mapStmts ck.maps nid strs) db)

/-! ### The read API: each operation returns the database it leaves behind -/

/-- The mapping manager as the mappers use it: `MapStringsToUUIDsReadOnly` computes the ids and touches
    nothing; `MapStringsToUUIDs` inserts. -/
def mapStrings (readOnly : Bool) (ck : Chunking) (fail : Oracle) (nid : Nat) (strs : List Nat) (db : DB) : Bool × DB :=
  if readOnly then (true, db) else transaction fail (mapStmts ck.maps nid strs) db

def Query.strings (q : Query) : List Nat :=
  (match q.obj with | some o => [o] | none => []) ++
  (match q.sub with | some (.id u) => [u] | some (.set _ o _) => [o] | none => [])

structure ReadOut where
  status : Status
  page : Option Page := none
  found : Option Bool := none
  pages : Option (List Page) := none     -- a complete listing: all pages in order
  deriving DecidableEq, Repr, Inhabited

/-- `Mapper.FromQuery` with the mapper's `ReadOnly` flag: namespace lookups, then the strings go to the
    mapping manager. -/
def mapQuery (readOnly : Bool) (ck : Chunking) (cfg : Names) (fail : Oracle) (nid : Nat) (q : Query) (db : DB) :
    Except Status Query × DB :=
  match fromQuery cfg q with
  | .error e => (.error e, db)
  | .ok iq =>
    let r := mapStrings readOnly ck fail nid q.strings db
    (if r.1 then .ok iq else .error .internal, r.2)

/-- GET /relation-tuples and ReadService.ListRelationTuples (`q = none`: gRPC request without a query):
    `ReadOnlyMapper().FromQuery`, `GetRelationTuples`, `ReadOnlyMapper().ToTuple`. -/
def listReq (ck : Chunking) (cfg : Names) (nid : Nat) (q : Option Query) (size : Int) (tok : Token) (db : DB) :
    ReadOut × DB :=
  match q with
  | none => ({ status := .bad }, db)
  | some q =>
    let r := mapQuery true ck cfg noFail nid q db
    match r.1 with
    | .error e => ({ status := e }, r.2)
    | .ok iq =>
      match getPage nid iq size tok r.2.rows with
      | .error _ => ({ status := .bad }, r.2)
      | .ok p => ({ status := .ok, page := some p }, r.2)

/-- `Persister.GetRelationTuples` called directly. -/
def pList (nid : Nat) (q : Query) (size : Int) (tok : Token) (db : DB) : ReadOut × DB :=
  match getPage nid q size tok db.rows with
  | .error _ => ({ status := .bad }, db)
  | .ok p => ({ status := .ok, page := some p }, db)

/-- `Persister.ExistsRelationTuples` called directly. -/
def pExists (nid : Nat) (q : Query) (db : DB) : ReadOut × DB :=
  ({ status := .ok, found := some (existsTuples nid q db.rows) }, db)

/-- A client that lists everything through the API by following the tokens. -/
def listAllReq (ck : Chunking) (cfg : Names) (nid : Nat) (q : Option Query) (size : Int) (db : DB) : ReadOut × DB :=
  match q with
  | none => ({ status := .bad }, db)
  | some q =>
    let r := mapQuery true ck cfg noFail nid q db
    match r.1 with
    | .error e => ({ status := e }, r.2)
    | .ok iq =>
      if size < 0 then ({ status := .bad }, r.2)
      else match follow nid iq size r.2.rows (r.2.rows.length + 1) .empty with
        | none => ({ status := .internal }, r.2)      -- unreachable on a well-formed table (C07_static)
        | some ps => ({ status := .ok, pages := some ps }, r.2)

/-- Check / expand / batch check / list namespaces / syntax check: the names of the request go through the
    read-only mapper; the answer is computed by pure functions of the tables (engine and expand models). -/
def readOnlyMap (ck : Chunking) (nid : Nat) (strs : List Nat) (db : DB) : ReadOut × DB :=
  let r := mapStrings true ck noFail nid strs db
  ({ status := if r.1 then .ok else .internal }, r.2)

/-! ## Histories -/

inductive Op where
  | restCreate (t : ATuple) (shard : Nat)
  | restDelete (q : Query)
  | restPatch (ds : List Delta)
  | grpcTransact (ds : List Delta)
  | grpcDelete (q : Option Query)
  | pWrite (ins : List (Tuple × Nat))
  | pDelete (ts : List Tuple)
  | pDeleteAll (q : Query)
  | pTransact (ins : List (Tuple × Nat)) (del : List Tuple)
  | pMap (strs : List Nat)
  | malformed                       -- rejected while decoding (bad JSON, incomplete subject, unknown key, …)
  -- the read API
  | list (q : Option Query) (size : Int) (tok : Token)
  | listAll (q : Option Query) (size : Int)
  | pList (q : Query) (size : Int) (tok : Token)
  | pExists (q : Query)
  | readOnlyMap (strs : List Nat)
  deriving Repr, Inhabited

def Op.isRead : Op → Bool
  | .list .. | .listAll .. | .pList .. | .pExists .. | .readOnlyMap .. => true
  | _ => false

def wOut (r : Status × DB) : ReadOut × DB := ({ status := r.1 }, r.2)

/-- One request in network `nid`. -/
def step (ck : Chunking) (cfg : Names) (fail : Oracle) (nid : Nat) (op : Op) (db : DB) : ReadOut × DB :=
  match op with
  | .restCreate t sh => wOut (restCreate ck cfg fail nid t sh db)
  | .restDelete q => wOut (restDelete cfg fail nid q db)
  | .restPatch ds => wOut (restPatch ck cfg fail nid ds db)
  | .grpcTransact ds => wOut (grpcTransact ck cfg fail nid ds db)
  | .grpcDelete q => wOut (grpcDelete cfg fail nid q db)
  | .pWrite ins => wOut (pWrite ck fail nid ins db)
  | .pDelete ts => wOut (pDelete ck fail nid ts db)
  | .pDeleteAll q => wOut (pDeleteAll fail nid q db)
  | .pTransact ins del => wOut (pTransact ck fail nid ins del db)
  | .pMap strs => wOut (pMap ck fail nid strs db)
  | .malformed => ({ status := .bad }, db)
  | .list q size tok => listReq ck cfg nid q size tok db
  | .listAll q size => listAllReq ck cfg nid q size db
  | .pList q size tok => pList nid q size tok db
  | .pExists q => pExists nid q db
  | .readOnlyMap strs => readOnlyMap ck nid strs db

/-- A history: requests tagged with the network they are issued in. -/
abbrev History := List (Nat × Op)

def run (ck : Chunking) (cfg : Names) (fail : Oracle) : History → DB → List ReadOut × DB
  | [], db => ([], db)
  | (nid, op) :: h, db =>
    let r := step ck cfg fail nid op db
    let rest := run ck cfg fail h r.2
    (r.1 :: rest.1, rest.2)

/-- Everything network `nid` has in the table. -/
def view (nid : Nat) (s : Store) : Store := s.filter (inNet nid)

/-! ## Side condition on the shard ids a history supplies -/

/-- The shard ids handed out for new rows are distinct, not `uuid.Nil`, and not in the table (the database's
    primary key + `uuid.NewV4`). -/
def Fresh (shards : List Nat) (s : Store) : Prop :=
  shards.Nodup ∧ ∀ n ∈ shards, 0 < n ∧ ∀ r ∈ s, r.shard ≠ n

/-- The shard ids a request carries for the rows it inserts. -/
def Op.shards : Op → List Nat
  | .restCreate _ sh => [sh]
  | .restPatch ds => (withAction .insert ds).map (·.2)
  | .grpcTransact ds => (withAction .insert ds).map (·.2)
  | .pWrite ins => ins.map (·.2)
  | .pTransact ins _ => ins.map (·.2)
  | _ => []

/-- Every request of the run gets fresh shard ids for what it inserts. -/
def FreshRun (ck : Chunking) (cfg : Names) (fail : Oracle) : History → DB → Prop
  | [], _ => True
  | (nid, op) :: h, db => Fresh op.shards db.rows ∧ FreshRun ck cfg fail h (step ck cfg fail nid op db).2

/-! ## "A write history that does not touch row r" -/

/-- The relationship an API tuple denotes (whatever the configuration says about its namespaces). -/
def ATuple.internal? (t : ATuple) : Option Tuple :=
  match t.sid, t.sset with
  | some u, _ => some ⟨t.ns, t.obj, t.rel, .id u⟩
  | none, some (n, o, r) => some ⟨t.ns, t.obj, t.rel, .set n o r⟩
  | none, none => none

/-- Could the request, issued in network `n`, delete row `r`?  (Read off its arguments: a delete by a query that
    matches `r`, or a delete list / delete deltas naming `r`'s relationship, in `r`'s network.)  Inserts never
    touch an existing row: new rows get fresh shard ids anywhere in the order. -/
def Op.mayDelete (n : Nat) (r : Row) : Op → Bool
  | .restDelete q => decide (r.nid = n) && q.matches r.t
  | .grpcDelete (some q) => decide (r.nid = n) && q.matches r.t
  | .pDeleteAll q => decide (r.nid = n) && q.matches r.t
  | .restPatch ds => decide (r.nid = n) && (withAction .delete ds).any fun p => decide (p.1.internal? = some r.t)
  | .grpcTransact ds => decide (r.nid = n) && (withAction .delete ds).any fun p => decide (p.1.internal? = some r.t)
  | .pDelete ts => decide (r.nid = n) && decide (r.t ∈ ts)
  | .pTransact _ del => decide (r.nid = n) && decide (r.t ∈ del)
  | _ => false

/-- The tables an iteration sees when the write histories `hs` run between its fetches: the table now, the
    table after the first history, after the second, … -/
def storesOf (ck : Chunking) (cfg : Names) (fail : Oracle) : DB → List History → List Store
  | db, [] => [db.rows]
  | db, h :: hs => db.rows :: storesOf ck cfg fail (run ck cfg fail h db).2 hs

/-- Every history gets fresh shard ids (see `FreshRun`). -/
def FreshRuns (ck : Chunking) (cfg : Names) (fail : Oracle) : DB → List History → Prop
  | _, [] => True
  | db, h :: hs => FreshRun ck cfg fail h db ∧ FreshRuns ck cfg fail (run ck cfg fail h db).2 hs

end Keto.Store
