/-
  Executable model of the OPL parser (internal/schema/parser.go) and of the error
  positions / error rendering of parse_errors.go. Core Lean only.

  * The parser pulls items from the lexer through `next`/`peek` with a one-slot
    `lookahead`. On the pair (lookahead, lexer) these are "pop" and "head" of one item
    stream: the model keeps that stream (`toks`: the non-comment items still to come;
    after the last one `brokenItem` forever). The only nil site of `next`/`peek`
    (`*p.lookahead`) is guarded by the `!= nil` test of the same `if`.
  * `match` writes the matched identifiers/items through pointers; the model returns
    them as the list of captures (a variable that was not written keeps its zero
    value: `Item.zero`).
  * Go strings are byte strings. Names in `Keto.Namespace`/`Relation`/… are `String`s:
    `bstr` embeds a byte string one `Char` per byte (injective; the identity on ASCII).
  * A nil `*ast.SubjectSetRewrite` stored in an `ast.Child` interface (what
    `parseNotExpression` produces for `!()`: the typed nil is not `== nil`) is encoded as
    `Child.rewrite .or []` (`nilRewrite`); every non-nil rewrite the parser builds has at
    least one child.
  * Every loop carries fuel (`fuel > number of remaining items` suffices); running out of
    fuel sets `panic`, as do the explicit panic sites (`setOperation`'s "not reached",
    `match`'s default case cannot occur by typing and are not represented).
  * `steps` counts every `next` and every loop iteration.
-/
import Keto.Model.Data
import Keto.Model.Lexer
import Keto.Generated.Facts

namespace Keto.Opl
open Keto

/-- A Go string as a Lean `String`: one `Char` per byte. -/
def bstr (bs : List UInt8) : String := String.ofList (bs.map fun b => Char.ofNat b.toNat)

/-- The message formats of parser.go / typechecks.go (the enum the harness maps the
    messages to). -/
inductive ErrKind where
  | fatalLex (e : LexErr)          -- "fatal: %s" (the text of a lexer error item)
  | expectedToken                  -- "expected %q, got %q"
  | expectedIdentifier             -- "expected identifier, got %s"
  | expectedPermitsOrRelated       -- "expected 'permits' or 'related', got %q"
  | expectedIdentOrBrace           -- "expected identifier or '}', got %s %q"
  | expectedUnion                  -- "expected '|', got %q"
  | nestedTooDeep                  -- "expression nested too deeply; …"
  | unexpectedExpression           -- "did not expect another expression"
  | expectedTraverseOrIncludes     -- "expected 'traverse' or 'includes', got %q"
  | expectedRelatedOrPermits       -- "expected 'related' or 'permits', got %q"
  | nsNotDeclared                  -- "namespace %q was not declared"
  | nsNoRelation                   -- "namespace %q did not declare relation %q"
  | tcTooDeep                      -- "could not typecheck deeply nested SubjectSet further"
  | relNotDeclared                 -- "relation %q was not declared in namespace %q"
  deriving DecidableEq, Repr, Inhabited

/-- `ParseError`: the message kind and the byte range of the item it points at. -/
structure PErr where
  kind : ErrKind
  start : Nat
  stop : Nat
  deriving DecidableEq, Repr, Inhabited

/-- The deferred type checks (`typeCheck` closures) as data. `cur` is the name of the
    current namespace at the time the check was added. -/
inductive TypeCheck where
  | nsExists (ns : Item)                                        -- checkNamespaceExists
  | nsHasRelation (ns rel : Item)                               -- checkNamespaceHasRelation
  | curNsHasRelation (cur : String) (rel : Item)                -- checkCurrentNamespaceHasRelation
  | allTypesHaveRelation (cur : String) (relType : Item) (rel : String)  -- checkAllRelationsTypesHaveRelation
  deriving Repr, Inhabited

/-- `parser`. `errors` and `checks` are kept latest first. -/
structure P where
  toks : List Item
  nss : List Namespace := []
  ns : Namespace := ⟨"", []⟩
  errors : List PErr := []
  fatal : Bool := false
  checks : List TypeCheck := []
  steps : Nat := 0
  panic : Bool := false
  deriving Repr, Inhabited

def P.setPanic (p : P) : P := { p with panic := true }
def P.tick (p : P) : P := { p with steps := p.steps + 1 }

/-- `p.next()`. -/
def P.next (p : P) : Item × P :=
  match p.toks with
  | [] => (brokenItem, { p with steps := p.steps + 1 })
  | i :: r => (i, { p with toks := r, steps := p.steps + 1 })

/-- `p.peek()`. -/
def P.peek (p : P) : Item := p.toks.headD brokenItem

def P.addErr (p : P) (i : Item) (k : ErrKind) : P := { p with errors := ⟨k, i.start, i.stop⟩ :: p.errors }
def P.addFatal (p : P) (i : Item) (k : ErrKind) : P := { (p.addErr i k) with fatal := true }
def P.addCheck (p : P) (c : TypeCheck) : P := { p with checks := c :: p.checks }

/-- `i.Val == token`. The text of an error item is not modelled (see Lexer.lean): never equal. -/
def valIs (i : Item) (tok : List UInt8) : Bool :=
  if i.typ == .error then false else i.val == tok

/-- The arguments of `match`. -/
inductive Pat where
  | lit (t : List UInt8)            -- string
  | ident                           -- *string
  | item                            -- *item
  | opt (ts : List (List UInt8))    -- optional(tokens…)
  deriving Repr, Inhabited

/-- The loop of `optional` over `tokens[1:]`. -/
def matchRest : List (List UInt8) → P → Bool × P
  | [], p => (true, p)
  | t :: ts, p =>
    let r := p.next
    if valIs r.1 t then matchRest ts r.2 else (false, r.2.addFatal r.1 .expectedToken)

/-- `optional(tokens…)(p)`. -/
def optional (ts : List (List UInt8)) (p : P) : Bool × P :=
  match ts with
  | [] => (true, p)
  | first :: rest => if valIs p.peek first then matchRest rest p.next.2 else (true, p)

/-- The loop of `match`; `caps` are the values written so far. -/
def matchLoop : List Pat → List Item → P → Bool × List Item × P
  | [], caps, p => (true, caps, p)
  | .lit t :: ps, caps, p =>
    let r := p.next
    if valIs r.1 t then matchLoop ps caps r.2 else (false, caps, r.2.addFatal r.1 .expectedToken)
  | .ident :: ps, caps, p =>
    let r := p.next
    if r.1.typ == .identifier || r.1.typ == .stringLiteral then matchLoop ps (caps ++ [r.1]) r.2
    else (false, caps, r.2.addFatal r.1 .expectedIdentifier)
  | .item :: ps, caps, p =>
    let r := p.next
    matchLoop ps (caps ++ [r.1]) r.2
  | .opt ts :: ps, caps, p =>
    let r := optional ts p
    if r.1 then matchLoop ps caps r.2 else (false, caps, r.2)

/-- `p.match(tokens…)`. -/
def P.mtch (p : P) (pats : List Pat) : Bool × List Item × P :=
  if p.fatal then (false, [], p) else matchLoop pats [] p

/-- `p.matchIf(is(typ), tokens…)`. -/
def P.mtchIf (p : P) (typ : ItemType) (pats : List Pat) : Bool × List Item × P :=
  if p.fatal then (false, [], p)
  else if p.peek.typ != typ then (false, [], p)
  else p.mtch pats

def cap (caps : List Item) (k : Nat) : Item := caps.getD k Item.zero

def lits (ts : List (List UInt8)) : List Pat := ts.map .lit

/-- `p.matchPropertyAccess(propertyName)`; `pat` is `.item` or `.ident`. On success the
    value written is the single capture. -/
def matchPropertyAccess (pat : Pat) (p : P) : Bool × List Item × P :=
  let r1 := p.mtchIf .bracketLeft [.lit b!"[", pat, .lit b!"]"]
  if r1.1 then r1
  else
    let r2 := r1.2.2.mtch [.lit b!".", pat]
    (r2.1, r1.2.1 ++ r2.2.1, r2.2.2)

/-- `p.parseComputedSubjectSet(relation)`. -/
def parseComputedSubjectSet (relation : Item) (p : P) : Option Child × P :=
  let r := p.mtch (lits [b!"(", b!"ctx", b!".", b!"subject", b!")"])
  if !r.1 then (none, r.2.2)
  else (some (.computed (bstr relation.val)), r.2.2.addCheck (.curNsHasRelation r.2.2.ns.name relation))

/-- `p.parseTupleToSubjectSet(relation)`. -/
def parseTupleToSubjectSet (relation : Item) (p : P) : Option Child × P :=
  let r0 := p.mtch [.lit b!"("]
  if !r0.1 then (none, r0.2.2) else
  let p := r0.2.2
  -- switch { case p.matchIf(is(itemParenLeft), "(", &arg, ")"): case p.match(&arg): default: return nil }
  let a1 := p.mtchIf .parenLeft [.lit b!"(", .item, .lit b!")"]
  let a2 := if a1.1 then a1 else a1.2.2.mtch [.item]
  if !a2.1 then (none, a2.2.2) else
  let arg := cap a2.2.1 0
  let p := a2.2.2
  let r1 := p.mtch [.lit b!"=>", .lit arg.val, .lit b!".", .item]
  let verb := cap r1.2.1 0
  let p := r1.2.2
  if verb.val == b!"related" then
    let pa := matchPropertyAccess .ident p
    if !pa.1 then (none, pa.2.2) else
    let subjectSetRel := bstr (cap pa.2.1 0).val
    let r2 := pa.2.2.mtch [.lit b!".", .lit b!"includes", .lit b!"(", .lit b!"ctx", .lit b!".", .lit b!"subject",
                           .opt [b!","], .lit b!")", .opt [b!","], .lit b!")"]
    let p := r2.2.2.addCheck (.allTypesHaveRelation r2.2.2.ns.name relation subjectSetRel)
    (some (.ttu (bstr relation.val) subjectSetRel), p.addCheck (.curNsHasRelation p.ns.name relation))
  else if verb.val == b!"permits" then
    let pa := matchPropertyAccess .ident p
    if !pa.1 then (none, pa.2.2) else
    let subjectSetRel := bstr (cap pa.2.1 0).val
    let r2 := pa.2.2.mtch (lits [b!"(", b!"ctx", b!")", b!")"])
    let p := r2.2.2.addCheck (.allTypesHaveRelation r2.2.2.ns.name relation subjectSetRel)
    (some (.ttu (bstr relation.val) subjectSetRel), p.addCheck (.curNsHasRelation p.ns.name relation))
  else
    (none, p.addFatal verb .expectedRelatedOrPermits)

/-- `p.parsePermissionExpression()`; `none` is the nil interface. -/
def parsePermissionExpression (p : P) : Option Child × P :=
  let r0 := p.mtch [.lit b!"this", .lit b!".", .item]
  if !r0.1 then (none, r0.2.2) else
  let verb := cap r0.2.1 0
  let pa := matchPropertyAccess .item r0.2.2
  if !pa.1 then (none, pa.2.2) else
  let name := cap pa.2.1 0
  let p := pa.2.2
  if verb.val == b!"related" then
    let r1 := p.mtch [.lit b!"."]
    if !r1.1 then (none, r1.2.2) else
    let nx := r1.2.2.next
    if valIs nx.1 b!"traverse" then parseTupleToSubjectSet name nx.2
    else if valIs nx.1 b!"includes" then parseComputedSubjectSet name nx.2
    else (none, nx.2.addFatal nx.1 .expectedTraverseOrIncludes)
  else if verb.val == b!"permits" then
    let r1 := p.mtch (lits [b!"(", b!"ctx", b!")"])
    if !r1.1 then (none, r1.2.2) else
    (some (.computed (bstr name.val)), r1.2.2.addCheck (.curNsHasRelation r1.2.2.ns.name name))
  else (none, p.addFatal verb .expectedRelatedOrPermits)

/-- A nil `*ast.SubjectSetRewrite` inside an `ast.Child` interface. -/
def nilRewrite : Child := .rewrite .or []

def _root_.Keto.Rewrite.toChild (r : Rewrite) : Child := .rewrite r.op r.children

/-- `addChild(root, child)`; `child.AsRewrite()` wraps a leaf or an inversion in a
    rewrite with the zero-value operator (`or`). -/
def addChild (root : Option Rewrite) (c : Child) : Rewrite :=
  match root with
  | none =>
    match c with
    | .rewrite op cs => ⟨op, cs⟩
    | c => ⟨.or, [c]⟩
  | some r => ⟨r.op, r.children ++ [c]⟩

/-- The `for !p.fatal` loop of `parsePermissionExpressions(finalToken, depth)` with its
    loop variables `root`, `expectExpression`; `parseNotExpression` is inlined in the `!`
    case. The `depth <= 0` test at function entry is made at each of the call sites. -/
def exprLoop : Nat → ItemType → Nat → Option Rewrite → Bool → P → Option Rewrite × P
  | 0, _, _, _, _, p => (none, p.setPanic)
  | n+1, fin, depth, root, expect, p =>
    if p.fatal then (none, p) else
    let p := p.tick
    let item := p.peek
    if item.typ == .parenLeft then
      let p := p.next.2
      if depth - 1 == 0 then (none, p.addFatal p.peek .nestedTooDeep) else
      let r := exprLoop n .parenRight (depth - 1) none true p
      match r.1 with
      | none => (none, r.2)
      | some ch => exprLoop n fin depth (some (addChild root ch.toChild)) false r.2
    else if item.typ == fin then (root, p.next.2)
    else if item.typ == .braceRight then (root, p)
    else if item.typ == .opAnd || item.typ == .opOr then
      let p := p.next.2
      match root with
      | none => (none, p)
      | some r => exprLoop n fin depth (some ⟨if item.typ == .opAnd then .and else .or, [r.toChild]⟩) true p
    else if item.typ == .opNot then
      let p := p.next.2
      -- parseNotExpression(depth-1)
      if depth - 1 == 0 then (none, p.addFatal p.peek .nestedTooDeep)
      else if p.peek.typ == .parenLeft then
        let p := p.next.2
        if depth - 1 - 1 == 0 then
          -- the nested call fails at entry; its nil result, stored in the interface, is not nil
          exprLoop n fin depth (some (addChild root (.invert nilRewrite))) false (p.addFatal p.peek .nestedTooDeep)
        else
          let r := exprLoop n .parenRight (depth - 1 - 1) none true p
          let inner := match r.1 with
            | none => nilRewrite
            | some ch => ch.toChild
          exprLoop n fin depth (some (addChild root (.invert inner))) false r.2
      else
        let r := parsePermissionExpression p
        match r.1 with
        | none => (none, r.2)
        | some c => exprLoop n fin depth (some (addChild root (.invert c))) false r.2
    else if !expect then (none, p.addFatal item .unexpectedExpression)
    else
      let r := parsePermissionExpression p
      match r.1 with
      | none => (none, r.2)
      | some c => exprLoop n fin depth (some (addChild root c)) true r.2

/-- `p.parsePermissionExpressions(finalToken, depth)`. -/
def parsePermissionExpressions (fuel : Nat) (fin : ItemType) (depth : Nat) (p : P) : Option Rewrite × P :=
  if depth == 0 then (none, p.addFatal p.peek .nestedTooDeep) else exprLoop fuel fin depth none true p

def _root_.Keto.Child.isNilRewrite : Child → Bool
  | .rewrite .or [] => true
  | _ => false

mutual
/-- The new children of a rewrite with operator `op` (`simplifyExpression`): a non-nil
    child rewrite with the same operator is simplified and spliced in, anything else is
    copied. -/
def simplifyChildren (op : Op) : List Child → List Child
  | [] => []
  | c :: cs => simplifyChild op c ++ simplifyChildren op cs
def simplifyChild (op : Op) : Child → List Child
  | .rewrite op' cs' =>
    if op' == op && !(Child.isNilRewrite (.rewrite op' cs')) then simplifyChildren op cs' else [.rewrite op' cs']
  | c => [c]
end

/-- `simplifyExpression(root)`. -/
def simplifyExpression (root : Option Rewrite) : Option Rewrite :=
  match root with
  | none => none
  | some r => some ⟨r.op, simplifyChildren r.op r.children⟩

/-- `p.matchSubjectSet()`. -/
def matchSubjectSet (p : P) : RelType × P :=
  let r := p.mtch [.lit b!"<", .item, .lit b!",", .item, .lit b!">"]
  let ns := cap r.2.1 0
  let rel := cap r.2.1 1
  (⟨bstr ns.val, bstr rel.val⟩, r.2.2.addCheck (.nsHasRelation ns rel))

/-- `p.parseTypeUnion(endToken)`. -/
def parseTypeUnion (endTok : ItemType) : Nat → List RelType → P → List RelType × P
  | 0, types, p => (types, p.setPanic)
  | n+1, types, p =>
    if p.fatal then (types, p) else
    let r := p.tick.mtch [.item]
    let identifier := cap r.2.1 0
    let p := r.2.2
    let tp : List RelType × P :=
      if valIs identifier b!"SubjectSet" then
        let m := matchSubjectSet p
        (types ++ [m.1], m.2)
      else (types ++ [⟨bstr identifier.val, ""⟩], p.addCheck (.nsExists identifier))
    let nx := tp.2.next
    if nx.1.typ == endTok then (tp.1, nx.2)
    else if nx.1.typ == .typeUnion then parseTypeUnion endTok n tp.1 nx.2
    else parseTypeUnion endTok n tp.1 (nx.2.addFatal nx.1 .expectedUnion)

def P.addRelation (p : P) (r : Relation) : P :=
  { p with ns := { p.ns with relations := p.ns.relations ++ [r] } }

/-- The loop of `p.parseRelated()`. -/
def relatedLoop : Nat → P → P
  | 0, p => p.setPanic
  | n+1, p =>
    if p.fatal then p else
    let nx := p.tick.next
    let item := nx.1
    let p := nx.2
    if item.typ == .semicolon then relatedLoop n p
    else if item.typ == .braceRight then p
    else if item.typ == .identifier || item.typ == .stringLiteral then
      let relation := bstr item.val
      let p := (p.mtch [.lit b!":"]).2.2
      let nx := p.next
      let t := nx.1
      let p := nx.2
      if valIs t b!"Array" then
        let p := (p.mtch [.lit b!"<"]).2.2
        let tu := parseTypeUnion .angledRight n [] p
        relatedLoop n (tu.2.addRelation ⟨relation, tu.1, none⟩)
      else if valIs t b!"SubjectSet" then
        let m := matchSubjectSet p
        let p := (m.2.mtch [.lit b!"[", .lit b!"]", .opt [b!","]]).2.2
        relatedLoop n (p.addRelation ⟨relation, [m.1], none⟩)
      else if t.typ == .parenLeft then
        let tu := parseTypeUnion .parenRight n [] p
        let p := (tu.2.mtch [.lit b!"[", .lit b!"]", .opt [b!","]]).2.2
        relatedLoop n (p.addRelation ⟨relation, tu.1, none⟩)
      else
        let p := p.addCheck (.nsExists t)
        let p := (p.mtch [.lit b!"[", .lit b!"]", .opt [b!","]]).2.2
        relatedLoop n (p.addRelation ⟨relation, [⟨bstr t.val, ""⟩], none⟩)
    else p.addFatal item .expectedIdentOrBrace

/-- `p.parseRelated()`. -/
def parseRelated (fuel : Nat) (p : P) : P :=
  relatedLoop fuel (p.mtch [.lit b!":", .lit b!"{"]).2.2

/-- The loop of `p.parsePermits()`. -/
def permitsLoop : Nat → P → P
  | 0, p => p.setPanic
  | n+1, p =>
    if p.fatal then p else
    let nx := p.tick.next
    let item := nx.1
    let p := nx.2
    if item.typ == .braceRight then p
    else if item.typ == .identifier || item.typ == .stringLiteral then
      let permission := bstr item.val
      let p := (p.mtch [.lit b!":", .lit b!"(", .lit b!"ctx", .opt [b!":", b!"Context"], .lit b!")",
                        .opt [b!":", b!"boolean"], .lit b!"=>"]).2.2
      let r := parsePermissionExpressions n .opComma Keto.Facts.expressionNestingMaxDepth p
      match simplifyExpression r.1 with
      | none => r.2
      | some rw => permitsLoop n (r.2.addRelation ⟨permission, [], some rw⟩)
    else p.addFatal item .expectedIdentOrBrace

/-- `p.parsePermits()`. -/
def parsePermits (fuel : Nat) (p : P) : P :=
  permitsLoop fuel (p.mtch [.lit b!"=", .lit b!"{"]).2.2

/-- The loop of `p.parseClass()`. -/
def classLoop : Nat → P → P
  | 0, p => p.setPanic
  | n+1, p =>
    if p.fatal then p else
    let nx := p.tick.next
    let item := nx.1
    let p := nx.2
    if item.typ == .braceRight then { p with nss := p.nss ++ [p.ns] }
    else if valIs item b!"related" then classLoop n (parseRelated n p)
    else if valIs item b!"permits" then classLoop n (parsePermits n p)
    else if item.typ == .semicolon then classLoop n p
    else p.addFatal item .expectedPermitsOrRelated

/-- `p.parseClass()`. -/
def parseClass (fuel : Nat) (p : P) : P :=
  let r := p.mtch [.ident, .lit b!"implements", .lit b!"Namespace", .lit b!"{"]
  let name := bstr (cap r.2.1 0).val
  classLoop fuel { r.2.2 with ns := ⟨name, []⟩ }

/-- The loop of `p.parse()`. -/
def parseLoop : Nat → P → P
  | 0, p => p.setPanic
  | n+1, p =>
    if p.fatal then p else
    let nx := p.tick.next
    let item := nx.1
    let p := nx.2
    if item.typ == .eof then p
    else if item.typ == .error then parseLoop n (p.addFatal item (.fatalLex item.err))
    else if item.typ == .kwClass then parseLoop n (parseClass n p)
    else parseLoop n p

def isComment (i : Item) : Bool := i.typ == .comment

/-- The syntax phase of `Parse`: the parser state after the `for !p.fatal` loop of
    `p.parse()`, on the items of the lexer (`nextNonCommentItem` drops comments). -/
def parseItems (items : List Item) : P :=
  let toks := items.filter (fun i => !isComment i)
  parseLoop (toks.length + 2) { toks := toks }

/-! ### parse_errors.go -/

structure SrcPos where
  line : Nat
  col : Nat
  deriving DecidableEq, Repr, Inhabited

/-- The `for _, c := range input` loop of `toSrcPos`: `rest` is the input from the
    current rune on. `pos--; if pos <= 0 {break}` on the Go `int` is `pos ≤ 1` before the
    decrement. -/
def srcLoop : Nat → List UInt8 → Nat → Nat → Nat → SrcPos
  | 0, _, _, line, col => ⟨line, col⟩
  | n+1, rest, pos, line, col =>
    match rest with
    | [] => ⟨line, col⟩
    | _ :: _ =>
      let rw := decodeRuneL rest
      if pos ≤ 1 then ⟨line, col + 1⟩
      else if rw.1 == 10 then srcLoop n (rest.drop rw.2) (pos - 1) (line + 1) 0
      else srcLoop n (rest.drop rw.2) (pos - 1) line (col + 1)

/-- `e.toSrcPos(pos)`. -/
def toSrcPos (s : List UInt8) (pos : Nat) : SrcPos := srcLoop s.length s pos 1 0

/-- `len(strings.Split(input, "\n"))`. -/
def rowCount (s : List UInt8) : Nat := (s.filter (· == 10)).length + 1

/-- What `Error()` does with the rows of the input. -/
structure Rendered where
  panic : Bool           -- an index out of range
  metaError : Bool       -- "meta error: could not find source position in input"
  firstRow : Nat         -- rows[firstRow … lastRow] are printed
  lastRow : Nat
  deriving DecidableEq, Repr, Inhabited

/-- `e.Error()`: the index arithmetic on `rows`. Sites: `rows[line]` for
    `startLineIdx ≤ line ≤ errorLineIdx`, `rows[errorLineIdx]`; `rows[errorLineIdx+1]` is
    guarded in the code. -/
def renderError (s : List UInt8) (e : PErr) : Rendered :=
  let start := toSrcPos s e.start
  let rows := rowCount s
  let startLineIdx := start.line - 2      -- max(start.Line-2, 0)
  let errorLineIdx := start.line - 1      -- max(start.Line-1, 0)
  if rows < start.line then ⟨false, true, 0, 0⟩
  else if rows ≤ errorLineIdx then ⟨true, false, startLineIdx, errorLineIdx⟩
  else if errorLineIdx + 1 < rows then ⟨false, false, startLineIdx, errorLineIdx + 1⟩
  else ⟨false, false, startLineIdx, errorLineIdx⟩

end Keto.Opl
