/-
  Event-level model of `concurrentCheckgroup` (internal/check/checkgroup/
  concurrent_checkgroup.go): one consumer goroutine, the reserve token
  (`reserveCheckCh`, capacity 1), `addCheckCh`, `finalizeCh`, `resultCh`, the
  sub-context, and the drain goroutine started when the consumer returns.

  The adder is a single goroutine (every group of the engine is filled by the
  goroutine that constructed it). Checks are identified by their index in `Add`
  order; check `i` sends the scripted result `script i` exactly once when it runs to
  its end (premise of the no-leak theorem; the engine's check functions satisfy it
  after the repairs 4125a14 / 0f14e2f).
-/
import Keto.Model.Engine

namespace Keto.CG
open Keto

structure St where
  total : Nat := 0              -- totalChecks
  finished : Nat := 0           -- finishedChecks
  finalizing : Bool := false
  token : Bool := true          -- a reservation is available in reserveCheckCh
  holder : Bool := false        -- the adder took the token and is about to hand over a check
  nextAdd : Nat := 0            -- index of the next check the adder will add
  running : List Nat := []      -- started checks that have not sent their result yet
  done : Option Res := none     -- g.result once doneCh is closed
  drain : Nat := 0              -- results the drain goroutine will still receive
  dropped : Nat := 0            -- checks handed over while finalizing (never started)
  deriving Repr, Inhabited

inductive Ev where
  | reserve                     -- Add: `<-g.reserveCheckCh`
  | deliver                     -- consumer: `check := <-g.addCheckCh`
  | finalize                    -- consumer: `<-g.finalizeCh` (Result / CheckFunc called)
  | result (i : Nat)            -- consumer: `result := <-resultCh` from running check i
  | ctxDone                     -- consumer: `<-g.subcheckCtx.Done()` (parent context ended)
  | drainRecv (i : Nat)         -- after completion: drain goroutine receives from check i
  deriving Repr, DecidableEq, Inhabited

def ctxErr : Res := ⟨.unknown, some .ctx⟩

/-- Is the event enabled in the state? -/
def enabled (s : St) : Ev → Bool
  | .reserve => s.done.isNone && s.token && !s.holder
  | .deliver => s.done.isNone && s.holder
  | .finalize => s.done.isNone
  | .result i => s.done.isNone && s.running.contains i
  | .ctxDone => s.done.isNone
  | .drainRecv i => s.done.isSome && s.running.contains i && s.drain > 0

/-- Completion of the consumer: result is published, the sub-context is cancelled and
    a drain for `total - finished` results is started. -/
def complete (s : St) (r : Res) : St :=
  { s with done := some r, drain := s.total - s.finished }

def step (script : Nat → Res) (s : St) : Ev → St
  | .reserve => { s with token := false, holder := true }
  | .deliver =>
    if s.finalizing then { s with holder := false, nextAdd := s.nextAdd + 1, dropped := s.dropped + 1 }
    else { s with holder := false, nextAdd := s.nextAdd + 1, total := s.total + 1, running := s.running ++ [s.nextAdd] }
  | .finalize =>
    if s.finalizing then s
    else
      let s' := { s with finalizing := true }
      if s'.finished == s'.total then complete s' Res.nm else s'
  | .result i =>
    let s' := { s with finished := s.finished + 1, running := s.running.erase i }
    let r := script i
    if r.decisive then complete s' r
    else if s'.finalizing && s'.finished == s'.total then complete s' Res.nm
    else { s' with token := true }
  | .ctxDone => complete s ctxErr
  | .drainRecv i => { s with running := s.running.erase i, drain := s.drain - 1 }

/-- A run: every event is enabled when it happens. -/
def runFrom (script : Nat → Res) : St → List Ev → Option St
  | s, [] => some s
  | s, e :: es => if enabled s e then runFrom script (step script s e) es else none

def run (script : Nat → Res) (es : List Ev) : Option St := runFrom script {} es

/-- What the group must answer for the scripted results `rs` (no cancellation): the
    first decisive result in `Add` order, else `NotMember` — the sequential semantics
    used by the engine model (`gAdd` folded over the list). -/
def expected (rs : List Res) : Res := gResult (rs.foldl gAdd none)

end Keto.CG
