/-
  Common data types of the keto models (core Lean only).

  Names (namespaces, relations) are strings, objects and subject ids are natural
  numbers: the engine works on internal tuples whose objects are UUIDs; the harness
  numbers the distinct UUIDs of a case.
-/
namespace Keto

inductive Subject where
  | id (u : Nat)
  | set (ns : String) (obj : Nat) (rel : String)
  deriving DecidableEq, Repr, Inhabited

structure Tuple where
  ns : String
  obj : Nat
  rel : String
  sub : Subject
  deriving DecidableEq, Repr, Inhabited

inductive Op where
  | or | and
  deriving DecidableEq, Repr, Inhabited

/-- `ast.Child`: computed subject set, tuple-to-subject-set, nested rewrite, invert. -/
inductive Child where
  | computed (rel : String)
  | ttu (rel crel : String)
  | rewrite (op : Op) (cs : List Child)
  | invert (c : Child)
  deriving Repr, Inhabited

structure Rewrite where
  op : Op
  children : List Child
  deriving Repr, Inhabited

/-- `ast.RelationType`; `rel = ""` means a plain namespace type. -/
structure RelType where
  ns : String
  rel : String
  deriving DecidableEq, Repr, Inhabited

structure Relation where
  name : String
  types : List RelType
  rewrite : Option Rewrite
  deriving Repr, Inhabited

structure Namespace where
  name : String
  relations : List Relation
  deriving Repr, Inhabited

/-- The namespace configuration as the engine sees it (`namespace.Manager`). -/
abbrev Cfg := List Namespace

inductive Memb where
  | unknown | isMember | notMember
  deriving DecidableEq, Repr, Inhabited

inductive ErrKind where
  | storage | schema | ctx | diverged
  deriving DecidableEq, Repr, Inhabited

structure Res where
  memb : Memb
  err : Option ErrKind
  deriving DecidableEq, Repr, Inhabited

def Res.unk : Res := ⟨.unknown, none⟩
def Res.isM : Res := ⟨.isMember, none⟩
def Res.nm : Res := ⟨.notMember, none⟩
def Res.error (k : ErrKind) : Res := ⟨.unknown, some k⟩

/-- A result that ends a checkgroup / an `or`: an error or `IsMember`. -/
def Res.decisive (r : Res) : Bool := r.err.isSome || r.memb == .isMember

/-- Result of `namespace.ASTRelationFor`. -/
inductive Lookup where
  | none                  -- (nil, nil): no namespace / no config / empty relation
  | rel (r : Relation)
  | bad                   -- "relation does not exist"
  deriving Repr, Inhabited

def findNs (c : Cfg) (ns : String) : Option Namespace := c.find? (fun n => n.name == ns)

def findRel (n : Namespace) (rel : String) : Option Relation := n.relations.find? (fun r => r.name == rel)

/-- `namespace.ASTRelationFor` (definitions.go). -/
def astRelationFor (c : Cfg) (ns rel : String) : Lookup :=
  if rel == "" then .none else
  match findNs c ns with
  | none => .none
  | some n =>
    if n.relations.isEmpty then .none else
    match findRel n rel with
    | some r => .rel r
    | none => .bad

/-- `containsSubjectSetExpand` (engine.go). -/
def containsSubjectSetExpand (r : Relation) : Bool := r.types.any (fun t => t.rel != "")

end Keto
