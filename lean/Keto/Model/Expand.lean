/-
  Executable model of the expand engine (internal/expand/engine.go, `buildTreeRecursive`)
  as the code is:

  * the depth clamp (`restDepth <= 0 || global < restDepth ⇒ global`) at every level;
  * a subject id is a leaf;
  * `graph.CheckAndAddVisited` before anything else: one visited set for the whole
    request (the context of `BuildTree` carries none, so the first call creates it and
    every recursive call inherits it), an already visited subject set answers `nil`;
  * the page loop `do … while nextPage != ""` over `GetRelationTuples(ns, obj, rel)`:
    one storage call per page; an empty first page answers `nil`; `restDepth <= 1`
    answers a leaf for the subject set (a *depth cut*); otherwise the children of the
    page in storage order, a `nil` child becomes a leaf;
  * the keyset pagination of the persister hands out a next-page token only if a
    further row exists (`LIMIT n+1`), so a later page is never empty: `pagesOf`.

  Recursion is structural on a fuel argument; `Keto.C09_terminates` shows that fuel
  `effDepth r g` (at least 1) is never exhausted. Storage errors are not modelled: an
  error aborts the whole expansion with that error and no tree.
-/
import Keto.Model.Engine

namespace Keto

/-- `relationtuple.Tree` restricted to what the expand engine builds: `leaf` and `union`. -/
inductive Tree where
  | leaf (s : Subject)
  | union (s : Subject) (cs : List Tree)
  deriving Repr, Inhabited

structure XEnv where
  T : List Tuple            -- in storage (shard id) order
  g : Int                   -- limit.max_read_depth
  pageSize : Nat            -- page size of GetRelationTuples (default: Facts.defaultPageSize)

structure XState where
  visited : List VKey := []
  calls : Nat := 0          -- storage calls (GetRelationTuples)
  cuts : Nat := 0           -- non-empty subject sets returned as a leaf because restDepth <= 1
  oof : Bool := false       -- the model ran out of fuel (never, see C09_terminates)
  deriving Repr, Inhabited

def XState.visit (st : XState) (k : VKey) : XState := { st with visited := k :: st.visited }
def XState.call (st : XState) : XState := { st with calls := st.calls + 1 }
def XState.cut (st : XState) : XState := { st with cuts := st.cuts + 1 }
def XState.outOfFuel (st : XState) : XState := { st with oof := true }

/-- The rows of one page: every row's subject is expanded, a `nil` child becomes a leaf. -/
def childLoop (rec : Subject → XState → Option Tree × XState) :
    List Tuple → XState → List Tree × XState
  | [], st => ([], st)
  | t :: ts, st =>
    let r := rec t.sub st
    let rest := childLoop rec ts r.2
    (r.1.getD (.leaf t.sub) :: rest.1, rest.2)

/-- The page loop: one storage call per page, children appended page by page. -/
def pageLoop (rec : Subject → XState → Option Tree × XState) :
    List (List Tuple) → XState → List Tree × XState
  | [], st => ([], st)
  | p :: ps, st =>
    let r := childLoop rec p st.call
    let rest := pageLoop rec ps r.2
    (r.1 ++ rest.1, rest.2)

/-- `Engine.buildTreeRecursive`. -/
def expand (E : XEnv) : Nat → Int → Subject → XState → Option Tree × XState
  | 0, _, _, st => (none, st.outOfFuel)
  | fuel+1, rd, sub, st =>
    let d := effDepth rd E.g
    match sub with
    | .id u => (some (.leaf (.id u)), st)
    | .set n o r =>
      if st.visited.contains (n, o, r) then (none, st) else
      let st1 := st.visit (n, o, r)
      let rows := rowsOf E.T n o r
      if rows.isEmpty then (none, st1.call)
      else if d ≤ 1 then (some (.leaf (.set n o r)), st1.call.cut)
      else
        let pr := pageLoop (fun s st' => expand E fuel (d - 1) s st')
          (pagesOf E.pageSize rows.length rows) st1
        (some (.union (.set n o r) pr.1), pr.2)

/-- Fuel that is never exhausted (`C09_terminates`). -/
def expandFuel (r g : Int) : Nat := (effDepth r g).toNat + 1

/-- `Engine.BuildTree`: a fresh context, request depth `r`. -/
def buildTree (E : XEnv) (r : Int) (S : Subject) : Option Tree × XState :=
  expand E (expandFuel r E.g) r S {}

/-! ### functions over trees (structural `mutual` blocks: `Tree` is a nested inductive) -/

def Tree.subject : Tree → Subject
  | .leaf s => s
  | .union s _ => s

mutual
/-- Subjects of all nodes, root first. -/
def Tree.subjects : Tree → List Subject
  | .leaf s => [s]
  | .union s cs => s :: Tree.subjectsL cs
def Tree.subjectsL : List Tree → List Subject
  | [] => []
  | c :: cs => Tree.subjects c ++ Tree.subjectsL cs
end

/-- Subjects of all nodes below the root. -/
def Tree.descendants : Tree → List Subject
  | .leaf _ => []
  | .union _ cs => Tree.subjectsL cs

mutual
/-- Parent → child edges (subject of the parent, subject of the child). -/
def Tree.edges : Tree → List (Subject × Subject)
  | .leaf _ => []
  | .union s cs => Tree.edgesFrom s cs
def Tree.edgesFrom (p : Subject) : List Tree → List (Subject × Subject)
  | [] => []
  | c :: cs => (p, c.subject) :: (Tree.edges c ++ Tree.edgesFrom p cs)
end

mutual
/-- The subject sets that are the root of a `union` node. -/
def Tree.unionKeys : Tree → List VKey
  | .leaf _ => []
  | .union (.set n o r) cs => (n, o, r) :: Tree.unionKeysL cs
  | .union (.id _) cs => Tree.unionKeysL cs
def Tree.unionKeysL : List Tree → List VKey
  | [] => []
  | c :: cs => Tree.unionKeys c ++ Tree.unionKeysL cs
end

mutual
/-- Number of levels of the tree (a single node has height 1). -/
def Tree.height : Tree → Nat
  | .leaf _ => 1
  | .union _ cs => 1 + Tree.heightL cs
def Tree.heightL : List Tree → Nat
  | [] => 0
  | c :: cs => max (Tree.height c) (Tree.heightL cs)
end

end Keto
