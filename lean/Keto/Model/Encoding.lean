/-
  Executable model of the relationship encodings of `ketoapi` (core Lean only).

    ketoapi/enc_string.go      RelationTuple.String / FromString, SubjectSet.String / FromString
    ketoapi/enc_url_query.go   RelationQuery/RelationTuple.ToURLQuery / FromURLQuery, SubjectSet.FromURLQuery
    ketoapi/enc_proto.go       ToProto / FromProto / FromDataProvider (tuples and queries)
    ketoapi/public_api_definitions.go   the structs and their json tags

  Strings are `List Char` (sequences of Unicode scalar values = valid UTF-8 Go strings;
  the separators `: # @ ( )` are ASCII, so cutting and trimming on characters and on
  bytes coincide on this domain).  The model says what the code does today, including
  the error cases and the parenthesis trimming of `FromString`.

  Not modelled (exercised by the harness on the real code): `net/url` escaping
  (`Values.Encode`, `url.ParseQuery`), `encoding/json` and the protobuf wire format.
-/
namespace Keto.Enc

abbrev Str := List Char

/-- Error kinds (the harness maps the exported `ketoapi.Err…` values to these). -/
inductive Err where
  | malformed          -- ErrMalformedInput
  | droppedSubjectKey  -- ErrDroppedSubjectKey
  | duplicateSubject   -- ErrDuplicateSubject
  | incompleteSubject  -- ErrIncompleteSubject
  | nilSubject         -- ErrNilSubject
  | incompleteTuple    -- ErrIncompleteTuple
  | typeMismatch       -- json.UnmarshalTypeError
  | panic              -- nil pointer dereference
  deriving DecidableEq, Repr, Inhabited

inductive Res (α : Type) where
  | ok (a : α)
  | err (e : Err)
  deriving DecidableEq, Repr, Inhabited

/-! ## API types (`public_api_definitions.go`) -/

structure SubjectSet where
  ns : Str
  obj : Str
  rel : Str
  deriving DecidableEq, Repr, Inhabited

/-- `ketoapi.RelationTuple`: two nilable pointers for the subject, as in Go. -/
structure RelationTuple where
  ns : Str
  obj : Str
  rel : Str
  subjectID : Option Str
  subjectSet : Option SubjectSet
  deriving DecidableEq, Repr, Inhabited

/-- `ketoapi.RelationQuery`: every field is a nilable pointer. -/
structure RelationQuery where
  ns : Option Str
  obj : Option Str
  rel : Option Str
  subjectID : Option Str
  subjectSet : Option SubjectSet
  deriving DecidableEq, Repr, Inhabited

/-- Exactly one of `SubjectID`, `SubjectSet` is set. -/
def RelationTuple.oneSubject (t : RelationTuple) : Bool :=
  t.subjectID.isSome != t.subjectSet.isSome

/-- At most one of `SubjectID`, `SubjectSet` is set. -/
def RelationQuery.atMostOneSubject (q : RelationQuery) : Bool :=
  !(q.subjectID.isSome && q.subjectSet.isSome)

/-! ## `strings.Cut`, `strings.Contains`, `strings.Trim(s, "()")` -/

/-- `strings.Cut(s, sep)` for a one-character separator: `none` when `sep` does not occur
    (Go then returns `(s, "", false)`). -/
def cut (sep : Char) : Str → Option (Str × Str)
  | [] => none
  | c :: cs =>
    if c = sep then some ([], cs)
    else match cut sep cs with
      | none => none
      | some (a, b) => some (c :: a, b)

def contains (sep : Char) : Str → Bool
  | [] => false
  | c :: cs => c == sep || contains sep cs

def isParen (c : Char) : Bool := c == '(' || c == ')'

def trimLeft : Str → Str
  | [] => []
  | c :: cs => if isParen c then trimLeft cs else c :: cs

def trimRight : Str → Str
  | [] => []
  | c :: cs =>
    match trimRight cs with
    | [] => if isParen c then [] else [c]
    | r => c :: r

/-- `strings.Trim(s, "()")`. -/
def trimParens (s : Str) : Str := trimRight (trimLeft s)

def startsParen : Str → Bool
  | [] => false
  | c :: _ => isParen c

def endsParen : Str → Bool
  | [] => false
  | [c] => isParen c
  | _ :: c :: cs => endsParen (c :: cs)

/-! ## String form (`enc_string.go`) -/

/-- `(*SubjectSet).String`: the `#` is dropped when the relation is empty. -/
def SubjectSet.toStr (s : SubjectSet) : Str :=
  if s.rel = [] then s.ns ++ ':' :: s.obj
  else s.ns ++ ':' :: (s.obj ++ '#' :: s.rel)

/-- `(*SubjectSet).FromString`. -/
def SubjectSet.fromStr (str : Str) : Res SubjectSet :=
  let nsObj : Str := match cut '#' str with
    | none => str
    | some (a, _) => a
  let rel : Str := match cut '#' str with
    | none => []
    | some (_, b) => b
  match cut ':' nsObj with
  | none => .err .malformed
  | some (ns, obj) => .ok ⟨ns, obj, rel⟩

def noSubjectText : Str := ['<','E','R','R','O','R',':',' ','n','o',' ','s','u','b','j','e','c','t','>']

def RelationTuple.subjectStr (t : RelationTuple) : Str :=
  match t.subjectID, t.subjectSet with
  | some s, _ => s
  | none, some ss => ss.toStr
  | none, none => noSubjectText

/-- `(*RelationTuple).String` (non-nil receiver). -/
def RelationTuple.toStr (t : RelationTuple) : Str :=
  t.ns ++ ':' :: (t.obj ++ '#' :: (t.rel ++ '@' :: t.subjectStr))

/-- The subject part of `FromString`: trim parentheses, then subject set iff a `:` occurs. -/
def subjectFromStr (ns obj rel : Str) (subject : Str) : Res RelationTuple :=
  let s := trimParens subject
  if contains ':' s then
    match SubjectSet.fromStr s with
    | .err e => .err e
    | .ok ss => .ok ⟨ns, obj, rel, none, some ss⟩
  else .ok ⟨ns, obj, rel, some s, none⟩

/-- `(&RelationTuple{}).FromString`. -/
def RelationTuple.fromStr (s : Str) : Res RelationTuple :=
  match cut ':' s with
  | none => .err .malformed
  | some (ns, r1) =>
    match cut '#' r1 with
    | none => .err .malformed
    | some (obj, r2) =>
      match cut '@' r2 with
      | none => .err .malformed
      | some (rel, subject) => subjectFromStr ns obj rel subject

/-! ## URL query (`enc_url_query.go`) over an association-list model of `url.Values` -/

/-- `url.Values` restricted to what `Add` builds and `ParseQuery` returns: the list of
    (key, value) pairs in insertion order. `Get` is the first value of the key. -/
abbrev Values := List (Str × Str)

def Values.has (k : Str) : Values → Bool
  | [] => false
  | p :: r => p.1 == k || Values.has k r

def Values.get (k : Str) : Values → Str
  | [] => []
  | p :: r => if p.1 == k then p.2 else Values.get k r

def Values.add (v : Values) (k val : Str) : Values := v ++ [(k, val)]

def kNamespace : Str := ['n','a','m','e','s','p','a','c','e']
def kObject : Str := ['o','b','j','e','c','t']
def kRelation : Str := ['r','e','l','a','t','i','o','n']
def kSubjectID : Str := ['s','u','b','j','e','c','t','_','i','d']
def kSubjectSet : Str := ['s','u','b','j','e','c','t','_','s','e','t']
def kSSNamespace : Str := ['s','u','b','j','e','c','t','_','s','e','t','.','n','a','m','e','s','p','a','c','e']
def kSSObject : Str := ['s','u','b','j','e','c','t','_','s','e','t','.','o','b','j','e','c','t']
def kSSRelation : Str := ['s','u','b','j','e','c','t','_','s','e','t','.','r','e','l','a','t','i','o','n']
def kSubject : Str := ['s','u','b','j','e','c','t']

def optAdd (v : Values) (k : Str) : Option Str → Values
  | none => v
  | some x => v.add k x

/-- `(*RelationQuery).ToURLQuery`: namespace, relation, object, then the subject
    (subject id wins when both are set). -/
def RelationQuery.toURLQuery (q : RelationQuery) : Values :=
  let v : Values := []
  let v := optAdd v kNamespace q.ns
  let v := optAdd v kRelation q.rel
  let v := optAdd v kObject q.obj
  match q.subjectID, q.subjectSet with
  | some s, _ => v.add kSubjectID s
  | none, some ss => ((v.add kSSNamespace ss.ns).add kSSObject ss.obj).add kSSRelation ss.rel
  | none, none => v

def optGet (v : Values) (k : Str) : Option Str :=
  if v.has k then some (v.get k) else none

/-- `(*RelationQuery).FromURLQuery` on a fresh receiver. -/
def RelationQuery.fromURLQuery (v : Values) : Res RelationQuery :=
  if v.has kSubject then .err .droppedSubjectKey
  else
    let hid := v.has kSubjectID
    let hn := v.has kSSNamespace
    let ho := v.has kSSObject
    let hr := v.has kSSRelation
    let rest (sid : Option Str) (ss : Option SubjectSet) : Res RelationQuery :=
      .ok ⟨optGet v kNamespace, optGet v kObject, optGet v kRelation, sid, ss⟩
    if !hid && !hn && !ho && !hr then rest none none
    else if hid && (hn || ho || hr) then .err .duplicateSubject
    else if hid then rest (some (v.get kSubjectID)) none
    else if hn && ho && hr then
      rest none (some ⟨v.get kSSNamespace, v.get kSSObject, v.get kSSRelation⟩)
    else .err .incompleteSubject

/-- `(*RelationTuple).ToURLQuery`. -/
def RelationTuple.toURLQuery (t : RelationTuple) : Values :=
  RelationQuery.toURLQuery ⟨some t.ns, some t.obj, some t.rel, t.subjectID, t.subjectSet⟩

/-- `(*RelationTuple).FromURLQuery`. -/
def RelationTuple.fromURLQuery (v : Values) : Res RelationTuple :=
  match RelationQuery.fromURLQuery v with
  | .err e => .err e
  | .ok q =>
    if q.subjectID.isNone && q.subjectSet.isNone then .err .nilSubject
    else match q.ns, q.obj, q.rel with
      | some n, some o, some r => .ok ⟨n, o, r, q.subjectID, q.subjectSet⟩
      | _, _, _ => .err .incompleteTuple

/-- `(*SubjectSet).FromURLQuery`: plain `Get`s of namespace / relation / object. -/
def SubjectSet.fromURLQuery (v : Values) : SubjectSet :=
  ⟨v.get kNamespace, v.get kObject, v.get kRelation⟩

/-- `(*SubjectSet).ToURLQuery`. -/
def SubjectSet.toURLQuery (s : SubjectSet) : Values :=
  [(kNamespace, s.ns), (kObject, s.obj), (kRelation, s.rel)]

/-! ## Protobuf (`enc_proto.go`) over a small model of the messages -/

/-- The `ref` oneof of `rts.Subject`. `setNil` is `&Subject_Set{Set: nil}`, which only
    exists in memory (the wire format decodes an empty message instead). -/
inductive PRef where
  | id (s : Str)
  | set (ns obj rel : Str)
  | setNil
  deriving DecidableEq, Repr, Inhabited

/-- `*rts.Subject`: the message with an optional oneof. -/
structure PSubject where
  ref : Option PRef
  deriving DecidableEq, Repr, Inhabited

/-- `rts.RelationTuple`. -/
structure PTuple where
  ns : Str
  obj : Str
  rel : Str
  subject : Option PSubject
  deriving DecidableEq, Repr, Inhabited

/-- `rts.RelationQuery` (`optional string` fields). -/
structure PQuery where
  ns : Option Str
  obj : Option Str
  rel : Option Str
  subject : Option PSubject
  deriving DecidableEq, Repr, Inhabited

/-- `d.GetSubject().GetRef()` (nil-safe getters). -/
def PSubject.getRef : Option PSubject → Option PRef
  | none => none
  | some s => s.ref

/-- `(*RelationTuple).ToProto`: panics (nil dereference) when neither subject is set. -/
def RelationTuple.toProto (t : RelationTuple) : Res PTuple :=
  match t.subjectID, t.subjectSet with
  | some s, _ => .ok ⟨t.ns, t.obj, t.rel, some ⟨some (.id s)⟩⟩
  | none, some ss => .ok ⟨t.ns, t.obj, t.rel, some ⟨some (.set ss.ns ss.obj ss.rel)⟩⟩
  | none, none => .err .panic

/-- `(&RelationTuple{}).FromDataProvider`. -/
def RelationTuple.fromDataProvider (p : PTuple) : Res RelationTuple :=
  match PSubject.getRef p.subject with
  | none => .err .nilSubject
  | some (.id s) => .ok ⟨p.ns, p.obj, p.rel, some s, none⟩
  | some (.set n o r) => .ok ⟨p.ns, p.obj, p.rel, none, some ⟨n, o, r⟩⟩
  | some .setNil => .err .panic

/-- `(*RelationTuple).FromProto` (non-nil message): no error, a missing subject yields a
    tuple without subject. -/
def RelationTuple.fromProto (p : PTuple) : Res RelationTuple :=
  match PSubject.getRef p.subject with
  | none => .ok ⟨p.ns, p.obj, p.rel, none, none⟩
  | some (.id s) => .ok ⟨p.ns, p.obj, p.rel, some s, none⟩
  | some (.set n o r) => .ok ⟨p.ns, p.obj, p.rel, none, some ⟨n, o, r⟩⟩
  | some .setNil => .err .panic

/-- `(*RelationQuery).ToProto`. -/
def RelationQuery.toProto (q : RelationQuery) : PQuery :=
  match q.subjectID, q.subjectSet with
  | some s, _ => ⟨q.ns, q.obj, q.rel, some ⟨some (.id s)⟩⟩
  | none, some ss => ⟨q.ns, q.obj, q.rel, some ⟨some (.set ss.ns ss.obj ss.rel)⟩⟩
  | none, none => ⟨q.ns, q.obj, q.rel, none⟩

/-- `(*RelationQuery).FromDataProvider` through `queryWrapper` (read_server.go), whose
    getters return the optional fields as they are. -/
def RelationQuery.fromDataProvider (p : PQuery) : Res RelationQuery :=
  match PSubject.getRef p.subject with
  | none => .ok ⟨p.ns, p.obj, p.rel, none, none⟩
  | some (.id s) => .ok ⟨p.ns, p.obj, p.rel, some s, none⟩
  | some (.set n o r) => .ok ⟨p.ns, p.obj, p.rel, none, some ⟨n, o, r⟩⟩
  | some .setNil => .err .panic

/-! ## JSON: the struct ↔ object mapping given by the json tags -/

/-- A JSON value as far as these structs go: string, null, or an object whose members
    are strings / nulls / something else. -/
inductive JLeaf where
  | str (s : Str)
  | null
  | other            -- number, bool, array, object: a type mismatch for a string field
  deriving DecidableEq, Repr, Inhabited

inductive JVal where
  | leaf (l : JLeaf)
  | obj (fields : List (Str × JLeaf))
  deriving DecidableEq, Repr, Inhabited

abbrev JObj := List (Str × JVal)

def SubjectSet.toJSONFields (s : SubjectSet) : List (Str × JLeaf) :=
  [(kNamespace, .str s.ns), (kObject, .str s.obj), (kRelation, .str s.rel)]

def jOptStr : Option Str → JVal
  | none => .leaf .null
  | some s => .leaf (.str s)

def omitEmptyStr (k : Str) : Option Str → JObj
  | none => []
  | some s => [(k, .leaf (.str s))]

def omitEmptySet (k : Str) : Option SubjectSet → JObj
  | none => []
  | some ss => [(k, .obj ss.toJSONFields)]

/-- `json.Marshal(&RelationTuple{…})`: `subject_id` / `subject_set` have `omitempty`. -/
def RelationTuple.toJSON (t : RelationTuple) : JObj :=
  [(kNamespace, .leaf (.str t.ns)), (kObject, .leaf (.str t.obj)), (kRelation, .leaf (.str t.rel))]
    ++ omitEmptyStr kSubjectID t.subjectID ++ omitEmptySet kSubjectSet t.subjectSet

/-- `json.Marshal(&RelationQuery{…})`: namespace / object / relation are always emitted
    (`null` when nil). -/
def RelationQuery.toJSON (q : RelationQuery) : JObj :=
  [(kNamespace, jOptStr q.ns), (kObject, jOptStr q.obj), (kRelation, jOptStr q.rel)]
    ++ omitEmptyStr kSubjectID q.subjectID ++ omitEmptySet kSubjectSet q.subjectSet

/-- Decoding a member into a `string` field: `null` leaves the field alone. -/
def decStr (cur : Str) : JLeaf → Res Str
  | .str s => .ok s
  | .null => .ok cur
  | .other => .err .typeMismatch

/-- Decoding a member into a `*string` field: `null` sets the pointer to nil. -/
def decOptStr : JVal → Res (Option Str)
  | .leaf (.str s) => .ok (some s)
  | .leaf .null => .ok none
  | _ => .err .typeMismatch

/-- Decoding the members of an object into a `SubjectSet` struct, in order (a repeated
    key overwrites; keys are matched exactly here, `encoding/json` additionally accepts
    case-insensitive matches). -/
def SubjectSet.decFields (cur : SubjectSet) : List (Str × JLeaf) → Res SubjectSet
  | [] => .ok cur
  | (k, v) :: r =>
    if k = kNamespace then
      match decStr cur.ns v with
      | .err e => .err e
      | .ok s => SubjectSet.decFields { cur with ns := s } r
    else if k = kObject then
      match decStr cur.obj v with
      | .err e => .err e
      | .ok s => SubjectSet.decFields { cur with obj := s } r
    else if k = kRelation then
      match decStr cur.rel v with
      | .err e => .err e
      | .ok s => SubjectSet.decFields { cur with rel := s } r
    else SubjectSet.decFields cur r

/-- Decoding a member into a `*SubjectSet` field: `null` → nil; an object is decoded
    into the struct the pointer already points to (or a fresh one). -/
def decOptSet (cur : Option SubjectSet) : JVal → Res (Option SubjectSet)
  | .leaf .null => .ok none
  | .obj fs =>
    match SubjectSet.decFields (cur.getD ⟨[], [], []⟩) fs with
    | .err e => .err e
    | .ok ss => .ok (some ss)
  | _ => .err .typeMismatch

def decLeafStr (cur : Str) : JVal → Res Str
  | .leaf l => decStr cur l
  | .obj _ => .err .typeMismatch

/-- `json.Unmarshal(…, &RelationTuple{})` on an object. -/
def RelationTuple.decFields (cur : RelationTuple) : JObj → Res RelationTuple
  | [] => .ok cur
  | (k, v) :: r =>
    if k = kNamespace then
      match decLeafStr cur.ns v with
      | .err e => .err e
      | .ok s => RelationTuple.decFields { cur with ns := s } r
    else if k = kObject then
      match decLeafStr cur.obj v with
      | .err e => .err e
      | .ok s => RelationTuple.decFields { cur with obj := s } r
    else if k = kRelation then
      match decLeafStr cur.rel v with
      | .err e => .err e
      | .ok s => RelationTuple.decFields { cur with rel := s } r
    else if k = kSubjectID then
      match decOptStr v with
      | .err e => .err e
      | .ok s => RelationTuple.decFields { cur with subjectID := s } r
    else if k = kSubjectSet then
      match decOptSet cur.subjectSet v with
      | .err e => .err e
      | .ok s => RelationTuple.decFields { cur with subjectSet := s } r
    else RelationTuple.decFields cur r

def RelationTuple.fromJSON (o : JObj) : Res RelationTuple :=
  RelationTuple.decFields ⟨[], [], [], none, none⟩ o

/-- `json.Unmarshal(…, &RelationQuery{})` on an object. -/
def RelationQuery.decFields (cur : RelationQuery) : JObj → Res RelationQuery
  | [] => .ok cur
  | (k, v) :: r =>
    if k = kNamespace then
      match decOptStr v with
      | .err e => .err e
      | .ok s => RelationQuery.decFields { cur with ns := s } r
    else if k = kObject then
      match decOptStr v with
      | .err e => .err e
      | .ok s => RelationQuery.decFields { cur with obj := s } r
    else if k = kRelation then
      match decOptStr v with
      | .err e => .err e
      | .ok s => RelationQuery.decFields { cur with rel := s } r
    else if k = kSubjectID then
      match decOptStr v with
      | .err e => .err e
      | .ok s => RelationQuery.decFields { cur with subjectID := s } r
    else if k = kSubjectSet then
      match decOptSet cur.subjectSet v with
      | .err e => .err e
      | .ok s => RelationQuery.decFields { cur with subjectSet := s } r
    else RelationQuery.decFields cur r

def RelationQuery.fromJSON (o : JObj) : Res RelationQuery :=
  RelationQuery.decFields ⟨none, none, none, none, none⟩ o

/-! ## Domains of the string form -/

/-- The documented domain of the string form: the fields avoid the separators where
    they are significant. -/
def DomSubjectID (s : Str) : Bool :=
  !contains ':' s && !startsParen s && !endsParen s

def DomSubjectSet (ss : SubjectSet) : Bool :=
  !contains ':' ss.ns && !contains '#' ss.ns && !startsParen ss.ns &&
  !contains '#' ss.obj &&
  (if ss.rel = [] then !endsParen ss.obj else !endsParen ss.rel)

def DomString (t : RelationTuple) : Bool :=
  !contains ':' t.ns && !contains '#' t.obj && !contains '@' t.rel &&
  (match t.subjectID, t.subjectSet with
   | some s, none => DomSubjectID s
   | none, some ss => DomSubjectSet ss
   | _, _ => false)

/-- The class of the recorded finding: a subject set with empty relation whose object
    ends with a parenthesis. -/
def TrimClass (t : RelationTuple) : Bool :=
  match t.subjectSet with
  | some ss => ss.rel = [] && endsParen ss.obj
  | none => false

end Keto.Enc
