/-
  The expand engine (internal/expand/engine.go, `buildTreeRecursive`) under storage faults.

  `Keto.expand` (Keto/Model/Expand.lean) does not model storage errors. Here every storage
  call (`GetRelationTuples`, one per page) first consults a fault oracle
  `fails : Nat → Bool` on the index of the call about to be issued (`XState.calls`: the
  calls of one request are numbered 0, 1, 2, … in the order they are issued). A failing
  call is still counted, and, as in the code

      rels, nextPage, err = GetRelationTuples(ctx, query, WithToken(nextPage))
      if err != nil { return nil, err }
      …
      child, err := e.buildTreeRecursive(ctx, r.Subject, restDepth-1)
      if err != nil { return nil, err }

  the error propagates outward immediately: the remaining rows and pages are not
  processed and no tree is returned. Everything else (fuel, visited set, calls, cuts) is
  `Keto.expand` verbatim, so that with an oracle that never fires the two coincide
  (`Keto.expandF_nofault`).
-/
import Keto.Model.Expand

namespace Keto

/-- The answer of `buildTreeRecursive`: `(nil, err)` or `(tree or nil, nil)`. -/
inductive XRes where
  | err
  | ok (t : Option Tree)
  deriving Repr, Inhabited

def XRes.isErr : XRes → Bool
  | .err => true
  | .ok _ => false

/-- The rows of one page; `none` = a recursive call failed (the rows after it are not expanded). -/
def childLoopF (rec : Subject → XState → XRes × XState) :
    List Tuple → XState → Option (List Tree) × XState
  | [], st => (some [], st)
  | t :: ts, st =>
    let r := rec t.sub st
    match r.1 with
    | .err => (none, r.2)
    | .ok c =>
      let rest := childLoopF rec ts r.2
      match rest.1 with
      | none => (none, rest.2)
      | some cs => (some (c.getD (.leaf t.sub) :: cs), rest.2)

/-- The page loop; `none` = the storage call of a page, or a recursive call, failed. -/
def pageLoopF (fails : Nat → Bool) (rec : Subject → XState → XRes × XState) :
    List (List Tuple) → XState → Option (List Tree) × XState
  | [], st => (some [], st)
  | p :: ps, st =>
    if fails st.calls then (none, st.call) else
    let r := childLoopF rec p st.call
    match r.1 with
    | none => (none, r.2)
    | some cs =>
      let rest := pageLoopF fails rec ps r.2
      match rest.1 with
      | none => (none, rest.2)
      | some cs' => (some (cs ++ cs'), rest.2)

/-- `Engine.buildTreeRecursive` with the storage call number `i` failing iff `fails i`. -/
def expandF (E : XEnv) (fails : Nat → Bool) : Nat → Int → Subject → XState → XRes × XState
  | 0, _, _, st => (.ok none, st.outOfFuel)
  | fuel+1, rd, sub, st =>
    let d := effDepth rd E.g
    match sub with
    | .id u => (.ok (some (.leaf (.id u))), st)
    | .set n o r =>
      if st.visited.contains (n, o, r) then (.ok none, st) else
      let st1 := st.visit (n, o, r)
      let rows := rowsOf E.T n o r
      if rows.isEmpty then
        if fails st1.calls then (.err, st1.call) else (.ok none, st1.call)
      else if d ≤ 1 then
        if fails st1.calls then (.err, st1.call) else (.ok (some (.leaf (.set n o r))), st1.call.cut)
      else
        let pr := pageLoopF fails (fun s st' => expandF E fails fuel (d - 1) s st')
          (pagesOf E.pageSize rows.length rows) st1
        match pr.1 with
        | none => (.err, pr.2)
        | some cs => (.ok (some (.union (.set n o r) cs)), pr.2)

/-- `Engine.BuildTree` under the fault oracle: a fresh context, request depth `r`. -/
def buildTreeF (E : XEnv) (fails : Nat → Bool) (r : Int) (S : Subject) : XRes × XState :=
  expandF E fails (expandFuel r E.g) r S {}

/-- For `k = 0 … n-1`: does the expansion fail when exactly the storage call number `k` fails? -/
def faultColumn (E : XEnv) (r : Int) (S : Subject) (n : Nat) : List Bool :=
  (List.range n).map fun k => (buildTreeF E (fun i => i == k) r S).1.isErr

end Keto
