/-
  Models of the two namespace watchers (internal/driver/config):
  * the legacy watcher (namespace_watcher.go): one namespace per .json/.yaml/.toml
    file, last successfully parsed namespace kept per file;
  * the OPL watcher (opl_config_namespace_watcher.go, after repair af642fb): the
    latest content of every file is kept; every event re-parses all files and
    replaces the visible set only if no file has an error.
  File contents are abstract (`Content`); `parse` is a parameter: `none` = does not
  parse / type-check, `some nss` = the namespaces the content declares.
-/
namespace Keto.W

abbrev Content := Nat
abbrev Parse := Content → Option (List String)

inductive Ev where
  | change (path : String) (c : Content)
  | remove (path : String)
  deriving Repr, DecidableEq, Inhabited

/-! ### association lists keyed by path -/

def put {α} (k : String) (v : α) : List (String × α) → List (String × α)
  | [] => [(k, v)]
  | (k', v') :: rest => if k' == k then (k, v) :: rest else (k', v') :: put k v rest

def get {α} (k : String) : List (String × α) → Option α
  | [] => none
  | (k', v') :: rest => if k' == k then some v' else get k rest

def del {α} (k : String) : List (String × α) → List (String × α)
  | [] => []
  | (k', v') :: rest => if k' == k then rest else (k', v') :: del k rest

/-! ### legacy watcher -/

structure LFile where
  contents : Content
  good : Option (List String)      -- last successfully parsed namespace(s) of this file
  deriving Repr, DecidableEq, Inhabited

abbrev LState := List (String × LFile)

def lstep (parse : Parse) (s : LState) : Ev → LState
  | .remove p => del p s
  | .change p c =>
    match parse c with
    | some nss => put p ⟨c, some nss⟩ s
    | none =>
      match get p s with
      | some old => put p ⟨c, old.good⟩ s      -- parse failed: keep the previous working version
      | none => put p ⟨c, none⟩ s

def lrun (parse : Parse) (es : List Ev) : LState := es.foldl (lstep parse) []

/-- Namespaces visible for a file. -/
def lvisible (s : LState) (p : String) : Option (List String) := (get p s).bind (·.good)

/-- All visible namespaces. -/
def lall (s : LState) : List String := s.flatMap fun f => f.2.good.getD []

/-! ### OPL watcher -/

structure OState where
  files : List (String × Content) := []
  visible : List (String × List String) := []     -- per file, as of the last successful `set`
  deriving Repr, DecidableEq, Inhabited

def parseAll (parse : Parse) : List (String × Content) → Option (List (String × List String))
  | [] => some []
  | (p, c) :: rest =>
    match parse c, parseAll parse rest with
    | some nss, some more => some ((p, nss) :: more)
    | _, _ => none

def ostep (parse : Parse) (s : OState) (e : Ev) : OState :=
  let files := match e with
    | .change p c => put p c s.files
    | .remove p => del p s.files
  match parseAll parse files with
  | some vis => { files := files, visible := vis }
  | none => { files := files, visible := s.visible }   -- errors: keep what is visible

def orun (parse : Parse) (es : List Ev) : OState := es.foldl (ostep parse) {}

def oall (s : OState) : List String := s.visible.flatMap (·.2)

/-! ### specification helpers -/

/-- The last content written to `p` (ignoring removes) that parses, if any. -/
def lastValid (parse : Parse) (p : String) : List Ev → Option (List String)
  | [] => none
  | e :: es =>
    match lastValid parse p es with
    | some nss => some nss
    | none =>
      match e with
      | .change p' c => if p' == p then parse c else none
      | .remove _ => none

/-- No file is ever removed (removal is outside the property's quantifier). -/
def noRemove : List Ev → Bool
  | [] => true
  | .remove _ :: _ => false
  | .change _ _ :: es => noRemove es

/-- What one event does to "the last valid version of `p` since `p` was last removed". -/
def sinceStep (parse : Parse) (p : String) (acc : Option (List String)) : Ev → Option (List String)
  | .remove p' => if p' == p then none else acc
  | .change p' c =>
    if p' == p then
      match parse c with
      | some nss => some nss
      | none => acc
    else acc

/-- What is visible for file `p`: the last valid version written to `p` since `p` was last removed. -/
def lastValidSinceRemove (parse : Parse) (p : String) (es : List Ev) : Option (List String) :=
  es.foldl (sinceStep parse p) none

/-! ### configuration reloads

  `Config.watcher` (provider.go) asks the current namespace manager `ShouldReload(newValue)` after every
  hot reload of the main configuration. Both watchers answer `false` when the configured target is
  unchanged (the watcher object and everything it remembers is kept) and `true` when it changed (the
  manager is dropped; the next request builds a new watcher from nothing). -/

inductive CEv where
  | file (e : Ev)                       -- a file-system event seen by the watcher
  | reload (sameTarget : Bool)          -- Config.watcher after a hot reload: ShouldReload = !sameTarget
  deriving Repr, DecidableEq, Inhabited

def lstepC (parse : Parse) (s : LState) : CEv → LState
  | .file e => lstep parse s e
  | .reload true => s                   -- target unchanged: the watcher (and its last good versions) is kept
  | .reload false => []                 -- target changed: a new watcher starts from nothing

def lrunC (parse : Parse) (es : List CEv) : LState := es.foldl (lstepC parse) []

def ostepC (parse : Parse) (s : OState) : CEv → OState
  | .file e => ostep parse s e
  | .reload true => s
  | .reload false => {}

def orunC (parse : Parse) (es : List CEv) : OState := es.foldl (ostepC parse) {}

/-- The file-system events of a history, in order. -/
def fileEvents : List CEv → List Ev
  | [] => []
  | .file e :: es => e :: fileEvents es
  | .reload _ :: es => fileEvents es

/-- Every configuration reload in the history left the namespace target unchanged. -/
def unrelatedOnly : List CEv → Bool
  | [] => true
  | .file _ :: es => unrelatedOnly es
  | .reload true :: es => unrelatedOnly es
  | .reload false :: _ => false

end Keto.W
