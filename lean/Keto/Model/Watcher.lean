/-
  Models of the two namespace watchers (internal/driver/config):
  * the legacy watcher (namespace_watcher.go): one namespace per .json/.yaml/.toml
    file, last successfully parsed namespace kept per file;
  * the OPL watcher (opl_config_namespace_watcher.go, after repair af642fb): the
    latest content of every file is kept; every event re-parses all files and
    replaces the visible set only if no file has an error.
  File contents are abstract (`Content`); `parse` is a parameter: `none` = does not
  parse / type-check, `some nss` = the namespaces the content declares.
-/
namespace Keto.W

abbrev Content := Nat
abbrev Parse := Content → Option (List String)

inductive Ev where
  | change (path : String) (c : Content)
  | remove (path : String)
  deriving Repr, DecidableEq, Inhabited

/-! ### association lists keyed by path -/

def put {α} (k : String) (v : α) : List (String × α) → List (String × α)
  | [] => [(k, v)]
  | (k', v') :: rest => if k' == k then (k, v) :: rest else (k', v') :: put k v rest

def get {α} (k : String) : List (String × α) → Option α
  | [] => none
  | (k', v') :: rest => if k' == k then some v' else get k rest

def del {α} (k : String) : List (String × α) → List (String × α)
  | [] => []
  | (k', v') :: rest => if k' == k then rest else (k', v') :: del k rest

/-! ### legacy watcher -/

structure LFile where
  contents : Content
  good : Option (List String)      -- last successfully parsed namespace(s) of this file
  deriving Repr, DecidableEq, Inhabited

abbrev LState := List (String × LFile)

def lstep (parse : Parse) (s : LState) : Ev → LState
  | .remove p => del p s
  | .change p c =>
    match parse c with
    | some nss => put p ⟨c, some nss⟩ s
    | none =>
      match get p s with
      | some old => put p ⟨c, old.good⟩ s      -- parse failed: keep the previous working version
      | none => put p ⟨c, none⟩ s

def lrun (parse : Parse) (es : List Ev) : LState := es.foldl (lstep parse) []

/-- Namespaces visible for a file. -/
def lvisible (s : LState) (p : String) : Option (List String) := (get p s).bind (·.good)

/-- All visible namespaces. -/
def lall (s : LState) : List String := s.flatMap fun f => f.2.good.getD []

/-! ### OPL watcher -/

structure OState where
  files : List (String × Content) := []
  visible : List (String × List String) := []     -- per file, as of the last successful `set`
  deriving Repr, DecidableEq, Inhabited

def parseAll (parse : Parse) : List (String × Content) → Option (List (String × List String))
  | [] => some []
  | (p, c) :: rest =>
    match parse c, parseAll parse rest with
    | some nss, some more => some ((p, nss) :: more)
    | _, _ => none

def ostep (parse : Parse) (s : OState) (e : Ev) : OState :=
  let files := match e with
    | .change p c => put p c s.files
    | .remove p => del p s.files
  match parseAll parse files with
  | some vis => { files := files, visible := vis }
  | none => { files := files, visible := s.visible }   -- errors: keep what is visible

def orun (parse : Parse) (es : List Ev) : OState := es.foldl (ostep parse) {}

def oall (s : OState) : List String := s.visible.flatMap (·.2)

/-! ### specification helpers -/

/-- The last content written to `p` (ignoring removes) that parses, if any. -/
def lastValid (parse : Parse) (p : String) : List Ev → Option (List String)
  | [] => none
  | e :: es =>
    match lastValid parse p es with
    | some nss => some nss
    | none =>
      match e with
      | .change p' c => if p' == p then parse c else none
      | .remove _ => none

/-- No file is ever removed (removal is outside the property's quantifier). -/
def noRemove : List Ev → Bool
  | [] => true
  | .remove _ :: _ => false
  | .change _ _ :: es => noRemove es

end Keto.W
