/-
  Executable model of the deferred type checks of the OPL parser
  (internal/schema/typechecks.go) and of `Parse` as a whole. Core Lean only.

  The checks are closures in Go; the parser model records them as data
  (`Keto.Opl.TypeCheck`) and `runCheck` is what calling the closure does. They run, in the
  order they were added, only if the syntax phase produced no error (`p.parse()`), over the
  namespaces parsed so far. `steps` counts every call of
  `recursiveCheckAllRelationsTypesHaveRelation`, every iteration of its loop over the types
  and every other check.
-/
import Keto.Model.Parser

namespace Keto.Opl
open Keto

/-- `namespaceQuery.find`. -/
def findNsT (nss : List Namespace) (name : String) : Option Namespace :=
  nss.find? (fun n => n.name == name)

/-- `relationQuery.find`. -/
def findRelT (rs : List Relation) (name : String) : Option Relation :=
  rs.find? (fun r => r.name == name)

/-- `namespaceQuery.findRelation`. -/
def findRelationT (nss : List Namespace) (ns rel : String) : Option Relation :=
  match findNsT nss ns with
  | none => none
  | some n => findRelT n.relations rel

/-- Errors (latest first) and the step counter of the type-check phase. -/
structure TC where
  errors : List PErr := []
  steps : Nat := 0
  deriving Repr, Inhabited

def TC.tick (t : TC) : TC := { t with steps := t.steps + 1 }
def TC.err (t : TC) (i : Item) (k : ErrKind) : TC := { t with errors := ⟨k, i.start, i.stop⟩ :: t.errors }

/-- The `for _, t := range r.Types` loop of `recursiveCheckAllRelationsTypesHaveRelation`;
    `rec` is the recursive call with `depth-1`. -/
def typesLoop (rec : String → String → TC → TC) (nss : List Namespace) (item : Item) (relation : String) :
    List RelType → TC → TC
  | [], tc => tc
  | t :: ts, tc =>
    let tc := tc.tick
    let tc :=
      if t.rel == "" then
        (if (findRelationT nss t.ns relation).isNone then tc.err item .relNotDeclared else tc)
      else rec t.ns t.rel tc
    typesLoop rec nss item relation ts tc

/-- `recursiveCheckAllRelationsTypesHaveRelation(p, item, namespace, relationType, relation, depth)`
    with `k = depth + 1` (`k = 0` is `depth < 0`). No memoisation: see
    `C12_typecheck_exponential_counterexample`. -/
def recCheck (nss : List Namespace) (item : Item) (relation : String) : Nat → String → String → TC → TC
  | 0, _, _, tc => tc.tick.err item .tcTooDeep
  | k+1, ns, relType, tc =>
    let tc := tc.tick
    match findRelationT nss ns relType with
    | none => tc.err item .relNotDeclared
    | some r => typesLoop (recCheck nss item relation k) nss item relation r.types tc

/-- Calling one deferred check. -/
def runCheck (nss : List Namespace) (c : TypeCheck) (tc : TC) : TC :=
  let tc := tc.tick
  match c with
  | .nsExists ns =>
    if (findNsT nss (bstr ns.val)).isSome then tc else tc.err ns .nsNotDeclared
  | .nsHasRelation ns rel =>
    match findNsT nss (bstr ns.val) with
    | some n => if (findRelT n.relations (bstr rel.val)).isSome then tc else tc.err rel .nsNoRelation
    | none => tc.err ns .nsNotDeclared
  | .curNsHasRelation cur rel =>
    match findNsT nss cur with
    | some n => if (findRelT n.relations (bstr rel.val)).isSome then tc else tc.err rel .nsNoRelation
    | none => tc.err rel .nsNotDeclared
  | .allTypesHaveRelation cur relType rel =>
    recCheck nss relType rel (Keto.Facts.tupleToSubjectSetTypeCheckMaxDepth + 1) cur (bstr relType.val) tc

/-- `p.typeCheck()`. -/
def typeCheck (nss : List Namespace) : List TypeCheck → TC → TC
  | [], tc => tc
  | c :: cs, tc => typeCheck nss cs (runCheck nss c tc)

/-- What `schema.Parse` returns, plus the model's counters. `namespaces` is what the Go
    function returns as first value; it is meaningful to callers only when `errors = []`. -/
structure ParseResult where
  namespaces : List Namespace
  errors : List PErr          -- in the order of `p.errors`
  nItems : Nat                -- items the lexer produced (comments included)
  lexSteps : Nat
  parseSteps : Nat
  tcSteps : Nat
  panic : Bool
  deriving Repr, Inhabited

/-- `schema.Parse(input)`. -/
def parse (s : List UInt8) : ParseResult :=
  let lr := lex s.toArray
  let p := parseItems lr.items
  if p.errors.isEmpty then
    let tc := typeCheck p.nss p.checks.reverse {}
    ⟨p.nss, tc.errors.reverse, lr.items.length, lr.steps, p.steps, tc.steps, lr.panic || p.panic⟩
  else
    ⟨p.nss, p.errors.reverse, lr.items.length, lr.steps, p.steps, 0, lr.panic || p.panic⟩

end Keto.Opl
