/-
  Executable model of the permission engine (internal/check: engine.go, rewrites.go,
  binop.go) under the sequential checkgroup (children of a group run to completion
  in `Add` order; a group that already has a decisive result ignores further `Add`s).

  What the Go code does is split in two phases, exactly as the code is:
  * construction (`build`): `checkIsAllowed` is evaluated *eagerly* while the check is
    being constructed; so is every computed-subject-set child of an `and`/`!`.
  * running a `CheckFunc` (`Thunk`): tuple-to-subject-set, the union shortcut,
    expansions, `or`/`and` loops.

  `Ctx` is what the Go `context` carries (the reference to the visited set);
  `World` is the mutable part (heap of visited sets, storage-call counter used by the
  fault oracle, limit events).
-/
import Keto.Model.Data

namespace Keto

abbrev VKey := String × Nat × String

structure World where
  heap : List (List VKey) := []
  calls : Nat := 0
  limitHits : Nat := 0
  deriving Repr, Inhabited

structure Ctx where
  vref : Option Nat := none
  deriving Repr, Inhabited

structure Env where
  cfg : Cfg                 -- namespaces
  strict : Bool             -- namespaces.experimental_strict_mode
  maxWidth : Nat            -- limit.max_read_width
  T : List Tuple            -- in storage (shard id) order
  fails : Nat → Bool        -- the k-th storage call (1-based) fails
  pageSize : Nat            -- page size of the tuple-to-subject-set listing

abbrev Thunk := Ctx → World → Res × World

def constT (r : Res) : Thunk := fun _ w => (r, w)

def World.lim (w : World) : World := { w with limitHits := w.limitHits + 1 }

/-- One storage call: bump the counter, ask the fault oracle. -/
def World.call (E : Env) (w : World) : Bool × World :=
  (E.fails (w.calls + 1), { w with calls := w.calls + 1 })

/-- `graph.WithFreshVisited`. -/
def fresh (w : World) : Ctx × World :=
  (⟨some w.heap.length⟩, { w with heap := w.heap ++ [[]] })

/-- `graph.InitVisited`. -/
def initVisited (ctx : Ctx) (w : World) : Ctx × World :=
  match ctx.vref with
  | some _ => (ctx, w)
  | none => fresh w

/-- `graph.CheckAndAddVisited` on the set the context refers to. -/
def checkAndAdd (ctx : Ctx) (k : VKey) (w : World) : Bool × World :=
  let ref := ctx.vref.getD 0
  let v := w.heap.getD ref []
  if v.contains k then (true, w)
  else (false, { w with heap := w.heap.set ref (k :: v) })

/-- Adding a finished result to a sequential checkgroup (`none` = undecided). -/
def gAdd (g : Option Res) (r : Res) : Option Res :=
  match g with
  | some x => some x
  | none => if r.decisive then some r else none

/-- `g.Add(check)` for a check that does its work when it is run. -/
def gAddT (g : Option Res) (th : Thunk) (ctx : Ctx) (w : World) : Option Res × World :=
  match g with
  | some x => (some x, w)
  | none => let rw := th ctx w; (gAdd none rw.1, rw.2)

def gResult (g : Option Res) : Res := g.getD Res.nm

def runB (bw : Thunk × World) (ctx : Ctx) : Res × World := bw.1 ctx bw.2

/-! ### storage queries -/

def subjectSetsOf (T : List Tuple) (ns : String) (obj : Nat) (rel : String) : List VKey :=
  T.filterMap fun t =>
    if t.ns == ns && t.obj == obj && t.rel == rel then
      match t.sub with
      | .set n o r => some (n, o, r)
      | .id _ => none
    else none

def rowsOf (T : List Tuple) (ns : String) (obj : Nat) (rel : String) : List Tuple :=
  T.filter fun t => t.ns == ns && t.obj == obj && t.rel == rel

/-- Keyset pages of `GetRelationTuples`: at least one page; a further page exists
    iff rows remain after the current one. -/
def pagesOf (ps : Nat) : Nat → List Tuple → List (List Tuple)
  | 0, rows => [rows]
  | fuel+1, rows =>
    if rows.length ≤ ps ∨ ps = 0 then [rows]
    else rows.take ps :: pagesOf ps fuel (rows.drop ps)

def hasRewriteRel (c : Cfg) (ns rel : String) : Bool :=
  match astRelationFor c ns rel with
  | .rel r => r.rewrite.isSome
  | _ => false

def Child.isComputed : Child → Bool
  | .computed _ => true
  | _ => false

def computedRels : List Child → List String
  | [] => []
  | .computed r :: cs => r :: computedRels cs
  | _ :: cs => computedRels cs

/-- `checkInverted`'s result handling (after the repair: an error is passed on
    without a membership). -/
def invertRes (r : Res) : Res :=
  match r.err with
  | some e => ⟨.unknown, some e⟩
  | none =>
    match r.memb with
    | .isMember => ⟨.notMember, none⟩
    | .notMember => ⟨.isMember, none⟩
    | .unknown => r

/-! ### loops -/

/-- `or` (binop.go). -/
def orRun : List Thunk → Ctx → World → Res × World
  | [], _, w => (Res.nm, w)
  | th :: ths, c, w =>
    let rw := th c w
    if rw.1.decisive then rw else orRun ths c rw.2

def andLoop : List Thunk → Ctx → World → Res × World
  | [], _, w => (Res.isM, w)
  | th :: ths, c, w =>
    let rw := th c w
    if rw.1.err.isSome || rw.1.memb != .isMember then (⟨.notMember, rw.1.err⟩, rw.2)
    else andLoop ths c rw.2

/-- `and` (binop.go). -/
def andRun (ths : List Thunk) (c : Ctx) (w : World) : Res × World :=
  if ths.isEmpty then (Res.nm, w) else andLoop ths c w

def opRun (op : Op) (ths : List Thunk) : Thunk :=
  match op with
  | .or => orRun ths
  | .and => andRun ths

/-- `withFreshVisited` (rewrites.go). -/
def withFresh (th : Thunk) : Thunk := fun _ w => let cw := fresh w; th cw.1 cw.2

/-- The loop of `checkExpandSubject` over the subject sets of one expansion: every
    not yet visited subject set is evaluated eagerly (also when the group is already
    decided), then added. -/
def expandLoop (rec : Tuple → Ctx → World → Res × World) (sub : Subject) :
    List VKey → Option Res → Ctx → World → Option Res × World
  | [], g, _, w => (g, w)
  | s :: ss, g, c, w =>
    let vw := checkAndAdd c s w
    if vw.1 then expandLoop rec sub ss g c vw.2
    else
      let rw := rec ⟨s.1, s.2.1, s.2.2, sub⟩ c vw.2
      expandLoop rec sub ss (gAdd g rw.1) c rw.2

/-- The candidates loop of the union shortcut (`checkSubjectSetRewrite`). -/
def relLoop (rec : String → Ctx → World → Res × World) :
    List String → Option Res → Ctx → World → Option Res × World
  | [], g, _, w => (g, w)
  | r :: rs, g, c, w =>
    let rw := rec r c w
    relLoop rec rs (gAdd g rw.1) c rw.2

/-- Rows of one page of the tuple-to-subject-set listing. -/
def ttuRows (rec : VKey → Ctx → World → Res × World) :
    List Tuple → Option Res → Ctx → World → Option Res × World
  | [], g, _, w => (g, w)
  | t :: ts, g, c, w =>
    match t.sub with
    | .set n o r =>
      let rw := rec (n, o, r) c w
      ttuRows rec ts (gAdd g rw.1) c rw.2
    | .id _ => ttuRows rec ts g c w

/-- Page loop of `checkTupleToSubjectSet`: `for … nextPage != "" && !g.Done()`. -/
def ttuPages (E : Env) (rec : VKey → Ctx → World → Res × World) :
    List (List Tuple) → Option Res → Ctx → World → Option Res × World
  | [], g, _, w => (g, w)
  | p :: ps, g, c, w =>
    match g with
    | some x => (some x, w)
    | none =>
      let fw := w.call E
      if fw.1 then (some (Res.error .storage), fw.2)
      else
        let gw := ttuRows rec p none c fw.2
        ttuPages E rec ps gw.1 c gw.2

def buildChildren (f : Child → Ctx → World → Thunk × World) (isAnd : Bool) :
    List Child → Ctx → World → List Thunk × World
  | [], _, w => ([], w)
  | ch :: cs, c, w =>
    let cw := if isAnd then fresh w else (c, w)
    let bw := f ch cw.1 cw.2
    let rest := buildChildren f isAnd cs c bw.2
    (bw.1 :: rest.1, rest.2)

/-- Body of the `checkDirect` step of `checkIsAllowed` (`d` is already `restDepth-1`). -/
def directStep (E : Env) (t : Tuple) (d : Int) (g : Option Res) (w : World) : Option Res × World :=
  if d ≤ 0 then (g, w.lim)
  else match g with
    | some x => (some x, w)
    | none =>
      let fw := w.call E
      if fw.1 then (some (Res.error .storage), fw.2)
      else (gAdd none (if E.T.contains t then Res.isM else Res.nm), fw.2)

/-- The closure returned by `checkExpandSubject`. -/
def expandRun (E : Env) (rec : Tuple → Ctx → World → Res × World) (t : Tuple) (ctx : Ctx) (w : World) :
    Res × World :=
  let cw := initVisited ctx w
  let fw := cw.2.call E
  if fw.1 then (Res.error .storage, fw.2)
  else
    let sets := subjectSetsOf E.T t.ns t.obj t.rel
    if sets.any (fun s => E.T.contains ⟨s.1, s.2.1, s.2.2, t.sub⟩) then (Res.isM, fw.2)
    else
      let over := decide (sets.length > E.maxWidth)
      let w2 := if over then fw.2.lim else fw.2
      let sets' := if over then sets.take (E.maxWidth - 1) else sets
      let gw := expandLoop rec t.sub sets' none cw.1 w2
      (gResult gw.1, gw.2)

inductive Call where
  | isAllowed (t : Tuple) (d : Int) (skip : Bool)
  | rewrite (t : Tuple) (rw : Rewrite) (d : Int)
  | child (t : Tuple) (c : Child) (d : Int) (inv : Bool)
  | invert (t : Tuple) (c : Child) (d : Int)

/-- Construction of a check. Out of fuel = `diverged`. -/
def build (E : Env) : Nat → Call → Ctx → World → Thunk × World
  | 0, _, _, w => (constT (Res.error .diverged), w)
  | fuel+1, .isAllowed t d skip, ctx, w =>
    if d ≤ 0 then (constT Res.unk, w.lim) else
    match astRelationFor E.cfg t.ns t.rel with
    | .bad => (constT (Res.error .schema), w)
    | lk =>
      let rel? : Option Relation := match lk with | .rel r => some r | _ => none
      let rw? : Option Rewrite := rel?.bind (·.rewrite)
      let strict := E.strict
      -- rewrite
      let gw1 : Option Res × World :=
        match rw? with
        | some rw =>
          let bw := build E fuel (.rewrite t rw d) ctx w
          gAddT none bw.1 ctx bw.2
        | none => (none, w)
      -- direct
      let gw2 : Option Res × World :=
        if (!strict || rw?.isNone) && !skip then directStep E t (d - 1) gw1.1 gw1.2 else gw1
      -- expand
      let canSS : Bool := !strict || (match rel? with | none => true | some r => containsSubjectSetExpand r)
      let gw3 : Option Res × World :=
        if canSS then
          if d - 1 ≤ 0 then (gw2.1, gw2.2.lim)
          else match gw2.1 with
            | some x => (some x, gw2.2)
            | none =>
              let rw := expandRun E
                (fun t' c w' => runB (build E fuel (.isAllowed t' (d - 1) true) c w') c) t ctx gw2.2
              (gAdd none rw.1, rw.2)
        else gw2
      (constT (gResult gw3.1), gw3.2)
  | fuel+1, .rewrite t rw d, ctx, w =>
    if d ≤ 0 then (constT Res.unk, w.lim) else
    let isOr := rw.op == .or
    let comps := if isOr then computedRels rw.children else []
    let rest := if isOr then rw.children.filter (fun c => !c.isComputed) else rw.children
    let sc : List Thunk :=
      if comps.isEmpty then [] else
      [fun rctx w' =>
        let fw := w'.call E
        if fw.1 then (Res.error .storage, fw.2) else
        let rels := comps.filter (fun r => !(E.strict && hasRewriteRel E.cfg t.ns r))
        if !rels.isEmpty && E.T.any (fun x => x.ns == t.ns && x.obj == t.obj && x.sub == t.sub && rels.contains x.rel)
        then (Res.isM, fw.2)
        else
          let gw := relLoop
            (fun r c w'' => runB (build E fuel (.isAllowed { t with rel := r } (d - 1) true) c w'') c)
            comps none rctx fw.2
          (gResult gw.1, gw.2)]
    let bw := buildChildren (fun ch c w' => build E fuel (.child t ch d false) c w') (rw.op == .and) rest ctx w
    let ths := if rw.op == .and then bw.1.map withFresh else bw.1
    (opRun rw.op (sc ++ ths), bw.2)
  | fuel+1, .child t ch d inv, ctx, w =>
    match ch with
    | .ttu rel crel =>
      if d < 0 then (constT Res.unk, w.lim) else
      (fun rctx w' =>
        let rows := rowsOf E.T t.ns t.obj rel
        let gw := ttuPages E
          (fun s c w'' => runB (build E fuel (.isAllowed ⟨s.1, s.2.1, crel, t.sub⟩ (d - 1) false) c w'') c)
          (pagesOf E.pageSize rows.length rows) none rctx w'
        (gResult gw.1, gw.2), w)
    | .computed rel =>
      if d < 0 then (constT Res.unk, w.lim) else
      build E fuel (.isAllowed { t with rel := rel } (d - 1) false) ctx w
    | .rewrite op cs => build E fuel (.rewrite t ⟨op, cs⟩ (if inv then d else d - 1)) ctx w
    | .invert c' => build E fuel (.invert t c' d) ctx w
  | fuel+1, .invert t c d, _, w =>
    if d < 0 then (constT Res.unk, w.lim) else
    let cw := fresh w
    let bw := build E fuel (.child t c d true) cw.1 cw.2
    (fun _ w' =>
      let cw' := fresh w'
      let rw := bw.1 cw'.1 cw'.2
      (invertRes rw.1, rw.2), bw.2)

/-- `effDepth`: the clamp of `CheckRelationTuple`. -/
def effDepth (r g : Int) : Int := if r ≤ 0 ∨ g < r then g else r

/-- `Engine.CheckRelationTuple` (without context cancellation): `g` is the configured
    global max depth (`limit.max_read_depth`), `r` the depth of the request. -/
def check (E : Env) (g : Int) (fuel : Nat) (q : Tuple) (r : Int) : Res × World :=
  runB (build E fuel (.isAllowed q (effDepth r g) false) {} {}) {}

end Keto
