/-
  Executable model of the OPL lexer (internal/schema/lexer.go), core Lean only.

  The Go lexer is a state-function scanner over the bytes of a Go string: `next`
  decodes one rune with `utf8.DecodeRuneInString` (invalid UTF-8: `RuneError`, width 1),
  `backup` undoes the last `next`, `emit` slices `input[start:pos]`.  The model keeps the
  same state (`pos`, `start`, `width`), the same state functions and the same helper
  calls in the same order.  Every slice expression of lexer.go is an explicit *site*:
  if its bounds do not hold the model sets `panic` (so that "the lexer never panics"
  is a theorem about these checks: `Keto/Props/C12.lean`).  Loops carry fuel; running
  out of fuel also sets `panic` (shown unreachable).

  `steps` counts every `next` call and every state-function call.

  The lexer is run lazily by the parser in Go (one state function at a time, through a
  channel).  It does not depend on the parser, so the item sequence is the same when it is
  run to completion first; after the last item (`EOF` or an error) `nextItem` yields
  `error "broken state"` at 0:0 forever (`Keto.Opl.brokenItem`, used by the parser model).

  Not modelled: the *text* of error items (`at %q: unexpected token %c`, …); the model
  keeps the message kind instead.  The parser compares item values with expected
  tokens; for an error item the model treats the comparison as "different" (it could only
  be equal if a string literal of the input spelled the whole error message).

  The lexer tables (one-rune tokens, multi-rune tokens, keywords, `spaces`, `digits`,
  `letters`) are written out below as they are in lexer.go.
-/
namespace Keto.Opl

/-- `itemType` in the order of the `const` block of lexer.go. -/
inductive ItemType where
  | error | eof | identifier | comment | stringLiteral
  | kwClass | kwImplements | kwThis | kwCtx
  | opAnd | opOr | opNot | opAssign | opArrow | opDot | opColon | opComma
  | semicolon | typeUnion
  | parenLeft | parenRight | braceLeft | braceRight | bracketLeft | bracketRight
  | angledLeft | angledRight
  deriving DecidableEq, Repr, Inhabited

/-- Which message an error item carries. -/
inductive LexErr where
  | none | unexpectedToken | unclosedComment | unclosedString | brokenState
  deriving DecidableEq, Repr, Inhabited

/-- `item`; `stop` is Go's `End`. For error items `val` is empty and `err` says which
    message it is. -/
structure Item where
  typ : ItemType
  val : List UInt8
  start : Nat
  stop : Nat
  err : LexErr := .none
  deriving DecidableEq, Repr, Inhabited

/-- The zero value of `item` (`Typ` 0 is `itemError`, empty value, 0:0). -/
def Item.zero : Item := ⟨.error, [], 0, 0, .none⟩

/-- What `nextItem` returns once the state function is nil. -/
def brokenItem : Item := ⟨.error, [], 0, 0, .brokenState⟩

open Lean in
/-- `b!"abc"` is the list of the UTF-8 bytes of the literal, as numerals. -/
macro:max "b!" s:str : term => do
  let bytes := s.getString.toUTF8.toList
  let elems ← bytes.toArray.mapM (fun b => `(($(quote b.toNat) : UInt8)))
  `([$elems,*])

/-! ### utf8.DecodeRuneInString -/

def runeError : Nat := 0xFFFD

/-- `(size, lo, hi)` of the `first`/`acceptRanges` tables of unicode/utf8 for a lead
    byte ≥ 0x80; size 0 = invalid lead byte. -/
def leadInfo (c0 : Nat) : Nat × Nat × Nat :=
  if c0 < 0xC2 then (0, 0, 0)
  else if c0 < 0xE0 then (2, 0x80, 0xBF)
  else if c0 == 0xE0 then (3, 0xA0, 0xBF)
  else if c0 == 0xED then (3, 0x80, 0x9F)
  else if c0 < 0xF0 then (3, 0x80, 0xBF)
  else if c0 == 0xF0 then (4, 0x90, 0xBF)
  else if c0 < 0xF4 then (4, 0x80, 0xBF)
  else if c0 == 0xF4 then (4, 0x80, 0x8F)
  else (0, 0, 0)

def byteAt (s : Array UInt8) (i : Nat) : Nat := (s[i]?.getD 0).toNat

/-- `utf8.DecodeRuneInString` on a string with `avail ≥ 1` bytes whose first four bytes
    are `c0 … c3` (0 where the string is shorter): the rune and its width. -/
def decodeBytes (avail c0 c1 c2 c3 : Nat) : Nat × Nat :=
  if c0 < 0x80 then (c0, 1) else
  let info := leadInfo c0
  let sz := info.1
  if sz == 0 then (runeError, 1) else
  if avail < sz then (runeError, 1) else
  if c1 < info.2.1 || info.2.2 < c1 then (runeError, 1) else
  if sz ≤ 2 then ((c0 % 32) * 64 + c1 % 64, 2) else
  if c2 < 0x80 || 0xBF < c2 then (runeError, 1) else
  if sz ≤ 3 then ((c0 % 16) * 4096 + (c1 % 64) * 64 + c2 % 64, 3) else
  if c3 < 0x80 || 0xBF < c3 then (runeError, 1) else
  ((c0 % 8) * 262144 + (c1 % 64) * 4096 + (c2 % 64) * 64 + c3 % 64, 4)

/-- `utf8.DecodeRuneInString(s[pos:])`. Width 0 only when `pos ≥ |s|`. -/
def decodeRune (s : Array UInt8) (pos : Nat) : Nat × Nat :=
  if s.size ≤ pos then (runeError, 0) else
  decodeBytes (s.size - pos) (byteAt s pos) (byteAt s (pos + 1)) (byteAt s (pos + 2)) (byteAt s (pos + 3))

/-- The same on a list of bytes (used by `toSrcPos`, which ranges over the input). -/
def decodeRuneL : List UInt8 → Nat × Nat
  | [] => (runeError, 0)
  | [a] => decodeBytes 1 a.toNat 0 0 0
  | [a, b] => decodeBytes 2 a.toNat b.toNat 0 0
  | [a, b, c] => decodeBytes 3 a.toNat b.toNat c.toNat 0
  | a :: b :: c :: d :: _ => decodeBytes 4 a.toNat b.toNat c.toNat d.toNat

/-! ### lexer state -/

/-- `lexer` (the fields that change) plus the emitted items (latest first), the step
    counter and the panic flag. -/
structure L where
  pos : Nat := 0
  start : Nat := 0
  width : Nat := 0
  items : List Item := []
  steps : Nat := 0
  panic : Bool := false
  deriving Repr, Inhabited

def L.setPanic (l : L) : L := { l with panic := true }

/-- `l.next()`; `none` is `eof`. The slice `l.input[l.pos:]` is in range because of the
    test before it. -/
def next (s : Array UInt8) (l : L) : Option Nat × L :=
  if s.size ≤ l.pos then (none, { l with width := 0, steps := l.steps + 1 })
  else
    let rw := decodeRune s l.pos
    (some rw.1, { l with pos := l.pos + rw.2, width := rw.2, steps := l.steps + 1 })

/-- `l.backup()`. A negative position would make the next slice panic. -/
def backup (l : L) : L :=
  if l.width ≤ l.pos then { l with pos := l.pos - l.width } else l.setPanic

/-- `l.peek()`. -/
def peek (s : Array UInt8) (l : L) : Option Nat × L :=
  let r := next s l
  (r.1, backup r.2)

/-- `l.ignore()`. -/
def ignore (l : L) : L := { l with start := l.pos }

/-- `l.emit(t)`: site `l.input[l.start:l.pos]`. -/
def emit (s : Array UInt8) (t : ItemType) (l : L) : L :=
  if l.start ≤ l.pos ∧ l.pos ≤ s.size then
    { l with items := ⟨t, (s.extract l.start l.pos).toList, l.start, l.pos, .none⟩ :: l.items, start := l.pos }
  else l.setPanic

/-- `l.errorf(…)`: site `l.input[l.pos:]`; the state function returns nil. -/
def errorf (s : Array UInt8) (e : LexErr) (l : L) : L :=
  if l.pos ≤ s.size then
    { l with items := ⟨.error, [], l.start, l.pos, e⟩ :: l.items }
  else l.setPanic

def isSpace (c : Nat) : Bool := c == 9 || c == 10 || c == 11 || c == 12 || c == 13 || c == 32
def isDigit (c : Nat) : Bool := 48 ≤ c && c ≤ 57
def isLetter (c : Nat) : Bool := (97 ≤ c && c ≤ 122) || (65 ≤ c && c ≤ 90) || c == 95
def isLetterOrDigit (c : Nat) : Bool := isLetter c || isDigit c

/-- `strings.ContainsRune(valid, r)` for the three string classes (`eof` is in none). -/
def inClass (valid : Nat → Bool) : Option Nat → Bool
  | none => false
  | some c => valid c

/-- `l.accept(valid)`. -/
def accept (s : Array UInt8) (valid : Nat → Bool) (l : L) : Bool × L :=
  let r := next s l
  if inClass valid r.1 then (true, r.2) else (false, backup r.2)

/-- `l.acceptRun(valid)`. -/
def acceptRun (s : Array UInt8) (valid : Nat → Bool) : Nat → L → L
  | 0, l => l.setPanic
  | n+1, l =>
    let r := next s l
    if inClass valid r.1 then acceptRun s valid n r.2 else backup r.2

/-- `l.scanIdentifier()`. -/
def scanIdentifier (s : Array UInt8) (l : L) : Bool × L :=
  let a := accept s isLetter l
  if a.1 then (true, acceptRun s isLetterOrDigit (s.size + 1) a.2) else (false, a.2)

/-- `strings.HasPrefix(l.input[i:], p)` (bytewise). -/
def hasPrefixAt (s : Array UInt8) : Nat → List UInt8 → Bool
  | _, [] => true
  | i, b :: bs => s[i]? == some b && hasPrefixAt s (i + 1) bs

/-- `oneRuneTokens`. -/
def oneRuneToken (c : Nat) : Option ItemType :=
  if c == 58 then some .opColon          -- ':'
  else if c == 46 then some .opDot       -- '.'
  else if c == 40 then some .parenLeft   -- '('
  else if c == 41 then some .parenRight  -- ')'
  else if c == 91 then some .bracketLeft -- '['
  else if c == 93 then some .bracketRight -- ']'
  else if c == 123 then some .braceLeft  -- '{'
  else if c == 125 then some .braceRight -- '}'
  else if c == 60 then some .angledLeft  -- '<'
  else if c == 62 then some .angledRight -- '>'
  else if c == 61 then some .opAssign    -- '='
  else if c == 44 then some .opComma     -- ','
  else if c == 59 then some .semicolon   -- ';'
  else if c == 124 then some .typeUnion  -- '|'
  else if c == 33 then some .opNot       -- '!'
  else none

/-- `keywords`. -/
def keyword (v : List UInt8) : Option ItemType :=
  if v == b!"class" then some .kwClass
  else if v == b!"implements" then some .kwImplements
  else if v == b!"this" then some .kwThis
  else if v == b!"ctx" then some .kwCtx
  else none

/-- The state functions. -/
inductive StateFn where
  | code | lineComment | blockComment | stringLiteral
  deriving DecidableEq, Repr, Inhabited

/-- `lexCode` after `r := l.peek()` returned the rune `r` (not `eof`). The three
    `multiRuneTokens` have pairwise different first bytes, so the (random) map iteration
    order of the Go loop does not matter. -/
def lexCodeTok (s : Array UInt8) (r : Nat) (l : L) : Option StateFn × L :=
  -- site: l.input[l.pos:] (multi-rune tokens, scanCommentBegin)
  if s.size < l.pos then (none, l.setPanic)
  else if hasPrefixAt s l.pos b!"=>" then (some .code, emit s .opArrow { l with pos := l.pos + 2 })
  else if hasPrefixAt s l.pos b!"||" then (some .code, emit s .opOr { l with pos := l.pos + 2 })
  else if hasPrefixAt s l.pos b!"&&" then (some .code, emit s .opAnd { l with pos := l.pos + 2 })
  else if hasPrefixAt s l.pos b!"//" then (some .lineComment, { l with pos := l.pos + 2 })
  else if hasPrefixAt s l.pos b!"/*" then (some .blockComment, { l with pos := l.pos + 2 })
  else match oneRuneToken r with
    | some t => (some .code, emit s t (next s l).2)
    | none =>
      if r == 39 || r == 34 then (some .stringLiteral, l)
      else
        let sc := scanIdentifier s l
        if sc.1 then
          -- site: l.input[l.start:l.pos] (keyword lookup)
          if sc.2.start ≤ sc.2.pos ∧ sc.2.pos ≤ s.size then
            match keyword (s.extract sc.2.start sc.2.pos).toList with
            | some kw => (some .code, emit s kw sc.2)
            | none => (some .code, emit s .identifier sc.2)
          else (none, sc.2.setPanic)
        else (none, errorf s .unexpectedToken sc.2)

/-- `lexCode`. -/
def lexCode (s : Array UInt8) (l : L) : Option StateFn × L :=
  let pk := peek s (ignore (acceptRun s isSpace (s.size + 1) l))
  match pk.1 with
  | none => (none, emit s .eof pk.2)
  | some r => lexCodeTok s r pk.2

/-- The loop of `lexLineComment`. -/
def lineCommentLoop (s : Array UInt8) : Nat → L → Option StateFn × L
  | 0, l => (none, l.setPanic)
  | n+1, l =>
    let r := next s l
    match r.1 with
    | none => (some .code, emit s .comment (backup r.2))
    | some c =>
      if c == 10 then (some .code, emit s .comment (backup r.2))
      else lineCommentLoop s n r.2

/-- The loop of `lexBlockComment`; `r` is the loop variable. -/
def blockCommentLoop (s : Array UInt8) : Nat → Option Nat → L → Option StateFn × L
  | 0, _, l => (none, l.setPanic)
  | n+1, r, l =>
    match r with
    | none => (none, errorf s .unclosedComment l)
    | some _ =>
      -- site: l.input[l.pos:]
      if s.size < l.pos then (none, l.setPanic)
      else if hasPrefixAt s l.pos b!"*/" then (some .code, emit s .comment { l with pos := l.pos + 2 })
      else
        let nx := next s l
        blockCommentLoop s n nx.1 nx.2

/-- The loop of `lexStringLiteral`; `q` is the opening quote. -/
def stringLoop (s : Array UInt8) (q : Option Nat) : Nat → L → Option StateFn × L
  | 0, l => (none, l.setPanic)
  | n+1, l =>
    let r := next s l
    match r.1 with
    | none => (none, errorf s .unclosedString r.2)
    | some c =>
      if some c == q then
        let l := emit s .stringLiteral (backup r.2)
        (some .code, ignore (next s l).2)
      else stringLoop s q n r.2

/-- One call of a state function. -/
def stepFn (s : Array UInt8) : StateFn → L → Option StateFn × L
  | .code, l => lexCode s l
  | .lineComment, l => lineCommentLoop s (s.size + 1) l
  | .blockComment, l =>
    let pk := peek s l
    blockCommentLoop s (s.size + 2) pk.1 pk.2
  | .stringLiteral, l =>
    let r := next s l
    stringLoop s r.1 (s.size + 1) (ignore r.2)

/-- `l.state = l.state(l)` until the state is nil. -/
def runLex (s : Array UInt8) : Nat → StateFn → L → L
  | 0, _, l => l.setPanic
  | n+1, fn, l =>
    let r := stepFn s fn { l with steps := l.steps + 1 }
    match r.1 with
    | none => r.2
    | some fn' => runLex s n fn' r.2

structure LexResult where
  items : List Item
  steps : Nat
  panic : Bool
  deriving Repr, Inhabited

def lexFuel (n : Nat) : Nat := 3 * n + 3

/-- All items of the input, in order. -/
def lex (s : Array UInt8) : LexResult :=
  let l := runLex s (lexFuel s.size) .code {}
  ⟨l.items.reverse, l.steps, l.panic⟩

end Keto.Opl
