/-
  Model of the string <-> UUID mapping (core Lean only).

    internal/relationtuple/uuid_mapping.go     Mapper.FromTuple / ToTuple / FromQuery / ToQuery /
                                               FromSubjectSet / ToTree
    internal/persistence/sql/uuid_mapping.go   MapStringsToUUIDs(ReadOnly), MapUUIDsToStrings,
                                               batchFromUUIDs, buildInsertUUIDs

  Strings are opaque (only equality matters); UUIDs are abstract ids (`Nat`). The hash
  `h : String → Id` (Go: `uuid.NewV5(networkID, s)`) is a PARAMETER of the model (`Env.h`),
  never an axiom: theorems that need it state injectivity on the strings involved as a hypothesis.

  The table `keto_uuid_mappings (id PRIMARY KEY, string_representation)` is a list of rows; the
  primary key is the invariant `Table.wf`.
-/
import Keto.Model.Data

namespace Keto
namespace Mapping

abbrev Id := Nat

/-! ## API side (package ketoapi) -/

structure ApiSubjectSet where
  ns : String
  obj : String
  rel : String
  deriving DecidableEq, Repr, Inhabited

/-- `ketoapi.RelationTuple`: `SubjectID *string` and `SubjectSet *SubjectSet` are two independent
    optional fields (JSON can set both or none). -/
structure ApiTuple where
  ns : String
  obj : String
  rel : String
  subjectId : Option String
  subjectSet : Option ApiSubjectSet
  deriving DecidableEq, Repr, Inhabited

/-- The subject a tuple denotes for the mapper: `if t.SubjectID != nil … else if t.SubjectSet != nil`. -/
inductive ApiSubject where
  | id (s : String)
  | set (ss : ApiSubjectSet)
  deriving DecidableEq, Repr, Inhabited

def ApiTuple.subject (t : ApiTuple) : Option ApiSubject :=
  match t.subjectId, t.subjectSet with
  | some s, _ => some (.id s)
  | none, some ss => some (.set ss)
  | none, none => none

/-- Exactly one of the two subject fields is set (what every transport except raw JSON produces). -/
def ApiTuple.wellFormed (t : ApiTuple) : Bool := t.subjectId.isSome != t.subjectSet.isSome

/-- The name the subject contributes to the batch of strings. -/
def ApiSubject.name : ApiSubject → String
  | .id s => s
  | .set ss => ss.obj

/-- `ketoapi.RelationQuery`: every field optional. -/
structure ApiQuery where
  ns : Option String
  obj : Option String
  rel : Option String
  subjectId : Option String
  subjectSet : Option ApiSubjectSet
  deriving DecidableEq, Repr, Inhabited

/-- `relationtuple.RelationQuery`. -/
structure Query where
  ns : Option String
  obj : Option Id
  rel : Option String
  sub : Option Subject
  deriving DecidableEq, Repr, Inhabited

inductive MErr where
  | notFound      -- herodot.ErrNotFound: unknown namespace
  | nilSubject    -- ketoapi.ErrNilSubject
  | malformed     -- ketoapi.ErrMalformedInput: a nil tuple in the batch
  | panic         -- index out of range in a deferred assignment (shown unreachable)
  deriving DecidableEq, Repr, Inhabited

/-- `Except` has no `DecidableEq` in core; needed to evaluate concrete cases by `decide`. -/
instance instDecEqExcept {ε α} [DecidableEq ε] [DecidableEq α] : DecidableEq (Except ε α) := fun a b =>
  match a, b with
  | .ok x, .ok y => if h : x = y then isTrue (by rw [h]) else isFalse (fun e => by cases e; exact h rfl)
  | .error x, .error y => if h : x = y then isTrue (by rw [h]) else isFalse (fun e => by cases e; exact h rfl)
  | .ok _, .error _ => isFalse (fun e => by cases e)
  | .error _, .ok _ => isFalse (fun e => by cases e)

/-! ## The mapping table -/

abbrev Row := Id × String
abbrev Table := List Row

def Table.find : Table → Id → Option String
  | [], _ => none
  | (k, v) :: r, id => if k == id then some v else Table.find r id

/-- Primary key: no id occurs twice. -/
def Table.wf : Table → Bool
  | [] => true
  | (k, _) :: r => (Table.find r k).isNone && Table.wf r

/-- One row of `INSERT … ON CONFLICT (id) DO NOTHING`. -/
def Table.insertIfAbsent (t : Table) (row : Row) : Table :=
  if (t.find row.1).isSome then t else t ++ [row]

/-- One `INSERT … VALUES (…),(…),… ON CONFLICT (id) DO NOTHING` statement. -/
def Table.insertRows : Table → List Row → Table
  | t, [] => t
  | t, r :: rs => Table.insertRows (t.insertIfAbsent r) rs

/-- `slices.Chunk(l, n)` / the page loop of `batchFromUUIDs`: consecutive slices of `n` elements.
    `fuel` bounds the number of slices (`l.length` suffices for `n ≥ 1`; for `n = 0` Go panics
    (`slices.Chunk`) resp. loops forever (`batchFromUUIDs`) — not reachable, both sizes are positive
    constants). -/
def pages {α} (n : Nat) : Nat → List α → List (List α)
  | 0, _ => []
  | fuel + 1, l => if l.isEmpty then [] else l.take n :: pages n fuel (l.drop n)

/-- The statements of one `MapStringsToUUIDs` transaction, chunk by chunk. -/
def Table.insertChunks : Table → List (List Row) → Table
  | t, [] => t
  | t, c :: cs => Table.insertChunks (t.insertRows c) cs

/-- `slices.SortFunc(mappings, bytes.Compare(a.ID, b.ID))`, as a stable insertion sort. Go's sort is
    not stable: which of two DIFFERENT strings with the same id comes first is unspecified there; it
    is only observable under a hash collision, which every theorem excludes by hypothesis. -/
def insertSorted (r : Row) : List Row → List Row
  | [] => [r]
  | x :: xs => if r.1 ≤ x.1 then r :: x :: xs else x :: insertSorted r xs

def sortById : List Row → List Row
  | [] => []
  | r :: rs => insertSorted r (sortById rs)

/-- `slices.CompactFunc(mappings, a.ID == b.ID)`: keeps the first row of every run of equal ids. -/
def compactFrom (last : Id) : List Row → List Row
  | [] => []
  | y :: r => if y.1 == last then compactFrom last r else y :: compactFrom y.1 r

def compact : List Row → List Row
  | [] => []
  | x :: r => x :: compactFrom x.1 r

/-! ## Environment -/

structure Env where
  /-- `uuid.NewV5(p.NetworkID(ctx), ·)`. -/
  h : String → Id
  /-- names known to `namespace.Manager.GetNamespaceByName`. -/
  nss : List String
  /-- `Mapper.ReadOnly`. -/
  readOnly : Bool
  /-- `internalPagination.PerPage` of `batchFromUUIDs` (the default page size: no options are passed). -/
  pageSize : Nat
  /-- `chunkSizeInsertUUIDMappings`. -/
  chunk : Nat
  /-- the order in which `maps.Keys(idIdx)` enumerates the distinct ids (Go: random). -/
  keyOrder : List Id → List Id

def Env.nsKnown (E : Env) (n : String) : Bool := E.nss.contains n

/-! ## persistence/sql: strings → ids -/

/-- `MapStringsToUUIDsReadOnly`: computes only. -/
def mapStringsReadOnly (E : Env) (ss : List String) : List Id := ss.map E.h

/-- `MapStringsToUUIDs`: compute, then sort, compact, and insert in chunks inside one transaction. -/
def mapStringsRW (E : Env) (T : Table) (ss : List String) : List Id × Table :=
  if ss.isEmpty then ([], T) else
  let ids := mapStringsReadOnly E ss
  let ms := compact (sortById (ids.zip ss))
  (ids, T.insertChunks (pages E.chunk ms.length ms))

/-- What `Mapper` calls: `if m.ReadOnly { …ReadOnly } else { MapStringsToUUIDs }`. -/
def mapStrings (E : Env) (T : Table) (ss : List String) : List Id × Table :=
  if E.readOnly then (mapStringsReadOnly E ss, T) else mapStringsRW E T ss

/-! ## persistence/sql: ids → strings -/

/-- The keys of `idIdx` (each distinct id once). -/
def distinct : List Id → List Id
  | [] => []
  | x :: xs => if xs.contains x then distinct xs else x :: distinct xs

/-- `SELECT * FROM keto_uuid_mappings WHERE id IN (page)`. -/
def queryPage (T : Table) (page : List Id) : List Row := T.filter (fun r => page.contains r.1)

/-- `for _, idx := range idIdx[m.ID] { res[idx] = m.StringRepresentation }`: every position of `ids`
    holding `m.ID` is overwritten. -/
def scatterRow : List Id → List String → Row → List String
  | i :: is, r :: rs, m => (if i == m.1 then m.2 else r) :: scatterRow is rs m
  | _, _, _ => []

def scatterRows (ids : List Id) : List String → List Row → List String
  | res, [] => res
  | res, m :: ms => scatterRows ids (scatterRow ids res m) ms

/-- The page loop: look one page of ids up, scatter the rows found. -/
def runPages (T : Table) (ids : List Id) : List String → List (List Id) → List String
  | res, [] => res
  | res, p :: ps => runPages T ids (scatterRows ids res (queryPage T p)) ps

/-- `Persister.batchFromUUIDs`. An id without a mapping row keeps the zero value `""` of
    `make([]string, len(ids))`: no error. -/
def batchFromUUIDs (T : Table) (ids : List Id) (pageSize : Nat) (keyOrder : List Id → List Id) : List String :=
  if ids.isEmpty then [] else
  let keys := keyOrder (distinct ids)
  runPages T ids (List.replicate ids.length "") (pages pageSize keys.length keys)

def mapUUIDsToStrings (E : Env) (T : Table) (ids : List Id) : List String :=
  batchFromUUIDs T ids E.pageSize E.keyOrder

/-! ## relationtuple.Mapper -/

/-- The deferred assignments `onSuccess.do(func() { … u[2*i] … u[2*i+1] … })` of `FromTuple` and
    `ToTuple`: element `i` of the batch takes positions `2i` and `2i+1` of the flat result slice.
    `none` = index out of range (a panic in Go). -/
def assignPairs {α β γ} (mk : α → β → β → γ) (u : List β) : Nat → List α → Option (List γ)
  | _, [] => some []
  | i, t :: ts =>
    match u[2 * i]?, u[2 * i + 1]?, assignPairs mk u (i + 1) ts with
    | some a, some b, some r => some (mk t a b :: r)
    | _, _, _ => none

/-- First loop of `FromTuple` for one element: nil check, namespace lookup, `Validate`, subject-set
    namespace lookup; the two strings appended to `s` (subject first, then object). -/
def checkTuple (E : Env) : Option ApiTuple → Except MErr (ApiTuple × List String)
  | none => .error .malformed
  | some t =>
    if !E.nsKnown t.ns then .error .notFound else
    match t.subject with
    | none => .error .nilSubject
    | some (.id s) => .ok (t, [s, t.obj])
    | some (.set ss) => if !E.nsKnown ss.ns then .error .notFound else .ok (t, [ss.obj, t.obj])

def collectFrom (E : Env) : List (Option ApiTuple) → Except MErr (List ApiTuple × List String)
  | [] => .ok ([], [])
  | ot :: r =>
    match checkTuple E ot with
    | .error e => .error e
    | .ok (t, ss) =>
      match collectFrom E r with
      | .error e => .error e
      | .ok (ts, s) => .ok (t :: ts, ss ++ s)

/-- What the deferred closures of `FromTuple` build from `u[2i]` (subject) and `u[2i+1]` (object). -/
def mkInternal (t : ApiTuple) (a b : Id) : Tuple :=
  { ns := t.ns, obj := b, rel := t.rel,
    sub := match t.subject with
      | some (.set ss) => .set ss.ns a ss.rel
      | _ => .id a }   -- `none` does not pass `collectFrom`

/-- `Mapper.FromTuple`. On an error nothing has been mapped yet (the table is untouched). -/
def fromTuple (E : Env) (T : Table) (b : List (Option ApiTuple)) : Except MErr (List Tuple) × Table :=
  match collectFrom E b with
  | .error e => (.error e, T)
  | .ok (ts, s) =>
    let r := mapStrings E T s
    match assignPairs mkInternal r.1 0 ts with
    | some res => (.ok res, r.2)
    | none => (.error .panic, r.2)

def subjId : Subject → Id
  | .id u => u
  | .set _ o _ => o

def mkApi (t : Tuple) (a b : String) : ApiTuple :=
  { ns := t.ns, obj := b, rel := t.rel,
    subjectId := match t.sub with | .id _ => some a | .set _ _ _ => none,
    subjectSet := match t.sub with | .id _ => none | .set n _ r => some ⟨n, a, r⟩ }

/-- `Mapper.ToTuple` (no namespace lookups): flatten to `[sub₀, obj₀, sub₁, obj₁, …]`, one
    `MapUUIDsToStrings`, assign by index. -/
def toTuple (E : Env) (T : Table) (ts : List Tuple) : Except MErr (List ApiTuple) :=
  let u := ts.flatMap (fun t => [subjId t.sub, t.obj])
  let s := mapUUIDsToStrings E T u
  match assignPairs mkApi s 0 ts with
  | some res => .ok res
  | none => .error .panic

def at? {α} (l : List α) (i : Nat) : Except MErr α :=
  match l[i]? with
  | some a => .ok a
  | none => .error .panic

def ApiQuery.nsUnknown (E : Env) (q : ApiQuery) : Bool :=
  match q.ns with | some n => !E.nsKnown n | none => false

def ApiQuery.setNsUnknown (E : Env) (q : ApiQuery) : Bool :=
  match q.subjectSet with | some ss => !E.nsKnown ss.ns | none => false

/-- The strings `FromQuery` appends to `s`, in order: object, subject id, subject-set object. -/
def ApiQuery.strings (q : ApiQuery) : List String :=
  (match q.obj with | some o => [o] | none => []) ++
  (match q.subjectId with | some x => [x] | none => []) ++
  (match q.subjectSet with | some ss => [ss.obj] | none => [])

/-- The deferred closures of `FromQuery`; each remembers `len(s)-1` at the time its string was
    appended. With both subject fields set they run in order, so the subject set wins. -/
def ApiQuery.assign (q : ApiQuery) (u : List Id) : Except MErr Query :=
  let n0 := (match q.obj with | some _ => 1 | none => 0)
  let n1 := n0 + (match q.subjectId with | some _ => 1 | none => 0)
  let n2 := n1 + (match q.subjectSet with | some _ => 1 | none => 0)
  do
    let obj ← match q.obj with
      | some _ => (at? u (n0 - 1)).map some
      | none => pure none
    let sub1 ← match q.subjectId with
      | some _ => (at? u (n1 - 1)).map (fun i => some (Subject.id i))
      | none => pure none
    let sub2 ← match q.subjectSet with
      | some ss => (at? u (n2 - 1)).map (fun i => some (Subject.set ss.ns i ss.rel))
      | none => pure sub1
    pure { ns := q.ns, obj := obj, rel := q.rel, sub := sub2 }

/-- `Mapper.FromQuery`: namespace lookups first (query namespace, then subject-set namespace), one
    mapping call for all strings, then the assignments. -/
def fromQuery (E : Env) (T : Table) (q : ApiQuery) : Except MErr Query × Table :=
  if q.nsUnknown E then (.error .notFound, T) else
  if q.setNsUnknown E then (.error .notFound, T) else
  let r := mapStrings E T q.strings
  (q.assign r.1, r.2)

/-- `Mapper.ToQuery`: object is `s[0]`, the subject `s[len(s)-1]`. -/
def toQuery (E : Env) (T : Table) (q : Query) : Except MErr ApiQuery :=
  if (match q.ns with | some n => !E.nsKnown n | none => false) then .error .notFound else
  if (match q.sub with | some (.set n _ _) => !E.nsKnown n | _ => false) then .error .notFound else
  let u0 : List Id := match q.obj with | some o => [o] | none => []
  let u1 := match q.sub with | some sub => u0 ++ [subjId sub] | none => u0
  let s := mapUUIDsToStrings E T u1
  do
    let obj ← match q.obj with
      | some _ => (at? s 0).map some
      | none => pure none
    let sid ← match q.sub with
      | some (.id _) => (at? s (s.length - 1)).map some
      | _ => pure none
    let sset ← match q.sub with
      | some (.set n _ r) => (at? s (s.length - 1)).map (fun a => some (ApiSubjectSet.mk n a r))
      | _ => pure none
    pure { ns := q.ns, obj := obj, rel := q.rel, subjectId := sid, subjectSet := sset }

/-- `Mapper.FromSubjectSet`. -/
def fromSubjectSet (E : Env) (T : Table) (ss : ApiSubjectSet) : Except MErr Subject × Table :=
  if !E.nsKnown ss.ns then (.error .notFound, T) else
  let r := mapStrings E T [ss.obj]
  match r.1[0]? with
  | some u => (.ok (.set ss.ns u ss.rel), r.2)
  | none => (.error .panic, r.2)

/-- `relationtuple.Tree` / `ketoapi.Tree[*RelationTuple]` (only the subject of the node's tuple is set). -/
inductive ITree where
  | node (ty : String) (sub : Subject) (children : List ITree)
  deriving Repr, Inhabited

inductive ATree where
  | node (ty : String) (subjectId : Option String) (subjectSet : Option ApiSubjectSet) (children : List ATree)
  deriving Repr, Inhabited

mutual
/-- `Mapper.ToTree`: namespace lookup of the node's subject set, then the children, then a
    one-element `MapUUIDsToStrings` for the node itself (`s[0]`). -/
def toTree (E : Env) (T : Table) : ITree → Except MErr ATree
  | .node ty sub cs =>
    if (match sub with | .set n _ _ => !E.nsKnown n | .id _ => false) then .error .notFound else
    match toTreeList E T cs with
    | .error e => .error e
    | .ok acs =>
      match (mapUUIDsToStrings E T [subjId sub])[0]? with
      | none => .error .panic
      | some a =>
        .ok (.node ty (match sub with | .id _ => some a | .set _ _ _ => none)
                      (match sub with | .id _ => none | .set n _ r => some ⟨n, a, r⟩) acs)
def toTreeList (E : Env) (T : Table) : List ITree → Except MErr (List ATree)
  | [] => .ok []
  | c :: cs =>
    match toTree E T c with
    | .error e => .error e
    | .ok a =>
      match toTreeList E T cs with
      | .error e => .error e
      | .ok as => .ok (a :: as)
end

/-! ## Vocabulary of the specification (executable, used by the driver and the theorems) -/

/-- The name the subject of a tuple contributes (`""` if it has none). -/
def subjName (t : ApiTuple) : String :=
  match t.subject with
  | some s => s.name
  | none => ""

/-- The two strings of a tuple in the order `FromTuple` appends them. -/
def strsOf (t : ApiTuple) : List String := [subjName t, t.obj]

def batchStrings (b : List ApiTuple) : List String := b.flatMap strsOf

/-- A tuple `FromTuple` accepts: known namespace, a subject, known subject-set namespace. -/
def ApiTuple.valid (E : Env) (t : ApiTuple) : Bool :=
  E.nsKnown t.ns &&
  match t.subject with
  | none => false
  | some (.id _) => true
  | some (.set ss) => E.nsKnown ss.ns

/-- What survives of a tuple that sets both subject fields: `FromTuple` looks at `SubjectID` first. -/
def ApiTuple.normalize (t : ApiTuple) : ApiTuple :=
  { t with subjectSet := if t.subjectId.isSome then none else t.subjectSet }

/-- First-occurrence numbering of a list: equal entries get equal numbers, different entries different
    numbers (the canonical form in which ids cross the protocol). -/
def classesAux {α} [BEq α] : List α → List α → List Nat
  | _, [] => []
  | seen, x :: xs =>
    match seen.idxOf? x with
    | some i => i :: classesAux seen xs
    | none => seen.length :: classesAux (seen ++ [x]) xs

def classes {α} [BEq α] (l : List α) : List Nat := classesAux [] l

/-! ## A concrete enumeration order for the driver: rotate by `seed`, reverse on odd seeds. -/

def seedOrder (seed : Nat) (l : List Id) : List Id :=
  let k := seed % (l.length + 1)
  let rot := l.drop k ++ l.take k
  if seed % 2 == 1 then rot.reverse else rot

end Mapping
end Keto
