/-
  Interleaving model for C14: requests run as sequences of steps over
  * an immutable snapshot of the stored data (unchanging data is the property's premise),
  * registry cells that are created on first use by whoever gets there first
    (RegistryDefault's lazy getters; after repair 727229a they are created in Init,
    i.e. before any request runs — `Shared.prewarmed`),
  * request-local state (visited sets, result slots, pagination cursors live in the
    request's context / stack).
  A step of a request only writes its own local state, or publishes a cell with a
  value that does not depend on who publishes it.
-/
namespace Keto.Conc

abbrev Cell := Nat
abbrev Val := Nat
abbrev Snapshot := Nat → Nat

inductive Step (L : Type) where
  | loc (f : Snapshot → L → L)              -- compute on request-local state, reading the stored data
  | useCell (c : Cell) (f : Val → L → L)    -- obtain registry member `c` (creating it if absent) and use it

structure State (L : Type) where
  cells : Cell → Option Val
  locals : Nat → L                          -- request id ↦ local state
  pcs : Nat → Nat                           -- request id ↦ number of its steps executed so far

/-- The system: the stored data, what a lazy getter creates for each cell, the program of
    each request. -/
structure Sys (L : Type) where
  snap : Snapshot
  create : Cell → Val
  prog : Nat → List (Step L)

def setFn {β} (f : Nat → β) (k : Nat) (v : β) : Nat → β := fun i => if i = k then v else f i

/-- One step of request `r` (no-op once its program is finished). -/
def stepReq {L} (S : Sys L) (s : State L) (r : Nat) : State L :=
  match (S.prog r)[s.pcs r]? with
  | none => s
  | some (.loc f) =>
    { s with locals := setFn s.locals r (f S.snap (s.locals r)), pcs := setFn s.pcs r (s.pcs r + 1) }
  | some (.useCell c f) =>
    let v := (s.cells c).getD (S.create c)
    { cells := setFn s.cells c (some v),
      locals := setFn s.locals r (f v (s.locals r)),
      pcs := setFn s.pcs r (s.pcs r + 1) }

/-- Run a schedule: the list says which request moves next. -/
def exec {L} (S : Sys L) (s : State L) : List Nat → State L
  | [] => s
  | r :: rs => exec S (stepReq S s r) rs

/-- The request alone: its first `k` steps from local state `l`, with every cell it
    touches holding what the getter creates. -/
def solo {L} (S : Sys L) : List (Step L) → Nat → L → L
  | _, 0, l => l
  | [], _, l => l
  | .loc f :: ps, k+1, l => solo S ps k (f S.snap l)
  | .useCell c f :: ps, k+1, l => solo S ps k (f (S.create c) l)

/-- Cells hold nothing or exactly what the getter creates. -/
def Consistent {L} (S : Sys L) (s : State L) : Prop := ∀ c v, s.cells c = some v → v = S.create c

end Keto.Conc
