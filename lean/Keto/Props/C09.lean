/-
  C09 — expand returns a sound and complete picture of a subject set.
  Statements and final proofs only; helper lemmas live in Keto/Proofs/ExpandLemmas.lean.

  Model: `Keto.expand` / `Keto.buildTree` (Keto/Model/Expand.lean), spec: `Keto.Reach`,
  `Keto.reachWithin` (Keto/Spec/Reach.lean), `Keto.Mem` (Keto/Spec/Membership.lean).

  Status on the current tree. Soundness of the edges, "each subject set at most once",
  the depth bound, termination (with a bound on the storage calls) and "everything in
  the tree is reachable" hold for all stores, subject sets, depths and page sizes.
  Completeness holds whenever the run made no depth cut (`cuts = 0`); completeness
  *within the effective depth* is violated (known finding F-expand-order, tag
  `expand-dfs-order`): the depth-first traversal marks a subject set visited where it
  first meets it — possibly at the last level, where it is only a leaf — and skips it
  at a shallower position later. Which position comes first depends on the storage
  order. See `C09_order_counterexample`.
-/
import Keto.Model.Expand
import Keto.Spec.Reach
import Keto.Spec.Membership
import Keto.Proofs.FactsTie
import Keto.Proofs.ExpandLemmas

namespace Keto

/-- The two depth tests of `buildTreeRecursive` MEAN what `Keto.expand` encodes: the request clamp
    (`restDepth <= 0 || globalMaxDepth < restDepth`, i.e. `effDepth`) and the leaf test
    (`restDepth <= 1`); both are translated from the Go expressions on every run and compared as
    functions on `Int`; they are the only two tests of the depth in expand/engine.go. -/
theorem C09_depth_sites_tie :
    (∀ g r : Int, Facts.cond8 g r = decide (r ≤ 0 ∨ g < r)) ∧ (∀ d : Int, Facts.cond9 d = decide (d ≤ 1)) ∧
    (Facts.depthConds.filter (fun g => g.1 == "internal/expand/engine.go")).length = 2 :=
  ⟨fun g r => (FactsTie.clamp_sem g r).2, FactsTie.guard_le1_sem, by decide⟩

/-- Every parent → child edge of the tree is a stored tuple: the parent is a subject set
    `n:o#r` and `⟨n, o, r, child⟩ ∈ T`. For all stores, depths, page sizes, subjects, fuel
    and initial states. -/
theorem C09_edges_sound (E : XEnv) (fuel : Nat) (rd : Int) (S : Subject) (st : XState) (tr : Tree)
    (h : (expand E fuel rd S st).1 = some tr) :
    tr.subject = S ∧
    ∀ p c, (p, c) ∈ tr.edges → ∃ n o r, p = .set n o r ∧ (⟨n, o, r, c⟩ : Tuple) ∈ E.T := by
  obtain ⟨hroot, hedges⟩ := expand_edges E fuel rd S st tr h
  exact ⟨hroot, fun p c hpc => hedges (p, c) hpc⟩

/-- No subject set is the root of two `union` nodes: the subject sets of the union nodes are
    pairwise different, all of them were marked visited by this run and none of them was
    visited before (so with the empty initial set of `BuildTree` none is skipped wrongly). -/
theorem C09_once (E : XEnv) (fuel : Nat) (rd : Int) (S : Subject) (st : XState) (tr : Tree)
    (h : (expand E fuel rd S st).1 = some tr) :
    (Tree.unionKeys tr).Nodup ∧
    ∀ k, k ∈ Tree.unionKeys tr → k ∈ (expand E fuel rd S st).2.visited ∧ k ∉ st.visited :=
  (expand_once E fuel rd S st).2 tr h

/-- The tree has at most `effDepth r g` levels (`g ≥ 1`: the configuration schema requires
    `limit.max_read_depth ≥ 1`). -/
theorem C09_depth (E : XEnv) (hg : 1 ≤ E.g) (fuel : Nat) (rd : Int) (S : Subject) (st : XState) (tr : Tree)
    (h : (expand E fuel rd S st).1 = some tr) : (tr.height : Int) ≤ effDepth rd E.g := by
  have h1 := expand_height E hg fuel rd S st tr h
  have h2 := effDepth_pos (r := rd) hg
  omega

/-- Termination on all data (cyclic or not). The model recurses structurally on its fuel;
    fuel `effDepth r g` (at least 1) is never exhausted; the number of storage calls of a
    request is at most (number of distinct subject sets occurring as a subject in `T` + 1)
    × (pages of one listing). -/
theorem C09_terminates (E : XEnv) (r : Int) (S : Subject) :
    (∀ (fuel : Nat) (st : XState), 1 ≤ fuel → effDepth r E.g ≤ (fuel : Int) → (expand E fuel r S st).2.oof = st.oof) ∧
    (buildTree E r S).2.oof = false ∧
    (buildTree E r S).2.calls ≤ ((setKeys E.T).eraseDups.length + 1) * (E.T.length / E.pageSize + 1) := by
  refine ⟨fun fuel st h1 hf => expand_oof E fuel r S st h1 hf, ?_, ?_⟩
  · have := expand_oof E (expandFuel r E.g) r S {} (by unfold expandFuel; omega) (by unfold expandFuel; omega)
    simpa [buildTree] using this
  · have hc := expand_calls E (expandFuel r E.g) r S {}
    obtain ⟨hn, hv⟩ := expand_vis E (expandFuel r E.g) r S {}
    have hlen : (buildTree E r S).2.visited.length ≤ (subjKey S ++ (setKeys E.T).eraseDups).length := by
      apply nodup_length_le _ _ (hn List.nodup_nil)
      intro k hk
      rcases hv k hk with h | h | h
      · cases h
      · exact List.mem_append_left _ h
      · exact List.mem_append_right _ (List.mem_eraseDups.mpr h)
    have hS : (subjKey S).length ≤ 1 := by cases S <;> simp [subjKey]
    rw [List.length_append] at hlen
    unfold RCalls at hc
    simp only [List.length_nil, Nat.mul_zero, Nat.add_zero] at hc
    have hB : pagesBound E = E.T.length / E.pageSize + 1 := rfl
    rw [hB] at hc
    have hmul := Nat.mul_le_mul_left (E.T.length / E.pageSize + 1)
      (show (buildTree E r S).2.visited.length ≤ (setKeys E.T).eraseDups.length + 1 by omega)
    rw [Nat.mul_comm ((setKeys E.T).eraseDups.length + 1)]
    have hc' : (buildTree E r S).2.calls ≤
        (E.T.length / E.pageSize + 1) * (buildTree E r S).2.visited.length := by
      simpa [buildTree] using hc
    exact Nat.le_trans hc' hmul

/-- Every subject in the tree other than the root is reachable from the expanded subject set. -/
theorem C09_leaves_subset_reach (E : XEnv) (fuel : Nat) (rd : Int) (S : Subject) (st : XState) (tr : Tree)
    (h : (expand E fuel rd S st).1 = some tr) : ∀ x, x ∈ tr.descendants → Reach E.T S x :=
  (expand_reach E fuel rd S st tr h).2

/-- Completeness when the depth is not binding: if the request made no depth cut
    (`cuts = 0`: no non-empty subject set was returned as a leaf because `restDepth <= 1`)
    then every subject reachable from the expanded subject set is in the tree; in
    particular a tree exists as soon as anything is reachable. -/
theorem C09_complete_unbound_partial (E : XEnv) (r : Int) (n : String) (o : Nat) (rel : String)
    (hcuts : (buildTree E r (.set n o rel)).2.cuts = 0) :
    ∀ x, Reach E.T (.set n o rel) x →
      ∃ tr, (buildTree E r (.set n o rel)).1 = some tr ∧ x ∈ tr.subjects := by
  intro x hx
  obtain ⟨_, _, hcl⟩ := expand_closed E (expandFuel r E.g) r (.set n o rel) {}
    (by unfold expandFuel; omega) (by unfold expandFuel; omega)
  obtain ⟨hkey, hnew⟩ := hcl trivial (by simpa [buildTree] using hcuts)
  have := (closed_reach (hkey n o rel rfl) (fun k hk => hnew k hk (by intro h; cases h)) x hx).1
  cases hres : (buildTree E r (.set n o rel)).1 with
  | none =>
    have hres' : (expand E (expandFuel r E.g) r (.set n o rel) {}).1 = none := hres
    rw [hres'] at this
    simp [resSubjects] at this
  | some tr =>
    have hres' : (expand E (expandFuel r E.g) r (.set n o rel) {}).1 = some tr := hres
    rw [hres'] at this
    exact ⟨tr, rfl, this⟩

/-- With `cuts = 0` the subject ids below the root are exactly the reachable subject ids. -/
theorem C09_ids_eq_reach_partial (E : XEnv) (r : Int) (n : String) (o : Nat) (rel : String) (tr : Tree)
    (h : (buildTree E r (.set n o rel)).1 = some tr) (hcuts : (buildTree E r (.set n o rel)).2.cuts = 0) (u : Nat) :
    .id u ∈ tr.descendants ↔ Reach E.T (.set n o rel) (.id u) := by
  constructor
  · exact C09_leaves_subset_reach E _ r _ {} tr h (.id u)
  · intro hr
    obtain ⟨tr', htr', hx⟩ := C09_complete_unbound_partial E r n o rel hcuts (.id u) hr
    rw [h] at htr'
    cases htr'
    rw [Tree.subjects_eq, expand_root E _ r _ {} tr h] at hx
    rcases List.mem_cons.mp hx with h' | h'
    · cases h'
    · exact h'

/-- For a configuration without rewrites (legacy namespaces, or namespaces that only declare
    relations) the check semantics is reachability: `Mem` (what check answers when no limit
    binds, C01) holds for a subject id iff the id is reachable — hence, with `cuts = 0`,
    iff it is a leaf of the expansion. -/
theorem C09_leaves_eq_check (c : Cfg) (hc : Cfg.plain c) (E : XEnv) (r : Int) (n : String) (o : Nat) (rel : String)
    (tr : Tree) (h : (buildTree E r (.set n o rel)).1 = some tr)
    (hcuts : (buildTree E r (.set n o rel)).2.cuts = 0) (u : Nat) :
    Mem c E.T ⟨n, o, rel, .id u⟩ ↔ .id u ∈ tr.descendants := by
  rw [C09_ids_eq_reach_partial E r n o rel tr h hcuts u]
  exact ⟨fun hm => mem_reach hc hm, fun hr => reach_mem hc hr⟩

/-- … and in general (no condition on the run): membership is reachability. -/
theorem C09_mem_iff_reach (c : Cfg) (hc : Cfg.plain c) (T : List Tuple) (n : String) (o : Nat) (rel : String)
    (x : Subject) : Mem c T ⟨n, o, rel, x⟩ ↔ Reach T (.set n o rel) x :=
  ⟨fun hm => mem_reach hc hm, fun hr => reach_mem hc hr⟩

/-- Legacy namespaces (no relations) are rewrite-free. -/
theorem C09_legacy_plain (c : Cfg) (h : ∀ ns, ns ∈ c → ns.relations = []) : Cfg.plain c := by
  intro ns rel R hR
  unfold astRelationFor at hR
  split at hR
  · cases hR
  · split at hR
    · cases hR
    · next nsp hf =>
      have hm : nsp ∈ c := List.mem_of_find?_eq_some hf
      rw [h nsp hm] at hR
      simp at hR

/-- The executable `reachWithin` of the driver and of the statements below is exactly
    "reachable along at least 1 and fewer than `d` tuples" … -/
theorem C09_reachWithin_spec (T : List Tuple) (S x : Subject) (d : Nat) :
    x ∈ reachWithin T d S ↔ ∃ j, 1 ≤ j ∧ j < d ∧ ReachIn T S j x :=
  ⟨reachWithin_sound, fun ⟨_, _, hj, hr⟩ => reachWithin_complete hj hr⟩

/-- … and `reachAll` is exactly `Reach`. -/
theorem C09_reachAll_spec (T : List Tuple) (S x : Subject) : x ∈ reachAll T S ↔ Reach T S x :=
  ⟨reachAll_sound, reachAll_complete⟩

/-- The oracle's columns: with `cuts = 0` the model's `leaves` (subject ids below the root) are
    the `reach` column (subject ids in `reachAll`). -/
theorem C09_leaves_column_partial (E : XEnv) (r : Int) (n : String) (o : Nat) (rel : String) (tr : Tree)
    (h : (buildTree E r (.set n o rel)).1 = some tr) (hcuts : (buildTree E r (.set n o rel)).2.cuts = 0) (u : Nat) :
    u ∈ idsOf tr.descendants ↔ u ∈ idsOf (reachAll E.T (.set n o rel)) := by
  rw [mem_idsOf, mem_idsOf, C09_reachAll_spec]
  exact C09_ids_eq_reach_partial E r n o rel tr h hcuts u

/-
  Not provable on the current tree (known finding F-expand-order):

  theorem C09_complete_within_depth (E : XEnv) (hg : 1 ≤ E.g) (r : Int) (S : Subject) :
      ∀ x, x ∈ reachWithin E.T (effDepth r E.g).toNat S →
        ∃ tr, (buildTree E r S).1 = some tr ∧ x ∈ tr.descendants

  i.e. (C09_reachWithin_spec) every subject reachable from S along j tuples, 1 ≤ j < effDepth,
  appears in the tree of effDepth levels.
-/

namespace C09ex

def S : Subject := .set "g" 0 "m"
def A : Subject := .set "g" 1 "m"
def B : Subject := .set "g" 2 "m"
def u : Subject := .id 9

/-- `S→A, S→B, A→B, B→u` with `A` stored before `B`. -/
def TAB : List Tuple := [⟨"g", 0, "m", A⟩, ⟨"g", 0, "m", B⟩, ⟨"g", 1, "m", B⟩, ⟨"g", 2, "m", u⟩]
/-- The same tuples with `B` stored before `A`. -/
def TBA : List Tuple := [⟨"g", 0, "m", B⟩, ⟨"g", 0, "m", A⟩, ⟨"g", 1, "m", B⟩, ⟨"g", 2, "m", u⟩]

def env (T : List Tuple) (g : Int) : XEnv := { T := T, g := g, pageSize := 100 }

end C09ex

open C09ex in
/-- The witness of F-expand-order: global depth 3, `u` is at distance 2 from `S`
    (`S → B → u`), so it fits into a tree of 3 levels. With `A` stored before `B` the
    model's tree is `S(A(B), B)`: `B` is first met below `A` at the last level (a depth cut),
    marked visited there and skipped as a child of `S`; `u` is missing. With `B` stored before
    `A` the tree is `S(B(u), A(B))`. -/
theorem C09_order_counterexample :
    -- u is reachable within the depth, in both orders
    u ∈ reachWithin TAB 3 S ∧ u ∈ reachWithin TBA 3 S ∧ ReachIn TAB S 2 u ∧
    -- A first: u is not in the tree (and the run made a depth cut)
    (∃ tr, (buildTree (env TAB 3) 0 S).1 = some tr ∧ u ∉ tr.subjects ∧ tr.height = 3) ∧
    (buildTree (env TAB 3) 0 S).2.cuts = 1 ∧
    -- B first: u is a leaf
    (∃ tr, (buildTree (env TBA 3) 0 S).1 = some tr ∧ u ∈ tr.descendants) := by
  refine ⟨by decide, by decide, ?_, ?_, by decide, ?_⟩
  · exact .step (n := "g") (o := 2) (r := "m") (.direct (n := "g") (o := 0) (r := "m") (s := B) rfl (by decide)) (by decide)
  · exact ⟨.union S [.union A [.leaf B], .leaf B], rfl, by decide, by decide⟩
  · exact ⟨.union S [.union B [.leaf u], .union A [.leaf B]], rfl, by decide⟩

/-! ### non-vacuity -/

open C09ex in
-- `C09_edges_sound`, `C09_once`, `C09_depth`, `C09_leaves_subset_reach`: the premise is met by a
-- concrete tree with union nodes, edges and leaves (depth 5, nothing is cut).
example : (buildTree (env TAB 5) 0 S).1 = some (.union S [.union A [.union B [.leaf u]], .leaf B]) := rfl

open C09ex in
example : Tree.edges (.union S [.union A [.union B [.leaf u]], .leaf B]) = [(S, A), (A, B), (B, u), (S, B)] ∧
    Tree.unionKeys (.union S [.union A [.union B [.leaf u]], .leaf B]) = [("g", 0, "m"), ("g", 1, "m"), ("g", 2, "m")] ∧
    Tree.height (.union S [.union A [.union B [.leaf u]], .leaf B]) = 4 := by decide

open C09ex in
-- `C09_complete_unbound_partial` / `C09_leaves_eq_check`: the hypothesis `cuts = 0` is satisfiable,
-- and the conclusion is then really derived (u is reachable, hence in the tree, hence check allows it).
example : (buildTree (env TAB 5) 0 S).2.cuts = 0 ∧ Reach TAB S u :=
  ⟨by decide, (ReachIn.step (n := "g") (o := 2) (r := "m") (.direct (n := "g") (o := 0) (r := "m") (s := B) rfl (by decide))
    (by decide) : ReachIn TAB S 2 u).toReach⟩

open C09ex in
example : Mem [⟨"g", []⟩] TAB ⟨"g", 0, "m", .id 9⟩ :=
  (C09_leaves_eq_check [⟨"g", []⟩]
    (C09_legacy_plain _ (by intro ns h; simp at h; subst h; rfl))
    (env TAB 5) 0 "g" 0 "m" (.union S [.union A [.union B [.leaf u]], .leaf B]) rfl (by decide) 9).mpr (by decide)

open C09ex in
-- … and is not trivially true: with the depth cut of the witness the conclusion fails.
example : (buildTree (env TAB 3) 0 S).2.cuts ≠ 0 := by decide

open C09ex in
-- `C09_terminates` on a cycle `S → A → S` with depth 8: three storage calls, no fuel problem.
example : (buildTree (env [⟨"g", 0, "m", A⟩, ⟨"g", 1, "m", S⟩, ⟨"g", 1, "m", u⟩] 8) 0 S).1
      = some (.union S [.union A [.leaf S, .leaf u]]) ∧
    (buildTree (env [⟨"g", 0, "m", A⟩, ⟨"g", 1, "m", S⟩, ⟨"g", 1, "m", u⟩] 8) 0 S).2.calls = 2 := ⟨rfl, by decide⟩

open C09ex in
-- pages: page size 1, three rows below S: three storage calls for S, one for A
example : (buildTree { T := [⟨"g", 0, "m", A⟩, ⟨"g", 0, "m", u⟩, ⟨"g", 0, "m", .id 1⟩, ⟨"g", 1, "m", .id 2⟩], g := 5, pageSize := 1 } 0 S).2.calls = 4 := by
  decide

end Keto
