/-
  C18 — relationship encodings are faithful on their documented domains.
  Statements and final proofs only; helper lemmas live in Keto/Proofs/EncodingLemmas.lean.

  The model (Keto/Model/Encoding.lean) is over `List Char`, i.e. over all valid-UTF-8 Go
  strings; it is tied to ketoapi by the correspondence stream `enc`.
-/
import Keto.Model.Encoding
import Keto.Proofs.EncodingLemmas
import Keto.Generated.Facts

namespace Keto
open Keto.Enc

/-! ## JSON tags (regenerated from the sources on every run) -/

/-- The keys and `omitempty` flags the JSON model encodes are the struct tags of
    `ketoapi.RelationTuple`, `SubjectSet`, `RelationQuery` as they are in the sources now. -/
theorem C18_json_tags_tie :
    Facts.jsonTags = [
      ("RelationTuple", "Namespace", "json:\"namespace\""),
      ("RelationTuple", "Object", "json:\"object\""),
      ("RelationTuple", "Relation", "json:\"relation\""),
      ("RelationTuple", "SubjectID", "json:\"subject_id,omitempty\""),
      ("RelationTuple", "SubjectSet", "json:\"subject_set,omitempty\""),
      ("SubjectSet", "Namespace", "json:\"namespace\""),
      ("SubjectSet", "Object", "json:\"object\""),
      ("SubjectSet", "Relation", "json:\"relation\""),
      ("RelationQuery", "Namespace", "json:\"namespace\""),
      ("RelationQuery", "Object", "json:\"object\""),
      ("RelationQuery", "Relation", "json:\"relation\""),
      ("RelationQuery", "SubjectID", "json:\"subject_id,omitempty\""),
      ("RelationQuery", "SubjectSet", "json:\"subject_set,omitempty\"")] := by decide

/-- … and the model's keys are these strings. -/
theorem C18_json_keys :
    String.ofList kNamespace = "namespace" ∧ String.ofList kObject = "object" ∧
    String.ofList kRelation = "relation" ∧ String.ofList kSubjectID = "subject_id" ∧
    String.ofList kSubjectSet = "subject_set" ∧
    String.ofList kSSNamespace = "subject_set.namespace" ∧
    String.ofList kSSObject = "subject_set.object" ∧
    String.ofList kSSRelation = "subject_set.relation" ∧ String.ofList kSubject = "subject" := by
  decide

/-! ## URL query -/

/-- URL query round trip for tuples: every tuple with exactly one subject kind, all field
    contents (empty strings, separators, anything). -/
theorem C18_url_tuple (t : RelationTuple) (h : t.oneSubject = true) :
    RelationTuple.fromURLQuery t.toURLQuery = .ok t := by
  obtain ⟨ns, obj, rel, sid, sset⟩ := t
  cases sid <;> cases sset <;> simp [RelationTuple.oneSubject] at h
  · rename_i ss
    obtain ⟨a, b, c⟩ := ss
    simp [RelationTuple.fromURLQuery, RelationTuple.toURLQuery, RelationQuery.toURLQuery,
      RelationQuery.fromURLQuery, optAdd, optGet, Values.add, Values.has, Values.get,
      kNamespace, kObject, kRelation, kSubjectID, kSSNamespace, kSSObject, kSSRelation, kSubject]
  · simp [RelationTuple.fromURLQuery, RelationTuple.toURLQuery, RelationQuery.toURLQuery,
      RelationQuery.fromURLQuery, optAdd, optGet, Values.add, Values.has, Values.get,
      kNamespace, kObject, kRelation, kSubjectID, kSSNamespace, kSSObject, kSSRelation, kSubject]

-- non-vacuity: separators, empty strings and non-ASCII text in every position.
example : RelationTuple.fromURLQuery
    (RelationTuple.toURLQuery ⟨"a:b#c@d".toList, [], "&=%+ ü".toList, none, some ⟨[], "(#)".toList, []⟩⟩)
    = .ok ⟨"a:b#c@d".toList, [], "&=%+ ü".toList, none, some ⟨[], "(#)".toList, []⟩⟩ :=
  C18_url_tuple _ (by decide)

/-- The hypothesis is needed: with both subject kinds set the subject id wins, with none
    the decoder answers `ErrNilSubject`. -/
theorem C18_url_tuple_side_condition :
    RelationTuple.fromURLQuery (RelationTuple.toURLQuery ⟨['n'], ['o'], ['r'], some ['i'], some ⟨['a'], ['b'], ['c']⟩⟩)
      = .ok ⟨['n'], ['o'], ['r'], some ['i'], none⟩ ∧
    RelationTuple.fromURLQuery (RelationTuple.toURLQuery ⟨['n'], ['o'], ['r'], none, none⟩)
      = .err .nilSubject := by decide

/-- URL query round trip for queries: any subset of the fields, at most one subject kind. -/
theorem C18_url_query (q : RelationQuery) (h : q.atMostOneSubject = true) :
    RelationQuery.fromURLQuery q.toURLQuery = .ok q := by
  obtain ⟨ns, obj, rel, sid, sset⟩ := q
  cases sid <;> cases sset <;> simp [RelationQuery.atMostOneSubject] at h <;>
    cases ns <;> cases obj <;> cases rel <;>
    simp [RelationQuery.toURLQuery, RelationQuery.fromURLQuery, optAdd, optGet, Values.add,
      Values.has, Values.get,
      kNamespace, kObject, kRelation, kSubjectID, kSSNamespace, kSSObject, kSSRelation, kSubject]

example : RelationQuery.fromURLQuery
    (RelationQuery.toURLQuery ⟨none, some [], some "r@".toList, some ":".toList, none⟩)
    = .ok ⟨none, some [], some "r@".toList, some ":".toList, none⟩ :=
  C18_url_query _ (by decide)

/-! ## Protobuf -/

/-- Proto round trip for tuples (`ToProto` then `FromDataProvider`, and `FromProto`). -/
theorem C18_proto_tuple (t : RelationTuple) (h : t.oneSubject = true) :
    ∃ p, t.toProto = .ok p ∧ RelationTuple.fromDataProvider p = .ok t ∧
      RelationTuple.fromProto p = .ok t := by
  obtain ⟨ns, obj, rel, sid, sset⟩ := t
  cases sid <;> cases sset <;> simp [RelationTuple.oneSubject] at h
  · exact ⟨_, rfl, rfl, rfl⟩
  · exact ⟨_, rfl, rfl, rfl⟩

example : ∃ p, (RelationTuple.mk [] ":#@".toList [] (some []) none).toProto = .ok p ∧
    RelationTuple.fromDataProvider p = .ok ⟨[], ":#@".toList, [], some [], none⟩ ∧
    RelationTuple.fromProto p = .ok ⟨[], ":#@".toList, [], some [], none⟩ :=
  C18_proto_tuple _ (by decide)

/-- Without a subject `ToProto` dereferences the nil subject set. -/
theorem C18_proto_tuple_side_condition :
    (RelationTuple.mk ['n'] ['o'] ['r'] none none).toProto = .err .panic := by decide

/-- Proto round trip for queries. -/
theorem C18_proto_query (q : RelationQuery) (h : q.atMostOneSubject = true) :
    RelationQuery.fromDataProvider q.toProto = .ok q := by
  obtain ⟨ns, obj, rel, sid, sset⟩ := q
  cases sid <;> cases sset <;> simp [RelationQuery.atMostOneSubject] at h <;> rfl

example : RelationQuery.fromDataProvider
    (RelationQuery.toProto ⟨some [], none, some "#".toList, none, some ⟨[], [], []⟩⟩)
    = .ok ⟨some [], none, some "#".toList, none, some ⟨[], [], []⟩⟩ :=
  C18_proto_query _ (by decide)

/-! ## JSON -/

/-- JSON round trip for tuples: the struct ↔ object mapping loses nothing, whatever the
    subject pointers are. -/
theorem C18_json_tuple (t : RelationTuple) : RelationTuple.fromJSON t.toJSON = .ok t := by
  obtain ⟨ns, obj, rel, sid, sset⟩ := t
  cases sid <;> cases sset <;>
    simp [RelationTuple.fromJSON, RelationTuple.toJSON, RelationTuple.decFields, omitEmptyStr,
      omitEmptySet, decLeafStr, decStr, decOptStr, decOptSet, SubjectSet.decFields,
      SubjectSet.toJSONFields,
      kNamespace, kObject, kRelation, kSubjectID, kSubjectSet]

example : RelationTuple.fromJSON
    (RelationTuple.toJSON ⟨[], "\"\\<>&".toList, "null".toList, none, some ⟨[], [], "é".toList⟩⟩)
    = .ok ⟨[], "\"\\<>&".toList, "null".toList, none, some ⟨[], [], "é".toList⟩⟩ :=
  C18_json_tuple _

/-- JSON round trip for queries (absent fields travel as `null` / are omitted). -/
theorem C18_json_query (q : RelationQuery) : RelationQuery.fromJSON q.toJSON = .ok q := by
  obtain ⟨ns, obj, rel, sid, sset⟩ := q
  cases sid <;> cases sset <;> cases ns <;> cases obj <;> cases rel <;>
    simp [RelationQuery.fromJSON, RelationQuery.toJSON, RelationQuery.decFields, omitEmptyStr,
      omitEmptySet, jOptStr, decStr, decOptStr, decOptSet, SubjectSet.decFields,
      SubjectSet.toJSONFields,
      kNamespace, kObject, kRelation, kSubjectID, kSubjectSet]

example : RelationQuery.fromJSON
    (RelationQuery.toJSON ⟨none, some [], none, some [], none⟩) = .ok ⟨none, some [], none, some [], none⟩ :=
  C18_json_query _

/-- The subject id / subject set distinction survives every codec: a decoded value is
    equal to the encoded one, in particular its subject kind is. (Corollary, stated for
    the record.) -/
theorem C18_subject_kind_preserved (t : RelationTuple) (h : t.oneSubject = true) :
    (∃ t', RelationTuple.fromURLQuery t.toURLQuery = .ok t' ∧
      t'.subjectID.isSome = t.subjectID.isSome ∧ t'.subjectSet.isSome = t.subjectSet.isSome) ∧
    (∃ t', RelationTuple.fromJSON t.toJSON = .ok t' ∧
      t'.subjectID.isSome = t.subjectID.isSome ∧ t'.subjectSet.isSome = t.subjectSet.isSome) :=
  ⟨⟨t, C18_url_tuple t h, rfl, rfl⟩, ⟨t, C18_json_tuple t, rfl, rfl⟩⟩

/-! ## String form -/

/-- `FromString (String x) = x` on the explicit domain `DomString`:
    namespace without `:`, object without `#`, relation without `@`; a subject id without `:`
    that neither starts nor ends with a parenthesis; a subject set whose namespace has no
    `:` / `#` and does not start with a parenthesis, whose object has no `#`, and whose last
    character (of the relation, or of the object when the relation is empty) is not a
    parenthesis. Everything else is free: `:` and `@` in objects, `#` `:` `@` in the
    subject-set relation, parentheses inside, empty fields, any Unicode. -/
theorem C18_string_dom (t : RelationTuple) (h : DomString t = true) :
    RelationTuple.fromStr t.toStr = .ok t :=
  RelationTuple.fromStr_toStr t h

-- non-vacuity: an inhabitant with separators in the non-significant positions.
example : DomString ⟨"n#@(".toList, "o:@)".toList, ":#r(".toList, none,
    some ⟨"a@)".toList, "b:(@".toList, "#:@()x".toList⟩⟩ = true := by decide
example : RelationTuple.fromStr (RelationTuple.toStr ⟨"n#@(".toList, "o:@)".toList, ":#r(".toList, none,
    some ⟨"a@)".toList, "b:(@".toList, "#:@()x".toList⟩⟩)
    = .ok ⟨"n#@(".toList, "o:@)".toList, ":#r(".toList, none,
    some ⟨"a@)".toList, "b:(@".toList, "#:@()x".toList⟩⟩ :=
  C18_string_dom _ (by decide)
example : DomString ⟨[], [], [], some "#@ü(x)y".toList, none⟩ = true := by decide

/-- Each condition of `DomString` is needed: dropping any one of them lets through a tuple that
    does not survive (one witness per condition). -/
theorem C18_string_dom_tight :
    RelationTuple.fromStr (RelationTuple.toStr ⟨[':'], [], [], some [], none⟩) ≠ .ok ⟨[':'], [], [], some [], none⟩ ∧
    RelationTuple.fromStr (RelationTuple.toStr ⟨[], ['#'], [], some [], none⟩) ≠ .ok ⟨[], ['#'], [], some [], none⟩ ∧
    RelationTuple.fromStr (RelationTuple.toStr ⟨[], [], ['@'], some [], none⟩) ≠ .ok ⟨[], [], ['@'], some [], none⟩ ∧
    RelationTuple.fromStr (RelationTuple.toStr ⟨[], [], [], some [':'], none⟩) ≠ .ok ⟨[], [], [], some [':'], none⟩ ∧
    RelationTuple.fromStr (RelationTuple.toStr ⟨[], [], [], some ['('], none⟩) ≠ .ok ⟨[], [], [], some ['('], none⟩ ∧
    RelationTuple.fromStr (RelationTuple.toStr ⟨[], [], [], some ['x', ')'], none⟩) ≠ .ok ⟨[], [], [], some ['x', ')'], none⟩ ∧
    RelationTuple.fromStr (RelationTuple.toStr ⟨[], [], [], none, some ⟨[':'], [], []⟩⟩) ≠ .ok ⟨[], [], [], none, some ⟨[':'], [], []⟩⟩ ∧
    RelationTuple.fromStr (RelationTuple.toStr ⟨[], [], [], none, some ⟨['#'], [], []⟩⟩) ≠ .ok ⟨[], [], [], none, some ⟨['#'], [], []⟩⟩ ∧
    RelationTuple.fromStr (RelationTuple.toStr ⟨[], [], [], none, some ⟨['('], [], []⟩⟩) ≠ .ok ⟨[], [], [], none, some ⟨['('], [], []⟩⟩ ∧
    RelationTuple.fromStr (RelationTuple.toStr ⟨[], [], [], none, some ⟨[], ['#'], ['r']⟩⟩) ≠ .ok ⟨[], [], [], none, some ⟨[], ['#'], ['r']⟩⟩ ∧
    RelationTuple.fromStr (RelationTuple.toStr ⟨[], [], [], none, some ⟨[], [')'], []⟩⟩) ≠ .ok ⟨[], [], [], none, some ⟨[], [')'], []⟩⟩ ∧
    RelationTuple.fromStr (RelationTuple.toStr ⟨[], [], [], none, some ⟨[], [], ['r', ')']⟩⟩) ≠ .ok ⟨[], [], [], none, some ⟨[], [], ['r', ')']⟩⟩ := by
  decide

/-- `DomString` is the weakest condition: a tuple survives print / parse if and only if it is
    in `DomString` (for every tuple, whatever its subject pointers are). -/
theorem C18_string_dom_iff (t : RelationTuple) :
    RelationTuple.fromStr t.toStr = .ok t ↔ DomString t = true :=
  RelationTuple.fromStr_toStr_iff t

example : ¬ RelationTuple.fromStr (RelationTuple.toStr ⟨['n'], ['o', '#'], ['r'], some ['s'], none⟩)
    = .ok ⟨['n'], ['o', '#'], ['r'], some ['s'], none⟩ :=
  fun h => absurd ((C18_string_dom_iff _).1 h) (by decide)

/-- Malformed text is rejected: an input without `:`; with a `:` but no `#` after the first
    `:`; with both but no `@` after the first `#` that follows the first `:` — in the order
    the parser looks for them. -/
theorem C18_reject :
    (∀ s, contains ':' s = false → RelationTuple.fromStr s = .err .malformed) ∧
    (∀ ns r, contains ':' ns = false → contains '#' r = false →
      RelationTuple.fromStr (ns ++ ':' :: r) = .err .malformed) ∧
    (∀ ns obj r, contains ':' ns = false → contains '#' obj = false → contains '@' r = false →
      RelationTuple.fromStr (ns ++ ':' :: (obj ++ '#' :: r)) = .err .malformed) :=
  ⟨fun _ h => RelationTuple.fromStr_no_colon h,
   fun _ _ h1 h2 => RelationTuple.fromStr_no_hash h1 h2,
   fun _ _ _ h1 h2 h3 => RelationTuple.fromStr_no_at h1 h2 h3⟩

example : RelationTuple.fromStr "no separators".toList = .err .malformed ∧
    RelationTuple.fromStr "n:o@s#r".toList = .err .malformed ∧
    RelationTuple.fromStr "n:o#r:s".toList = .err .malformed ∧
    RelationTuple.fromStr "n:o#r@(a)".toList = .ok ⟨['n'], ['o'], ['r'], some ['a'], none⟩ := by decide

/-- … and a subject with a `:` that is not a well-formed subject set is rejected as well:
    the only way is a `#` before the first `:`. -/
theorem C18_reject_subject : RelationTuple.fromStr "n:o#r@#a:b".toList = .err .malformed := by decide

/-- What is accepted is never mis-parsed silently, outside one class: every successful
    parse is a tuple with exactly one subject kind that lies in `DomString` or in
    `TrimClass`, and the two are disjoint. -/
theorem C18_parse_image (s : Str) (t : RelationTuple) (h : RelationTuple.fromStr s = .ok t) :
    t.oneSubject = true ∧ (DomString t = true ∨ TrimClass t = true) ∧
    (TrimClass t = true → DomString t = false) :=
  ⟨RelationTuple.fromStr_oneSubject h, RelationTuple.fromStr_dom_or_trim h, TrimClass_not_dom t⟩

/-
  Full statement — NOT provable on the current tree (see `C18_trim_counterexample`):

    theorem C18_idempotent (s : Str) (t : RelationTuple) (h : RelationTuple.fromStr s = .ok t) :
        RelationTuple.fromStr t.toStr = .ok t

  `FromString` strips every leading and trailing parenthesis of the subject
  (`strings.Trim(subject, "()")`) and `SubjectSet.String()` drops the `#` of an empty
  relation, so `…@a:b)#` parses to object `b)`, prints as `…@a:b)` and re-parses to `b`.
-/

/-- Print/re-parse is the identity on everything the parser returns, except on the class of
    the recorded finding (subject set, empty relation, object ending with a parenthesis). -/
theorem C18_idempotent_partial (s : Str) (t : RelationTuple)
    (h : RelationTuple.fromStr s = .ok t) (hc : TrimClass t = false) :
    RelationTuple.fromStr t.toStr = .ok t := by
  rcases RelationTuple.fromStr_dom_or_trim h with hd | ht
  · exact C18_string_dom t hd
  · rw [hc] at ht; cases ht

-- non-vacuity: parentheses around the subject set are stripped and the result is stable.
example : RelationTuple.fromStr "n:o#r@(a:b#c)".toList = .ok ⟨['n'], ['o'], ['r'], none, some ⟨['a'], ['b'], ['c']⟩⟩ ∧
    TrimClass ⟨['n'], ['o'], ['r'], none, some ⟨['a'], ['b'], ['c']⟩⟩ = false := by decide
example : RelationTuple.fromStr (RelationTuple.toStr ⟨['n'], ['o'], ['r'], none, some ⟨['a'], ['b'], ['c']⟩⟩)
    = .ok ⟨['n'], ['o'], ['r'], none, some ⟨['a'], ['b'], ['c']⟩⟩ :=
  C18_idempotent_partial "n:o#r@(a:b#c)".toList _ (by decide) (by decide)

/-- The witness of the finding: `n:o#r@a:b)#` parses to the subject-set object `b)`, prints as
    `n:o#r@a:b)` and re-parses to the object `b` — the negation of the full statement. -/
theorem C18_trim_counterexample :
    ∃ t, RelationTuple.fromStr ['n',':','o','#','r','@','a',':','b',')','#'] = .ok t ∧
      t = ⟨['n'], ['o'], ['r'], none, some ⟨['a'], ['b', ')'], []⟩⟩ ∧
      t.toStr = ['n',':','o','#','r','@','a',':','b',')'] ∧
      TrimClass t = true ∧
      RelationTuple.fromStr t.toStr = .ok ⟨['n'], ['o'], ['r'], none, some ⟨['a'], ['b'], []⟩⟩ ∧
      RelationTuple.fromStr t.toStr ≠ .ok t :=
  ⟨_, rfl, rfl, by decide, by decide, by decide, by decide⟩

/-- The class of the finding is exact: every tuple in `TrimClass` is changed by print /
    re-parse, so `C18_idempotent_partial` cannot be extended to any part of it. -/
theorem C18_trim_class_exact (t : RelationTuple) (hc : TrimClass t = true) :
    RelationTuple.fromStr t.toStr ≠ .ok t :=
  trim_reparse_ne t hc

example : RelationTuple.fromStr (RelationTuple.toStr ⟨[], [], [], none, some ⟨[], ['('], []⟩⟩)
    ≠ .ok ⟨[], [], [], none, some ⟨[], ['('], []⟩⟩ :=
  C18_trim_class_exact _ (by decide)

end Keto
