/-
  C13 — no request can crash a handler; malformed requests are client errors.

  Partial by construction: the model is a finite classification (endpoint × mutation
  kind → allowed answer classes), validated against the real handlers on every run;
  the theorems are about every cell of that table. "State untouched when status
  >= 400" is C04_rejected_no_effect / C17 on the model side and is observed on every
  generated request (table dumps before/after).
-/
import Keto.Model.HandlerTable

namespace Keto.HT

def okOrClient (c : Class) : Bool := c == .ok || c == .client

theorem noServerB : table.all (fun r => r.2.2.all okOrClient) = true := by decide +kernel
theorem nonemptyB : table.all (fun r => !r.2.2.isEmpty) = true := by decide +kernel
theorem rejectedB : table.all (fun r => !mustReject r.1 r.2.1 || r.2.2 == [.client]) = true := by decide +kernel
theorem functionalB : (table.map (fun r => (r.1, r.2.1))).Nodup := by decide +kernel

/-- No cell of the classification admits a 5xx / Internal answer or a panic. -/
theorem C13_no_server_no_panic :
    ∀ r ∈ table, ∀ c ∈ r.2.2, c = .ok ∨ c = .client := by
  intro r hr c hc
  have h := List.all_eq_true.mp noServerB r hr
  have h2 := List.all_eq_true.mp h c hc
  simp only [okOrClient, Bool.or_eq_true, beq_iff_eq] at h2
  exact h2

/-- Every cell admits at least one answer (the handler returns). -/
theorem C13_cells_nonempty : ∀ r ∈ table, r.2.2 ≠ [] := by
  intro r hr
  have h := List.all_eq_true.mp nonemptyB r hr
  intro he
  simp [he] at h

/-- Requests that are malformed beyond doubt are answered with a client error only. -/
theorem C13_malformed_rejected :
    ∀ r ∈ table, mustReject r.1 r.2.1 = true → r.2.2 = [.client] := by
  intro r hr hm
  have h := List.all_eq_true.mp rejectedB r hr
  simp only [hm, Bool.not_true, Bool.false_or, beq_iff_eq] at h
  exact h

/-- Each (endpoint, mutation) pair occurs once. -/
theorem C13_table_functional : (table.map (fun r => (r.1, r.2.1))).Nodup := functionalB

-- non-vacuity: the table has malformed cells that must be rejected, and cells that succeed
example : lookup "w-patch" "null-element" = some [.client] ∧ lookup "r-check" "valid" = some [.ok] ∧
    mustReject "w-patch" "null-element" = true := by decide +kernel
example : (table.filter (fun r => mustReject r.1 r.2.1)).length ≥ 20 := by decide +kernel

end Keto.HT
