/-
  C17 — the read API never modifies stored state (model-level theorems).
  Statements and final proofs only; helper lemmas live in Keto/Proofs/StoreLemmas.lean.

  In the model every operation returns the database it leaves behind (`DB`: the relationship table and the
  name-mapping table).  The mappers go through `mapStrings readOnly`: the writing mapper inserts the names
  of the request into the mapping table, the read-only mapper computes the ids and inserts nothing.  The tie
  between "read API" and "uses only the read-only mapper and only Get/Exists" is the regenerated route and
  mapper-use tables (checked elsewhere); here: every read operation of the model is state preserving.
-/
import Keto.Model.Store
import Keto.Proofs.StoreLemmas

namespace Keto.Store

/-- The read-only mapping manager (`MapStringsToUUIDsReadOnly`) leaves the database alone, for any names —
    known or never seen — while the writing one does insert never-seen names (see the example below). -/
theorem C17_readOnly_mapper (ck : Chunking) (fail : Oracle) (nid : Nat) (strs : List Nat) (db : DB) :
    mapStrings true ck fail nid strs db = (true, db) := rfl

theorem C17_mapQuery_preserves (ck : Chunking) (cfg : Names) (fail : Oracle) (nid : Nat) (q : Query) (db : DB) :
    (mapQuery true ck cfg fail nid q db).2 = db := mapQuery_readOnly_snd ck cfg fail nid q db

/-- `GetRelationTuples` and `ExistsRelationTuples` are functions of the table: each read operation of the model
    (one page through the API, a complete listing through the API, `Persister.GetRelationTuples`,
    `Persister.ExistsRelationTuples`, a check/expand/… request whose names go through the read-only mapper)
    returns the database unchanged — valid or invalid arguments, unknown namespaces, never-seen names,
    negative sizes, malformed tokens. -/
theorem C17_reads_preserve (ck : Chunking) (cfg : Names) (nid : Nat) (db : DB) :
    (∀ q size tok, (listReq ck cfg nid q size tok db).2 = db) ∧
    (∀ q size, (listAllReq ck cfg nid q size db).2 = db) ∧
    (∀ q size tok, (pList nid q size tok db).2 = db) ∧
    (∀ q, (pExists nid q db).2 = db) ∧
    (∀ strs, (readOnlyMap ck nid strs db).2 = db) :=
  ⟨fun q size tok => listReq_snd ck cfg nid q size tok db,
   fun q size => listAllReq_snd ck cfg nid q size db,
   fun q size tok => pList_snd nid q size tok db,
   fun q => pExists_snd nid q db,
   fun strs => readOnlyMap_snd ck nid strs db⟩

/-- For all sequences of read requests, in any networks, whatever the fault oracle: the database after is the
    database before (both tables, byte for byte in the model: `DB` equality). -/
theorem C17_readonly (ck : Chunking) (cfg : Names) (fail : Oracle) (h : History)
    (hread : ∀ x ∈ h, x.2.isRead = true) (db : DB) :
    (run ck cfg fail h db).2 = db := by
  induction h generalizing db with
  | nil => rfl
  | cons x h ih =>
    rcases x with ⟨nid, op⟩
    simp only [run]
    rw [step_read ck cfg fail nid op db (hread (nid, op) (by simp))]
    exact ih (fun y hy => hread y (List.mem_cons_of_mem _ hy)) db

/-- Conversely only write requests change state: if a run changed the database, it contains a write request. -/
theorem C17_only_writes_change (ck : Chunking) (cfg : Names) (fail : Oracle) (h : History) (db : DB)
    (hch : (run ck cfg fail h db).2 ≠ db) : ∃ x ∈ h, x.2.isRead = false := by
  apply Classical.byContradiction
  intro hno
  apply hch
  apply C17_readonly
  intro x hx
  cases hr : x.2.isRead with
  | true => rfl
  | false => exact absurd ⟨x, hx, hr⟩ hno

/-! ### Non-vacuity -/
namespace C17ex

def t (o : Nat) : Tuple := ⟨"doc", o, "viewer", .id 1⟩
def db : DB := { rows := [⟨10, 0, t 1⟩, ⟨20, 0, t 2⟩], maps := [(0, 1), (0, 2)] }

/-- Reads with never-seen names (77, 78), an unknown namespace, a negative size, a bad token. -/
def reads : History := [
  (0, .list (some { obj := some 77 }) 1 .empty), (0, .list (some { ns := some "nope" }) 0 .empty),
  (0, .listAll (some {}) 1), (0, .list (some {}) (-1) .empty), (0, .list (some {}) 2 .bad),
  (0, .pExists { sub := some (.id 78) }), (0, .readOnlyMap [77, 78, 79]), (0, .list none 0 .empty)]

-- the reads are answered (not all rejected) …
example : (run {} ["doc"] noFail reads db).1.map (·.status) = [.ok, .notFound, .ok, .bad, .bad, .ok, .ok, .bad] := by
  decide
-- … and leave both tables alone,
example : (run {} ["doc"] noFail reads db).2 = db := by decide
-- whereas the WRITING mapper does insert a never-seen name: the distinction the property rests on is real.
example : (mapStrings false {} noFail 0 [77] db).2.maps = [(0, 1), (0, 2), (0, 77)] := by decide
example : (step {} ["doc"] noFail 0 (.restCreate { ns := "doc", obj := 77, rel := "r", sid := some 78 } 5) db).2.maps
    = [(0, 1), (0, 2), (0, 78), (0, 77)] := by decide

end C17ex

end Keto.Store
