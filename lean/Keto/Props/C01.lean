/-
  C01 — check decisions equal the relationship-graph semantics.
  Statements and final proofs only; helper lemmas live in Keto/Proofs.
-/
import Keto.Model.Engine
import Keto.Spec.Membership
import Keto.Spec.Positive
import Keto.Proofs.FactsTie
import Keto.Proofs.EngineSound

namespace Keto

/-- The depth tests, depth arguments and `skipDirect` literals of every recursive call in
    engine.go / rewrites.go MEAN what `Keto.build` encodes: the conditions and arguments are translated
    from the Go expressions on every run (`Facts.cond<i>`, `Facts.arg<i>`) and compared as functions
    on `Int`; the sites are compared as tables. -/
theorem C01_depth_sites_tie :
    (∀ g r : Int, Facts.cond0 g r = decide (r ≤ 0 ∨ g < r)) ∧
    (∀ d : Int, Facts.cond1 d = decide (d ≤ 0) ∧ Facts.cond2 d = decide (d ≤ 0) ∧ Facts.cond3 d = decide (d ≤ 0) ∧
      Facts.cond4 d = decide (d ≤ 0)) ∧
    (∀ d : Int, Facts.cond5 d = decide (d < 0) ∧ Facts.cond6 d = decide (d < 0) ∧ Facts.cond7 d = decide (d < 0)) ∧
    (∀ d : Int, Facts.arg3 d = d - 1 ∧ Facts.arg4 d = d - 1 ∧ Facts.arg5 d = d - 1 ∧ Facts.arg8 d = d - 1 ∧
      Facts.arg14 d = d - 1 ∧ Facts.arg15 d = d - 1) ∧
    (Facts.depthArgs == FactsTie.expectedArgSites) = true ∧ (FactsTie.callLits == FactsTie.expectedCallLits) = true :=
  ⟨fun g r => (FactsTie.clamp_sem g r).1, FactsTie.guards_le0_sem, FactsTie.guards_lt0_sem, FactsTie.args_minus1_sem,
   FactsTie.argSites_tie, FactsTie.callLits_tie⟩

/-- Soundness, positive fragment: for every configuration without `!`, every store, every depth/width limits,
    every fault oracle, every fuel: an `isMember` answer implies membership in the Zanzibar semantics. -/
theorem C01_sound_pos (E : Env) (hc : Cfg.pos E.cfg) (g : Int) (fuel : Nat) (q : Tuple) (r : Int) :
    (check E g fuel q r).1.memb = .isMember → Mem E.cfg E.T q :=
  build_sound E hc fuel (.isAllowed q (effDepth r g) false) {} {} rfl {} _

namespace C01ex

/-- `doc.view = viewers.includes || parents.traverse(p => p.view)`, `folder.view = viewers.includes`. -/
def cfg : Cfg := [
  ⟨"doc", [⟨"viewers", [⟨"user", ""⟩], none⟩,
           ⟨"parents", [⟨"folder", ""⟩], none⟩,
           ⟨"view", [], some ⟨.or, [.computed "viewers", .ttu "parents" "view"]⟩⟩]⟩,
  ⟨"folder", [⟨"viewers", [⟨"user", ""⟩], none⟩,
              ⟨"view", [], some ⟨.or, [.computed "viewers"]⟩⟩]⟩]

def env : Env where
  cfg := cfg
  strict := false
  maxWidth := 100
  T := [⟨"doc", 1, "parents", .set "folder" 2 ""⟩,
        ⟨"folder", 2, "viewers", .id 7⟩,
        ⟨"doc", 1, "viewers", .id 8⟩]
  fails := fun _ => false
  pageSize := 100

/-- user 7 may view doc 1 through the parent folder 2. -/
def q : Tuple := ⟨"doc", 1, "view", .id 7⟩

end C01ex

-- non-vacuity: the hypothesis of `C01_sound_pos` is satisfiable and its premise is met by a concrete
-- check (through the tuple-to-subject-set branch of the rewrite), so the conclusion `Mem` is really derived.
example : Cfg.pos C01ex.env.cfg ∧ (check C01ex.env 5 200 C01ex.q 0).1.memb = .isMember :=
  ⟨Cfg.pos_of_posB (by decide), by decide⟩

-- … and the model does not answer `isMember` for everybody (user 9 has no path to doc 1).
example : (check C01ex.env 5 200 ⟨"doc", 1, "view", .id 9⟩ 0).1 = Res.nm := by decide

example : Mem C01ex.env.cfg C01ex.env.T C01ex.q :=
  C01_sound_pos C01ex.env (Cfg.pos_of_posB (by decide)) 5 200 C01ex.q 0 (by decide)

end Keto
