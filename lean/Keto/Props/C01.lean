/-
  C01 — check decisions equal the relationship-graph semantics.
  Statements and final proofs only; helper lemmas live in Keto/Proofs.
-/
import Keto.Model.Engine
import Keto.Spec.Membership
import Keto.Spec.Positive
import Keto.Proofs.FactsTie

namespace Keto

/-- The depth guards, depth arguments and `skipDirect` literals of every recursive
    call in engine.go / rewrites.go are the ones `Keto.build` encodes (regenerated
    from the sources on every run). -/
theorem C01_depth_sites_tie :
    Facts.depthGuards = FactsTie.expectedDepthGuards ∧ Facts.depthCalls = FactsTie.expectedDepthCalls :=
  ⟨FactsTie.depthGuards_tie, FactsTie.depthCalls_tie⟩

end Keto
