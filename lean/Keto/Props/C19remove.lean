/-
  C19, continued — file removals and configuration reloads.

  (1) Removals, legacy watcher (namespace_watcher.go, `handleRemove` deletes the file's entry): the
      statement of `C19_legacy` for ALL histories. What is visible for file `p` is the last valid version
      written to `p` SINCE `p` WAS LAST REMOVED (`lastValidSinceRemove`, a left fold over the history):
      a removed file stops being served, a re-created one is served again — also when its content is
      byte-identical to the version before the removal — and removing one file never changes what is
      visible for another. Without removes the specification is `lastValid`, so the theorem extends
      `C19_legacy`. For the OPL watcher `C19_opl_global` (Keto/Props/C19.lean) already covers removes;
      here only the "comes back" statement for a single watched file.

  (2) Configuration reloads (`Config.watcher`, provider.go): after a hot reload of the main configuration
      the current namespace manager is asked `ShouldReload`; with an unchanged target the watcher is kept
      (`CEv.reload true`), with a changed one it is dropped and a new one starts from nothing
      (`CEv.reload false`). Unrelated reloads are invisible (`C19_unrelated_reload_invisible_*`: the state
      is what the file events alone produce, so every C19 theorem applies to such histories); a watcher
      that is REBUILT on an unrelated reload loses its last good version
      (`C19_rebuild_loses_last_good_counterexample` — the defect that was repaired in the OPL watcher).

  Statements and final proofs only; helper lemmas live in Keto/Proofs/WatcherRemoveLemmas.lean.
-/
import Keto.Model.Watcher
import Keto.Proofs.WatcherLemmas
import Keto.Proofs.WatcherRemoveLemmas

namespace Keto
open W

/-! ### removals: legacy watcher -/

/-- Keep-last-good with removals, per file, for EVERY history: the namespaces visible for file `p` are
    those of the last valid version written to `p` since `p` was last removed (nothing if there is
    none). -/
theorem C19_legacy_with_removes (parse : Parse) (es : List Ev) (p : String) :
    lvisible (lrun parse es) p = lastValidSinceRemove parse p es :=
  lvisible_foldl_since parse [] es p List.nodup_nil

/-- … at every instant. -/
theorem C19_legacy_with_removes_every_prefix (parse : Parse) (es : List Ev) (p : String)
    (pre : List Ev) (_hpre : pre <+: es) :
    lvisible (lrun parse pre) p = lastValidSinceRemove parse p pre :=
  C19_legacy_with_removes parse pre p

/-- On remove-free histories the new specification is the old one: `C19_legacy_with_removes` extends
    `C19_legacy`. -/
theorem C19_legacy_with_removes_agrees (parse : Parse) (es : List Ev) (p : String)
    (h : noRemove es = true) :
    lastValidSinceRemove parse p es = lastValid parse p es := by
  rw [lastValidSinceRemove, since_foldl_noRemove parse p none es h]
  cases lastValid parse p es <;> rfl

/-- A removed file is no longer served (whatever was valid before). -/
theorem C19_legacy_removed_gone (parse : Parse) (es : List Ev) (p : String) :
    lvisible (lrun parse (es ++ [.remove p])) p = none := by
  rw [C19_legacy_with_removes, lastValidSinceRemove_snoc]
  simp [sinceStep]

/-- A file that is removed and re-created with valid content — even byte-identical to its last version
    — takes effect again. -/
theorem C19_legacy_comes_back (parse : Parse) (es : List Ev) (p : String) (c : Content)
    (nss : List String) (h : parse c = some nss) :
    lvisible (lrun parse (es ++ [.remove p, .change p c])) p = some nss := by
  rw [C19_legacy_with_removes]
  simp [lastValidSinceRemove, List.foldl_append, sinceStep, h]

/-- The same for the OPL watcher with a single watched file. -/
theorem C19_opl_comes_back (parse : Parse) (es : List Ev) (p : String) (c : Content)
    (nss : List String) (h : parse c = some nss)
    (hsingle : ∀ e ∈ es, (∃ c', e = .change p c') ∨ e = .remove p) :
    (orun parse (es ++ [.remove p, .change p c])).visible = [(p, nss)] := by
  have hfiles : (orun parse (es ++ [.remove p])).files = [] := by
    rw [orun_snoc, ostep_files]
    rcases ofiles_foldl_single parse p {} es (Or.inl rfl) hsingle with h0 | ⟨c0, h0⟩
    · rw [orun, h0]; rfl
    · rw [orun, h0]; simp [filesStep, del]
  have happ : es ++ [Ev.remove p, Ev.change p c] = (es ++ [Ev.remove p]) ++ [Ev.change p c] := by
    simp
  rw [happ, orun_snoc, ostep_visible, hfiles]
  simp [filesStep, put, parseAll, h]

/-- Removing one file never changes what is visible for another. -/
theorem C19_legacy_remove_other (parse : Parse) (es : List Ev) (p q : String)
    (hne : (q == p) = false) :
    lvisible (lrun parse (es ++ [.remove q])) p = lvisible (lrun parse es) p := by
  rw [lrun_snoc, lvisible_lstep_remove parse _ q p (lrun_keys_nodup parse es), hne]
  rfl

/-! ### configuration reloads -/

/-- Unrelated configuration reloads are invisible to the legacy watcher: the state — hence everything
    served — is what the file events alone produce. -/
theorem C19_unrelated_reload_invisible_legacy (parse : Parse) (es : List CEv)
    (h : unrelatedOnly es = true) :
    lrunC parse es = lrun parse (fileEvents es) :=
  lfoldlC_unrelated parse [] es h

/-- … and to the OPL watcher. -/
theorem C19_unrelated_reload_invisible_opl (parse : Parse) (es : List CEv)
    (h : unrelatedOnly es = true) :
    orunC parse es = orun parse (fileEvents es) :=
  ofoldlC_unrelated parse {} es h

/-- The parser of the witnesses: content 1 is valid and declares namespace "A", nothing else parses. -/
def C19r_parse : Parse := fun c => if c == 1 then some ["A"] else none

/-- Keep-last-good across an unrelated reload holds only because the watcher is KEPT: on the history
    valid(A) · invalid · reload, a watcher that is rebuilt on the reload (`.reload false` in place of
    `.reload true`) serves nothing although a valid version was loaded and the file on disk is still
    the invalid one; the kept watcher serves "A". For both watchers (for the OPL watcher this is the
    defect that was repaired in the Go code). -/
theorem C19_rebuild_loses_last_good_counterexample :
    lvisible (lrunC C19r_parse [.file (.change "a" 1), .file (.change "a" 0), .reload true]) "a"
      = some ["A"] ∧
    lvisible (lrunC C19r_parse [.file (.change "a" 1), .file (.change "a" 0), .reload false]) "a"
      = none ∧
    lall (lrunC C19r_parse [.file (.change "a" 1), .file (.change "a" 0), .reload true]) = ["A"] ∧
    lall (lrunC C19r_parse [.file (.change "a" 1), .file (.change "a" 0), .reload false]) = [] ∧
    oall (orunC C19r_parse [.file (.change "a" 1), .file (.change "a" 0), .reload true]) = ["A"] ∧
    oall (orunC C19r_parse [.file (.change "a" 1), .file (.change "a" 0), .reload false]) = [] ∧
    -- the rebuilt watcher then loads the target again and finds only the invalid version
    oall (orunC C19r_parse [.file (.change "a" 1), .file (.change "a" 0), .reload false,
      .file (.change "a" 0)]) = [] ∧
    lastValid C19r_parse "a" (fileEvents [.file (.change "a" 1), .file (.change "a" 0), .reload false])
      = some ["A"] := by
  decide

/-! ### non-vacuity -/

/-- One file, history valid · invalid · remove · invalid · valid (byte-identical to the first version) ·
    remove of ANOTHER file: what is visible after each prefix, the specification on the same prefixes,
    and the OPL watcher on the remove / re-create part. -/
example :
    lvisible (lrun C19r_parse [.change "a" 1, .change "a" 0]) "a" = some ["A"] ∧
    lvisible (lrun C19r_parse [.change "a" 1, .change "a" 0, .remove "a"]) "a" = none ∧
    lvisible (lrun C19r_parse [.change "a" 1, .change "a" 0, .remove "a", .change "a" 0]) "a" = none ∧
    lvisible (lrun C19r_parse [.change "a" 1, .change "a" 0, .remove "a", .change "a" 0,
      .change "a" 1]) "a" = some ["A"] ∧
    lvisible (lrun C19r_parse [.change "a" 1, .change "a" 0, .remove "a", .change "a" 0,
      .change "a" 1, .remove "b"]) "a" = some ["A"] ∧
    lastValidSinceRemove C19r_parse "a" [.change "a" 1, .change "a" 0, .remove "a"] = none ∧
    lastValidSinceRemove C19r_parse "a" [.change "a" 1, .change "a" 0, .remove "a", .change "a" 0]
      = none ∧
    lastValidSinceRemove C19r_parse "a" [.change "a" 1, .change "a" 0, .remove "a", .change "a" 0,
      .change "a" 1] = some ["A"] ∧
    -- `lastValid` (which ignores removes) differs exactly here
    lastValid C19r_parse "a" [.change "a" 1, .change "a" 0, .remove "a"] = some ["A"] ∧
    noRemove [.change "a" 1, .change "a" 0, .remove "a"] = false ∧
    (orun C19r_parse [.change "a" 1, .remove "a"]).visible = [] ∧
    (orun C19r_parse [.change "a" 1, .remove "a", .change "a" 1]).visible = [("a", ["A"])] := by
  decide

/-- Reloads: a history with unrelated reloads only, its file events, and the two runs. -/
example :
    unrelatedOnly [.file (.change "a" 1), .reload true, .file (.change "a" 0), .reload true] = true ∧
    fileEvents [.file (.change "a" 1), .reload true, .file (.change "a" 0), .reload true]
      = [.change "a" 1, .change "a" 0] ∧
    unrelatedOnly [.file (.change "a" 1), .reload false] = false ∧
    lall (lrunC C19r_parse [.file (.change "a" 1), .reload true, .file (.change "a" 0), .reload true])
      = ["A"] ∧
    oall (orunC C19r_parse [.file (.change "a" 1), .reload true, .file (.change "a" 0), .reload true])
      = ["A"] := by
  decide

end Keto
