/-
  C01 — exactness of the check engine for ALL configurations, `!` included, against the declarative
  semantics with stratified negation `Tr` / `Fa` (Keto/Spec/Stratified.lean):

    no error ∧ no depth/width limit event in the whole run  ⇒
      (`isMember` ⇒ `Tr q`)  ∧  (not `isMember` ⇒ `Fa q`)          (`C01_exact_all`)

  hence `isMember ↔ Tr q` (`C01_exact_all_iff`, with `tr_fa_exclusive`) and agreement with the run-time
  oracle `refEval` whenever that answers (`C01_exact_all_refEval`, with `refEval_decides`).

  Both directions are proved TOGETHER, by one induction on the fuel over `build` (`build_exact`,
  Keto/Proofs/EngineExactRewrite.lean): with `!`, soundness is no longer unconditional — `!c` answers
  `isMember` when `c` answered `notMember`, which proves `c` false only if the evaluation of `c` made no
  limit event (a depth cut is collapsed to `notMember` by the groups: `C01_exact_limit_counterexample`
  below) — so the `isMember` side needs the refutation side of the operand and vice versa.

  Hypotheses:
  * `E.strict = true → conforms E.cfg E.T`: as for the positive fragment (C01complete.lean);
  * `err = none`, `limitHits = 0`: no error in the answer, no limit event anywhere in the run.
  Not needed: absence of storage faults, a fuel bound, stratification of the instance (on a
  non-stratified instance such as `p = !p` the engine cannot finish without limit event or error —
  this is a consequence: neither `Tr` nor `Fa` holds there, `refEval_not_stratified_bad`).

  Design of the proof (helpers in Keto/Proofs/EngineExact{Logic,Loops,Allowed,Rewrite}.lean): the
  engine's `notMember` answers are first turned into refutations `FaE` shaped like the engine's
  depth-first search (the visited set is consulted only at subject-set expansions; the subject set
  expanded into is the one that is marked), with constructive counterparts of the "dead node" /
  "extension by dead nodes" reasoning of the positive completeness proof (weakening, cut elimination);
  a closed `FaE` refutation is then converted into a refutation `FaN` of the stratified semantics
  (`FaE.toFaN`: `FaN` allows a cut at every node of the current path — more cuts, same meaning).

  Statements and final proofs only.
-/
import Keto.Model.Engine
import Keto.Spec.Membership
import Keto.Spec.Stratified
import Keto.Proofs.EngineExactRewrite
import Keto.Props.C01neg

namespace Keto

/-- Exactness, engine-shaped form: an `isMember` answer is backed by a derivation, any other answer
    without error by a closed refutation shaped like the engine's search (`FaE`). -/
theorem C01_exact_all_engine (E : Env) (hs : E.strict = true → conforms E.cfg E.T = true) (g : Int) (fuel : Nat)
    (q : Tuple) (r : Int) :
    (check E g fuel q r).2.limitHits = 0 →
    ((check E g fuel q r).1.memb = .isMember → Tr E.cfg E.T q) ∧
    ((check E g fuel q r).1.decisive = false →
      (check E g fuel q r).1.memb = .notMember ∧ ∃ k, FaE E.cfg E.T k [] q) := by
  intro hlim
  have hv : Valid ({} : Ctx) ({} : World) := Valid.of_none rfl
  obtain ⟨res, he, hr⟩ :=
    (build_exact E hs fuel (.isAllowed q (effDepth r g) false) {} {} (fun h => by cases h) hv).eager rfl
  have hcheck : check E g fuel q r = (res, (build E fuel (.isAllowed q (effDepth r g) false) {} {}).2) := by
    unfold check runB
    rw [he]
    rfl
  rw [hcheck] at hlim ⊢
  exact ⟨fun hm => hr.pos hm hlim, fun hnd => ⟨(hr.neg hnd hlim).1, (hr.neg hnd hlim).2.2⟩⟩

/-- Exactness of the check engine, every configuration: with no error and no limit event, an
    `isMember` answer means the query is a member and any other answer means it is refuted
    (stratified semantics). -/
theorem C01_exact_all (E : Env) (hs : E.strict = true → conforms E.cfg E.T = true) (g : Int) (fuel : Nat)
    (q : Tuple) (r : Int) :
    (check E g fuel q r).1.err = none → (check E g fuel q r).2.limitHits = 0 →
    ((check E g fuel q r).1.memb = .isMember → Tr E.cfg E.T q) ∧
    ((check E g fuel q r).1.memb ≠ .isMember → Fa E.cfg E.T q) := by
  intro herr hlim
  have h := C01_exact_all_engine E hs g fuel q r hlim
  refine ⟨h.1, fun hne => fa_of_faE (h.2 ?_).2⟩
  simp only [Res.decisive, herr, Option.isSome_none, Bool.false_or, beq_eq_false_iff_ne, ne_eq]
  exact hne

/-- Soundness alone (`!` included): an `isMember` answer of a run without limit event is right. -/
theorem C01_sound_all (E : Env) (hs : E.strict = true → conforms E.cfg E.T = true) (g : Int) (fuel : Nat)
    (q : Tuple) (r : Int) :
    (check E g fuel q r).1.memb = .isMember → (check E g fuel q r).2.limitHits = 0 → Tr E.cfg E.T q :=
  fun hm hlim => (C01_exact_all_engine E hs g fuel q r hlim).1 hm

/-- Completeness alone (`!` included): an answer that is neither an error nor `isMember`, of a run
    without limit event, is `notMember` and the query is refuted. -/
theorem C01_complete_all (E : Env) (hs : E.strict = true → conforms E.cfg E.T = true) (g : Int) (fuel : Nat)
    (q : Tuple) (r : Int) :
    (check E g fuel q r).1.decisive = false → (check E g fuel q r).2.limitHits = 0 →
    (check E g fuel q r).1 = Res.nm ∧ Fa E.cfg E.T q ∧ ¬ Tr E.cfg E.T q := by
  intro hnd hlim
  obtain ⟨hnm, hfa⟩ := (C01_exact_all_engine E hs g fuel q r hlim).2 hnd
  have hfa' := fa_of_faE hfa
  refine ⟨?_, hfa', fun htr => tr_fa_exclusive _ _ _ ⟨htr, hfa'⟩⟩
  have herr : (check E g fuel q r).1.err = none := by
    cases he : (check E g fuel q r).1.err with
    | none => rfl
    | some e => simp [Res.decisive, he] at hnd
  cases hres : (check E g fuel q r).1 with
  | mk m e =>
    rw [hres] at hnm herr
    simp only at hnm herr
    rw [hnm, herr]
    rfl

/-- Exactness as an equivalence. -/
theorem C01_exact_all_iff (E : Env) (hs : E.strict = true → conforms E.cfg E.T = true) (g : Int) (fuel : Nat)
    (q : Tuple) (r : Int) :
    (check E g fuel q r).1.err = none → (check E g fuel q r).2.limitHits = 0 →
    ((check E g fuel q r).1.memb = .isMember ↔ Tr E.cfg E.T q) := by
  intro herr hlim
  obtain ⟨h1, h2⟩ := C01_exact_all E hs g fuel q r herr hlim
  refine ⟨h1, fun htr => ?_⟩
  cases hm : (check E g fuel q r).1.memb with
  | isMember => rfl
  | notMember => exact absurd ⟨htr, h2 (by rw [hm]; intro h; cases h)⟩ (tr_fa_exclusive _ _ _)
  | unknown => exact absurd ⟨htr, h2 (by rw [hm]; intro h; cases h)⟩ (tr_fa_exclusive _ _ _)

/-- The engine agrees with the reference evaluator whenever that answers. -/
theorem C01_exact_all_refEval (E : Env) (hs : E.strict = true → conforms E.cfg E.T = true) (g : Int) (fuel : Nat)
    (q : Tuple) (r : Int) (rfuel : Nat) :
    (check E g fuel q r).1.err = none → (check E g fuel q r).2.limitHits = 0 →
    refEval E.cfg E.T rfuel [] 0 (.node q) ≠ .bad →
    ((check E g fuel q r).1.memb = .isMember ↔ refEval E.cfg E.T rfuel [] 0 (.node q) = .t) := by
  intro herr hlim hnb
  have hiff := C01_exact_all_iff E hs g fuel q r herr hlim
  have hdec := refEval_decides E.cfg E.T rfuel q
  constructor
  · intro hm
    have htr := hiff.1 hm
    cases e : refEval E.cfg E.T rfuel [] 0 (.node q) with
    | t => rfl
    | f => exact absurd htr (hdec.2 e).2
    | bad => exact absurd e hnb
  · intro e
    exact hiff.2 (hdec.1 e).1

/-- The engine cannot finish without error or limit event on a query that the stratified semantics
    leaves open (a non-stratified instance, an undeclared relation that matters). -/
theorem C01_open_not_answered (E : Env) (hs : E.strict = true → conforms E.cfg E.T = true) (g : Int) (fuel : Nat)
    (q : Tuple) (r : Int) (hnt : ¬ Tr E.cfg E.T q) (hnf : ¬ Fa E.cfg E.T q) :
    (check E g fuel q r).1.err ≠ none ∨ (check E g fuel q r).2.limitHits ≠ 0 := by
  cases he : (check E g fuel q r).1.err with
  | some e => exact Or.inl (fun h => by cases h)
  | none =>
    refine Or.inr (fun hlim => ?_)
    obtain ⟨h1, h2⟩ := C01_exact_all E hs g fuel q r he hlim
    cases hm : (check E g fuel q r).1.memb with
    | isMember => exact hnt (h1 hm)
    | notMember => exact hnf (h2 (by rw [hm]; intro h; cases h))
    | unknown => exact hnf (h2 (by rw [hm]; intro h; cases h))

namespace C01negex

/-- `doc.ok = view && !banned` over the store of `C01negex` (Keto/Props/C01neg.lean). -/
def env : Env where
  cfg := cfg
  strict := false
  maxWidth := 100
  T := T
  fails := fun _ => false
  pageSize := 100

/-- the same in strict mode (the store conforms to the declared types) -/
def envStrict : Env := { env with strict := true }

/-- user 8 is a direct viewer of doc 2 (and banned from it through groups 3 ∋ 4 ∋ 8) -/
def envShallow : Env := { env with T := ⟨"doc", 2, "viewers", .id 8⟩ :: T }

/-- `x.p = !p` (not stratified), no tuple -/
def envP : Env := { env with cfg := cfgP, T := [] }

end C01negex

-- non-vacuity: the configuration uses `!` …
example : C01negex.env.cfg.posB = false := by decide

-- … user 7 is allowed THROUGH the negation (a viewer of the parent behind the group cycle 1 ↔ 2, and
-- the refutation of `banned` below the `!` runs into the group cycle 3 ↔ 4), without error or limit event;
example : (check C01negex.env 10 200 ⟨"doc", 2, "ok", .id 7⟩ 0).1.err = none ∧
    (check C01negex.env 10 200 ⟨"doc", 2, "ok", .id 7⟩ 0).2.limitHits = 0 ∧
    (check C01negex.env 10 200 ⟨"doc", 2, "ok", .id 7⟩ 0).1.memb = .isMember :=
  ⟨by decide, by decide, by decide⟩

-- user 8 is denied BECAUSE of the negation (a viewer, but banned), without error or limit event;
example : (check C01negex.env 10 200 ⟨"doc", 2, "ok", .id 8⟩ 0).1.err = none ∧
    (check C01negex.env 10 200 ⟨"doc", 2, "ok", .id 8⟩ 0).2.limitHits = 0 ∧
    (check C01negex.env 10 200 ⟨"doc", 2, "ok", .id 8⟩ 0).1.memb ≠ .isMember ∧
    (check C01negex.env 10 200 ⟨"doc", 2, "view", .id 8⟩ 0).1.memb = .isMember :=
  ⟨by decide, by decide, by decide, by decide⟩

-- so the conclusions are really derived, from the ENGINE's answers:
example : Tr C01negex.cfg C01negex.T ⟨"doc", 2, "ok", .id 7⟩ :=
  (C01_exact_all C01negex.env (fun h => by cases h) 10 200 _ 0 (by decide) (by decide)).1 (by decide)

example : Fa C01negex.cfg C01negex.T ⟨"doc", 2, "ok", .id 8⟩ :=
  (C01_exact_all C01negex.env (fun h => by cases h) 10 200 _ 0 (by decide) (by decide)).2 (by decide)

-- and the oracle agrees (its premise `≠ bad` is met):
example : refEval C01negex.env.cfg C01negex.env.T 20 [] 0 (.node ⟨"doc", 2, "ok", .id 7⟩) ≠ .bad ∧
    refEval C01negex.env.cfg C01negex.env.T 20 [] 0 (.node ⟨"doc", 2, "ok", .id 8⟩) ≠ .bad :=
  ⟨by decide, by decide⟩

-- strict mode: the hypotheses are satisfiable and the premises are met.
example : conforms C01negex.envStrict.cfg C01negex.envStrict.T = true ∧
    (check C01negex.envStrict 10 200 ⟨"doc", 2, "ok", .id 7⟩ 0).1 = Res.isM ∧
    (check C01negex.envStrict 10 200 ⟨"doc", 2, "ok", .id 7⟩ 0).2.limitHits = 0 ∧
    (check C01negex.envStrict 10 200 ⟨"doc", 2, "ok", .id 8⟩ 0).1 = Res.nm ∧
    (check C01negex.envStrict 10 200 ⟨"doc", 2, "ok", .id 8⟩ 0).2.limitHits = 0 :=
  ⟨by decide, by decide, by decide, by decide, by decide⟩

/-- The hypothesis `limitHits = 0` is needed for the `isMember` direction as soon as there is a `!`:
    with depth 3 the search below `!banned` is cut, the cut is collapsed to `notMember` by the group,
    `!` turns it into `isMember` — user 8 is allowed although banned (the query is refuted). -/
theorem C01_exact_limit_counterexample :
    (check C01negex.envShallow 3 200 ⟨"doc", 2, "ok", .id 8⟩ 0).1 = Res.isM ∧
    (check C01negex.envShallow 3 200 ⟨"doc", 2, "ok", .id 8⟩ 0).2.limitHits ≠ 0 ∧
    Fa C01negex.envShallow.cfg C01negex.envShallow.T ⟨"doc", 2, "ok", .id 8⟩ ∧
    ¬ Tr C01negex.envShallow.cfg C01negex.envShallow.T ⟨"doc", 2, "ok", .id 8⟩ :=
  ⟨by decide, by decide, ((refEval_decides _ _ 20 _).2 (by decide)).1, ((refEval_decides _ _ 20 _).2 (by decide)).2⟩

-- with enough depth the same query is denied, without limit event:
example : (check C01negex.envShallow 10 200 ⟨"doc", 2, "ok", .id 8⟩ 0).1 = Res.nm ∧
    (check C01negex.envShallow 10 200 ⟨"doc", 2, "ok", .id 8⟩ 0).2.limitHits = 0 :=
  ⟨by decide, by decide⟩

/-- On the non-stratified instance `p = !p` the engine never finishes cleanly, whatever the depth,
    the fuel and the fault oracle. -/
theorem C01_not_stratified_not_answered (E : Env) (hc : E.cfg = C01negex.cfgP) (hT : E.T = []) (g : Int)
    (fuel : Nat) (o : Nat) (sub : Subject) (r : Int) :
    (check E g fuel ⟨"x", o, "p", sub⟩ r).1.err ≠ none ∨ (check E g fuel ⟨"x", o, "p", sub⟩ r).2.limitHits ≠ 0 := by
  have h := refEval_not_stratified_bad o sub
  refine C01_open_not_answered E (fun _ => by rw [hT]; rfl) g fuel _ r ?_ ?_
  · rw [hc, hT]; exact h.1
  · rw [hc, hT]; exact h.2.1

set_option maxRecDepth 8000 in
example : (check C01negex.envP 10 200 ⟨"x", 1, "p", .id 7⟩ 0).2.limitHits ≠ 0 := by decide

end Keto
