/-
  C06 — networks (tenants) sharing a database are fully isolated.
  Statements and final proofs only; helper lemmas live in Keto/Proofs/StoreLemmas.lean.

  Model: every row carries its network id; every statement of the persister carries `nid = ?`
  (`inNet` in `hits`, `listed`, `cands`; `mkRows` stamps inserted rows).  `view B s` is everything network
  `B` has in the table, WITH shard ids and order.  The mapping table is global by design (ids are
  UUIDv5(network, string)); it is not an observation of `B` in the model.
-/
import Keto.Model.Store
import Keto.Proofs.StoreLemmas
import Keto.Generated.Facts

namespace Keto.Store

/-- Frame: for every history of requests issued in networks other than `B` (REST, gRPC and Persister calls,
    valid or not, including delete-by-empty-query and failing transactions under any fault oracle), from
    every database: what `B` has in the table is unchanged, and so is every observation `B` can make —
    one page of a listing with any query, page size and token, `exists` with any query, a complete listing
    following the tokens with any fuel, and the API's answers to list requests. -/
theorem C06_frame (ck : Chunking) (cfg : Names) (fail : Oracle) (B : Nat) (h : History)
    (hB : ∀ x ∈ h, x.1 ≠ B) (db : DB) :
    view B (run ck cfg fail h db).2.rows = view B db.rows ∧
    (∀ q size tok, getPage B q size tok (run ck cfg fail h db).2.rows = getPage B q size tok db.rows) ∧
    (∀ q, existsTuples B q (run ck cfg fail h db).2.rows = existsTuples B q db.rows) ∧
    (∀ q size f tok, follow B q size (run ck cfg fail h db).2.rows f tok = follow B q size db.rows f tok) ∧
    (∀ q size tok, (step ck cfg fail B (.list q size tok) (run ck cfg fail h db).2).1 =
                   (step ck cfg fail B (.list q size tok) db).1) ∧
    (∀ q size tok, (step ck cfg fail B (.pList q size tok) (run ck cfg fail h db).2).1 =
                   (step ck cfg fail B (.pList q size tok) db).1) ∧
    (∀ q, (step ck cfg fail B (.pExists q) (run ck cfg fail h db).2).1 =
          (step ck cfg fail B (.pExists q) db).1) := by
  have hv := run_view B ck cfg fail h hB db
  have hpage : ∀ q size tok, getPage B q size tok (run ck cfg fail h db).2.rows = getPage B q size tok db.rows := by
    intro q size tok
    rw [← getPage_view, hv, getPage_view]
  have hex : ∀ q, existsTuples B q (run ck cfg fail h db).2.rows = existsTuples B q db.rows := by
    intro q
    rw [← existsTuples_view, hv, existsTuples_view]
  refine ⟨hv, hpage, hex, ?_, ?_, ?_, ?_⟩
  · intro q size f tok
    rw [← follow_view, hv, follow_view]
  · intro q size tok
    simp only [step, listReq]
    cases q with
    | none => rfl
    | some q =>
      simp only [mapQuery, mapStrings_readOnly]
      cases fromQuery cfg q with
      | error e => rfl
      | ok iq =>
        simp only [hpage, if_true]
        cases getPage B iq size tok db.rows <;> rfl
  · intro q size tok
    simp only [step, pList, hpage]
    cases getPage B q size tok db.rows <;> rfl
  · intro q
    simp only [step, pExists, hex]

/-- A single network `A ≠ B` is the special case. -/
theorem C06_frame_single (ck : Chunking) (cfg : Names) (fail : Oracle) (A B : Nat) (hAB : A ≠ B) (ops : List Op)
    (db : DB) :
    view B (run ck cfg fail (ops.map fun op => (A, op)) db).2.rows = view B db.rows :=
  run_view B ck cfg fail _ (by
    intro x hx
    obtain ⟨op, _, rfl⟩ := List.mem_map.mp hx
    exact hAB) db

/-- No leak: whatever the table holds, a page listed in network `A` contains only rows of `A`, `exists` in `A`
    is witnessed by a row of `A`, and both are computed from `view A` alone — rows of other networks cannot
    influence any observation in `A`. -/
theorem C06_no_leak (A : Nat) (q : Query) (size : Int) (tok : Token) (s : Store) :
    (∀ p, getPage A q size tok s = .ok p → ∀ r ∈ p.rows, r.nid = A) ∧
    (existsTuples A q s = true → ∃ r ∈ s, r.nid = A ∧ q.matches r.t = true) ∧
    getPage A q size tok s = getPage A q size tok (view A s) ∧
    existsTuples A q s = existsTuples A q (view A s) := by
  refine ⟨?_, ?_, (getPage_view A q size tok s).symm, (existsTuples_view A q s).symm⟩
  · intro p hp r hr
    by_cases hsz : size < 0
    · simp [getPage, hsz] at hp
    · cases ht : tokLast tok with
      | none => simp [getPage, hsz, ht] at hp
      | some last =>
        rw [getPage_ok A q size (by omega) tok last ht s] at hp
        cases hp
        have := (mem_cands.mp (List.mem_of_mem_take hr)).2.1
        simp only [hits, inNet, Bool.and_eq_true, decide_eq_true_eq] at this
        exact this.1
  · intro h
    unfold existsTuples at h
    obtain ⟨r, hr, hh⟩ := List.any_eq_true.mp h
    simp only [hits, inNet, Bool.and_eq_true, decide_eq_true_eq] at hh
    exact ⟨r, hr, hh.1, hh.2⟩

/-- The `nid` predicates the model encodes are in the sources (regenerated SQL fact table): the pop queries
    of Get/Exists/DeleteAll and of the rewrite traversal start from `queryWithNetwork` (`nid = ?`),
    `buildDelete` ends in `AND nid = ?`.  (The raw traversal SQL of
    `TraverseSubjectSetExpansion` — `current.nid = ?`, `nid = current.nid` — belongs to the engine's
    storage model and is not repeated here: comparing its 600-character literal in the kernel is slow.) -/
def expectedNidFacts : List (String × String × String) := [
  ("internal/persistence/sql/persister.go", "Persister.queryWithNetwork", "nid = ?"),
  ("internal/persistence/sql/relationtuples.go", "Persister.GetRelationTuples", "call:queryWithNetwork"),
  ("internal/persistence/sql/relationtuples.go", "Persister.ExistsRelationTuples", "call:queryWithNetwork"),
  ("internal/persistence/sql/relationtuples.go", "Persister.DeleteAllRelationTuples", "call:queryWithNetwork"),
  ("internal/persistence/sql/traverser.go", "Traverser.TraverseSubjectSetRewrite", "call:queryWithNetwork"),
  ("internal/persistence/sql/relationtuples.go", "buildDelete", "DELETE FROM %s WHERE (%s) AND nid = ?")]

/-- The functions of `persistence/sql` that read or delete relationships through a pop query
    (`All`, `Exists`, `Delete`), except the raw-SQL traversal and the mapping lookup. -/
def popReaders : List (String × String) :=
  (Facts.sqlStrings.filter fun e =>
      (e.2.2 == "call:All" || e.2.2 == "call:Exists" || e.2.2 == "call:Delete")
      && e.2.1 != "Traverser.TraverseSubjectSetExpansion" && e.2.1 != "Persister.batchFromUUIDs").map
    fun e => (e.1, e.2.1)

set_option maxRecDepth 8000 in
theorem C06_sql_nid :
    (∀ e ∈ expectedNidFacts, e ∈ Facts.sqlStrings) ∧
    (∀ w ∈ popReaders, (w.1, w.2, "call:queryWithNetwork") ∈ Facts.sqlStrings) ∧
    popReaders.length = 4 := by decide

/-! ### Non-vacuity -/
namespace C06ex

def cfg : Names := ["doc"]
def a : ATuple := { ns := "doc", obj := 1, rel := "viewer", sid := some 7 }
def ta : Tuple := ⟨"doc", 1, "viewer", .id 7⟩

/-- Both networks hold the same relationship. -/
def db : DB := { rows := [⟨10, 0, ta⟩, ⟨20, 1, ta⟩, ⟨30, 0, ta⟩], maps := [] }

/-- Network 0 deletes everything (gRPC delete with an empty query, Persister delete-all), writes, patches. -/
def h0 : History := [(0, .grpcDelete (some {})), (0, .pDeleteAll {}), (0, .restCreate a 5),
  (0, .restPatch [⟨.delete, some a, 0⟩]), (0, .pDelete [ta])]

-- the history does change the table (network 0 ends up empty) …
example : (run {} cfg noFail h0 db).2.rows = [⟨20, 1, ta⟩] := by decide
-- … network 1 still sees its row, network 0 never saw it.
example : view 1 (run {} cfg noFail h0 db).2.rows = view 1 db.rows := by decide
example : (matching 0 {} db.rows).map (·.shard) = [10, 30] ∧ (matching 1 {} db.rows).map (·.shard) = [20] := by decide

end C06ex

end Keto.Store
