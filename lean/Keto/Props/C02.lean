/-
  C02 — depth and width limits fail closed and can only be lowered per request.
  Statements and final proofs only; helper lemmas live in Keto/Proofs.
-/
import Keto.Model.Engine
import Keto.Proofs.FactsTie

namespace Keto

/-- The effective depth is the global limit when the request depth is `≤ 0` or above
    the global limit, and the request depth otherwise: it never exceeds the global
    limit and is at least 1 whenever the global limit is. -/
theorem C02_effDepth_bounds (r g : Int) (hg : 1 ≤ g) : 1 ≤ effDepth r g ∧ effDepth r g ≤ g := by
  unfold effDepth
  split <;> omega

theorem C02_effDepth_cases (r g : Int) :
    effDepth r g = (if r ≤ 0 ∨ g < r then g else r) := rfl

/-- A request with depth `r` against a server whose global limit is `g` behaves
    exactly like the same request with depth 0 ("use the global limit") against a
    server whose global limit is the effective depth — for every configuration,
    store, fault oracle and fuel. -/
theorem C02_clamp (E : Env) (g : Int) (hg : 1 ≤ g) (fuel : Nat) (q : Tuple) (r : Int) :
    check E g fuel q r = check E (effDepth r g) fuel q 0 := by
  have h := (C02_effDepth_bounds r g hg)
  unfold check
  have : effDepth 0 (effDepth r g) = effDepth r g := by
    simp [effDepth]
  rw [this]

/-- … and like the same request with the effective depth spelled out. -/
theorem C02_clamp_explicit (E : Env) (g : Int) (hg : 1 ≤ g) (fuel : Nat) (q : Tuple) (r : Int) :
    check E g fuel q r = check E g fuel q (effDepth r g) := by
  have h := (C02_effDepth_bounds r g hg)
  unfold check
  have : effDepth (effDepth r g) g = effDepth r g := by
    simp only [effDepth]
    split <;> first | rfl | omega | (split <;> omega)
  rw [this]

-- non-vacuity: the clamp really changes a request (r = 7 against g = 3 runs with 3).
example : effDepth 7 3 = 3 ∧ effDepth (-1) 3 = 3 ∧ effDepth 2 3 = 2 ∧ effDepth 0 3 = 3 := by decide

end Keto
