/-
  C02 — depth and width limits fail closed and can only be lowered per request.
  Statements and final proofs only; helper lemmas live in Keto/Proofs.
-/
import Keto.Model.Engine
import Keto.Proofs.FactsTie
import Keto.Proofs.FactsTieWidth
import Keto.Spec.Membership
import Keto.Spec.Positive
import Keto.Proofs.EngineSound

namespace Keto

/-- The effective depth is the global limit when the request depth is `≤ 0` or above
    the global limit, and the request depth otherwise: it never exceeds the global
    limit and is at least 1 whenever the global limit is. -/
theorem C02_effDepth_bounds (r g : Int) (hg : 1 ≤ g) : 1 ≤ effDepth r g ∧ effDepth r g ≤ g := by
  unfold effDepth
  split <;> omega

theorem C02_effDepth_cases (r g : Int) :
    effDepth r g = (if r ≤ 0 ∨ g < r then g else r) := rfl

/-- A request with depth `r` against a server whose global limit is `g` behaves
    exactly like the same request with depth 0 ("use the global limit") against a
    server whose global limit is the effective depth — for every configuration,
    store, fault oracle and fuel. -/
theorem C02_clamp (E : Env) (g : Int) (hg : 1 ≤ g) (fuel : Nat) (q : Tuple) (r : Int) :
    check E g fuel q r = check E (effDepth r g) fuel q 0 := by
  have h := (C02_effDepth_bounds r g hg)
  unfold check
  have : effDepth 0 (effDepth r g) = effDepth r g := by
    simp [effDepth]
  rw [this]

/-- … and like the same request with the effective depth spelled out. -/
theorem C02_clamp_explicit (E : Env) (g : Int) (hg : 1 ≤ g) (fuel : Nat) (q : Tuple) (r : Int) :
    check E g fuel q r = check E g fuel q (effDepth r g) := by
  have h := (C02_effDepth_bounds r g hg)
  unfold check
  have : effDepth (effDepth r g) g = effDepth r g := by
    simp only [effDepth]
    split <;> first | rfl | omega | (split <;> omega)
  rw [this]

-- non-vacuity: the clamp really changes a request (r = 7 against g = 3 runs with 3).
example : effDepth 7 3 = 3 ∧ effDepth (-1) 3 = 3 ∧ effDepth 2 3 = 2 ∧ effDepth 0 3 = 3 := by decide

/-- Where the width limit applies in the code is where it applies in the model: in the subject-set expansion
    of a direct check, and in no other traversal (regenerated from the sources on every run). -/
theorem C02_width_sites_tie : Facts.widthSites = FactsTie.expectedWidthSites := FactsTie.widthSites_tie

/-- Limits fail closed (positive fragment): whatever is allowed under limits `g` (global max depth),
    `r` (request depth), `E.maxWidth` (max read width) and `E.pageSize` is allowed by the unbounded
    semantics `Mem` — hitting a depth or width limit can lose an `isMember` answer but never create
    one. This is literally a corollary of the soundness theorem `build_sound` (same statement as
    `C01_sound_pos`), which is proved for arbitrary limits, fault oracle and fuel. -/
theorem C02_fail_closed_pos (E : Env) (hc : Cfg.pos E.cfg) (g : Int) (fuel : Nat) (q : Tuple) (r : Int) :
    (check E g fuel q r).1.memb = .isMember → Mem E.cfg E.T q :=
  build_sound E hc fuel (.isAllowed q (effDepth r g) false) {} {} rfl {} _

namespace C02ex

/-- `doc.view = viewers.includes || parents.traverse(p => p.view)`, `folder.view = viewers.includes`. -/
def cfg : Cfg := [
  ⟨"doc", [⟨"viewers", [⟨"user", ""⟩], none⟩,
           ⟨"parents", [⟨"folder", ""⟩], none⟩,
           ⟨"view", [], some ⟨.or, [.computed "viewers", .ttu "parents" "view"]⟩⟩]⟩,
  ⟨"folder", [⟨"viewers", [⟨"user", ""⟩], none⟩,
              ⟨"view", [], some ⟨.or, [.computed "viewers"]⟩⟩]⟩]

def env : Env where
  cfg := cfg
  strict := false
  maxWidth := 100
  T := [⟨"doc", 1, "parents", .set "folder" 2 ""⟩,
        ⟨"folder", 2, "viewers", .id 7⟩,
        ⟨"doc", 1, "viewers", .id 8⟩]
  fails := fun _ => false
  pageSize := 100

def q : Tuple := ⟨"doc", 1, "view", .id 7⟩

end C02ex

-- non-vacuity: the limits matter on a positive configuration — the member (user 7 via folder 2) is found
-- with global depth 5, is lost (not allowed, a limit was hit) with request depth 1, and in both cases the
-- theorem's hypothesis `Cfg.pos` holds.
example : Cfg.pos C02ex.env.cfg ∧
    (check C02ex.env 5 200 C02ex.q 0).1.memb = .isMember ∧
    (check C02ex.env 5 200 C02ex.q 1).1.memb ≠ .isMember ∧
    0 < (check C02ex.env 5 200 C02ex.q 1).2.limitHits :=
  ⟨Cfg.pos_of_posB (by decide), by decide, by decide, by decide⟩

end Keto
