/-
  C11 — a configuration that type-checks cannot fail at check time (forward direction, engine part).

  Full statement (DESIGN.md §4, C11): `typecheck P = []`, conforming tuples, a query on a declared
  (namespace, relation) pair ⇒ no `schema` result of the engine, for any fuel, depth, fault oracle.
  The code violates it (F-ttu-type: the OPL type checker looks for the traversed-to relation in the
  types of `G2.members` instead of in `G2` itself when a traversed relation holds
  `SubjectSet<G2,"members">`), so what is proved here is the `…_partial` form under the explicit,
  decidable hypothesis `WellFormed` (every name the engine can look up resolves — the property the
  type checker is meant to establish), and the violation is `C11_ttu_subjectset_counterexample`.
  Statements and final proofs only; helper lemmas live in Keto/Proofs/EngineNoSchemaError.lean.
-/
import Keto.Model.Engine
import Keto.Spec.WellFormed
import Keto.Proofs.EngineNoSchemaError

namespace Keto

/-- If every relation reference of the configuration resolves (computed subject sets in their own
    namespace, tuple-to-subject-set targets in the namespace of every stored subject set of the
    traversed relation, subject sets of stored tuples), a query on a relation that resolves never
    ends in a schema error ("relation does not exist") — for every global / request depth, fuel,
    fault oracle, width and page size. -/
theorem C11_forward_partial (E : Env) (hw : WellFormed E.cfg E.T) (q : Tuple)
    (hq : astRelationFor E.cfg q.ns q.rel ≠ .bad) (g : Int) (fuel : Nat) (r : Int) :
    (check E g fuel q r).1.err ≠ some .schema :=
  check_no_schema E hw q hq g fuel r

/-- The same for every call of the engine whose own lookups are fine (`Call.WF`), for the
    construction of the check and every later run of the returned thunk. -/
theorem C11_build_no_schema (E : Env) (hw : WellFormed E.cfg E.T) (fuel : Nat) (call : Call) (ctx : Ctx) (w : World)
    (h : call.WF E.cfg E.T) (c' : Ctx) (w' : World) :
    ((build E fuel call ctx w).1 c' w').1.err ≠ some .schema :=
  build_no_schema E hw fuel call ctx w h c' w'

/-- With the fuel of `C15_check_terminates` the only error such a check can end in is a storage error. -/
theorem C11_forward_partial_storage_only (E : Env) (hw : WellFormed E.cfg E.T) (q : Tuple)
    (hq : astRelationFor E.cfg q.ns q.rel ≠ .bad) (g : Int) (fuel : Nat) (r : Int)
    (hf : fuel ≥ checkFuel E.cfg (effDepth r g)) :
    (check E g fuel q r).1.err = none ∨ (check E g fuel q r).1.err = some .storage :=
  check_err_storage_only E hw q hq g fuel r hf

/-- The decidable check is sufficient for the hypothesis. -/
theorem C11_wellFormedB_sound {c : Cfg} {T : List Tuple} (h : wellFormedB c T = true) : WellFormed c T :=
  wellFormed_of_wellFormedB h

namespace C11ex

/-- ```
    class User {}
    class G2 { related: { members: User[] } }                      // no `viewers`
    class Folder { related: { viewers: User[] } }
    class Doc {
      related: { parents: (Folder | SubjectSet<G2, "members">)[] }
      permits = { view: (ctx) => this.related.parents.traverse((p) => p.related.viewers.includes(ctx.subject)) }
    }
    ``` -/
def cfg : Cfg := [
  ⟨"User", []⟩,
  ⟨"G2", [⟨"members", [⟨"User", ""⟩], none⟩]⟩,
  ⟨"Folder", [⟨"viewers", [⟨"User", ""⟩], none⟩]⟩,
  ⟨"Doc", [⟨"parents", [⟨"Folder", ""⟩, ⟨"G2", "members"⟩], none⟩,
           ⟨"view", [], some ⟨.or, [.ttu "parents" "viewers"]⟩⟩]⟩]

/-- conforming tuples: `Doc:1#parents@G2:5#members`, `G2:5#members@User:7` -/
def tuples : List Tuple := [⟨"Doc", 1, "parents", .set "G2" 5 "members"⟩, ⟨"G2", 5, "members", .id 7⟩]

/-- the same store without the subject-set parent (`Doc:1#parents@Folder:2`, empty relation) -/
def tuplesOk : List Tuple := [⟨"Doc", 1, "parents", .set "Folder" 2 ""⟩, ⟨"Folder", 2, "viewers", .id 7⟩,
  ⟨"G2", 5, "members", .id 7⟩]

def env (T : List Tuple) : Env where
  cfg := cfg
  strict := false
  maxWidth := 100
  T := T
  fails := fun _ => false
  pageSize := 100

def q : Tuple := ⟨"Doc", 1, "view", .id 7⟩

end C11ex

/-- F-ttu-type: the traversed relation `parents` holds the subject set `G2:5#members`, namespace `G2`
    lacks the relation `viewers` the traversal looks up ⇒ the check ends in a schema error
    ("relation does not exist"), although the query's own relation resolves and every stored tuple
    conforms to the declared types. `WellFormed` is exactly what fails. -/
theorem C11_ttu_subjectset_counterexample :
    astRelationFor C11ex.cfg C11ex.q.ns C11ex.q.rel ≠ .bad ∧
    (check (C11ex.env C11ex.tuples) 5 50 C11ex.q 0).1.err = some .schema ∧
    wellFormedB C11ex.cfg C11ex.tuples = false := by
  refine ⟨?_, by decide, by decide⟩
  exact Lookup.ne_bad_of_isBad (by decide)

-- non-vacuity of `C11_forward_partial`: the same configuration with a store whose parents are folders
-- only is `WellFormed`, the query resolves, and the check answers (`isMember`).
example : WellFormed (C11ex.env C11ex.tuplesOk).cfg (C11ex.env C11ex.tuplesOk).T ∧
    astRelationFor (C11ex.env C11ex.tuplesOk).cfg C11ex.q.ns C11ex.q.rel ≠ .bad ∧
    (check (C11ex.env C11ex.tuplesOk) 5 50 C11ex.q 0).1 = Res.isM :=
  ⟨wellFormed_of_wellFormedB (by decide), Lookup.ne_bad_of_isBad (by decide), by decide⟩

end Keto
