/-
  C11 — the OPL type checker: the converse direction (bad references are rejected, at the offending
  token) and the link from acceptance to the engine's `WellFormed` (forward direction).

  Model: `Keto.Opl.typeCheck` / `runCheck` (Keto/Model/Typecheck.lean, the deferred checks of
  internal/schema/typechecks.go as data) and the parser model that emits them (Keto/Model/Parser.lean).
  Statements and final proofs only; helper lemmas live in Keto/Proofs/TypecheckLemmas.lean.

  A. Converse, for every parse result (`nss`: the parsed namespaces, `cs`: the deferred checks):
     `C11_tc_errors_exact`      the errors of the type-check phase are exactly the errors of the single checks
     `C11_tc_namespace`         `T[]` with `T` undeclared ⇒ "namespace was not declared" at `T`
     `C11_tc_subjectset`        `SubjectSet<T, R>`: `T` undeclared ⇒ error at `T`; `T` lacks `R` ⇒ error at `R`
     `C11_tc_current_relation`  includes / permits / traverse on an undeclared relation ⇒ error at its name
     `C11_tc_traverse_target`   traverse to `crel` over a relation with a plain type lacking `crel` ⇒ error at the
                                token of the *traversed relation* (that is where typechecks.go puts it)
     `C11_tc_accepts_iff`       no error iff every deferred check's predicate holds (`checksOk`; the recursive
                                SubjectSet check mirrors the depth-10 recursion of the code: `TypesHave`)
     `C11_parse_accepts_iff`, `C11_parse_rejects`   the same for `Parse` on a byte string
     Source tie: `C11_src_permission`, `C11_src_type_union`, `C11_src_relation_decl` (which checks a production
     emits) and `C11_checks_cover` (for arbitrary input every type / rewrite leaf of every parsed namespace is
     covered by a deferred check).
  B. Forward link: `C11_parse_typeOk` (accepted ⇒ `TypeOk`), `C11_accepted_wellFormed` (`TypeOk` +
     `PlainTraversals` + conforming store ⇒ `WellFormed`), `C11_forward_typed`, `C11_forward_parse`.
     `PlainTraversals` cannot be dropped: `C11_plainTraversals_needed` (finding F-ttu-type, on a document
     the type checker accepts).

  The hypothesis "namespace names pairwise distinct" is not needed: the type checker, `conformsTuple` and
  `astRelationFor` all resolve a name to the *first* namespace with that name, and `TypeOk` (as established
  by the checks) speaks about every namespace entry, shadowed ones included.
-/
import Keto.Props.C11
import Keto.Props.C10
import Keto.Proofs.TypecheckLemmas

namespace Keto
open Keto.Opl

/-! ### A. converse: bad references are rejected -/

/-- The errors of the type-check phase are exactly the errors of the single deferred checks
    (`checkErrs`: what a check reports does not depend on what was reported before). -/
theorem C11_tc_errors_exact (nss : List Namespace) (cs : List TypeCheck) (e : PErr) :
    e ∈ (typeCheck nss cs {}).errors ↔ ∃ c ∈ cs, e ∈ checkErrs nss c :=
  mem_typeCheck_errors nss cs e

/-- **Undeclared namespace.** A type `T[]` (deferred check `checkNamespaceExists(T)`) whose name no parsed
    namespace has: the error list contains "namespace %q was not declared" with the byte range of the token `T`
    (`PErr.at k i = ⟨k, i.start, i.stop⟩`); in particular it is not empty. -/
theorem C11_tc_namespace (nss : List Namespace) (cs : List TypeCheck) (T : Item)
    (hc : TypeCheck.nsExists T ∈ cs) (hn : ∀ N ∈ nss, N.name ≠ bstr T.val) :
    PErr.at .nsNotDeclared T ∈ (typeCheck nss cs {}).errors := by
  refine (mem_typeCheck_errors _ _ _).mpr ⟨_, hc, ?_⟩
  simp [checkErrs, (findNsT_none_iff nss _).mpr hn]

/-- **`SubjectSet<T, R>`** (deferred check `checkNamespaceHasRelation(T, R)`): `T` undeclared ⇒ "namespace %q was
    not declared" at the token `T`; `T` declared (`N` is the namespace the name resolves to) but `R` not among
    its relations ⇒ "namespace %q did not declare relation %q" at the token `R`. -/
theorem C11_tc_subjectset (nss : List Namespace) (cs : List TypeCheck) (T R : Item)
    (hc : TypeCheck.nsHasRelation T R ∈ cs) :
    ((∀ N ∈ nss, N.name ≠ bstr T.val) → PErr.at .nsNotDeclared T ∈ (typeCheck nss cs {}).errors) ∧
    (∀ N, findNsT nss (bstr T.val) = some N → (∀ r ∈ N.relations, r.name ≠ bstr R.val) →
      PErr.at .nsNoRelation R ∈ (typeCheck nss cs {}).errors) := by
  refine ⟨fun hn => (mem_typeCheck_errors _ _ _).mpr ⟨_, hc, ?_⟩,
    fun N hN hr => (mem_typeCheck_errors _ _ _).mpr ⟨_, hc, ?_⟩⟩
  · simp [checkErrs, (findNsT_none_iff nss _).mpr hn]
  · simp [checkErrs, hN, (findRelT_none_iff _ _).mpr hr]

/-- **includes / permits / traverse on an undeclared relation** (`this.related.R.includes(ctx.subject)`,
    `this.permits.R(ctx)`, `this.related.R.traverse(…)` inside namespace `cur`; deferred check
    `checkCurrentNamespaceHasRelation(cur, R)`): if `R` is not among the relations and permissions of `cur`
    there is an error at the token `R` ("namespace %q did not declare relation %q"; "namespace %q was not
    declared", also at `R`, if `cur` itself is not among the parsed namespaces). -/
theorem C11_tc_current_relation (nss : List Namespace) (cs : List TypeCheck) (cur : String) (R : Item)
    (hc : TypeCheck.curNsHasRelation cur R ∈ cs) :
    (∀ N, findNsT nss cur = some N → (∀ r ∈ N.relations, r.name ≠ bstr R.val) →
      PErr.at .nsNoRelation R ∈ (typeCheck nss cs {}).errors) ∧
    (findNsT nss cur = none → PErr.at .nsNotDeclared R ∈ (typeCheck nss cs {}).errors) := by
  refine ⟨fun N hN hr => (mem_typeCheck_errors _ _ _).mpr ⟨_, hc, ?_⟩,
    fun hn => (mem_typeCheck_errors _ _ _).mpr ⟨_, hc, ?_⟩⟩
  · simp [checkErrs, hN, (findRelT_none_iff _ _).mpr hr]
  · simp [checkErrs, hn]

/-- **Traverse target.** `this.related.rel.traverse(x => x.related.crel… / x.permits.crel(ctx))` inside `cur`
    (deferred check `checkAllRelationsTypesHaveRelation(cur, rel, crel)`): if `rel` resolves to the relation `R`
    of `cur` and some plain namespace type `N` of `R` does not declare `crel`, there is an error "relation %q was
    not declared in namespace %q" — at the token of the *traversed relation* `rel` (typechecks.go passes the item
    of `rel`, not of `crel`, to `addErr`). -/
theorem C11_tc_traverse_target (nss : List Namespace) (cs : List TypeCheck) (cur : String) (rel : Item) (crel : String)
    (hc : TypeCheck.allTypesHaveRelation cur rel crel ∈ cs)
    (R : Relation) (hR : findRelationT nss cur (bstr rel.val) = some R)
    (N : String) (hN : (⟨N, ""⟩ : RelType) ∈ R.types) (hno : ¬ HasRelation nss N crel) :
    PErr.at .relNotDeclared rel ∈ (typeCheck nss cs {}).errors := by
  refine (mem_typeCheck_errors _ _ _).mpr ⟨_, hc, ?_⟩
  simp only [checkErrs, recErrs, hR]
  refine mem_typesErrs_of_mem _ _ _ _ _ _ _ hN ?_
  have : findRelationT nss N crel = none := by
    cases h : findRelationT nss N crel with
    | none => rfl
    | some x => exact absurd ((findRelationT_isSome_iff _ _ _).mp (by rw [h]; rfl)) hno
  simp [typeErrs, this]

/-- The traversed relation itself is not declared in `cur`: the same message at the same token (and a second
    error from `checkCurrentNamespaceHasRelation`, see `C11_tc_current_relation`). -/
theorem C11_tc_traverse_undeclared (nss : List Namespace) (cs : List TypeCheck) (cur : String) (rel : Item) (crel : String)
    (hc : TypeCheck.allTypesHaveRelation cur rel crel ∈ cs) (hR : findRelationT nss cur (bstr rel.val) = none) :
    PErr.at .relNotDeclared rel ∈ (typeCheck nss cs {}).errors := by
  refine (mem_typeCheck_errors _ _ _).mpr ⟨_, hc, ?_⟩
  simp [checkErrs, recErrs, hR]

/-- Every failing check reports at least one error, and all its errors point at its offending item
    (`TypeCheck.blame`: `T` / `R` of a type, the relation name of includes / permits, the traversed relation
    of traverse — also for the errors found deeper in a SubjectSet chain and for the depth-limit error). -/
theorem C11_tc_rejects_at (nss : List Namespace) (cs : List TypeCheck) (c : TypeCheck) (hc : c ∈ cs)
    (hbad : ¬ checkOk nss c) :
    (∃ e ∈ (typeCheck nss cs {}).errors, e ∈ checkErrs nss c) ∧
    ∀ e ∈ checkErrs nss c, e.start = (c.blame nss).start ∧ e.stop = (c.blame nss).stop := by
  refine ⟨?_, checkErrs_at nss c⟩
  cases h : checkErrs nss c with
  | nil => exact absurd ((checkErrs_nil nss c).mp h) hbad
  | cons e es => exact ⟨e, (mem_typeCheck_errors _ _ _).mpr ⟨c, hc, by rw [h]; simp⟩, by simp⟩

/-- **The type check accepts iff every deferred check holds.** `checksOk nss cs` is `∀ c ∈ cs, checkOk nss c`;
    `checkOk` has one clause per kind of check (`Declared`, `HasRelation`, `HasRelation` in the current namespace,
    `TypesHave`). `TypesHave` mirrors the depth-limited recursion of the code: a SubjectSet chain longer than
    `tupleToSubjectSetTypeCheckMaxDepth` (10) fails the check ("could not typecheck deeply nested SubjectSet
    further"), it is *not* a statement about unbounded chains. -/
theorem C11_tc_accepts_iff (nss : List Namespace) (cs : List TypeCheck) :
    (typeCheck nss cs {}).errors = [] ↔ checksOk nss cs :=
  typeCheck_errors_nil nss cs

/-- `Parse` on a byte string accepts iff the syntax phase reports no error and every deferred check it emitted
    holds of the namespaces it parsed (`synOf s`: the parser state after the syntax phase). -/
theorem C11_parse_accepts_iff (s : List UInt8) :
    (parse s).errors = [] ↔ (synOf s).errors = [] ∧ checksOk (synOf s).nss (synOf s).checks :=
  parse_accepts_iff s

/-- **Always rejected.** A document for which a deferred check fails is rejected; if it has no syntax error
    (otherwise `Parse` reports the syntax errors and does not run the type check) one of the reported errors
    points at the offending token of that check. -/
theorem C11_parse_rejects (s : List UInt8) (c : TypeCheck) (hc : c ∈ (synOf s).checks)
    (hbad : ¬ checkOk (synOf s).nss c) :
    (parse s).errors ≠ [] ∧
    ((synOf s).errors = [] → ∃ e ∈ (parse s).errors,
      e.start = (c.blame (synOf s).nss).start ∧ e.stop = (c.blame (synOf s).nss).stop) := by
  refine ⟨fun h => hbad (((parse_accepts_iff s).mp h).2 c hc), fun hsyn => ?_⟩
  cases h : checkErrs (synOf s).nss c with
  | nil => exact absurd ((checkErrs_nil _ c).mp h) hbad
  | cons e es =>
    have he : e ∈ checkErrs (synOf s).nss c := by rw [h]; simp
    exact ⟨e, (mem_parse_errors s hsyn e).mpr ⟨c, hc, he⟩, checkErrs_at _ c e he⟩

/-! #### the checks come from the source -/

/-- **Source tie, permission expressions** (from `C10_access`): every spelling of
    `this.related.R.includes(ctx.subject)` / `this.permits.R(ctx)` parsed inside namespace `cur` adds
    `checkCurrentNamespaceHasRelation(cur, R)`; `this.related.R.traverse(x => x.permits.C(ctx))` and
    `this.related.R.traverse(x => x.related.C.includes(ctx.subject))` add
    `checkAllRelationsTypesHaveRelation(cur, R, C)` and then `checkCurrentNamespaceHasRelation(cur, R)`
    (`checks` is kept latest first) — and nothing else. -/
theorem C11_src_permission (a : Atom) (hw : a.wf) (p : P) (rest : List Item) (hf : p.fatal = false)
    (ht : p.toks = a.toks ++ rest) :
    (parsePermissionExpression p).1 = some a.leaf ∧
    (parsePermissionExpression p).2.checks = a.checks p.ns.name ++ p.checks ∧
    (∀ b R, a = .includes b R → a.checks p.ns.name = [.curNsHasRelation p.ns.name R]) ∧
    (∀ b R, a = .permits b R → a.checks p.ns.name = [.curNsHasRelation p.ns.name R]) ∧
    (∀ b R pa v cb C, a = .traverseP b R pa v cb C →
      a.checks p.ns.name = [.curNsHasRelation p.ns.name R, .allTypesHaveRelation p.ns.name R (bstr C.val)]) ∧
    (∀ b R pa v cb C c1 c2, a = .traverseR b R pa v cb C c1 c2 →
      a.checks p.ns.name = [.curNsHasRelation p.ns.name R, .allTypesHaveRelation p.ns.name R (bstr C.val)]) := by
  rw [C10_access a hw p rest hf ht]
  refine ⟨rfl, rfl, ?_, ?_, ?_, ?_⟩ <;> intros <;> subst_vars <;> rfl

/-- **Source tie, type unions**: `parseTypeUnion` on `A | SubjectSet<N, "r"> | … <end>` returns the denoted types
    and adds exactly `checkNamespaceExists(A)`, `checkNamespaceHasRelation(N, r)`, …, one per member, in order. -/
theorem C11_src_type_union (endTok : ItemType) (hend : endTok = .angledRight ∨ endTok = .parenRight)
    (ts : List TyRef) (hne : ts ≠ []) (hw : ∀ t ∈ ts, t.wf) (n : Nat) (hn : ts.length ≤ n)
    (acc : List RelType) (p : P) (endItem : Item) (rest : List Item) (he : endItem.typ = endTok) (hf : p.fatal = false)
    (ht : p.toks = unionToks ts ++ endItem :: rest) :
    (parseTypeUnion endTok n acc p).1 = acc ++ ts.map TyRef.ty ∧
    (parseTypeUnion endTok n acc p).2.checks = (ts.map TyRef.check).reverse ++ p.checks := by
  obtain ⟨p', _, _, hc, h⟩ := typeUnion_checks endTok hend ts hne hw n hn acc p endItem rest he hf ht
  rw [h]
  exact ⟨rfl, hc⟩

/-- **Source tie, relation declarations** (`C10_decls` with the checks): one iteration of the `parseRelated` loop
    on `name: T[]` / `name: SubjectSet<N, "r">[]` / `name: (A | B | …)[]` / `name: Array<A | B | …>` appends the
    declared relation to the current namespace and adds one deferred check per declared type
    (`TyRef.check`: `checkNamespaceExists(T)` for `T`, `checkNamespaceHasRelation(N, r)` for `SubjectSet<N, r>`). -/
theorem C11_src_relation_decl (d : Decl) (hw : d.wf) (n : Nat) (hn : d.types.length ≤ n) (p : P) (rest : List Item)
    (hf : p.fatal = false) (ht : p.toks = d.toks ++ rest)
    (hc : d.comma = false → valIs (rest.headD brokenItem) b!"," = false) :
    ∃ p' : P, relatedLoop (n+1) p = relatedLoop n p' ∧
      p'.ns = { p.ns with relations := p.ns.relations ++ [d.relation] } ∧
      p'.checks = (d.types.map TyRef.check).reverse ++ p.checks := by
  obtain ⟨p', h1, h2, h3⟩ := related_decl_checks d hw n hn p rest hf ht hc
  exact ⟨p', h3, h1.2.2.2.2.2, h2⟩

/-- **Coverage, for arbitrary input** (an invariant of the whole parser model, error paths included): for every
    namespace `N` the syntax phase produced and every relation `R` of `N`,
    every declared type of `R` has its check among the deferred checks (`CovTy`: `checkNamespaceExists` for `T[]`,
    `checkNamespaceHasRelation` for `SubjectSet<T, R>`), and every leaf of the rewrite of `R` has its checks
    with `cur = N.name` (`CovChild`: `checkCurrentNamespaceHasRelation` for a computed subject set and for the
    traversed relation, `checkAllRelationsTypesHaveRelation` for a traversal). -/
theorem C11_checks_cover (items : List Item) (N : Namespace) (hN : N ∈ (parseItems items).nss)
    (R : Relation) (hR : R ∈ N.relations) :
    (∀ ty ∈ R.types, CovTy (parseItems items).checks ty) ∧
    ∀ rw, R.rewrite = some rw → CovChild (parseItems items).checks N.name (.rewrite rw.op rw.children) :=
  parseItems_cov items N hN R hR

/-! ### B. forward: accepted ⇒ `WellFormed` ⇒ no schema error -/

/-- **Accepted ⇒ `TypeOk`.** For every byte string: if `Parse` reports no error, the namespaces it returns
    satisfy the decidable predicate `TypeOk` (every declared type resolves; every computed subject set and every
    traversed relation is a relation of its namespace; every traversal target passes `TypesHave`). -/
theorem C11_parse_typeOk (s : List UInt8) (h : (parse s).errors = []) : TypeOk (parse s).namespaces :=
  parse_typeOk s h

/-- **`TypeOk` ⇒ `WellFormed`** for every store that conforms to the declared types, provided traversed relations
    have plain namespace types only (`PlainTraversals`). -/
theorem C11_accepted_wellFormed (c : Cfg) (T : List Tuple) (hty : TypeOk c) (hpl : PlainTraversals c)
    (hconf : conforms c T = true) : WellFormed c T :=
  wellFormed_of_typeOk hty hpl hconf

/-- **C11, forward direction for type-checked configurations.** -/
theorem C11_forward_typed (E : Env) (hty : TypeOk E.cfg) (hpl : PlainTraversals E.cfg)
    (hconf : conforms E.cfg E.T = true) (q : Tuple) (hq : astRelationFor E.cfg q.ns q.rel ≠ .bad)
    (g : Int) (fuel : Nat) (r : Int) : (check E g fuel q r).1.err ≠ some .schema :=
  C11_forward_partial E (wellFormed_of_typeOk hty hpl hconf) q hq g fuel r

/-- **C11, forward direction from the source text.** If `Parse` accepts the document `s`, the engine runs on the
    namespaces it returned, traversed relations have plain types, and the store conforms to the declared types,
    then no check of a declared (namespace, relation) pair ends in a schema error — for every depth, fuel,
    fault oracle, width and page size. -/
theorem C11_forward_parse (s : List UInt8) (hacc : (parse s).errors = []) (E : Env)
    (hcfg : E.cfg = (parse s).namespaces) (hpl : PlainTraversals E.cfg) (hconf : conforms E.cfg E.T = true)
    (q : Tuple) (hq : HasRelation E.cfg q.ns q.rel) (g : Int) (fuel : Nat) (r : Int) :
    (check E g fuel q r).1.err ≠ some .schema :=
  C11_forward_typed E (by rw [hcfg]; exact parse_typeOk s hacc) hpl hconf q
    (astRelationFor_ne_bad_of_isSome ((findRelationT_isSome_iff _ _ _).mpr hq)) g fuel r

namespace C11tcex

/-- ```
    class User implements Namespace {}
    class Folder implements Namespace {
      related: { viewers: User[] }
      permits = { view: (ctx) => this.related.viewers.includes(ctx.subject) }
    }
    class Doc implements Namespace {
      related: { parents: Folder[], viewers: User[] }
      permits = { view: (ctx) => this.related.viewers.includes(ctx.subject) ||
                                 this.related.parents.traverse((p) => p.permits.view(ctx)) }
    }
    ``` -/
def cfg : Cfg := [
  ⟨"User", []⟩,
  ⟨"Folder", [⟨"viewers", [⟨"User", ""⟩], none⟩,
              ⟨"view", [], some ⟨.or, [.computed "viewers"]⟩⟩]⟩,
  ⟨"Doc", [⟨"parents", [⟨"Folder", ""⟩], none⟩,
           ⟨"viewers", [⟨"User", ""⟩], none⟩,
           ⟨"view", [], some ⟨.or, [.computed "viewers", .ttu "parents" "view"]⟩⟩]⟩]

def doc : List UInt8 :=
  b!"class User implements Namespace {}\nclass Folder implements Namespace {\n  related: { viewers: User[] }\n  permits = { view: (ctx) => this.related.viewers.includes(ctx.subject) }\n}\nclass Doc implements Namespace {\n  related: { parents: Folder[], viewers: User[] }\n  permits = { view: (ctx) => this.related.viewers.includes(ctx.subject) || this.related.parents.traverse((p) => p.permits.view(ctx)) }\n}\n"

/-- `Doc:1#parents@Folder:2`, `Folder:2#viewers@7` -/
def tuples : List Tuple := [⟨"Doc", 1, "parents", .set "Folder" 2 ""⟩, ⟨"Folder", 2, "viewers", .id 7⟩]

def env (c : Cfg) (T : List Tuple) : Env where
  cfg := c
  strict := false
  maxWidth := 100
  T := T
  fails := fun _ => false
  pageSize := 100

def q : Tuple := ⟨"Doc", 1, "view", .id 7⟩

/-- F-ttu-type on a document the type checker accepts (corpus/C11/ttu-subjectset.case):
    ```
    class Folder implements Namespace { related: { viewers: Folder[] } }
    class G2 implements Namespace { related: { members: Folder[] } }          // no `viewers`
    class Doc implements Namespace {
      related: { parents: SubjectSet<G2, "members">[] }
      permits = { view: (ctx) => this.related.parents.traverse((p) => p.related.viewers.includes(ctx.subject)) }
    }
    ``` -/
def badDoc : List UInt8 :=
  b!"class Folder implements Namespace { related: { viewers: Folder[] } }\nclass G2 implements Namespace { related: { members: Folder[] } }\nclass Doc implements Namespace {\n  related: { parents: SubjectSet<G2, \"members\">[] }\n  permits = { view: (ctx) => this.related.parents.traverse((p) => p.related.viewers.includes(ctx.subject)) }\n}\n"

def badCfg : Cfg := [
  ⟨"Folder", [⟨"viewers", [⟨"Folder", ""⟩], none⟩]⟩,
  ⟨"G2", [⟨"members", [⟨"Folder", ""⟩], none⟩]⟩,
  ⟨"Doc", [⟨"parents", [⟨"G2", "members"⟩], none⟩,
           ⟨"view", [], some ⟨.or, [.ttu "parents" "viewers"]⟩⟩]⟩]

/-- `Doc:1#parents@G2:5#members`, `G2:5#members@Folder:3` -/
def badTuples : List Tuple := [⟨"Doc", 1, "parents", .set "G2" 5 "members"⟩, ⟨"G2", 5, "members", .set "Folder" 3 ""⟩]

/-- A document with one bad reference of each kind (all syntactically fine):
    `Nope[]`, `SubjectSet<A, "zz">`, `this.related.missing.includes(…)`, and a traverse to `absent` over `r: A[]`. -/
def rejDoc : List UInt8 :=
  b!"class A implements Namespace {\n  related: { r: A[], s: Nope[], t: SubjectSet<A, \"zz\">[] }\n  permits = { p: (ctx) => this.related.missing.includes(ctx.subject) || this.related.r.traverse((x) => x.permits.absent(ctx)) }\n}\n"

end C11tcex

/-- **`PlainTraversals` cannot be dropped** (F-ttu-type). The configuration type-checks (`TypeOk`; indeed `Parse`
    accepts its source text), the store conforms to the declared types, the query's relation resolves — and the
    check ends in a schema error. The only hypothesis of `C11_forward_typed` that fails is `PlainTraversals`:
    `parents` is traversed and has the type `SubjectSet<G2, "members">`; the type checker looks for `viewers` in
    the types of `G2.members` (`Folder`), the engine looks it up in `G2`. -/
theorem C11_plainTraversals_needed :
    TypeOk C11tcex.badCfg ∧ conforms C11tcex.badCfg C11tcex.badTuples = true ∧
    astRelationFor C11tcex.badCfg C11tcex.q.ns C11tcex.q.rel ≠ .bad ∧
    ¬ PlainTraversals C11tcex.badCfg ∧
    (check (C11tcex.env C11tcex.badCfg C11tcex.badTuples) 5 50 C11tcex.q 0).1.err = some .schema :=
  ⟨by decide, by decide, Lookup.ne_bad_of_isBad (by decide), by decide, by decide⟩

-- … and the type checker really accepts the source text of that configuration: the same facts about what
-- `Parse` returns for it
open C11tcex in
example : (parse badDoc).errors = [] ∧ typeOkB (parse badDoc).namespaces = true ∧
    conforms (parse badDoc).namespaces badTuples = true ∧ plainTraversalsB (parse badDoc).namespaces = false ∧
    (check (env (parse badDoc).namespaces badTuples) 5 50 q 0).1.err = some .schema := by decide +kernel

-- non-vacuity of `C11_forward_typed`: all hypotheses hold of the Doc / Folder configuration (by `decide`) and the
-- check answers
open C11tcex in
example : TypeOk (env cfg tuples).cfg ∧ PlainTraversals (env cfg tuples).cfg ∧
    conforms (env cfg tuples).cfg (env cfg tuples).T = true ∧ astRelationFor (env cfg tuples).cfg q.ns q.rel ≠ .bad ∧
    (check (env cfg tuples) 5 50 q 0).1 = Res.isM :=
  ⟨by decide, by decide, by decide, Lookup.ne_bad_of_isBad (by decide), by decide⟩

-- non-vacuity of `C11_forward_parse` / `C11_parse_typeOk`: `Parse` accepts the source text, what it returns has plain
-- traversals, the store conforms, the query's relation is declared, and the check answers
open C11tcex in
example : (parse doc).errors = [] ∧ plainTraversalsB (parse doc).namespaces = true ∧
    conforms (parse doc).namespaces tuples = true ∧ (findRelationT (parse doc).namespaces q.ns q.rel).isSome = true ∧
    (check (env (parse doc).namespaces tuples) 5 50 q 0).1 = Res.isM := by decide +kernel

-- non-vacuity of the converse: the document with four bad references has no syntax error, its four type errors
-- point at `Nope` (bytes 55–59), `zz` (81–83, inside the quotes), `missing` (129–136) and — for the traverse to
-- `absent` — at the traversed relation `r` (175–176), in the order of the checks
open C11tcex in
example : (synOf rejDoc).errors = [] ∧
    (parse rejDoc).errors = [⟨.nsNotDeclared, 55, 59⟩, ⟨.nsNoRelation, 81, 83⟩, ⟨.nsNoRelation, 129, 136⟩,
      ⟨.relNotDeclared, 175, 176⟩] := by decide +kernel

-- non-vacuity of `C11_tc_accepts_iff`: on a two-namespace parse result the three kinds of checks on declared names hold
example : checksOk [⟨"A", [⟨"r", [⟨"B", ""⟩], none⟩]⟩, ⟨"B", [⟨"s", [], none⟩]⟩]
    [.nsExists (tId b!"B"), .nsHasRelation (tId b!"A") (tId b!"r"), .curNsHasRelation "A" (tId b!"r"),
     .allTypesHaveRelation "A" (tId b!"r") "s"] :=
  (C11_tc_accepts_iff _ _).mp (by decide)

end Keto

