/-
  C19 — when a watched file changes to content that does not parse, the server keeps serving the last
  valid version of that file; when it changes to valid content the new version takes effect; at every
  instant the namespaces visible are, for each watched file, exactly those of one valid version of that
  file loaded so far — never part of a version, never the invalid one, and never nothing once a valid
  version has been loaded.
  Statements and final proofs only; helper lemmas live in Keto/Proofs/WatcherLemmas.lean.

  Models (Keto/Model/Watcher.lean): `lstep`/`lrun` the legacy watcher (namespace_watcher.go), `ostep`/`orun`
  the OPL watcher (opl_config_namespace_watcher.go after repair af642fb). `parse : Content → Option (List
  String)` is a PARAMETER (every theorem holds for every parser); a history is any list of events, oldest
  first.

  Hypotheses that appear below and what they stand for:
    `noRemove es = true`                  no watched file is deleted (deletion is outside the property: a
                                          deleted file legitimately stops being served)
    `∀ e ∈ es, ∃ c, e = .change p c`      the OPL target is a single file `p` (the usual deployment)

  Result for the OPL watcher with SEVERAL files: the full per-file statement
      theorem C19_opl (parse) (es) (p) (h : noRemove es = true) :
          get p (orun parse es).visible = lastValid parse p es
  is NOT provable: the visible set is replaced all-or-nothing, so one invalid file blocks the valid
  versions of all other files (`C19_opl_multi_counterexample`). What holds in general is
  `C19_opl_global` (the visible set is the complete parse of the file table at the last instant at which
  every file was valid) with its corollaries `C19_opl_never_partial`, `C19_opl_one_entry_per_file`, and
  the per-file statement for a single file, `C19_opl_single`.
-/
import Keto.Model.Watcher
import Keto.Proofs.WatcherLemmas
import Keto.Proofs.FactsTieConc

namespace Keto
open W

/-! ### legacy watcher -/

/-- Keep-last-good, per file: after any remove-free history the namespaces visible for file `p` are
    those of the LAST valid version written to `p` — so an invalid version never shows and never hides
    the previous valid one, a valid version takes effect — and nothing is visible only if no version of
    `p` was valid yet. -/
theorem C19_legacy (parse : Parse) (es : List Ev) (p : String) (h : noRemove es = true) :
    lvisible (lrun parse es) p = lastValid parse p es := by
  have := lvisible_foldl parse [] es p h
  rw [lrun, this]
  cases lastValid parse p es with
  | some nss => rfl
  | none => rfl

/-- … at every instant: the same holds after every prefix of the history. -/
theorem C19_legacy_every_prefix (parse : Parse) (es : List Ev) (p : String) (h : noRemove es = true)
    (pre : List Ev) (hpre : pre <+: es) :
    lvisible (lrun parse pre) p = lastValid parse p pre := by
  obtain ⟨suf, rfl⟩ := hpre
  exact C19_legacy parse pre p (noRemove_append_left h)

/-- A change to content that does not parse changes nothing that is visible, for any file (no
    hypothesis on the history). -/
theorem C19_legacy_invalid_keeps (parse : Parse) (es : List Ev) (p : String) (c : Content)
    (hbad : parse c = none) (q : String) :
    lvisible (lrun parse (es ++ [.change p c])) q = lvisible (lrun parse es) q := by
  rw [lrun_snoc, lvisible_lstep_change]
  simp only [evValid, hbad]
  split <;> rename_i h <;> split at h <;> simp_all

/-- A change to valid content takes effect for that file and touches no other file (no hypothesis on
    the history). -/
theorem C19_legacy_valid_takes_effect (parse : Parse) (es : List Ev) (p : String) (c : Content)
    (nss : List String) (hok : parse c = some nss) :
    lvisible (lrun parse (es ++ [.change p c])) p = some nss ∧
    ∀ q, q ≠ p → lvisible (lrun parse (es ++ [.change p c])) q = lvisible (lrun parse es) q := by
  constructor
  · rw [lrun_snoc, lvisible_lstep_change]
    simp [evValid, hok]
  · intro q hq
    rw [lrun_snoc, lvisible_lstep_change]
    have : (p == q) = false := by simp; exact fun e => hq e.symm
    simp [evValid, this]

/-! ### OPL watcher -/

/-- Single watched file: the OPL watcher satisfies the same per-file statement. -/
theorem C19_opl_single (parse : Parse) (es : List Ev) (p : String)
    (hone : ∀ e ∈ es, ∃ c, e = Ev.change p c) :
    (orun parse es).visible =
      match lastValid parse p es with
      | some nss => [(p, nss)]
      | none => [] := by
  exact ovisible_foldl_single parse p {} es (Or.inl rfl) hone

/-- … at every instant. -/
theorem C19_opl_single_every_prefix (parse : Parse) (es : List Ev) (p : String)
    (hone : ∀ e ∈ es, ∃ c, e = Ev.change p c) (pre : List Ev) (hpre : pre <+: es) :
    (orun parse pre).visible =
      match lastValid parse p pre with
      | some nss => [(p, nss)]
      | none => [] := by
  obtain ⟨suf, rfl⟩ := hpre
  exact C19_opl_single parse pre p (fun e he => hone e (List.mem_append_left _ he))

/-- In general (any number of files, removes allowed): the visible set is `[]` if at no instant all
    files were valid, and otherwise the COMPLETE parse of the file table at the last instant at which
    all files were valid (`lastAllValid`, characterised by the next two theorems). -/
theorem C19_opl_global (parse : Parse) (es : List Ev) :
    (orun parse es).visible = (lastAllValid parse es).getD [] := by
  have := ovisible_foldl parse {} es
  rw [orun, this]
  rfl

/-- `lastAllValid` is `none` exactly when the file table failed to parse after every event. -/
theorem C19_lastAllValid_none (parse : Parse) (es : List Ev) :
    lastAllValid parse es = none ↔
      ∀ pre, pre <+: es → pre ≠ [] → parseAll parse (orun parse pre).files = none := by
  rw [lastAllValid, lastAllValidFrom_eq_none]
  constructor
  · rintro h pre ⟨suf, rfl⟩ hne
    rw [orun, orun_files_foldl]
    exact h pre suf rfl hne
  · intro h pre suf hsplit hne
    have := h pre ⟨suf, hsplit.symm⟩ hne
    rwa [orun, orun_files_foldl] at this

/-- `lastAllValid` is `some v` exactly when `v` is the parse of the whole file table after some event
    and the table failed to parse after every later event. -/
theorem C19_lastAllValid_some (parse : Parse) (es : List Ev) (v : List (String × List String)) :
    lastAllValid parse es = some v ↔
      ∃ pre suf, es = pre ++ suf ∧ pre ≠ [] ∧ parseAll parse (orun parse pre).files = some v ∧
        ∀ mid, mid <+: suf → mid ≠ [] → parseAll parse (orun parse (pre ++ mid)).files = none := by
  have hfiles : ∀ l, (orun parse l).files = filesRun [] l := fun l => by
    rw [orun, orun_files_foldl]
  have hrun : ∀ pre mid : List Ev, filesRun [] (pre ++ mid) = filesRun (filesRun [] pre) mid := by
    intro pre mid; simp [filesRun, List.foldl_append]
  rw [lastAllValid, lastAllValidFrom_eq_some]
  constructor
  · rintro ⟨pre, suf, hsplit, hne, hp, hn⟩
    refine ⟨pre, suf, hsplit, hne, by rw [hfiles]; exact hp, ?_⟩
    rintro mid ⟨rest, rfl⟩ hmid
    rw [hfiles, hrun]
    exact (lastAllValidFrom_eq_none parse _ _).mp hn mid rest rfl hmid
  · rintro ⟨pre, suf, hsplit, hne, hp, hn⟩
    refine ⟨pre, suf, hsplit, hne, by rw [← hfiles]; exact hp, ?_⟩
    apply (lastAllValidFrom_eq_none parse _ _).mpr
    intro mid rest hs hmid
    have := hn mid ⟨rest, hs.symm⟩ hmid
    rwa [hfiles, hrun] at this

/-- One event: if every file parses afterwards the complete new parse takes effect, otherwise what was
    visible stays. -/
theorem C19_opl_event (parse : Parse) (es : List Ev) (e : Ev) :
    (orun parse (es ++ [e])).visible =
      (parseAll parse (orun parse (es ++ [e])).files).getD (orun parse es).visible := by
  rw [orun_snoc, ostep_visible, ostep_files]

/-- Never partial, never invalid: every visible entry `(p, nss)` is the parse of ONE content `c` that
    was written to `p` in the history and that parses. -/
theorem C19_opl_never_partial (parse : Parse) (es : List Ev) (p : String) (nss : List String)
    (h : (p, nss) ∈ (orun parse es).visible) :
    ∃ c, parse c = some nss ∧ Ev.change p c ∈ es :=
  (OInv_orun parse es).visible p nss h

/-- … and a file has at most one visible entry (no mixture of two versions of a file). -/
theorem C19_opl_one_entry_per_file (parse : Parse) (es : List Ev) :
    ((orun parse es).visible.map (·.1)).Nodup :=
  (OInv_orun parse es).visibleNodup

/-- The parser used by the concrete witnesses: even contents are valid and declare one namespace named
    after the content, odd contents do not parse. -/
def C19_parse : Parse := fun c => if c % 2 == 0 then some [toString c] else none

/-- Several files: the per-file statement FAILS for the OPL watcher. With an invalid version of "b" in
    the directory, loading a valid version of "a" leaves NOTHING visible although a valid version of
    "a" has been loaded (in the other order, "a" then invalid "b", the loaded version of "a" stays
    visible: third line); and after valid "a", valid "b", an invalid "b" and then a newer valid "a",
    the OLD version of "a" is still the visible one. -/
theorem C19_opl_multi_counterexample :
    lastValid C19_parse "a" [.change "b" 1, .change "a" 2] = some ["2"] ∧
    get "a" (orun C19_parse [.change "b" 1, .change "a" 2]).visible = none ∧
    (orun C19_parse [.change "b" 1, .change "a" 2]).visible = [] ∧
    (orun C19_parse [.change "a" 2, .change "b" 1]).visible = [("a", ["2"])] ∧
    noRemove [.change "b" 1, .change "a" 2] = true ∧
    lastValid C19_parse "a" [.change "a" 2, .change "b" 4, .change "b" 1, .change "a" 6] = some ["6"] ∧
    get "a" (orun C19_parse [.change "a" 2, .change "b" 4, .change "b" 1, .change "a" 6]).visible
      = some ["2"] := by
  decide

/-- The legacy watcher on the same histories does satisfy it. -/
example :
    lvisible (lrun C19_parse [.change "b" 1, .change "a" 2]) "a" = some ["2"] ∧
    lvisible (lrun C19_parse [.change "a" 2, .change "b" 4, .change "b" 1, .change "a" 6]) "a"
      = some ["6"] := by
  decide

/-! ### atomicity -/

/-- Each event is ONE step of the model — in the code, one swap of the map / one `set` under the write
    lock (tied to the sources by `C19_lockUse_tie`) — and the visible set after an OPL step is either
    exactly what it was or exactly the complete parse of the new file table. -/
theorem C19_atomic_step (parse : Parse) (es : List Ev) (e : Ev) :
    lrun parse (es ++ [e]) = lstep parse (lrun parse es) e ∧
    orun parse (es ++ [e]) = ostep parse (orun parse es) e ∧
    ((ostep parse (orun parse es) e).visible = (orun parse es).visible ∨
      parseAll parse (ostep parse (orun parse es) e).files
        = some (ostep parse (orun parse es) e).visible) := by
  refine ⟨lrun_snoc parse es e, orun_snoc parse es e, ?_⟩
  rw [ostep_visible, ostep_files]
  cases parseAll parse (filesStep (orun parse es).files e) with
  | none => exact Or.inl rfl
  | some vis => exact Or.inr rfl

/-- The namespace managers swap their map under the write lock and read it under the read lock. -/
theorem C19_lockUse_tie : Facts.lockUse = FactsTie.expectedLockUse := Keto.FactsTie.lockUse_tie

/-! ### non-vacuity -/

/-- One file, history valid(2) · invalid(3) · valid(4): what is visible after each prefix, for both
    watchers, and the specification function on the same prefixes. -/
example :
    lvisible (lrun C19_parse []) "a" = none ∧
    lvisible (lrun C19_parse [.change "a" 2]) "a" = some ["2"] ∧
    lvisible (lrun C19_parse [.change "a" 2, .change "a" 3]) "a" = some ["2"] ∧
    lvisible (lrun C19_parse [.change "a" 2, .change "a" 3, .change "a" 4]) "a" = some ["4"] ∧
    (orun C19_parse []).visible = [] ∧
    (orun C19_parse [.change "a" 2]).visible = [("a", ["2"])] ∧
    (orun C19_parse [.change "a" 2, .change "a" 3]).visible = [("a", ["2"])] ∧
    (orun C19_parse [.change "a" 2, .change "a" 3, .change "a" 4]).visible = [("a", ["4"])] ∧
    lastValid C19_parse "a" [.change "a" 2, .change "a" 3] = some ["2"] ∧
    lastValid C19_parse "a" [.change "a" 2, .change "a" 3, .change "a" 4] = some ["4"] ∧
    noRemove [.change "a" 2, .change "a" 3, .change "a" 4] = true := by
  decide

/-- An invalid first version shows nothing (never the invalid one); two files that are both valid are
    both visible; `lastAllValid` on a history whose last event breaks a file. -/
example :
    lvisible (lrun C19_parse [.change "a" 3]) "a" = none ∧
    (orun C19_parse [.change "a" 3]).visible = [] ∧
    (orun C19_parse [.change "a" 2, .change "b" 4]).visible = [("a", ["2"]), ("b", ["4"])] ∧
    lastAllValid C19_parse [.change "a" 2, .change "b" 4, .change "a" 5]
      = some [("a", ["2"]), ("b", ["4"])] ∧
    lastAllValid C19_parse [.change "a" 1, .change "b" 4] = none := by
  decide

end Keto
