/-
  C07 — pagination returns every matching relationship exactly once.
  Statements and final proofs only; helper lemmas live in Keto/Proofs/StoreLemmas.lean.

  Model: `getPage` (keyset pagination of `GetRelationTuples`: rows with `shard_id > last` in `shard_id`
  order, `LIMIT n+1`, drop the extra row, token = last returned id; `0 ⇒ Facts.defaultPageSize`; a
  negative size and a malformed token are errors), `follow` (a client following the tokens),
  `followI` (the same while the table changes between fetches).
  Side condition `WF`: the table is in `shard_id` order without duplicate ids and no id is `uuid.Nil`
  (primary key + `uuid.NewV4`; preserved by every request that gets fresh ids: `run_WF`).
-/
import Keto.Model.Store
import Keto.Proofs.StoreLemmas

namespace Keto.Store

/-- For every table, network, query and page size `s ≥ 0` (`0` = default): following the tokens from the
    empty token ends (within `fuel` fetches for every `fuel` above the number of matching rows), the
    concatenation of the pages is exactly the list of matching rows in `shard_id` order — so every match is
    returned exactly once —, every page has at most `s'` rows, and the token is empty on the last page and
    only there (`PagesShape`; all earlier pages are full). -/
theorem C07_static (s : Store) (hwf : WF s) (nid : Nat) (q : Query) (size : Int) (hsz : 0 ≤ size)
    (fuel : Nat) (hfuel : (matching nid q s).length < fuel) :
    ∃ ps, follow nid q size s fuel .empty = some ps
      ∧ pagesRows ps = matching nid q s
      ∧ PagesShape (perPage size) ps := by
  have h := follow_spec hwf.1 nid q size hsz fuel .empty 0 rfl (by rw [cands_zero hwf.2]; exact hfuel)
  rw [cands_zero hwf.2] at h
  exact h

/-- The model's own complete listing (fuel = table size + 1) returns exactly the matching rows. -/
theorem C07_listAll (s : Store) (hwf : WF s) (nid : Nat) (q : Query) (size : Int) (hsz : 0 ≤ size) :
    listAll nid q size s = some (matching nid q s) := by
  have hlen : (matching nid q s).length < s.length + 1 :=
    Nat.lt_succ_of_le (List.length_filter_le _ _)
  obtain ⟨ps, hps, hrows, _⟩ := C07_static s hwf nid q size hsz (s.length + 1) hlen
  unfold listAll
  rw [hps, Option.map_some, hrows]

/-- Exactly once, spelled out: a stored row that matches occurs once in the pages, any other row never. -/
theorem C07_each_once (s : Store) (hwf : WF s) (nid : Nat) (q : Query) (size : Int) (hsz : 0 ≤ size)
    (ps : List Page) (h : follow nid q size s (s.length + 1) .empty = some ps) (r : Row) :
    (pagesRows ps).count r = if r ∈ s ∧ hits nid q r = true then 1 else 0 := by
  have hlen : (matching nid q s).length < s.length + 1 :=
    Nat.lt_succ_of_le (List.length_filter_le _ _)
  obtain ⟨ps', hps', hrows, _⟩ := C07_static s hwf nid q size hsz (s.length + 1) hlen
  rw [h] at hps'
  cases hps'
  rw [hrows]
  unfold matching
  rw [(hwf.1.filter _).nodup.count]
  simp [List.mem_filter]

/-- Interleaved writes.  The i-th fetch of an iteration sees the i-th table of `stores` (any write history
    may run between two fetches).  If row `r` matches and is in every one of these tables (no write touched
    it: it was not deleted and keeps its shard id) and the iteration ends, then `r` is in exactly one page.
    Invariant (`followI_count`): the rows returned so far are exactly the untouched matching rows with
    `shard ≤ token`, and tokens strictly increase. -/
theorem C07_interleaved (nid : Nat) (q : Query) (size : Int) (hsz : 0 ≤ size) (r : Row)
    (hr : hits nid q r = true) (stores : List Store)
    (hst : ∀ s ∈ stores, WF s ∧ r ∈ s) (ps : List Page)
    (h : followI nid q size .empty stores = some ps) :
    (pagesRows ps).count r = 1 := by
  cases stores with
  | nil => simp [followI] at h
  | cons s ss =>
    have hpos : 0 < r.shard := (hst s (by simp)).1.2 r (hst s (by simp)).2
    have := followI_count nid q size hsz r hr (s :: ss) (fun s' hs' => ⟨(hst s' hs').1.1, (hst s' hs').2⟩)
      .empty 0 ps rfl h
    rw [this, if_pos hpos]

/-- The same with the tables produced by write histories: `hs` are the histories (any requests in any networks,
    valid or not, under any fault oracle) that run between consecutive fetches.  If none of their requests
    names `r` for deletion (`Op.mayDelete`: inserts get fresh shard ids anywhere in the order and deletes hit
    other rows) and the iteration ends, `r` appears in exactly one page. -/
theorem C07_interleaved_histories (ck : Chunking) (hck : ck.pos) (cfg : Names) (fail : Oracle)
    (nid : Nat) (q : Query) (size : Int) (hsz : 0 ≤ size) (db : DB) (hwf : WF db.rows)
    (r : Row) (hr : r ∈ db.rows) (hq : hits nid q r = true)
    (hs : List History) (hfresh : FreshRuns ck cfg fail db hs)
    (hspare : ∀ h ∈ hs, ∀ x ∈ h, x.2.mayDelete x.1 r = false)
    (ps : List Page) (h : followI nid q size .empty (storesOf ck cfg fail db hs) = some ps) :
    (pagesRows ps).count r = 1 :=
  C07_interleaved nid q size hsz r hq _ (storesOf_inv ck hck cfg fail r hs db hwf hr hfresh hspare) ps h

/-- A negative page size is rejected and nothing is returned or changed (`persistence.ErrMalformedPageSize`,
    a 400). -/
theorem C07_negative_size_rejected (nid : Nat) (q : Query) (size : Int) (hneg : size < 0) (tok : Token) (s : Store) :
    getPage nid q size tok s = .error .badSize := by
  unfold getPage
  rw [if_pos hneg]

theorem C07_negative_size_rejected_api (ck : Chunking) (cfg : Names) (nid : Nat) (q : Query) (size : Int)
    (hneg : size < 0) (tok : Token) (db : DB) (hq : fromQuery cfg q = .ok q) :
    listReq ck cfg nid (some q) size tok db = ({ status := .bad }, db) := by
  simp [listReq, mapQuery, hq, mapStrings_readOnly, C07_negative_size_rejected nid q size hneg]

/-- A malformed page token is rejected as a client error (`persistence.ErrMalformedPageToken`), nothing is
    returned or changed. -/
theorem C07_bad_token_rejected (nid : Nat) (q : Query) (size : Int) (hsz : 0 ≤ size) (s : Store) :
    getPage nid q size .bad s = .error .badToken := by
  unfold getPage
  have : ¬ size < 0 := by omega
  simp [this, tokLast]

theorem C07_bad_token_rejected_api (ck : Chunking) (cfg : Names) (nid : Nat) (q : Query) (size : Int)
    (db : DB) (hq : fromQuery cfg q = .ok q) :
    listReq ck cfg nid (some q) size .bad db = ({ status := .bad }, db) := by
  by_cases h : size < 0
  · exact C07_negative_size_rejected_api ck cfg nid q size h .bad db hq
  · simp [listReq, mapQuery, hq, mapStrings_readOnly, C07_bad_token_rejected nid q size (by omega)]

/-! ### Non-vacuity -/
namespace C07ex

def t (o : Nat) : Tuple := ⟨"doc", o, "viewer", .id 1⟩

/-- Five rows of network 0 and one of network 1, in shard order. -/
def table : Store := [⟨3, 0, t 1⟩, ⟨5, 0, t 2⟩, ⟨6, 1, t 9⟩, ⟨8, 0, t 3⟩, ⟨9, 0, t 4⟩, ⟨12, 0, t 5⟩]

theorem table_WF : WF table := by
  unfold WF Sorted table
  constructor
  · simp [List.pairwise_cons]
  · intro r hr; simp at hr; rcases hr with rfl | rfl | rfl | rfl | rfl | rfl <;> decide

def shape (ps : Option (List Page)) : Option (List (List Nat × Option Nat)) :=
  ps.map (·.map fun p => (p.rows.map (·.shard), p.next))

-- C07_static is not vacuous: page size 2 over the 5 rows of network 0 gives three pages, two tokens.
example : shape (follow 0 {} 2 table 6 .empty) = some [([3, 5], some 5), ([8, 9], some 9), ([12], none)] := by
  decide
-- page size 5 = number of matches: one full page and NO token (the extra row of LIMIT n+1 is missing).
example : shape (follow 0 {} 5 table 6 .empty) = some [([3, 5, 8, 9, 12], none)] := by decide
-- page size 0 means the default page size.
example : perPage 0 = Facts.defaultPageSize ∧ shape (follow 0 {} 0 table 6 .empty) = some [([3, 5, 8, 9, 12], none)] := by
  decide
-- too little fuel is reported, not hidden.
example : follow 0 {} 2 table 2 .empty = none := by decide

/-- Between the first and the second fetch row 5 (already returned) is deleted, a row with a smaller id (4)
    and one with a larger id (10) are inserted. -/
def table2 : Store := [⟨3, 0, t 1⟩, ⟨4, 0, t 7⟩, ⟨6, 1, t 9⟩, ⟨8, 0, t 3⟩, ⟨9, 0, t 4⟩, ⟨10, 0, t 8⟩, ⟨12, 0, t 5⟩]

-- C07_interleaved is not vacuous: the untouched rows 3, 8, 9, 12 are each returned once; the row inserted
-- behind the cursor (4) is not returned, the one inserted ahead (10) is.
example : shape (followI 0 {} 2 .empty [table, table2, table2]) =
    some [([3, 5], some 5), ([8, 9], some 9), ([10, 12], none)] := by decide

-- … and the same through write histories between the fetches (`C07_interleaved_histories`): after the first
-- fetch a Persister delete of row 5's relationship and a write of two new rows with ids 4 and 10.
def between : History := [(0, .pDelete [t 2]), (0, .pWrite [(t 7, 4), (t 8, 10)])]
example : storesOf {} ["doc"] noFail ⟨table, []⟩ [between, []] = [table, table2, table2] := by decide
example : ∀ x ∈ between, x.2.mayDelete x.1 ⟨8, 0, t 3⟩ = false := by decide
example : (between.any fun x => x.2.mayDelete x.1 ⟨5, 0, t 2⟩) = true := by decide

-- rejected requests
example : getPage 0 {} (-1) .empty table = .error .badSize := by rfl
example : getPage 0 {} 2 .bad table = .error .badToken := by rfl
example : listReq {} ["doc"] 0 (some {}) (-1) .empty ⟨table, []⟩ = ({ status := .bad }, ⟨table, []⟩) := by decide

end C07ex

end Keto.Store
