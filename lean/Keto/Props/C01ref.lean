/-
  C01 — the run-time oracle `refEval` (Keto/Spec/Membership.lean) against the inductive Zanzibar
  semantics `Mem`, for configurations without `!` (`Cfg.pos`):

  * `refEval_sound_pos`:    a `t` answer implies membership;
  * `refEval_complete_pos`: an `f` answer implies non-membership (the per-path cycle cut is complete);
  * `refEval_iff_Mem_pos`:  whenever the answer is not `bad` (fuel exhausted / lookup error), it is
    `t` exactly for the members;
  * `C01_engine_eq_ref_pos`: the engine model and the oracle agree (no error, no limit event, oracle
    not `bad`), through `C01_exact_pos_general`.

  Every fuel is allowed: with too little fuel the evaluator answers `bad`, about which nothing is
  claimed.  Statements and final proofs only; helper lemmas live in Keto/Proofs/RefEvalLemmas.lean.
-/
import Keto.Model.Engine
import Keto.Spec.Membership
import Keto.Spec.Positive
import Keto.Proofs.EngineSound
import Keto.Proofs.RefEvalLemmas
import Keto.Props.C01
import Keto.Props.C01complete

namespace Keto

/-- Soundness of the reference evaluator, positive fragment. -/
theorem refEval_sound_pos (c : Cfg) (T : List Tuple) (hc : Cfg.pos c) (fuel : Nat) (q : Tuple) :
    refEval c T fuel [] 0 (.node q) = .t → Mem c T q :=
  fun h => refEval_sound_aux hc fuel [] 0 (.node q) h

-- non-vacuity: on the cyclic store of `C01cex` (A ∋ B ∋ A, B ∋ C ∋ B, user 7 in C) the evaluator
-- answers `t` for user 7 viewing doc 1 (behind the cycle, through the rewrite) …
example : Cfg.pos C01cex.cfg ∧
    refEval C01cex.cfg C01cex.env.T 20 [] 0 (.node ⟨"doc", 1, "view", .id 7⟩) = .t :=
  ⟨Cfg.pos_of_posB (by decide), by decide⟩

-- … and through the tuple-to-subject-set branch of `C01ex`; so the conclusion is really derived.
example : refEval C01ex.cfg C01ex.env.T 10 [] 0 (.node C01ex.q) = .t := by decide

example : Mem C01cex.cfg C01cex.env.T ⟨"doc", 1, "view", .id 7⟩ :=
  refEval_sound_pos _ _ (Cfg.pos_of_posB (by decide)) 20 _ (by decide)

/-- Completeness of the reference evaluator, positive fragment: an `f` answer (which may have been
    obtained through the per-path cycle cut) means the query is not a member. -/
theorem refEval_complete_pos (c : Cfg) (T : List Tuple) (hc : Cfg.pos c) (fuel : Nat) (q : Tuple) :
    refEval c T fuel [] 0 (.node q) = .f → ¬ Mem c T q := by
  intro h hmem
  obtain ⟨k, hk⟩ := memA_of_mem hmem
  exact refEval_complete_aux hc fuel [] 0 (.node q) h k hk

-- non-vacuity: on the cyclic store the evaluator answers `f` through the path cut (user 9 is in no
-- group; the evaluation of group 1 re-enters group 1 via group 2) …
example : Cfg.pos C01cex.cfg ∧
    refEval C01cex.cfg C01cex.env.T 20 [] 0 (.node ⟨"group", 1, "member", .id 9⟩) = .f :=
  ⟨Cfg.pos_of_posB (by decide), by decide⟩

-- … and through `or` / `and` (user 7 edits doc 2 but the owners group 4 only contains itself).
example : refEval C01cex.cfg C01cex.env.T 20 [] 0 (.node ⟨"doc", 2, "view", .id 7⟩) = .f := by decide

example : ¬ Mem C01cex.cfg C01cex.env.T ⟨"group", 1, "member", .id 9⟩ :=
  refEval_complete_pos _ _ (Cfg.pos_of_posB (by decide)) 20 _ (by decide)

-- the cut is what answers: with the cycle but too little fuel the answer is `bad`, not `f`.
example : refEval C01cex.cfg C01cex.env.T 2 [] 0 (.node ⟨"group", 1, "member", .id 9⟩) = .bad := by decide

/-- Exactness of the reference evaluator, positive fragment: a non-`bad` answer is `t` exactly for
    the members of the Zanzibar semantics. -/
theorem refEval_iff_Mem_pos (c : Cfg) (T : List Tuple) (hc : Cfg.pos c) (fuel : Nat) (q : Tuple) :
    refEval c T fuel [] 0 (.node q) ≠ .bad → (refEval c T fuel [] 0 (.node q) = .t ↔ Mem c T q) := by
  intro hnb
  constructor
  · exact refEval_sound_pos c T hc fuel q
  · intro hmem
    cases h : refEval c T fuel [] 0 (.node q) with
    | t => rfl
    | f => exact absurd hmem (refEval_complete_pos c T hc fuel q h)
    | bad => exact absurd h hnb

-- non-vacuity: the premise is met with either answer.
example : refEval C01cex.cfg C01cex.env.T 20 [] 0 (.node ⟨"doc", 1, "view", .id 7⟩) ≠ .bad ∧
    refEval C01cex.cfg C01cex.env.T 20 [] 0 (.node ⟨"doc", 2, "view", .id 7⟩) ≠ .bad :=
  ⟨by decide, by decide⟩

/-- The engine model agrees with the run-time oracle: with no error, no limit event and a non-`bad`
    oracle answer, the engine answers `isMember` iff the oracle answers `t`. -/
theorem C01_engine_eq_ref_pos (E : Env) (hc : Cfg.pos E.cfg)
    (hs : E.strict = true → conforms E.cfg E.T = true) (g : Int) (fuel : Nat) (q : Tuple) (r : Int)
    (rfuel : Nat) :
    (check E g fuel q r).1.err = none → (check E g fuel q r).2.limitHits = 0 →
    refEval E.cfg E.T rfuel [] 0 (.node q) ≠ .bad →
    ((check E g fuel q r).1.memb = .isMember ↔ refEval E.cfg E.T rfuel [] 0 (.node q) = .t) := by
  intro herr hlim hnb
  exact (C01_exact_pos_general E hc hs g fuel q r herr hlim).trans
    (refEval_iff_Mem_pos E.cfg E.T hc rfuel q hnb).symm

-- non-vacuity: all hypotheses hold on the cyclic store, in both modes and with either answer.
example : Cfg.pos C01cex.env.cfg ∧
    (check C01cex.env 10 200 ⟨"doc", 1, "view", .id 7⟩ 0).1.err = none ∧
    (check C01cex.env 10 200 ⟨"doc", 1, "view", .id 7⟩ 0).2.limitHits = 0 ∧
    refEval C01cex.env.cfg C01cex.env.T 20 [] 0 (.node ⟨"doc", 1, "view", .id 7⟩) ≠ .bad ∧
    (check C01cex.env 10 200 ⟨"doc", 1, "view", .id 7⟩ 0).1.memb = .isMember :=
  ⟨Cfg.pos_of_posB (by decide), by decide, by decide, by decide, by decide⟩

example : conforms C01cex.envStrict.cfg C01cex.envStrict.T = true ∧
    (check C01cex.envStrict 10 200 ⟨"doc", 2, "view", .id 7⟩ 0).1.err = none ∧
    (check C01cex.envStrict 10 200 ⟨"doc", 2, "view", .id 7⟩ 0).2.limitHits = 0 ∧
    refEval C01cex.envStrict.cfg C01cex.envStrict.T 20 [] 0 (.node ⟨"doc", 2, "view", .id 7⟩) = .f :=
  ⟨by decide, by decide, by decide, by decide⟩

end Keto
