/-
  C15 (storage operations) — a check on any data returns after a number of storage operations
  bounded by the depth and width limits, also when storage operations fail.

  `callsBound` (Keto/Spec/Calls.lean) is the recurrence
      callsBound 0     = 0
      callsBound (d+1) = 2 + nRw + nTtu * (nTuples / pageSize + 1)
                           + (nComp + nTtu * nTuples + min width nTuples) * callsBound d
  where `nRw`, `nComp`, `nTtu` are the largest numbers of rewrite nodes, computed-subject-set leaves
  and tuple-to-subject-set leaves of the rewrite of any relation of the configuration. It does not
  mention the content of the store (cycles …), the fault oracle or the query. It DOES mention the
  number of stored tuples, and not only under `min width _`: the rows of a tuple-to-subject-set
  listing are not limited by max-width (finding F-ttu-width; the second example below shows the
  number of operations growing with the store at a fixed width limit of 2).

  Statements and final proofs only; helper lemmas live in Keto/Proofs/EngineCalls.lean
  (`build_calls`: the same for every call of the engine, started in any world, split into the
  operations made while the check is constructed and those made when the returned thunk is run).
-/
import Keto.Model.Engine
import Keto.Spec.Calls
import Keto.Proofs.EngineCalls
import Keto.Props.C15

namespace Keto

/-- Every check makes at most `callsBound …` storage operations: for every store (cycles included),
    every fault oracle `E.fails`, every query, every request depth, and every fuel (with too little
    fuel the model gives up early, which only saves operations). The bound depends on the effective
    depth, max-width, three counts of the configuration's rewrites, the page size and the NUMBER of
    stored tuples only. -/
theorem C15_calls_bounded (E : Env) (g : Int) (fuel : Nat) (q : Tuple) (r : Int) :
    (check E g fuel q r).2.calls ≤
      callsBound (Cfg.nRw E.cfg) (Cfg.nComp E.cfg) (Cfg.nTtu E.cfg) E.maxWidth E.pageSize E.T.length
        (effDepth r g).toNat :=
  check_calls E g fuel q r

/-- `callsBound` is monotone in the number of tuples: any upper bound `n` on the size of the store
    will do. -/
theorem C15_calls_bounded_of_le (E : Env) (g : Int) (fuel : Nat) (q : Tuple) (r : Int) (n : Nat)
    (hn : E.T.length ≤ n) :
    (check E g fuel q r).2.calls ≤
      callsBound (Cfg.nRw E.cfg) (Cfg.nComp E.cfg) (Cfg.nTtu E.cfg) E.maxWidth E.pageSize n (effDepth r g).toNat :=
  Nat.le_trans (check_calls E g fuel q r)
    (callsBound_mono E.pageSize (Nat.le_refl _) (Nat.le_refl _) (Nat.le_refl _) (Nat.le_refl _) hn _)

/-- `callsBound` is monotone in everything but the page size: upper bounds on the counts of the
    configuration, on max-width, on the size of the store and on the depth will do; in particular
    the configured global max depth `g` instead of the effective depth — no request can make a
    check cost more than `callsBound … g`. -/
theorem C15_calls_bounded_upper (E : Env) (g : Int) (fuel : Nat) (q : Tuple) (r : Int)
    (nRw nComp nTtu width n : Nat) (h1 : Cfg.nRw E.cfg ≤ nRw) (h2 : Cfg.nComp E.cfg ≤ nComp)
    (h3 : Cfg.nTtu E.cfg ≤ nTtu) (h4 : E.maxWidth ≤ width) (h5 : E.T.length ≤ n) :
    (check E g fuel q r).2.calls ≤ callsBound nRw nComp nTtu width E.pageSize n g.toNat := by
  have hd : (effDepth r g).toNat ≤ g.toNat := by
    have := effDepth_le r g
    omega
  exact Nat.le_trans (check_calls E g fuel q r)
    (Nat.le_trans (callsBound_mono E.pageSize h1 h2 h3 h4 h5 _) (callsBound_mono_depth_le _ _ _ _ _ _ hd))

namespace C15callsEx

/-- `doc.view` = the viewers of the parent folders (one tuple-to-subject-set leaf). -/
def cfg : Cfg := [
  ⟨"folder", [⟨"viewer", [⟨"user", ""⟩], none⟩]⟩,
  ⟨"doc", [⟨"parent", [⟨"folder", ""⟩], none⟩,
           ⟨"view", [], some ⟨.or, [.ttu "parent" "viewer"]⟩⟩]⟩]

/-- `n` parent folders of doc 1. -/
def parents : Nat → List Tuple
  | 0 => []
  | n+1 => ⟨"doc", 1, "parent", .set "folder" (n + 10) ""⟩ :: parents n

/-- max-width 2, pages of 2 rows. -/
def env (n : Nat) : Env where
  cfg := cfg
  strict := false
  maxWidth := 2
  T := parents n
  fails := fun _ => false
  pageSize := 2

def q : Tuple := ⟨"doc", 1, "view", .id 7⟩

end C15callsEx

-- non-vacuity 1: the cyclic store and the self-referential permission `p = a && p` of C15ex
-- (nRw = 1, nComp = 2, nTtu = 0; 3 tuples, max-width 100): the check makes 2 / 6 / 17 storage
-- operations at depth 2 / 3 / 5, the bound is 18 / 93 / 2343 (3 + 5 * previous: exponential in the
-- depth, as the worst case is — every level may start `nComp + min width nTuples` checks);
-- when the second operation fails the check answers with the storage error after 13 operations (the
-- checks that are evaluated eagerly during construction go on); the bound does not depend on the oracle.
example : (Cfg.nRw C15ex.cfg, Cfg.nComp C15ex.cfg, Cfg.nTtu C15ex.cfg) = (1, 2, 0) ∧
    (check C15ex.env 2 21 C15ex.qPerm 0).2.calls = 2 ∧ checkCallsBound C15ex.env (effDepth 0 2) = 18 ∧
    (check C15ex.env 3 21 C15ex.qPerm 0).2.calls = 6 ∧ checkCallsBound C15ex.env (effDepth 0 3) = 93 ∧
    (check C15ex.env 5 21 C15ex.qPerm 0).2.calls = 17 ∧ checkCallsBound C15ex.env (effDepth 0 5) = 2343 ∧
    (check { C15ex.env with fails := fun k => k == 2 } 5 21 C15ex.qPerm 0).1.err = some .storage ∧
    (check { C15ex.env with fails := fun k => k == 2 } 5 21 C15ex.qPerm 0).2.calls = 13 ∧
    checkCallsBound { C15ex.env with fails := fun k => k == 2 } (effDepth 0 5) = 2343 := by decide

-- non-vacuity 2 (F-ttu-width): with max-width 2 and 0, 1, 3, 5 parent folders the check at depth 3
-- makes 3, 5, 10, 15 storage operations — the listing is not cut at max-width, so the dependence of
-- the bound (4, 28, 155, 342) on the number of tuples is real.
example : (Cfg.nRw C15callsEx.cfg, Cfg.nComp C15callsEx.cfg, Cfg.nTtu C15callsEx.cfg) = (1, 0, 1) ∧
    (check (C15callsEx.env 0) 3 20 C15callsEx.q 0).2.calls = 3 ∧ checkCallsBound (C15callsEx.env 0) 3 = 4 ∧
    (check (C15callsEx.env 1) 3 20 C15callsEx.q 0).2.calls = 5 ∧ checkCallsBound (C15callsEx.env 1) 3 = 28 ∧
    (check (C15callsEx.env 3) 3 20 C15callsEx.q 0).2.calls = 10 ∧ checkCallsBound (C15callsEx.env 3) 3 = 155 ∧
    (check (C15callsEx.env 5) 3 20 C15callsEx.q 0).2.calls = 15 ∧ checkCallsBound (C15callsEx.env 5) 3 = 342 ∧
    (check (C15callsEx.env 5) 3 20 C15callsEx.q 0).2.limitHits = 0 := by decide

end Keto
