/-
  C04 — the relationship store behaves as a per-network multiset under any API history.
  Statements and final proofs only; helper lemmas live in Keto/Proofs/StoreLemmas.lean.

  Model: Keto/Model/Store.lean (`run`: histories of REST/gRPC/Persister requests with arbitrary, valid and
  invalid, arguments over the table and the mapping table, chunked statements inside transactions).
  Specification: Keto/Spec/Multiset.lean (`specRun`: count functions network → relationship → ℕ).
  `abs` forgets shard ids and order.  The theorems hold for every chunking with positive chunk sizes; the
  chunk sizes of the code are positive (`C04_chunk_sizes_pos`, from the regenerated facts).
-/
import Keto.Model.Store
import Keto.Spec.Multiset
import Keto.Proofs.StoreLemmas
import Keto.Props.C07

namespace Keto.Store

/-- The chunk sizes extracted from the sources are positive, so the theorems below apply to the code's
    constants (`{}` is the chunking with `Facts.chunkSizeInsertTuple`, `…DeleteTuple`, `…InsertUUIDMappings`). -/
theorem C04_chunk_sizes_pos : ({} : Chunking).pos := by
  unfold Chunking.pos; decide

/-- Core lemma: chunking is unobservable.  `WriteRelationTuples` / `DeleteRelationTuples` /
    `TransactRelationTuples` with ANY chunk sizes ≥ 1 equal the unchunked operations (one INSERT with all
    rows, one DELETE with all listed relationships). -/
theorem C04_chunking_unobservable (cI cD : Nat) (hI : 0 < cI) (hD : 0 < cD) (nid : Nat)
    (ins : List (Tuple × Nat)) (del : List Tuple) (s : Store) :
    writeC cI nid ins s = insertRows (mkRows nid ins) s ∧
    deleteC cD nid del s = deleteStmt nid del s ∧
    transactC cI cD nid ins del s = deleteStmt nid del (insertRows (mkRows nid ins) s) :=
  ⟨writeC_eq cI hI nid ins s, deleteC_eq cD hD nid del s, transactC_eq cI cD hI hD nid ins del s⟩

/-- … in particular two chunkings cannot be told apart. -/
theorem C04_chunk_sizes_irrelevant (c c' d d' : Nat) (hc : 0 < c) (hc' : 0 < c') (hd : 0 < d) (hd' : 0 < d')
    (nid : Nat) (ins : List (Tuple × Nat)) (del : List Tuple) (s : Store) :
    transactC c d nid ins del s = transactC c' d' nid ins del s := by
  rw [transactC_eq c d hc hd, transactC_eq c' d' hc' hd']

/-- Refinement: for EVERY history of requests (any mix of REST, gRPC and Persister calls in any networks,
    valid and invalid arguments, duplicates, inserts and deletes of the same relationship in one patch, …)
    from every initial database, the table reached by the model is, as a multiset per network, exactly what
    the multiset specification predicts. -/
theorem C04_refines (ck : Chunking) (hck : ck.pos) (cfg : Names) (h : History) (db : DB) :
    abs (run ck cfg noFail h db).2.rows = specRun cfg h (abs db.rows) :=
  run_abs ck hck cfg h db

/-- … from the empty database: `abs (run h init) = specRun h`. -/
theorem C04_refines_init (ck : Chunking) (hck : ck.pos) (cfg : Names) (h : History) :
    abs (run ck cfg noFail h {}).2.rows = specRun cfg h MS.empty :=
  run_abs ck hck cfg h {}

/-- The observations of a run agree with the specification: every complete listing (`listAll`: the API,
    following the tokens) is accepted iff the specification accepts it and returns, as a multiset, exactly
    `{t ∈ Model(h) | t matches Q}`; every `exists` answers whether such a relationship exists. -/
def ObsAgree (ck : Chunking) (cfg : Names) : History → DB → MS → Prop
  | [], _, _ => True
  | (nid, op) :: h, db, m =>
    (match op with
      | .listAll q size =>
        match (step ck cfg noFail nid op db).1.pages, specListAll cfg nid q size m with
        | some ps, some f => ∀ t, ((pagesRows ps).map (·.t)).count t = f t
        | none, none => True
        | _, _ => False
      | .pExists q => ((step ck cfg noFail nid op db).1.found = some true ↔ m.has nid q)
      | _ => True)
    ∧ ObsAgree ck cfg h (step ck cfg noFail nid op db).2 (specStep cfg nid op m)

/-- Side conditions: the initial table is well formed (`WF`: shard order, distinct non-nil ids) and every
    request gets fresh shard ids for the rows it inserts (`FreshRun`) — the database's primary key and
    `uuid.NewV4`. -/
theorem C04_observations (ck : Chunking) (hck : ck.pos) (cfg : Names) (h : History) (db : DB)
    (hwf : WF db.rows) (hfresh : FreshRun ck cfg noFail h db) :
    ObsAgree ck cfg h db (abs db.rows) := by
  induction h generalizing db with
  | nil => trivial
  | cons x h ih =>
    rcases x with ⟨nid, op⟩
    refine ⟨?_, ?_⟩
    · cases op with
      | listAll q size => exact listAllReq_spec ck cfg nid q size db hwf
      | pExists q =>
        show (some (existsTuples nid q db.rows) = some true ↔ _)
        rw [Option.some.injEq]
        exact existsTuples_iff nid q db.rows
      | _ => trivial
    · rw [← step_abs ck hck]
      exact ih _ (step_WF ck hck cfg noFail nid op db hwf hfresh.1) hfresh.2

/-- Rejected writes have no effect: whatever the request and whatever the fault oracle, a request that is not
    answered `ok` leaves BOTH tables (relationships and name mappings) exactly as they were. -/
theorem C04_rejected_no_effect (ck : Chunking) (cfg : Names) (fail : Oracle) (nid : Nat) (op : Op) (db : DB)
    (h : (step ck cfg fail nid op db).1.status ≠ .ok) : (step ck cfg fail nid op db).2 = db := by
  by_cases hr : op.isRead = true
  · exact step_read ck cfg fail nid op db hr
  · exact (normalForm_all_or_nothing (step_form ck cfg nid op db (by simpa using hr)) fail).2 h

/-- … and writes that name an unknown namespace or carry no subject ARE rejected (`specTuple cfg t = none`
    says exactly that: no subject, or a namespace that is not configured), at any position of a patch /
    transact request; so are deletes by a query naming an unknown namespace. -/
theorem C04_invalid_rejected (ck : Chunking) (cfg : Names) (fail : Oracle) (nid : Nat) (db : DB) :
    (∀ t sh, specTuple cfg t = none → (step ck cfg fail nid (.restCreate t sh) db).1.status ≠ .ok) ∧
    (∀ ds d t, d ∈ ds → d.action ≠ .other → d.t = some t → specTuple cfg t = none →
        (step ck cfg fail nid (.restPatch ds) db).1.status ≠ .ok ∧
        (step ck cfg fail nid (.grpcTransact ds) db).1.status ≠ .ok) ∧
    (∀ q, specQuery cfg q = false →
        (step ck cfg fail nid (.restDelete q) db).1.status ≠ .ok ∧
        (step ck cfg fail nid (.grpcDelete (some q)) db).1.status ≠ .ok) := by
  refine ⟨?_, ?_, ?_⟩
  · intro t sh hs
    simp only [step, wOut, restCreate]
    split
    · exact fun h => by cases h
    · apply writeTx_rejects
      left
      simp [specTuples, hs]
  · intro ds d t hd ha ht hs
    constructor
    · simp only [step, wOut, restPatch]
      split
      · exact fun h => by cases h
      · exact deltas_reject ck cfg fail nid ds db d t hd ha ht hs
    · simp only [step, wOut, grpcTransact]
      split
      · exact fun h => by cases h
      · split
        · exact fun h => by cases h
        · exact deltas_reject ck cfg fail nid ds db d t hd ha ht hs
  · intro q hq
    rw [specQuery_eq] at hq
    have hdq : ∀ fail, (deleteByQuery cfg fail nid q db).1 ≠ .ok := by
      intro fail
      simp [deleteByQuery, fromQuery, hq]
    constructor
    · simp only [step, wOut, restDelete]
      split
      · exact fun h => by cases h
      · exact hdq fail
    · simp only [step, wOut, grpcDelete]
      exact hdq fail

/-! ### Non-vacuity -/
namespace C04ex

def cfg : Names := ["doc", "group"]
def a : ATuple := { ns := "doc", obj := 1, rel := "viewer", sid := some 7 }
def b : ATuple := { ns := "doc", obj := 1, rel := "viewer", sset := some ("group", 2, "member") }
def noSubject : ATuple := { ns := "doc", obj := 1, rel := "viewer" }
def unknownNs : ATuple := { ns := "nope", obj := 1, rel := "viewer", sid := some 7 }
def ta : Tuple := ⟨"doc", 1, "viewer", .id 7⟩
def tb : Tuple := ⟨"doc", 1, "viewer", .set "group" 2 "member"⟩

/-- create a twice (a duplicate), patch [insert b, delete a], a rejected patch, delete by query in another
    network, a complete listing. -/
def hist : History := [
  (0, .restCreate a 50), (0, .restCreate a 20),
  (0, .restPatch [⟨.insert, some b, 30⟩, ⟨.delete, some a, 0⟩]),
  (0, .restPatch [⟨.insert, some a, 40⟩, ⟨.insert, some noSubject, 41⟩]),
  (0, .grpcTransact [⟨.insert, some a, 60⟩, ⟨.other, none, 0⟩]),
  (1, .grpcDelete (some {})),
  (0, .listAll (some {}) 1)]

-- the history really changes the state: both copies of a are gone, b and the later a are there …
example : ((run {} cfg noFail hist {}).2.rows.map fun r => (r.shard, r.nid, r.t)) = [(30, 0, tb), (60, 0, ta)] := by
  decide
-- … the specification says the same (this is an instance of C04_refines_init) …
example : specRun cfg hist MS.empty 0 ta = 1 ∧ specRun cfg hist MS.empty 0 tb = 1 ∧
    specRun cfg hist MS.empty 1 ta = 0 := by decide
-- … the listing returned both relationships on two pages, the rejected patch answered 400, the 4th request
-- had no effect, and the side conditions of C04_observations hold for this history.
example : ((run {} cfg noFail hist {}).1.map (·.status)) = [.ok, .ok, .ok, .bad, .ok, .ok, .ok] := by decide
example : (((run {} cfg noFail hist {}).1.getLast?.bind (·.pages)).map fun ps => ps.map fun p => p.rows.map (·.shard))
    = some [[30], [60]] := by decide
example : FreshRun {} cfg noFail hist {} := by
  unfold hist
  refine ⟨?_, ?_, ?_, ?_, ?_, ?_, ?_, trivial⟩ <;> (unfold Fresh; decide)
-- unacceptable relationships
example : specTuple cfg noSubject = none ∧ specTuple cfg unknownNs = none ∧ specTuple cfg a = some ta := by decide
example : (step {} cfg noFail 0 (.restCreate unknownNs 9) {}).1.status = .notFound := by decide
-- chunking: 5 inserts in chunks of 2 are three statements, the result is the same as one statement
example : (writeStmts 2 0 [(ta, 1), (tb, 2), (ta, 3), (tb, 4), (ta, 5)]).length = 3 := by decide

end C04ex

end Keto.Store
