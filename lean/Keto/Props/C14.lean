/-
  C14 — any number of requests running concurrently against unchanging data each return exactly the
  answer they return when run alone; per-request state is never shared.
  Statements and final proofs only; helper lemmas live in Keto/Proofs/ConcLemmas.lean.

  Model (Keto/Model/Concurrency.lean): a system `S` gives every request id a program (a list of
  steps); a schedule is ANY list of request ids (any length, any order, ids may occur after their
  program finished: such a turn is a no-op). A step writes only the local state of the request that
  makes it, or publishes a registry cell with a value that does not depend on the publisher.

  Hypotheses that appear below and what they stand for:
    `Consistent S s`      every registry cell is absent or holds what its lazy getter creates; holds for
                          the empty registry and for the prewarmed one, preserved by every step
                          (`C14_cells_consistent`)
    `∀ r, s.pcs r = 0`    no request has started
    `Prewarmed S s`       every cell that any program uses was created in Init (repair 727229a; tied to the
                          sources by `C14_prewarm_tie`)
  `C14_shared_local_counterexample` shows that the premise "a step never writes a shared cell with a
  request-dependent value" cannot be dropped.
-/
import Keto.Model.Concurrency
import Keto.Proofs.ConcLemmas
import Keto.Proofs.FactsTieConc
import Keto.Proofs.FactsTieEngine

namespace Keto
open Conc

/-- Non-interference: after ANY schedule, the local state of request `r` is what `r` alone computes
    with its first `count r sched` steps (capped by the length of its program). Nothing another request
    did is visible in it. -/
theorem C14_noninterference {L : Type} (S : Sys L) (s : State L) (sched : List Nat)
    (hcons : Consistent S s) (hpc : ∀ r, s.pcs r = 0) :
    ∀ r, (exec S s sched).locals r = solo S (S.prog r) (sched.count r) (s.locals r) := by
  intro r
  have h := exec_locals_general S s sched hcons r
  rw [hpc r, List.drop_zero] at h
  exact h

/-- Progress bookkeeping: request `r` has executed `min (length of its program) (its number of turns)`
    steps. -/
theorem C14_progress {L : Type} (S : Sys L) (s : State L) (sched : List Nat)
    (hpc : ∀ r, s.pcs r = 0) :
    ∀ r, (exec S s sched).pcs r = min (S.prog r).length (sched.count r) := by
  intro r
  have h := exec_pcs_general S s sched r
  rw [hpc r] at h
  simpa using h

/-- A schedule that gives every request at least as many turns as its program is long leaves every
    request with the result of its complete solo run. -/
theorem C14_complete_runs {L : Type} (S : Sys L) (s : State L) (sched : List Nat)
    (hcons : Consistent S s) (hpc : ∀ r, s.pcs r = 0)
    (hfair : ∀ r, (S.prog r).length ≤ sched.count r) :
    ∀ r, (exec S s sched).locals r = solo S (S.prog r) (S.prog r).length (s.locals r) := by
  intro r
  rw [C14_noninterference S s sched hcons hpc r]
  exact solo_of_length_le S (S.prog r) _ _ (hfair r)

/-- Two schedules that both complete all requests give every request the same result. -/
theorem C14_schedule_independent {L : Type} (S : Sys L) (s : State L) (sched₁ sched₂ : List Nat)
    (hcons : Consistent S s) (hpc : ∀ r, s.pcs r = 0)
    (hfair₁ : ∀ r, (S.prog r).length ≤ sched₁.count r)
    (hfair₂ : ∀ r, (S.prog r).length ≤ sched₂.count r) :
    ∀ r, (exec S s sched₁).locals r = (exec S s sched₂).locals r := by
  intro r
  rw [C14_complete_runs S s sched₁ hcons hpc hfair₁ r, C14_complete_runs S s sched₂ hcons hpc hfair₂ r]

/-- The answer of `r` does not depend on what the OTHER requests are: two systems with the same data,
    the same getters and the same program for `r` give `r` the same local state under the same
    schedule, whatever the other programs and the other requests' initial local states are. -/
theorem C14_other_requests_irrelevant {L : Type} (S S' : Sys L) (s s' : State L) (sched : List Nat)
    (hcons : Consistent S s) (hcons' : Consistent S' s')
    (hpc : ∀ r, s.pcs r = 0) (hpc' : ∀ r, s'.pcs r = 0) (r : Nat)
    (hsnap : S.snap = S'.snap) (hcreate : S.create = S'.create) (hprog : S.prog r = S'.prog r)
    (hloc : s.locals r = s'.locals r) :
    (exec S s sched).locals r = (exec S' s' sched).locals r := by
  rw [C14_noninterference S s sched hcons hpc r, C14_noninterference S' s' sched hcons' hpc' r,
    hprog, hloc]
  generalize S'.prog r = ps
  generalize sched.count r = k
  generalize s'.locals r = l
  induction ps generalizing k l with
  | nil => rw [solo_nil, solo_nil]
  | cons p ps ih =>
    cases k with
    | zero => rfl
    | succ k =>
      cases p with
      | loc f => simp only [solo, hsnap]; exact ih k _
      | useCell c f => simp only [solo, hcreate]; exact ih k _

/-- Registry cells stay consistent under every schedule. -/
theorem C14_cells_consistent {L : Type} (S : Sys L) (s : State L) (sched : List Nat)
    (hcons : Consistent S s) : Consistent S (exec S s sched) :=
  exec_consistent S s sched hcons

/-- The empty registry is consistent (the hypothesis is satisfiable without prewarming). -/
theorem C14_empty_consistent {L : Type} (S : Sys L) (locals : Nat → L) :
    Consistent S { cells := fun _ => none, locals := locals, pcs := fun _ => 0 } := by
  intro c v h
  cases h

/-- Once every cell that any program uses was created in Init, requests only READ the registry:
    the cells are never written again, under any schedule. -/
theorem C14_prewarmed_readonly {L : Type} (S : Sys L) (s : State L) (sched : List Nat)
    (hwarm : ∀ c, (∃ r f, Step.useCell c f ∈ S.prog r) → s.cells c = some (S.create c)) :
    (exec S s sched).cells = s.cells :=
  exec_cells_prewarmed S s sched hwarm

/-- Without prewarming the only write a cell ever sees is absent ↦ what the getter creates (the
    benign-looking but unsynchronised lazy initialisation that the repair moved into Init). -/
theorem C14_lazy_cells_write_once {L : Type} (S : Sys L) (s : State L) (sched : List Nat)
    (hcons : Consistent S s) (c : Cell) :
    (exec S s sched).cells c = s.cells c ∨
      (s.cells c = none ∧ (exec S s sched).cells c = some (S.create c)) :=
  exec_cells_monotone S s sched hcons c

/-! ### ties to the sources -/

/-- Every registry member on a request path is created in `RegistryDefault.Init`. -/
theorem C14_prewarm_tie :
    FactsTie.requestPathGetters.all (fun g =>
      Facts.initCalls.contains ("internal/driver/registry_default.go", "RegistryDefault.Init", g)) = true :=
  Keto.FactsTie.prewarm_tie
/-- The unguarded lazy getters are exactly the known ones. -/
theorem C14_lazyInit_tie : Facts.lazyInit = FactsTie.expectedLazyInit := Keto.FactsTie.lazyInit_tie
/-- The shared mutable state requests touch is accessed under its locks. -/
theorem C14_lockUse_tie : Facts.lockUse = FactsTie.expectedLockUse := Keto.FactsTie.lockUse_tie
/-- The engines are stateless: their only field is the dependency provider. (The model's requests write
    request-local state or publish request-independent registry members only; an engine field that a request
    writes - a cache, a coalescing group, a configuration resolved once - would be shared state the model
    does not have.) -/
theorem C14_engine_stateless_tie : Facts.structFields = FactsTie.expectedStructFields := Keto.FactsTie.structFields_tie

/-! ### the premise matters: a step that writes a shared cell with a request-dependent value -/

namespace C14Variant

/-- Steps of the variant system: `put` writes a SHARED cell with a value computed from the request's
    local state (the thing the real code must not do); `get` reads it back. -/
inductive VStep where
  | put (c : Cell) (g : Nat → Val)
  | get (c : Cell) (f : Val → Nat → Nat)

structure VState where
  cells : Cell → Val
  locals : Nat → Nat
  pcs : Nat → Nat

def vstep (prog : Nat → List VStep) (s : VState) (r : Nat) : VState :=
  match (prog r)[s.pcs r]? with
  | none => s
  | some (.put c g) =>
    { s with cells := setFn s.cells c (g (s.locals r)), pcs := setFn s.pcs r (s.pcs r + 1) }
  | some (.get c f) =>
    { s with locals := setFn s.locals r (f (s.cells c) (s.locals r)), pcs := setFn s.pcs r (s.pcs r + 1) }

def vexec (prog : Nat → List VStep) (s : VState) : List Nat → VState
  | [] => s
  | r :: rs => vexec prog (vstep prog s r) rs

/-- Every request writes its id (its initial local state) into shared cell 0, then reads cell 0. -/
def prog : Nat → List VStep := fun _ => [.put 0 (fun l => l), .get 0 (fun v _ => v)]

def init : VState := { cells := fun _ => 0, locals := fun r => r, pcs := fun _ => 0 }

end C14Variant

open C14Variant in
/-- With a shared cell written with request-dependent values the property FAILS: request 1 alone
    reads back its own id 1; interleaved with request 2 (both schedules complete both requests) it
    reads 2. -/
theorem C14_shared_local_counterexample :
    (vexec prog init [1, 1]).locals 1 = 1 ∧
    (vexec prog init [1, 1, 2, 2]).locals 1 = 1 ∧
    (vexec prog init [1, 2, 1, 2]).locals 1 = 2 := by decide

/-! ### non-vacuity -/

namespace C14Example

/-- Two requests (ids 0 and 1; every other id has the same program as 1): request `r` adds the stored
    datum at its local state, then obtains registry member 7 and adds it, then (request 0 only)
    doubles. -/
def sys : Sys Nat where
  snap := fun k => k + 10
  create := fun c => c * 100
  prog := fun r =>
    if r = 0 then [.loc (fun d l => l + d l), .useCell 7 (fun v l => l + v), .loc (fun _ l => 2 * l)]
    else [.loc (fun d l => l + d l), .useCell 7 (fun v l => l + v)]

def cold : State Nat := { cells := fun _ => none, locals := fun r => r, pcs := fun _ => 0 }
def warm : State Nat :=
  { cells := fun c => if c = 7 then some 700 else none, locals := fun r => r, pcs := fun _ => 0 }

end C14Example

open C14Example in
/-- The hypotheses of the theorems hold for the example states. -/
example : Consistent sys cold ∧ Consistent sys warm ∧ (∀ r, cold.pcs r = 0) ∧ (∀ r, warm.pcs r = 0) := by
  refine ⟨C14_empty_consistent sys _, ?_, fun _ => rfl, fun _ => rfl⟩
  intro c v h
  simp only [warm] at h
  split at h
  · rename_i hc; subst hc; cases h; rfl
  · cases h

open C14Example in
/-- Concrete runs: interleaved = sequential = solo, on a cold and on a prewarmed registry; a partial
    schedule gives the partial solo run; extra turns after the end change nothing. -/
example :
    (exec sys cold [0, 1, 1, 0, 0]).locals 0 = 1420 ∧ (exec sys cold [0, 1, 1, 0, 0]).locals 1 = 712 ∧
    (exec sys cold [1, 1, 0, 0, 0]).locals 0 = 1420 ∧ (exec sys cold [1, 1, 0, 0, 0]).locals 1 = 712 ∧
    (exec sys warm [1, 0, 0, 1, 0, 1, 1, 0]).locals 0 = 1420 ∧
    (exec sys warm [1, 0, 0, 1, 0, 1, 1, 0]).locals 1 = 712 ∧
    solo sys (sys.prog 0) 3 0 = 1420 ∧ solo sys (sys.prog 1) 2 1 = 712 ∧
    (exec sys cold [0, 1, 0]).locals 0 = solo sys (sys.prog 0) 2 0 ∧ solo sys (sys.prog 0) 2 0 = 710 ∧
    (exec sys cold [0, 1, 1, 0, 0]).cells 7 = some 700 ∧ (exec sys cold [0, 1]).cells 7 = none ∧
    (exec sys warm [0, 1, 1, 0, 0]).cells 7 = some 700 ∧ (exec sys warm [0, 1, 1, 0, 0]).cells 3 = none := by
  decide

end Keto
