/-
  C10 — OPL permission expressions mean what the same TypeScript means.

  Spec: `Keto.TS.E` / `evalTS` / `render` (Keto/Spec/TSBool.lean) — expression trees with the
  JavaScript precedence `! > && > ||`; `denote` — the meaning of a parsed rewrite.
  Model: the parser model (Keto/Model/Parser.lean) run on the tokens of `render e`
  (`toksOf e`, Keto/Proofs/OplExprLemmas.lean: atoms are the permission checks of the grammar
  in all their spellings).

  Full statement (NOT provable on the current tree, finding F-prec):

      theorem C10_expr_full (e) (fits depth e) … :
        denote (parseExpr (toksOf e)) = evalTS e

  `parsePermissionExpressions` builds the tree strictly left to right, so what holds for every
  expression is `C10_expr_l2r` (the parser implements the left-to-right reading `evalL2R`), and
  the TypeScript meaning follows where no parenthesis level mixes `||` and `&&`
  (`C10_expr_partial`). `C10_precedence_counterexample` is the witness `a || b && c`.
  A second deviation: `!!x` (valid TypeScript) is rejected (`C10_double_negation_counterexample`).
-/
import Keto.Model.Typecheck
import Keto.Spec.TSBool
import Keto.Proofs.OplExprLemmas
import Keto.Proofs.OplDeclLemmas

namespace Keto
open Keto.Opl Keto.TS

/-- The valuation of atoms induced by a valuation of rewrite leaves. -/
def atomVal (v : Child → Bool) (a : Atom) : Bool := v a.leaf

/-- **The parser reads left to right.** For every expression `e` over the permission checks
    of the grammar (all spellings), nested within `depth`, without `!!`: on the tokens of
    `render e` followed by the final token, `parsePermissionExpressions` (any sufficient fuel;
    the remaining token count + 2 that `Parse` passes suffices) consumes exactly these tokens,
    reports no error, and returns a rewrite whose meaning — also after `simplifyExpression` —
    is the *left-to-right* reading of `e`. -/
theorem C10_expr_l2r (e : E Atom) (v : Child → Bool) (depth fuel : Nat) (p : P) (rest : List Item)
    (hfit : fits depth e) (hd : depth ≠ 0) (hf : p.fatal = false)
    (ht : p.toks = toksOf e ++ tComma :: rest) (hfuel : p.toks.length + 1 < fuel) :
    ∃ (rw : Rewrite) (p' : P),
      parsePermissionExpressions fuel .opComma depth p = (some rw, p') ∧
      p'.toks = rest ∧ p'.fatal = false ∧ p'.errors = p.errors ∧ p'.panic = p.panic ∧
      denoteRewrite v rw = evalL2R (atomVal v) e ∧
      ∃ rw', simplifyExpression (some rw) = some rw' ∧ denoteRewrite v rw' = evalL2R (atomVal v) e := by
  have hlen := iters_sz_le e
  have hl : p.toks.length = (toksOf e).length + 1 + rest.length := by rw [ht]; simp; omega
  obtain ⟨m, rfl⟩ : ∃ m, fuel = (m + 1) + iters e := ⟨fuel - iters e - 1, by omega⟩
  obtain ⟨ex, q, hq1, hq2, hq3⟩ := spec_all e (m + 1) .opComma depth none p (tComma :: rest) (Or.inl rfl) hfit
    (by omega) hf ht
  have hfin := loop_fin m .opComma depth (some (feedR none e)) ex q tComma rest hq2.1 hq1 rfl (by decide)
  have hsem : denoteRewrite v (feedR none e) = evalL2R (atomVal v) e :=
    denote_feedR v e none (fits_noDoubleNeg e depth hfit)
  have hd' : (depth == 0) = false := by simpa using hd
  refine ⟨feedR none e, adv q rest 2, ?_, rfl, hq2.1, hq2.2.1, hq2.2.2.1, hsem, _, rfl, ?_⟩
  · unfold parsePermissionExpressions
    rw [hd']
    simp only [Bool.false_eq_true, if_false]
    rw [hq3, hfin]
  · rw [denote_simplify, hsem]

/-- **C10, partial.** If no parenthesis level of `e` mixes `||` and `&&` (mixed operators are
    fully parenthesised), the parsed rewrite means what TypeScript means by `render e`. -/
theorem C10_expr_partial (e : E Atom) (v : Child → Bool) (depth fuel : Nat) (p : P) (rest : List Item)
    (hmix : mixed e = false) (hfit : fits depth e) (hd : depth ≠ 0) (hf : p.fatal = false)
    (ht : p.toks = toksOf e ++ tComma :: rest) (hfuel : p.toks.length + 1 < fuel) :
    ∃ (rw rw' : Rewrite) (p' : P),
      parsePermissionExpressions fuel .opComma depth p = (some rw, p') ∧
      simplifyExpression (some rw) = some rw' ∧
      p'.toks = rest ∧ p'.fatal = false ∧ p'.errors = p.errors ∧ p'.panic = p.panic ∧
      denoteRewrite v rw' = evalTS (atomVal v) e := by
  obtain ⟨rw, p', h1, h2, h3, h4, h5, _, rw', h7, h8⟩ := C10_expr_l2r e v depth fuel p rest hfit hd hf ht hfuel
  exact ⟨rw, rw', p', h1, h7, h2, h3, h4, h5, by rw [h8, evalL2R_unmixed _ _ hmix]⟩

/-- **C10, access spellings.** `.name` and `["name"]`, `(v) =>` and `v =>`, optional trailing
    commas: every spelling of a permission check parses to the same leaf, consumes exactly its
    tokens and adds its deferred checks. -/
theorem C10_access (a : Atom) (hw : a.wf) (p : P) (rest : List Item) (hf : p.fatal = false)
    (ht : p.toks = a.toks ++ rest) : parsePermissionExpression p = (some a.leaf, afterAtom a rest p) :=
  parseAtom_spec a hw p rest hf ht

/-- **C10, declarations.** One iteration of the `parseRelated` loop on a relation declaration
    `name: T[]` / `name: SubjectSet<N,"r">[]` / `name: (A | B | …)[]` / `name: Array<A | B | …>`, optionally
    followed by `,` — for every name that lexes as an identifier or a string literal, every non-empty
    list of types (members `T` or `SubjectSet<N, r>`, any tokens as names), every fuel not below the
    number of types: the tokens are consumed exactly, no error is reported, and the relation with the
    declared name and types, in order, is appended to the current namespace. (`Decl.wf`: a plain type
    name is not one of the words `Array` / `SubjectSet` / `(`; `Array<…>` is not followed by `,`:
    see `C10_array_comma_counterexample`.) -/
theorem C10_decls (d : Decl) (hw : d.wf) (n : Nat) (hn : d.types.length ≤ n) (p : P) (rest : List Item)
    (hf : p.fatal = false) (ht : p.toks = d.toks ++ rest)
    (hc : d.comma = false → valIs (rest.headD brokenItem) b!"," = false) :
    ∃ p' : P, relatedLoop (n+1) p = relatedLoop n p' ∧
      p'.toks = rest ∧ p'.fatal = false ∧ p'.errors = p.errors ∧ p'.panic = p.panic ∧ p'.nss = p.nss ∧
      p'.ns = { p.ns with relations := p.ns.relations ++ [d.relation] } := by
  obtain ⟨p', h, heq⟩ := related_decl d hw n hn p rest hf ht hc
  exact ⟨p', heq, h⟩

/-- **C10, separators.** `;` between declarations is skipped, `}` ends the block. -/
theorem C10_separators (n : Nat) (p : P) (rest : List Item) (hf : p.fatal = false) :
    (p.toks = tSemi :: rest → relatedLoop (n+1) p = relatedLoop n { p with toks := rest, steps := p.steps + 2 }) ∧
    (p.toks = tRBrace :: rest → relatedLoop (n+1) p = { p with toks := rest, steps := p.steps + 2 }) := by
  obtain ⟨toks, nss, ns, errors, fatal, checks, steps, panic⟩ := p
  simp only at hf
  subst hf
  constructor <;> intro ht <;> simp only at ht <;> subst ht <;> rw [relatedLoop] <;>
    simp [P.tick, P.next, tSemi, tRBrace, Nat.add_assoc]

namespace C10ex

def nm (s : List UInt8) : Item := tId s
def a : E Atom := .atom (.includes false (nm b!"a"))
def b : E Atom := .atom (.includes false (nm b!"b"))
def c : E Atom := .atom (.includes true (tk .stringLiteral b!"c"))

/-- `a || b && c` -/
def orAnd : E Atom := .or a (.and b c)

/-- `a` holds, `b` and `c` do not. -/
def onlyA : Child → Bool
  | .computed r => r == "a"
  | _ => false

/-- The expression phase of `Parse` on the tokens of `render e` followed by `,`. -/
def parseExpr (e : E Atom) : Option Rewrite × P :=
  let toks := toksOf e ++ [tComma]
  let r := parsePermissionExpressions (toks.length + 2) .opComma Keto.Facts.expressionNestingMaxDepth { toks := toks }
  (simplifyExpression r.1, r.2)

end C10ex

open C10ex in
/-- **C10, counterexample (F-prec).** `a || b && c` is accepted without error and parsed as
    `(a || b) && c`: with only `a` true the rewrite is false although TypeScript evaluates the
    expression to true. -/
theorem C10_precedence_counterexample :
    ∃ rw, (parseExpr orAnd).1 = some rw ∧ (parseExpr orAnd).2.errors = [] ∧
      denoteRewrite onlyA rw = false ∧ evalTS (atomVal onlyA) orAnd = true ∧ mixed orAnd = true :=
  ⟨_, rfl, by decide, by decide, by decide, by decide⟩

open C10ex in
/-- **C10, second deviation.** `!!a` is valid TypeScript; the parser rejects it
    (`expected "this", got "!"`). -/
theorem C10_double_negation_counterexample :
    (parseExpr (.not (.not a))).1 = none ∧ (parseExpr (.not (.not a))).2.errors.length = 1 := by decide

-- non-vacuity of `C10_expr_partial`: `(a || b) && !c` satisfies its hypotheses (with the real nesting limit)
-- and the theorem's conclusion is what the model computes on it.
open C10ex in
example : mixed (.and (.or a b) (.not c)) = false ∧ fits Keto.Facts.expressionNestingMaxDepth (.and (.or a b) (.not c)) := by
  refine ⟨by decide, ?_⟩
  simp [fits, prec, a, b, c, Atom.wf, Keto.Facts.expressionNestingMaxDepth]

open C10ex in
example : ∃ rw, (parseExpr (.and (.or a b) (.not c))).1 = some rw ∧
    denoteRewrite onlyA rw = evalTS (atomVal onlyA) (.and (.or a b) (.not c)) := ⟨_, rfl, by decide⟩

-- … and the left-to-right theorem covers the mixed witness as well: the model's answer on it is `evalL2R`
open C10ex in
example : ∃ rw, (parseExpr orAnd).1 = some rw ∧ denoteRewrite onlyA rw = evalL2R (atomVal onlyA) orAnd :=
  ⟨_, rfl, by decide⟩

open C10ex in
/-- **C10, third deviation (F-array-comma).** `d: Array<A>,` — a comma after the generic array
    spelling — is rejected (`expected identifier or '}'`), `d: A[],` is accepted. -/
theorem C10_array_comma_counterexample :
    (parseItems ([tk .kwClass b!"class", nm b!"A", tk .kwImplements b!"implements", nm b!"Namespace", tLBrace,
        nm b!"related", tColon, tLBrace, nm b!"d", tColon, nm b!"Array", tLT, nm b!"A", tGT, tComma, tRBrace, tRBrace,
        tk .eof []])).errors.map (·.kind) = [.expectedIdentOrBrace] ∧
    (parseItems ([tk .kwClass b!"class", nm b!"A", tk .kwImplements b!"implements", nm b!"Namespace", tLBrace,
        nm b!"related", tColon, tLBrace, nm b!"d", tColon, nm b!"A", tLB, tRB, tComma, tRBrace, tRBrace,
        tk .eof []])).errors = [] := by decide

-- non-vacuity of `C10_decls`: `viewers: (User | SubjectSet<Group, "members">)[],` is a well-formed declaration and
-- denotes the relation with these two types
open C10ex in
example : (Decl.mk (nm b!"viewers") [.plain (nm b!"User"), .sset (nm b!"Group") (tk .stringLiteral b!"members")] .paren true).wf ∧
    (Decl.mk (nm b!"viewers") [.plain (nm b!"User"), .sset (nm b!"Group") (tk .stringLiteral b!"members")] .paren true).relation.types
      = [⟨"User", ""⟩, ⟨"Group", "members"⟩] := by
  refine ⟨⟨Or.inl rfl, by simp, ?_, trivial⟩, by decide⟩
  intro t ht
  simp at ht
  rcases ht with rfl | rfl
  · show valIs _ _ = false
    decide
  · trivial

-- all spellings of one check give the same leaf
example : (Atom.includes false (tId b!"viewers")).leaf = (Atom.includes true (tk .stringLiteral b!"viewers")).leaf := rfl

end Keto
