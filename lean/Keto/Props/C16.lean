/-
  C16 — names survive the string→UUID mapping unchanged and unaliased.
  Statements and final proofs only; helper lemmas live in Keto/Proofs/MappingLemmas.lean.

  Hypotheses that appear below and what they stand for:
    `T.wf`                      the primary key of `keto_uuid_mappings` (no id twice); holds for `[]`, preserved
                                by every mapper operation (`C16_table_invariant`)
    `Consistent E.h T`          every row was written by the mapper (`id = h string`); same remarks
    `InjOn E.h S`               no UUIDv5 collision among the strings `S` involved (NOT an axiom: a hypothesis)
    `1 ≤ pageSize`, `1 ≤ chunk` both are positive constants of the code (`C16_constants`)
    `(keyOrder l).Perm l`       Go's map iteration enumerates every key exactly once, in any order
-/
import Keto.Model.Mapping
import Keto.Proofs.MappingLemmas
import Keto.Generated.Facts
import Keto.Proofs.FactsTieUUID

namespace Keto
open Mapping

/-- The two sizes of the code (regenerated from the sources) satisfy the side conditions. -/
theorem C16_constants : 1 ≤ Facts.defaultPageSize ∧ 1 ≤ Facts.chunkSizeInsertUUIDMappings := by decide

/-- `batchFromUUIDs` returns, at EVERY position, what the table holds for the id at that position
    (`""` when the id has no row): for every batch (any length, any repeats), every page size ≥ 1 and
    every enumeration order of the distinct ids. -/
theorem C16_batch_lookup (T : Table) (hwf : T.wf) (ids : List Id) (pageSize : Nat) (hp : 1 ≤ pageSize)
    (keyOrder : List Id → List Id) (hperm : (keyOrder (distinct ids)).Perm (distinct ids))
    (i : Nat) (hi : i < ids.length) :
    (batchFromUUIDs T ids pageSize keyOrder)[i]? = some ((T.find ids[i]).getD "") := by
  rw [batchFromUUIDs_eq T hwf ids pageSize hp keyOrder (fun _ hx => (hperm.mem_iff).mpr hx)]
  simp [hi]

/-- Whole-list form: same length, position-wise the table lookup. -/
theorem C16_batch_lookup_all (T : Table) (hwf : T.wf) (ids : List Id) (pageSize : Nat) (hp : 1 ≤ pageSize)
    (keyOrder : List Id → List Id) (hperm : (keyOrder (distinct ids)).Perm (distinct ids)) :
    batchFromUUIDs T ids pageSize keyOrder = ids.map (fun id => (T.find id).getD "") :=
  batchFromUUIDs_eq T hwf ids pageSize hp keyOrder (fun _ hx => (hperm.mem_iff).mpr hx)

/-- General round trip: writing a batch through the read-write mapper `E` and reading the result back
    through ANY mapper `E'` (read-only or not, any page size ≥ 1, any key order) returns every tuple
    with its own strings at its own position; a tuple that sets both subject fields comes back
    without the subject set (`normalize`). No bound on the batch, repeats allowed, the same string may
    be object and subject, strings may be empty. -/
theorem C16_roundtrip_normalized (E E' : Env) (T : Table) (b : List ApiTuple)
    (hwf : T.wf) (hcons : Consistent E.h T) (hinj : InjOn E.h (T.strings ++ batchStrings b))
    (hrw : E.readOnly = false) (hchunk : 1 ≤ E.chunk) (hpage : 1 ≤ E'.pageSize)
    (hperm : ∀ l, (E'.keyOrder l).Perm l) (hvalid : ∀ t ∈ b, t.valid E = true) :
    ∃ its, (fromTuple E T (b.map some)).1 = .ok its ∧
      toTuple E' (fromTuple E T (b.map some)).2 its = .ok (b.map ApiTuple.normalize) := by
  refine ⟨b.map (toInternal E.h), ?_, ?_⟩
  · rw [fromTuple_valid E T b hvalid]
  · rw [fromTuple_valid E T b hvalid]
    simp only
    rw [toTuple_eq E' _ (mapStrings_wf E T _ hchunk hwf) hpage hperm, List.map_map]
    congr 1
    apply List.map_congr_left
    intro t ht
    have hl := lookup_after_map E T (batchStrings b) hrw hchunk hcons hinj
    obtain ⟨h1, h2⟩ := mem_batchStrings ht
    simp only [Function.comp]
    apply mkApi_toInternal E.h t _ _ (valid_subject (hvalid t ht))
    · rw [toInternal_subjId, look, hl _ h1]; rfl
    · rw [toInternal_obj, look, hl _ h2]; rfl

/-- **C16 round trip**: `ToTuple (FromTuple b) = b` for every batch of valid tuples with exactly one
    subject field each. -/
theorem C16_roundtrip (E E' : Env) (T : Table) (b : List ApiTuple)
    (hwf : T.wf) (hcons : Consistent E.h T) (hinj : InjOn E.h (T.strings ++ batchStrings b))
    (hrw : E.readOnly = false) (hchunk : 1 ≤ E.chunk) (hpage : 1 ≤ E'.pageSize)
    (hperm : ∀ l, (E'.keyOrder l).Perm l)
    (hvalid : ∀ t ∈ b, t.valid E = true) (hwell : ∀ t ∈ b, t.wellFormed = true) :
    ∃ its, (fromTuple E T (b.map some)).1 = .ok its ∧
      toTuple E' (fromTuple E T (b.map some)).2 its = .ok b := by
  obtain ⟨its, h1, h2⟩ := C16_roundtrip_normalized E E' T b hwf hcons hinj hrw hchunk hpage hperm hvalid
  refine ⟨its, h1, ?_⟩
  rw [h2]
  congr 1
  calc b.map ApiTuple.normalize = b.map id :=
        List.map_congr_left (fun t ht => normalize_wellFormed t (hwell t ht))
    _ = b := List.map_id _

/-- Position-wise reading of `C16_roundtrip`: position `i` of the answer is tuple `i` of the request. -/
theorem C16_roundtrip_pos (E E' : Env) (T : Table) (b : List ApiTuple)
    (hwf : T.wf) (hcons : Consistent E.h T) (hinj : InjOn E.h (T.strings ++ batchStrings b))
    (hrw : E.readOnly = false) (hchunk : 1 ≤ E.chunk) (hpage : 1 ≤ E'.pageSize)
    (hperm : ∀ l, (E'.keyOrder l).Perm l)
    (hvalid : ∀ t ∈ b, t.valid E = true) (hwell : ∀ t ∈ b, t.wellFormed = true) :
    ∃ (its : List Tuple) (res : List ApiTuple), (fromTuple E T (b.map some)).1 = .ok its ∧
      toTuple E' (fromTuple E T (b.map some)).2 its = .ok res ∧
      res.length = b.length ∧ ∀ i : Nat, res[i]? = b[i]? := by
  obtain ⟨its, h1, h2⟩ := C16_roundtrip E E' T b hwf hcons hinj hrw hchunk hpage hperm hvalid hwell
  exact ⟨its, b, h1, h2, rfl, fun _ => rfl⟩

/-- **Unaliased**: within a mapped batch (read-only or read-write, any table) two positions get the
    same id exactly when they hold the same string. -/
theorem C16_unaliased (E : Env) (T : Table) (ss : List String) (hinj : InjOn E.h ss)
    (i j : Nat) (hi : i < ss.length) (hj : j < ss.length) :
    (mapStrings E T ss).1[i]? = (mapStrings E T ss).1[j]? ↔ ss[i] = ss[j] := by
  rw [mapStrings_ids]
  simp only [List.getElem?_map, List.getElem?_eq_getElem hi, List.getElem?_eq_getElem hj, Option.map_some,
    Option.some.injEq]
  constructor
  · exact hinj _ (List.getElem_mem hi) _ (List.getElem_mem hj)
  · intro e; rw [e]

/-- The same at the level of the mapper: the flattened ids of `FromTuple b` (subject, object, subject,
    object, …) are equal at two positions exactly when the flattened strings of `b` are. -/
theorem C16_unaliased_tuples (E : Env) (T : Table) (b : List ApiTuple)
    (hinj : InjOn E.h (batchStrings b)) (hvalid : ∀ t ∈ b, t.valid E = true) :
    ∃ its, (fromTuple E T (b.map some)).1 = .ok its ∧
      (its.flatMap (fun t => [subjId t.sub, t.obj])).length = (batchStrings b).length ∧
      ∀ i j (hi : i < (batchStrings b).length) (hj : j < (batchStrings b).length),
        (its.flatMap (fun t => [subjId t.sub, t.obj]))[i]? = (its.flatMap (fun t => [subjId t.sub, t.obj]))[j]? ↔
          (batchStrings b)[i] = (batchStrings b)[j] := by
  refine ⟨b.map (toInternal E.h), by rw [fromTuple_valid E T b hvalid], ?_⟩
  have hflat : (b.map (toInternal E.h)).flatMap (fun t => [subjId t.sub, t.obj]) = (batchStrings b).map E.h := by
    rw [batchStrings, List.map_flatMap, List.flatMap_map]
    congr 1
    funext t
    simp [strsOf, toInternal_subjId, toInternal_obj]
  rw [hflat]
  refine ⟨by simp, ?_⟩
  intro i j hi hj
  simp only [List.getElem?_map, List.getElem?_eq_getElem hi, List.getElem?_eq_getElem hj, Option.map_some,
    Option.some.injEq]
  constructor
  · exact hinj _ (List.getElem_mem hi) _ (List.getElem_mem hj)
  · intro e; rw [e]

/-- **Same string, same id**: the id of a string does not depend on the table, on the mode of the
    mapper, on the other strings of the batch or on the position. -/
theorem C16_same_string_same_id (E₁ E₂ : Env) (hh : E₁.h = E₂.h) (T₁ T₂ : Table) (ss₁ ss₂ : List String)
    (i j : Nat) (hi : i < ss₁.length) (hj : j < ss₂.length) (he : ss₁[i] = ss₂[j]) :
    (mapStrings E₁ T₁ ss₁).1[i]? = (mapStrings E₂ T₂ ss₂).1[j]? := by
  rw [mapStrings_ids, mapStrings_ids]
  simp [List.getElem?_map, List.getElem?_eq_getElem hi, List.getElem?_eq_getElem hj, he, hh]

/-- The model's `Env.h` is ONE function for the writing and the read-only mapper (which is what
    `C16_same_string_same_id` quantifies over with `E₁.h = E₂.h`). In the code that is the fact, regenerated on
    every run, that name UUIDs are derived at exactly one site, `uuid.NewV5(p.NetworkID(ctx), s)` with the
    network of the request, and that the writing `MapStringsToUUIDs` obtains its ids by calling the read-only
    method. -/
theorem C16_one_derivation : Facts.uuidDerive = FactsTie.expectedUUIDDerive := FactsTie.uuidDerive_tie

/-- **The read-only mapper never inserts**: every entry point that maps strings leaves the table
    exactly as it was (used by C17); the id→string direction has no table output at all. -/
theorem C16_readonly_no_insert (E : Env) (hro : E.readOnly = true) (T : Table) :
    (∀ ss, (mapStrings E T ss).2 = T) ∧
    (∀ b, (fromTuple E T b).2 = T) ∧
    (∀ q, (fromQuery E T q).2 = T) ∧
    (∀ ss, (fromSubjectSet E T ss).2 = T) := by
  have h0 : ∀ ss, (mapStrings E T ss).2 = T := fun ss => mapStrings_table_ro E T ss hro
  refine ⟨h0, ?_, ?_, ?_⟩
  · intro b
    unfold fromTuple
    split
    · rfl
    · simp only
      split <;> exact h0 _
  · intro q
    unfold fromQuery
    split
    · rfl
    · split
      · rfl
      · exact h0 _
  · intro ss
    unfold fromSubjectSet
    split
    · rfl
    · simp only
      split <;> exact h0 _

/-- A failing `FromTuple` (unknown namespace, nil tuple, no subject) has not touched the table, in
    either mode. -/
theorem C16_error_no_insert (E : Env) (T : Table) (b : List (Option ApiTuple)) (e : MErr)
    (he : collectFrom E b = .error e) : fromTuple E T b = (.error e, T) := by
  unfold fromTuple; rw [he]

/-- The invariants assumed above are established by the empty table and preserved by every mapping,
    in both modes; strings only ever enter the table from a mapped batch. -/
theorem C16_table_invariant (E : Env) (hchunk : 1 ≤ E.chunk) :
    (Table.wf [] = true ∧ Consistent E.h []) ∧
    ∀ T ss, T.wf → Consistent E.h T →
      (mapStrings E T ss).2.wf ∧ Consistent E.h (mapStrings E T ss).2 ∧
      (∀ v ∈ (mapStrings E T ss).2.strings, v ∈ T.strings ++ ss) ∧
      (∀ id v, T.find id = some v → (mapStrings E T ss).2.find id = some v) := by
  refine ⟨⟨rfl, fun r hr => by cases hr⟩, ?_⟩
  intro T ss hw hc
  exact ⟨mapStrings_wf E T ss hchunk hw, mapStrings_consistent E T ss hchunk hc,
    mapStrings_strings E T ss hchunk, fun id v h => lookup_preserved E T ss hchunk h⟩

/-- Queries (`FromQuery` on the way in, `ToQuery` on the way out — every optional field, the three
    strings assigned through remembered indices `len(s)-1`, `s[0]`, `s[len(s)-1]`): the query comes back
    unchanged once its strings are readable under their ids (`hknown`, discharged below for both
    modes). With BOTH subject fields set the subject set wins and the subject id is lost
    (`FromURLQuery` rejects that shape before the mapper sees it). -/
theorem C16_query_roundtrip (E E' : Env) (T : Table) (q : ApiQuery)
    (hwf : T.wf) (hchunk : 1 ≤ E.chunk) (hpage : 1 ≤ E'.pageSize) (hperm : ∀ l, (E'.keyOrder l).Perm l)
    (hnss : E'.nss = E.nss) (hns : q.nsUnknown E = false) (hsn : q.setNsUnknown E = false)
    (hone : q.subjectId = none ∨ q.subjectSet = none)
    (hknown : ∀ s ∈ q.strings, (mapStrings E T q.strings).2.find (E.h s) = some s) :
    ∃ iq, (fromQuery E T q).1 = .ok iq ∧ toQuery E' (fromQuery E T q).2 iq = .ok q :=
  query_roundtrip E E' T q hwf hchunk hpage hperm hnss hns hsn hone hknown

/-- `hknown` for the read-write mapper: it follows from injectivity. -/
theorem C16_known_after_write (E : Env) (T : Table) (ss : List String) (hrw : E.readOnly = false)
    (hchunk : 1 ≤ E.chunk) (hcons : Consistent E.h T) (hinj : InjOn E.h (T.strings ++ ss)) :
    ∀ s ∈ ss, (mapStrings E T ss).2.find (E.h s) = some s :=
  lookup_after_map E T ss hrw hchunk hcons hinj

/-- `hknown` for the read-only mapper: the strings must have been written before. -/
theorem C16_known_readonly (E : Env) (T : Table) (ss : List String) (hro : E.readOnly = true)
    (hk : ∀ s ∈ ss, T.find (E.h s) = some s) : ∀ s ∈ ss, (mapStrings E T ss).2.find (E.h s) = some s := by
  rw [mapStrings_table_ro E T ss hro]; exact hk

/-- Expand trees (`ToTree`, one single-id lookup per node, children first): the API tree has the shape
    of the internal tree and every node carries the table's string for its own id — for every tree
    (any depth, any fan-out). -/
theorem C16_tree (E : Env) (T : Table) (hwf : T.wf) (hpage : 1 ≤ E.pageSize)
    (hperm : ∀ l, (E.keyOrder l).Perm l) (t : ITree) (hns : ITree.nsOk E t = true) :
    toTree E T t = .ok (labelTree T t) :=
  toTree_eq E T hwf hpage hperm t hns

/-- The key order used by the driver is a permutation for every seed. -/
theorem C16_seedOrder_perm (seed : Nat) (l : List Id) : (seedOrder seed l).Perm l := seedOrder_perm seed l

/-! ## Non-vacuity -/

namespace C16ex

/-- A concrete hash, injective on the strings used below (and colliding elsewhere: `"zz"` ↦ 0). -/
def h (s : String) : Id :=
  if s == "" then 1 else if s == "alice" then 2 else if s == "doc" then 3 else if s == "grp" then 4 else 0

def env (ro : Bool) (page : Nat) : Env :=
  { h := h, nss := ["n", "g"], readOnly := ro, pageSize := page, chunk := 2, keyOrder := List.reverse }

/-- Three tuples: `alice` is a subject twice (repeat), `doc` is object of the first and subject-set
    object of the third, the empty string is an object. -/
def batch : List ApiTuple := [
  ⟨"n", "doc", "view", some "alice", none⟩,
  ⟨"n", "", "edit", some "alice", none⟩,
  ⟨"n", "grp", "member", none, some ⟨"g", "doc", "member"⟩⟩]

/-- A table that already knows `doc`. -/
def T0 : Table := [(3, "doc")]

theorem inj : InjOn h (T0.strings ++ batchStrings batch) := by decide

end C16ex

open C16ex in
-- the hypotheses of the round trip are satisfiable together, and the conclusion is the concrete batch
-- (page size 1: three pages for three distinct ids; reversed key order; chunk 2: two INSERT statements)
example : Table.wf T0 = true ∧ Consistent h T0 ∧ (∀ t ∈ batch, t.valid (env false 1) = true) ∧
    (∀ t ∈ batch, t.wellFormed = true) ∧
    (fromTuple (env false 1) T0 (batch.map some)).1 =
      .ok [⟨"n", 3, "view", .id 2⟩, ⟨"n", 1, "edit", .id 2⟩, ⟨"n", 4, "member", .set "g" 3 "member"⟩] ∧
    (fromTuple (env false 1) T0 (batch.map some)).2 = [(3, "doc"), (1, ""), (2, "alice"), (4, "grp")] ∧
    toTuple (env true 1) (fromTuple (env false 1) T0 (batch.map some)).2
      [⟨"n", 3, "view", .id 2⟩, ⟨"n", 1, "edit", .id 2⟩, ⟨"n", 4, "member", .set "g" 3 "member"⟩] = .ok batch :=
  ⟨by decide, by decide, by decide, by decide, by decide, by decide, by decide⟩

open C16ex in
-- … and the theorem applies to it
example : ∃ its, (fromTuple (env false 1) T0 (batch.map some)).1 = .ok its ∧
    toTuple (env true 2) (fromTuple (env false 1) T0 (batch.map some)).2 its = .ok batch :=
  C16_roundtrip (env false 1) (env true 2) T0 batch (by decide) (by decide) inj rfl (by decide) (by decide)
    (fun _ => List.reverse_perm _) (by decide) (by decide)

open C16ex in
-- batch lookup is not trivial: ids repeat (2 occurs twice), 9 has no row and reads as "", the page
-- size (1, 2, 100) and the key order do not matter
example : batchFromUUIDs [(3, "doc"), (1, ""), (2, "alice")] [2, 3, 2, 9, 1] 1 List.reverse = ["alice", "doc", "alice", "", ""] ∧
    batchFromUUIDs [(3, "doc"), (1, ""), (2, "alice")] [2, 3, 2, 9, 1] 2 id = ["alice", "doc", "alice", "", ""] ∧
    batchFromUUIDs [(3, "doc"), (1, ""), (2, "alice")] [2, 3, 2, 9, 1] 100 (seedOrder 3) = ["alice", "doc", "alice", "", ""] := by
  decide

open C16ex in
-- the read-only mapper computes the same ids and inserts nothing; unknown names then read back as ""
-- (not an error), known ones as themselves
example : (fromTuple (env true 100) T0 (batch.map some)) =
      (.ok [⟨"n", 3, "view", .id 2⟩, ⟨"n", 1, "edit", .id 2⟩, ⟨"n", 4, "member", .set "g" 3 "member"⟩], T0) ∧
    toTuple (env true 100) T0 [⟨"n", 3, "view", .id 2⟩] = .ok [⟨"n", "doc", "view", some "", none⟩] := by
  decide

open C16ex in
-- queries: every combination of optional fields comes back; with both subject fields the subject set wins
example : (fromQuery (env true 1) [(3, "doc"), (2, "alice")] ⟨some "n", some "doc", none, some "alice", none⟩).1 =
      .ok ⟨some "n", some 3, none, some (.id 2)⟩ ∧
    toQuery (env true 1) [(3, "doc"), (2, "alice")] ⟨some "n", some 3, none, some (.id 2)⟩ =
      .ok ⟨some "n", some "doc", none, some "alice", none⟩ ∧
    toQuery (env true 1) [(3, "doc"), (2, "alice")] ⟨none, none, some "r", some (.set "g" 3 "m")⟩ =
      .ok ⟨none, none, some "r", none, some ⟨"g", "doc", "m"⟩⟩ ∧
    (fromQuery (env true 1) [] ⟨none, some "doc", none, some "alice", some ⟨"g", "grp", "m"⟩⟩).1 =
      .ok ⟨none, some 3, none, some (.set "g" 4 "m")⟩ ∧
    (fromQuery (env true 1) [] ⟨some "x", none, none, none, none⟩).1 = .error .notFound := by
  decide

open C16ex in
-- trees: a union node over a subject set with two leaves; an unknown namespace below the root is an error
example : toTree (env true 1) [(3, "doc"), (2, "alice")]
      (.node "union" (.set "n" 3 "view") [.node "leaf" (.id 2) [], .node "leaf" (.set "g" 3 "member") []]) =
      .ok (.node "union" none (some ⟨"n", "doc", "view"⟩)
        [.node "leaf" (some "alice") none [], .node "leaf" none (some ⟨"g", "doc", "member"⟩) []]) ∧
    ITree.nsOk (env true 1) (.node "union" (.set "n" 3 "view") [.node "leaf" (.id 2) []]) = true := by
  constructor
  · rfl
  · rfl

open C16ex in
-- the injectivity hypothesis is necessary: "zz" and "yy" collide under `h`, the first one written
-- wins (`ON CONFLICT DO NOTHING`) and the second one reads back as the first
example : ∃ its, (fromTuple (env false 100) [] [some ⟨"n", "zz", "r", some "yy", none⟩]).1 = .ok its ∧
    toTuple (env true 100) (fromTuple (env false 100) [] [some ⟨"n", "zz", "r", some "yy", none⟩]).2 its =
      .ok [⟨"n", "yy", "r", some "yy", none⟩] :=
  ⟨_, rfl, by decide⟩

open C16ex in
-- a tuple that sets both subject fields loses the subject set; errors are reported per kind, first
-- failing tuple first, and leave the table alone
example : ApiTuple.normalize ⟨"n", "doc", "view", some "alice", some ⟨"g", "grp", "member"⟩⟩ =
      ⟨"n", "doc", "view", some "alice", none⟩ ∧
    fromTuple (env false 100) T0 [some ⟨"n", "doc", "view", none, none⟩, none] = (.error .nilSubject, T0) ∧
    fromTuple (env false 100) T0 [none, some ⟨"x", "doc", "view", some "a", none⟩] = (.error .malformed, T0) ∧
    fromTuple (env false 100) T0 [some ⟨"n", "doc", "view", none, some ⟨"x", "o", "r"⟩⟩] = (.error .notFound, T0) := by
  decide

end Keto
