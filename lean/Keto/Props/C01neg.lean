/-
  C01 — the run-time oracle `refEval` (Keto/Spec/Membership.lean) against the declarative semantics
  with stratified negation `Tr` / `Fa` (Keto/Spec/Stratified.lean), for ALL configurations, `!`
  included:

  * `tr_fa_exclusive`:          no tuple is both a member (`Tr`) and refuted (`Fa`);
  * `refEval_sound_all`:        a `t` answer implies `Tr`;
  * `refEval_complete_all`:     an `f` answer implies `Fa` (per-path cycle cut, restart of the positive
                                path below a negation, Kleene treatment of `bad` included);
  * `refEval_decides`:          hence `t` ⇒ `Tr ∧ ¬Fa`, `f` ⇒ `Fa ∧ ¬Tr`;
  * `refEval_fuel_independent`: two fuels that both give a non-`bad` answer give the same answer;
  * `tr_iff_mem_pos`, `fa_not_mem`: `Tr` extends the positive semantics `Mem` — it coincides with it on
                                configurations without `!`, and a refuted tuple is never in `Mem`;
  * `C01_engine_iff_tr_pos`:    the engine model decides `Tr` on the positive fragment.

  Nothing is claimed about a `bad` answer (fuel exhausted, undeclared relation that matters, cycle
  through a negation = the instance is not stratified).  Statements and final proofs only; helper
  lemmas live in Keto/Proofs/StratifiedLemmas.lean.
-/
import Keto.Model.Engine
import Keto.Spec.Membership
import Keto.Spec.Positive
import Keto.Spec.Stratified
import Keto.Proofs.EngineSound
import Keto.Proofs.RefEvalLemmas
import Keto.Proofs.StratifiedLemmas
import Keto.Props.C01complete

namespace Keto

namespace C01negex

/-- `doc.view = viewers || parents.traverse(view)`, `doc.ok = view && !banned`; groups contain users
    and groups. -/
def cfg : Cfg := [
  ⟨"group", [⟨"member", [⟨"user", ""⟩, ⟨"group", "member"⟩], none⟩]⟩,
  ⟨"doc", [⟨"viewers", [⟨"group", "member"⟩], none⟩,
           ⟨"parents", [⟨"doc", ""⟩], none⟩,
           ⟨"banned", [⟨"group", "member"⟩], none⟩,
           ⟨"view", [], some ⟨.or, [.computed "viewers", .ttu "parents" "view"]⟩⟩,
           ⟨"ok", [], some ⟨.and, [.computed "view", .invert (.computed "banned")]⟩⟩]⟩]

/-- Groups 1 and 2 contain each other, users 7 and 8 are in group 2; groups 3 and 4 contain each
    other, user 8 is in group 4.  Group 1 views doc 1, the parent of doc 2; group 3 is banned from
    doc 2. -/
def T : List Tuple := [
  ⟨"group", 1, "member", .set "group" 2 "member"⟩,
  ⟨"group", 2, "member", .set "group" 1 "member"⟩,
  ⟨"group", 2, "member", .id 7⟩,
  ⟨"group", 2, "member", .id 8⟩,
  ⟨"group", 3, "member", .set "group" 4 "member"⟩,
  ⟨"group", 4, "member", .set "group" 3 "member"⟩,
  ⟨"group", 4, "member", .id 8⟩,
  ⟨"doc", 1, "viewers", .set "group" 1 "member"⟩,
  ⟨"doc", 2, "parents", .set "doc" 1 ""⟩,
  ⟨"doc", 2, "banned", .set "group" 3 "member"⟩]

-- `cfgP` (`p = !p`, a relation defined as its own negation) is in Keto/Proofs/StratifiedLemmas.lean.

/-- Mutual recursion through a negation (`a = !b`, `b = a`), no tuple at all. -/
def cfgAB : Cfg := [⟨"x", [⟨"a", [], some ⟨.or, [.invert (.computed "b")]⟩⟩,
                           ⟨"b", [], some ⟨.or, [.computed "a"]⟩⟩]⟩]

end C01negex

/-- Consistency of the stratified semantics: no tuple is both a member and refuted. -/
theorem tr_fa_exclusive (c : Cfg) (T : List Tuple) (t : Tuple) : ¬ (Tr c T t ∧ Fa c T t) := by
  intro ⟨⟨k₁, h1⟩, ⟨k₂, h2⟩⟩
  exact trN_faN_exclusive h1 h2

/-- Soundness of the reference evaluator, every configuration. -/
theorem refEval_sound_all (c : Cfg) (T : List Tuple) (fuel : Nat) (q : Tuple) :
    refEval c T fuel [] 0 (.node q) = .t → Tr c T q :=
  fun h => (refEval_strat_aux fuel [] 0 (.node q) (fun _ hp => by cases hp)).1 h

/-- Completeness of the reference evaluator, every configuration: an `f` answer is backed by a closed
    refutation. -/
theorem refEval_complete_all (c : Cfg) (T : List Tuple) (fuel : Nat) (q : Tuple) :
    refEval c T fuel [] 0 (.node q) = .f → Fa c T q :=
  fun h => (refEval_strat_aux fuel [] 0 (.node q) (fun _ hp => by cases hp)).2 h

-- non-vacuity: the configuration uses `!` …
example : C01negex.cfg.posB = false := by decide

-- … user 7 is `ok` on doc 2 through the negation: a viewer of the parent (behind the group cycle
-- 1 ↔ 2) and not banned (the refutation of `banned` runs into the group cycle 3 ↔ 4 below the `!`);
example : refEval C01negex.cfg C01negex.T 20 [] 0 (.node ⟨"doc", 2, "ok", .id 7⟩) = .t := by decide

-- user 8 is a viewer but banned: `f` because the negated child holds;
example : refEval C01negex.cfg C01negex.T 20 [] 0 (.node ⟨"doc", 2, "view", .id 8⟩) = .t ∧
    refEval C01negex.cfg C01negex.T 20 [] 0 (.node ⟨"doc", 2, "banned", .id 8⟩) = .t ∧
    refEval C01negex.cfg C01negex.T 20 [] 0 (.node ⟨"doc", 2, "ok", .id 8⟩) = .f :=
  ⟨by decide, by decide, by decide⟩

-- user 9 is in no group: `f` through the positive part (cycle cut at level 0).
example : refEval C01negex.cfg C01negex.T 20 [] 0 (.node ⟨"doc", 2, "ok", .id 9⟩) = .f := by decide

-- so the conclusions are really derived:
example : Tr C01negex.cfg C01negex.T ⟨"doc", 2, "ok", .id 7⟩ :=
  refEval_sound_all _ _ 20 _ (by decide)

example : Fa C01negex.cfg C01negex.T ⟨"doc", 2, "ok", .id 8⟩ :=
  refEval_complete_all _ _ 20 _ (by decide)

-- too little fuel: `bad`, about which nothing is claimed.
example : refEval C01negex.cfg C01negex.T 6 [] 0 (.node ⟨"doc", 2, "ok", .id 7⟩) = .bad := by decide

-- a non-stratified instance (`p = !p`): `bad` whatever the fuel (the node is met again across a
-- negation) …
example : ∀ fuel, fuel < 40 →
    refEval C01negex.cfgP [] fuel [] 0 (.node ⟨"x", 1, "p", .id 7⟩) = .bad := by decide

/-- On the non-stratified instance `p = !p` the semantics is silent — neither `Tr` nor `Fa` — and
    the evaluator answers `bad` with EVERY fuel. -/
theorem refEval_not_stratified_bad (o : Nat) (sub : Subject) :
    ¬ Tr C01negex.cfgP [] ⟨"x", o, "p", sub⟩ ∧ ¬ Fa C01negex.cfgP [] ⟨"x", o, "p", sub⟩ ∧
    ∀ fuel, refEval C01negex.cfgP [] fuel [] 0 (.node ⟨"x", o, "p", sub⟩) = .bad := by
  have hiff := C01negex.cfgP_tr_iff_fa o sub
  have hntr : ¬ Tr C01negex.cfgP [] ⟨"x", o, "p", sub⟩ :=
    fun h => tr_fa_exclusive _ _ _ ⟨h, hiff.1 h⟩
  have hnfa : ¬ Fa C01negex.cfgP [] ⟨"x", o, "p", sub⟩ :=
    fun h => tr_fa_exclusive _ _ _ ⟨hiff.2 h, h⟩
  refine ⟨hntr, hnfa, fun fuel => ?_⟩
  cases e : refEval C01negex.cfgP [] fuel [] 0 (.node ⟨"x", o, "p", sub⟩) with
  | bad => rfl
  | t => exact absurd (refEval_sound_all _ _ fuel _ e) hntr
  | f => exact absurd (refEval_complete_all _ _ fuel _ e) hnfa

-- … also when the cycle through the negation spans two relations (`a = !b`, `b = a`).
example : ∀ fuel, fuel < 40 →
    refEval C01negex.cfgAB [] fuel [] 0 (.node ⟨"x", 1, "a", .id 7⟩) = .bad ∧
    refEval C01negex.cfgAB [] fuel [] 0 (.node ⟨"x", 1, "b", .id 7⟩) = .bad := by decide

/-- The reference evaluator decides the stratified semantics whenever it answers. -/
theorem refEval_decides (c : Cfg) (T : List Tuple) (fuel : Nat) (q : Tuple) :
    (refEval c T fuel [] 0 (.node q) = .t → Tr c T q ∧ ¬ Fa c T q) ∧
    (refEval c T fuel [] 0 (.node q) = .f → Fa c T q ∧ ¬ Tr c T q) := by
  constructor
  · intro h
    have htr := refEval_sound_all c T fuel q h
    exact ⟨htr, fun hfa => tr_fa_exclusive c T q ⟨htr, hfa⟩⟩
  · intro h
    have hfa := refEval_complete_all c T fuel q h
    exact ⟨hfa, fun htr => tr_fa_exclusive c T q ⟨htr, hfa⟩⟩

example : ¬ Fa C01negex.cfg C01negex.T ⟨"doc", 2, "ok", .id 7⟩ :=
  ((refEval_decides _ _ 20 _).1 (by decide)).2

example : ¬ Tr C01negex.cfg C01negex.T ⟨"doc", 2, "ok", .id 8⟩ :=
  ((refEval_decides _ _ 20 _).2 (by decide)).2

/-- Two fuels that both give an answer give the same answer. -/
theorem refEval_fuel_independent (c : Cfg) (T : List Tuple) (fuel₁ fuel₂ : Nat) (q : Tuple) :
    refEval c T fuel₁ [] 0 (.node q) ≠ .bad → refEval c T fuel₂ [] 0 (.node q) ≠ .bad →
    refEval c T fuel₁ [] 0 (.node q) = refEval c T fuel₂ [] 0 (.node q) := by
  intro h1 h2
  cases e1 : refEval c T fuel₁ [] 0 (.node q) with
  | bad => exact absurd e1 h1
  | t =>
    cases e2 : refEval c T fuel₂ [] 0 (.node q) with
    | bad => exact absurd e2 h2
    | t => rfl
    | f =>
      exact absurd ⟨refEval_sound_all c T fuel₁ q e1, refEval_complete_all c T fuel₂ q e2⟩
        (tr_fa_exclusive c T q)
  | f =>
    cases e2 : refEval c T fuel₂ [] 0 (.node q) with
    | bad => exact absurd e2 h2
    | f => rfl
    | t =>
      exact absurd ⟨refEval_sound_all c T fuel₂ q e2, refEval_complete_all c T fuel₁ q e1⟩
        (tr_fa_exclusive c T q)

-- non-vacuity: both premises are met by different fuels (and `6` does not meet them).
example : refEval C01negex.cfg C01negex.T 12 [] 0 (.node ⟨"doc", 2, "ok", .id 7⟩) ≠ .bad ∧
    refEval C01negex.cfg C01negex.T 20 [] 0 (.node ⟨"doc", 2, "ok", .id 7⟩) ≠ .bad :=
  ⟨by decide, by decide⟩

/-- On configurations without `!` the stratified semantics is the positive one. -/
theorem tr_iff_mem_pos (c : Cfg) (T : List Tuple) (hc : Cfg.pos c) (t : Tuple) :
    Tr c T t ↔ Mem c T t := by
  constructor
  · intro ⟨k, hk⟩
    exact (mem_of_trN hc k).1 t hk
  · exact tr_of_mem

/-- The positive derivations are derivations of the stratified semantics, whatever the
    configuration (`Mem` has no rule for `!`). -/
theorem tr_of_mem_all (c : Cfg) (T : List Tuple) (t : Tuple) : Mem c T t → Tr c T t := tr_of_mem

/-- A refuted tuple is not a member in the positive semantics (any configuration). -/
theorem fa_not_mem (c : Cfg) (T : List Tuple) (t : Tuple) : Fa c T t → ¬ Mem c T t :=
  fun hfa hmem => tr_fa_exclusive c T t ⟨tr_of_mem hmem, hfa⟩

-- non-vacuity on the positive cyclic store of `C01cex`:
example : Cfg.pos C01cex.cfg ∧ Tr C01cex.cfg C01cex.env.T ⟨"doc", 1, "view", .id 7⟩ :=
  ⟨Cfg.pos_of_posB (by decide), refEval_sound_all _ _ 20 _ (by decide)⟩

example : Fa C01cex.cfg C01cex.env.T ⟨"group", 1, "member", .id 9⟩ :=
  refEval_complete_all _ _ 20 _ (by decide)

/-- The engine model decides the stratified semantics on the positive fragment (no error, no limit
    event). -/
theorem C01_engine_iff_tr_pos (E : Env) (hc : Cfg.pos E.cfg)
    (hs : E.strict = true → conforms E.cfg E.T = true) (g : Int) (fuel : Nat) (q : Tuple) (r : Int) :
    (check E g fuel q r).1.err = none → (check E g fuel q r).2.limitHits = 0 →
    ((check E g fuel q r).1.memb = .isMember ↔ Tr E.cfg E.T q) := by
  intro herr hlim
  exact (C01_exact_pos_general E hc hs g fuel q r herr hlim).trans (tr_iff_mem_pos E.cfg E.T hc q).symm

example : Cfg.pos C01cex.env.cfg ∧
    (check C01cex.env 10 200 ⟨"doc", 1, "view", .id 7⟩ 0).1.err = none ∧
    (check C01cex.env 10 200 ⟨"doc", 1, "view", .id 7⟩ 0).2.limitHits = 0 ∧
    (check C01cex.env 10 200 ⟨"doc", 1, "view", .id 7⟩ 0).1.memb = .isMember :=
  ⟨Cfg.pos_of_posB (by decide), by decide, by decide, by decide⟩

end Keto
