/-
  C07 (expand part) — a storage fault during an expansion is never swallowed.
  Statements and final proofs only; helper lemmas live in Keto/Proofs/ExpandFaultLemmas.lean.

  Model: `Keto.expandF` / `Keto.buildTreeF` (Keto/Model/ExpandFault.lean): `Keto.expand`
  with a fault oracle `fails : Nat → Bool` on the index of the storage call about to be
  issued (the calls of a request are numbered 0, 1, 2, … in the order they are issued:
  `XState.calls`). Reference: the fault-free `Keto.buildTree` (Keto/Model/Expand.lean).

  For all stores, depths, page sizes, subjects and oracles: the expansion under faults
  answers the error iff one of the calls the fault-free expansion issues fails, and
  otherwise exactly the fault-free tree — never a tree built from the pages read so far.
-/
import Keto.Model.ExpandFault
import Keto.Proofs.ExpandFaultLemmas

namespace Keto

/-- No fault among the storage calls of the fault-free expansion: the expansion under faults
    is the fault-free one (same tree, same visited set, same number of calls and cuts). -/
theorem C07_expand_fault_free (E : XEnv) (fails : Nat → Bool) (r : Int) (S : Subject)
    (h : ∀ i, i < (buildTree E r S).2.calls → fails i = false) :
    buildTreeF E fails r S = (.ok (buildTree E r S).1, (buildTree E r S).2) :=
  expandF_nofault E fails (expandFuel r E.g) r S {} (fun i _ hi => h i hi)

/-- An expansion under faults either fails or answers exactly the fault-free tree — never a
    tree built from the pages read so far. -/
theorem C07_expand_never_partial (E : XEnv) (fails : Nat → Bool) (r : Int) (S : Subject) :
    (buildTreeF E fails r S).1 = .err ∨ (buildTreeF E fails r S).1 = .ok (buildTree E r S).1 := by
  rcases expandF_err_or_ok E fails (expandFuel r E.g) r S {} with h | h
  · exact .inl h
  · exact .inr (congrArg Prod.fst h)

/-- The expansion fails iff one of the storage calls the fault-free expansion issues fails. -/
theorem C07_expand_fault_iff (E : XEnv) (fails : Nat → Bool) (r : Int) (S : Subject) :
    (buildTreeF E fails r S).1 = .err ↔ ∃ i, i < (buildTree E r S).2.calls ∧ fails i = true := by
  constructor
  · intro he
    obtain ⟨i, _, h2, h3⟩ := (expandF_err_iff E fails (expandFuel r E.g) r S {}).mp he
    exact ⟨i, h2, h3⟩
  · rintro ⟨i, h2, h3⟩
    exact expandF_fault E fails (expandFuel r E.g) r S {} ⟨i, Nat.zero_le _, h2, h3⟩

/-- Pointwise: failing exactly the call number `k` the expansion reaches makes it fail. -/
theorem C07_expand_single_fault (E : XEnv) (r : Int) (S : Subject) (k : Nat)
    (hk : k < (buildTree E r S).2.calls) : (buildTreeF E (fun i => i == k) r S).1 = .err :=
  (C07_expand_fault_iff E (fun i => i == k) r S).mpr ⟨k, hk, by simp⟩

/-- … and failing exactly one call the expansion does not reach changes nothing. -/
theorem C07_expand_single_fault_beyond (E : XEnv) (r : Int) (S : Subject) (k : Nat)
    (hk : (buildTree E r S).2.calls ≤ k) :
    buildTreeF E (fun i => i == k) r S = (.ok (buildTree E r S).1, (buildTree E r S).2) :=
  C07_expand_fault_free E (fun i => i == k) r S (fun i hi => by
    have : i ≠ k := by omega
    simpa using this)

/-- The driver's `ferr` column: every single failing call the expansion reaches makes it fail. -/
theorem C07_expand_fault_column (E : XEnv) (r : Int) (S : Subject) :
    faultColumn E r S (buildTree E r S).2.calls = List.replicate (buildTree E r S).2.calls true := by
  refine List.eq_replicate_iff.mpr ⟨by simp [faultColumn], ?_⟩
  intro b hb
  simp only [faultColumn, List.mem_map, List.mem_range] at hb
  obtain ⟨k, hk, rfl⟩ := hb
  rw [C07_expand_single_fault E r S k hk]
  rfl

/-- … also for the prefix the driver prints (`min calls 12`). -/
theorem C07_expand_fault_column_le (E : XEnv) (r : Int) (S : Subject) (n : Nat)
    (hn : n ≤ (buildTree E r S).2.calls) : faultColumn E r S n = List.replicate n true := by
  refine List.eq_replicate_iff.mpr ⟨by simp [faultColumn], ?_⟩
  intro b hb
  simp only [faultColumn, List.mem_map, List.mem_range] at hb
  obtain ⟨k, hk, rfl⟩ := hb
  rw [C07_expand_single_fault E r S k (Nat.lt_of_lt_of_le hk hn)]
  rfl

/-! ### non-vacuity -/

namespace C07ex

def S : Subject := .set "g" 0 "m"
def A : Subject := .set "g" 1 "m"

/-- `S→A, S→7, A→8`, page size 1: two pages under `S` (calls 0 and 2), one under `A` (call 1). -/
def env : XEnv := { T := [⟨"g", 0, "m", A⟩, ⟨"g", 0, "m", .id 7⟩, ⟨"g", 1, "m", .id 8⟩], g := 5, pageSize := 1 }

end C07ex

open C07ex in
-- The fault-free expansion at request depth 3 is a union over two pages and makes three storage
-- calls; failing call 1 (the listing of A, issued while the first page of S is being processed)
-- or call 2 (the second page of S, after a complete child was built) gives the error and no tree;
-- failing call 3, which is never issued, gives the fault-free answer.
example :
    (buildTree env 3 S).1 = some (.union S [.union A [.leaf (.id 8)], .leaf (.id 7)]) ∧
    2 ≤ (buildTree env 3 S).2.calls ∧ (buildTree env 3 S).2.calls = 3 ∧
    (buildTreeF env (fun i => i == 1) 3 S).1.isErr = true ∧
    (buildTreeF env (fun i => i == 2) 3 S).1.isErr = true ∧
    (buildTreeF env (fun i => i == 3) 3 S).1.isErr = false ∧
    faultColumn env 3 S 4 = [true, true, true, false] :=
  ⟨rfl, by decide, by decide, by decide, by decide, by decide, by decide⟩

open C07ex in
-- the theorems applied to the witness: hypotheses satisfiable, conclusions not trivial
example : (buildTreeF env (fun i => i == 1) 3 S).1 = .err :=
  C07_expand_single_fault env 3 S 1 (by decide)

open C07ex in
example : (buildTreeF env (fun _ => false) 3 S).1 = .ok (some (.union S [.union A [.leaf (.id 8)], .leaf (.id 7)])) :=
  congrArg Prod.fst (C07_expand_fault_free env (fun _ => false) 3 S (fun _ _ => rfl))

end Keto
