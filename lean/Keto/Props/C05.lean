/-
  C05 — multi-relationship writes are atomic and isolated.
  Statements and final proofs only; helper lemmas live in Keto/Proofs/StoreLemmas.lean.

  Model: a write request is a list of SQL statements derived from its arguments and the chunk sizes
  (`mapStmts`, `writeStmts`, `deleteStmts`), run by `transaction` on a working copy that is committed at
  the end and dropped on the first failing statement (the database's contract, trusted).  The fault oracle
  `fail k stmt workingCopy` is arbitrary: it covers "the k-th statement fails" for every k as well as
  data-dependent faults (the sqlite triggers of the harness).
-/
import Keto.Model.Store
import Keto.Proofs.StoreLemmas
import Keto.Generated.Facts

namespace Keto.Store

/-- `apply`: what a transact request `(ins, del)` does to the table when nothing fails — it does not depend
    on the chunk sizes. -/
def applyTransact (nid : Nat) (ins : List (Tuple × Nat)) (del : List Tuple) (db : DB) : DB :=
  { db with rows := deleteStmt nid del (insertRows (mkRows nid ins) db.rows) }

/-- All or nothing, `TransactRelationTuples` (also multi-tuple create: `del = []`, multi-tuple delete:
    `ins = []`): for ALL insert and delete lists, ALL chunk sizes ≥ 1 (so a failure in the second chunk of a
    3001-tuple insert or of a 101-tuple delete is covered without enumerating sizes) and EVERY fault oracle,
    the outcome is either (error, the database before) or (success, `apply`); nothing in between. -/
theorem C05_all_or_nothing (cI cD : Nat) (hI : 0 < cI) (hD : 0 < cD) (fail : Oracle) (nid : Nat)
    (ins : List (Tuple × Nat)) (del : List Tuple) (db : DB) :
    transaction fail (writeStmts cI nid ins ++ deleteStmts cD nid del) db = (false, db) ∨
    transaction fail (writeStmts cI nid ins ++ deleteStmts cD nid del) db = (true, applyTransact nid ins del db) := by
  rcases transaction_cases fail (writeStmts cI nid ins ++ deleteStmts cD nid del) db with h | h
  · exact Or.inl h
  · right
    rw [h, execAll_append, execAll_deleteStmts, execAll_writeStmts, deleteC_eq cD hD, writeC_eq cI hI]
    rfl

/-- … and it is an error exactly when some statement fails on the working copy it meets (in particular:
    "the k-th statement fails" with k below the number of statements gives the database before). -/
theorem C05_error_iff (fail : Oracle) (sts : List Stmt) (db : DB) :
    (transaction fail sts db).1 = false ↔
      ∃ i, ∃ h : i < sts.length, fail i sts[i] (execAll (sts.take i) db) = true := by
  unfold transaction
  have := runStmts_none_iff fail sts 0 db
  simp only [Nat.zero_add] at this
  cases h : runStmts fail 0 sts db with
  | none => simp only [true_iff]; exact this.mp h
  | some w =>
    simp only [Bool.true_eq_false, false_iff]
    intro hex
    have := this.mpr hex
    rw [h] at this
    cases this

theorem C05_kth_statement_fails (sts : List Stmt) (db : DB) (k : Nat) (hk : k < sts.length) :
    transaction (fun i _ _ => i == k) sts db = (false, db) := by
  have h := (C05_error_iff (fun i _ _ => i == k) sts db).mpr ⟨k, hk, by simp⟩
  rcases transaction_cases (fun i _ _ => i == k) sts db with h' | h'
  · exact h'
  · rw [h'] at h; cases h

/-- All or nothing for every request of the write API and of the persister (REST create / delete / patch,
    gRPC transact / delete, Persister calls; any arguments, any chunking, any fault oracle), on BOTH tables:
    if the request is answered `ok` the outcome (answer and database) is the fault-free one, otherwise the
    database — relationships and name mappings — is exactly what it was before. -/
theorem C05_requests_all_or_nothing (ck : Chunking) (cfg : Names) (fail : Oracle) (nid : Nat) (op : Op) (db : DB) :
    ((step ck cfg fail nid op db).1.status = .ok →
        (step ck cfg fail nid op db).1.status = (step ck cfg noFail nid op db).1.status ∧
        (step ck cfg fail nid op db).2 = (step ck cfg noFail nid op db).2) ∧
    ((step ck cfg fail nid op db).1.status ≠ .ok → (step ck cfg fail nid op db).2 = db) := by
  by_cases hr : op.isRead = true
  · rw [step_read ck cfg fail nid op db hr, step_read ck cfg noFail nid op db hr]
    refine ⟨fun h => ⟨?_, rfl⟩, fun _ => rfl⟩
    -- a read does not consult the oracle at all
    cases op <;> simp only [Op.isRead, Bool.false_eq_true] at hr <;> rfl
  · have h := normalForm_all_or_nothing (step_form ck cfg nid op db (by simpa using hr)) fail
    unfold Op.request at h
    refine ⟨fun hok => ?_, h.2⟩
    have := h.1 hok
    exact Prod.mk.inj this

/-- The fault-free outcome of a patch / transact request on the table does not depend on the chunk sizes. -/
theorem C05_apply_chunk_independent (ck ck' : Chunking) (hck : ck.pos) (hck' : ck'.pos) (cfg : Names) (nid : Nat)
    (ins : List (ATuple × Nat)) (del : List ATuple) (db : DB) :
    (writeTx ck cfg noFail nid ins del db).2.rows = (writeTx ck' cfg noFail nid ins del db).2.rows := by
  unfold writeTx
  cases fromTuples cfg (ins.map (·.1)) with
  | error e => rfl
  | ok insI =>
    cases fromTuples cfg del with
    | error e => rfl
    | ok delI =>
      simp only [statusOfTx_snd, transaction_noFail, execAll_writeTx_rows]
      rw [transactC_eq _ _ hck.1 hck.2.1, transactC_eq _ _ hck'.1 hck'.2.1]

/-- Single transaction (premise under which the database's isolation gives "a concurrent reader sees before
    or after"): from the regenerated SQL fact table, every function of the persister that executes a write
    statement (`RawQuery(…).Exec()` in Write/Delete/MapStringsToUUIDs, `Delete` in DeleteAll) calls
    `Transaction`, `TransactRelationTuples` wraps its two calls in one, and `Persister.Transaction` is
    `popx.Transaction` (which reuses the transaction found in the context). -/
def expectedTxCalls : List (String × String × String) := [
  ("internal/persistence/sql/relationtuples.go", "Persister.WriteRelationTuples", "call:Transaction"),
  ("internal/persistence/sql/relationtuples.go", "Persister.WriteRelationTuples", "call:Exec"),
  ("internal/persistence/sql/relationtuples.go", "Persister.DeleteRelationTuples", "call:Transaction"),
  ("internal/persistence/sql/relationtuples.go", "Persister.DeleteRelationTuples", "call:Exec"),
  ("internal/persistence/sql/relationtuples.go", "Persister.DeleteAllRelationTuples", "call:Transaction"),
  ("internal/persistence/sql/relationtuples.go", "Persister.DeleteAllRelationTuples", "call:Delete"),
  ("internal/persistence/sql/relationtuples.go", "Persister.TransactRelationTuples", "call:Transaction"),
  ("internal/persistence/sql/uuid_mapping.go", "Persister.MapStringsToUUIDs", "call:Transaction"),
  ("internal/persistence/sql/uuid_mapping.go", "Persister.MapStringsToUUIDs", "call:Exec"),
  ("internal/persistence/sql/persister.go", "Persister.Transaction", "call:Transaction")]

/-- The functions of `persistence/sql` that execute a writing call (`Exec` or `Delete`). -/
def writers : List (String × String) :=
  (Facts.sqlStrings.filter fun e => e.2.2 == "call:Exec" || e.2.2 == "call:Delete").map fun e => (e.1, e.2.1)

set_option maxRecDepth 100000 in
theorem C05_single_tx :
    (∀ e ∈ expectedTxCalls, e ∈ Facts.sqlStrings) ∧
    (∀ w ∈ writers, (w.1, w.2, "call:Transaction") ∈ Facts.sqlStrings) ∧
    writers.length = 4 := by decide

/-- The handlers run the mapping and the write inside one `Transactor().Transaction` and call exactly one
    writing manager method each (from the regenerated handler table). -/
theorem C05_handlers_one_write :
    Facts.managerWrite = [
      ("internal/relationtuple/transact_server.go", "handler.TransactRelationTuples", "TransactRelationTuples"),
      ("internal/relationtuple/transact_server.go", "handler.DeleteRelationTuples", "DeleteAllRelationTuples"),
      ("internal/relationtuple/transact_server.go", "handler.createRelation", "WriteRelationTuples"),
      ("internal/relationtuple/transact_server.go", "handler.deleteRelations", "DeleteAllRelationTuples"),
      ("internal/relationtuple/transact_server.go", "handler.patchRelationTuples", "TransactRelationTuples")] := by
  decide

/-! ### Non-vacuity -/
namespace C05ex

def t (o : Nat) : Tuple := ⟨"doc", o, "viewer", .id 1⟩
def db : DB := { rows := [⟨10, 0, t 1⟩, ⟨20, 0, t 2⟩], maps := [] }
def ins : List (Tuple × Nat) := [(t 3, 30), (t 4, 40), (t 5, 50)]
def del : List Tuple := [t 1, t 2, t 9]

-- chunk sizes 2 and 2: two INSERT and two DELETE statements
example : (writeStmts 2 0 ins ++ deleteStmts 2 0 del).length = 4 := by decide
-- no fault: apply
example : (transaction noFail (writeStmts 2 0 ins ++ deleteStmts 2 0 del) db).2.rows.map (·.shard) = [30, 40, 50] := by decide
-- the LAST statement (second delete chunk) fails after three statements were applied to the working copy:
-- the database is what it was, not the partially applied one
example : transaction (fun k _ _ => k == 3) (writeStmts 2 0 ins ++ deleteStmts 2 0 del) db = (false, db) := by decide
example : ((execAll ((writeStmts 2 0 ins ++ deleteStmts 2 0 del).take 3) db).rows.map (·.shard)) = [30, 40, 50] := by decide
-- a request through the API with a failing mapping insert: 500 and nothing changed
example : (step {} ["doc"] (fun k _ _ => k == 0) 0 (.restCreate { ns := "doc", obj := 1, rel := "r", sid := some 2 } 5) db)
    = ({ status := .internal }, db) := by decide

end C05ex

end Keto.Store
