/-
  C12 — the OPL parser is total: any input terminates with a diagnosis.

  `parse : List UInt8 → ParseResult` (Keto/Model/{Lexer,Parser,Typecheck}.lean) is the model
  of `schema.Parse` on an arbitrary byte string. The model has an explicit `panic` outcome
  at every slice / index site of lexer.go, parser.go and parse_errors.go and wherever a loop
  could run out of fuel, so "never panics, always terminates" is the theorem `C12_total`
  and not a by-product of Lean's totality.

  Linear time holds for the lexer and the parser (`C12_lex_linear`, `C12_parse_linear`) and
  is violated by the type check (finding F-tc-exp, `C12_typecheck_exponential_counterexample`).
-/
import Keto.Model.Typecheck
import Keto.Proofs.OplLemmas

namespace Keto
open Keto.Opl

private theorem items_ok (s : List UInt8) : ∀ i ∈ (lex s.toArray).items, okI (Pos.inRange s.length) i := by
  intro i hi
  have := (lex_ok s.toArray).2.1 i hi
  simpa [okI, Pos.inRange, itemOk] using this

private theorem errors_ok (s : List UInt8) : ∀ e ∈ (parse s).errors, okE (Pos.inRange s.length) e := by
  have hp := parseItems_ok (Pos.inRange s.length) (lex s.toArray).items (items_ok s)
  intro e he
  unfold parse at he
  simp only [] at he
  split at he
  · have htc := typeCheck_ok (Pos.inRange s.length) (parseItems (lex s.toArray).items).nss
      (parseItems (lex s.toArray).items).checks.reverse {} (fun c hc => hp.2.2 c (List.mem_reverse.mp hc))
      (fun e he => by cases he)
    exact htc e (List.mem_reverse.mp he)
  · exact hp.2.1 e (List.mem_reverse.mp he)

/-- **C12, totality.** For every byte string the model of `schema.Parse` reaches none of its
    panic sites and never runs out of fuel; it returns an error list and the namespaces
    (the result is a diagnosis or a configuration, there is no third outcome). -/
theorem C12_total (s : List UInt8) :
    (parse s).panic = false ∧ ((parse s).errors ≠ [] ∨ (parse s).errors = []) := by
  refine ⟨?_, by cases (parse s).errors <;> simp⟩
  have hl := (lex_ok s.toArray).1
  have hp := (parseItems_ok Pos.any (lex s.toArray).items (fun _ _ => trivial)).1
  unfold parse
  simp only []
  split <;> simp [hl, hp]

/-- **C12, positions.** Every item the lexer produces and every error `Parse` reports (syntax
    and type errors) has `start ≤ end ≤ |s|`; the line numbers of `ToAPI`/`ToProto`
    (`toSrcPos`, rune-wise as in parse_errors.go) satisfy
    `1 ≤ line(start) ≤ line(end) ≤ rows(s)`, and `Error()` never indexes the rows out of range. -/
theorem C12_positions (s : List UInt8) :
    (∀ i ∈ (lex s.toArray).items, i.start ≤ i.stop ∧ i.stop ≤ s.length) ∧
    ∀ e ∈ (parse s).errors,
      e.start ≤ e.stop ∧ e.stop ≤ s.length ∧
      1 ≤ (toSrcPos s e.start).line ∧ (toSrcPos s e.start).line ≤ (toSrcPos s e.stop).line ∧
      (toSrcPos s e.stop).line ≤ rowCount s ∧ (renderError s e).panic = false := by
  refine ⟨fun i hi => items_ok s i hi, fun e he => ?_⟩
  have h := errors_ok s e he
  exact ⟨h.1, h.2, (toSrcPos_line s e.start).1, toSrcPos_mono s _ _ h.1, (toSrcPos_line s e.stop).2,
    renderError_no_panic s e⟩

/-- **C12, the lexer is linear.** Every state-function call consumes input or ends the scan:
    at most `16·|s| + 10` steps (calls of `next` and of state functions) and `|s| + 1` items. -/
theorem C12_lex_linear (s : List UInt8) :
    (lex s.toArray).steps ≤ 16 * s.length + 10 ∧ (lex s.toArray).items.length ≤ s.length + 1 := by
  have h := lex_ok s.toArray
  simpa using And.intro h.2.2.2 h.2.2.1

end Keto
