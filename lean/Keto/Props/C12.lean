/-
  C12 — the OPL parser is total: any input terminates with a diagnosis.

  `parse : List UInt8 → ParseResult` (Keto/Model/{Lexer,Parser,Typecheck}.lean) is the model
  of `schema.Parse` on an arbitrary byte string. The model has an explicit `panic` outcome
  at every slice / index site of lexer.go, parser.go and parse_errors.go and wherever a loop
  could run out of fuel, so "never panics, always terminates" is the theorem `C12_total`
  and not a by-product of Lean's totality.

  Linear time holds for the lexer and the parser (`C12_lex_linear`, `C12_parse_linear`) and
  is violated by the type check (finding F-tc-exp, `C12_typecheck_exponential_counterexample`).
-/
import Keto.Model.Typecheck
import Keto.Proofs.OplLemmas
import Keto.Proofs.OplStepLemmas

namespace Keto
open Keto.Opl

private theorem items_ok (s : List UInt8) : ∀ i ∈ (lex s.toArray).items, okI (Pos.inRange s.length) i := by
  intro i hi
  have := (lex_ok s.toArray).2.1 i hi
  simpa [okI, Pos.inRange, itemOk] using this

private theorem errors_ok (s : List UInt8) : ∀ e ∈ (parse s).errors, okE (Pos.inRange s.length) e := by
  have hp := parseItems_ok (Pos.inRange s.length) (lex s.toArray).items (items_ok s)
  intro e he
  unfold parse at he
  simp only [] at he
  split at he
  · have htc := typeCheck_ok (Pos.inRange s.length) (parseItems (lex s.toArray).items).nss
      (parseItems (lex s.toArray).items).checks.reverse {} (fun c hc => hp.2.2 c (List.mem_reverse.mp hc))
      (fun e he => by cases he)
    exact htc e (List.mem_reverse.mp he)
  · exact hp.2.1 e (List.mem_reverse.mp he)

/-- **C12, totality.** For every byte string the model of `schema.Parse` reaches none of its
    panic sites and never runs out of fuel; it returns an error list and the namespaces
    (the result is a diagnosis or a configuration, there is no third outcome). -/
theorem C12_total (s : List UInt8) :
    (parse s).panic = false ∧ ((parse s).errors ≠ [] ∨ (parse s).errors = []) := by
  refine ⟨?_, by cases (parse s).errors <;> simp⟩
  have hl := (lex_ok s.toArray).1
  have hp := (parseItems_ok Pos.any (lex s.toArray).items (fun _ _ => trivial)).1
  unfold parse
  simp only []
  split <;> simp [hl, hp]

/-- **C12, positions.** Every item the lexer produces and every error `Parse` reports (syntax
    and type errors) has `start ≤ end ≤ |s|`; the line numbers of `ToAPI`/`ToProto`
    (`toSrcPos`, rune-wise as in parse_errors.go) satisfy
    `1 ≤ line(start) ≤ line(end) ≤ rows(s)`, and `Error()` never indexes the rows out of range. -/
theorem C12_positions (s : List UInt8) :
    (∀ i ∈ (lex s.toArray).items, i.start ≤ i.stop ∧ i.stop ≤ s.length) ∧
    ∀ e ∈ (parse s).errors,
      e.start ≤ e.stop ∧ e.stop ≤ s.length ∧
      1 ≤ (toSrcPos s e.start).line ∧ (toSrcPos s e.start).line ≤ (toSrcPos s e.stop).line ∧
      (toSrcPos s e.stop).line ≤ rowCount s ∧ (renderError s e).panic = false := by
  refine ⟨fun i hi => items_ok s i hi, fun e he => ?_⟩
  have h := errors_ok s e he
  exact ⟨h.1, h.2, (toSrcPos_line s e.start).1, toSrcPos_mono s _ _ h.1, (toSrcPos_line s e.stop).2,
    renderError_no_panic s e⟩

/-- **C12, the lexer is linear.** Every state-function call consumes input or ends the scan:
    at most `16·|s| + 10` steps (calls of `next` and of state functions) and `|s| + 1` items. -/
theorem C12_lex_linear (s : List UInt8) :
    (lex s.toArray).steps ≤ 16 * s.length + 10 ∧ (lex s.toArray).items.length ≤ s.length + 1 := by
  have h := lex_ok s.toArray
  simpa using And.intro h.2.2.2 h.2.2.1

/-- **C12, the parser is linear.** Every loop iteration of the parser consumes an item or is the
    last one of its loop: at most `100·|items| + 90` steps (calls of `next`, loop iterations), hence
    lexing and parsing together take at most `116·|s| + 200` steps. (The type check is not
    included: see below.) -/
theorem C12_parse_linear (s : List UInt8) :
    (parse s).parseSteps ≤ 100 * (parse s).nItems + 90 ∧
    (parse s).lexSteps + (parse s).parseSteps ≤ 116 * s.length + 200 := by
  have hp := parseItems_steps (lex s.toArray).items
  have hl := C12_lex_linear s
  have h1 : (parse s).parseSteps = (parseItems (lex s.toArray).items).steps := by
    unfold parse; simp only []; split <;> rfl
  have h2 : (parse s).nItems = (lex s.toArray).items.length := by
    unfold parse; simp only []; split <;> rfl
  have h3 : (parse s).lexSteps = (lex s.toArray).steps := by
    unfold parse; simp only []; split <;> rfl
  rw [h1, h2, h3]
  omega

namespace C12ex

/-- `class A implements Namespace {` newline ` #` : a stray byte on line 2. -/
def stray : List UInt8 := b!"class A implements Namespace {\n #"
/-- An unterminated block comment after invalid UTF-8. -/
def unclosed : List UInt8 := [0xff, 0xfe, 10] ++ b!"/* never closed"
/-- A well-formed document. -/
def good : List UInt8 :=
  b!"class A implements Namespace { related: { r: A[] } permits = { p: (ctx) => this.related.r.includes(ctx.subject) } }"

end C12ex

-- non-vacuity: the parser model really diagnoses (errors with positions on the right line), really accepts,
-- and the counters count.
open C12ex in
example : (parse stray).errors.map (fun e => (e.start, e.stop, (toSrcPos stray e.start).line)) = [(32, 32, 2)] := by decide
open C12ex in
example : (parse unclosed).errors.map (fun e => (e.kind, e.start, e.stop, (toSrcPos unclosed e.start).line,
    (toSrcPos unclosed e.stop).line, rowCount unclosed)) = [(.fatalLex .unexpectedToken, 0, 0, 1, 1, 2)] := by decide
open C12ex in
example : (parse good).errors = [] ∧ (parse good).namespaces.length = 1 ∧ (parse good).panic = false := by decide +kernel
open C12ex in
example : (lex good.toArray).items.length = 38 ∧ 0 < (lex good.toArray).steps := by decide +kernel
open C12ex in
example : (parse good).nItems = 38 ∧ 38 ≤ (parse good).parseSteps := by decide +kernel

/-! ### linear time fails in the type check (finding F-tc-exp)

Full statement (NOT provable on the current tree):

    theorem C12_typecheck_linear : ∃ a b, ∀ s, (parse s).tcSteps ≤ a * s.length + b

`recursiveCheckAllRelationsTypesHaveRelation` follows every SubjectSet type to depth
`tupleToSubjectSetTypeCheckMaxDepth` without memoisation. -/

namespace C12ex

/-- `this.related.a.traverse(x => x.related.a.includes(ctx.subject))` inside namespace `N`. -/
def famCheck : TypeCheck := .allTypesHaveRelation "N" ⟨.identifier, b!"a", 0, 0, .none⟩ "a"

/-- Steps of the deferred check on
    `class N implements Namespace { related: { a: (SubjectSet<N,"a"> | … k times)[] } permits = { p: (ctx) => … } }`,
    a document of `152 + 21·k` bytes (corpus/C12/typecheck-exponential.case). -/
def famSteps (k : Nat) : Nat := (runCheck (famNss k) famCheck {}).steps

end C12ex

open C12ex in
/-- **C12, counterexample to linear time.** With `k` SubjectSet types on the self-referential
    relation the single traverse check takes at least `k^11` steps (`k^(maxDepth+1)`), on an input of
    `152 + 21·k` bytes: no bound `a·|s| + b` holds. -/
theorem C12_typecheck_exponential_counterexample :
    (∀ k, k ^ (Keto.Facts.tupleToSubjectSetTypeCheckMaxDepth + 1) ≤ famSteps k) ∧
    ∀ a b : Nat, ∃ k, a * (152 + 21 * k) + b < famSteps k := by
  have h1 : ∀ k, k ^ (Keto.Facts.tupleToSubjectSetTypeCheckMaxDepth + 1) ≤ famSteps k := by
    intro k
    have := recCheck_fam_steps k ⟨.identifier, b!"a", 0, 0, .none⟩ "a"
      (Keto.Facts.tupleToSubjectSetTypeCheckMaxDepth + 1) (({} : TC).tick)
    have hb : bstr b!"a" = "a" := by decide
    unfold famSteps runCheck famCheck
    simp only [hb]
    omega
  refine ⟨h1, fun a b => ⟨173 * a + b + 2, ?_⟩⟩
  obtain ⟨k, hkdef⟩ : ∃ k, k = 173 * a + b + 2 := ⟨_, rfl⟩
  rw [← hkdef]
  have hk := h1 k
  have hpos : 0 < k := by omega
  -- k^2 ≤ k^11 ≤ steps
  have hpow : k * k ≤ k ^ (Keto.Facts.tupleToSubjectSetTypeCheckMaxDepth + 1) := by
    have : k ^ 2 ≤ k ^ (Keto.Facts.tupleToSubjectSetTypeCheckMaxDepth + 1) :=
      Nat.pow_le_pow_right hpos (by decide)
    rwa [Nat.pow_two] at this
  -- a·(152 + 21k) + b < (173a + b + 2)·k = k·k
  have hexp : k * k = 173 * (a * k) + b * k + 2 * k := by
    have : k * k = (173 * a + b + 2) * k := by rw [← hkdef]
    rw [this, Nat.add_mul, Nat.add_mul, Nat.mul_assoc]
  have ha : a ≤ a * k := Nat.le_mul_of_pos_right a hpos
  have hb : b ≤ b * k := Nat.le_mul_of_pos_right b hpos
  have hlin : a * (152 + 21 * k) = 152 * a + 21 * (a * k) := by
    rw [Nat.mul_add, Nat.mul_comm a 152, ← Nat.mul_assoc, Nat.mul_comm a 21, Nat.mul_assoc]
  omega


namespace C12ex
/-- The family as source text, `k = 1` and `k = 2` (the corpus documents). -/
def famDoc1 : List UInt8 :=
  b!"class N implements Namespace {\n related: {\n  a: (SubjectSet<N, \"a\">)[]\n }\n permits = {\n  p: (ctx) => this.related.a.traverse((x) => x.related.a.includes(ctx.subject)),\n }\n}\n"
def famDoc2 : List UInt8 :=
  b!"class N implements Namespace {\n related: {\n  a: (SubjectSet<N, \"a\"> | SubjectSet<N, \"a\">)[]\n }\n permits = {\n  p: (ctx) => this.related.a.traverse((x) => x.related.a.includes(ctx.subject)),\n }\n}\n"
end C12ex

-- non-vacuity / tie of the family to `parse` on its source text: 173 and 194 bytes give 1 and 2^11 errors
open C12ex in
example : famDoc1.length = 152 + 21 * 1 ∧ (parse famDoc1).errors.length = 1 ∧ (parse famDoc1).tcSteps = 26 := by
  decide +kernel
open C12ex in
example : famDoc2.length = 152 + 21 * 2 ∧ (parse famDoc2).errors.length = 2 ^ 11 := by decide +kernel

end Keto
