/-
  C01 (the "only if" direction) — completeness of the check engine for the positive fragment:
  a `notMember` answer (without error) of a run in which no depth/width limit event fired means
  the query is not a member in the Zanzibar semantics. With soundness (`C01_sound_pos`): exactness.

  Hypotheses of the general statement (`C01_complete_pos_general`):
  * `Cfg.pos`: no `!` in the configuration (the reference semantics `Mem` is the positive one);
  * `E.strict = true → conforms E.cfg E.T`: in strict mode the engine skips the direct lookup of
    relations that have a rewrite, the expansion of relations without subject-set types and the
    shortcut candidates with a rewrite; that is complete only for stores that conform to the declared
    types (`C01_complete_strict_counterexample` shows the hypothesis is needed);
  * `limitHits = 0`: no depth or width limit event anywhere in the run (also in branches that are
    evaluated eagerly and whose result is ignored) — needed, see the last example.
  Not needed: the absence of storage faults (a fault always surfaces as an error result, never as
  `notMember` without error) and the fuel bound (running out of fuel is an error result too). The
  statements `C01_complete_pos` / `C01_exact_pos` carry them only to have the shape of C01/C15.

  Statements and final proofs only; helper lemmas live in Keto/Proofs/EngineComplete*.lean
  (Logic: derivations that avoid visited nodes; Frame: heap of visited sets; Loops; Strict; Allowed;
  Rewrite: the induction `build_complete`).
-/
import Keto.Model.Engine
import Keto.Spec.Membership
import Keto.Spec.Positive
import Keto.Spec.Fuel
import Keto.Proofs.EngineSound
import Keto.Proofs.EngineCompleteRewrite

namespace Keto

/-- Completeness, general form: every fault oracle, every fuel, strict mode allowed for conforming
    stores; any non-decisive result (`notMember`, or `unknown` without error — the latter cannot
    occur without a limit event). -/
theorem C01_complete_pos_general (E : Env) (hc : Cfg.pos E.cfg)
    (hs : E.strict = true → conforms E.cfg E.T = true) (g : Int) (fuel : Nat) (q : Tuple) (r : Int) :
    (check E g fuel q r).1.decisive = false → (check E g fuel q r).2.limitHits = 0 → ¬ Mem E.cfg E.T q := by
  intro hnd hlim hmem
  have hv : Valid ({} : Ctx) ({} : World) := Valid.of_none rfl
  obtain ⟨res, he, hr⟩ :=
    (build_complete E hc hs fuel (.isAllowed q (effDepth r g) false) {} {} rfl (fun h => by cases h) hv).eager rfl
  have hcheck : check E g fuel q r = (res, (build E fuel (.isAllowed q (effDepth r g) false) {} {}).2) := by
    unfold check runB
    rw [he]
    rfl
  rw [hcheck] at hnd hlim
  obtain ⟨k, hk⟩ := memN_of_mem hmem
  exact (hr.neg hnd hlim).2 ⟨k, hk⟩

/-- Exactness, general form: with no error and no limit event, the engine answers `isMember` iff the
    query is a member of the Zanzibar semantics. -/
theorem C01_exact_pos_general (E : Env) (hc : Cfg.pos E.cfg)
    (hs : E.strict = true → conforms E.cfg E.T = true) (g : Int) (fuel : Nat) (q : Tuple) (r : Int) :
    (check E g fuel q r).1.err = none → (check E g fuel q r).2.limitHits = 0 →
      ((check E g fuel q r).1.memb = .isMember ↔ Mem E.cfg E.T q) := by
  intro herr hlim
  constructor
  · exact build_sound E hc fuel (.isAllowed q (effDepth r g) false) {} {} rfl {} _
  · intro hmem
    cases hd : (check E g fuel q r).1.decisive with
    | false => exact absurd hmem (C01_complete_pos_general E hc hs g fuel q r hd hlim)
    | true =>
      simp only [Res.decisive, herr, Option.isSome_none, Bool.false_or, beq_iff_eq] at hd
      exact hd

/-- Completeness, positive fragment, non-strict mode: for every configuration without `!`, every
    store (cycles included), every limits: if the check answers `notMember` without error and no
    depth/width limit event fired during the run, the query is not a member. -/
theorem C01_complete_pos (E : Env) (hc : Cfg.pos E.cfg) (hs : E.strict = false) (_hf : ∀ k, E.fails k = false)
    (g : Int) (fuel : Nat) (q : Tuple) (r : Int) (_hfuel : fuel ≥ checkFuel E.cfg (effDepth r g)) :
    let res := check E g fuel q r
    res.1 = Res.nm → res.2.limitHits = 0 → ¬ Mem E.cfg E.T q := by
  intro res hnm hlim
  exact C01_complete_pos_general E hc (fun h => by rw [hs] at h; cases h) g fuel q r
    (by rw [show (check E g fuel q r).1 = Res.nm from hnm]; rfl) hlim

/-- Exactness (non-strict mode): with no error and no limit event, the engine answers `isMember` iff
    the query is a member of the Zanzibar semantics. -/
theorem C01_exact_pos (E : Env) (hc : Cfg.pos E.cfg) (hs : E.strict = false) (_hf : ∀ k, E.fails k = false)
    (g : Int) (fuel : Nat) (q : Tuple) (r : Int) (_hfuel : fuel ≥ checkFuel E.cfg (effDepth r g)) :
    let res := check E g fuel q r
    res.1.err = none → res.2.limitHits = 0 → (res.1.memb = .isMember ↔ Mem E.cfg E.T q) := by
  intro res herr hlim
  exact C01_exact_pos_general E hc (fun h => by rw [hs] at h; cases h) g fuel q r herr hlim

/-- Strict mode, conforming store. -/
theorem C01_complete_pos_strict (E : Env) (hc : Cfg.pos E.cfg) (hconf : conforms E.cfg E.T = true)
    (g : Int) (fuel : Nat) (q : Tuple) (r : Int) :
    let res := check E g fuel q r
    res.1 = Res.nm → res.2.limitHits = 0 → ¬ Mem E.cfg E.T q := by
  intro res hnm hlim
  exact C01_complete_pos_general E hc (fun _ => hconf) g fuel q r
    (by rw [show (check E g fuel q r).1 = Res.nm from hnm]; rfl) hlim

/-- Special case named in the work plan: configurations without any rewrite (plain Zanzibar
    subject-set expansion over a store with cycles) — the depth-first search with a visited set. -/
theorem C01_complete_norewrite (E : Env) (hnr : ∀ ns rel R, astRelationFor E.cfg ns rel = .rel R → R.rewrite = none)
    (hs : E.strict = false) (g : Int) (fuel : Nat) (q : Tuple) (r : Int) :
    let res := check E g fuel q r
    res.1 = Res.nm → res.2.limitHits = 0 → ¬ Mem E.cfg E.T q := by
  intro res hnm hlim
  have hc : Cfg.pos E.cfg := by
    intro ns rel R rw hR hrw
    rw [hnr ns rel R hR] at hrw
    cases hrw
  exact C01_complete_pos_general E hc (fun h => by rw [hs] at h; cases h) g fuel q r
    (by rw [show (check E g fuel q r).1 = Res.nm from hnm]; rfl) hlim

namespace C01cex

/-- Groups that contain each other (`A ∋ B#member`, `B ∋ A#member`, `B ∋ C#member`,
    `C ∋ B#member`), user 7 in C; `doc.view = viewers || (editors && owners)`. -/
def cfg : Cfg := [
  ⟨"group", [⟨"member", [⟨"user", ""⟩, ⟨"group", "member"⟩], none⟩]⟩,
  ⟨"doc", [⟨"viewers", [⟨"group", "member"⟩], none⟩,
           ⟨"editors", [⟨"group", "member"⟩], none⟩,
           ⟨"owners", [⟨"group", "member"⟩], none⟩,
           ⟨"view", [], some ⟨.or, [.computed "viewers", .rewrite .and [.computed "editors", .computed "owners"]]⟩⟩]⟩]

def env : Env where
  cfg := cfg
  strict := false
  maxWidth := 100
  T := [⟨"group", 1, "member", .set "group" 2 "member"⟩,
        ⟨"group", 2, "member", .set "group" 1 "member"⟩,
        ⟨"group", 2, "member", .set "group" 3 "member"⟩,
        ⟨"group", 3, "member", .set "group" 2 "member"⟩,
        ⟨"group", 3, "member", .id 7⟩,
        ⟨"doc", 1, "viewers", .set "group" 1 "member"⟩,
        ⟨"doc", 2, "editors", .set "group" 1 "member"⟩,
        ⟨"doc", 2, "owners", .set "group" 4 "member"⟩,
        ⟨"group", 4, "member", .set "group" 4 "member"⟩]
  fails := fun _ => false
  pageSize := 100

/-- the same in strict mode (the store conforms to the declared types) -/
def envStrict : Env := { env with strict := true }

/-- strict mode, a tuple stored directly on a relation that has a rewrite (non-conforming) -/
def envBad : Env := { env with strict := true, T := ⟨"doc", 1, "view", .id 5⟩ :: env.T }

end C01cex

-- non-vacuity: on a cyclic store (A ∋ B ∋ A) the engine answers `notMember` without any limit
-- event — for a user that is in no group, through the cycle …
example : Cfg.pos C01cex.env.cfg ∧
    (check C01cex.env 10 200 ⟨"group", 1, "member", .id 9⟩ 0).1 = Res.nm ∧
    (check C01cex.env 10 200 ⟨"group", 1, "member", .id 9⟩ 0).2.limitHits = 0 ∧
    200 ≥ checkFuel C01cex.env.cfg (effDepth 0 10) :=
  ⟨Cfg.pos_of_posB (by decide), by decide, by decide, by decide⟩

-- … and through a rewrite with `or`, `and` and the union shortcut (user 7 edits doc 2 but the owners
-- group 4 only contains itself).
example : (check C01cex.env 10 200 ⟨"doc", 2, "view", .id 7⟩ 0).1 = Res.nm ∧
    (check C01cex.env 10 200 ⟨"doc", 2, "view", .id 7⟩ 0).2.limitHits = 0 :=
  ⟨by decide, by decide⟩

-- so the conclusion is really derived:
example : ¬ Mem C01cex.env.cfg C01cex.env.T ⟨"group", 1, "member", .id 9⟩ :=
  C01_complete_pos C01cex.env (Cfg.pos_of_posB (by decide)) rfl (fun _ => rfl) 10 200 _ 0 (by decide)
    (by decide) (by decide)

example : ¬ Mem C01cex.env.cfg C01cex.env.T ⟨"doc", 2, "view", .id 7⟩ :=
  C01_complete_pos C01cex.env (Cfg.pos_of_posB (by decide)) rfl (fun _ => rfl) 10 200 _ 0 (by decide)
    (by decide) (by decide)

-- strict mode: the hypotheses are satisfiable and the premise is met …
example : Cfg.pos C01cex.envStrict.cfg ∧ conforms C01cex.envStrict.cfg C01cex.envStrict.T = true ∧
    (check C01cex.envStrict 10 200 ⟨"doc", 2, "view", .id 7⟩ 0).1 = Res.nm ∧
    (check C01cex.envStrict 10 200 ⟨"doc", 2, "view", .id 7⟩ 0).2.limitHits = 0 :=
  ⟨Cfg.pos_of_posB (by decide), by decide, by decide, by decide⟩

-- … and the hypothesis `conforms` is needed in strict mode: the direct lookup of a relation with a
-- rewrite is skipped, so a tuple stored on it is not seen.
theorem C01_complete_strict_counterexample :
    Cfg.pos C01cex.envBad.cfg ∧
    (check C01cex.envBad 10 200 ⟨"doc", 1, "view", .id 5⟩ 0).1 = Res.nm ∧
    (check C01cex.envBad 10 200 ⟨"doc", 1, "view", .id 5⟩ 0).2.limitHits = 0 ∧
    Mem C01cex.envBad.cfg C01cex.envBad.T ⟨"doc", 1, "view", .id 5⟩ :=
  ⟨Cfg.pos_of_posB (by decide), by decide, by decide, Mem.direct _ (by decide)⟩

-- the engine does find the member behind the cycle (user 7 views doc 1: A → B → (A skipped) → C ∋ 7):
example : (check C01cex.env 10 200 ⟨"doc", 1, "view", .id 7⟩ 0).1 = Res.isM := by decide

-- the hypothesis `limitHits = 0` is needed: with depth 2 the same query is answered `notMember`.
example : (check C01cex.env 2 200 ⟨"doc", 1, "view", .id 7⟩ 0).1 = Res.nm ∧
    (check C01cex.env 2 200 ⟨"doc", 1, "view", .id 7⟩ 0).2.limitHits ≠ 0 :=
  ⟨by decide, by decide⟩

end Keto
