/-
  C15 — every check terminates: the number of evaluation steps is bounded by a function of the
  effective depth and the namespace configuration only; cycles in the stored tuples and
  self-referential permissions do not matter.
  Statements and final proofs only; helper lemmas live in Keto/Proofs/EngineTermination.lean.
-/
import Keto.Model.Engine
import Keto.Spec.Fuel
import Keto.Proofs.EngineTermination

namespace Keto

/-- The model evaluates every check with a number of nested `build` steps bounded by a function of
    the effective depth and the configuration's rewrite nesting height only
    (`checkFuel c d = d * (Cfg.height c + 1) + 1`) — independent of the stored tuples' cycles, of
    the fault oracle and of the width / page limits: with that much fuel the model never gives up
    (`diverged` is the model's "out of fuel"). -/
theorem C15_check_terminates (E : Env) (g : Int) (fuel : Nat) (q : Tuple) (r : Int)
    (h : fuel ≥ checkFuel E.cfg (effDepth r g)) : (check E g fuel q r).1.err ≠ some .diverged :=
  check_no_diverge E g fuel q r h

/-- The same for every call of the engine, for the construction of the check and for every later
    run of the returned thunk, in any context and world. -/
theorem C15_build_terminates (E : Env) (fuel : Nat) (call : Call) (ctx : Ctx) (w : World)
    (h : call.need (Cfg.height E.cfg) ≤ fuel) (c' : Ctx) (w' : World) :
    ((build E fuel call ctx w).1 c' w').1.err ≠ some .diverged :=
  build_no_diverge E fuel call ctx w h c' w'

/-- Fuel is an artefact of the model: any two amounts of fuel above the bound give the same
    answer and the same final world (visited sets, storage calls, limit events). So statements
    "for all fuel" about `check` are statements about one evaluation. -/
theorem C15_fuel_irrelevant (E : Env) (g : Int) (fuel₁ fuel₂ : Nat) (q : Tuple) (r : Int)
    (h₁ : fuel₁ ≥ checkFuel E.cfg (effDepth r g)) (h₂ : fuel₂ ≥ checkFuel E.cfg (effDepth r g)) :
    check E g fuel₁ q r = check E g fuel₂ q r :=
  check_fuel_irrelevant E g fuel₁ fuel₂ q r h₁ h₂

namespace C15ex

/-- `group.member` may hold groups; `doc.p = a && p` refers to itself. -/
def cfg : Cfg := [
  ⟨"group", [⟨"member", [⟨"user", ""⟩, ⟨"group", "member"⟩], none⟩]⟩,
  ⟨"doc", [⟨"a", [⟨"user", ""⟩, ⟨"group", "member"⟩], none⟩,
           ⟨"p", [], some ⟨.and, [.computed "a", .computed "p"]⟩⟩]⟩]

/-- A cyclic store: group 1 is a member of group 2, which is a member of group 1. -/
def env : Env where
  cfg := cfg
  strict := false
  maxWidth := 100
  T := [⟨"group", 1, "member", .set "group" 2 "member"⟩,
        ⟨"group", 2, "member", .set "group" 1 "member"⟩,
        ⟨"doc", 1, "a", .set "group" 1 "member"⟩]
  fails := fun _ => false
  pageSize := 100

def qGroup : Tuple := ⟨"group", 1, "member", .id 7⟩
def qPerm : Tuple := ⟨"doc", 1, "p", .id 7⟩

end C15ex

-- non-vacuity: on a cyclic store and a self-referential permission the bound is 5 * (3 + 1) + 1 = 21
-- and both checks return without `diverged` at exactly that fuel (the second one after hitting the depth
-- limit); fuel matters below the bound (the self-referential permission with 5: `diverged`).
example : Cfg.height C15ex.cfg = 3 ∧ checkFuel C15ex.cfg (effDepth 0 5) = 21 ∧
    (check C15ex.env 5 21 C15ex.qGroup 0).1 = Res.nm ∧
    (check C15ex.env 5 21 C15ex.qPerm 0).1 = Res.nm ∧
    0 < (check C15ex.env 5 21 C15ex.qPerm 0).2.limitHits ∧
    (check C15ex.env 5 5 C15ex.qPerm 0).1.err = some .diverged := by decide

end Keto
