/-
  C08 — all check transports agree with the engine and with each other.
-/
import Keto.Model.Handlers
import Keto.Props.C03
import Keto.Proofs.FactsTieBatch

namespace Keto.H
open Keto

/-- What the engine guarantees about its results (`C03_error_never_member`): a result
    that carries an error is never `isMember`. -/
def EngOk (e : Entry) : Prop := e.eng.err.isSome → e.eng.memb ≠ .isMember

/-- Every transport reports the engine's decision, for every entry (decoded or not,
    known namespace or not, any engine result that satisfies the engine's error
    invariant). -/
theorem C08_agree (e : Entry) (h : EngOk e) :
    (restMirror e).allowed = decision e ∧ (restOpen e).allowed = decision e ∧
    (restMirrorPost e).allowed = decision e ∧ (restOpenPost e).allowed = decision e ∧
    (grpcCheck e).allowed = decision e ∧ (batchEntry e).1 = decision e := by
  obtain ⟨tupleOk, nsKnown, ⟨memb, err⟩⟩ := e
  unfold EngOk at h
  cases tupleOk <;> cases nsKnown <;> cases err with
  | none => cases memb <;> decide
  | some k => cases memb <;> cases k <;> first | decide | exact absurd rfl (h rfl)

/-- The engine results the model can produce satisfy `EngOk`. -/
theorem C08_engine_results_ok (E : Env) (g : Int) (fuel : Nat) (q : Tuple) (r : Int) (tupleOk nsKnown : Bool) :
    EngOk ⟨tupleOk, nsKnown, (check E g fuel q r).1⟩ :=
  fun herr => C03_error_never_member E g fuel q r herr

/-- The status-mirroring endpoints answer 200 exactly when allowed and 403 exactly when
    the decoded request is denied without an error. -/
theorem C08_mirror_status (e : Entry) (h : EngOk e) :
    (restMirror e = .ok true ↔ decision e = true) ∧
    (restMirror e = .forbidden ↔ (e.tupleOk = true ∧ (e.nsKnown = false ∨ e.eng.err = none) ∧ decision e = false)) ∧
    restMirror e ≠ .ok false ∧
    (restMirrorPost e = .ok true ↔ decision e = true) ∧
    (restMirrorPost e = .forbidden ↔ ((e.nsKnown = false ∨ (e.tupleOk = true ∧ e.eng.err = none)) ∧ decision e = false)) ∧
    restMirrorPost e ≠ .ok false := by
  obtain ⟨tupleOk, nsKnown, ⟨memb, err⟩⟩ := e
  unfold EngOk at h
  cases tupleOk <;> cases nsKnown <;> cases err with
  | none => cases memb <;> decide
  | some k => cases memb <;> cases k <;> first | decide | exact absurd rfl (h rfl)

/-- A relationship in an unknown namespace is never reported as allowed. -/
theorem C08_unknown_namespace_never_allowed (e : Entry) (h : e.nsKnown = false) :
    (restMirror e).allowed = false ∧ (restOpen e).allowed = false ∧ (restMirrorPost e).allowed = false ∧
    (restOpenPost e).allowed = false ∧ (grpcCheck e).allowed = false ∧ (batchEntry e).1 = false := by
  obtain ⟨tupleOk, nsKnown, ⟨memb, err⟩⟩ := e
  simp only at h
  subst h
  cases tupleOk <;> cases err with
  | none => cases memb <;> decide
  | some k => cases memb <;> cases k <;> decide

/-- Batch results come back in request order with one result per entry, and each entry
    is what the single check of that entry decides: a malformed or unknown-namespace
    entry affects only its own result. -/
theorem C08_batch_pointwise (es : List Entry) :
    (batch es).length = es.length ∧
    ∀ (i : Nat) (h : i < es.length), (batch es)[i]? = some (batchEntry es[i]) := by
  constructor
  · simp [batch]
  · intro i h
    simp [batch, List.getElem?_map, List.getElem?_eq_getElem h]

theorem C08_batch_decisions (es : List Entry) (h : ∀ e ∈ es, EngOk e) :
    (batch es).map Prod.fst = es.map decision := by
  induction es with
  | nil => rfl
  | cons e es ih =>
    have he := (C08_agree e (h e (by simp))).2.2.2.2.2
    have := ih (fun x hx => h x (by simp [hx]))
    simp only [batch, List.map_cons] at *
    rw [he, this]

/-- Batches of any size up to the configured maximum - the maximum itself included - are answered entry
    by entry; only a larger batch is rejected, and then as a whole. The comparison is tied to the code:
    both batch entry points test `len(tuples) > BatchCheckMaxBatchSize()` (`Facts.batchGuards`). -/
theorem C08_batch_limit (max : Nat) (es : List Entry) :
    (es.length ≤ max → batchLimited max es = some (batch es)) ∧
    (max < es.length → batchLimited max es = none) ∧
    Facts.batchGuards = FactsTie.expectedBatchGuards := by
  refine ⟨fun h => ?_, fun h => ?_, FactsTie.batchGuards_tie⟩
  · simp [batchLimited, Nat.not_lt.mpr h]
  · simp [batchLimited, h]

-- non-vacuity: a batch of exactly the default maximum size (10, from the configuration schema) is answered
example : Facts.defaultMaxBatchCheckSize = 10 ∧
    (batchLimited Facts.defaultMaxBatchCheckSize (List.replicate 10 ⟨true, true, Res.isM⟩)).isSome = true ∧
    (batchLimited Facts.defaultMaxBatchCheckSize (List.replicate 11 ⟨true, true, Res.isM⟩)).isSome = false := by decide

-- non-vacuity: an allowed entry, a denied entry, an unknown namespace and a malformed
-- entry in one batch
example :
    batch [⟨true, true, Res.isM⟩, ⟨true, true, Res.nm⟩, ⟨true, false, Res.nm⟩, ⟨false, true, Res.nm⟩]
      = [(true, false), (false, false), (false, true), (false, true)] := by decide
example : restMirror ⟨true, true, Res.isM⟩ = .ok true ∧ restMirror ⟨true, true, Res.nm⟩ = .forbidden ∧
    restMirror ⟨true, false, Res.nm⟩ = .forbidden ∧ grpcCheck ⟨true, false, Res.nm⟩ = .notFound := by decide
example : EngOk ⟨true, true, Res.error .storage⟩ := by simp [EngOk, Res.error]

end Keto.H
