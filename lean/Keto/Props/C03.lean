/-
  C03 — errors and faults never turn into "allowed".
  Statements and final proofs only; helper lemmas live in Keto/Proofs.
-/
import Keto.Model.Engine
import Keto.Spec.Membership
import Keto.Spec.Positive
import Keto.Proofs.EngineSound
import Keto.Props.C01exact

namespace Keto

/-- No fault oracle can turn an answer into `isMember` for a subject that is not a member (positive
    fragment): `E.fails` is arbitrary. -/
theorem C03_no_allow_pos (E : Env) (hc : Cfg.pos E.cfg) (g : Int) (fuel : Nat) (q : Tuple) (r : Int) :
    (check E g fuel q r).1.memb = .isMember → Mem E.cfg E.T q :=
  build_sound E hc fuel (.isAllowed q (effDepth r g) false) {} {} rfl {} _

/-- `Engine.CheckIsMember` (internal/check/engine.go): an answer that carries an error is never
    "allowed". -/
def checkIsMember (res : Res) : Bool × Option ErrKind :=
  match res.err with
  | some e => (false, some e)
  | none => (res.memb == .isMember, none)

theorem C03_single_error_never_allowed (res : Res) (h : res.err.isSome) : (checkIsMember res).1 = false := by
  unfold checkIsMember
  split
  · rfl
  · next hn => rw [hn] at h; cases h

/-- `checkInverted` never turns a result that carries an error into a membership. -/
theorem C03_invert_keeps_error (r : Res) (h : r.err.isSome) :
    (invertRes r).memb = .unknown ∧ (invertRes r).err = r.err := by
  unfold invertRes
  split
  · next e he => exact ⟨rfl, he.symm⟩
  · next hn => rw [hn] at h; cases h

/-- `and` never answers isMember together with an error; `or`/groups only pass on what a child
    produced (`orRun_inv`, `GInv.gAdd` in Keto/Proofs/EngineSound.lean). -/
theorem C03_and_error_not_member (ths : List Thunk) (c : Ctx) (w : World) :
    (andRun ths c w).1.err.isSome → (andRun ths c w).1.memb ≠ .isMember :=
  andRun_err ths c w

/-- Strong form, for every configuration (negation included), store, limits, fault oracle and fuel:
    a check result that carries an error is never `isMember`. -/
theorem C03_error_never_member (E : Env) (g : Int) (fuel : Nat) (q : Tuple) (r : Int) :
    (check E g fuel q r).1.err.isSome → (check E g fuel q r).1.memb ≠ .isMember :=
  build_err_not_member E fuel (.isAllowed q (effDepth r g) false) {} {} {} _

/-- … hence `CheckIsMember` answers `true` only for an error-free `isMember` result. -/
theorem C03_checkIsMember_true (E : Env) (g : Int) (fuel : Nat) (q : Tuple) (r : Int) :
    (checkIsMember (check E g fuel q r).1).1 = true →
      (check E g fuel q r).1 = Res.isM := by
  unfold checkIsMember
  split
  · intro h; cases h
  · next hn =>
    intro h
    have hm : (check E g fuel q r).1.memb = .isMember := by simpa using h
    generalize (check E g fuel q r).1 = res at hn hm
    cases res
    simp only at hn hm
    subst hn hm
    rfl

namespace C03ex

/-- `doc.view = viewers.includes || parents.traverse(p => p.view)`, `doc.hidden = !view`. -/
def cfg : Cfg := [
  ⟨"doc", [⟨"viewers", [⟨"user", ""⟩], none⟩,
           ⟨"parents", [⟨"folder", ""⟩], none⟩,
           ⟨"view", [], some ⟨.or, [.computed "viewers", .ttu "parents" "view"]⟩⟩]⟩,
  ⟨"folder", [⟨"viewers", [⟨"user", ""⟩], none⟩,
              ⟨"view", [], some ⟨.or, [.computed "viewers"]⟩⟩]⟩]

def T : List Tuple :=
  [⟨"doc", 1, "parents", .set "folder" 2 ""⟩,
   ⟨"folder", 2, "viewers", .id 7⟩,
   ⟨"doc", 1, "viewers", .id 8⟩]

/-- Every storage call from the `k`-th on fails (`k = 0`: no faults). -/
def env (k : Nat) : Env where
  cfg := cfg
  strict := false
  maxWidth := 100
  T := T
  fails := fun i => k != 0 && k ≤ i
  pageSize := 100

def q : Tuple := ⟨"doc", 1, "view", .id 7⟩

end C03ex

-- non-vacuity: on a positive configuration the member is found without faults; with a failing storage
-- the answer carries an error, is not `isMember`, and `CheckIsMember` says "not allowed".
example : Cfg.pos (C03ex.env 0).cfg ∧
    (check (C03ex.env 0) 5 200 C03ex.q 0).1 = Res.isM ∧
    (check (C03ex.env 1) 5 200 C03ex.q 0).1 = Res.error .storage ∧
    (check (C03ex.env 2) 5 200 C03ex.q 0).1.err.isSome ∧
    (checkIsMember (check (C03ex.env 2) 5 200 C03ex.q 0).1).1 = false :=
  ⟨Cfg.pos_of_posB (by decide), by decide, by decide, by decide, by decide⟩

-- non-vacuity of the small lemmas: the hypotheses are satisfiable and the operations are not trivial.
example : (checkIsMember (Res.error .storage)).1 = false ∧ (checkIsMember Res.isM).1 = true ∧
    invertRes ⟨.isMember, some .storage⟩ = Res.error .storage ∧ invertRes Res.nm = Res.isM ∧
    (andRun [constT Res.isM, constT ⟨.isMember, some .storage⟩] {} {}).1 = ⟨.notMember, some .storage⟩ ∧
    (andRun [constT Res.isM, constT Res.isM] {} {}).1 = Res.isM := by decide

/-- Full form for ALL configurations (with `!`), every position, kind and number of failing storage
    operations (`E.fails` is arbitrary): a run that reports no error and made no limit event answers
    exactly the stratified semantics of the fault-free store — so whatever a storage failure does to a
    check, it can only surface as an error (or as a limit event), never as a different answer; in
    particular never as `isMember` for a request whose semantic answer is "not a member".
    (Corollary of `C01_exact_all`, which holds for every fault oracle.) -/
theorem C03_fault_answer_exact_all (E : Env) (hs : E.strict = true → conforms E.cfg E.T = true)
    (g : Int) (fuel : Nat) (q : Tuple) (r : Int) :
    (check E g fuel q r).1.err = none → (check E g fuel q r).2.limitHits = 0 →
    ((check E g fuel q r).1.memb = .isMember ↔ Tr E.cfg E.T q) :=
  C01_exact_all_iff E hs g fuel q r

/-- Two runs on the same configuration and store that differ ONLY in their fault oracle (e.g. the
    fault-free run and a run in which some storage operations fail), both without error and without
    limit event, give the same decision. -/
theorem C03_fault_independent_all (E : Env) (fails' : Nat → Bool) (hs : E.strict = true → conforms E.cfg E.T = true)
    (g : Int) (fuel fuel' : Nat) (q : Tuple) (r : Int) :
    (check E g fuel q r).1.err = none → (check E g fuel q r).2.limitHits = 0 →
    (check { E with fails := fails' } g fuel' q r).1.err = none →
    (check { E with fails := fails' } g fuel' q r).2.limitHits = 0 →
    ((check { E with fails := fails' } g fuel' q r).1.memb = .isMember ↔ (check E g fuel q r).1.memb = .isMember) := by
  intro h1 h2 h3 h4
  have a := C01_exact_all_iff E hs g fuel q r h1 h2
  have b := C01_exact_all_iff { E with fails := fails' } hs g fuel' q r h3 h4
  exact b.trans a.symm

/-! ### `Engine.BatchCheck`

One check per entry, results at the index of the entry. The entries run side by side and share the
storage, so which storage operations fail for which entry depends on the schedule: the model gives
every entry its OWN fault oracle (`fs`, any list), which covers every schedule and every position,
kind and number of failing operations of the batch. -/

/-- `Engine.BatchCheck` (internal/check/engine.go). -/
def batchCheck (E : Env) (g : Int) (fuel : Nat) (r : Int) : List (Tuple × (Nat → Bool)) → List Res
  | [] => []
  | (q, f) :: rest => (check { E with fails := f } g fuel q r).1 :: batchCheck E g fuel r rest

/-- One result per entry, in request order. -/
theorem C03_batch_length (E : Env) (g : Int) (fuel : Nat) (r : Int) (es : List (Tuple × (Nat → Bool))) :
    (batchCheck E g fuel r es).length = es.length := by
  induction es with
  | nil => rfl
  | cons e es ih => obtain ⟨q, f⟩ := e; simp [batchCheck, ih]

/-- Entry `i` of the batch is the check of entry `i` (under that entry's faults) - never another
    entry's answer. -/
theorem C03_batch_pointwise (E : Env) (g : Int) (fuel : Nat) (r : Int) (es : List (Tuple × (Nat → Bool)))
    (i : Nat) (h : i < es.length) :
    (batchCheck E g fuel r es)[i]? = some (check { E with fails := es[i].2 } g fuel es[i].1 r).1 := by
  induction es generalizing i with
  | nil => cases h
  | cons e es ih =>
    obtain ⟨q, f⟩ := e
    cases i with
    | zero => simp [batchCheck]
    | succ j =>
      have hj : j < es.length := by simpa using h
      simpa [batchCheck] using ih j hj

/-- Whatever fails wherever in the batch: an entry that carries an error is never `isMember`, and an
    entry without error and limit event answers exactly the semantics of ITS relationship on the
    fault-free store (all configurations, `!` included). -/
theorem C03_batch_entries (E : Env) (hs : E.strict = true → conforms E.cfg E.T = true) (g : Int) (fuel : Nat) (r : Int)
    (es : List (Tuple × (Nat → Bool))) (i : Nat) (h : i < es.length) :
    ∃ res W, (batchCheck E g fuel r es)[i]? = some res ∧
      (res, W) = check { E with fails := es[i].2 } g fuel es[i].1 r ∧
      (res.err.isSome → res.memb ≠ .isMember) ∧
      (res.err = none → W.limitHits = 0 → (res.memb = .isMember ↔ Tr E.cfg E.T es[i].1)) := by
  refine ⟨(check { E with fails := es[i].2 } g fuel es[i].1 r).1, (check { E with fails := es[i].2 } g fuel es[i].1 r).2,
    C03_batch_pointwise E g fuel r es i h, rfl, ?_, ?_⟩
  · exact C03_error_never_member { E with fails := es[i].2 } g fuel es[i].1 r
  · exact C03_fault_answer_exact_all { E with fails := es[i].2 } hs g fuel es[i].1 r

-- non-vacuity: a batch of two entries on the example of C01, the second one with every storage
-- operation failing: the first entry is allowed, the second carries the error and is not
example :
    batchCheck (C03ex.env 0) 5 200 0 [(C03ex.q, fun _ => false), (C03ex.q, fun _ => true)]
      = [Res.isM, Res.error .storage] := by decide

end Keto
