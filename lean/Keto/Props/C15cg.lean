/-
  C15 (checkgroup part) — the concurrent checkgroup (`concurrentCheckgroup`,
  internal/check/checkgroup/concurrent_checkgroup.go) behaves like the sequential group of the
  engine model and leaves no goroutine behind. All theorems are about every script of results
  and every event list of the event-level model Keto/Model/Checkgroup.lean (no bound on the
  length of the run or on the number of checks).
  Statements and final proofs only; helper lemmas live in Keto/Proofs/CheckgroupLemmas.lean.
-/
import Keto.Model.Checkgroup
import Keto.Proofs.CheckgroupLemmas

namespace Keto.CG
open Keto

/-- The invariant `Inv` (Keto/Proofs/CheckgroupLemmas.lean) holds in every reachable state. -/
theorem cg_inv (script : Nat → Res) (es : List Ev) (s : St) (h : run script es = some s) :
    Inv false script s :=
  run_inv (fun hb => by cases hb) h

/-- `cg_inv` spelled out, while the consumer is in its loop (`doneCh` not closed). The last
    three conjuncts say that the `if finalizing { continue }` branch of the `addCheckCh` case is
    dead: a finalizing consumer that has not returned has a running check, so no reservation is
    available and nobody holds one. -/
theorem cg_inv_open (script : Nat → Res) (es : List Ev) (s : St) (h : run script es = some s)
    (hd : s.done = none) :
    s.running.length + s.finished = s.total ∧
    s.running.length ≤ 1 ∧
    (s.token = true → s.running = [] ∧ s.holder = false) ∧
    (s.holder = true → s.running = [] ∧ s.token = false) ∧
    (∀ i ∈ s.running, i < s.nextAdd ∧ i + 1 = s.total) ∧
    s.running.Nodup ∧
    (∀ j < s.finished, (script j).decisive = false) ∧
    s.dropped = 0 ∧ s.nextAdd = s.total ∧
    (s.finalizing = true → s.running ≠ [] ∧ s.token = false ∧ s.holder = false) := by
  have I := cg_inv script es s h
  refine ⟨I.count hd, I.len_le, I.token hd, I.holder hd, fun i hi => ⟨I.lt_next i hi, I.last i hi⟩,
    I.nodup, I.nondec hd, I.no_drop, I.next_total, fun hf => ?_⟩
  have hr := I.fin hd hf
  refine ⟨hr, ?_, ?_⟩
  · cases ht : s.token
    · rfl
    · exact absurd (I.token hd ht).1 hr
  · cases hh : s.holder
    · rfl
    · exact absurd (I.holder hd hh).1 hr

/-- `cg_inv` spelled out once the consumer has returned: the drain goroutine was started for
    exactly the checks that are still running (each of them sends once), at most one. -/
theorem cg_inv_done (script : Nat → Res) (es : List Ev) (s : St) (h : run script es = some s)
    (hd : s.done ≠ none) :
    s.drain = s.running.length ∧ s.drain ≤ 1 ∧ s.running.Nodup ∧ s.finished ≤ s.total ∧
    (∀ i ∈ s.running, i + 1 = s.total) := by
  have I := cg_inv script es s h
  have := I.drain hd
  exact ⟨this, this ▸ I.len_le, I.nodup, I.fin_le, I.last⟩

/-- The `if finalizing { continue }` branch is never taken: every check handed over to the
    consumer is started, the started checks are exactly the indices `0 … total-1`. -/
theorem cg_no_drop (script : Nat → Res) (es : List Ev) (s : St) (h : run script es = some s) :
    s.dropped = 0 ∧ s.nextAdd = s.total :=
  ⟨(cg_inv script es s h).no_drop, (cg_inv script es s h).next_total⟩

/-- The sub-checks of one group run one at a time (in `Add` order: the running check is the one
    added last, `cg_inv_open`) — the fact the sequential engine model rests on. -/
theorem C15_cg_one_at_a_time (script : Nat → Res) (es : List Ev) (s : St)
    (h : run script es = some s) : s.running.length ≤ 1 :=
  (cg_inv script es s h).len_le

/-- Without cancellation the group answers the first decisive scripted result in `Add` order,
    else `NotMember` (`expected` is `gAdd` folded over the results: the sequential group of the
    engine model). -/
theorem C15_cg_result (script : Nat → Res) (es : List Ev) (s : St) (r : Res)
    (h : run script es = some s) (hd : s.done = some r) (hc : Ev.ctxDone ∉ es) :
    r = expected ((List.range s.total).map script) := by
  have I : Inv true script s := run_inv (fun _ => hc) h
  rcases I.res r hd with h | ⟨h, _⟩
  · exact h
  · cases h

/-- Without cancellation the consumer returns only when no check is running: every started check
    has been received by the consumer itself, the drain goroutine has nothing to do. -/
theorem C15_cg_result_quiet (script : Nat → Res) (es : List Ev) (s : St)
    (h : run script es = some s) (hd : s.done ≠ none) (hc : Ev.ctxDone ∉ es) :
    s.finished = s.total ∧ s.running = [] ∧ s.drain = 0 := by
  have I : Inv true script s := run_inv (fun _ => hc) h
  have q := I.quiet rfl hd
  have d := I.drain hd
  rw [q.2] at d
  exact ⟨q.1, q.2, d⟩

/-- The results the consumer received (`g`, recorded by the ghost run `runG`, which agrees with
    `run` on the state): they are those of the checks `0, 1, …, finished-1` in this order, all
    but the last are non-decisive, all are non-decisive while the consumer has not returned, and
    without cancellation the answer is the expected one for the received results. -/
theorem C15_cg_result_prefix (script : Nat → Res) (es : List Ev) (s : St) (g : List (Nat × Res))
    (h : runG script es = some (s, g)) :
    run script es = some s ∧
    g = (List.range s.finished).map (fun i => (i, script i)) ∧
    (∀ p ∈ g.dropLast, p.2.decisive = false) ∧
    (s.done = none → ∀ p ∈ g, p.2.decisive = false) ∧
    (∀ r, s.done = some r → Ev.ctxDone ∉ es → r = expected (g.map Prod.snd)) := by
  have hr := runG_run h
  have hg : g = (List.range s.finished).map (fun i => (i, script i)) := runG_ghost h
  have I := cg_inv script es s hr
  refine ⟨hr, hg, ?_, ?_, ?_⟩
  · intro p hp
    have hg' : g = ghostOf script s.finished := hg
    rw [hg', ghostOf_dropLast] at hp
    have := mem_ghostOf hp
    rw [this.2]
    exact I.nondec' p.1 (by omega)
  · intro hd p hp
    have hg' : g = ghostOf script s.finished := hg
    rw [hg'] at hp
    have := mem_ghostOf hp
    rw [this.2]
    exact I.nondec hd p.1 this.1
  · intro r hd hc
    have q := C15_cg_result_quiet script es s hr (by simp [hd]) hc
    rw [C15_cg_result script es s r hr hd hc, hg, ← q.1, List.map_map]
    rfl

/-- Every run of `run` is a run of the ghost run (so `C15_cg_result_prefix` speaks about all
    runs). -/
theorem C15_cg_ghost_total (script : Nat → Res) (es : List Ev) (s : St)
    (h : run script es = some s) : ∃ g, runG script es = some (s, g) :=
  run_runG h

/-- Cancellation can only replace the answer by the context error. -/
theorem C15_cg_ctx (script : Nat → Res) (es : List Ev) (s : St) (r : Res)
    (h : run script es = some s) (hd : s.done = some r) :
    r = ctxErr ∨ r = expected ((List.range s.total).map script) := by
  rcases (cg_inv script es s h).res r hd with h | ⟨_, h⟩
  · exact Or.inr h
  · exact Or.inl h

/-- No leak, safety half: when the consumer returns, the drain goroutine is started for exactly
    as many receives as there are checks that have not sent their result yet. -/
theorem C15_cg_no_leak (script : Nat → Res) (es : List Ev) (s : St)
    (h : run script es = some s) (hd : s.done.isSome = true) : s.drain = s.running.length :=
  (cg_inv script es s h).drain (by intro hn; simp [hn] at hd)

/-- No leak, progress half: after completion the receives of the drain goroutine for the checks
    still running are enabled one after the other and lead to a state in which no check is
    running and the drain goroutine has finished; the published result and the counters are
    untouched. In that state no event is enabled: every goroutine of the group has terminated
    (given that each started check sends exactly once). -/
theorem C15_cg_drain_progress (script : Nat → Res) (es : List Ev) (s : St)
    (h : run script es = some s) (hd : s.done.isSome = true) :
    ∃ s', runFrom script s (s.running.map Ev.drainRecv) = some s' ∧
      s'.running = [] ∧ s'.drain = 0 ∧ s'.done = s.done ∧ s'.total = s.total ∧
      (∀ e, enabled s' e = false) := by
  obtain ⟨s', h1, h2, h3, h4, h5, _⟩ :=
    drain_progress script s.running s rfl hd (C15_cg_no_leak script es s h hd)
  exact ⟨s', h1, h2, h3, h4, h5, terminal_nothing_enabled s' (h4 ▸ hd) h2⟩

/-- After completion nothing but the receives of the drain goroutine can happen to the group. -/
theorem C15_cg_done_only_drain (script : Nat → Res) (es : List Ev) (s : St)
    (_h : run script es = some s) (hd : s.done.isSome = true) (e : Ev)
    (he : ∀ i, e ≠ .drainRecv i) : enabled s e = false :=
  done_only_drain s hd e he

/-! ### Non-vacuity -/

namespace C15cgEx

def script3 (i : Nat) : Res := [Res.nm, Res.unk, Res.isM].getD i Res.unk

/-- What the examples look at. -/
def view (s : St) : Option Res × Nat × Nat × List Nat × Nat × Nat :=
  (s.done, s.total, s.finished, s.running, s.drain, s.dropped)

/-- Three checks `[nm, unk, isM]` and a `finalize` while the third runs: the answer is `isM`. -/
example :
    (run script3 [.reserve, .deliver, .result 0, .reserve, .deliver, .result 1, .reserve, .deliver,
      .finalize, .result 2]).map view = some (some Res.isM, 3, 3, [], 0, 0) := by decide

example : expected ((List.range 3).map script3) = Res.isM := by decide

/-- The ghost run of the same events. -/
example :
    (runG script3 [.reserve, .deliver, .result 0, .reserve, .deliver, .result 1, .reserve, .deliver,
      .finalize, .result 2]).map Prod.snd = some [(0, Res.nm), (1, Res.unk), (2, Res.isM)] := by decide

/-- `finalize` comes first: the group answers `NotMember` at once … -/
example : (run script3 [.finalize]).map view = some (some Res.nm, 0, 0, [], 0, 0) := by decide

/-- … and a later `Add` is dropped without being handed to the consumer (`Add` leaves through
    `<-g.subcheckCtx.Done()`: neither `reserve` nor `deliver` is an event of the group any more). -/
example : run script3 [.finalize, .reserve] = none ∧ run script3 [.finalize, .deliver] = none := by
  decide

/-- `finalize` while the first check runs: the second `Add` cannot reserve (the `finalizing`
    branch of the consumer is not reachable, `cg_no_drop`); the non-decisive result ends the group. -/
example :
    run script3 [.reserve, .deliver, .finalize, .reserve] = none ∧
    (run script3 [.reserve, .deliver, .finalize, .result 0]).map view =
      some (some Res.nm, 1, 1, [], 0, 0) := by decide

/-- `ctxDone` while a check is running: the answer is the context error and the drain goroutine
    is started for one receive (`drain = 1`, check 0 still running) … -/
example :
    (run script3 [.reserve, .deliver, .ctxDone]).map view = some (some ctxErr, 1, 0, [0], 1, 0) := by
  decide

/-- … and that receive ends it. -/
example :
    (run script3 [.reserve, .deliver, .ctxDone, .drainRecv 0]).map view =
      some (some ctxErr, 1, 0, [], 0, 0) := by
  decide

end C15cgEx

end Keto.CG
