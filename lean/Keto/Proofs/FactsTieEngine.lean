/-
  Fact tie (the engines are stateless: C14), kept apart so that only C14 depends on it.
-/
import Keto.Generated.Facts

namespace Keto.FactsTie
open Keto.Facts

/-- The check engine and the expand engine hold their dependency provider and nothing else: one engine
    serves every request (and, with a contextualizer, every tenant), so anything a request needs - the
    configuration in force, the visited set, result slots - lives in the request's context. -/
def expectedStructFields : List (String × String × String) := [
  ("internal/check/engine.go", "Engine", "d: EngineDependencies"),
  ("internal/expand/engine.go", "Engine", "d: EngineDependencies")]

theorem structFields_tie : structFields = expectedStructFields := by decide

end Keto.FactsTie
