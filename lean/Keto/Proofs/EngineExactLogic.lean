/-
  Exactness of the engine model for ALL configurations (`!` included), part 1: pure logic (no engine).

  `FaE c T k V t` / `HFaE c T k V ch t`: finite-failure proofs ("`t` is provably not a member") shaped
  like the engine's depth-first search: the avoid set `V` (the visited set) is consulted ONLY at
  subject-set expansion steps, and it is the subject set that is expanded INTO that is pushed — the
  engine marks a subject set right before it evaluates it (`expandLoop`/`checkAndAdd`); computed
  subject sets and tuple-to-subject-set steps neither consult nor extend the visited set.
  Negation refers to the stratified semantics: `!ch` fails when `HTrN … ch` holds.

  * weakening (`FaE.mono_V`): a larger avoid set only adds cuts;
  * cut elimination (`faE_subst`): a cut at `s` is replaced by a refutation of `s` (which may itself
    assume `s`: least fixpoint — a membership justified only through itself is no membership);
  * `DeadF sub V s` (node `s` is refuted assuming `s :: V`) and `ExtF sub V0 V1` (`V1` extends `V0` by
    dead nodes): the constructive counterparts of `DeadK` / `Ext` of EngineCompleteLogic, with
    `ExtF.faE` (refutations w.r.t. `V1` can be turned into refutations w.r.t. `V0`) and `ExtF.trans`;
  * conversion (`FaE.toFaN`): a refutation whose cuts are all on the current path is a refutation of
    the stratified semantics (`FaN` pushes every node and may cut at every node: more cuts allowed);
  * what strict mode needs (`faE_empty_rel`).

  Helper lemmas only; the property theorems live in Keto/Props/C01exact.lean.
-/
import Keto.Model.Engine
import Keto.Spec.Membership
import Keto.Spec.Stratified
import Keto.Proofs.StratifiedLemmas
import Keto.Proofs.EngineCompleteStrict

namespace Keto

mutual
inductive FaE (c : Cfg) (T : List Tuple) : Nat → List VKey → Tuple → Prop where
  | node (k : Nat) (V : List VKey) (t : Tuple) :
      t ∉ T → astRelationFor c t.ns t.rel ≠ .bad →
      (∀ n o r, (⟨t.ns, t.obj, t.rel, .set n o r⟩ : Tuple) ∈ T → (n, o, r) ∉ V →
        FaE c T k ((n, o, r) :: V) ⟨n, o, r, t.sub⟩) →
      (∀ R rw, astRelationFor c t.ns t.rel = .rel R → R.rewrite = some rw →
        HFaE c T k V (.rewrite rw.op rw.children) t) →
      FaE c T (k+1) V t
inductive HFaE (c : Cfg) (T : List Tuple) : Nat → List VKey → Child → Tuple → Prop where
  | computed (k : Nat) (V : List VKey) (t : Tuple) (rel : String) :
      FaE c T k V { t with rel := rel } → HFaE c T (k+1) V (.computed rel) t
  | ttu (k : Nat) (V : List VKey) (t : Tuple) (rel crel : String) :
      (∀ n o r, (⟨t.ns, t.obj, rel, .set n o r⟩ : Tuple) ∈ T → FaE c T k V ⟨n, o, crel, t.sub⟩) →
      HFaE c T (k+1) V (.ttu rel crel) t
  | or (k : Nat) (V : List VKey) (t : Tuple) (cs : List Child) :
      (∀ ch, ch ∈ cs → HFaE c T k V ch t) → HFaE c T (k+1) V (.rewrite .or cs) t
  | andNil (k : Nat) (V : List VKey) (t : Tuple) : HFaE c T (k+1) V (.rewrite .and []) t
  | and (k : Nat) (V : List VKey) (t : Tuple) (cs : List Child) (ch : Child) :
      ch ∈ cs → HFaE c T k V ch t → HFaE c T (k+1) V (.rewrite .and cs) t
  | invert (k : Nat) (V : List VKey) (t : Tuple) (ch : Child) :
      HTrN c T k ch t → HFaE c T (k+1) V (.invert ch) t
end

variable {c : Cfg} {T : List Tuple}

/-! ### monotonicity in the height -/

theorem faE_succ : ∀ k,
    (∀ V t, FaE c T k V t → FaE c T (k+1) V t) ∧
    (∀ V ch t, HFaE c T k V ch t → HFaE c T (k+1) V ch t) := by
  intro k
  induction k with
  | zero =>
    constructor
    · intro V t h; cases h
    · intro V ch t h; cases h
  | succ k ih =>
    obtain ⟨ih1, ih2⟩ := ih
    constructor
    · intro V t h
      cases h with
      | node _ _ _ hnT hnb hexp hrw =>
        exact .node _ _ _ hnT hnb (fun n o r hm hn => ih1 _ _ (hexp n o r hm hn))
          (fun R rw h1 h2 => ih2 _ _ _ (hrw R rw h1 h2))
    · intro V ch t h
      cases h with
      | computed _ _ _ rel h1 => exact .computed _ _ _ rel (ih1 _ _ h1)
      | ttu _ _ _ rel crel hall => exact .ttu _ _ _ rel crel (fun n o r hm => ih1 _ _ (hall n o r hm))
      | or _ _ _ cs hall => exact .or _ _ _ cs (fun ch hm => ih2 _ _ _ (hall ch hm))
      | andNil _ _ _ => exact .andNil _ _ _
      | and _ _ _ cs ch hm h1 => exact .and _ _ _ cs ch hm (ih2 _ _ _ h1)
      | invert _ _ _ ch h1 => exact .invert _ _ _ ch (h1.mono_k (Nat.le_succ _))

theorem FaE.mono_k {k k' : Nat} {V : List VKey} {t : Tuple} (h : FaE c T k V t) (hk : k ≤ k') :
    FaE c T k' V t := by
  induction hk with
  | refl => exact h
  | step _ ih => exact (faE_succ _).1 _ _ ih

theorem HFaE.mono_k {k k' : Nat} {V : List VKey} {ch : Child} {t : Tuple} (h : HFaE c T k V ch t)
    (hk : k ≤ k') : HFaE c T k' V ch t := by
  induction hk with
  | refl => exact h
  | step _ ih => exact (faE_succ _).2 _ _ _ ih

/-! ### weakening: a larger avoid set only adds cuts -/

theorem faE_weaken : ∀ k,
    (∀ V V' t, (∀ x, x ∈ V → x ∈ V') → FaE c T k V t → FaE c T k V' t) ∧
    (∀ V V' ch t, (∀ x, x ∈ V → x ∈ V') → HFaE c T k V ch t → HFaE c T k V' ch t) := by
  intro k
  induction k with
  | zero =>
    constructor
    · intro V V' t _ h; cases h
    · intro V V' ch t _ h; cases h
  | succ k ih =>
    obtain ⟨ih1, ih2⟩ := ih
    constructor
    · intro V V' t hsub h
      cases h with
      | node _ _ _ hnT hnb hexp hrw =>
        refine .node _ _ _ hnT hnb (fun n o r hm hn => ?_) (fun R rw h1 h2 => ih2 _ _ _ _ hsub (hrw R rw h1 h2))
        refine ih1 _ _ _ ?_ (hexp n o r hm (fun hin => hn (hsub _ hin)))
        intro x hx
        cases hx with
        | head => exact List.mem_cons_self ..
        | tail _ hx' => exact List.mem_cons_of_mem _ (hsub _ hx')
    · intro V V' ch t hsub h
      cases h with
      | computed _ _ _ rel h1 => exact .computed _ _ _ rel (ih1 _ _ _ hsub h1)
      | ttu _ _ _ rel crel hall => exact .ttu _ _ _ rel crel (fun n o r hm => ih1 _ _ _ hsub (hall n o r hm))
      | or _ _ _ cs hall => exact .or _ _ _ cs (fun ch hm => ih2 _ _ _ _ hsub (hall ch hm))
      | andNil _ _ _ => exact .andNil _ _ _
      | and _ _ _ cs ch hm h1 => exact .and _ _ _ cs ch hm (ih2 _ _ _ _ hsub h1)
      | invert _ _ _ ch h1 => exact .invert _ _ _ ch h1

theorem FaE.mono_V {k : Nat} {V V' : List VKey} {t : Tuple} (h : FaE c T k V t)
    (hV : ∀ x, x ∈ V → x ∈ V') : FaE c T k V' t :=
  (faE_weaken k).1 V V' t hV h

theorem HFaE.mono_V {k : Nat} {V V' : List VKey} {ch : Child} {t : Tuple} (h : HFaE c T k V ch t)
    (hV : ∀ x, x ∈ V → x ∈ V') : HFaE c T k V' ch t :=
  (faE_weaken k).2 V V' ch t hV h

/-! ### cut elimination -/

/-- The cuts at `s` of a refutation are replaced by a refutation of `s` (that may assume `s`). -/
theorem faE_subst (s : VKey) (sub : Subject) (j : Nat) : ∀ k,
    (∀ V1 V2 t, t.sub = sub → (∀ x, x ∈ V1 → x = s ∨ x ∈ V2) →
      FaE c T j (s :: V2) ⟨s.1, s.2.1, s.2.2, sub⟩ → FaE c T k V1 t → FaE c T (k + j) V2 t) ∧
    (∀ V1 V2 ch t, t.sub = sub → (∀ x, x ∈ V1 → x = s ∨ x ∈ V2) →
      FaE c T j (s :: V2) ⟨s.1, s.2.1, s.2.2, sub⟩ → HFaE c T k V1 ch t → HFaE c T (k + j) V2 ch t) := by
  intro k
  induction k with
  | zero =>
    constructor
    · intro V1 V2 t _ _ _ h; cases h
    · intro V1 V2 ch t _ _ _ h; cases h
  | succ k ih =>
    obtain ⟨ih1, ih2⟩ := ih
    have hk : k + 1 + j = (k + j) + 1 := by omega
    constructor
    · intro V1 V2 t hsub hV hd h
      rw [hk]
      cases h with
      | node _ _ _ hnT hnb hexp hrw =>
        refine .node _ _ _ hnT hnb (fun n o r hm hn => ?_) (fun R rw h1 h2 => ih2 _ _ _ _ hsub hV hd (hrw R rw h1 h2))
        by_cases hin : (n, o, r) ∈ V1
        · cases hV _ hin with
          | inl he =>
            have hd' := hd
            rw [← he] at hd'
            rw [hsub]
            exact hd'.mono_k (Nat.le_add_left ..)
          | inr h2 => exact absurd h2 hn
        · refine ih1 ((n, o, r) :: V1) ((n, o, r) :: V2) ⟨n, o, r, t.sub⟩ hsub ?_ ?_ (hexp n o r hm hin)
          · intro x hx
            cases hx with
            | head => exact Or.inr (List.mem_cons_self ..)
            | tail _ hx' =>
              cases hV x hx' with
              | inl he => exact Or.inl he
              | inr h2 => exact Or.inr (List.mem_cons_of_mem _ h2)
          · refine hd.mono_V ?_
            intro x hx
            cases hx with
            | head => exact List.mem_cons_self ..
            | tail _ hx' => exact List.mem_cons_of_mem _ (List.mem_cons_of_mem _ hx')
    · intro V1 V2 ch t hsub hV hd h
      rw [hk]
      cases h with
      | computed _ _ _ rel h1 => exact .computed _ _ _ rel (ih1 _ _ { t with rel := rel } hsub hV hd h1)
      | ttu _ _ _ rel crel hall =>
        exact .ttu _ _ _ rel crel (fun n o r hm => ih1 _ _ ⟨n, o, crel, t.sub⟩ hsub hV hd (hall n o r hm))
      | or _ _ _ cs hall => exact .or _ _ _ cs (fun ch hm => ih2 _ _ _ _ hsub hV hd (hall ch hm))
      | andNil _ _ _ => exact .andNil _ _ _
      | and _ _ _ cs ch hm h1 => exact .and _ _ _ cs ch hm (ih2 _ _ _ _ hsub hV hd h1)
      | invert _ _ _ ch h1 => exact .invert _ _ _ ch (h1.mono_k (Nat.le_add_right ..))

/-! ### dead nodes, extension of the avoid set -/

/-- Node `s` (for subject `sub`) is refuted under the assumptions `V` and `s` itself: what the
    engine establishes for a subject set it has marked, evaluated and found not to be a member. -/
def DeadF (c : Cfg) (T : List Tuple) (sub : Subject) (V : List VKey) (s : VKey) : Prop :=
  ∃ k, FaE c T k (s :: V) ⟨s.1, s.2.1, s.2.2, sub⟩

theorem DeadF.mono_V {sub : Subject} {V V' : List VKey} {s : VKey} (h : DeadF c T sub V s)
    (hV : ∀ x, x ∈ V → x ∈ V') : DeadF c T sub V' s := by
  obtain ⟨k, hk⟩ := h
  refine ⟨k, hk.mono_V ?_⟩
  intro x hx
  cases hx with
  | head => exact List.mem_cons_self ..
  | tail _ hx' => exact List.mem_cons_of_mem _ (hV _ hx')

/-- Eliminating the cuts at a list of nodes that are in `V0` or dead w.r.t. `V0`. -/
theorem faE_elim_list (sub : Subject) (V0 : List VKey) : ∀ (L : List VKey),
    (∀ x, x ∈ L → x ∈ V0 ∨ DeadF c T sub V0 x) →
    (∀ k t, t.sub = sub → FaE c T k (L ++ V0) t → ∃ k', FaE c T k' V0 t) ∧
    (∀ k ch t, t.sub = sub → HFaE c T k (L ++ V0) ch t → ∃ k', HFaE c T k' V0 ch t)
  | [], _ => ⟨fun k _ _ h => ⟨k, h⟩, fun k _ _ _ h => ⟨k, h⟩⟩
  | x :: L, hL => by
    have ih := faE_elim_list sub V0 L (fun y hy => hL y (List.mem_cons_of_mem _ hy))
    have hx := hL x (List.mem_cons_self ..)
    cases hx with
    | inl hin =>
      have hsubset : ∀ y, y ∈ x :: L ++ V0 → y ∈ L ++ V0 := by
        intro y hy
        cases hy with
        | head => exact List.mem_append_right _ hin
        | tail _ hy' => exact hy'
      exact ⟨fun k t hs h => ih.1 k t hs (h.mono_V hsubset), fun k ch t hs h => ih.2 k ch t hs (h.mono_V hsubset)⟩
    | inr hdead =>
      obtain ⟨j, hj⟩ := hdead
      have hd : FaE c T j (x :: (L ++ V0)) ⟨x.1, x.2.1, x.2.2, sub⟩ := by
        refine hj.mono_V ?_
        intro y hy
        cases hy with
        | head => exact List.mem_cons_self ..
        | tail _ hy' => exact List.mem_cons_of_mem _ (List.mem_append_right _ hy')
      have hV : ∀ y, y ∈ x :: L ++ V0 → y = x ∨ y ∈ L ++ V0 := by
        intro y hy
        cases hy with
        | head => exact Or.inl rfl
        | tail _ hy' => exact Or.inr hy'
      exact ⟨fun k t hs h => ih.1 _ t hs ((faE_subst x sub j k).1 _ _ t hs hV hd h),
        fun k ch t hs h => ih.2 _ ch t hs ((faE_subst x sub j k).2 _ _ ch t hs hV hd h)⟩

/-- `V1` extends `V0` by nodes that are dead w.r.t. `V0`. -/
structure ExtF (c : Cfg) (T : List Tuple) (sub : Subject) (V0 V1 : List VKey) : Prop where
  subset : ∀ s, s ∈ V0 → s ∈ V1
  dead : ∀ s, s ∈ V1 → s ∈ V0 ∨ DeadF c T sub V0 s

theorem ExtF.refl (sub : Subject) (V : List VKey) : ExtF c T sub V V :=
  ⟨fun _ h => h, fun _ h => Or.inl h⟩

/-- A refutation that assumes the extended set can be turned into one that assumes the original set. -/
theorem ExtF.faE {sub : Subject} {V0 V1 : List VKey} (h : ExtF c T sub V0 V1) {k : Nat} {t : Tuple}
    (hsub : t.sub = sub) (hf : FaE c T k V1 t) : ∃ k', FaE c T k' V0 t :=
  (faE_elim_list sub V0 V1 h.dead).1 k t hsub (hf.mono_V (fun _ hx => List.mem_append_left _ hx))

theorem ExtF.hfaE {sub : Subject} {V0 V1 : List VKey} (h : ExtF c T sub V0 V1) {k : Nat} {ch : Child}
    {t : Tuple} (hsub : t.sub = sub) (hf : HFaE c T k V1 ch t) : ∃ k', HFaE c T k' V0 ch t :=
  (faE_elim_list sub V0 V1 h.dead).2 k ch t hsub (hf.mono_V (fun _ hx => List.mem_append_left _ hx))

/-- A node that is dead w.r.t. the extended set is dead w.r.t. the original set. -/
theorem ExtF.deadF {sub : Subject} {V0 V1 : List VKey} (h : ExtF c T sub V0 V1) {s : VKey}
    (hd : DeadF c T sub V1 s) : DeadF c T sub V0 s := by
  obtain ⟨k, hk⟩ := hd
  have hL : ∀ x, x ∈ V1 → x ∈ s :: V0 ∨ DeadF c T sub (s :: V0) x := by
    intro x hx
    cases h.dead x hx with
    | inl h0 => exact Or.inl (List.mem_cons_of_mem _ h0)
    | inr hdx => exact Or.inr (hdx.mono_V (fun _ hy => List.mem_cons_of_mem _ hy))
  refine (faE_elim_list sub (s :: V0) V1 hL).1 k _ rfl (hk.mono_V ?_)
  intro x hx
  cases hx with
  | head => exact List.mem_append_right _ (List.mem_cons_self ..)
  | tail _ hx' => exact List.mem_append_left _ hx'

theorem ExtF.trans {sub : Subject} {V0 V1 V2 : List VKey} (h1 : ExtF c T sub V0 V1)
    (h2 : ExtF c T sub V1 V2) : ExtF c T sub V0 V2 where
  subset := fun s hs => h2.subset s (h1.subset s hs)
  dead := fun s hs =>
    match h2.dead s hs with
    | .inl h => h1.dead s h
    | .inr h => .inr (h1.deadF h)

/-- Marking a node that turns out to be dead. -/
theorem ExtF.cons {sub : Subject} {V : List VKey} {s : VKey} (hd : DeadF c T sub V s) :
    ExtF c T sub V (s :: V) where
  subset := fun _ h => List.mem_cons_of_mem _ h
  dead := fun s' hs' => by
    cases hs' with
    | head => exact .inr hd
    | tail _ h => exact .inl h

/-- Membership in the extended set, seen from the original set. -/
theorem ExtF.mem_or_dead {sub : Subject} {V0 V1 : List VKey} (h : ExtF c T sub V0 V1) {s : VKey}
    (hs : s ∈ V1 ∨ DeadF c T sub V1 s) : s ∈ V0 ∨ DeadF c T sub V0 s :=
  match hs with
  | .inl h1 => h.dead s h1
  | .inr h1 => .inr (h.deadF h1)

/-! ### conversion to the stratified semantics -/

/-- An engine-shaped refutation whose assumptions are all on the current positive path (or the node
    itself) is a refutation of the stratified semantics. -/
theorem faE_to_faN : ∀ k,
    (∀ V A t, (∀ x, x ∈ V → x ∈ A ∨ x = nodeKey t) → FaE c T k V t → FaN c T (k+1) A t) ∧
    (∀ V A ch t, (∀ x, x ∈ V → x ∈ A) → HFaE c T k V ch t → HFaN c T (k+1) A ch t) := by
  intro k
  induction k with
  | zero =>
    constructor
    · intro V A t _ h; cases h
    · intro V A ch t _ h; cases h
  | succ k ih =>
    obtain ⟨ih1, ih2⟩ := ih
    constructor
    · intro V A t hV h
      by_cases hin : nodeKey t ∈ A
      · exact .cut _ _ _ hin
      · have hV' : ∀ x, x ∈ V → x ∈ nodeKey t :: A := by
          intro x hx
          cases hV x hx with
          | inl h1 => exact List.mem_cons_of_mem _ h1
          | inr h1 => rw [h1]; exact List.mem_cons_self ..
        cases h with
        | node _ _ _ hnT hnb hexp hrw =>
          refine .node _ _ _ hin hnT hnb (fun n o r hm => ?_) (fun R rw h1 h2 => ih2 _ _ _ _ hV' (hrw R rw h1 h2))
          by_cases hs : (n, o, r) ∈ nodeKey t :: A
          · exact .cut _ _ _ hs
          · refine ih1 ((n, o, r) :: V) _ ⟨n, o, r, t.sub⟩ ?_ (hexp n o r hm (fun hv => hs (hV' _ hv)))
            intro x hx
            cases hx with
            | head => exact Or.inr rfl
            | tail _ hx' => exact Or.inl (hV' x hx')
    · intro V A ch t hV h
      cases h with
      | computed _ _ _ rel h1 =>
        exact .computed _ _ _ rel (ih1 _ _ { t with rel := rel } (fun x hx => Or.inl (hV x hx)) h1)
      | ttu _ _ _ rel crel hall =>
        exact .ttu _ _ _ rel crel (fun n o r hm =>
          ih1 _ _ ⟨n, o, crel, t.sub⟩ (fun x hx => Or.inl (hV x hx)) (hall n o r hm))
      | or _ _ _ cs hall => exact .or _ _ _ cs (fun ch hm => ih2 _ _ _ _ hV (hall ch hm))
      | andNil _ _ _ => exact .andNil _ _ _
      | and _ _ _ cs ch hm h1 => exact .and _ _ _ cs ch hm (ih2 _ _ _ _ hV h1)
      | invert _ _ _ ch h1 => exact .invert _ _ _ ch (h1.mono_k (Nat.le_succ _))

/-- A closed engine-shaped refutation is a closed refutation of the stratified semantics. -/
theorem FaE.toFaN {k : Nat} {t : Tuple} (h : FaE c T k [] t) : FaN c T (k+1) [] t :=
  (faE_to_faN k).1 [] [] t (fun _ hx => by cases hx) h

theorem HFaE.toHFaN {k : Nat} {ch : Child} {t : Tuple} (h : HFaE c T k [] ch t) : HFaN c T (k+1) [] ch t :=
  (faE_to_faN k).2 [] [] ch t (fun _ hx => by cases hx) h

theorem fa_of_faE {t : Tuple} (h : ∃ k, FaE c T k [] t) : Fa c T t := by
  obtain ⟨k, hk⟩ := h
  exact ⟨k+1, hk.toFaN⟩

/-! ### strict mode -/

/-- Nobody is a member of a subject set with the empty relation (in a conforming store): refuted. -/
theorem faE_empty_rel (h : conforms c T = true) (V : List VKey) (n : String) (o : Nat) (sub : Subject) :
    FaE c T 1 V ⟨n, o, "", sub⟩ := by
  refine .node 0 V _ ?_ ?_ ?_ ?_
  · intro ht
    obtain ⟨_, _, _, hne, _⟩ := conformsTuple_lookup (conformsTuple_of_mem h ht)
    exact hne rfl
  · unfold astRelationFor
    simp
  · intro n' o' r' ht _
    obtain ⟨_, _, _, hne, _⟩ := conformsTuple_lookup (conformsTuple_of_mem h ht)
    exact absurd rfl hne
  · intro R rw hR _
    unfold astRelationFor at hR
    simp at hR

end Keto
