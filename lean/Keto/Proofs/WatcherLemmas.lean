/-
  Helper lemmas for C19 (Keto/Props/C19.lean) over the watcher models
  Keto/Model/Watcher.lean.
-/
import Keto.Model.Watcher

namespace Keto.W

/-! ### association lists -/

theorem get_put_same {α} (k : String) (v : α) (l : List (String × α)) :
    get k (put k v l) = some v := by
  induction l with
  | nil => simp [put, get]
  | cons x rest ih =>
    obtain ⟨k', v'⟩ := x
    by_cases h : k' = k
    · simp [put, get, h]
    · simp [put, get, h, ih]

theorem get_put_other {α} {k k2 : String} (v : α) (l : List (String × α)) (h : k ≠ k2) :
    get k2 (put k v l) = get k2 l := by
  induction l with
  | nil => simp [put, get, h]
  | cons x rest ih =>
    obtain ⟨k', v'⟩ := x
    by_cases h1 : k' = k
    · subst h1
      simp [put, get, h]
    · by_cases h2 : k' = k2
      · subst h2
        simp [put, get, h1]
      · simp [put, get, h1, h2, ih]

theorem mem_put {α} {k : String} {v : α} {l : List (String × α)} {x : String × α}
    (h : x ∈ put k v l) : x = (k, v) ∨ x ∈ l := by
  induction l with
  | nil => simp [put] at h; exact Or.inl h
  | cons y rest ih =>
    obtain ⟨k', v'⟩ := y
    simp only [put] at h
    split at h
    · rcases List.mem_cons.mp h with h | h
      · exact Or.inl h
      · exact Or.inr (List.mem_cons_of_mem _ h)
    · rcases List.mem_cons.mp h with h | h
      · exact Or.inr (h ▸ List.mem_cons_self)
      · rcases ih h with h | h
        · exact Or.inl h
        · exact Or.inr (List.mem_cons_of_mem _ h)

theorem mem_del {α} {k : String} {l : List (String × α)} {x : String × α}
    (h : x ∈ del k l) : x ∈ l := by
  induction l with
  | nil => simp [del] at h
  | cons y rest ih =>
    obtain ⟨k', v'⟩ := y
    simp only [del] at h
    split at h
    · exact List.mem_cons_of_mem _ h
    · rcases List.mem_cons.mp h with h | h
      · exact h ▸ List.mem_cons_self
      · exact List.mem_cons_of_mem _ (ih h)

/-- Keys of an association list. -/
def keys {α} (l : List (String × α)) : List String := l.map (·.1)

theorem mem_keys_put {α} {k a : String} {v : α} {l : List (String × α)}
    (h : a ∈ keys (put k v l)) : a = k ∨ a ∈ keys l := by
  simp only [keys, List.mem_map] at h ⊢
  obtain ⟨x, hx, rfl⟩ := h
  rcases mem_put hx with h | h
  · exact Or.inl (by rw [h])
  · exact Or.inr ⟨x, h, rfl⟩

theorem mem_keys_del {α} {k a : String} {l : List (String × α)}
    (h : a ∈ keys (del k l)) : a ∈ keys l := by
  simp only [keys, List.mem_map] at h ⊢
  obtain ⟨x, hx, rfl⟩ := h
  exact ⟨x, mem_del hx, rfl⟩

theorem keys_nodup_put {α} (k : String) (v : α) (l : List (String × α)) (h : (keys l).Nodup) :
    (keys (put k v l)).Nodup := by
  induction l with
  | nil => simp [put, keys]
  | cons y rest ih =>
    obtain ⟨k', v'⟩ := y
    have h' : k' ∉ keys rest ∧ (keys rest).Nodup := by simpa [keys] using h
    by_cases hk : k' = k
    · subst hk
      simpa [put, keys] using h
    · have : keys (put k v ((k', v') :: rest)) = k' :: keys (put k v rest) := by
        simp [put, hk, keys]
      rw [this, List.nodup_cons]
      refine ⟨?_, ih h'.2⟩
      intro hmem
      rcases mem_keys_put hmem with h1 | h1
      · exact hk h1
      · exact h'.1 h1

theorem keys_nodup_del {α} (k : String) (l : List (String × α)) (h : (keys l).Nodup) :
    (keys (del k l)).Nodup := by
  induction l with
  | nil => simp [del, keys]
  | cons y rest ih =>
    obtain ⟨k', v'⟩ := y
    have h' : k' ∉ keys rest ∧ (keys rest).Nodup := by simpa [keys] using h
    by_cases hk : k' = k
    · subst hk
      simpa [del, keys] using h'.2
    · have : keys (del k ((k', v') :: rest)) = k' :: keys (del k rest) := by
        simp [del, hk, keys]
      rw [this, List.nodup_cons]
      exact ⟨fun hmem => h'.1 (mem_keys_del hmem), ih h'.2⟩

/-! ### histories -/

theorem lrun_snoc (parse : Parse) (es : List Ev) (e : Ev) :
    lrun parse (es ++ [e]) = lstep parse (lrun parse es) e := by
  simp [lrun, List.foldl_append]

theorem orun_snoc (parse : Parse) (es : List Ev) (e : Ev) :
    orun parse (es ++ [e]) = ostep parse (orun parse es) e := by
  simp [orun, List.foldl_append]

/-- What one event contributes to `lastValid` of path `p`. -/
def evValid (parse : Parse) (p : String) : Ev → Option (List String)
  | .change p' c => if p' == p then parse c else none
  | .remove _ => none

theorem lastValid_cons (parse : Parse) (p : String) (e : Ev) (es : List Ev) :
    lastValid parse p (e :: es) =
      match lastValid parse p es with
      | some nss => some nss
      | none => evValid parse p e := by
  cases e <;> cases h : lastValid parse p es <;> simp [lastValid, evValid, h]

theorem lastValid_append (parse : Parse) (p : String) (es fs : List Ev) :
    lastValid parse p (es ++ fs) =
      match lastValid parse p fs with
      | some nss => some nss
      | none => lastValid parse p es := by
  induction es with
  | nil => cases h : lastValid parse p fs <;> simp [lastValid, h]
  | cons e es ih =>
    rw [List.cons_append, lastValid_cons, lastValid_cons, ih]
    cases lastValid parse p fs <;> rfl

/-- The snoc equation matching `lrun_snoc`: the newest event wins if it is a valid version of `p`. -/
theorem lastValid_snoc (parse : Parse) (p : String) (es : List Ev) (e : Ev) :
    lastValid parse p (es ++ [e]) =
      match evValid parse p e with
      | some nss => some nss
      | none => lastValid parse p es := by
  rw [lastValid_append]
  have : lastValid parse p [e] = evValid parse p e := by
    rw [lastValid_cons]; rfl
  rw [this]

theorem noRemove_append_left {es fs : List Ev} (h : noRemove (es ++ fs) = true) :
    noRemove es = true := by
  induction es with
  | nil => rfl
  | cons e es ih =>
    cases e with
    | change p c => simp only [List.cons_append, noRemove] at h ⊢; exact ih h
    | remove p => simp [noRemove] at h

/-! ### legacy watcher -/

/-- One change event on path `p'`, seen at path `p`. -/
theorem lvisible_lstep_change (parse : Parse) (s : LState) (p' : String) (c : Content) (p : String) :
    lvisible (lstep parse s (.change p' c)) p =
      match evValid parse p (.change p' c) with
      | some nss => some nss
      | none => lvisible s p := by
  by_cases hp : p' = p
  · subst hp
    simp only [lstep, evValid, beq_self_eq_true, if_true]
    cases hparse : parse c with
    | some nss => simp [lvisible, get_put_same]
    | none =>
      simp only
      cases hget : get p' s with
      | some old => simp [lvisible, get_put_same, hget]
      | none => simp [lvisible, get_put_same, hget]
  · have hb : (p' == p) = false := by simp [hp]
    simp only [lstep, evValid, hb]
    cases hparse : parse c with
    | some nss => simp [lvisible, get_put_other _ _ hp]
    | none =>
      cases hget : get p' s with
      | some old => simp [lvisible, get_put_other _ _ hp]
      | none => simp [lvisible, get_put_other _ _ hp]

/-- Keep-last-good from ANY state: after a remove-free history the visible namespaces of `p` are those of
    its last valid version in the history, or what was visible before if there was none. -/
theorem lvisible_foldl (parse : Parse) (s : LState) (es : List Ev) (p : String)
    (h : noRemove es = true) :
    lvisible (es.foldl (lstep parse) s) p =
      match lastValid parse p es with
      | some nss => some nss
      | none => lvisible s p := by
  induction es generalizing s with
  | nil => simp [lastValid]
  | cons e es ih =>
    cases e with
    | remove q => simp [noRemove] at h
    | change p' c =>
      simp only [noRemove] at h
      rw [List.foldl_cons, ih _ h, lastValid_cons]
      cases lastValid parse p es with
      | some nss => rfl
      | none => exact lvisible_lstep_change parse s p' c p

/-! ### OPL watcher -/

/-- The file table after one event. -/
def filesStep (fs : List (String × Content)) : Ev → List (String × Content)
  | .change p c => put p c fs
  | .remove p => del p fs

/-- The file table after a history. -/
def filesRun (fs : List (String × Content)) (es : List Ev) : List (String × Content) :=
  es.foldl filesStep fs

theorem ostep_files (parse : Parse) (s : OState) (e : Ev) :
    (ostep parse s e).files = filesStep s.files e := by
  cases e <;> simp only [ostep, filesStep] <;> split <;> rfl

theorem ostep_visible (parse : Parse) (s : OState) (e : Ev) :
    (ostep parse s e).visible = (parseAll parse (filesStep s.files e)).getD s.visible := by
  cases e <;> simp only [ostep, filesStep] <;> split <;> simp [*]

theorem orun_files_foldl (parse : Parse) (s : OState) (es : List Ev) :
    (es.foldl (ostep parse) s).files = filesRun s.files es := by
  induction es generalizing s with
  | nil => rfl
  | cons e es ih => rw [List.foldl_cons, ih, ostep_files]; rfl

/-- `parseAll` of the file table at the LAST non-empty prefix of the history (starting from table `fs`)
    at which every file parses; `none` if there is no such prefix. -/
def lastAllValidFrom (parse : Parse) (fs : List (String × Content)) :
    List Ev → Option (List (String × List String))
  | [] => none
  | e :: es =>
    match lastAllValidFrom parse (filesStep fs e) es with
    | some v => some v
    | none => parseAll parse (filesStep fs e)

/-- From the empty file table (the watcher's initial state). -/
def lastAllValid (parse : Parse) (es : List Ev) : Option (List (String × List String)) :=
  lastAllValidFrom parse [] es

theorem ovisible_foldl (parse : Parse) (s : OState) (es : List Ev) :
    (es.foldl (ostep parse) s).visible = (lastAllValidFrom parse s.files es).getD s.visible := by
  induction es generalizing s with
  | nil => rfl
  | cons e es ih =>
    rw [List.foldl_cons, ih, ostep_files, ostep_visible]
    simp only [lastAllValidFrom]
    cases lastAllValidFrom parse (filesStep s.files e) es with
    | some v => rfl
    | none => rfl

/-- `lastAllValidFrom` is what its doc comment says (1): `none` iff no non-empty prefix parses. -/
theorem lastAllValidFrom_eq_none (parse : Parse) (fs : List (String × Content)) (es : List Ev) :
    lastAllValidFrom parse fs es = none ↔
      ∀ pre suf, es = pre ++ suf → pre ≠ [] → parseAll parse (filesRun fs pre) = none := by
  induction es generalizing fs with
  | nil =>
    simp only [lastAllValidFrom, true_iff]
    intro pre suf h hne
    have : pre = [] := (List.append_eq_nil_iff.mp h.symm).1
    exact absurd this hne
  | cons e es ih =>
    simp only [lastAllValidFrom]
    constructor
    · intro h pre suf hsplit hne
      cases pre with
      | nil => exact absurd rfl hne
      | cons e' pre' =>
        simp only [List.cons_append, List.cons.injEq] at hsplit
        obtain ⟨rfl, hrest⟩ := hsplit
        cases hrec : lastAllValidFrom parse (filesStep fs e) es with
        | some v => rw [hrec] at h; cases h
        | none =>
          rw [hrec] at h
          simp only at h
          cases pre' with
          | nil => exact h
          | cons e'' pre'' =>
            exact (ih (filesStep fs e)).mp hrec (e'' :: pre'') suf hrest (by simp)
    · intro h
      have hrec : lastAllValidFrom parse (filesStep fs e) es = none := by
        apply (ih (filesStep fs e)).mpr
        intro pre suf hsplit hne
        exact h (e :: pre) suf (by rw [hsplit]; rfl) (by simp)
      rw [hrec]
      exact h [e] es rfl (by simp)

/-- (2): `some v` iff `v` is `parseAll` of the table at a non-empty prefix and no longer prefix parses. -/
theorem lastAllValidFrom_eq_some (parse : Parse) (fs : List (String × Content)) (es : List Ev)
    (v : List (String × List String)) :
    lastAllValidFrom parse fs es = some v ↔
      ∃ pre suf, es = pre ++ suf ∧ pre ≠ [] ∧ parseAll parse (filesRun fs pre) = some v ∧
        lastAllValidFrom parse (filesRun fs pre) suf = none := by
  induction es generalizing fs with
  | nil =>
    simp only [lastAllValidFrom]
    constructor
    · intro h; cases h
    · rintro ⟨pre, suf, h, hne, _⟩
      exact absurd (List.append_eq_nil_iff.mp h.symm).1 hne
  | cons e es ih =>
    simp only [lastAllValidFrom]
    constructor
    · intro h
      cases hrec : lastAllValidFrom parse (filesStep fs e) es with
      | some w =>
        rw [hrec] at h
        simp only [Option.some.injEq] at h
        subst h
        obtain ⟨pre, suf, hsplit, _, hp, hn⟩ := (ih (filesStep fs e)).mp hrec
        exact ⟨e :: pre, suf, by rw [hsplit]; rfl, by simp, hp, hn⟩
      | none =>
        rw [hrec] at h
        exact ⟨[e], es, rfl, by simp, h, hrec⟩
    · rintro ⟨pre, suf, hsplit, hne, hp, hn⟩
      cases pre with
      | nil => exact absurd rfl hne
      | cons e' pre' =>
        simp only [List.cons_append, List.cons.injEq] at hsplit
        obtain ⟨rfl, hrest⟩ := hsplit
        cases pre' with
        | nil =>
          simp only [List.nil_append] at hrest
          subst hrest
          have hn' : lastAllValidFrom parse (filesStep fs e) es = none := hn
          rw [hn']
          exact hp
        | cons e'' pre'' =>
          have : lastAllValidFrom parse (filesStep fs e) es = some v :=
            (ih (filesStep fs e)).mpr ⟨e'' :: pre'', suf, hrest, by simp, hp, hn⟩
          rw [this]

/-- `parseAll` keeps the paths and gives every file the namespaces of its own content. -/
theorem parseAll_keys {parse : Parse} {fs : List (String × Content)}
    {vis : List (String × List String)} (h : parseAll parse fs = some vis) : keys vis = keys fs := by
  induction fs generalizing vis with
  | nil => simp [parseAll] at h; subst h; rfl
  | cons x rest ih =>
    obtain ⟨p, c⟩ := x
    simp only [parseAll] at h
    split at h
    · rename_i nss more _ hmore
      simp only [Option.some.injEq] at h
      subst h
      simp only [keys, List.map_cons, List.cons.injEq, true_and]
      exact ih hmore
    · cases h

theorem parseAll_mem {parse : Parse} {fs : List (String × Content)}
    {vis : List (String × List String)} (h : parseAll parse fs = some vis)
    {p : String} {nss : List String} (hm : (p, nss) ∈ vis) :
    ∃ c, (p, c) ∈ fs ∧ parse c = some nss := by
  induction fs generalizing vis with
  | nil => simp [parseAll] at h; subst h; cases hm
  | cons x rest ih =>
    obtain ⟨p', c'⟩ := x
    simp only [parseAll] at h
    split at h
    · rename_i nss' more hparse hmore
      simp only [Option.some.injEq] at h
      subst h
      rcases List.mem_cons.mp hm with heq | hm'
      · simp only [Prod.mk.injEq] at heq
        obtain ⟨rfl, rfl⟩ := heq
        exact ⟨c', List.mem_cons_self, hparse⟩
      · obtain ⟨c, hc, hpc⟩ := ih hmore hm'
        exact ⟨c, List.mem_cons_of_mem _ hc, hpc⟩
    · cases h

/-- `parseAll` of a table in which every file parses, looked up by path. -/
theorem parseAll_get {parse : Parse} {fs : List (String × Content)}
    {vis : List (String × List String)} (h : parseAll parse fs = some vis) (p : String) :
    get p vis = (get p fs).bind parse := by
  induction fs generalizing vis with
  | nil => simp [parseAll] at h; subst h; rfl
  | cons x rest ih =>
    obtain ⟨p', c'⟩ := x
    simp only [parseAll] at h
    split at h
    · rename_i nss' more hparse hmore
      simp only [Option.some.injEq] at h
      subst h
      by_cases hp : p' = p
      · simp [get, hp, hparse]
      · simp [get, hp, ih hmore]
    · cases h

/-- Invariant for `C19_opl_never_partial`: every file in the table holds a content written to it in the
    history so far, every visible entry is the parse of such a content. -/
structure OInv (parse : Parse) (hist : List Ev) (s : OState) : Prop where
  files : ∀ p c, (p, c) ∈ s.files → Ev.change p c ∈ hist
  visible : ∀ p nss, (p, nss) ∈ s.visible → ∃ c, parse c = some nss ∧ Ev.change p c ∈ hist
  filesNodup : (keys s.files).Nodup
  visibleNodup : (keys s.visible).Nodup

theorem OInv_init (parse : Parse) : OInv parse [] {} :=
  ⟨fun _ _ h => (by simp at h), fun _ _ h => (by simp at h), List.nodup_nil, List.nodup_nil⟩

theorem OInv_step {parse : Parse} {hist : List Ev} {s : OState} (h : OInv parse hist s) (e : Ev) :
    OInv parse (hist ++ [e]) (ostep parse s e) := by
  have hfiles : ∀ p c, (p, c) ∈ filesStep s.files e → Ev.change p c ∈ hist ++ [e] := by
    intro p c hm
    cases e with
    | change p' c' =>
      rcases mem_put hm with heq | hold
      · simp only [Prod.mk.injEq] at heq
        obtain ⟨rfl, rfl⟩ := heq
        simp
      · exact List.mem_append_left _ (h.files p c hold)
    | remove p' => exact List.mem_append_left _ (h.files p c (mem_del hm))
  have hnodup : (keys (filesStep s.files e)).Nodup := by
    cases e with
    | change p' c' => exact keys_nodup_put p' c' s.files h.filesNodup
    | remove p' => exact keys_nodup_del p' s.files h.filesNodup
  refine ⟨?_, ?_, ?_, ?_⟩
  · rw [ostep_files]; exact hfiles
  · rw [ostep_visible]
    intro p nss hm
    cases hpa : parseAll parse (filesStep s.files e) with
    | none =>
      rw [hpa] at hm
      obtain ⟨c, hc, hin⟩ := h.visible p nss hm
      exact ⟨c, hc, List.mem_append_left _ hin⟩
    | some vis =>
      rw [hpa] at hm
      obtain ⟨c, hc, hpc⟩ := parseAll_mem hpa hm
      exact ⟨c, hpc, hfiles p c hc⟩
  · rw [ostep_files]; exact hnodup
  · rw [ostep_visible]
    cases hpa : parseAll parse (filesStep s.files e) with
    | none => exact h.visibleNodup
    | some vis =>
      simp only [Option.getD_some]
      rw [parseAll_keys hpa]
      exact hnodup

theorem OInv_foldl {parse : Parse} {hist : List Ev} {s : OState} (h : OInv parse hist s)
    (es : List Ev) : OInv parse (hist ++ es) (es.foldl (ostep parse) s) := by
  induction es generalizing hist s with
  | nil => simpa using h
  | cons e es ih =>
    have := ih (OInv_step h e)
    simpa [List.append_assoc] using this

theorem OInv_orun (parse : Parse) (es : List Ev) : OInv parse es (orun parse es) := by
  have := OInv_foldl (OInv_init parse) es
  simpa [orun] using this

/-- Single watched file: from a table that is empty or holds only `p`, a history of changes of `p`. -/
theorem ovisible_foldl_single (parse : Parse) (p : String) (s : OState) (es : List Ev)
    (hs : s.files = [] ∨ ∃ c0, s.files = [(p, c0)])
    (hes : ∀ e ∈ es, ∃ c, e = Ev.change p c) :
    (es.foldl (ostep parse) s).visible =
      match lastValid parse p es with
      | some nss => [(p, nss)]
      | none => s.visible := by
  induction es generalizing s with
  | nil => simp [lastValid]
  | cons e es ih =>
    obtain ⟨c, rfl⟩ := hes e List.mem_cons_self
    have hfs : filesStep s.files (.change p c) = [(p, c)] := by
      rcases hs with h | ⟨c0, h⟩ <;> simp [filesStep, h, put]
    have hs' : (ostep parse s (.change p c)).files = [] ∨
        ∃ c0, (ostep parse s (.change p c)).files = [(p, c0)] := by
      right; exact ⟨c, by rw [ostep_files, hfs]⟩
    rw [List.foldl_cons, ih _ hs' (fun e he => hes e (List.mem_cons_of_mem _ he)), lastValid_cons]
    cases lastValid parse p es with
    | some nss => rfl
    | none =>
      simp only [evValid, beq_self_eq_true, if_true]
      rw [ostep_visible, hfs]
      cases hparse : parse c with
      | some nss => simp [parseAll, hparse]
      | none => simp [parseAll, hparse]

end Keto.W
