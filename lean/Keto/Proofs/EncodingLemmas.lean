/-
  Helper lemmas for C18 (relationship encodings): `cut`, `contains`, parenthesis
  trimming, and the two directions of the string form.
-/
import Keto.Model.Encoding

namespace Keto.Enc

/-! ### contains / cut -/

theorem contains_append (sep : Char) (a b : Str) :
    contains sep (a ++ b) = (contains sep a || contains sep b) := by
  induction a with
  | nil => simp [contains]
  | cons c cs ih => simp [contains, ih, Bool.or_assoc]

theorem contains_cons (sep c : Char) (s : Str) :
    contains sep (c :: s) = (c == sep || contains sep s) := rfl

theorem contains_sep_cons (sep : Char) (s : Str) : contains sep (sep :: s) = true := by
  simp [contains]

theorem cut_append {sep : Char} {a : Str} (b : Str) (h : contains sep a = false) :
    cut sep (a ++ sep :: b) = some (a, b) := by
  induction a with
  | nil => simp [cut]
  | cons c cs ih =>
    simp only [contains, Bool.or_eq_false_iff, beq_eq_false_iff_ne, ne_eq] at h
    simp [cut, h.1, ih h.2]

theorem cut_none {sep : Char} {s : Str} (h : contains sep s = false) : cut sep s = none := by
  induction s with
  | nil => rfl
  | cons c cs ih =>
    simp only [contains, Bool.or_eq_false_iff, beq_eq_false_iff_ne, ne_eq] at h
    simp [cut, h.1, ih h.2]

theorem cut_some {sep : Char} {s a b : Str} (h : cut sep s = some (a, b)) :
    contains sep a = false ∧ s = a ++ sep :: b := by
  induction s generalizing a with
  | nil => simp [cut] at h
  | cons c cs ih =>
    unfold cut at h
    by_cases hc : c = sep
    · simp only [hc, if_true, Option.some.injEq, Prod.mk.injEq] at h
      obtain ⟨rfl, rfl⟩ := h
      simp [contains, hc]
    · simp only [hc, if_false] at h
      cases hr : cut sep cs with
      | none => simp [hr] at h
      | some p =>
        obtain ⟨a', b'⟩ := p
        simp only [hr, Option.some.injEq, Prod.mk.injEq] at h
        obtain ⟨rfl, rfl⟩ := h
        have := ih hr
        refine ⟨?_, ?_⟩
        · simp [contains, hc, this.1]
        · simp [this.2]

theorem cut_eq_none {sep : Char} {s : Str} (h : cut sep s = none) : contains sep s = false := by
  induction s with
  | nil => rfl
  | cons c cs ih =>
    unfold cut at h
    by_cases hc : c = sep
    · simp [hc] at h
    · simp only [hc, if_false] at h
      cases hr : cut sep cs with
      | none => simp [contains, hc, ih hr]
      | some p => obtain ⟨a', b'⟩ := p; simp [hr] at h

/-! ### parentheses -/

theorem endsParen_cons (c : Char) (s : Str) :
    endsParen (c :: s) = if s = [] then isParen c else endsParen s := by
  cases s <;> simp [endsParen]

theorem endsParen_append_cons (a : Str) (c : Char) (b : Str) :
    endsParen (a ++ c :: b) = endsParen (c :: b) := by
  induction a with
  | nil => rfl
  | cons d ds ih =>
    have : ds ++ c :: b ≠ [] := by simp
    simp [endsParen_cons, this, ih]

theorem startsParen_append {a : Str} (b : Str) (h : a ≠ []) :
    startsParen (a ++ b) = startsParen a := by
  cases a with
  | nil => exact absurd rfl h
  | cons c cs => rfl

theorem trimLeft_id {s : Str} (h : startsParen s = false) : trimLeft s = s := by
  cases s with
  | nil => rfl
  | cons c cs => simp only [startsParen] at h; simp [trimLeft, h]

theorem trimRight_id {s : Str} (h : endsParen s = false) : trimRight s = s := by
  induction s with
  | nil => rfl
  | cons c cs ih =>
    cases cs with
    | nil => simp only [endsParen] at h; simp [trimRight, h]
    | cons d ds =>
      simp only [endsParen] at h
      have := ih h
      simp only [trimRight] at this ⊢
      rw [this]

theorem trimParens_id {s : Str} (h1 : startsParen s = false) (h2 : endsParen s = false) :
    trimParens s = s := by
  unfold trimParens
  rw [trimLeft_id h1, trimRight_id h2]

theorem startsParen_trimLeft (s : Str) : startsParen (trimLeft s) = false := by
  induction s with
  | nil => rfl
  | cons c cs ih =>
    unfold trimLeft
    by_cases hc : isParen c = true
    · simp [hc, ih]
    · simp only [hc]; simpa [startsParen] using hc

theorem endsParen_trimRight (s : Str) : endsParen (trimRight s) = false := by
  induction s with
  | nil => rfl
  | cons c cs ih =>
    unfold trimRight
    cases hr : trimRight cs with
    | nil =>
      by_cases hc : isParen c = true
      · simp [hc, endsParen]
      · simp only [hc]; simpa [endsParen] using hc
    | cons d ds =>
      rw [hr] at ih
      simpa [endsParen] using ih

theorem startsParen_trimRight {s : Str} (h : startsParen s = false) :
    startsParen (trimRight s) = false := by
  cases s with
  | nil => rfl
  | cons c cs =>
    simp only [startsParen] at h
    unfold trimRight
    cases hr : trimRight cs with
    | nil => simp [h, startsParen]
    | cons d ds => simp [startsParen, h]

theorem startsParen_trimParens (s : Str) : startsParen (trimParens s) = false :=
  startsParen_trimRight (startsParen_trimLeft s)

theorem endsParen_trimParens (s : Str) : endsParen (trimParens s) = false :=
  endsParen_trimRight _

/-! ### subject sets -/

theorem isParen_colon : isParen ':' = false := by decide
theorem isParen_hash : isParen '#' = false := by decide

/-- The printed subject set neither starts nor ends with a parenthesis, contains a colon
    and parses back, on the subject-set domain. -/
theorem SubjectSet.toStr_facts (ss : SubjectSet) (h : DomSubjectSet ss = true) :
    startsParen ss.toStr = false ∧ endsParen ss.toStr = false ∧
    contains ':' ss.toStr = true ∧ SubjectSet.fromStr ss.toStr = .ok ss := by
  obtain ⟨ns, obj, rel⟩ := ss
  simp only [DomSubjectSet, Bool.and_eq_true, Bool.not_eq_true'] at h
  obtain ⟨⟨⟨⟨h1, h2⟩, h3⟩, h4⟩, h5⟩ := h
  have hstart : ∀ rest : Str, startsParen (ns ++ ':' :: rest) = false := by
    intro rest
    cases ns with
    | nil => simp [startsParen, isParen_colon]
    | cons c cs => simpa [startsParen] using h3
  have hcolon : ∀ rest : Str, contains ':' (ns ++ ':' :: rest) = true := by
    intro rest; simp [contains_append, contains_sep_cons]
  by_cases hr : rel = []
  · subst hr
    simp only [if_true, Bool.not_eq_true'] at h5
    have hno : contains '#' (ns ++ ':' :: obj) = false := by
      simp [contains_append, contains_cons, h2, h4]
    refine ⟨by simpa [SubjectSet.toStr] using hstart obj, ?_, by simpa [SubjectSet.toStr] using hcolon obj, ?_⟩
    · simp only [SubjectSet.toStr, if_true]
      rw [endsParen_append_cons, endsParen_cons]
      split
      · exact isParen_colon
      · exact h5
    · simp only [SubjectSet.toStr, if_true, SubjectSet.fromStr]
      rw [cut_none hno]
      simp only
      rw [cut_append obj h1]
  · simp only [hr, if_false, Bool.not_eq_true'] at h5
    have hno : contains '#' (ns ++ ':' :: obj) = false := by
      simp [contains_append, contains_cons, h2, h4]
    have hshape : ns ++ ':' :: (obj ++ '#' :: rel) = (ns ++ ':' :: obj) ++ '#' :: rel := by simp
    refine ⟨by simpa [SubjectSet.toStr, hr] using hstart _, ?_, by simpa [SubjectSet.toStr, hr] using hcolon _, ?_⟩
    · simp only [SubjectSet.toStr, hr, if_false]
      rw [hshape, endsParen_append_cons, endsParen_cons]
      simp [hr, h5]
    · simp only [SubjectSet.toStr, hr, if_false, SubjectSet.fromStr]
      rw [hshape, cut_append rel hno]
      simp only
      rw [cut_append obj h1]

/-- What `SubjectSet.fromStr` returns on a string without leading / trailing parentheses is
    in the subject-set domain, unless it is in the trim class (`…:obj)#`). -/
theorem SubjectSet.fromStr_facts {s : Str} {ss : SubjectSet}
    (hs : startsParen s = false) (he : endsParen s = false)
    (h : SubjectSet.fromStr s = .ok ss) :
    DomSubjectSet ss = true ∨ (ss.rel = [] ∧ endsParen ss.obj = true) := by
  unfold SubjectSet.fromStr at h
  cases hc : cut '#' s with
  | none =>
    simp only [hc] at h
    have hno := cut_eq_none hc
    cases hc2 : cut ':' s with
    | none => simp [hc2] at h
    | some p =>
      obtain ⟨ns, obj⟩ := p
      simp only [hc2, Res.ok.injEq] at h
      subst h
      obtain ⟨hns, rfl⟩ := cut_some hc2
      simp only [contains_append, contains_cons, Bool.or_eq_false_iff] at hno
      left
      have h3 : startsParen ns = false := by
        cases ns with
        | nil => rfl
        | cons c cs => simpa [startsParen] using hs
      have h5 : endsParen obj = false := by
        rw [endsParen_append_cons, endsParen_cons] at he
        split at he
        · next h0 => subst h0; rfl
        · exact he
      simp [DomSubjectSet, hns, hno.1, hno.2.2, h3, h5]
  | some p =>
    obtain ⟨a, b⟩ := p
    simp only [hc] at h
    obtain ⟨hna, rfl⟩ := cut_some hc
    cases hc2 : cut ':' a with
    | none => simp [hc2] at h
    | some p =>
      obtain ⟨ns, obj⟩ := p
      simp only [hc2, Res.ok.injEq] at h
      subst h
      obtain ⟨hns, rfl⟩ := cut_some hc2
      simp only [contains_append, contains_cons, Bool.or_eq_false_iff] at hna
      have h3 : startsParen ns = false := by
        cases ns with
        | nil => rfl
        | cons c cs => simpa [startsParen] using hs
      rw [endsParen_append_cons, endsParen_cons] at he
      by_cases hb : b = []
      · subst hb
        cases hobj : endsParen obj with
        | true => right; exact ⟨rfl, rfl⟩
        | false => left; simp [DomSubjectSet, hns, hna.1, hna.2.2, h3, hobj]
      · simp only [hb, if_false] at he
        left
        simp [DomSubjectSet, hns, hna.1, hna.2.2, h3, hb, he]

/-! ### tuples -/

theorem RelationTuple.fromStr_toStr_of_subject (t : RelationTuple)
    (h1 : contains ':' t.ns = false) (h2 : contains '#' t.obj = false)
    (h3 : contains '@' t.rel = false) :
    RelationTuple.fromStr t.toStr = subjectFromStr t.ns t.obj t.rel t.subjectStr := by
  unfold RelationTuple.fromStr RelationTuple.toStr
  rw [cut_append _ h1]
  simp only
  rw [cut_append _ h2]
  simp only
  rw [cut_append _ h3]

/-- Round trip of the string form on its domain. -/
theorem RelationTuple.fromStr_toStr (t : RelationTuple) (h : DomString t = true) :
    RelationTuple.fromStr t.toStr = .ok t := by
  obtain ⟨ns, obj, rel, sid, sset⟩ := t
  simp only [DomString, Bool.and_eq_true, Bool.not_eq_true'] at h
  obtain ⟨⟨⟨h1, h2⟩, h3⟩, h4⟩ := h
  rw [RelationTuple.fromStr_toStr_of_subject _ h1 h2 h3]
  cases sid with
  | none =>
    cases sset with
    | none => simp at h4
    | some ss =>
      simp only at h4
      obtain ⟨f1, f2, f3, f4⟩ := SubjectSet.toStr_facts ss h4
      simp only [RelationTuple.subjectStr, subjectFromStr]
      simp [trimParens_id f1 f2, f3, f4]
  | some s =>
    cases sset with
    | some ss => simp at h4
    | none =>
      simp only [DomSubjectID, Bool.and_eq_true, Bool.not_eq_true'] at h4
      obtain ⟨⟨g1, g2⟩, g3⟩ := h4
      simp only [RelationTuple.subjectStr, subjectFromStr]
      simp [trimParens_id g2 g3, g1]

/-- Every successful parse lands in the domain of the string form or in the trim class. -/
theorem RelationTuple.fromStr_dom_or_trim {s : Str} {t : RelationTuple}
    (h : RelationTuple.fromStr s = .ok t) : DomString t = true ∨ TrimClass t = true := by
  unfold RelationTuple.fromStr at h
  cases c1 : cut ':' s with
  | none => simp [c1] at h
  | some p1 =>
    obtain ⟨ns, r1⟩ := p1
    simp only [c1] at h
    cases c2 : cut '#' r1 with
    | none => simp [c2] at h
    | some p2 =>
      obtain ⟨obj, r2⟩ := p2
      simp only [c2] at h
      cases c3 : cut '@' r2 with
      | none => simp [c3] at h
      | some p3 =>
        obtain ⟨rel, subject⟩ := p3
        simp only [c3] at h
        have k1 := (cut_some c1).1
        have k2 := (cut_some c2).1
        have k3 := (cut_some c3).1
        have hs := startsParen_trimParens subject
        have he := endsParen_trimParens subject
        unfold subjectFromStr at h
        simp only at h
        by_cases hc : contains ':' (trimParens subject) = true
        · simp only [hc, if_true] at h
          cases hss : SubjectSet.fromStr (trimParens subject) with
          | err e => simp [hss] at h
          | ok ss =>
            simp only [hss, Res.ok.injEq] at h
            subst h
            rcases SubjectSet.fromStr_facts hs he hss with hd | ⟨hr, ho⟩
            · left; simp [DomString, k1, k2, k3, hd]
            · right; simp [TrimClass, hr, ho]
        · simp only [hc, Bool.false_eq_true, if_false, Res.ok.injEq] at h
          subst h
          left
          simp only [Bool.not_eq_true] at hc
          simp [DomString, DomSubjectID, k1, k2, k3, hc, hs, he]

/-- A successful parse always has exactly one subject kind. -/
theorem RelationTuple.fromStr_oneSubject {s : Str} {t : RelationTuple}
    (h : RelationTuple.fromStr s = .ok t) : t.oneSubject = true := by
  rcases RelationTuple.fromStr_dom_or_trim h with hd | ht
  · obtain ⟨ns, obj, rel, sid, sset⟩ := t
    cases sid <;> cases sset <;> simp_all [DomString, RelationTuple.oneSubject]
  · obtain ⟨ns, obj, rel, sid, sset⟩ := t
    unfold RelationTuple.fromStr at h
    cases c1 : cut ':' s with
    | none => simp [c1] at h
    | some p1 =>
      obtain ⟨ns', r1⟩ := p1
      simp only [c1] at h
      cases c2 : cut '#' r1 with
      | none => simp [c2] at h
      | some p2 =>
        obtain ⟨obj', r2⟩ := p2
        simp only [c2] at h
        cases c3 : cut '@' r2 with
        | none => simp [c3] at h
        | some p3 =>
          obtain ⟨rel', subject⟩ := p3
          simp only [c3, subjectFromStr] at h
          split at h
          · split at h
            · simp at h
            · simp only [Res.ok.injEq, RelationTuple.mk.injEq] at h
              obtain ⟨_, _, _, rfl, rfl⟩ := h
              rfl
          · simp only [Res.ok.injEq, RelationTuple.mk.injEq] at h
            obtain ⟨_, _, _, rfl, rfl⟩ := h
            rfl

/-- Disjointness: the trim class lies outside the domain. -/
theorem TrimClass_not_dom (t : RelationTuple) (h : TrimClass t = true) : DomString t = false := by
  obtain ⟨ns, obj, rel, sid, sset⟩ := t
  cases sset with
  | none => simp [TrimClass] at h
  | some ss =>
    simp only [TrimClass, Bool.and_eq_true, decide_eq_true_eq] at h
    cases sid <;> simp [DomString, DomSubjectSet, h.1, h.2]

/-! ### rejects -/

theorem RelationTuple.fromStr_no_colon {s : Str} (h : contains ':' s = false) :
    RelationTuple.fromStr s = .err .malformed := by
  unfold RelationTuple.fromStr
  rw [cut_none h]

theorem RelationTuple.fromStr_no_hash {ns r : Str} (h1 : contains ':' ns = false)
    (h2 : contains '#' r = false) :
    RelationTuple.fromStr (ns ++ ':' :: r) = .err .malformed := by
  unfold RelationTuple.fromStr
  rw [cut_append _ h1]
  simp only
  rw [cut_none h2]

theorem RelationTuple.fromStr_no_at {ns obj r : Str} (h1 : contains ':' ns = false)
    (h2 : contains '#' obj = false) (h3 : contains '@' r = false) :
    RelationTuple.fromStr (ns ++ ':' :: (obj ++ '#' :: r)) = .err .malformed := by
  unfold RelationTuple.fromStr
  rw [cut_append _ h1]
  simp only
  rw [cut_append _ h2]
  simp only
  rw [cut_none h3]

/-! ### exactness: the trim class never survives print / re-parse -/

theorem length_trimLeft_le (s : Str) : (trimLeft s).length ≤ s.length := by
  induction s with
  | nil => simp [trimLeft]
  | cons c cs ih =>
    unfold trimLeft
    split
    · simp only [List.length_cons]; omega
    · simp

theorem length_trimRight_le (s : Str) : (trimRight s).length ≤ s.length := by
  induction s with
  | nil => simp [trimRight]
  | cons c cs ih =>
    unfold trimRight
    cases hr : trimRight cs with
    | nil => simp only; split <;> simp
    | cons d ds => rw [hr] at ih; simp only [List.length_cons] at ih ⊢; omega

theorem length_trimRight_lt {s : Str} (h : endsParen s = true) : (trimRight s).length < s.length := by
  induction s with
  | nil => simp [endsParen] at h
  | cons c cs ih =>
    cases cs with
    | nil => simp only [endsParen] at h; simp [trimRight, h]
    | cons d ds =>
      simp only [endsParen] at h
      have := ih h
      unfold trimRight
      cases hr : trimRight (d :: ds) with
      | nil => simp only; split <;> simp
      | cons e es => rw [hr] at this; simp only [List.length_cons] at this ⊢; omega

theorem length_trimLeft_lt {s : Str} (h : startsParen s = true) : (trimLeft s).length < s.length := by
  cases s with
  | nil => simp [startsParen] at h
  | cons c cs =>
    simp only [startsParen] at h
    simp only [trimLeft, h, if_true, List.length_cons]
    have := length_trimLeft_le cs
    omega

theorem length_trimParens_lt {s : Str} (h : endsParen s = true) : (trimParens s).length < s.length := by
  unfold trimParens
  cases hs : startsParen s with
  | false => rw [trimLeft_id hs]; exact length_trimRight_lt h
  | true =>
    have h1 := length_trimLeft_lt hs
    have h2 := length_trimRight_le (trimLeft s)
    omega

theorem SubjectSet.fromStr_length {s : Str} {ss : SubjectSet} (h : SubjectSet.fromStr s = .ok ss) :
    (ss.ns ++ ':' :: ss.obj).length ≤ s.length := by
  unfold SubjectSet.fromStr at h
  cases hc : cut '#' s with
  | none =>
    simp only [hc] at h
    cases hc2 : cut ':' s with
    | none => simp [hc2] at h
    | some p =>
      obtain ⟨ns, obj⟩ := p
      simp only [hc2, Res.ok.injEq] at h
      subst h
      obtain ⟨_, rfl⟩ := cut_some hc2
      exact Nat.le_refl _
  | some p =>
    obtain ⟨a, b⟩ := p
    simp only [hc] at h
    obtain ⟨_, rfl⟩ := cut_some hc
    cases hc2 : cut ':' a with
    | none => simp [hc2] at h
    | some p =>
      obtain ⟨ns, obj⟩ := p
      simp only [hc2, Res.ok.injEq] at h
      subst h
      obtain ⟨_, rfl⟩ := cut_some hc2
      simp only [List.length_append, List.length_cons]
      omega

/-- Shape of a successful parse: the three cuts and the subject text. -/
theorem RelationTuple.fromStr_shape {s : Str} {t : RelationTuple} (h : RelationTuple.fromStr s = .ok t) :
    ∃ ns obj rel subject, s = ns ++ ':' :: (obj ++ '#' :: (rel ++ '@' :: subject)) ∧
      contains ':' ns = false ∧ contains '#' obj = false ∧ contains '@' rel = false ∧
      subjectFromStr ns obj rel subject = .ok t := by
  unfold RelationTuple.fromStr at h
  cases c1 : cut ':' s with
  | none => simp [c1] at h
  | some p1 =>
    obtain ⟨ns, r1⟩ := p1
    simp only [c1] at h
    cases c2 : cut '#' r1 with
    | none => simp [c2] at h
    | some p2 =>
      obtain ⟨obj, r2⟩ := p2
      simp only [c2] at h
      cases c3 : cut '@' r2 with
      | none => simp [c3] at h
      | some p3 =>
        obtain ⟨rel, subject⟩ := p3
        simp only [c3] at h
        obtain ⟨k1, rfl⟩ := cut_some c1
        obtain ⟨k2, rfl⟩ := cut_some c2
        obtain ⟨k3, rfl⟩ := cut_some c3
        exact ⟨ns, obj, rel, subject, rfl, k1, k2, k3, h⟩

theorem subjectFromStr_fields {ns obj rel subject : Str} {t : RelationTuple}
    (h : subjectFromStr ns obj rel subject = .ok t) :
    t.ns = ns ∧ t.obj = obj ∧ t.rel = rel ∧
    ((t.subjectID = none ∧ ∃ ss, t.subjectSet = some ss ∧ SubjectSet.fromStr (trimParens subject) = .ok ss) ∨
     (t.subjectSet = none ∧ t.subjectID = some (trimParens subject))) := by
  unfold subjectFromStr at h
  simp only at h
  split at h
  · cases hss : SubjectSet.fromStr (trimParens subject) with
    | err e => simp [hss] at h
    | ok ss =>
      simp only [hss, Res.ok.injEq] at h
      subst h
      exact ⟨rfl, rfl, rfl, .inl ⟨rfl, ss, rfl, rfl⟩⟩
  · simp only [Res.ok.injEq] at h
    subst h
    exact ⟨rfl, rfl, rfl, .inr ⟨rfl, rfl⟩⟩

/-- A tuple of the trim class is changed by print / re-parse — the class is exactly where
    the re-parse clause fails. -/
theorem trim_reparse_ne (t : RelationTuple) (hc : TrimClass t = true) :
    RelationTuple.fromStr t.toStr ≠ .ok t := by
  intro h
  obtain ⟨ns, obj, rel, subject, hs, k1, k2, k3, hsub⟩ := RelationTuple.fromStr_shape h
  obtain ⟨e1, e2, e3, hcase⟩ := subjectFromStr_fields hsub
  -- the printed string is cut where it was glued
  have hcut : RelationTuple.fromStr t.toStr = subjectFromStr t.ns t.obj t.rel t.subjectStr :=
    RelationTuple.fromStr_toStr_of_subject t (e1 ▸ k1) (e2 ▸ k2) (e3 ▸ k3)
  rw [hcut] at h
  obtain ⟨_, _, _, hcase2⟩ := subjectFromStr_fields h
  obtain ⟨tns, tobj, trel, sid, sset⟩ := t
  cases sset with
  | none => simp [TrimClass] at hc
  | some ss =>
    simp only [TrimClass, Bool.and_eq_true, decide_eq_true_eq] at hc
    obtain ⟨hr, ho⟩ := hc
    rcases hcase2 with ⟨hid, ss', hss', hparse⟩ | ⟨hnone, _⟩
    · simp only at hid hss'
      subst hid
      simp only [Option.some.injEq] at hss'
      subst hss'
      obtain ⟨a, b, c⟩ := ss
      simp only at hr ho
      subst hr
      have hstr : RelationTuple.subjectStr ⟨tns, tobj, trel, none, some ⟨a, b, []⟩⟩ = a ++ ':' :: b := by
        simp [RelationTuple.subjectStr, SubjectSet.toStr]
      rw [hstr] at hparse
      have hlen := SubjectSet.fromStr_length hparse
      have hends : endsParen (a ++ ':' :: b) = true := by
        rw [endsParen_append_cons, endsParen_cons]
        split
        · next h0 => subst h0; simp [endsParen] at ho
        · exact ho
      have := length_trimParens_lt hends
      simp only at hlen
      omega
    · simp at hnone

/-- `DomString` is exactly the set of tuples that survive print / parse. -/
theorem RelationTuple.fromStr_toStr_iff (t : RelationTuple) :
    RelationTuple.fromStr t.toStr = .ok t ↔ DomString t = true := by
  constructor
  · intro h
    rcases RelationTuple.fromStr_dom_or_trim h with hd | ht
    · exact hd
    · exact absurd h (trim_reparse_ne t ht)
  · exact RelationTuple.fromStr_toStr t

end Keto.Enc
