/-
  Completeness of the engine model, part 5: rewrites (`or` with the union shortcut, `and` with a
  fresh scope per operand), tuple-to-subject-set, and the induction on the fuel
  (`build_complete`): no `!`; any fault oracle; strict mode for conforming stores.

  Helper lemmas only; the property theorems live in Keto/Props/C01complete.lean.
-/
import Keto.Proofs.EngineCompleteAllowed

namespace Keto

/-- "`t` is a member, by a derivation avoiding `V`" -/
@[reducible] def PM (E : Env) (t : Tuple) (V : List VKey) : Prop := ∃ k, MemN E.cfg E.T V k t

/-- "`ch` holds for `t`, by a derivation avoiding `V`" -/
@[reducible] def PH (E : Env) (t : Tuple) (ch : Child) (V : List VKey) : Prop := ∃ k, HoldsN E.cfg E.T V k ch t

theorem PM.ext (E : Env) (t : Tuple) : PExt E t.sub (PM E t) :=
  fun _ _ hext ⟨k, h⟩ => ⟨k, hext.memN rfl h⟩

theorem PH.ext (E : Env) (t : Tuple) (ch : Child) : PExt E t.sub (PH E t ch) :=
  fun _ _ hext ⟨k, h⟩ => ⟨k, hext.holdsN rfl h⟩

/-! ### the union shortcut -/

theorem sc_ok (E : Env) (hs : E.strict = true → conforms E.cfg E.T = true) (n : Nat) (t : Tuple) (d : Int)
    (comps : List String)
    (hcomp : ∀ r, r ∈ comps → (⟨t.ns, t.obj, r, t.sub⟩ : Tuple) ∉ E.T → ∀ c w, Valid c w →
      EagerOK E t.sub (PM E { t with rel := r }) c w (build E n (.isAllowed { t with rel := r } (d - 1) true) c w)) :
    ThunkOK E t.sub (fun V => ∃ r, r ∈ comps ∧ PM E { t with rel := r } V) 0
      (fun rctx w' =>
        let fw := w'.call E
        if fw.1 then (Res.error .storage, fw.2) else
        let rels := comps.filter (fun r => !(E.strict && hasRewriteRel E.cfg t.ns r))
        if !rels.isEmpty && E.T.any (fun x => x.ns == t.ns && x.obj == t.obj && x.sub == t.sub && rels.contains x.rel)
        then (Res.isM, fw.2)
        else
          let gw := relLoop
            (fun r c w'' => runB (build E n (.isAllowed { t with rel := r } (d - 1) true) c w'') c)
            comps none rctx fw.2
          (gResult gw.1, gw.2)) := by
  intro c w hv _
  dsimp only
  have hfr0 : Frame c.vref w (w.call E).2 := Frame.ofCall _ E w
  split
  · exact RunOK.of_decisive hfr0 rfl
  split
  · exact RunOK.of_decisive hfr0 rfl
  · next hcond =>
    have hnT : ∀ r, r ∈ comps → (⟨t.ns, t.obj, r, t.sub⟩ : Tuple) ∉ E.T := by
      intro r hr hm
      cases hflt : (E.strict && hasRewriteRel E.cfg t.ns r) with
      | true =>
        simp only [Bool.and_eq_true] at hflt
        have hrr := hflt.2
        unfold hasRewriteRel at hrr
        split at hrr
        · next R hR =>
          have := conforms_no_rewrite (hs hflt.1) hm hR
          rw [this] at hrr
          cases hrr
        · cases hrr
      | false =>
        apply hcond
        have hrin : r ∈ comps.filter (fun r => !(E.strict && hasRewriteRel E.cfg t.ns r)) := by
          rw [List.mem_filter]
          exact ⟨hr, by rw [hflt]; rfl⟩
        simp only [Bool.and_eq_true, Bool.not_eq_true', List.isEmpty_eq_false_iff, List.any_eq_true]
        refine ⟨List.ne_nil_of_mem hrin, _, hm, ?_⟩
        simp only [beq_self_eq_true, List.contains_iff_mem]
        exact ⟨⟨⟨trivial, trivial⟩, trivial⟩, hrin⟩
    have hloop := relLoop_ok E t.sub
      (fun r c w'' => runB (build E n (.isAllowed { t with rel := r } (d - 1) true) c w'') c)
      (fun r => PM E { t with rel := r }) (fun r => PM.ext E { t with rel := r }) c comps none (w.call E).2
      (hv.frame hfr0) (fun r hr w' hv' => (hcomp r hr (hnT r hr) c w' hv').runB)
    refine ⟨hfr0.trans hloop.1, fun hnd hlim => ?_⟩
    have hgn := gResult_nondec (hloop.2.1 GDec.none) hnd
    obtain ⟨_, hext, hall⟩ := hloop.2.2 hgn hlim
    have hvis : vis c (w.call E).2 = vis c w := vis_heap_eq rfl
    rw [hvis] at hext hall
    exact ⟨hext, fun ⟨r, hr, hp⟩ => hall r hr hp⟩

/-! ### `or` -/

theorem isComputed_eq_true {ch : Child} (h : ch.isComputed = true) : ∃ r, ch = .computed r := by
  cases ch with
  | computed r => exact ⟨r, rfl⟩
  | ttu _ _ => cases h
  | rewrite _ _ => cases h
  | invert _ => cases h

theorem build_rewrite_or_ok (E : Env) (hs : E.strict = true → conforms E.cfg E.T = true)
    (n : Nat) (t : Tuple) (cs : List Child) (d : Int) (ctx : Ctx) (w : World) (hv : Valid ctx w)
    (hcomp : ∀ r, Child.computed r ∈ cs → (⟨t.ns, t.obj, r, t.sub⟩ : Tuple) ∉ E.T → ∀ c w, Valid c w →
      EagerOK E t.sub (PM E { t with rel := r }) c w (build E n (.isAllowed { t with rel := r } (d - 1) true) c w))
    (hch : ∀ ch, ch ∈ cs → ch.isComputed = false → ∀ c w, Valid c w →
      LazyOK E t.sub (PH E t ch) w (build E n (.child t ch d false) c w)) :
    LazyOK E t.sub (PH E t (.rewrite .or cs)) w (build E (n+1) (.rewrite t ⟨.or, cs⟩ d) ctx w) := by
  rw [build]
  split
  · exact ⟨Frame.ofLim _ _, ThunkOK.const_lim _ (by simp)⟩
  · extract_lets isOr comps rest rels sc bw ths
    have hcomps : comps = computedRels cs := rfl
    have hrest : rest = cs.filter (fun c => !c.isComputed) := rfl
    have hths : ths = bw.1 := rfl
    show LazyOK E t.sub _ w (orRun (sc ++ ths), bw.2)
    have hb := buildChildren_ok (fun ch c w' => build E n (Call.child t ch d false) c w') false
      (fun ch lh th => ThunkOK E t.sub (PH E t ch) lh th) (fun _ _ _ _ h hl => h.mono hl) ctx rest w hv
      (fun ch hm w' hv' => by
        simp only [Bool.false_eq_true, if_false]
        rw [hrest, List.mem_filter] at hm
        exact hch ch hm.1 (by simpa using hm.2) ctx w' hv')
    refine ⟨hb.1, ?_⟩
    intro c w' hv' hl
    show RunOK E t.sub _ c w' (orRun (sc ++ ths) c w')
    let Psc : List VKey → Prop := fun V => ∃ r, r ∈ comps ∧ PM E { t with rel := r } V
    have hPsc : PExt E t.sub Psc := fun _ _ hext ⟨r, hr, hp⟩ => ⟨r, hr, PM.ext E { t with rel := r } _ _ hext hp⟩
    have hsc : All2 (fun P th => ThunkOK E t.sub P bw.2.limitHits th ∧ PExt E t.sub P)
        (if comps.isEmpty then [] else [Psc]) sc := by
      simp only [sc]
      cases hce : comps.isEmpty with
      | true => exact .nil
      | false =>
        simp only [Bool.false_eq_true, if_false]
        refine .cons ⟨?_, hPsc⟩ .nil
        refine (sc_ok E hs n t d comps ?_).mono (Nat.zero_le _)
        intro r hr
        exact hcomp r (mem_computedRels (hcomps ▸ hr))
    have hall := All2.append hsc (All2.map_left (PH E t)
      (hb.2.mono (fun ch th h => (⟨h, PH.ext E t ch⟩ :
        ThunkOK E t.sub (PH E t ch) bw.2.limitHits th ∧ PExt E t.sub (PH E t ch)))))
    have hor := orRun_ok E t.sub bw.2.limitHits (ths := sc ++ ths) hall c w' hv' hl
    refine ⟨hor.1, fun hnd hlim => ?_⟩
    obtain ⟨hext, hno⟩ := hor.2 hnd hlim
    refine ⟨hext, ?_⟩
    rintro ⟨k, hh⟩
    cases hh with
    | or _ _ _ ch hm h1 =>
      cases hic : ch.isComputed with
      | false =>
        refine hno (PH E t ch) (List.mem_append_right _ (List.mem_map.2 ⟨ch, ?_, rfl⟩)) ⟨_, h1⟩
        rw [hrest, List.mem_filter]
        exact ⟨hm, by simp [hic]⟩
      | true =>
        obtain ⟨r, rfl⟩ := isComputed_eq_true hic
        have hr : r ∈ comps := hcomps ▸ computedRels_of_mem hm
        have hce : comps.isEmpty = false := by
          cases hcc : comps with
          | nil => rw [hcc] at hr; cases hr
          | cons _ _ => rfl
        refine hno Psc (List.mem_append_left _ (by simp [hce])) ?_
        cases h1 with
        | computed _ _ _ hmem => exact ⟨r, hr, _, hmem⟩

/-! ### `and` -/

theorem build_rewrite_and_ok (E : Env) (n : Nat) (t : Tuple) (cs : List Child) (d : Int) (ctx : Ctx) (w : World)
    (hv : Valid ctx w)
    (hch : ∀ ch, ch ∈ cs → ∀ c w, Valid c w →
      (ch.isComputed = true → EagerOK E t.sub (PH E t ch) c w (build E n (.child t ch d false) c w)) ∧
      (ch.isComputed = false → LazyOK E t.sub (PH E t ch) w (build E n (.child t ch d false) c w))) :
    LazyOK E t.sub (PH E t (.rewrite .and cs)) w (build E (n+1) (.rewrite t ⟨.and, cs⟩ d) ctx w) := by
  rw [build]
  split
  · exact ⟨Frame.ofLim _ _, ThunkOK.const_lim _ (by simp)⟩
  · extract_lets isOr comps rest rels sc bw ths
    have hsc : sc = [] := rfl
    have hrest : rest = cs := rfl
    have hths : ths = bw.1.map withFresh := rfl
    show LazyOK E t.sub _ w (andRun (sc ++ ths), bw.2)
    rw [hsc, List.nil_append, hths]
    have hb := buildChildren_ok (fun ch c w' => build E n (Call.child t ch d false) c w') true
      (fun ch lh th => ThunkOK0 (PH E t ch []) lh (withFresh th)) (fun _ _ _ _ h hl => h.mono hl) ctx rest w hv
      (fun ch hm w' hv' => by
        simp only [if_true]
        rw [hrest] at hm
        have h := hch ch hm (fresh w').1 (fresh w').2 (fresh_valid w')
        cases hic : ch.isComputed with
        | true =>
          obtain ⟨res, he, hr⟩ := h.1 hic
          have hfr : Frame none w' (build E n (Call.child t ch d false) (fresh w').1 (fresh w').2).2 := by
            have := hr.frame
            rw [fresh_vref] at this
            exact (fresh_frame w').trans_new this (Nat.le_refl _)
          refine ⟨hfr, ?_⟩
          rw [he]
          intro c' w'' hl
          refine ⟨fresh_frame w'', fun hd hlim => ?_⟩
          have hlim' : w''.limitHits = 0 := hlim
          have := (hr.neg hd (Nat.le_zero.1 (hlim' ▸ hl))).2
          rw [fresh_vis] at this
          exact this
        | false =>
          obtain ⟨hfr, hth⟩ := h.2 hic
          exact ⟨(fresh_frame w').trans hfr, hth.withFresh⟩)
    refine ⟨hb.1, ?_⟩
    have hall : All2 (fun P th => ThunkOK0 P bw.2.limitHits th) (rest.map (fun ch => PH E t ch []))
        (bw.1.map withFresh) :=
      All2.map_left (fun ch => PH E t ch []) (hb.2.imp (R' := fun ch th => ThunkOK0 (PH E t ch []) bw.2.limitHits th)
        (f := withFresh) (fun _ _ h => h))
    intro c w' hv' hl
    show RunOK E t.sub _ c w' (andRun (bw.1.map withFresh) c w')
    unfold andRun
    split
    · next hemp =>
      refine ⟨Frame.refl _ _, fun _ _ => ⟨Ext.refl _ _, ?_⟩⟩
      rintro ⟨k, hh⟩
      cases hh with
      | and _ _ _ hne _ =>
        apply hne
        rw [← hrest]
        have h1 : bw.1.map withFresh = [] := by simpa using hemp
        have h2 := hall.nil_iff.1 h1
        simpa using h2
    · have hand := andLoop_ok bw.2.limitHits hall c w' hl
      refine ⟨hand.1.weaken, fun hnd hlim => ?_⟩
      have hvis : vis c (andLoop (bw.1.map withFresh) c w').2 = vis c w' := vis_frame hand.1 hv' (Or.inr rfl)
      rw [hvis]
      refine ⟨Ext.refl _ _, ?_⟩
      obtain ⟨P, hP, hn⟩ := hand.2 hnd hlim
      obtain ⟨ch, hm, rfl⟩ := List.mem_map.1 hP
      rw [hrest] at hm
      rintro ⟨k, hh⟩
      cases hh with
      | and _ _ _ _ hall' => exact hn ⟨_, (hall' ch hm).to_nil⟩

/-! ### tuple-to-subject-set -/

theorem build_child_ttu_ok (E : Env) (n : Nat) (t : Tuple) (rel crel : String)
    (d : Int) (inv : Bool) (ctx : Ctx) (w : World)
    (h : ∀ n' o r, (⟨t.ns, t.obj, rel, .set n' o r⟩ : Tuple) ∈ E.T → ∀ c w, Valid c w →
      EagerOK E t.sub (PM E ⟨n', o, crel, t.sub⟩) c w
        (build E n (.isAllowed ⟨n', o, crel, t.sub⟩ (d - 1) false) c w)) :
    LazyOK E t.sub (PH E t (.ttu rel crel)) w (build E (n+1) (.child t (.ttu rel crel) d inv) ctx w) := by
  rw [build]
  dsimp only
  split
  · exact ⟨Frame.ofLim _ _, ThunkOK.const_lim _ (by simp)⟩
  · refine ⟨Frame.refl _ _, ?_⟩
    intro c w' hv' _
    dsimp only
    have hloop := ttuPages_ok E t.sub
      (fun s c w'' => runB (build E n (.isAllowed ⟨s.1, s.2.1, crel, t.sub⟩ (d - 1) false) c w'') c)
      (fun s => PM E ⟨s.1, s.2.1, crel, t.sub⟩) (fun s => PM.ext E ⟨s.1, s.2.1, crel, t.sub⟩) c
      (pagesOf E.pageSize (rowsOf E.T t.ns t.obj rel).length (rowsOf E.T t.ns t.obj rel)) none w' hv'
      (fun p hp x hx n' o r hsx w'' hv'' => by
        obtain ⟨hxT, h1, h2, h3⟩ := mem_rowsOf (mem_pagesOf _ _ _ _ hp x hx)
        refine (h n' o r ?_ c w'' hv'').runB
        rw [← h1, ← h2, ← h3, ← hsx]
        exact hxT)
    refine ⟨hloop.1, fun hnd hlim => ?_⟩
    have hgn := gResult_nondec (hloop.2.1 GDec.none) hnd
    obtain ⟨_, hext, hall⟩ := hloop.2.2 hgn hlim
    refine ⟨hext, ?_⟩
    rintro ⟨k, hh⟩
    cases hh with
    | ttu _ _ _ _ n' o r hT hm =>
      obtain ⟨p, hp, hx⟩ := pagesOf_cover E.pageSize (rowsOf E.T t.ns t.obj rel).length _ _
        (rowsOf_of_mem hT rfl rfl rfl)
      exact hall p hp _ hx n' o r rfl ⟨_, hm⟩

/-! ### the induction -/

/-- Calls that are evaluated while the check is constructed. -/
def Call.eager : Call → Bool
  | .isAllowed _ _ _ => true
  | .child _ (.computed _) _ _ => true
  | _ => false

def Call.sub : Call → Subject
  | .isAllowed t _ _ => t.sub
  | .rewrite t _ _ => t.sub
  | .child t _ _ _ => t.sub
  | .invert t _ _ => t.sub

/-- The claim of a call is derivable avoiding `V`. -/
def Call.PA (E : Env) : Call → List VKey → Prop
  | .isAllowed t _ _ => PM E t
  | .rewrite t rw _ => PH E t (.rewrite rw.op rw.children)
  | .child t ch _ _ => PH E t ch
  | .invert _ _ _ => fun _ => False

/-- `skipDirect` is only passed by callers that have looked the tuple up themselves. -/
def Call.Pre (E : Env) : Call → Prop
  | .isAllowed t _ skip => skip = true → t ∉ E.T
  | _ => True

structure BuildOK (E : Env) (call : Call) (ctx : Ctx) (w : World) (bw : Thunk × World) : Prop where
  eager : call.eager = true → EagerOK E call.sub (call.PA E) ctx w bw
  lazy : call.eager = false → LazyOK E call.sub (call.PA E) w bw

/-- Completeness invariant of the engine model (positive fragment; non-strict mode, or strict mode
    with a conforming store; any fault oracle): see `RunOK`, `EagerOK`, `LazyOK`. -/
theorem build_complete (E : Env) (hc : Cfg.pos E.cfg) (hs : E.strict = true → conforms E.cfg E.T = true) :
    ∀ (fuel : Nat) (call : Call) (ctx : Ctx) (w : World), call.pos = true → call.Pre E → Valid ctx w →
      BuildOK E call ctx w (build E fuel call ctx w) := by
  intro fuel
  induction fuel with
  | zero =>
    intro call ctx w _ _ _
    rw [build]
    exact ⟨fun _ => ⟨_, rfl, RunOK.of_decisive (Frame.refl _ _) rfl⟩,
      fun _ => ⟨Frame.refl _ _, ThunkOK.const_dec _ rfl⟩⟩
  | succ n ih =>
    intro call ctx w hp hpre hv
    cases call with
    | isAllowed t d skip =>
      refine ⟨fun _ => ?_, fun h => by simp [Call.eager] at h⟩
      refine build_isAllowed_ok E hs n t d skip ctx w hv hpre ?_ ?_
      · intro R rw hR hrw
        exact (ih (.rewrite t rw d) ctx w (hc _ _ R rw hR hrw) trivial hv).lazy rfl
      · intro n' o r _ hnT c w' hv'
        exact (ih (.isAllowed ⟨n', o, r, t.sub⟩ (d - 1) true) c w' rfl (fun _ => hnT) hv').eager rfl
    | rewrite t rw d =>
      obtain ⟨op, cs⟩ := rw
      have hpos : Child.posList cs = true := hp
      refine ⟨fun h => by simp [Call.eager] at h, fun _ => ?_⟩
      have hcomp : ∀ r, (⟨t.ns, t.obj, r, t.sub⟩ : Tuple) ∉ E.T → ∀ c w, Valid c w →
          EagerOK E t.sub (PM E { t with rel := r }) c w
            (build E n (.isAllowed { t with rel := r } (d - 1) true) c w) :=
        fun r hnT c w' hv' => (ih (.isAllowed { t with rel := r } (d - 1) true) c w' rfl (fun _ => hnT) hv').eager rfl
      cases op with
      | or =>
        refine build_rewrite_or_ok E hs n t cs d ctx w hv (fun r _ => hcomp r) ?_
        intro ch hm hic c w' hv'
        refine (ih (.child t ch d false) c w' (posList_mem hpos hm) trivial hv').lazy ?_
        cases ch with
        | computed _ => cases hic
        | ttu _ _ => rfl
        | rewrite _ _ => rfl
        | invert _ => rfl
      | and =>
        refine build_rewrite_and_ok E n t cs d ctx w hv ?_
        intro ch hm c w' hv'
        have h := ih (.child t ch d false) c w' (posList_mem hpos hm) trivial hv'
        constructor
        · intro hic
          obtain ⟨r, rfl⟩ := isComputed_eq_true hic
          exact h.eager rfl
        · intro hic
          refine h.lazy ?_
          cases ch with
          | computed _ => cases hic
          | ttu _ _ => rfl
          | rewrite _ _ => rfl
          | invert _ => rfl
    | child t ch d inv =>
      cases ch with
      | ttu rel crel =>
        refine ⟨fun h => by simp [Call.eager] at h, fun _ => ?_⟩
        refine build_child_ttu_ok E n t rel crel d inv ctx w ?_
        intro n' o r _ c w' hv'
        exact (ih (.isAllowed ⟨n', o, crel, t.sub⟩ (d - 1) false) c w' rfl (fun h => by cases h) hv').eager rfl
      | computed rel =>
        refine ⟨fun _ => ?_, fun h => by simp [Call.eager] at h⟩
        rw [build]
        split
        · exact ⟨Res.unk, rfl, RunOK.of_lim (Frame.ofLim _ w) (by simp)⟩
        · have h := (ih (.isAllowed { t with rel := rel } (d - 1) false) ctx w rfl (fun h => by cases h) hv).eager rfl
          refine EagerOK.imp h ?_
          rintro V ⟨k, hh⟩
          cases hh with
          | computed _ _ _ hm => exact ⟨_, hm⟩
      | rewrite op cs =>
        refine ⟨fun h => by simp [Call.eager] at h, fun _ => ?_⟩
        rw [build]
        exact (ih (.rewrite t ⟨op, cs⟩ (if inv then d else d - 1)) ctx w hp trivial hv).lazy rfl
      | invert c => cases hp
    | invert t c d => cases hp

end Keto
