/-
  Exactness of the engine model for ALL configurations, part 2: the two-sided outcome predicate
  `RunX` and the loops (`relLoop`, `ttuRows`, `ttuPages`, `expandLoop`, `orRun`, `andLoop`).

  `RunX E sub PT PF c w out` — what a run at `(c, w)` with outcome `out` establishes when NO limit event
  has happened up to the end of the run:
    * `pos`: an `isMember` answer proves `PT` (the T-spec of the call);
    * `neg`: an answer that is not decisive (no error, not `isMember`) is `notMember` (never `unknown`),
      the visited set of `c` was extended by dead nodes only (`ExtF`) and `PF V` holds for the visited
      set `V` at the START of the run (the F-spec of the call: a refutation that may assume `V`).
  The heap/limit bookkeeping (`Frame`, `Valid`, `vis`, `GDec`) is the one of EngineCompleteFrame.

  Shape of every loop lemma: frame; groups only hold decisive results; if the whole loop ended without
  limit event, an `isMember` in the group proves `Q` (given that it did at the start); and if the group
  is still undecided at the end, it was at the start, every element is refuted w.r.t. the visited set
  at the START of the loop and the visited set was extended by dead nodes only.

  Helper lemmas only; the property theorems live in Keto/Props/C01exact.lean.
-/
import Keto.Proofs.EngineCompleteFrame
import Keto.Proofs.EngineCompleteLoops
import Keto.Proofs.EngineExactLogic

namespace Keto

/-! ### outcomes -/

structure RunX (E : Env) (sub : Subject) (PT : Prop) (PF : List VKey → Prop) (c : Ctx) (w : World)
    (out : Res × World) : Prop where
  frame : Frame c.vref w out.2
  pos : out.1.memb = .isMember → out.2.limitHits = 0 → PT
  neg : out.1.decisive = false → out.2.limitHits = 0 →
    out.1.memb = .notMember ∧ ExtF E.cfg E.T sub (vis c w) (vis c out.2) ∧ PF (vis c w)

/-- A refutation w.r.t. an avoid set extended by dead nodes gives one w.r.t. the original set. -/
def FBack (E : Env) (sub : Subject) (PF : List VKey → Prop) : Prop :=
  ∀ V0 V1, ExtF E.cfg E.T sub V0 V1 → PF V1 → PF V0

theorem RunX.of_lim {E : Env} {sub : Subject} {PT : Prop} {PF : List VKey → Prop} {c : Ctx} {w : World}
    {out : Res × World} (hf : Frame c.vref w out.2) (hl : out.2.limitHits ≠ 0) : RunX E sub PT PF c w out :=
  ⟨hf, fun _ h => absurd h hl, fun _ h => absurd h hl⟩

/-- An error result: nothing is claimed. -/
theorem RunX.of_err {E : Env} {sub : Subject} {PT : Prop} {PF : List VKey → Prop} {c : Ctx} {w : World}
    {out : Res × World} (hf : Frame c.vref w out.2) (k : ErrKind) (he : out.1 = Res.error k) :
    RunX E sub PT PF c w out :=
  ⟨hf, fun h => (by rw [he] at h; cases h), fun h => (by rw [he] at h; cases h)⟩

/-- An `isMember` result. -/
theorem RunX.of_isM {E : Env} {sub : Subject} {PT : Prop} {PF : List VKey → Prop} {c : Ctx} {w : World}
    {out : Res × World} (hf : Frame c.vref w out.2) (he : out.1 = Res.isM) (hp : PT) :
    RunX E sub PT PF c w out :=
  ⟨hf, fun _ _ => hp, fun h => by rw [he] at h; cases h⟩

theorem RunX.imp {E : Env} {sub : Subject} {PT PT' : Prop} {PF PF' : List VKey → Prop} {c : Ctx} {w : World}
    {out : Res × World} (h : RunX E sub PT PF c w out) (hT : PT → PT') (hF : ∀ V, PF V → PF' V) :
    RunX E sub PT' PF' c w out :=
  ⟨h.frame, fun hm hl => hT (h.pos hm hl), fun hd hl =>
    ⟨(h.neg hd hl).1, (h.neg hd hl).2.1, hF _ (h.neg hd hl).2.2⟩⟩

/-- A thunk built when `lh` limit events had happened: whenever it is run later. -/
def ThunkX (E : Env) (sub : Subject) (PT : Prop) (PF : List VKey → Prop) (lh : Nat) (th : Thunk) : Prop :=
  ∀ c w, Valid c w → lh ≤ w.limitHits → RunX E sub PT PF c w (th c w)

theorem ThunkX.mono {E : Env} {sub : Subject} {PT : Prop} {PF : List VKey → Prop} {lh lh' : Nat} {th : Thunk}
    (h : ThunkX E sub PT PF lh th) (hl : lh ≤ lh') : ThunkX E sub PT PF lh' th :=
  fun c w hv hw => h c w hv (Nat.le_trans hl hw)

theorem ThunkX.imp {E : Env} {sub : Subject} {PT PT' : Prop} {PF PF' : List VKey → Prop} {lh : Nat} {th : Thunk}
    (h : ThunkX E sub PT PF lh th) (hT : PT → PT') (hF : ∀ V, PF V → PF' V) : ThunkX E sub PT' PF' lh th :=
  fun c w hv hl => (h c w hv hl).imp hT hF

theorem ThunkX.const_lim {E : Env} {sub : Subject} {PT : Prop} {PF : List VKey → Prop} {lh : Nat} (r : Res)
    (hl : lh ≠ 0) : ThunkX E sub PT PF lh (constT r) :=
  fun _ w _ hw => RunX.of_lim (Frame.refl _ _) (by show w.limitHits ≠ 0; omega)

theorem ThunkX.const_err {E : Env} {sub : Subject} {PT : Prop} {PF : List VKey → Prop} {lh : Nat} (k : ErrKind) :
    ThunkX E sub PT PF lh (constT (Res.error k)) :=
  fun _ _ _ _ => RunX.of_err (Frame.refl _ _) k rfl

/-- A thunk that runs in its own scope (operand of `and`, operand of `!`): nothing existing is
    touched; `isMember` proves `PT`, a non-decisive result proves `PF` (a closed refutation). -/
def ThunkX0 (PT PF : Prop) (lh : Nat) (th : Thunk) : Prop :=
  ∀ c w, lh ≤ w.limitHits →
    Frame none w (th c w).2 ∧
    ((th c w).1.memb = .isMember → (th c w).2.limitHits = 0 → PT) ∧
    ((th c w).1.decisive = false → (th c w).2.limitHits = 0 → (th c w).1.memb = .notMember ∧ PF)

theorem ThunkX0.mono {PT PF : Prop} {lh lh' : Nat} {th : Thunk}
    (h : ThunkX0 PT PF lh th) (hl : lh ≤ lh') : ThunkX0 PT PF lh' th :=
  fun c w hw => h c w (Nat.le_trans hl hw)

/-- Running a thunk in a fresh scope. -/
theorem ThunkX.withFresh {E : Env} {sub : Subject} {PT : Prop} {PF : List VKey → Prop} {lh : Nat} {th : Thunk}
    (h : ThunkX E sub PT PF lh th) : ThunkX0 PT (PF []) lh (withFresh th) := by
  intro c w hw
  have hr := h (fresh w).1 (fresh w).2 (fresh_valid w) hw
  refine ⟨?_, hr.pos, fun hd hl => ?_⟩
  · show Frame none w (th (fresh w).1 (fresh w).2).2
    have := hr.frame
    rw [fresh_vref] at this
    exact (fresh_frame w).trans_new this (Nat.le_refl _)
  · have := hr.neg hd hl
    rw [fresh_vis] at this
    exact ⟨this.1, this.2.2⟩

/-- A constant (a call evaluated while the check was constructed, in a fresh scope), run in a fresh
    scope later. -/
theorem ThunkX0.of_const {E : Env} {sub : Subject} {PT : Prop} {PF : List VKey → Prop} {w0 : World}
    {res : Res} {w1 : World} (hr : RunX E sub PT PF (fresh w0).1 (fresh w0).2 (res, w1)) :
    ThunkX0 PT (PF []) w1.limitHits (Keto.withFresh (constT res)) := by
  intro c' w'' hl
  refine ⟨fresh_frame w'', fun hm hlim => ?_, fun hd hlim => ?_⟩
  · have hlim' : w''.limitHits = 0 := hlim
    exact hr.pos hm (Nat.le_zero.1 (hlim' ▸ hl))
  · have hlim' : w''.limitHits = 0 := hlim
    have := hr.neg hd (Nat.le_zero.1 (hlim' ▸ hl))
    rw [fresh_vis] at this
    exact ⟨this.1, this.2.2⟩

/-- What a group result says when it carries no error. -/
theorem gResult_memb_of_nondec {g : Option Res} (hg : GDec g) (h : (gResult g).decisive = false) :
    (gResult g).memb = .notMember := by
  rw [gResult_nondec hg h]
  rfl

/-! ### loops -/

/-- The candidates loop of the union shortcut. -/
theorem relLoop_x (E : Env) (sub : Subject) (rec : String → Ctx → World → Res × World) (Q : Prop)
    (PF : String → List VKey → Prop) (hPF : ∀ r, FBack E sub (PF r)) (c : Ctx) :
    ∀ (rs : List String) (g : Option Res) (w : World), Valid c w →
      (∀ r, r ∈ rs → ∀ w, Valid c w → RunX E sub Q (PF r) c w (rec r c w)) →
      Frame c.vref w (relLoop rec rs g c w).2 ∧
      (GDec g → GDec (relLoop rec rs g c w).1) ∧
      ((relLoop rec rs g c w).2.limitHits = 0 → GInv (QS Q) g → GInv (QS Q) (relLoop rec rs g c w).1) ∧
      ((relLoop rec rs g c w).1 = none → (relLoop rec rs g c w).2.limitHits = 0 →
        g = none ∧ ExtF E.cfg E.T sub (vis c w) (vis c (relLoop rec rs g c w).2) ∧
        ∀ r, r ∈ rs → PF r (vis c w))
  | [], g, w, _, _ =>
    ⟨Frame.refl _ _, id, fun _ h => h, fun h _ => ⟨h, ExtF.refl _ _, fun _ hr => by cases hr⟩⟩
  | r :: rs, g, w, hv, hrec => by
    simp only [relLoop]
    have h1 := hrec r (List.mem_cons_self ..) w hv
    have ih := relLoop_x E sub rec Q PF hPF c rs (gAdd g (rec r c w).1) (rec r c w).2 (hv.frame h1.frame)
      (fun r' hr' => hrec r' (List.mem_cons_of_mem _ hr'))
    refine ⟨h1.frame.trans ih.1, fun hg => ih.2.1 (hg.gAdd _), fun hlim hg => ?_, fun hnone hlim => ?_⟩
    · exact ih.2.2.1 hlim (hg.gAdd (fun hm => h1.pos hm (lim_zero_of_frame ih.1 hlim)))
    · obtain ⟨hg, hext, hall⟩ := ih.2.2.2 hnone hlim
      obtain ⟨hg0, hd⟩ := gAdd_eq_none hg
      obtain ⟨_, hext1, hneg1⟩ := h1.neg hd (lim_zero_of_frame ih.1 hlim)
      refine ⟨hg0, hext1.trans hext, fun r' hr' => ?_⟩
      cases hr' with
      | head => exact hneg1
      | tail _ hr'' => exact hPF r' _ _ hext1 (hall r' hr'')

/-- Rows of one page of the tuple-to-subject-set listing. -/
theorem ttuRows_x (E : Env) (sub : Subject) (rec : VKey → Ctx → World → Res × World) (Q : Prop)
    (PF : VKey → List VKey → Prop) (hPF : ∀ s, FBack E sub (PF s)) (c : Ctx) :
    ∀ (ts : List Tuple) (g : Option Res) (w : World), Valid c w →
      (∀ t, t ∈ ts → ∀ n o r, t.sub = .set n o r → ∀ w, Valid c w →
        RunX E sub Q (PF (n, o, r)) c w (rec (n, o, r) c w)) →
      Frame c.vref w (ttuRows rec ts g c w).2 ∧
      (GDec g → GDec (ttuRows rec ts g c w).1) ∧
      ((ttuRows rec ts g c w).2.limitHits = 0 → GInv (QS Q) g → GInv (QS Q) (ttuRows rec ts g c w).1) ∧
      ((ttuRows rec ts g c w).1 = none → (ttuRows rec ts g c w).2.limitHits = 0 →
        g = none ∧ ExtF E.cfg E.T sub (vis c w) (vis c (ttuRows rec ts g c w).2) ∧
        ∀ t, t ∈ ts → ∀ n o r, t.sub = .set n o r → PF (n, o, r) (vis c w))
  | [], g, w, _, _ =>
    ⟨Frame.refl _ _, id, fun _ h => h, fun h _ => ⟨h, ExtF.refl _ _, fun _ ht => by cases ht⟩⟩
  | t :: ts, g, w, hv, hrec => by
    have hrest : ∀ t', t' ∈ ts → ∀ n o r, t'.sub = .set n o r → ∀ w, Valid c w →
        RunX E sub Q (PF (n, o, r)) c w (rec (n, o, r) c w) :=
      fun t' ht' => hrec t' (List.mem_cons_of_mem _ ht')
    simp only [ttuRows]
    split
    · next n o r hs =>
      have h1 := hrec t (List.mem_cons_self ..) n o r hs w hv
      have ih := ttuRows_x E sub rec Q PF hPF c ts (gAdd g (rec (n, o, r) c w).1) (rec (n, o, r) c w).2
        (hv.frame h1.frame) hrest
      refine ⟨h1.frame.trans ih.1, fun hg => ih.2.1 (hg.gAdd _), fun hlim hg => ?_, fun hnone hlim => ?_⟩
      · exact ih.2.2.1 hlim (hg.gAdd (fun hm => h1.pos hm (lim_zero_of_frame ih.1 hlim)))
      · obtain ⟨hg, hext, hall⟩ := ih.2.2.2 hnone hlim
        obtain ⟨hg0, hd⟩ := gAdd_eq_none hg
        obtain ⟨_, hext1, hneg1⟩ := h1.neg hd (lim_zero_of_frame ih.1 hlim)
        refine ⟨hg0, hext1.trans hext, fun t' ht' n' o' r' hs' => ?_⟩
        cases ht' with
        | head =>
          rw [hs] at hs'
          cases hs'
          exact hneg1
        | tail _ ht'' => exact hPF _ _ _ hext1 (hall t' ht'' n' o' r' hs')
    · next u hs =>
      have ih := ttuRows_x E sub rec Q PF hPF c ts g w hv hrest
      refine ⟨ih.1, ih.2.1, ih.2.2.1, fun hnone hlim => ?_⟩
      obtain ⟨hg, hext, hall⟩ := ih.2.2.2 hnone hlim
      refine ⟨hg, hext, fun t' ht' n' o' r' hs' => ?_⟩
      cases ht' with
      | head => rw [hs] at hs'; cases hs'
      | tail _ ht'' => exact hall t' ht'' n' o' r' hs'

/-- Page loop of the tuple-to-subject-set listing (a storage fault decides the group). -/
theorem ttuPages_x (E : Env) (sub : Subject) (rec : VKey → Ctx → World → Res × World) (Q : Prop)
    (PF : VKey → List VKey → Prop) (hPF : ∀ s, FBack E sub (PF s)) (c : Ctx) :
    ∀ (ps : List (List Tuple)) (g : Option Res) (w : World), Valid c w →
      (∀ p, p ∈ ps → ∀ t, t ∈ p → ∀ n o r, t.sub = .set n o r → ∀ w, Valid c w →
        RunX E sub Q (PF (n, o, r)) c w (rec (n, o, r) c w)) →
      Frame c.vref w (ttuPages E rec ps g c w).2 ∧
      (GDec g → GDec (ttuPages E rec ps g c w).1) ∧
      ((ttuPages E rec ps g c w).2.limitHits = 0 → GInv (QS Q) g → GInv (QS Q) (ttuPages E rec ps g c w).1) ∧
      ((ttuPages E rec ps g c w).1 = none → (ttuPages E rec ps g c w).2.limitHits = 0 →
        g = none ∧ ExtF E.cfg E.T sub (vis c w) (vis c (ttuPages E rec ps g c w).2) ∧
        ∀ p, p ∈ ps → ∀ t, t ∈ p → ∀ n o r, t.sub = .set n o r → PF (n, o, r) (vis c w))
  | [], g, w, _, _ =>
    ⟨Frame.refl _ _, id, fun _ h => h, fun h _ => ⟨h, ExtF.refl _ _, fun _ hp => by cases hp⟩⟩
  | p :: ps, g, w, hv, hrec => by
    simp only [ttuPages]
    split
    · next x =>
      exact ⟨Frame.refl _ _, id, fun _ h => h, fun h => by cases h⟩
    · have hfr0 : Frame c.vref w (w.call E).2 := Frame.ofCall _ E w
      split
      · exact ⟨hfr0, fun _ x hx => (by cases hx; rfl), fun _ _ => GInv.some ((QS.ok Q).err _),
          fun h => by cases h⟩
      · have hv0 : Valid c (w.call E).2 := hv.frame hfr0
        have hvis0 : vis c (w.call E).2 = vis c w := vis_heap_eq rfl
        have h1 := ttuRows_x E sub rec Q PF hPF c p none (w.call E).2 hv0 (hrec p (List.mem_cons_self ..))
        have ih := ttuPages_x E sub rec Q PF hPF c ps (ttuRows rec p none c (w.call E).2).1
          (ttuRows rec p none c (w.call E).2).2 (hv0.frame h1.1)
          (fun p' hp' => hrec p' (List.mem_cons_of_mem _ hp'))
        refine ⟨(hfr0.trans h1.1).trans ih.1, fun _ => ih.2.1 (h1.2.1 GDec.none), fun hlim _ => ?_,
          fun hnone hlim => ?_⟩
        · exact ih.2.2.1 hlim (h1.2.2.1 (lim_zero_of_frame ih.1 hlim) GInv.none)
        · obtain ⟨hg, hext, hall⟩ := ih.2.2.2 hnone hlim
          obtain ⟨_, hext1, hall1⟩ := h1.2.2.2 hg (lim_zero_of_frame ih.1 hlim)
          rw [hvis0] at hext1 hall1
          refine ⟨rfl, hext1.trans hext, fun p' hp' t ht n o r hs => ?_⟩
          cases hp' with
          | head => exact hall1 t ht n o r hs
          | tail _ hp'' => exact hPF _ _ _ hext1 (hall p' hp'' t ht n o r hs)

/-- The loop of `checkExpandSubject`: the depth-first search proper. A subject set that is already
    marked is skipped (it is in the start set, or it was marked in this loop and is dead); one that
    is not is marked and evaluated; if it is not a member it is dead. -/
theorem expandLoop_x (E : Env) (sub : Subject) (rec : Tuple → Ctx → World → Res × World) (Q : Prop)
    (c : Ctx) (r0 : Nat) (hc : c.vref = some r0) :
    ∀ (ss : List VKey) (g : Option Res) (w : World), Valid c w →
      (∀ s, s ∈ ss → ∀ w, Valid c w →
        RunX E sub Q (fun V => ∃ k, FaE E.cfg E.T k V ⟨s.1, s.2.1, s.2.2, sub⟩) c w
          (rec ⟨s.1, s.2.1, s.2.2, sub⟩ c w)) →
      Frame c.vref w (expandLoop rec sub ss g c w).2 ∧
      (GDec g → GDec (expandLoop rec sub ss g c w).1) ∧
      ((expandLoop rec sub ss g c w).2.limitHits = 0 → GInv (QS Q) g →
        GInv (QS Q) (expandLoop rec sub ss g c w).1) ∧
      ((expandLoop rec sub ss g c w).1 = none → (expandLoop rec sub ss g c w).2.limitHits = 0 →
        g = none ∧ ExtF E.cfg E.T sub (vis c w) (vis c (expandLoop rec sub ss g c w).2) ∧
        ∀ s, s ∈ ss → s ∈ vis c w ∨ DeadF E.cfg E.T sub (vis c w) s)
  | [], g, w, _, _ =>
    ⟨Frame.refl _ _, id, fun _ h => h, fun h _ => ⟨h, ExtF.refl _ _, fun _ hs => by cases hs⟩⟩
  | s :: ss, g, w, hv, hrec => by
    have hrest : ∀ s', s' ∈ ss → ∀ w, Valid c w →
        RunX E sub Q (fun V => ∃ k, FaE E.cfg E.T k V ⟨s'.1, s'.2.1, s'.2.2, sub⟩) c w
          (rec ⟨s'.1, s'.2.1, s'.2.2, sub⟩ c w) :=
      fun s' hs' => hrec s' (List.mem_cons_of_mem _ hs')
    have spec := checkAndAdd_spec c s w r0 hc (hv r0 hc)
    simp only [expandLoop]
    cases hb : (checkAndAdd c s w).1 with
    | true =>
      obtain ⟨hin, hw⟩ := spec.1 hb
      simp only [if_true, hw]
      have ih := expandLoop_x E sub rec Q c r0 hc ss g w hv hrest
      refine ⟨ih.1, ih.2.1, ih.2.2.1, fun hnone hlim => ?_⟩
      obtain ⟨hg, hext, hall⟩ := ih.2.2.2 hnone hlim
      refine ⟨hg, hext, fun s' hs' => ?_⟩
      cases hs' with
      | head => exact Or.inl hin
      | tail _ hs'' => exact hall s' hs''
    | false =>
      obtain ⟨hnin, hvis1, hfr1, _⟩ := spec.2 hb
      simp only [Bool.false_eq_true, if_false]
      rw [← hc] at hfr1
      have hv1 : Valid c (checkAndAdd c s w).2 := hv.frame hfr1
      have h1 := hrec s (List.mem_cons_self ..) (checkAndAdd c s w).2 hv1
      have ih := expandLoop_x E sub rec Q c r0 hc ss
        (gAdd g (rec ⟨s.1, s.2.1, s.2.2, sub⟩ c (checkAndAdd c s w).2).1)
        (rec ⟨s.1, s.2.1, s.2.2, sub⟩ c (checkAndAdd c s w).2).2 (hv1.frame h1.frame) hrest
      refine ⟨(hfr1.trans h1.frame).trans ih.1, fun hg => ih.2.1 (hg.gAdd _), fun hlim hg => ?_,
        fun hnone hlim => ?_⟩
      · exact ih.2.2.1 hlim (hg.gAdd (fun hm => h1.pos hm (lim_zero_of_frame ih.1 hlim)))
      · obtain ⟨hg, hext, hall⟩ := ih.2.2.2 hnone hlim
        obtain ⟨hg0, hd⟩ := gAdd_eq_none hg
        obtain ⟨_, hext1, hneg1⟩ := h1.neg hd (lim_zero_of_frame ih.1 hlim)
        rw [hvis1] at hext1 hneg1
        have hdead : DeadF E.cfg E.T sub (vis c w) s := hneg1
        have hext0 : ExtF E.cfg E.T sub (vis c w)
            (vis c (rec ⟨s.1, s.2.1, s.2.2, sub⟩ c (checkAndAdd c s w).2).2) :=
          (ExtF.cons hdead).trans hext1
        refine ⟨hg0, hext0.trans hext, fun s' hs' => ?_⟩
        cases hs' with
        | head => exact Or.inr hdead
        | tail _ hs'' => exact hext0.mem_or_dead (hall s' hs'')

/-- `or`: all operands run in the scope of the `or`. -/
theorem orRun_x (E : Env) (sub : Subject) (lh : Nat) (Q : Prop) :
    ∀ {Ps : List (List VKey → Prop)} {ths : List Thunk},
      All2 (fun P th => ThunkX E sub Q P lh th ∧ FBack E sub P) Ps ths →
      ∀ (c : Ctx) (w : World), Valid c w → lh ≤ w.limitHits →
        RunX E sub Q (fun V => ∀ P, P ∈ Ps → P V) c w (orRun ths c w)
  | _, _, .nil, c, w, _, _ =>
    ⟨Frame.refl _ _, fun h => (by cases h), fun _ _ => ⟨rfl, ExtF.refl _ _, fun _ hp => by cases hp⟩⟩
  | _, _, .cons (a := P) (b := th) (as := Ps) (bs := ths) h t, c, w, hv, hl => by
    have h1 := h.1 c w hv hl
    simp only [orRun]
    split
    · next hd =>
      exact ⟨h1.frame, h1.pos, fun hnd => by rw [hd] at hnd; cases hnd⟩
    · next hd =>
      have hd' : (th c w).1.decisive = false := by simpa using hd
      have ih := orRun_x E sub lh Q t c (th c w).2 (hv.frame h1.frame) (Nat.le_trans hl h1.frame.lim)
      refine ⟨h1.frame.trans ih.frame, ih.pos, fun hnd hlim => ?_⟩
      obtain ⟨hnm, hext, hall⟩ := ih.neg hnd hlim
      obtain ⟨_, hext1, hneg1⟩ := h1.neg hd' (lim_zero_of_frame ih.frame hlim)
      refine ⟨hnm, hext1.trans hext, fun P' hP' => ?_⟩
      cases hP' with
      | head => exact hneg1
      | tail _ hP'' =>
        obtain ⟨_, _, hR⟩ := t.left P' hP''
        exact hR.2 _ _ hext1 (hall P' hP'')

/-- `and`: every operand runs in its own scope; the loop ends at the first operand that is not a
    member, which refutes the conjunction; if it runs to the end, every operand is a member. -/
theorem andLoop_x (lh : Nat) :
    ∀ {Ps : List (Prop × Prop)} {ths : List Thunk}, All2 (fun P th => ThunkX0 P.1 P.2 lh th) Ps ths →
      ∀ (c : Ctx) (w : World), lh ≤ w.limitHits →
        Frame none w (andLoop ths c w).2 ∧
        ((andLoop ths c w).1.memb = .isMember → (andLoop ths c w).2.limitHits = 0 → ∀ P, P ∈ Ps → P.1) ∧
        ((andLoop ths c w).1.decisive = false → (andLoop ths c w).2.limitHits = 0 →
          (andLoop ths c w).1.memb = .notMember ∧ ∃ P, P ∈ Ps ∧ P.2)
  | _, _, .nil, c, w, _ => ⟨Frame.refl _ _, fun _ _ _ hp => (by cases hp), fun h => by cases h⟩
  | _, _, .cons (a := P) (b := th) (as := Ps) (bs := ths) h t, c, w, hl => by
    have h1 := h c w hl
    simp only [andLoop]
    split
    · next hcond =>
      refine ⟨h1.1, fun hm => (by cases hm), fun hnd hlim => ⟨rfl, P, List.mem_cons_self .., (h1.2.2 ?_ hlim).2⟩⟩
      have herr : (th c w).1.err = none := by
        cases he : (th c w).1.err with
        | none => rfl
        | some e => simp [Res.decisive, he] at hnd
      simp only [herr, Option.isSome_none, Bool.false_or] at hcond
      simp only [Res.decisive, herr, Option.isSome_none, Bool.false_or]
      cases hm : (th c w).1.memb <;> simp [hm] at hcond ⊢
    · next hcond =>
      have hth : (th c w).1.memb = .isMember := by
        cases hmb : (th c w).1.memb <;> simp [hmb] at hcond ⊢
      have ih := andLoop_x lh t c (th c w).2 (Nat.le_trans hl h1.1.lim)
      refine ⟨h1.1.trans ih.1, fun hm hlim P' hP' => ?_, fun hnd hlim => ?_⟩
      · cases hP' with
        | head => exact h1.2.1 hth (lim_zero_of_frame ih.1 hlim)
        | tail _ hP'' => exact ih.2.1 hm hlim P' hP''
      · obtain ⟨hnm, P', hP', hn⟩ := ih.2.2 hnd hlim
        exact ⟨hnm, P', List.mem_cons_of_mem _ hP', hn⟩

end Keto
